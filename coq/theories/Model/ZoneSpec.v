(* Model/ZoneSpec.v — what a zone file denotes (RFC 1035 section 5.1, $TTL of
   RFC 2308, BIND's $GENERATE), written independently of the parser model: an
   abstract zone is a list of entries, [denote] folds over it carrying the
   current origin, the previous owner, and the three sources of a TTL.  Also the
   token skeleton of an entry (what the lexer hands to the parser, positions
   aside) and renderings of a skeleton as text.  Definitions only. *)
From Dns Require Export Model.Zone.
Open Scope N_scope.

(* ---------- abstract zones ---------- *)
(* RDATA as written *)
Inductive rdw :=
| WName (n : bytes)            (* a domain name: relative, absolute or @ *)
| WAddr (text : bytes)         (* an address in its text form *)
| WTxt (l : list bytes)        (* character-strings, each written between quotes *)
| WGen (len : bytes) (hexs : list bytes).    (* \# <length> followed by hex words *)

Record recd := mkRecd {
  d_owner : option bytes;      (* None: omitted, the previous owner is repeated *)
  d_ttl : option bytes;        (* the TTL as written (digits with unit suffixes) *)
  d_class : option N;
  d_ttl_first : bool;          (* when both are given: TTL before class *)
  d_type : N;
  d_rd : rdw }.

Inductive entry :=
| DRec (r : recd)
| DOrigin (n : bytes)
| DTtl (t : bytes).

(* ---------- name completion (RFC 1035 5.1) ---------- *)
(* a name as written is absolute when it ends in a dot that is not escaped *)
Definition complete (origin name : bytes) : bytes :=
  if bytes_eqb name [64] then origin
  else if is_fqdn name then name
  else if bytes_eqb origin [46] then name ++ [46]
  else name ++ [46] ++ origin.

(* ---------- TTL text: decimal numbers with unit suffixes ---------- *)
Definition unit_secs (c : N) : option N :=
  if (c =? 115) || (c =? 83) then Some 1
  else if (c =? 109) || (c =? 77) then Some 60
  else if (c =? 104) || (c =? 72) then Some 3600
  else if (c =? 100) || (c =? 68) then Some 86400
  else if (c =? 119) || (c =? 87) then Some 604800
  else None.
(* value of a TTL text: sum of number*unit, a trailing number counts seconds *)
Fixpoint ttl_value (s : bytes) (acc cur : N) : option N :=
  match s with
  | [] => Some (acc + cur)
  | c :: r =>
    if is_digit c then ttl_value r acc (cur * 10 + (c - 48))
    else match unit_secs c with
         | Some u => ttl_value r (acc + cur * u) 0
         | None => None
         end
  end.
Definition ttl_of_text (s : bytes) : option N := ttl_value s 0 0.

(* ---------- denotation ---------- *)
Record dstate := mkDst {
  s_origin : bytes;
  s_owner : option bytes;      (* previous owner *)
  s_dollar : option N;         (* value of the last $TTL *)
  s_stated : option N;         (* most recently stated TTL on a record *)
  s_default : option N }.      (* configured default *)

Definition first_some (a b c : option N) : option N :=
  match a with Some _ => a | None => match b with Some _ => b | None => c end end.

Definition rd_family_ok (t : N) (w : rdw) : bool :=
  match w, family_of t with
  | WName _, FName _ => true
  | WAddr _, FA => true
  | WAddr _, FAAAA => true
  | WTxt _, FTxt _ => true
  | WGen _ _, _ => negb (known_type t)
  | _, _ => false
  end.

Definition denote_rd (origin : bytes) (t : N) (w : rdw) : option rdata :=
  match w with
  | WName n => Some (RName (complete origin n))
  | WAddr text =>
    match (if t =? 1 then parse_a text else parse_aaaa text) with
    | Some a => Some (RAddr a)
    | None => None
    end
  | WTxt l => Some (RTxt l)
  | WGen _ hs => Some (RGen (concat hs))
  end.

(* one entry: the record it denotes (if any) and the state after it; None when
   the entry has no meaning (no owner to repeat, no TTL to take, bad TTL text) *)
Definition denote1 (st : dstate) (e : entry) : option (list rr * dstate) :=
  match e with
  | DOrigin n =>
    Some ([], mkDst (complete (s_origin st) n) (s_owner st) (s_dollar st) (s_stated st) (s_default st))
  | DTtl t =>
    match ttl_of_text t with
    | Some v => Some ([], mkDst (s_origin st) (s_owner st) (Some v) (s_stated st) (s_default st))
    | None => None
    end
  | DRec r =>
    match (match d_owner r with Some n => Some (complete (s_origin st) n) | None => s_owner st end) with
    | None => None
    | Some owner =>
      let stated := match d_ttl r with Some t => ttl_of_text t | None => None end in
      match (match d_ttl r with
             | Some _ => stated
             | None => first_some (s_dollar st) (s_stated st) (s_default st)
             end) with
      | None => None
      | Some ttl =>
        match denote_rd (s_origin st) (d_type r) (d_rd r) with
        | None => None
        | Some rd =>
          let cls := match d_class r with Some c => c | None => 1 end in
          Some ([mkRR (mkHdr owner (d_type r) cls ttl) rd 0],
                mkDst (s_origin st) (Some owner) (s_dollar st)
                      (match d_ttl r with Some _ => stated | None => s_stated st end) (s_default st))
        end
      end
    end
  end.

Fixpoint denote_go (st : dstate) (es : list entry) : option (list rr) :=
  match es with
  | [] => Some []
  | e :: r =>
    match denote1 st e with
    | None => None
    | Some (recs, st') =>
      match denote_go st' r with Some more => Some (recs ++ more) | None => None end
    end
  end.
Definition denote (origin : bytes) (default : option N) (es : list entry) : option (list rr) :=
  denote_go (mkDst origin None None None default) es.

(* ---------- token skeletons ---------- *)
(* what the parser looks at in a token: its kind; for strings, owners and
   quotes the text; for types and classes the code.  Positions, comments, the
   spelling of a mnemonic and the stale code carried by other tokens are free. *)
Record stok := mkSk { k_val : tval; k_text : bytes; k_torc : N }.
Definition text_matters (v : tval) : bool :=
  match v with ZString | ZOwner | ZQuote => true | _ => false end.
Definition torc_matters (v : tval) : bool :=
  match v with ZRrtpe | ZClass => true | _ => false end.
Definition realizes (t : tok) (k : stok) : Prop :=
  t_val t = k_val k /\ t_err t = false /\ ~ (t_text t = []) /\
  (text_matters (k_val k) = true -> t_text t = k_text k) /\
  (torc_matters (k_val k) = true -> t_torc t = k_torc k).

Definition sk_blank : stok := mkSk ZBlank [32] 0.
Definition sk_nl : stok := mkSk ZNewline [10] 0.
Definition sk_quote : stok := mkSk ZQuote [34] 0.
Definition sk_str (s : bytes) : stok := mkSk ZString s 0.

(* "s" ; the empty string has no string token between the quotes *)
Definition sk_qstr (s : bytes) : list stok :=
  sk_quote :: (match s with [] => [] | _ => [sk_str s] end) ++ [sk_quote].
Fixpoint sk_txt (l : list bytes) : list stok :=
  match l with
  | [] => []
  | [s] => sk_qstr s
  | s :: r => sk_qstr s ++ sk_blank :: sk_txt r
  end.
Fixpoint sk_words (l : list bytes) : list stok :=
  match l with
  | [] => []
  | [s] => [sk_str s]
  | s :: r => sk_str s :: sk_blank :: sk_words r
  end.
Definition sk_rd (w : rdw) : list stok :=
  match w with
  | WName n => [sk_str n]
  | WAddr t => [sk_str t]
  | WTxt l => sk_txt l
  | WGen len hs => sk_str [92; 35] :: sk_blank :: sk_str len ::
                   (match hs with [] => [] | _ => sk_blank :: sk_words hs end)
  end.

Definition sk_rec (r : recd) : list stok :=
  let own := match d_owner r with Some n => [mkSk ZOwner n 0] | None => [] end in
  let ttl := match d_ttl r with Some t => [sk_blank; sk_str t] | None => [] end in
  let cls := match d_class r with Some c => [sk_blank; mkSk ZClass [] c] | None => [] end in
  own ++ (if d_ttl_first r then ttl ++ cls else cls ++ ttl) ++
  [sk_blank; mkSk ZRrtpe [] (d_type r); sk_blank] ++ sk_rd (d_rd r) ++ [sk_nl].
Definition sk_entry (e : entry) : list stok :=
  match e with
  | DRec r => sk_rec r
  | DOrigin n => [mkSk ZDirOrigin [] 0; sk_blank; sk_str n; sk_nl]
  | DTtl t => [mkSk ZDirTTL [] 0; sk_blank; sk_str t; sk_nl]
  end.
Definition sk_zone (es : list entry) : list stok := flat_map sk_entry es.

(* decidable form of [realizes], for the case runner and worked examples *)
Definition realizes_b (t : tok) (k : stok) : bool :=
  tval_eqb (t_val t) (k_val k) && negb (t_err t) && negb (bytes_eqb (t_text t) []) &&
  (if text_matters (k_val k) then bytes_eqb (t_text t) (k_text k) else true) &&
  (if torc_matters (k_val k) then t_torc t =? k_torc k else true).
Fixpoint forall2b {A B} (f : A -> B -> bool) (a : list A) (b : list B) : bool :=
  match a, b with
  | [], [] => true
  | x :: a', y :: b' => f x y && forall2b f a' b'
  | _, _ => false
  end.

(* ---------- $GENERATE templates ---------- *)
(* the text after the range: literal text, the bare iterator $, and modifier
   blocks ${...} (kept as their text between the braces) *)
Inductive gpiece := GLit (s : bytes) | GIter | GMod (text : bytes).
Definition render_piece (p : gpiece) : bytes :=
  match p with
  | GLit s => s
  | GIter => [36]
  | GMod t => [36; 123] ++ t ++ [125]
  end.
Definition render_tpl (tpl : list gpiece) : bytes := flat_map render_piece tpl.
(* what a piece becomes for iterator value i *)
Definition subst_piece (i : Z) (p : gpiece) : bytes :=
  match p with
  | GLit s => s
  | GIter => fmt_int 0 100 i
  | GMod t => match mod_to_printf t with
              | inr (w, b, off) => fmt_int w b (wrap64 (i + off))
              | inl _ => []
              end
  end.
Definition subst_tpl (i : Z) (tpl : list gpiece) : bytes := flat_map (subst_piece i) tpl.
(* the iterator values: start, start+step, ... up to stop (at most n of them) *)
Fixpoint gen_values (n : nat) (cur stop step : Z) : list Z :=
  match n with
  | O => []
  | S k => cur :: (if (stop <? cur + step)%Z then [] else gen_values k (cur + step)%Z stop step)
  end.
