(* Props/C18.v — property C18 (SIG(0)).  Only statements. *)
From Dns Require Import Model.Sig0 Proofs.WireProofs Proofs.Sig0Proofs.
Open Scope N_scope.

Theorem verify_requires_key_fields :
  forall sc r kname buf now, key_fields_bad r = true -> sig0_verify sc r kname buf now = Err "key".
Proof. exact key_fields_bad_err. Qed.
