(* Proofs/DecodeSizeProofs.v — how much the decoders can PRODUCE from arbitrary
   octets: a size measure on decoded values (octets held by names, texts, blobs
   and lists) and the proof that every decoder returns a value whose size is at
   most a fixed multiple of the octets it consumed, whatever the compression
   pointers, RDLENGTHs and section counts claim.

   The measure is a model-level one: it counts the octets of every string and
   blob held by the decoded value, eight octets per integer field, two per type
   code of a bitmap, and one more per element of a list.  The constant size of a
   Go struct per record is not seen by the model; it is covered by the record
   count bound of DecodeMsgProofs (at most one record per input octet). *)
From Dns Require Import Base.ListX Model.Msg Proofs.NameWireProofs Proofs.DecodeNameProofs
  Proofs.DecodeFieldsProofs Proofs.DecodeMsgProofs Proofs.CompressProofs.
From Coq Require Import Lia ZifyN ZifyNat ZifyBool.
Open Scope N_scope.

(* ================= sums and lengths ================= *)
Fixpoint sumN {A} (f : A -> N) (l : list A) : N :=
  match l with [] => 0 | x :: r => f x + sumN f r end.

Lemma sumN_app {A} (f : A -> N) a b : sumN f (a ++ b) = sumN f a + sumN f b.
Proof. induction a as [|x a IH]; cbn [sumN app]; [reflexivity|]. rewrite IH. lia. Qed.
Lemma sumN_snoc {A} (f : A -> N) a x : sumN f (a ++ [x]) = sumN f a + f x.
Proof. rewrite sumN_app. cbn [sumN]. lia. Qed.

Lemma flat_map_len {A} (f : A -> bytes) k (l : list A) :
  (forall x, lenN (f x) <= k) -> lenN (flat_map f l) <= k * lenN l.
Proof.
  intro H. induction l as [|x l IH]; cbn [flat_map]; [rewrite !lenN_nil; lia|].
  rewrite lenN_app, lenN_cons. specialize (H x). lia.
Qed.
Lemma flat_map_lenN {A} (f : A -> list N) k (l : list A) :
  (forall x, lenN (f x) <= k) -> lenN (flat_map f l) <= k * lenN l.
Proof. exact (flat_map_len f k l). Qed.

Lemma lenN_takeN_le {A} n (l : list A) : lenN (takeN n l) <= n.
Proof. unfold lenN, takeN. rewrite firstn_length. lia. Qed.
Lemma lenN_takeN_le' {A} n (l : list A) : lenN (takeN n l) <= lenN l.
Proof. unfold lenN, takeN. rewrite firstn_length. lia. Qed.
Lemma lenN_dropN {A} n (l : list A) : lenN (dropN n l) = lenN l - n.
Proof. unfold lenN, dropN. rewrite skipn_length. lia. Qed.
Lemma lenN_take_at msg off n : lenN (take_at msg off n) <= n.
Proof. apply lenN_takeN_le. Qed.
Lemma lenN_firstn_le {A} n (l : list A) : lenN (firstn n l) <= lenN l.
Proof. unfold lenN. rewrite firstn_length. lia. Qed.

(* ================= the size of a decoded value ================= *)
Definition pair_size (p : N * bytes * N) : N := lenN (snd (fst p)) + 1.
Definition apl_size (p : bool * N * bytes) : N := lenN (snd p) + 1.
Definition str_size (s : bytes) : N := lenN s + 1.

Definition fval_size (v : fval) : N :=
  match v with
  | V_n _ => 8
  | V_s s => lenN s
  | V_ss l => sumN str_size l
  | V_b b => lenN b
  | V_enc b => lenN b
  | V_ns l => 2 * lenN l
  | V_pairs l => sumN pair_size l
  | V_apl l => sumN apl_size l
  end.
Definition vals_size (vs : list fval) : N := sumN fval_size vs.
Definition rdata_size (d : rdata) : N := sumN (fun p => fval_size (snd p)) d.

(* owner text, the ten octets of type, class, TTL and RDLENGTH, the fields *)
Definition rr_fixed : N := 10.
Definition rr_size (r : rr) : N := lenN (rr_name r) + rr_fixed + rdata_size (rr_data r).
Definition q_size (q : question) : N := lenN (q_name q) + 4.
Definition msg_size (m : msg) : N :=
  12 + sumN q_size (m_question m) + sumN rr_size (m_answer m) + sumN rr_size (m_ns m)
     + sumN rr_size (m_extra m).

(* ================= 1. names ================= *)
(* the longest presentation text of a name: 254 wire octets of labels, at least
   four of them length octets, every other octet printed as four characters,
   plus one dot per label: 4 * 250 + 4 *)
Definition name_text_max : N := 1004.

Lemma show_octet_len b : lenN (show_octet b) <= 4.
Proof.
  unfold show_octet, ddd. destruct (label_special b); [cbn; lia|].
  destruct (_ || _); cbn; lia.
Qed.
Lemma show_label_len l : lenN (show_label l) <= 4 * lenN l.
Proof. apply flat_map_len, show_octet_len. Qed.

(* invariant of the label loop: W = 255 - budget wire octets spent on k labels *)
Lemma un_go_text fuel : forall msg off s off1 budget ptr (k : Z) r,
  (Z.of_N (lenN s) + 3 * k <= 4 * (255 - budget))%Z ->
  (255 - budget <= 64 * k)%Z -> (0 <= k)%Z -> (0 < budget)%Z ->
  un_go fuel msg off s off1 budget ptr = Ok r -> lenN (fst r) <= name_text_max.
Proof.
  induction fuel as [|f IH]; intros msg off s off1 budget ptr k r Hs Hk Hk0 Hb H; [discriminate|].
  cbn [un_go] in H.
  destruct (lenN msg <=? off); [discriminate|].
  destruct (nthN msg off 0 <? 64) eqn:H64.
  - destruct (nthN msg off 0 =? 0) eqn:H0.
    + injection H as <-. cbn [fst]. unfold name_text_max.
      destruct s as [|x s]; [cbn; lia|]. lia.
    + destruct (lenN msg <? off + 1 + nthN msg off 0); [discriminate|].
      destruct (_ <=? 0)%Z eqn:Hbud; [discriminate|].
      set (c := nthN msg off 0) in *.
      eapply (IH _ _ _ _ _ _ (k + 1)%Z); [| | | |exact H]; try lia.
      rewrite !lenN_app, lenN_cons, lenN_nil.
      pose proof (show_label_len (takeN c (dropN (off + 1) msg))) as HL.
      pose proof (lenN_takeN_le c (dropN (off + 1) msg)) as HT.
      unfold label, bytes in *. lia.
  - destruct (192 <=? nthN msg off 0); [|discriminate].
    destruct (lenN msg <=? off + 1); [discriminate|].
    destruct (max_pointers <? ptr + 1); [discriminate|].
    eapply (IH _ _ _ _ _ _ k); [| | | |exact H]; lia.
Qed.

Local Opaque un_go.
Local Strategy opaque [unpack_name_fuel un_go].

(* whatever the pointers claim, an accepted name is at most 1004 characters *)
Theorem unpack_name_text_bounded msg off s off' :
  unpack_name msg off = Ok (s, off') -> lenN s <= name_text_max.
Proof.
  intro H. unfold unpack_name in H.
  apply (un_go_text unpack_name_fuel msg off [] 0 _ 0 0%Z (s, off')) in H; [exact H| | | |];
    unfold max_name_wire; cbn; lia.
Qed.

(* ================= 2. field decoders ================= *)
(* character-strings: every octet prints as at most four characters *)
Lemma show_txt_octet_len b : lenN (show_txt_octet b) <= 4.
Proof.
  unfold show_txt_octet, ddd. destruct (_ || _); [cbn; lia|].
  destruct (_ || _); cbn; lia.
Qed.
Lemma show_txt_len l : lenN (show_txt l) <= 4 * lenN l.
Proof. apply flat_map_len, show_txt_octet_len. Qed.

Lemma unpack_string_size msg off s o :
  unpack_string msg off = Ok (s, o) -> off < o /\ lenN s + 4 <= 4 * (o - off).
Proof.
  unfold unpack_string. destruct (lenN msg <? off + 1); [discriminate|].
  destruct (lenN msg <? off + 1 + nthN msg off 0); [discriminate|].
  intro H. injection H as <- <-.
  pose proof (show_txt_len (take_at msg (off + 1) (nthN msg off 0))) as H1.
  pose proof (lenN_take_at msg (off + 1) (nthN msg off 0)) as H2. lia.
Qed.

(* a loop of decoders: if each round yields at most K per octet it consumed, so
   does the whole list *)
Section LoopSize.
  Context {A : Type}.
  Variable step : bytes -> N -> res (A * N).
  Variable msg : bytes.
  Variable g : A -> N.
  Variable K : N.
  Hypothesis step_size : forall off a o, off < lenN msg -> step msg off = Ok (a, o) -> off < o /\ g a <= K * (o - off).

  Lemma loop_size fuel : forall off acc l o,
    loop step msg fuel off acc = Ok (l, o) ->
    off <= o /\ sumN g l <= sumN g acc + K * (o - off).
  Proof.
    induction fuel as [|f IH]; intros off acc l o H; [discriminate|]. cbn [loop] in H.
    destruct (off <? lenN msg) eqn:E.
    - destruct (step msg off) as [[a o1]| | |] eqn:Es; cbn [bind fst snd] in H; try discriminate.
      destruct (step_size off a o1 ltac:(lia) Es) as [S1 S2].
      destruct (IH _ _ _ _ H) as [I1 I2]. rewrite sumN_snoc in I2. split; [lia|].
      replace (o - off) with ((o1 - off) + (o - o1)) by lia. rewrite N.mul_add_distr_l. lia.
    - injection H as <- <-. split; [lia|]. lia.
  Qed.
End LoopSize.

Lemma unpack_txt_size msg off l o :
  unpack_txt msg off = Ok (l, o) -> off <= o /\ sumN str_size l <= 4 * (o - off).
Proof.
  unfold unpack_txt. rewrite unpack_txts_is_loop. intro H.
  apply (loop_size unpack_string msg str_size 4) in H; [cbn [sumN] in H; lia|].
  intros off0 a o0 _ Hs. apply unpack_string_size in Hs. unfold str_size. lia.
Qed.

Lemma unpack_name_size msg off s o :
  unpack_name msg off = Ok (s, o) -> off < o /\ lenN s <= name_text_max * (o - off).
Proof.
  intro H. pose proof (unpack_name_text_bounded _ _ _ _ H) as Hb.
  assert (Hp : off < o).
  { unfold unpack_name in H.
    exact (un_go_progress unpack_name_fuel msg off [] 0 _ 0 off (s, o) (or_introl (conj eq_refl (N.le_refl off))) H). }
  split; [exact Hp|]. unfold name_text_max in *. lia.
Qed.

(* lists of names (HIP rendezvous servers): a two-octet pointer can stand for a
   whole name, so the factor is the name bound itself *)
Lemma unpack_names_size msg off l o :
  unpack_names msg off = Ok (l, o) -> off <= o /\ sumN str_size l <= (name_text_max + 1) * (o - off).
Proof.
  unfold unpack_names. rewrite unpack_names_is_loop. intro H.
  apply (loop_size unpack_name msg str_size (name_text_max + 1)) in H; [cbn [sumN] in H; lia|].
  intros off0 a o0 _ Hs. apply unpack_name_size in Hs. unfold str_size, name_text_max in *. lia.
Qed.

(* address prefix lists: at least four octets for at most sixteen *)
Lemma pad_right_length l : forall n, length (pad_right l n) = n.
Proof.
  intro n. revert l. induction n as [|n IH]; intro l; cbn [pad_right]; [reflexivity|].
  destruct l; cbn [length]; now rewrite IH.
Qed.
Lemma unpack_apl_prefix_size msg off p o :
  unpack_apl_prefix msg off = Ok (p, o) -> off < o /\ apl_size p <= 5 * (o - off).
Proof.
  unfold unpack_apl_prefix. intro H. cbv zeta in H.
  destruct (lenN msg <? off + 2); [discriminate|].
  destruct (lenN msg <? off + 2 + 1); [discriminate|].
  destruct (lenN msg <? off + 2 + 1 + 1); [discriminate|].
  assert (G : forall il, il <= 16 ->
    (if 8 * il <? nthN msg (off + 2) 0 then Err "apl"
     else if il <? nthN msg (off + 2 + 1) 0 mod 128 then Err "apl"
     else if lenN msg <? off + 2 + 1 + 1 + nthN msg (off + 2 + 1) 0 mod 128 then Err "apl"
     else if (0 <? nthN msg (off + 2 + 1) 0 mod 128) &&
             (nthN (take_at msg (off + 2 + 1 + 1) (nthN msg (off + 2 + 1) 0 mod 128))
                   (nthN msg (off + 2 + 1) 0 mod 128 - 1) 0 =? 0) then Err "apl"
     else Ok ((128 <=? nthN msg (off + 2 + 1) 0, nthN msg (off + 2) 0,
               pad_right (take_at msg (off + 2 + 1 + 1) (nthN msg (off + 2 + 1) 0 mod 128)) (N.to_nat il)),
              off + 2 + 1 + 1 + nthN msg (off + 2 + 1) 0 mod 128)) = Ok (p, o) ->
    off < o /\ apl_size p <= 5 * (o - off)).
  { intros il Hil G.
    destruct (8 * il <? _); [discriminate|]. destruct (il <? _); [discriminate|].
    destruct (lenN msg <? _); [discriminate|]. destruct (_ && _); [discriminate|].
    injection G as <- <-. unfold apl_size. cbn [snd]. unfold lenN at 1. rewrite pad_right_length. lia. }
  destruct (be (take_at msg off 2) 0 =? 1); [apply (G 4); [lia|exact H]|].
  destruct (be (take_at msg off 2) 0 =? 2); [apply (G 16); [lia|exact H]|].
  discriminate.
Qed.
Lemma unpack_apl_size msg off l o :
  unpack_apl msg off = Ok (l, o) -> off <= o /\ sumN apl_size l <= 5 * (o - off).
Proof.
  unfold unpack_apl. rewrite unpack_apl_is_loop. intro H.
  apply (loop_size unpack_apl_prefix msg apl_size 5) in H; [cbn [sumN] in H; lia|].
  intros off0 a o0 _ Hs. now apply unpack_apl_prefix_size in Hs.
Qed.

(* type bitmaps: at most eight type codes per bitmap octet *)
Lemma bits_of_len w j b : lenN (bits_of w j b) <= 8.
Proof.
  unfold bits_of.
  pose proof (flat_map_lenN (fun k => if N.testbit b (7 - k) then [w * 256 + j * 8 + k] else []) 1
                            [0;1;2;3;4;5;6;7]) as H.
  change (lenN [0;1;2;3;4;5;6;7]) with 8 in H. rewrite N.mul_1_l in H. apply H.
  intro x. destruct (N.testbit b (7 - x)); cbn; lia.
Qed.
Lemma block_types_len data : forall w j, lenN (block_types w j data) <= 8 * lenN data.
Proof.
  induction data as [|b r IH]; intros w j; cbn [block_types]; [rewrite !lenN_nil; lia|].
  rewrite lenN_app, lenN_cons. pose proof (bits_of_len w j b). specialize (IH w (j + 1)). lia.
Qed.
Lemma unpack_nsec_go_size fuel : forall msg off lw acc l o,
  unpack_nsec_go fuel msg off lw acc = Ok (l, o) ->
  off <= o /\ lenN l <= lenN acc + 8 * (o - off).
Proof.
  induction fuel as [|f IH]; intros msg off lw acc l o H; [discriminate|]. cbn [unpack_nsec_go] in H.
  destruct (off <? lenN msg) eqn:E; [|injection H as <- <-; lia].
  destruct (lenN msg <? off + 2); [discriminate|].
  destruct (_ <=? lw)%Z; [discriminate|].
  destruct (nthN msg (off + 1) 0 =? 0); [discriminate|].
  destruct (32 <? nthN msg (off + 1) 0); [discriminate|].
  destruct (lenN msg <? off + 2 + nthN msg (off + 1) 0); [discriminate|].
  apply IH in H. rewrite lenN_app in H.
  pose proof (block_types_len (take_at msg (off + 2) (nthN msg (off + 1) 0)) (nthN msg off 0) 0) as HB.
  pose proof (lenN_take_at msg (off + 2) (nthN msg (off + 1) 0)) as HT. lia.
Qed.
Lemma unpack_nsec_size msg off l o :
  unpack_nsec msg off = Ok (l, o) -> off <= o /\ 2 * lenN l <= 16 * (o - off).
Proof. unfold unpack_nsec. intro H. apply unpack_nsec_go_size in H. rewrite lenN_nil in H. lia. Qed.

(* ---- EDNS0 options through their views ---- *)
Lemma pad_zero_length l : forall n, length (pad_zero l n) = n.
Proof.
  intro n. revert l. induction n as [|n IH]; intro l; cbn [pad_zero]; [reflexivity|].
  destruct l; cbn [length]; now rewrite IH.
Qed.
Lemma mask_bytes_length ip : forall p, length (mask_bytes ip p) = length ip.
Proof.
  induction ip as [|b r IH]; intro p; cbn [mask_bytes]; [reflexivity|].
  destruct (8 <=? p); cbn [length]; now rewrite IH.
Qed.
Lemma some_inj {A} (a b : A) : Some a = Some b -> a = b.
Proof. congruence. Qed.
Ltac sinj H := apply some_inj in H; rewrite <- H.
Lemma subnet_view_len data b : subnet_view data = Some b -> lenN b <= 20.
Proof.
  unfold subnet_view. cbv zeta. destruct (lenN data <? 4); [discriminate|].
  destruct (_ =? 0).
  { destruct (_ =? 0); [|discriminate]. intro H. apply some_inj in H. rewrite <- H. rewrite !lenN_cons, lenN_nil. lia. }
  destruct (_ =? 1).
  { destruct (_ || _); [discriminate|]. intro H. apply some_inj in H. rewrite <- H.
    rewrite lenN_app, !lenN_cons, lenN_nil.
    match goal with |- context [takeN ?n ?l] => pose proof (lenN_takeN_le' n l) as HT end.
    unfold lenN in HT at 2. rewrite mask_bytes_length, pad_zero_length in HT. lia. }
  destruct (_ =? 2); [|discriminate].
  destruct (_ || _); [discriminate|]. intro H. apply some_inj in H. rewrite <- H.
  rewrite lenN_app, !lenN_cons, lenN_nil.
  match goal with |- context [takeN ?n ?l] => pose proof (lenN_takeN_le' n l) as HT end.
  unfold lenN in HT at 2. rewrite mask_bytes_length, pad_zero_length in HT. lia.
Qed.

(* packDomainName never writes past the buffer it is given *)
Lemma pack_name_plain_le s cap w : pack_name_plain s cap = Ok w -> lenN w <= cap.
Proof.
  unfold pack_name_plain. intro H.
  destruct (pack_name s cap false {| pn_out := []; pn_cm := None |}) as [st| | |] eqn:E; cbn [bind] in H; try discriminate.
  injection H as <-.
  destruct s as [|x r].
  { cbn in E. injection E as <-. cbn. lia. }
  destruct (pack_name_step (x :: r) cap false {| pn_out := []; pn_cm := None |} st ltac:(discriminate) I E) as [ls [b [_ [_ [_ [Hc _]]]]]].
  exact Hc.
Qed.

(* what an option keeps is never more than its octets, a 20-octet subnet, or a
   255-octet name *)
Lemma opt_view_len code data b l :
  opt_view code data = Some (b, l) -> l = lenN b /\ lenN b <= N.max (lenN data) 255.
Proof.
  unfold opt_view.
  set (ret := fun o : option bytes => match o with Some b => Some (b, lenN b) | None => None end).
  assert (R : forall o, ret o = Some (b, l) -> o = Some b /\ l = lenN b).
  { intros [x|]; cbn; [|discriminate]. intro H. injection H as <- <-. auto. }
  pose proof (lenN_firstn_le 18 data) as F18. pose proof (lenN_firstn_le 4 data) as F4.
  intro H.
  repeat match type of H with
         | (if ?c then _ else _) = _ => destruct c eqn:?
         end;
    (first [apply R in H; destruct H as [H ->]; (split; [reflexivity|])
           | injection H as <- <-; split; [reflexivity|lia] ]).
  - destruct (lenN data <? 18); [discriminate|]. sinj H. lia.
  - destruct (lenN data =? 4); [sinj H; lia|].
    destruct (lenN data =? 8); [|discriminate]. destruct (all_zero _); sinj H; lia.
  - apply subnet_view_len in H. lia.
  - destruct (lenN data =? 0); [sinj H; cbn; lia|].
    destruct (lenN data <? 4); [discriminate|]. sinj H. lia.
  - destruct (lenN data =? 0); [sinj H; cbn; lia|].
    destruct (lenN data =? 2); [|discriminate]. destruct (all_zero _); sinj H; cbn; lia.
  - destruct (lenN data <? 2); [discriminate|]. sinj H. lia.
  - destruct (unpack_name data 0) as [[name o]| | |]; try discriminate.
    destruct (pack_name_plain name 255) as [w| | |] eqn:E; try discriminate.
    sinj H. apply pack_name_plain_le in E. lia.
  - destruct (lenN data <? 2); [discriminate|]. sinj H. lia.
Qed.

Lemma unpack_opts_go_size fuel : forall msg off acc l o,
  unpack_opts_go fuel msg off acc = Ok (l, o) ->
  off <= o /\ sumN pair_size l <= sumN pair_size acc + 64 * (o - off).
Proof.
  induction fuel as [|f IH]; intros msg off acc l o H; [discriminate|]. cbn [unpack_opts_go] in H.
  destruct (off <? lenN msg) eqn:E; [|injection H as <- <-; lia].
  destruct (lenN msg <? off + 4); [discriminate|].
  destruct (lenN msg <? off + 4 + _); [discriminate|].
  destruct (opt_view _ _) as [[b n]|] eqn:Ev; [|discriminate].
  apply opt_view_len in Ev. destruct Ev as [_ Ev].
  apply IH in H. rewrite sumN_snoc in H. unfold pair_size at 3 in H. cbn [fst snd] in H.
  match type of Ev with context [take_at ?m ?a ?n] => pose proof (lenN_take_at m a n) as HT end.
  lia.
Qed.
Lemma unpack_opts_size msg off l o :
  unpack_opts msg off = Ok (l, o) -> off <= o /\ sumN pair_size l <= 64 * (o - off).
Proof. unfold unpack_opts. intro H. apply unpack_opts_go_size in H. cbn [sumN] in H. lia. Qed.

(* ---- SVCB parameters through their views: never more than the octets given ---- *)
Lemma ins_n_length x l : length (ins_n x l) = S (length l).
Proof.
  induction l as [|y r IH]; cbn [ins_n]; [reflexivity|].
  destruct (y <=? x); cbn [length]; [now rewrite IH|reflexivity].
Qed.
Lemma sort_n_length l : length (sort_n l) = length l.
Proof.
  unfold sort_n.
  assert (G : forall l acc, length (fold_left (fun a x => ins_n x a) l acc) = (length l + length acc)%nat).
  { clear l. induction l as [|x l IH]; intro acc; cbn [fold_left length]; [reflexivity|].
    rewrite IH, ins_n_length. lia. }
  rewrite G. cbn [length]. lia.
Qed.
Lemma pairs16_length b : forall x,
  (2 * length (pairs16 b) <= length b)%nat /\ (2 * length (pairs16 (x :: b)) <= S (length b))%nat.
Proof.
  induction b as [|y r IH]; intro x.
  - cbn. lia.
  - destruct (IH y) as [I1 I2]. split; [exact I2|]. cbn [pairs16 length]. lia.
Qed.
Lemma flat_map_u16_length l : length (flat_map u16 l) = (2 * length l)%nat.
Proof. induction l as [|x l IH]; cbn [flat_map u16 app length]; [reflexivity|]. rewrite IH. lia. Qed.

Lemma some_pair_inj {A B} (a b : A) (c d : B) : Some (a, c) = Some (b, d) -> a = b /\ c = d.
Proof. intro H. split; congruence. Qed.
Lemma svcb_view_len key data b l :
  svcb_view key data = Some (b, l) -> lenN b <= lenN data /\ l <= lenN data.
Proof.
  unfold svcb_view. cbv zeta. intro H.
  repeat match type of H with
         | (if ?c then _ else _) = _ => destruct c eqn:?; try discriminate
         | match ?c with Some _ => _ | None => _ end = _ => destruct c eqn:?; try discriminate
         end;
    apply some_pair_inj in H; destruct H as [Hb Hl]; rewrite <- Hb, <- Hl; clear Hb Hl;
    try (rewrite ?lenN_nil; lia).
  - split; [|lia]. unfold lenN. rewrite flat_map_u16_length, sort_n_length.
    destruct data as [|x r]; [cbn; lia|]. destruct (pairs16_length r x) as [_ P]. cbn [length]. lia.
Qed.

Lemma unpack_svcb_go_size fuel : forall msg off last acc l o,
  unpack_svcb_go fuel msg off last acc = Ok (l, o) ->
  off <= o /\ sumN pair_size l <= sumN pair_size acc + 1 * (o - off).
Proof.
  induction fuel as [|f IH]; intros msg off last acc l o H; [discriminate|]. cbn [unpack_svcb_go] in H.
  destruct (off <? lenN msg) eqn:E; [|injection H as <- <-; lia].
  destruct (lenN msg <? off + 2); [discriminate|].
  destruct (lenN msg <? off + 2 + 2); [discriminate|].
  destruct (lenN msg <? off + 2 + 2 + _); [discriminate|].
  destruct (svcb_view _ _) as [[b n]|] eqn:Ev; [|discriminate].
  destruct (_ <=? last)%Z; [discriminate|].
  apply svcb_view_len in Ev. destruct Ev as [Ev _].
  apply IH in H. rewrite sumN_snoc in H. unfold pair_size at 3 in H. cbn [fst snd] in H.
  match type of Ev with context [take_at ?m ?a ?n] => pose proof (lenN_take_at m a n) as HT end.
  lia.
Qed.
Lemma unpack_svcb_size msg off l o :
  unpack_svcb msg off = Ok (l, o) -> off <= o /\ sumN pair_size l <= 1 * (o - off).
Proof. unfold unpack_svcb. intro H. apply unpack_svcb_go_size in H. cbn [sumN] in H. lia. Qed.

(* ---- the remaining field kinds ---- *)
Lemma unpack_fixed_size n msg off b o : unpack_fixed n msg off = Ok (b, o) -> o = off + n /\ lenN b <= n.
Proof.
  unfold unpack_fixed. destruct (lenN msg <? off + n); [discriminate|]. intro H. injection H as <- <-.
  split; [reflexivity|apply lenN_take_at].
Qed.
Lemma unpack_to_end_size msg off e b o : unpack_to_end msg off e = Ok (b, o) -> off <= o /\ lenN b <= o - off.
Proof.
  unfold unpack_to_end. destruct (lenN msg <? e); [discriminate|]. destruct (e <? off) eqn:E; [discriminate|].
  intro H. injection H as <- <-. split; [lia|apply lenN_take_at].
Qed.

(* the factor of each field kind: size of the value per octet consumed *)
Definition field_factor (k : fkind) : N :=
  match k with
  | K_u8 => 8 | K_u16 => 4 | K_u32 => 2 | K_u48 => 2 | K_u64 => 1
  | K_name _ => name_text_max
  | K_string => 4
  | K_txt => 4
  | K_octet => 2
  | K_any => 1
  | K_hex _ | K_hexdash _ | K_b64 _ | K_b32 _ => 1
  | K_a | K_aaaa => 1
  | K_nsec => 16
  | K_opt => 64
  | K_svcb => 1
  | K_apl => 5
  | K_names _ => name_text_max + 1
  | K_gateway _ _ _ _ _ => name_text_max
  end.

Lemma octet_text_len (l : bytes) : lenN (flat_map (fun b => if b =? 92 then [92; 92] else [b]) l) <= 2 * lenN l.
Proof. apply flat_map_len. intro x. destruct (x =? 92); cbn; lia. Qed.

Ltac fsize_step H :=
  match type of H with
  | bind ?x _ = Ok _ =>
    let E := fresh "E" in
    destruct x as [[? ?]| | |] eqn:E; cbn [bind fst snd] in H; try discriminate
  end.

(* 2. one statement of a generated unpack(): the values it assigns hold at most
   field_factor k octets per octet consumed (no additive constant: a statement
   that consumes nothing assigns empty values) *)
Theorem unpack_field_size got k msg off vs o :
  unpack_field got k msg off = Ok (vs, o) ->
  off <= o /\ vals_size vs <= field_factor k * (o - off).
Proof.
  unfold vals_size.
  destruct k; cbn [unpack_field field_factor]; cbv zeta; unfold name_text_max; intro H.
  1-5: fsize_step H; fsize_step E; injection H as <- <-; injection E as <- <-;
       match goal with E : unpack_fixed _ _ _ = _ |- _ => apply unpack_fixed_size in E; destruct E as [-> _] end;
       cbn [sumN fval_size]; lia.
  - fsize_step H. fsize_step E. injection H as <- <-. injection E as <- <-.
    apply unpack_name_size in E0. unfold name_text_max in E0. cbn [sumN fval_size]. lia.
  - fsize_step H. fsize_step E. injection H as <- <-. injection E as <- <-.
    apply unpack_string_size in E0. cbn [sumN fval_size]. lia.
  - fsize_step H. injection H as <- <-.
    destruct (unpack_txt msg off) as [[l o1]| | |] eqn:E0; try discriminate. injection E as <- <-.
    apply unpack_txt_size in E0. cbn [sumN fval_size fst snd]. lia.
  - fsize_step H. injection H as <- <-.
    destruct (lenN msg <? off) eqn:E0; [discriminate|]. injection E as <- <-.
    cbn [sumN fval_size]. pose proof (octet_text_len (dropN off msg)) as HO. rewrite lenN_dropN in HO. lia.
  - fsize_step H. fsize_step E. injection H as <- <-. injection E as <- <-.
    apply unpack_to_end_size in E0. cbn [sumN fval_size]. lia.
  - fsize_step H. fsize_step E. injection H as <- <-. injection E as <- <-.
    apply unpack_to_end_size in E0. cbn [sumN fval_size]. lia.
  - fsize_step H. fsize_step E. injection H as <- <-. injection E as <- <-.
    apply unpack_to_end_size in E0. cbn [sumN fval_size]. lia.
  - fsize_step H. fsize_step E. injection H as <- <-. injection E as <- <-.
    apply unpack_to_end_size in E0. cbn [sumN fval_size]. lia.
  - fsize_step H. fsize_step E. injection H as <- <-. injection E as <- <-.
    apply unpack_to_end_size in E0. cbn [sumN fval_size]. lia.
  - fsize_step H. fsize_step E. injection H as <- <-. injection E as <- <-.
    apply unpack_fixed_size in E0. cbn [sumN fval_size]. lia.
  - fsize_step H. fsize_step E. injection H as <- <-. injection E as <- <-.
    apply unpack_fixed_size in E0. cbn [sumN fval_size]. lia.
  - fsize_step H. fsize_step E. injection H as <- <-. injection E as <- <-.
    apply unpack_nsec_size in E0. cbn [sumN fval_size]. lia.
  - fsize_step H. fsize_step E. injection H as <- <-. injection E as <- <-.
    apply unpack_opts_size in E0. cbn [sumN fval_size]. lia.
  - fsize_step H. fsize_step E. injection H as <- <-. injection E as <- <-.
    apply unpack_svcb_size in E0. cbn [sumN fval_size]. lia.
  - fsize_step H. fsize_step E. injection H as <- <-. injection E as <- <-.
    apply unpack_apl_size in E0. cbn [sumN fval_size]. lia.
  - fsize_step H. fsize_step E. injection H as <- <-. injection E as <- <-.
    apply unpack_names_size in E0. unfold name_text_max in E0. cbn [sumN fval_size]. lia.
  - destruct (_ =? gw_v4).
    { fsize_step H. injection H as <- <-. apply unpack_fixed_size in E. cbn [sumN fval_size]. change (lenN (@nil N)) with 0. lia. }
    destruct (_ =? gw_v6).
    { fsize_step H. injection H as <- <-. apply unpack_fixed_size in E. cbn [sumN fval_size]. change (lenN (@nil N)) with 0. lia. }
    destruct (_ =? gw_host).
    { fsize_step H. injection H as <- <-. apply unpack_name_size in E. unfold name_text_max in E.
      cbn [sumN fval_size]. change (lenN (@nil N)) with 0. lia. }
    injection H as <- <-. cbn [sumN fval_size]. change (lenN (@nil N)) with 0. lia.
Qed.

(* ================= 3. records ================= *)
Definition rdata_factor : N := 1005.     (* name_text_max + 1: a list of names *)

Lemma field_factor_le k : field_factor k <= rdata_factor.
Proof. unfold rdata_factor. destruct k; unfold field_factor, name_text_max; lia. Qed.

Lemma rdata_size_app a b : rdata_size (a ++ b) = rdata_size a + rdata_size b.
Proof. apply sumN_app. Qed.
Lemma rdata_size_combine names : forall vs, rdata_size (combine names vs) <= vals_size vs.
Proof.
  unfold rdata_size, vals_size.
  induction names as [|f names IH]; intros [|v vs]; cbn [combine sumN snd]; try lia.
  specialize (IH vs). lia.
Qed.

(* a whole generated unpack(), for ANY field sequence *)
Theorem unpack_fields_size l : forall got msg off d o,
  unpack_fields l got msg off = Ok (d, o) ->
  off <= o /\ rdata_size d <= rdata_size got + rdata_factor * (o - off).
Proof.
  induction l as [|u r IH]; intros got msg off d o H; cbn [unpack_fields] in H.
  { injection H as <- <-. lia. }
  destruct (unpack_field got (uf_kind u) msg off) as [[vs o1]| | |] eqn:E; cbn [bind fst snd] in H; try discriminate.
  apply unpack_field_size in E. destruct E as [E1 E2].
  pose proof (rdata_size_combine (assigned u) vs) as HC.
  pose proof (N.mul_le_mono_r _ _ (o1 - off) (field_factor_le (uf_kind u))) as HK.
  destruct (uf_exit u && (o1 =? lenN msg)).
  - injection H as <- <-. rewrite rdata_size_app. split; [lia|]. lia.
  - apply IH in H. rewrite rdata_size_app in H. unfold rdata_factor in *. lia.
Qed.

Lemma unpack_rr_with_header_size h msg off r o :
  unpack_rr_with_header h msg off = Ok (r, o) ->
  off <= o /\ rr_name r = h_name h /\ rdata_size (rr_data r) <= rdata_factor * (o - off) /\
  (h_rdlength h = 0 -> o = off).
Proof.
  unfold unpack_rr_with_header. destruct (lenN msg <? off); [discriminate|].
  destruct (lenN msg <? off + h_rdlength h); [discriminate|].
  destruct (h_rdlength h =? 0) eqn:E0.
  { intro H. injection H as <- <-. cbn [rr_name rr_data rdata_size sumN].
    split; [lia|split; [reflexivity|split; [lia|reflexivity]]]. }
  destruct (find_layout _ _) as [L|]; [|discriminate].
  destruct (unpack_fields (tl_unpack L) [] msg off) as [[d o1]| | |] eqn:E; cbn [bind fst snd]; try discriminate.
  destruct (o1 =? off + h_rdlength h); [|discriminate].
  intro H. injection H as <- <-. cbn [rr_name rr_data].
  apply unpack_fields_size in E. cbn [rdata_size sumN] in E. split; [lia|split; [reflexivity|split; lia]].
Qed.

Definition rr_factor : N := 1005.

(* UnpackRR: a record that consumed octets holds at most 1005 per octet; the
   only record that consumes nothing is the empty header returned at the very
   end of the message (ten octets of header fields, no name, no data) *)
Theorem unpack_rr_size msg off r o :
  unpack_rr msg off = Ok (r, o) ->
  off <= o /\ rr_size r <= rr_factor * (o - off) + rr_fixed /\
  (o <> off -> rr_size r <= rr_factor * (o - off)).
Proof.
  unfold unpack_rr, unpack_rr_header, rr_size, rr_factor, rr_fixed. intro H.
  destruct (off =? lenN msg) eqn:E0.
  { cbn [bind] in H. apply unpack_rr_with_header_size in H. destruct H as [H1 [H2 [H3 H4]]].
    cbn [h_name h_rdlength] in H2, H4. specialize (H4 eq_refl). rewrite H2. change (lenN (@nil N)) with 0. unfold rdata_factor in *. lia. }
  destruct (unpack_name msg off) as [[n o1]| | |] eqn:En; cbn [bind fst snd] in H; try discriminate.
  destruct (unpack_fixed 2 msg o1) as [[t o2]| | |] eqn:E2; cbn [bind fst snd] in H; try discriminate.
  destruct (unpack_fixed 2 msg o2) as [[c o3]| | |] eqn:E3; cbn [bind fst snd] in H; try discriminate.
  destruct (unpack_fixed 4 msg o3) as [[ttl o4]| | |] eqn:E4; cbn [bind fst snd] in H; try discriminate.
  destruct (unpack_fixed 2 msg o4) as [[rdl o5]| | |] eqn:E5; cbn [bind fst snd] in H; try discriminate.
  destruct (lenN msg <? o5 + be rdl 0); cbn [bind] in H; [discriminate|].
  apply unpack_rr_with_header_size in H. destruct H as [H1 [H2 [H3 _]]]. cbn [h_name] in H2. rewrite H2.
  apply unpack_name_size in En. unfold name_text_max in En.
  apply unpack_fixed_size in E2, E3, E4, E5. unfold rdata_factor in *. lia.
Qed.

(* unpackRRslice: whatever count the header claims *)
Lemma unpack_rr_slice_size l : forall msg off acc rs o,
  unpack_rr_slice l msg off acc = Ok (rs, o) ->
  off <= o /\ sumN rr_size rs <= sumN rr_size acc + rr_factor * (o - off).
Proof.
  induction l as [|l IH]; intros msg off acc rs o H; cbn [unpack_rr_slice] in H.
  { injection H as <- <-. lia. }
  destruct (unpack_rr msg off) as [[r o1]| | |] eqn:E; try discriminate.
  apply unpack_rr_size in E. destruct E as [E1 [_ E2]].
  destruct (o1 =? off) eqn:Eo.
  { injection H as <- <-. lia. }
  apply IH in H. rewrite sumN_snoc in H. specialize (E2 ltac:(lia)). unfold rr_factor in *. lia.
Qed.

(* ================= 4. messages ================= *)
Definition msg_factor : N := 1008.       (* name_text_max + 4: a question cut after its name *)

Lemma unpack_question_size msg off q o :
  unpack_question msg off = Ok (q, o) -> off < o /\ q_size q <= msg_factor * (o - off).
Proof.
  unfold unpack_question, q_size, msg_factor.
  destruct (unpack_name msg off) as [[n o1]| | |] eqn:En; try discriminate.
  apply unpack_name_size in En. unfold name_text_max in En.
  destruct (o1 =? lenN msg).
  { intro H. injection H as <- <-. cbn [q_name]. lia. }
  destruct (unpack_fixed 2 msg o1) as [[t o2]| | |] eqn:E2; cbn [bind fst snd]; try discriminate.
  apply unpack_fixed_size in E2.
  destruct (o2 =? lenN msg).
  { intro H. injection H as <- <-. cbn [q_name]. lia. }
  destruct (unpack_fixed 2 msg o2) as [[c o3]| | |] eqn:E3; cbn [bind fst snd]; try discriminate.
  apply unpack_fixed_size in E3.
  intro H. injection H as <- <-. cbn [q_name]. lia.
Qed.
Lemma unpack_questions_size l : forall msg off acc qs o,
  unpack_questions l msg off acc = Ok (qs, o) ->
  off <= o /\ sumN q_size qs <= sumN q_size acc + msg_factor * (o - off).
Proof.
  induction l as [|l IH]; intros msg off acc qs o H; cbn [unpack_questions] in H.
  { injection H as <- <-. lia. }
  destruct (unpack_question msg off) as [[q o1]| | |] eqn:E; cbn [bind fst snd] in H; try discriminate.
  apply unpack_question_size in E.
  destruct (o1 =? off) eqn:Eo.
  { injection H as <- <-. lia. }
  apply IH in H. rewrite sumN_snoc in H. unfold msg_factor in *. lia.
Qed.

(* Msg.Unpack: the decoded message, complete or cut at a failing section, holds
   at most 1008 octets per input octet *)
Theorem unpack_msg_size bs m e :
  wfb bs -> unpack_msg bs = Ok (m, e) -> msg_size m <= msg_factor * lenN bs.
Proof.
  intros Hm H. unfold unpack_msg in H.
  destruct (unpack_fixed 12 bs 0) as [[h o]| | |] eqn:Eh; cbn [bind] in H; try discriminate.
  assert (Hlen : 12 <= lenN bs).
  { unfold unpack_fixed in Eh. destruct (lenN bs <? 0 + 12) eqn:E; [discriminate|lia]. }
  unfold msg_size, msg_factor.
  destruct (lenN bs =? 12) eqn:E12.
  { injection H as <- <-. cbn [m_question m_answer m_ns m_extra msg_of_bits sumN]. lia. }
  pose proof (unpack_questions_safe (N.to_nat (be (take_at bs (2 * 2) 2) 0)) bs 12 [] Hm Hlen) as Hq.
  destruct (unpack_questions _ bs 12 []) as [[qs o1]| | |] eqn:Eq; try discriminate.
  destruct Hq as [Hq _]. apply unpack_questions_size in Eq. cbn [sumN] in Eq. unfold msg_factor in Eq.
  pose proof (unpack_rr_slice_safe (N.to_nat (be (take_at bs (2 * 3) 2) 0)) bs o1 [] Hm ltac:(lia)) as Ha.
  destruct (unpack_rr_slice _ bs o1 []) as [[an o2]| | |] eqn:Ea; try discriminate.
  2:{ injection H as <- <-. cbn [m_question m_answer m_ns m_extra msg_of_bits sumN]. lia. }
  destruct Ha as [Ha _]. apply unpack_rr_slice_size in Ea. cbn [sumN] in Ea. unfold rr_factor in Ea.
  pose proof (unpack_rr_slice_safe (N.to_nat (be (take_at bs (2 * 4) 2) 0)) bs o2 [] Hm ltac:(lia)) as Hn.
  destruct (unpack_rr_slice _ bs o2 []) as [[ns o3]| | |] eqn:En; try discriminate.
  2:{ injection H as <- <-. cbn [m_question m_answer m_ns m_extra msg_of_bits sumN]. lia. }
  destruct Hn as [Hn _]. apply unpack_rr_slice_size in En. cbn [sumN] in En. unfold rr_factor in En.
  pose proof (unpack_rr_slice_safe (N.to_nat (be (take_at bs (2 * 5) 2) 0)) bs o3 [] Hm ltac:(lia)) as He.
  destruct (unpack_rr_slice _ bs o3 []) as [[ex o4]| | |] eqn:Ee; try discriminate.
  2:{ injection H as <- <-. cbn [m_question m_answer m_ns m_extra msg_of_bits sumN]. lia. }
  destruct He as [He _]. apply unpack_rr_slice_size in Ee. cbn [sumN] in Ee. unfold rr_factor in Ee.
  injection H as <- <-. cbn [m_question m_answer m_ns m_extra msg_of_bits]. lia.
Qed.

(* ================= witnesses ================= *)
(* the longest name: labels of 63, 63, 63 and 61 zero octets (255 wire octets),
   every octet printed as a backslash and three digits: 1004 characters *)
Definition zeros (n : N) : bytes := repeat 0 (N.to_nat n).
Definition long_name_wire : bytes :=
  63 :: zeros 63 ++ 63 :: zeros 63 ++ 63 :: zeros 63 ++ 61 :: zeros 61 ++ [0].
(* a message with one HIP record owned by that name whose rendezvous servers are
   n two-octet pointers to it: the worst expansion the decoders allow *)
Definition amp_msg (n : N) : bytes :=
  [0;0; 0;0; 0;0; 0;1; 0;0; 0;0] ++ long_name_wire ++ u16 55 ++ u16 1 ++ u32 0 ++ u16 (4 + 2 * n)
  ++ [0;0;0;0] ++ flat_map (fun _ : unit => [192; 12]) (repeat tt (N.to_nat n)).
