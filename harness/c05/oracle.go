package main

// Direct oracles for C05, evaluated on the implementation alone.

import (
	"bytes"
	"encoding/hex"
	"fmt"
	"reflect"
	"strconv"
	"strings"

	"github.com/miekg/dns"
	. "verif/harness/common"
)

func packRR(rr dns.RR) ([]byte, error) {
	buf := make([]byte, 70000)
	off, err := dns.PackRR(rr, buf, 0, nil, false)
	if err != nil {
		return nil, err
	}
	return buf[:off], nil
}

// splitPacked splits an uncompressed packed RR into owner, fixed header part
// (type, class, ttl) and RDATA.
func splitPacked(b []byte) (name, fixed, rdata []byte, ok bool) {
	i := 0
	for {
		if i >= len(b) {
			return nil, nil, nil, false
		}
		l := int(b[i])
		if l&0xc0 != 0 {
			return nil, nil, nil, false
		}
		i += 1 + l
		if l == 0 {
			break
		}
	}
	if i+10 > len(b) {
		return nil, nil, nil, false
	}
	return b[:i], b[i : i+8], b[i+10:], true
}

// ---- an independent reader of RFC 1035 master-file text (one logical line) ----

type itok struct {
	quoted bool
	raw    string // text of the token, escapes not interpreted
}

// rfc1035Tokens splits one record's text into tokens following RFC 1035
// section 5.1: blanks separate, "..." is one token, \X and \DDD quote a
// character, ';' starts a comment, parentheses group. It reports a syntax
// problem as a string ("" = fine).
func rfc1035Tokens(text string) ([]itok, string) {
	var toks []itok
	i := 0
	n := len(text)
	for i < n {
		c := text[i]
		switch {
		case c == ' ' || c == '\t':
			i++
		case c == '\n' || c == '\r':
			return toks, "raw-newline"
		case c == ';':
			return toks, "comment"
		case c == '(' || c == ')':
			return toks, "parenthesis"
		case c == '"':
			j := i + 1
			for {
				if j >= n {
					return toks, "unterminated-quote"
				}
				if text[j] == '\\' {
					if j+1 >= n {
						return toks, "dangling-backslash"
					}
					j += 2
					continue
				}
				if text[j] == '"' {
					break
				}
				j++
			}
			toks = append(toks, itok{true, text[i+1 : j]})
			i = j + 1
			if i < n && text[i] != ' ' && text[i] != '\t' {
				return toks, "no-blank-after-quote"
			}
		default:
			j := i
			for j < n {
				d := text[j]
				if d == '\\' {
					if j+1 >= n {
						return toks, "dangling-backslash"
					}
					j += 2
					continue
				}
				if d == ' ' || d == '\t' || d == '\n' || d == '\r' || d == ';' || d == '(' || d == ')' {
					break
				}
				if d == '"' {
					// key="value" (SVCB) is the one place a quote follows text directly
					break
				}
				j++
			}
			toks = append(toks, itok{false, text[i:j]})
			i = j
		}
	}
	return toks, ""
}

// rfcUnescape interprets \DDD (decimal, <= 255) and \X.
func rfcUnescape(s string) ([]byte, bool) {
	var o []byte
	for i := 0; i < len(s); i++ {
		if s[i] != '\\' {
			o = append(o, s[i])
			continue
		}
		if i+1 >= len(s) {
			return nil, false
		}
		if s[i+1] >= '0' && s[i+1] <= '9' {
			if i+3 >= len(s) {
				return nil, false
			}
			v, err := strconv.Atoi(s[i+1 : i+4])
			if err != nil || v > 255 {
				return nil, false
			}
			o = append(o, byte(v))
			i += 3
			continue
		}
		o = append(o, s[i+1])
		i++
	}
	return o, true
}

// nameLabels decodes a presentation-format absolute name independently.
func nameLabels(s string) ([][]byte, bool) {
	if s == "." {
		return nil, true
	}
	var ls [][]byte
	var cur []byte
	for i := 0; i < len(s); i++ {
		switch {
		case s[i] == '.':
			if len(cur) == 0 {
				return nil, false
			}
			ls = append(ls, cur)
			cur = nil
		case s[i] == '\\':
			if i+1 >= len(s) {
				return nil, false
			}
			if s[i+1] >= '0' && s[i+1] <= '9' {
				if i+3 >= len(s) {
					return nil, false
				}
				v, err := strconv.Atoi(s[i+1 : i+4])
				if err != nil || v > 255 {
					return nil, false
				}
				cur = append(cur, byte(v))
				i += 3
			} else {
				cur = append(cur, s[i+1])
				i++
			}
		default:
			cur = append(cur, s[i])
		}
	}
	if len(cur) != 0 {
		return nil, false // not absolute
	}
	return ls, true
}

// textSyntax checks that the printed text uses only RFC 1035 master-file
// syntax and that its header tokens denote the record's header. Returns ""
// or the name of the problem.
func textSyntax(text string, owner []byte, ttl uint32, class, typ uint16) string {
	for i := 0; i < len(text); i++ {
		if c := text[i]; c != '\t' && (c < ' ' || c > '~') {
			return "raw-octet"
		}
	}
	toks, prob := rfc1035Tokens(text)
	if prob != "" {
		return prob
	}
	if len(toks) < 4 {
		return "short-header"
	}
	ls, ok := nameLabels(toks[0].raw)
	if !ok || toks[0].quoted || !bytes.Equal(wireName(ls), owner) {
		return "owner-text"
	}
	if v, err := strconv.ParseUint(toks[1].raw, 10, 32); err != nil || uint32(v) != ttl {
		return "ttl-text"
	}
	cls := toks[2].raw
	if v, ok := dns.StringToClass[cls]; ok {
		if v != class {
			return "class-text"
		}
	} else if !strings.HasPrefix(cls, "CLASS") || cls[5:] != strconv.Itoa(int(class)) {
		return "class-text"
	}
	ty := toks[3].raw
	if v, ok := dns.StringToType[ty]; ok {
		if v != typ {
			return "type-text"
		}
	} else if !strings.HasPrefix(ty, "TYPE") || ty[4:] != strconv.Itoa(int(typ)) {
		return "type-text"
	}
	return ""
}

// ---- the round-trip oracle ----

type outcome struct {
	Kind   string `json:"kind"` // "" = property holds
	Text   string `json:"text,omitempty"`
	Detail string `json:"detail,omitempty"`
}

func short(s string) string {
	if len(s) > 300 {
		return s[:300] + "..."
	}
	return s
}

// reread parses text and compares with want (packed, uncompressed).
func reread(text string, want []byte) outcome {
	var rr2 dns.RR
	var err error
	res := Protect(func() string {
		rr2, err = dns.NewRR(text)
		return ""
	})
	if res == "panic" {
		return outcome{"panic", short(text), "NewRR panicked"}
	}
	if err != nil {
		return outcome{"reject", short(text), err.Error()}
	}
	if rr2 == nil {
		return outcome{"nil", short(text), "NewRR returned no record"}
	}
	p2, err := packRR(rr2)
	if err != nil {
		return outcome{"repack", short(text), err.Error()}
	}
	if bytes.Equal(p2, want) {
		// the same text as one line of a zone, followed by another record: both records come out (a
		// record's parser must stop at the end of its own line)
		if !strings.Contains(text, "\n") {
			var got []dns.RR
			var zerr error
			if Protect(func() string {
				zp := dns.NewZoneParser(strings.NewReader(text+"\nsentinel.follow.example.\t7\tIN\tA\t192.0.2.77\n"), "", "")
				for rr, ok := zp.Next(); ok; rr, ok = zp.Next() {
					got = append(got, rr)
				}
				zerr = zp.Err()
				return ""
			}) == "panic" {
				return outcome{"panic", short(text), "ZoneParser panicked on the record followed by another one"}
			}
			if zerr != nil || len(got) != 2 || got[1].Header().Name != "sentinel.follow.example." {
				return outcome{"follow", short(text), fmt.Sprintf("a zone of this record followed by an A record gives %d records, err=%v", len(got), zerr)}
			}
			if pz, err := packRR(got[0]); err != nil || !bytes.Equal(pz, want) {
				return outcome{"follow", short(text), "the record parsed inside a zone differs from the record parsed alone"}
			}
		}
		return outcome{}
	}
	n1, f1, r1, ok1 := splitPacked(want)
	n2, f2, r2, ok2 := splitPacked(p2)
	switch {
	case !ok1 || !ok2:
		return outcome{"rdata", short(text), "unsplittable"}
	case !bytes.Equal(n1, n2):
		return outcome{"owner", short(text), "owner " + Hx(n2) + " want " + Hx(n1)}
	case !bytes.Equal(f1[0:2], f2[0:2]):
		return outcome{"type", short(text), "type " + Hx(f2[0:2]) + " want " + Hx(f1[0:2])}
	case !bytes.Equal(f1[2:4], f2[2:4]):
		return outcome{"class", short(text), "class " + Hx(f2[2:4]) + " want " + Hx(f1[2:4])}
	case !bytes.Equal(f1[4:8], f2[4:8]):
		return outcome{"ttl", short(text), "ttl " + Hx(f2[4:8]) + " want " + Hx(f1[4:8])}
	}
	return outcome{"rdata", short(text), "rdata " + short(Hx(r2)) + " want " + short(Hx(r1))}
}

// splitHeader splits printed text into its four header columns and the rest.
func splitHeader(text string) (cols [4]string, rest string, ok bool) {
	s := text
	for i := 0; i < 4; i++ {
		j := strings.IndexByte(s, '\t')
		if j < 0 {
			return cols, "", false
		}
		cols[i] = s[:j]
		s = s[j+1:]
	}
	return cols, s, true
}

// checkRecord evaluates every per-record clause of C05 on rr. wire is the
// original wire form when rr came from UnpackRR (nil otherwise). It returns
// the first failing clause.
func checkRecord(rr dns.RR, wire []byte) outcome {
	h := rr.Header()
	var text string
	if Protect(func() string { text = rr.String(); return "" }) == "panic" {
		return outcome{"panic", "", "String panicked"}
	}
	want, err := packRR(rr)
	if err != nil {
		return outcome{"cannot-pack", short(text), err.Error()}
	}
	// (1) String() is accepted and denotes the same record
	if o := reread(text, want); o.Kind != "" {
		return o
	}
	// (1b) and, for a record that came from the wire, the same octets as on the wire
	if wire != nil && !bytes.Equal(want, wire) {
		if o := reread(text, wire); o.Kind != "" {
			o.Kind = "wire-" + o.Kind
			return o
		}
	}
	own, _, rd, ok := splitPacked(want)
	if !ok {
		return outcome{"cannot-split", short(text), ""}
	}
	// (2) only RFC 1035 syntax, header columns readable by an independent reader
	if p := textSyntax(text, own, h.Ttl, h.Class, h.Rrtype); p != "" {
		return outcome{"syntax-" + p, short(text), ""}
	}
	// (3) TYPEnnn / CLASSnnn spellings of the header
	cols, rest, ok := splitHeader(text)
	if !ok {
		return outcome{"syntax-header-columns", short(text), ""}
	}
	tn := "TYPE" + strconv.Itoa(int(h.Rrtype))
	cn := "CLASS" + strconv.Itoa(int(h.Class))
	for _, v := range [][2]string{{cols[2], tn}, {cn, cols[3]}, {cn, tn}, {strings.ToLower(cols[2]), strings.ToLower(cols[3])}} {
		t2 := cols[0] + "\t" + cols[1] + "\t" + v[0] + "\t" + v[1] + "\t" + rest
		if o := reread(t2, want); o.Kind != "" {
			o.Kind = "numeric-header-" + o.Kind
			return o
		}
	}
	// (4) RFC 3597 generic RDATA with either header spelling
	gen := "\\# " + strconv.Itoa(len(rd))
	if len(rd) > 0 {
		gen += " " + hex.EncodeToString(rd)
	}
	for _, v := range [][2]string{{cols[2], cols[3]}, {cn, tn}} {
		t2 := cols[0] + "\t" + cols[1] + "\t" + v[0] + "\t" + v[1] + "\t" + gen
		if o := reread(t2, want); o.Kind != "" {
			o.Kind = "generic-" + o.Kind
			return o
		}
	}
	// the library's own generic printer
	var u dns.RFC3597
	if err := u.ToRFC3597(rr); err == nil {
		if o := reread(u.String(), want); o.Kind != "" {
			o.Kind = "torfc3597-" + o.Kind
			return o
		}
	} else {
		return outcome{"torfc3597-error", short(text), err.Error()}
	}
	// (5) the record read from text is itself printed re-readably
	rr2, _ := dns.NewRR(text)
	if rr2 != nil {
		var t3 string
		if Protect(func() string { t3 = rr2.String(); return "" }) == "panic" {
			return outcome{"text-origin-panic", short(text), ""}
		}
		if o := reread(t3, want); o.Kind != "" {
			o.Kind = "text-origin-" + o.Kind
			return o
		}
	}
	return outcome{}
}

// charStrings returns the character-strings an independent reader finds in
// the RDATA part of text when every RDATA token is a quoted string.
func charStrings(text string) ([][]byte, bool) {
	toks, prob := rfc1035Tokens(text)
	if prob != "" || len(toks) < 4 {
		return nil, false
	}
	var out [][]byte
	for _, t := range toks[4:] {
		if !t.quoted {
			return nil, false
		}
		b, ok := rfcUnescape(t.raw)
		if !ok {
			return nil, false
		}
		out = append(out, b)
	}
	return out, true
}

// rawVariant returns a copy of rr in which character-strings are held as raw
// octets instead of the escaped form UnpackRR produces (what a user filling
// the struct by hand would write), when that denotes the same octets.
func rawVariant(rr dns.RR) (dns.RR, bool) {
	c := dns.Copy(rr)
	changed := false
	var walk func(v reflect.Value)
	conv := func(s string) string {
		b, ok := rfcUnescape(s)
		if !ok || bytes.IndexByte(b, '\\') >= 0 || string(b) == s {
			return s
		}
		changed = true
		return string(b)
	}
	walk = func(v reflect.Value) {
		t := v.Type()
		for i := 0; i < t.NumField(); i++ {
			f := t.Field(i)
			if f.Name == "Hdr" {
				continue
			}
			if f.Anonymous && f.Type.Kind() == reflect.Struct {
				walk(v.Field(i))
				continue
			}
			tag := f.Tag.Get("dns")
			switch {
			case tag == "" && f.Type.Kind() == reflect.String:
				v.Field(i).SetString(conv(v.Field(i).String()))
			case tag == "txt":
				sl := v.Field(i)
				for j := 0; j < sl.Len(); j++ {
					sl.Index(j).SetString(conv(sl.Index(j).String()))
				}
			}
		}
	}
	walk(reflect.ValueOf(c).Elem())
	return c, changed
}

// ---- reporting ----

type violIn struct {
	Type    string            `json:"type"`
	Origin  string            `json:"origin"`
	Classes map[string]string `json:"classes,omitempty"`
	Wire    string            `json:"wire_hex,omitempty"`
	Text    string            `json:"text,omitempty"`
	Detail  string            `json:"detail,omitempty"`
}

func typeName(t uint16) string {
	if s, ok := dns.TypeToString[t]; ok {
		return s
	}
	return fmt.Sprintf("TYPE%d", t)
}
