package main

// C14, "the handler is invoked exactly once WITH THE DECODED REQUEST" - while the server goes on
// receiving.
//
// Every serve run of this harness so far had handlers that look at their request once, on entry, and
// return at once; the next datagram was delivered when the previous one had been answered. The
// property is quantified over schedules too ("concurrent ... ServeDNS"): handlers run concurrently
// with the read loop, and the UDP read loop decodes straight out of a recycled receive buffer that
// it hands back BEFORE the handler is called. A request whose decoding kept a reference into that
// buffer (instead of a copy) is the decoded request only until the next datagram is read into the
// same memory; after that the handler of datagram A is working on octets of datagram B. Whether a
// field is copied is decided per field kind in the decoders (one unpack function per record type,
// per EDNS0 option, per SVCB parameter), so the class has to cover EVERY kind of field a request
// can carry - and a handler that is still running when later datagrams arrive and looks at ALL of
// its request again.
//
// The class, in general form: requests that pass the default policy (one question, <= 1 answer,
// <= 1 authority, <= 2 additional records) and carry between them
//   * an OPT record with every EDNS0 option code 0..20 and local / unassigned ones (each with a
//     value its layout admits, each alone and all together),
//   * SVCB and HTTPS records with every parameter key 0..9 and private ones (each alone and all
//     together),
//   * one generated record of every registered type (TXT, NULL, NSEC bitmaps, APL, IPSECKEY, ...)
//     and of unknown types (RFC 3597), in the answer, authority and additional section;
// through the real serveUDP loop (scripted PacketConn, server buffers of 4096 / 1232 / 65535 octets),
// every handler parked on a channel until ALL later datagrams of the session - further such
// requests and long filler queries whose padding is all-ones / all-zeros - have been received and
// the fillers answered. Single P and no garbage collection for the length of a session and datagram
// k+1 delivered when handler k has been entered, so that sync.Pool hands the buffer of a parked
// request to the read after next (the harness records which buffer each datagram lands in and counts
// the parked requests whose buffer was reused while they were parked: `alias_parked_buffer_reused`).
//
// Oracle, from the property text: on entry the handler's request is the decoding of its datagram
// (deep fingerprint over every field - reflection, unexported ones too - equal to that of an
// independent Unpack of a private copy of the octets); when the handler is released the same
// fingerprint is taken again and must not have changed; each request reaches a handler once.
// Nothing here depends on the schedule for soundness: a request that owns its memory cannot change.
//
// No model case: the model's handler event carries the decoded request as a value (`h:<digest>`);
// aliasing is a property of the implementation's memory, observed directly.

import (
	"encoding/binary"
	"fmt"
	"net"
	"reflect"
	"runtime"
	"runtime/debug"
	"sort"
	"strings"
	"sync"
	"sync/atomic"
	"time"

	"github.com/miekg/dns"
	. "verif/harness/common"
	"verif/harness/netfake"
)

// deepPrint writes every value reachable from v (fields of any visibility, slice and string
// CONTENTS as they are in memory now) into sb.
func deepPrint(sb *strings.Builder, v reflect.Value, depth int) {
	if depth > 12 {
		sb.WriteString("<deep>")
		return
	}
	switch v.Kind() {
	case reflect.Bool:
		fmt.Fprintf(sb, "%v,", v.Bool())
	case reflect.Int, reflect.Int8, reflect.Int16, reflect.Int32, reflect.Int64:
		fmt.Fprintf(sb, "%d,", v.Int())
	case reflect.Uint, reflect.Uint8, reflect.Uint16, reflect.Uint32, reflect.Uint64, reflect.Uintptr:
		fmt.Fprintf(sb, "%d,", v.Uint())
	case reflect.String:
		fmt.Fprintf(sb, "%q,", v.String())
	case reflect.Slice, reflect.Array:
		if v.Type().Elem().Kind() == reflect.Uint8 {
			sb.WriteString("x")
			for i := 0; i < v.Len(); i++ {
				fmt.Fprintf(sb, "%02x", v.Index(i).Uint())
			}
			sb.WriteString(",")
			return
		}
		fmt.Fprintf(sb, "[%d:", v.Len())
		for i := 0; i < v.Len(); i++ {
			deepPrint(sb, v.Index(i), depth+1)
		}
		sb.WriteString("]")
	case reflect.Struct:
		sb.WriteString(v.Type().Name() + "{")
		for i := 0; i < v.NumField(); i++ {
			sb.WriteString(v.Type().Field(i).Name + "=")
			deepPrint(sb, v.Field(i), depth+1)
		}
		sb.WriteString("}")
	case reflect.Ptr, reflect.Interface:
		if v.IsNil() {
			sb.WriteString("nil,")
			return
		}
		deepPrint(sb, v.Elem(), depth+1)
	case reflect.Map:
		keys := v.MapKeys()
		var parts []string
		for _, k := range keys {
			var kb strings.Builder
			deepPrint(&kb, k, depth+1)
			kb.WriteString("=>")
			deepPrint(&kb, v.MapIndex(k), depth+1)
			parts = append(parts, kb.String())
		}
		sort.Strings(parts)
		sb.WriteString("map{" + strings.Join(parts, "") + "}")
	default:
		sb.WriteString("<" + v.Kind().String() + ">")
	}
}

func fingerprint(m *dns.Msg) string {
	var sb strings.Builder
	deepPrint(&sb, reflect.ValueOf(m), 0)
	return sb.String()
}

// firstDiff: where two fingerprints part (for the report).
func firstDiff(a, b string) string {
	i := 0
	for i < len(a) && i < len(b) && a[i] == b[i] {
		i++
	}
	lo := i - 60
	if lo < 0 {
		lo = 0
	}
	cut := func(s string) string {
		hi := i + 60
		if hi > len(s) {
			hi = len(s)
		}
		return s[lo:hi]
	}
	return fmt.Sprintf("at %d: before %q / after %q", i, cut(a), cut(b))
}

// ---- raw builders (the decoder decides which struct each option / parameter becomes)

func rawOption(code uint16, v []byte) []byte {
	b := binary.BigEndian.AppendUint16(nil, code)
	b = binary.BigEndian.AppendUint16(b, uint16(len(v)))
	return append(b, v...)
}

// optionValue: a value the layout of option `code` admits, filled from r.
func optionValue(r *Rng, code uint16) []byte {
	switch code {
	case dns.EDNS0LLQ:
		return r.Bytes(18)
	case dns.EDNS0UL:
		return r.Bytes([]int{4, 8}[r.Intn(2)])
	case dns.EDNS0SUBNET:
		if r.Bool() {
			return append([]byte{0, 1, 24, 0}, r.Bytes(3)...)
		}
		v := append([]byte{0, 2, 56, 0}, r.Bytes(7)...)
		v[4] = 0x20
		return v
	case dns.EDNS0EXPIRE:
		return r.Bytes(4)
	case dns.EDNS0COOKIE:
		return r.Bytes([]int{8, 16, 24, 40}[r.Intn(4)])
	case dns.EDNS0TCPKEEPALIVE:
		return r.Bytes(2)
	case dns.EDNS0EDE:
		return append(r.Bytes(2), []byte("extra text "+Hx(r.Bytes(6)))...)
	case 18: // report-channel: a domain name
		return []byte{5, 'a', 'g', 'e', 'n', 't', 7, 'e', 'x', 'a', 'm', 'p', 'l', 'e', 0}
	case 19: // zoneversion
		return append([]byte{2, 0}, r.Bytes(4)...)
	}
	return r.Bytes(1 + r.Intn(40))
}

var aliasOptionCodes = []uint16{0, 1, 2, 3, 4, 5, 6, 7, 8, 9, 10, 11, 12, 13, 14, 15, 16, 17, 18, 19, 20, 26946, 40000, 65001, 65534, 65535}

func svcbParamValue(r *Rng, key uint16) []byte {
	switch key {
	case 0: // mandatory
		return []byte{0, 1, 0, 3}
	case 1: // alpn
		return append(append([]byte{2}, 'h', '2'), append([]byte{5}, []byte("h3-"+Hx(r.Bytes(1)))...)...)
	case 2, 8:
		return nil
	case 3:
		return r.Bytes(2)
	case 4:
		return r.Bytes(4 * (1 + r.Intn(3)))
	case 6:
		v := r.Bytes(16 * (1 + r.Intn(2)))
		v[0] = 0x20
		if len(v) > 16 {
			v[16] = 0x20
		}
		return v
	case 7:
		return []byte("/dns-query{?dns}" + Hx(r.Bytes(3)))
	}
	return r.Bytes(1 + r.Intn(30))
}

var aliasSvcbKeys = []uint16{0, 1, 2, 3, 4, 5, 6, 7, 8, 9, 10, 100, 65280, 65534}

func svcbRdata(r *Rng, keys []uint16) []byte {
	rd := []byte{0, 1, 0} // priority 1, target root
	for _, k := range keys {
		v := svcbParamValue(r, k)
		rd = binary.BigEndian.AppendUint16(rd, k)
		rd = binary.BigEndian.AppendUint16(rd, uint16(len(v)))
		rd = append(rd, v...)
	}
	return rd
}

type aliasReq struct {
	wire []byte
	what string
	ref  string // fingerprint of an independent decoding
}

// aliasRequests: the requests of the class; anything an independent Unpack refuses, or that the
// default policy would not admit, is dropped here (counted), so that every request of a session is
// due a handler call.
func aliasRequests(r *Rng, limit int) []aliasReq {
	var out []aliasReq
	seq := 0
	add := func(what string, wire []byte) {
		if len(wire) > limit {
			stat["alias_request_too_long"]++
			return
		}
		ref := new(dns.Msg)
		if Protect(func() string {
			if err := ref.Unpack(append([]byte(nil), wire...)); err != nil {
				return "err"
			}
			return ""
		}) != "" {
			stat["alias_request_does_not_decode"]++
			return
		}
		h, _ := hdrOf(wire)
		if expectedDefault(h) != dns.MsgAccept {
			stat["alias_request_not_admitted"]++
			return
		}
		out = append(out, aliasReq{wire, what, fingerprint(ref)})
	}
	rawRec := func(what string, sec int, typ, class uint16, rd []byte) {
		seq++
		add(what, framedQuery(uint16(0x4000+seq), sec, seq%2 == 0, typ, class, rd, len(rd), seq%3 == 0 && sec != secAdditional))
	}
	// every EDNS0 option code, alone
	var good []uint16
	for _, c := range aliasOptionCodes {
		n := len(out)
		rawRec(fmt.Sprintf("opt-code-%d", c), secAdditional, dns.TypeOPT, 4096, rawOption(c, optionValue(r, c)))
		if len(out) > n {
			good = append(good, c)
		}
	}
	// all together, twice (fresh values), once in reverse order
	for rep := 0; rep < 2; rep++ {
		var rd []byte
		for i := range good {
			c := good[i]
			if rep == 1 {
				c = good[len(good)-1-i]
			}
			rd = append(rd, rawOption(c, optionValue(r, c))...)
		}
		rawRec("opt-all-codes", secAdditional, dns.TypeOPT, 1232, rd)
	}
	// every SVCB / HTTPS parameter key
	var goodK []uint16
	for _, k := range aliasSvcbKeys {
		n := len(out)
		rawRec(fmt.Sprintf("svcb-key-%d", k), secAnswer, dns.TypeSVCB, 1, svcbRdata(r, []uint16{k}))
		if len(out) > n {
			goodK = append(goodK, k)
		}
		rawRec(fmt.Sprintf("https-key-%d", k), secAdditional, dns.TypeHTTPS, 1, svcbRdata(r, []uint16{k}))
	}
	rawRec("svcb-all-keys", secAuthority, dns.TypeSVCB, 1, svcbRdata(r, goodK))
	rawRec("https-all-keys", secAnswer, dns.TypeHTTPS, 1, svcbRdata(r, goodK))
	// one record of every registered type and of unknown types, three per request plus an OPT
	types := append(AllTypes(), 65280, 65281, 300)
	var gen []uint16
	for _, t := range types {
		if t != dns.TypeOPT && t != dns.TypeTSIG {
			gen = append(gen, t)
		}
	}
	pool := &NamePool{R: r}
	for i := 0; i < len(gen); i += 3 {
		m := new(dns.Msg)
		seq++
		m.Id = uint16(0x4000 + seq)
		m.RecursionDesired = true
		m.Compress = seq%2 == 0
		m.Question = []dns.Question{{Name: fmt.Sprintf("alias%d.q.test.", seq), Qtype: dns.TypeTXT, Qclass: 1}}
		var names []string
		for j := 0; j < 3 && i+j < len(gen); j++ {
			rr, _ := GenRR(r, pool, gen[i+j], false)
			names = append(names, dns.Type(gen[i+j]).String())
			switch j {
			case 0:
				m.Answer = []dns.RR{rr}
			case 1:
				m.Ns = []dns.RR{rr}
			default:
				m.Extra = []dns.RR{rr}
			}
		}
		if seq%2 == 1 {
			o := &dns.OPT{Hdr: dns.RR_Header{Name: ".", Rrtype: dns.TypeOPT}}
			o.SetUDPSize(4096)
			o.Option = []dns.EDNS0{&dns.EDNS0_LOCAL{Code: 65001, Data: r.Bytes(24)}, &dns.EDNS0_PADDING{Padding: r.Bytes(17)}}
			m.Extra = append(m.Extra, o)
		}
		var wire []byte
		if Protect(func() string {
			b, err := m.Pack()
			if err != nil {
				return "err"
			}
			wire = b
			return ""
		}) != "" {
			stat["alias_request_does_not_pack"]++
			// the types one by one then
			for j := 0; j < 3 && i+j < len(gen); j++ {
				rr, _ := GenRR(r, pool, gen[i+j], false)
				m1 := new(dns.Msg)
				seq++
				m1.Id = uint16(0x4000 + seq)
				m1.Question = m.Question
				m1.Answer = []dns.RR{rr}
				var w1 []byte
				if Protect(func() string {
					b, err := m1.Pack()
					if err != nil {
						return "err"
					}
					w1 = b
					return ""
				}) == "" {
					add("type-"+dns.Type(gen[i+j]).String(), w1)
				}
			}
			continue
		}
		add("types-"+strings.Join(names, "+"), wire)
	}
	return out
}

func aliasFiller(id uint16, n int, fill byte) []byte {
	m := new(dns.Msg)
	m.SetQuestion("filler.q.test.", dns.TypeA)
	m.Id = id
	o := &dns.OPT{Hdr: dns.RR_Header{Name: ".", Rrtype: dns.TypeOPT}}
	o.SetUDPSize(4096)
	pad := make([]byte, n)
	for i := range pad {
		pad[i] = fill
	}
	o.Option = []dns.EDNS0{&dns.EDNS0_PADDING{Padding: pad}}
	m.Extra = []dns.RR{o}
	return mustPack(m)
}

type aliasIn struct {
	Request  string `json:"request_hex"`
	Carries  string `json:"carries"`
	UDPSize  int    `json:"server_udpsize"`
	Position int    `json:"datagram_number_in_session"`
	Later    int    `json:"datagrams_received_while_its_handler_was_parked"`
	Schedule string `json:"schedule"`
}

// bufReader remembers which buffer each datagram was read into.
type bufReader struct {
	dns.Reader
	mu   sync.Mutex
	bufs []*byte
}

func (p *bufReader) ReadPacketConn(conn net.PacketConn, t time.Duration) ([]byte, net.Addr, error) {
	m, a, err := p.Reader.(dns.PacketConnReader).ReadPacketConn(conn, t)
	if err == nil && cap(m) > 0 {
		p.mu.Lock()
		p.bufs = append(p.bufs, &m[:1][0])
		p.mu.Unlock()
	}
	return m, a, err
}

// aliasSession: reqs, then four fillers, on one scripted socket; all request handlers parked.
func aliasSession(reqs []aliasReq, udpSize int, deco bool) {
	oldP := runtime.GOMAXPROCS(1)
	defer runtime.GOMAXPROCS(oldP)
	oldGC := debug.SetGCPercent(-1)
	defer debug.SetGCPercent(oldGC)

	n := len(reqs)
	padLen := udpSize - 200
	if padLen > 3800 {
		padLen = 3800
	}
	var in [][]byte
	for _, q := range reqs {
		in = append(in, q.wire)
	}
	for i, f := range []byte{0xff, 0xff, 0x00, 0x00} {
		in = append(in, aliasFiller(uint16(0x7f00+i), padLen, f))
	}
	total := len(in)
	entered := make([]chan struct{}, total)
	for i := range entered {
		entered[i] = make(chan struct{})
	}
	var infra atomic.Bool
	pc := netfake.NewPacketConn(in, nil)
	pc.Hold = func(k int) {
		if k >= 1 && !netfake.WaitChan(entered[k-1], infraWait) {
			infra.Store(true)
		}
	}
	release := make(chan struct{})
	var mu sync.Mutex
	calls := make([]int, total)
	type verdict struct {
		key, desc string
		k         int
	}
	var verdicts []verdict
	var fillersDone atomic.Int64
	var finished sync.WaitGroup
	finished.Add(n)
	h := func(w dns.ResponseWriter, req *dns.Msg) {
		a, ok := w.RemoteAddr().(netfake.Addr)
		if !ok || a.N < 0 || a.N >= total {
			return
		}
		k := a.N
		mu.Lock()
		calls[k]++
		first := calls[k] == 1
		mu.Unlock()
		var before string
		if k < n {
			before = fingerprint(req)
			if before != reqs[k].ref {
				mu.Lock()
				verdicts = append(verdicts, verdict{"C14/Serve/handler-request", "the request given to the handler is not the decoding of its datagram: " + firstDiff(reqs[k].ref, before), k})
				mu.Unlock()
			}
		}
		if first {
			close(entered[k])
		}
		if k < n {
			select {
			case <-release:
			case <-time.After(3 * infraWait):
				infra.Store(true)
			}
			after := fingerprint(req)
			if after != before {
				mu.Lock()
				verdicts = append(verdicts, verdict{"C14/Serve/request-changed-under-handler", "the request changed while its handler was running and the server received further datagrams: " + firstDiff(before, after), k})
				mu.Unlock()
			}
			if first {
				defer finished.Done()
			}
		}
		r := new(dns.Msg)
		r.SetReply(req)
		w.WriteMsg(r)
		if k >= n {
			fillersDone.Add(1)
		}
	}
	br := &bufReader{}
	srv := &dns.Server{PacketConn: pc, Handler: dns.HandlerFunc(h), UDPSize: udpSize}
	if deco {
		srv.DecorateReader = func(in dns.Reader) dns.Reader { br.Reader = in; return br }
	}
	done := make(chan error, 1)
	go func() { done <- srv.ActivateAndServe() }()
	ok := netfake.WaitChan(pc.Drained, infraWait)
	for t0 := time.Now(); ok && fillersDone.Load() < 4 && time.Since(t0) < infraWait; {
		time.Sleep(200 * time.Microsecond)
	}
	if fillersDone.Load() < 4 {
		ok = false
	}
	close(release)
	fin := make(chan struct{})
	go func() { finished.Wait(); close(fin) }()
	if ok && !netfake.WaitChan(fin, infraWait) {
		ok = false
	}
	if !finishServe(srv, done) {
		ok = false
	}
	if !ok || infra.Load() {
		stat["infra_timeout"]++
		stat["alias_session_no_verdict"]++
		return
	}
	stat["alias_sessions_checked"]++
	stat["alias_parked_requests_checked"] += n
	if deco {
		br.mu.Lock()
		for k := 0; k < n && k < len(br.bufs); k++ {
			for j := k + 1; j < len(br.bufs); j++ {
				if br.bufs[j] == br.bufs[k] {
					stat["alias_parked_buffer_reused"]++
					break
				}
			}
		}
		br.mu.Unlock()
	}
	mu.Lock()
	defer mu.Unlock()
	mk := func(k int) aliasIn {
		return aliasIn{Hx(reqs[k].wire), reqs[k].what, udpSize, k, total - 1 - k,
			"single P; the handler of every request of the session is parked until all later datagrams (further requests, then four long filler queries with all-ones / all-zeros padding) have been received"}
	}
	for _, v := range verdicts {
		Viol(v.key, "serve-loop (udp, parked handlers): "+v.desc, mk(v.k))
	}
	for k := 0; k < n; k++ {
		if calls[k] != 1 {
			Viol("C14/Serve/handler-not-once", fmt.Sprintf("serve-loop (udp, parked handlers): message passes the policy and decodes but handler ran %d times", calls[k]), mk(k))
		}
	}
}

func runParkedHandlers(r *Rng, tier string) {
	rounds := 1
	if tier == "thorough" {
		rounds = 6
	}
	for round := 0; round < rounds; round++ {
		for si, udpSize := range []int{4096, 1232, 65535} {
			reqs := aliasRequests(r, udpSize-64)
			stat["alias_requests_built"] += len(reqs)
			// sessions of 12 requests; the order of the requests differs between sizes
			if si > 0 {
				for i := len(reqs) - 1; i > 0; i-- {
					j := r.Intn(i + 1)
					reqs[i], reqs[j] = reqs[j], reqs[i]
				}
			}
			for i := 0; i < len(reqs); i += 12 {
				j := i + 12
				if j > len(reqs) {
					j = len(reqs)
				}
				aliasSession(reqs[i:j], udpSize, (i/12)%4 != 3)
			}
		}
	}
}
