package main

import (
	"os"
	"strconv"

	. "verif/harness/common"
)

func init() {
	if os.Getenv("C12_ONLY") == "tsig" {
		seed, _ := strconv.Atoi(os.Getenv("VERIF_SEED"))
		if seed == 0 {
			seed = 1
		}
		tier := os.Getenv("C12_TIER")
		if tier == "" {
			tier = "quick"
		}
		runTsigPool(&Rng{S: uint64(seed)}, tier)
		Stat(stat)
		Flush()
		os.Exit(0)
	}
}
