(* Props/C08.v — property C08: Msg.Len / Len(rr) never underestimate what Pack
   writes, are exact for plain content, and Pack never fails for lack of room.
   Only statements; proofs in Proofs/Len*Proofs.v.

   Vocabulary.  The pack side writes into [pn_out st] (the octets so far, the
   write offset is its length) under a buffer length [cap]; [pn_cm st] is the
   compression map ([None]: no map).  [rr_len r] is dns.Len(rr).
   [rr_okb r] says (a) the record's kind has a pack() and a len() sequence in the
   tables regenerated from zmsg.go / ztypes.go and the two are ALIGNED — checked
   by computation over the whole tables in [every_type_is_aligned] below, this
   is the obligation that fails when somebody edits one of the ~85 len()
   methods — and (b) for []EDNS0 / []SVCBKeyValue values the length the value's
   own len() reports (third component of V_pairs, filled in by the harness from
   the Go len()) is at least the length of what its pack() returns.  For the
   option / value types the library defines, (b) is PROVED from the Go struct
   fields: last section of this file (Model/OptVal.v). *)
From Dns Require Import Gen.Layouts Gen.Lens Gen.Registry.
From Dns Require Import Model.Msg Proofs.LenFieldProofs Proofs.LenRRProofs Proofs.LenMsgProofs Proofs.LenRoomProofs
  Proofs.LenCompressProofs Proofs.LenCompressMsgProofs Proofs.LenWitnessProofs.
Open Scope list_scope.
Open Scope N_scope.

(* ---------------- names ---------------- *)
(* a packed name never takes more than escapedNameLen + 1 octets, in ANY state:
   with or without compression map, compressing or not, whatever the buffer *)
Theorem packed_name_at_most_escaped_len :
  forall (s : bytes) (cap : N) (compress : bool) (st st' : pn_state),
    pack_name s cap compress st = Ok st' ->
    lenN (pn_out st') <= lenN (pn_out st) + escaped_name_len s + 1.
Proof. exact pack_name_size_le. Qed.
Print Assumptions packed_name_at_most_escaped_len.

(* ... and exactly that many when no pointer can be written *)
Theorem packed_name_exact_without_pointer :
  forall (s : bytes) (cap : N) (compress : bool) (st st' : pn_state),
    pn_cm st = None \/ compress = false -> s <> [] -> s <> [46] ->
    pack_name s cap compress st = Ok st' ->
    lenN (pn_out st') = lenN (pn_out st) + escaped_name_len s + 1.
Proof. exact pack_name_exact. Qed.
Print Assumptions packed_name_exact_without_pointer.

(* ---------------- the tables ---------------- *)
(* every record type of zmsg.go (through its base kind for the types that embed
   another one) and every type code of the registry has aligned sequences *)
Theorem every_type_is_aligned :
  forallb (fun L => kind_ok (base_kind (tl_name L))) layouts = true /\
  forall t : N, kind_ok (kind_of_type t) = true.
Proof. split; [exact tables_aligned|exact kind_of_type_ok]. Qed.
Print Assumptions every_type_is_aligned.

(* ---------------- one record ---------------- *)
(* Len(rr) >= octets written by packRR, for any buffer, compression setting and map *)
Theorem rr_len_never_underestimates :
  forall (r : rr) (cap : N) (compress : bool) (st st' : pn_state),
    rr_okb r = true -> pack_rr r cap compress st = Ok st' ->
    lenN (pn_out st') - lenN (pn_out st) <= rr_len r.
Proof. exact rr_len_ge_pack. Qed.
Print Assumptions rr_len_never_underestimates.

(* the exactness clause for one record: kind among A, AAAA, NS, CNAME, SOA, PTR,
   MX, SRV, TXT, DNAME, MINFO, RP, AFSDB, KX, NAPTR, HINFO (any kind whose
   sequences align with nothing left over), non-empty names and no backslash in
   any name or character-string; packed without compression map into a buffer
   that is not already full *)
Theorem rr_len_exact_for_plain_records :
  forall (r : rr) (cap : N) (compress : bool) (st st' : pn_state),
    rr_plain r = true -> pn_cm st = None -> poff st < cap ->
    pack_rr r cap compress st = Ok st' ->
    poff st' = poff st + rr_len r /\ pn_cm st' = None.
Proof. exact rr_len_exact_plain. Qed.
Print Assumptions rr_len_exact_for_plain_records.

Theorem the_sixteen_common_kinds_are_exact : forallb kind_exact exact_kinds = true.
Proof. exact exact_kinds_aligned. Qed.
Print Assumptions the_sixteen_common_kinds_are_exact.

(* packRR cannot fail for lack of room: with any two buffers longer than
   offset + Len(rr) it returns the same result, value or error *)
Theorem packrr_result_independent_of_buffer :
  forall (r : rr) (compress : bool) (st : pn_state) (cap cap' : N),
    rr_okb r = true -> poff st + rr_len r < cap -> poff st + rr_len r < cap' ->
    pack_rr r cap compress st = pack_rr r cap' compress st.
Proof. exact pack_rr_has_room. Qed.
Print Assumptions packrr_result_independent_of_buffer.

(* ---------------- the whole message ---------------- *)
(* [msg_okb m]: every record of the three sections satisfies rr_okb.
   [msg_len_with m None] is the uncompressed length (what Pack sizes its
   buffer from), [msg_len m] is Msg.Len() under the message's own setting,
   [msg_compress m] = m.Compress && m.isCompressible(). *)

(* the uncompressed length bounds what Pack / PackBuffer write under ANY
   compression setting and for any caller buffer *)
Theorem uncompressed_len_never_underestimates :
  forall (m : msg) (buflen : N) (w : bytes) (used : bool),
    msg_okb m = true -> pack_msg_buf m buflen = Ok (w, used) -> lenN w <= msg_len_with m None.
Proof. exact uncompressed_len_ge_pack. Qed.
Print Assumptions uncompressed_len_never_underestimates.

(* Msg.Len() >= len(Pack()) for messages packed without compression *)
Theorem msg_len_never_underestimates_uncompressed :
  forall (m : msg) (w : bytes),
    msg_okb m = true -> msg_compress m = false -> pack_msg m = Ok w -> lenN w <= msg_len m.
Proof. exact msg_len_ge_pack_uncompressed. Qed.
Print Assumptions msg_len_never_underestimates_uncompressed.

(* ... with equality when the message consists of the common types with
   escape-free, non-empty names and escape-free character-strings *)
Theorem msg_len_exact_for_plain_messages :
  forall (m : msg) (w : bytes),
    msg_plain m = true -> msg_compress m = false -> pack_msg m = Ok w -> lenN w = msg_len m.
Proof. exact msg_len_exact_plain. Qed.
Print Assumptions msg_len_exact_for_plain_messages.

(* Pack always has room, compressed or not: PackBuffer into a buffer of ANY
   length (nil included) returns what Pack returns, the same octets or the same
   error; so no failure is ever due to the buffer *)
Theorem pack_always_has_room :
  forall (m : msg) (buflen : N),
    msg_okb m = true -> (do r <- pack_msg_buf m buflen; Ok (fst r)) = pack_msg m.
Proof. exact pack_has_room. Qed.
Print Assumptions pack_always_has_room.

Theorem pack_errors_are_not_for_lack_of_space :
  forall (m : msg) (buflen : N) (e : string),
    msg_okb m = true -> pack_msg_buf m buflen = Err e -> forall buflen', pack_msg_buf m buflen' = Err e.
Proof. exact pack_error_not_for_lack_of_space. Qed.
Print Assumptions pack_errors_are_not_for_lack_of_space.

(* PackBuffer writes into the caller's buffer exactly when that buffer is longer
   than the uncompressed length *)
Theorem packbuffer_uses_callers_buffer_iff_longer :
  forall (m : msg) (buflen : N) (w : bytes) (used : bool),
    pack_msg_buf m buflen = Ok (w, used) -> used = (msg_len_with m None <? buflen).
Proof. exact pack_buffer_uses_callers_buffer. Qed.
Print Assumptions packbuffer_uses_callers_buffer_iff_longer.

(* the error-class form: for any caller buffer, compressed or not, Pack never
   panics (pointer write, RDLENGTH patch), never exhausts a budget, never
   reports class buf, and reports class overflow only for an address field of
   the wrong length ([msg_addr_okb m]: A / gateway addresses of 0, 4 or 16
   octets, AAAA addresses of 0 or 16) *)
Theorem pack_never_fails_for_lack_of_space :
  forall (m : msg) (buflen : N),
    msg_okb m = true -> msg_addr_okb m = true ->
    match pack_msg_buf m buflen with
    | Ok _ => True
    | Err e => e <> "buf"%string /\ e <> "overflow"%string
    | Panic => False
    | OutOfFuel => False
    end.
Proof. exact pack_never_fails_for_space. Qed.
Print Assumptions pack_never_fails_for_lack_of_space.

(* ---------------- with compression ---------------- *)
(* [msg_okb2]: as msg_okb, with the stricter alignment that also forbids a
   trailing len() term without a pack statement (a name that len() would walk and
   pack() would not write); the tables satisfy it too *)
Theorem every_type_is_strictly_aligned :
  forallb (fun L => kind_ok2 (base_kind (tl_name L))) layouts = true /\
  forall t : N, kind_ok2 (kind_of_type t) = true.
Proof. split; [exact tables_aligned2|exact kind_of_type_ok2]. Qed.
Print Assumptions every_type_is_strictly_aligned.

(* one name, both walks.  [Jc cm ls P]: every suffix in the length walk's set ls
   is a key of the packer's map cm, and cm is closed: the later suffixes of a
   key are keys too unless the write offset P has reached 16384.  A name packed
   at offset P and measured at an offset L >= P (compress flags cpP, cpL with
   cpL -> cpP): domainNameLen's result is at least the octets written and the
   invariant holds afterwards *)
Theorem compressed_name_len_never_underestimates :
  forall (s : bytes) (cap : N) (cpP cpL : bool) (st : pn_state) (cm : cmap) (ls : lset) (L n : N)
         (c' : option lset) (st' : pn_state),
    pn_cm st = Some cm -> Jc cm ls (lenN (pn_out st)) -> lenN (pn_out st) <= L ->
    (cpL = true -> cpP = true) ->
    pack_name s cap cpP st = Ok st' ->
    domain_name_len s L (Some ls) cpL = (n, c') ->
    exists cm' ls', pn_cm st' = Some cm' /\ c' = Some ls' /\
      lenN (pn_out st') <= lenN (pn_out st) + n /\ Jc cm' ls' (lenN (pn_out st')).
Proof. exact name_joint. Qed.
Print Assumptions compressed_name_len_never_underestimates.

(* Msg.Len() >= len(Pack()) for a message packed WITH compression (the length
   walk's simulated compression never finds a suffix the packer does not) *)
Theorem msg_len_never_underestimates_compressed :
  forall (m : msg) (w : bytes),
    msg_okb2 m = true -> msg_compress m = true -> pack_msg m = Ok w -> lenN w <= msg_len m.
Proof. exact msg_len_ge_pack_compressed. Qed.
Print Assumptions msg_len_never_underestimates_compressed.

(* the first clause of C08 in full: under the message's own compression setting *)
Theorem msg_len_never_underestimates :
  forall (m : msg) (w : bytes), msg_okb2 m = true -> pack_msg m = Ok w -> lenN w <= msg_len m.
Proof. exact msg_len_ge_pack. Qed.
Print Assumptions msg_len_never_underestimates.

(* ---------------- the hypotheses cannot be dropped ---------------- *)
(* exactness needs off < len(msg): packRR into a full buffer writes nothing for a
   record without RDATA, reports success, and overwrites the two octets before
   the offset *)
Theorem exactness_fails_in_a_full_buffer :
  rr_plain w_any = true /\
  pack_rr w_any 5 false {| pn_out := [1; 2; 3; 4; 5]; pn_cm := None |}
    = Ok {| pn_out := [1; 2; 3; 0; 0]; pn_cm := None |} /\
  rr_len w_any = 13.
Proof. exact rr_len_exact_full_buffer_refuted. Qed.
Print Assumptions exactness_fails_in_a_full_buffer.

(* rr_okb (a): a record has to carry its base kind *)
Theorem embedding_kind_is_not_a_kind :
  rr_okb w_cds = false /\ rr_len w_cds = 13 /\
  (exists st', pack_rr w_cds 100 false {| pn_out := []; pn_cm := None |} = Ok st' /\ lenN (pn_out st') = 21) /\
  base_kind "CDS" = "DS"%string.
Proof. exact rr_len_embedding_kind_refuted. Qed.
Print Assumptions embedding_kind_is_not_a_kind.

(* rr_okb (b): an option whose len() is short makes Len(rr) short *)
Theorem option_len_must_cover_option_pack :
  rr_okb w_opt = false /\ rr_len w_opt = 15 /\
  (exists st', pack_rr w_opt 100 false {| pn_out := []; pn_cm := None |} = Ok st' /\ lenN (pn_out st') = 23).
Proof. exact rr_len_option_len_refuted. Qed.
Print Assumptions option_len_must_cover_option_pack.

(* msg_addr_okb: class overflow with all the room in the world *)
Theorem overflow_is_also_a_semantic_class :
  msg_okb (w_msg [w_bad_a]) = true /\ msg_len (w_msg [w_bad_a]) = 29 /\
  pack_msg_buf (w_msg [w_bad_a]) 4096 = Err "overflow"%string.
Proof. exact overflow_class_with_room_refuted. Qed.
Print Assumptions overflow_is_also_a_semantic_class.

(* ---------------- non-vacuity ---------------- *)
Definition ex_mx : rr :=
  {| rr_name := bytes_of_string "example.org."; rr_type := 15; rr_class := 1; rr_ttl := 3600; rr_rdlength := 0;
     rr_kind := "MX";
     rr_data := [("Preference"%string, V_n 10); ("Mx"%string, V_s (bytes_of_string "mail.example.org."))] |}.
Definition ex_txt : rr :=
  {| rr_name := bytes_of_string "t.example.org."; rr_type := 16; rr_class := 1; rr_ttl := 60; rr_rdlength := 0;
     rr_kind := "TXT";
     rr_data := [("Txt"%string, V_ss [bytes_of_string "v=spf1 -all"; bytes_of_string "second string"])] |}.
Definition st_empty : pn_state := {| pn_out := []; pn_cm := None |}.

Example ex_mx_hypotheses :
  rr_okb ex_mx = true /\ rr_plain ex_mx = true /\ is_ok (pack_rr ex_mx 100 false st_empty) = true /\
  is_ok (pack_rr ex_mx 100 true {| pn_out := [1; 2; 3]; pn_cm := Some [] |}) = true /\ rr_len ex_mx = 43.
Proof. vm_compute. repeat split; reflexivity. Qed.
Example ex_txt_hypotheses :
  rr_okb ex_txt = true /\ rr_plain ex_txt = true /\ is_ok (pack_rr ex_txt 100 false st_empty) = true /\ rr_len ex_txt = 51.
Proof. vm_compute. repeat split; reflexivity. Qed.
Example ex_name_hypotheses :
  is_ok (pack_name (bytes_of_string "a\.b.example.") 64 false st_empty) = true /\
  (bytes_of_string "a\.b.example.") <> [] /\ (bytes_of_string "a\.b.example.") <> [46].
Proof. vm_compute. repeat split; discriminate. Qed.

Definition ex_msg (c : bool) : msg :=
  {| m_id := 4660; m_response := true; m_opcode := 0; m_aa := false; m_tc := false; m_rd := true; m_ra := true;
     m_z := false; m_ad := false; m_cd := false; m_rcode := 0; m_compress := c;
     m_question := [{| q_name := bytes_of_string "example.org."; q_type := 15; q_class := 1 |}];
     m_answer := [ex_mx]; m_ns := []; m_extra := [ex_txt] |}.
Example ex_msg_hypotheses :
  msg_okb (ex_msg false) = true /\ msg_plain (ex_msg false) = true /\ msg_compress (ex_msg false) = false /\
  msg_compress (ex_msg true) = true /\ msg_okb (ex_msg true) = true /\
  is_ok (pack_msg (ex_msg false)) = true /\ is_ok (pack_msg (ex_msg true)) = true /\
  msg_len (ex_msg false) = 123 /\ msg_len (ex_msg true) = 90 /\
  (exists w, pack_msg_buf (ex_msg true) 200 = Ok (w, true)) /\ (exists w, pack_msg_buf (ex_msg true) 100 = Ok (w, false)).
Proof. vm_compute. repeat split; try reflexivity; eexists; reflexivity. Qed.
(* a compressed message whose names share suffixes, one of them escaped, and a
   gateway host name that the packer enters in its map but len() does not walk *)
Definition ex_ns (nm tgt : string) : rr :=
  {| rr_name := bytes_of_string nm; rr_type := 2; rr_class := 1; rr_ttl := 60; rr_rdlength := 0;
     rr_kind := "NS"; rr_data := [("Ns"%string, V_s (bytes_of_string tgt))] |}.
Definition ex_ipseckey : rr :=
  {| rr_name := bytes_of_string "k.example.org."; rr_type := 45; rr_class := 1; rr_ttl := 60; rr_rdlength := 0;
     rr_kind := "IPSECKEY";
     rr_data := [("Precedence"%string, V_n 1); ("GatewayType"%string, V_n 3); ("Algorithm"%string, V_n 2);
                 ("GatewayAddr"%string, V_b []); ("GatewayHost"%string, V_s (bytes_of_string "gw.example.org."));
                 ("PublicKey"%string, V_enc [1; 2; 3])] |}.
Definition ex_cmsg : msg :=
  {| m_id := 7; m_response := true; m_opcode := 0; m_aa := true; m_tc := false; m_rd := false; m_ra := false;
     m_z := false; m_ad := false; m_cd := false; m_rcode := 0; m_compress := true;
     m_question := [{| q_name := bytes_of_string "example.org."; q_type := 2; q_class := 1 |}];
     m_answer := [ex_ns "example.org." "ns1.example.org."; ex_ns "example.org." "a\.b.ns.example.org."; ex_mx];
     m_ns := [ex_ipseckey]; m_extra := [ex_txt; ex_ns "gw.example.org." "example.org."] |}.
Example ex_cmsg_hypotheses :
  msg_okb2 ex_cmsg = true /\ msg_okb ex_cmsg = true /\ msg_addr_okb ex_cmsg = true /\ msg_compress ex_cmsg = true /\
  msg_okb2 (ex_msg false) = true /\ msg_addr_okb (ex_msg true) = true /\
  (exists w, pack_msg ex_cmsg = Ok w /\ lenN w = 179) /\ msg_len ex_cmsg = 182 /\ msg_len_with ex_cmsg None = 292.
Proof. vm_compute. repeat split; try reflexivity. eexists. split; reflexivity. Qed.
Example ex_jc_hypotheses :
  Jc [] [] 12 /\
  is_ok (pack_name (bytes_of_string "www.example.org.") 100 true
           {| pn_out := [0;0;0;0;0;0;0;0;0;0;0;0]; pn_cm := Some [] |}) = true.
Proof. split; [|reflexivity]. split; [intros k []|]. intros X Z HX. exfalso. apply HX. reflexivity. Qed.

(* ---------------- exactness with compression ---------------- *)
(* The exactness clause for messages packed WITH compression (proved for C09's
   tightness clause in Proofs/TruncateTightProofs.v): for escape-free messages of
   the sixteen common types ([msg_cplain]: plain questions and records whose
   len() terms and pack statements align exactly also under compression, or a
   real OPT), Len() equals the number of octets Pack() produces.  The invariant
   is equality of the key sets of the packer's compression map and of the length
   walk's suffix set at equal offsets. *)
From Dns Require Import Proofs.TruncateTightProofs.
Theorem msg_len_exact_for_plain_messages_with_compression :
  forall (m : msg) (w : bytes),
    msg_cplain m = true -> msg_okb m = true -> msg_compress m = true -> pack_msg m = Ok w ->
    lenN w = msg_len m.
Proof. exact msg_len_exact_compressed. Qed.
Print Assumptions msg_len_exact_for_plain_messages_with_compression.

(* ---------------- option and parameter VALUES at Go struct level ---------------- *)
(* Clause (b) of [rr_okb] is a hypothesis about (code, packed value, reported
   length) triples.  For the option / parameter types the library defines it is
   a theorem: Model/OptVal.v has every EDNS0_* type of edns.go and every SVCB*
   value type of svcb.go with its Go fields (hex text for Nsid / Cookie with
   hex.DecodeString, net.IP of any length with To4 and Mask, the SUBNET family /
   netmask / address branches, Fqdn + PackDomainName for REPORTING), [opt_pack] /
   [svcb_pack] follow pack() branch by branch, [svcb_len] is the value's len() and
   [opt_len] what OPT.len adds (it calls pack() and takes the length of the
   result: EDNS0 options have no len() of their own).  Tied to the code by the
   harness cases optval / svcbval on every run.
   Non-vacuity: ex_opt_hypotheses, ex_svcb_hypotheses, ex_optval_errors in
   Proofs/OptValProofs.v. *)
From Dns Require Import Model.OptVal Proofs.OptValProofs.

Theorem option_len_covers_option_pack :
  forall (v : optval) (b : bytes), opt_pack v = Ok b -> lenN b <= opt_len v.
Proof. exact opt_len_ge_pack. Qed.
Print Assumptions option_len_covers_option_pack.

Theorem option_len_is_exact :
  forall (v : optval) (b : bytes), opt_pack v = Ok b -> opt_len v = lenN b.
Proof. exact opt_len_eq_pack. Qed.
Print Assumptions option_len_is_exact.

Theorem svcb_value_len_covers_value_pack :
  forall (v : svcbval) (b : bytes), svcb_pack v = Ok b -> lenN b <= svcb_len v.
Proof. exact svcb_len_ge_pack. Qed.
Print Assumptions svcb_value_len_covers_value_pack.

Theorem svcb_value_len_is_exact :
  forall (v : svcbval) (b : bytes), svcb_pack v = Ok b -> svcb_len v = lenN b.
Proof. exact svcb_len_eq_pack. Qed.
Print Assumptions svcb_value_len_is_exact.

(* records built from values whose pack() succeeds need no hypothesis ... *)
Theorem opt_record_of_values_is_ok :
  forall (h : rr) (vs : list optval) (ts : list (N * bytes * N)),
    opt_triples vs = Ok ts -> rr_okb (opt_record h ts) = true.
Proof. exact opt_record_okb. Qed.
Print Assumptions opt_record_of_values_is_ok.

Theorem svcb_record_of_values_is_ok :
  forall (h : rr) (priority : N) (target : bytes) (vs : list svcbval) (ts : list (N * bytes * N)),
    svcb_triples vs = Ok ts -> rr_okb (svcb_record h priority target ts) = true.
Proof. exact svcb_record_okb. Qed.
Print Assumptions svcb_record_of_values_is_ok.

(* ... so Len(rr) >= |packRR| for them, in any state, with any buffer *)
Theorem opt_record_len_never_underestimates :
  forall (h : rr) (vs : list optval) (ts : list (N * bytes * N)) (cap : N) (compress : bool) (st st' : pn_state),
    opt_triples vs = Ok ts -> pack_rr (opt_record h ts) cap compress st = Ok st' ->
    lenN (pn_out st') - lenN (pn_out st) <= rr_len (opt_record h ts).
Proof. exact opt_record_len_ge_pack. Qed.
Print Assumptions opt_record_len_never_underestimates.

Theorem svcb_record_len_never_underestimates :
  forall (h : rr) (priority : N) (target : bytes) (vs : list svcbval) (ts : list (N * bytes * N))
         (cap : N) (compress : bool) (st st' : pn_state),
    svcb_triples vs = Ok ts -> pack_rr (svcb_record h priority target ts) cap compress st = Ok st' ->
    lenN (pn_out st') - lenN (pn_out st) <= rr_len (svcb_record h priority target ts).
Proof. exact svcb_record_len_ge_pack. Qed.
Print Assumptions svcb_record_len_never_underestimates.

(* ---------------- the message, with option / parameter VALUES ---------------- *)
(* Proofs/OptValMsgProofs.v: every record of the three sections either satisfies
   rr_okb (rr_okb2 for the compressed statement) or is an OPT / SVCB / HTTPS
   record built from Go struct values whose pack() succeeds.  No hypothesis about
   option lengths remains. *)
From Dns Require Import Proofs.OptValMsgProofs.

Theorem valued_msg_uncompressed_len_never_underestimates :
  forall (m : msg) (buflen : N) (w : bytes) (used : bool),
    (forall r, In r (m_answer m ++ m_ns m ++ m_extra m) -> rr_okb r = true \/
       (exists h vs ts, opt_triples vs = Ok ts /\ r = opt_record h ts) \/
       (exists h p t vs ts, svcb_triples vs = Ok ts /\ r = svcb_record h p t ts)) ->
    pack_msg_buf m buflen = Ok (w, used) -> lenN w <= msg_len_with m None.
Proof. exact valued_msg_uncompressed_len_ge_pack. Qed.
Print Assumptions valued_msg_uncompressed_len_never_underestimates.

Theorem valued_msg_len_never_underestimates_uncompressed :
  forall (m : msg) (w : bytes),
    (forall r, In r (m_answer m ++ m_ns m ++ m_extra m) -> rr_okb r = true \/
       (exists h vs ts, opt_triples vs = Ok ts /\ r = opt_record h ts) \/
       (exists h p t vs ts, svcb_triples vs = Ok ts /\ r = svcb_record h p t ts)) ->
    msg_compress m = false -> pack_msg m = Ok w -> lenN w <= msg_len m.
Proof. exact valued_msg_len_ge_pack_uncompressed. Qed.
Print Assumptions valued_msg_len_never_underestimates_uncompressed.

(* under the message's own compression setting *)
Theorem valued_msg_len_never_underestimates :
  forall (m : msg) (w : bytes),
    (forall r, In r (m_answer m ++ m_ns m ++ m_extra m) -> rr_okb2 r = true \/
       (exists h vs ts, opt_triples vs = Ok ts /\ r = opt_record h ts) \/
       (exists h p t vs ts, svcb_triples vs = Ok ts /\ r = svcb_record h p t ts)) ->
    pack_msg m = Ok w -> lenN w <= msg_len m.
Proof. exact valued_msg_len_ge_pack. Qed.
Print Assumptions valued_msg_len_never_underestimates.
