From Dns Require Import Model.Labels.
Theorem placeholder : is_fqdn [46] = true.
Proof. reflexivity. Qed.
