(* Proofs/ZoneSpecProofs.v — the parser model refines the denotation of
   Model/ZoneSpec.v (C06). *)
From Dns Require Import Base.ListX Model.ZoneSpec Proofs.LexerProofs Proofs.ZoneProofs.
From Coq Require Import Lia ZifyN ZifyNat ZifyBool.
Open Scope N_scope.

(* ---------- names ---------- *)
(* a name as it may be written: @, or a valid domain name *)
Definition wf_name (n : bytes) : Prop :=
  n = [64] \/ (is_domain_name n = true /\ n <> [10]).

Lemma bytes_eqb_refl a : bytes_eqb a a = true.
Proof. induction a as [|x a IH]; cbn; [reflexivity|]. now rewrite N.eqb_refl, IH. Qed.
Lemma bytes_eqb_eq a : forall b, bytes_eqb a b = true -> a = b.
Proof.
  induction a as [|x a IH]; intros [|y b]; cbn; try discriminate; [reflexivity|].
  intro H. apply andb_true_iff in H. destruct H as [H1 H2].
  apply N.eqb_eq in H1. apply IH in H2. congruence.
Qed.
Lemma bytes_eqb_neq a b : a <> b -> bytes_eqb a b = false.
Proof.
  intro H. destruct (bytes_eqb a b) eqn:E; [|reflexivity]. apply bytes_eqb_eq in E. contradiction.
Qed.

(* relative names are completed with the origin, @ is the origin, absolute
   names are kept *)
Lemma to_absolute_complete origin n :
  origin <> [] -> wf_name n -> to_absolute_name n origin = Some (complete origin n).
Proof.
  intros Ho [->|[Hd Hn]]; unfold to_absolute_name, complete.
  - cbn. destruct origin; [contradiction|reflexivity].
  - destruct (bytes_eqb n [64]) eqn:E.
    + destruct origin; [contradiction|reflexivity].
    + rewrite (bytes_eqb_neq n [10] Hn), Hd. cbn [negb].
      destruct (is_fqdn n); [reflexivity|].
      destruct origin as [|c o]; [contradiction|].
      unfold append_origin. destruct (bytes_eqb (c :: o) [46]) eqn:E2; [|reflexivity].
      apply bytes_eqb_eq in E2. rewrite E2. reflexivity.
Qed.

(* ---------- TTL texts ---------- *)
(* no intermediate value of the (64-bit) computation reaches 2^64 *)
Fixpoint ttl_nowrap (s : bytes) (acc cur : N) : bool :=
  match s with
  | [] => acc + cur <? two64
  | c :: r =>
    if is_digit c then (cur * 10 + (c - 48) <? two64) && ttl_nowrap r acc (cur * 10 + (c - 48))
    else match unit_secs c with
         | Some u => (acc + cur * u <? two64) && ttl_nowrap r (acc + cur * u) 0
         | None => true
         end
  end.

Lemma ttl_go_value s : forall acc cur,
  ttl_nowrap s acc cur = true ->
  match ttl_go s acc cur, ttl_value s acc cur with
  | Some (a, c), Some v => a + c = v /\ v < two64
  | None, None => True
  | _, _ => False
  end.
Proof.
  induction s as [|c r IH]; intros acc cur; cbn [ttl_nowrap ttl_go ttl_value].
  - intro H. apply N.ltb_lt in H. split; [reflexivity|exact H].
  - unfold unit_secs.
    destruct (is_digit c) eqn:D.
    + assert (Hc : 48 <= c <= 57) by (unfold is_digit in D; lia).
      replace ((c =? 115) || (c =? 83)) with false by lia.
      replace ((c =? 109) || (c =? 77)) with false by lia.
      replace ((c =? 104) || (c =? 72)) with false by lia.
      replace ((c =? 100) || (c =? 68)) with false by lia.
      replace ((c =? 119) || (c =? 87)) with false by lia.
      intro H. apply andb_true_iff in H. destruct H as [H1 H2]. apply N.ltb_lt in H1.
      rewrite N.mod_small by exact H1. now apply IH.
    + destruct ((c =? 115) || (c =? 83)).
      { intro H. apply andb_true_iff in H. destruct H as [H1 H2]. apply N.ltb_lt in H1.
        rewrite N.mul_1_r in *. rewrite N.mod_small by exact H1. now apply IH. }
      destruct ((c =? 109) || (c =? 77)).
      { intro H. apply andb_true_iff in H. destruct H as [H1 H2]. apply N.ltb_lt in H1.
        rewrite N.mod_small by exact H1. now apply IH. }
      destruct ((c =? 104) || (c =? 72)).
      { intro H. apply andb_true_iff in H. destruct H as [H1 H2]. apply N.ltb_lt in H1.
        rewrite N.mod_small by exact H1. now apply IH. }
      destruct ((c =? 100) || (c =? 68)).
      { intro H. apply andb_true_iff in H. destruct H as [H1 H2]. apply N.ltb_lt in H1.
        rewrite N.mod_small by exact H1. now apply IH. }
      destruct ((c =? 119) || (c =? 87)).
      { intro H. apply andb_true_iff in H. destruct H as [H1 H2]. apply N.ltb_lt in H1.
        rewrite N.mod_small by exact H1. now apply IH. }
      intros _. exact I.
Qed.

(* TTL unit suffixes: the parser's value is the weighted sum the text denotes *)
Lemma string_to_ttl_spec s :
  ttl_nowrap s 0 0 = true ->
  string_to_ttl s = match ttl_of_text s with
                    | Some v => if 4294967295 <? v then None else Some v
                    | None => None
                    end.
Proof.
  intro H. unfold string_to_ttl, ttl_of_text.
  pose proof (ttl_go_value s 0 0 H) as G.
  destruct (ttl_go s 0 0) as [[a c]|]; destruct (ttl_value s 0 0) as [v|]; try contradiction; [|reflexivity].
  destruct G as [<- G2]. rewrite N.mod_small by exact G2. reflexivity.
Qed.

Example ex_ttl_units :
  ttl_nowrap (B "1w2d3h4m5s") 0 0 = true /\ string_to_ttl (B "1w2d3h4m5s") = Some 788645 /\
  string_to_ttl (B "1W2D3H4M5") = Some 788645.
Proof. vm_compute. repeat split. Qed.
