package main

// C15, round 8: sender compositions of an envelope beyond the record split.
//
// "For every zone and every way the sender splits it into envelopes, an incoming
// AXFR or IXFR delivers exactly the transmitted records in order and ends ...
// exactly at the closing SOA". The way a sender makes envelopes out of a zone is
// more than where it cuts the record list. RFC 5936 2.2: the first message carries
// the question; in the following ones the question section may be omitted
// (QDCOUNT = 0: BIND, NSD, Knot send them so) or repeated; names compare without
// regard to case; AA / RA / RD are the sender's business (2.2.1: RD copied or 0,
// RA "set according to availability of recursion", AA as for the zone) and may
// differ from one envelope to the next; a sender may add an OPT record to an
// envelope (before the TSIG record, which stays last); it may compress one
// envelope and not the next. Every envelope the harness ever sent had the
// question as asked, AA = 1, RA = RD = 0, no OPT, and one compression setting for
// the whole transfer.
//
// hdrSpec describes one envelope's shape; the families cross every composition of
// small AXFR / IXFR / AXFR-style IXFR streams (and the single-SOA answers) with
// the question patterns, the header patterns, TSIG off / on (both signers), stream
// and datagram connection. The expectation is that of the plain families: the
// transmitted envelopes are delivered exactly and the transfer ends at the closing
// SOA, nothing further is read. All are ordinary model cases (the model's view of
// an envelope - ID, RCODE, records, TSIG - does not contain the shape: the model
// says the outcome does not depend on it).
//
// So that "ignore everything but the records" is not what passes: in the same
// shapes a wrong ID, an error RCODE, a tampered / unsigned envelope must still end
// the transfer with an error at that envelope (shape-fault-*).

import (
	"fmt"
	"net"
	"strings"

	"github.com/miekg/dns"
	. "verif/harness/common"
)

type hdrSpec struct {
	NoQuestion bool   `json:"no_question_section,omitempty"` // QDCOUNT = 0 (RFC 5936 2.2.2, allowed after the first message)
	QName      string `json:"question_name,omitempty"`        // the question's name as the sender spells it ("" = as asked)
	NotAA      bool   `json:"aa_clear,omitempty"`
	RA         bool   `json:"ra,omitempty"`
	RD         bool   `json:"rd,omitempty"`
	Opt        bool   `json:"opt_record,omitempty"` // an OPT record in the additional section (before the TSIG record)
	// Compress: 0 as the case says, 1 on, 2 off
	Compress int `json:"compress,omitempty"`
	// further additional records (glue A records) before / after the OPT record; with a TSIG
	// record the additional section is then [glue.., OPT, glue.., TSIG]
	GlueBefore int `json:"additional_records_before_opt,omitempty"`
	GlueAfter  int `json:"additional_records_after_opt,omitempty"`
}

func glueRR(i int) dns.RR {
	return &dns.A{Hdr: dns.RR_Header{Name: "ns." + zone, Rrtype: dns.TypeA, Class: dns.ClassINET, Ttl: 3600}, A: net.IPv4(192, 0, 2, byte(1+i)).To4()}
}

func (h *hdrSpec) apply(c xcase, m *dns.Msg) {
	if h.NoQuestion {
		m.Question = nil
	} else if h.QName != "" {
		m.Question[0].Name = h.QName
	}
	m.Authoritative = !h.NotAA
	m.RecursionAvailable = h.RA
	m.RecursionDesired = h.RD
	for i := 0; i < h.GlueBefore; i++ {
		m.Extra = append(m.Extra, glueRR(i))
	}
	if h.Opt {
		o := new(dns.OPT)
		o.Hdr.Name, o.Hdr.Rrtype = ".", dns.TypeOPT
		o.SetUDPSize(1232)
		m.Extra = append(m.Extra, o)
	}
	for i := 0; i < h.GlueAfter; i++ {
		m.Extra = append(m.Extra, glueRR(h.GlueBefore+i))
	}
	switch h.Compress {
	case 1:
		m.Compress = true
	case 2:
		m.Compress = false
	}
}

// other spellings of the zone name
func otherCase(s string, how int) string {
	switch how % 3 {
	case 0:
		return strings.ToUpper(s)
	case 1:
		b := []byte(s)
		for i := range b {
			if i%2 == 0 && b[i] >= 'a' && b[i] <= 'z' {
				b[i] -= 32
			}
		}
		return string(b)
	}
	b := []byte(s)
	if len(b) > 0 && b[0] >= 'a' && b[0] <= 'z' {
		b[0] -= 32
	}
	return string(b)
}

var questionPatterns = []string{"q-every", "q-first-only", "q-first-only-other-case", "q-every-later-other-case", "q-every-other-case", "q-alternating", "q-first-and-last"}

// questionShape: the question section of envelope i of n under pattern p
func questionShape(p string, i, n, how int, h *hdrSpec) {
	switch p {
	case "q-every":
	case "q-first-only":
		h.NoQuestion = i > 0
	case "q-first-only-other-case":
		h.NoQuestion = i > 0
		h.QName = otherCase(zone, how)
	case "q-every-later-other-case":
		if i > 0 {
			h.QName = otherCase(zone, how+i)
		}
	case "q-every-other-case":
		h.QName = otherCase(zone, how+i)
	case "q-alternating":
		h.NoQuestion = i%2 == 1
	case "q-first-and-last":
		h.NoQuestion = i > 0 && i < n-1
	}
}

var headerPatterns = []string{"h-plain", "h-aa-first-only", "h-aa-never", "h-ra", "h-rd", "h-ra-rd-later", "h-opt-first", "h-opt-every", "h-opt-later", "h-compress-alternating", "h-compress-first-only", "h-random"}

func headerShape(r *Rng, p string, i int, h *hdrSpec) {
	switch p {
	case "h-aa-first-only":
		h.NotAA = i > 0
	case "h-aa-never":
		h.NotAA = true
	case "h-ra":
		h.RA = true
	case "h-rd":
		h.RD = true
	case "h-ra-rd-later":
		h.RA, h.RD = i > 0, i > 0
	case "h-opt-first":
		h.Opt = i == 0
	case "h-opt-every":
		h.Opt = true
	case "h-opt-later":
		h.Opt = i > 0
	case "h-compress-alternating":
		h.Compress = 1 + i%2
	case "h-compress-first-only":
		h.Compress = 2
		if i == 0 {
			h.Compress = 1
		}
	case "h-random":
		h.NotAA, h.RA, h.RD, h.Opt, h.Compress = r.Bool(), r.Bool(), r.Bool(), r.Intn(3) == 0, r.Intn(3)
	}
}

func shapeReads(r *Rng, rs []readSpec, n int, qp, hp string, how int) {
	for i := range rs {
		if i >= n {
			break
		}
		h := &hdrSpec{}
		questionShape(qp, i, n, how, h)
		headerShape(r, hp, i, h)
		rs[i].Hdr = h
	}
}

const kShape = "C15/exact/envelope-shape"

func shapeFamilies(r0 *Rng, thorough bool) {
	r := &Rng{S: r0.S ^ 0x5ea1e0f8}
	type ks struct {
		kind, fam string
		stream    []rrd
	}
	streams := []ks{
		{"axfr", "shape-axfr", axfrStream(5, 1)},
		{"axfr", "shape-axfr", axfrStream(5, 2)},
		{"ixfr", "shape-ixfr-diffs", ixfrStream(5, []diffd{{3, 5, 1, 1}})},
		{"ixfr", "shape-ixfr-diffs", ixfrStream(5, []diffd{{3, 4, 0, 1}, {4, 5, 1, 0}})},
		{"ixfr", "shape-ixfr-fallback", axfrStream(5, 2)},
		{"axfr", "shape-axfr", axfrStream(5, 0)},
	}
	if thorough {
		streams = append(streams, ks{"axfr", "shape-axfr", axfrStream(5, 4)}, ks{"ixfr", "shape-ixfr-diffs", ixfrStream(6, []diffd{{3, 4, 1, 1}, {4, 5, 0, 0}, {5, 6, 1, 0}})})
	}
	idx := 0
	hpN := 2
	if thorough {
		hpN = len(headerPatterns)
	}
	for _, fs := range streams {
		comps := compositions(fs.stream)
		if len(comps) > 32 && !thorough {
			// the long stream: sampled compositions, plus the two extremes
			comps = [][][]rrd{comps[0], comps[len(comps)-1]}
			for len(comps) < 16 {
				comps = append(comps, randomComposition(r, fs.stream))
			}
		}
		for _, envs := range comps {
			for _, qp := range questionPatterns {
				for _, tsig := range []bool{false, true} {
					for k := 0; k < hpN; k++ {
						idx++
						// every header pattern comes round for every question pattern / TSIG setting; "h-plain" first
						hp := headerPatterns[(idx/2+k*5)%len(headerPatterns)]
						if k == 0 && idx%3 == 0 {
							hp = "h-plain"
						}
						c := base(fs.kind, tsig, fs.fam, r)
						c.Compress = idx%4 == 1
						if idx%7 == 0 {
							c.Dgram, c.Chunk = true, 0
						}
						c.Reads = goodReads(c, envs, tsig)
						if tsig && idx%2 == 0 {
							for i := range c.Reads {
								c.Reads[i].Sig.Ref = true
							}
						}
						shapeReads(r, c.Reads, len(envs), qp, hp, idx)
						// something after the closing SOA that must not be read
						c.Reads = append(c.Reads, readSpec{Id: c.Qid, RRs: []rrd{A(99)}})
						st["shape_"+qp]++
						st["shape_"+hp]++
						runOne(c, &expect{deliver: len(envs), then: "done", key: kShape,
							why: "the transmitted records must be delivered exactly however the sender composes its envelopes (question section " + qp + ", header / additional section " + hp + ")"}, true)
					}
				}
			}
		}
	}
	// the single-SOA answers of IXFR
	for _, qp := range []string{"q-every", "q-first-only-other-case", "q-every-other-case"} {
		for _, hp := range headerPatterns {
			for _, tsig := range []bool{false, true} {
				idx++
				for _, ser := range []uint32{1, 3} {
					c := base("ixfr", tsig, "shape-ixfr-uptodate", r)
					c.Reads = goodReads(c, [][]rrd{{S(ser)}}, tsig)
					shapeReads(r, c.Reads, 1, qp, hp, idx)
					c.Reads = append(c.Reads, readSpec{Id: c.Qid, RRs: []rrd{A(99)}})
					runOne(c, &expect{deliver: 1, then: "done", key: kShape, why: "single-SOA up-to-date IXFR answer must end the transfer without error (question section " + qp + ", header " + hp + ")"}, true)
				}
				c := base("ixfr", tsig, "shape-ixfr-single-newer", r)
				c.Reads = goodReads(c, [][]rrd{{S(5)}}, tsig)
				shapeReads(r, c.Reads, 1, qp, hp, idx)
				runOne(c, &expect{deliver: 1, then: "error", key: kErr, why: "stream ends after the first SOA of a newer version"}, true)
			}
		}
	}
	// faults inside such shapes: still reported at that envelope
	fstreams := []ks{{"axfr", "", axfrStream(5, 2)}, {"ixfr", "", ixfrStream(5, []diffd{{3, 5, 1, 1}})}}
	for _, fs := range fstreams {
		for ci, envs := range compositions(fs.stream) {
			for k := range envs {
				fq := []string{"q-first-only", "q-first-only-other-case", "q-alternating"}
				if !thorough {
					fq = fq[(ci+k)%3 : (ci+k)%3+1]
				}
				for _, qp := range fq {
					idx++
					hp := headerPatterns[idx%len(headerPatterns)]
					mk := func(tsig bool, fam string) xcase {
						c := base(fs.kind, tsig, fam, r)
						c.Reads = goodReads(c, envs, tsig)
						shapeReads(r, c.Reads, len(envs), qp, hp, idx)
						return c
					}
					// wrong ID
					c := mk(false, "shape-fault-id")
					c.Reads[k].Id ^= uint16(1) << uint((idx+ci)%16)
					runOne(c, &expect{deliver: k, then: "error", key: kErr, why: "an envelope whose ID differs from the query's must end the transfer with an error, with or without a question section"}, true)
					// RCODE
					c = mk(false, "shape-fault-rcode")
					c.Reads[k].Rcode = 1 + (idx+ci)%15
					runOne(c, &expect{deliver: k, then: "error", key: kErr, why: "an envelope with an error RCODE must end the transfer with an error, with or without a question section"}, true)
					// stream ends early
					if k > 0 {
						c = mk(idx%2 == 0, "shape-fault-eof")
						c.Reads = c.Reads[:k]
						runOne(c, &expect{deliver: k, then: "error", key: kErr, why: "a stream that ends before the closing SOA must be reported"}, true)
					}
					// TSIG: unsigned / wrong secret envelope
					c = mk(true, "shape-fault-unsigned")
					c.Reads[k].Sig = nil
					// an unsigned envelope that has an OPT record is refused under another error class than one with an
					// empty additional section (the model's "no TSIG" has no additional records): oracle only
					runOne(c, &expect{deliver: k, then: "error", key: kTsig, why: "an unsigned envelope must end a TSIG transfer with an error, with or without a question section"}, !c.Reads[k].Hdr.Opt)
					c = mk(true, "shape-fault-other-secret")
					c.Reads[k].Sig.Key = 1
					runOne(c, &expect{deliver: k, then: "error", key: kTsig, why: "an envelope signed with another secret must end the transfer with an error, with or without a question section"}, true)
					if !c.Reads[k].Hdr.Opt {
						c = mk(true, "shape-fault-tamper")
						c.Reads[k].Hdr.Opt = false
						c.Reads[k].Sig.Tamper = true
						runOne(c, &expect{deliver: k, then: "error", key: kTsig, why: "an altered envelope must end the transfer with an error, with or without a question section"}, true)
					}
				}
			}
		}
	}
}

// extRcodeFamilies: envelopes whose error RCODE lives (partly or only) in the extended
// RCODE bits of the OPT record (RFC 6891 6.1.3): 16, 17, 22, 23, 32, 4095 have a header
// RCODE nibble of 0, 1, 6, 7, 0, 15.  The OPT record is the only additional record, the
// first one (glue after it), in the middle, or the last one; with TSIG the TSIG record
// follows in every case.  The RCODE of the envelope is non-zero, so the transfer must end
// with an error at that envelope, whatever else the additional section holds.
func extRcodeFamilies(r0 *Rng, thorough bool) {
	r := &Rng{S: r0.S ^ 0x0e87c0de}
	type ks struct {
		kind   string
		stream []rrd
	}
	streams := []ks{{"axfr", axfrStream(5, 2)}, {"ixfr", ixfrStream(5, []diffd{{3, 5, 1, 1}})}, {"ixfr", axfrStream(5, 1)}, {"axfr", axfrStream(5, 0)}}
	rcodes := []int{16, 17, 22, 23, 32, 4095, 48, 0x800, 0xff0, 19}
	places := [][2]int{{0, 0}, {0, 1}, {1, 1}, {1, 0}, {0, 3}, {2, 2}}
	idx := 0
	for _, fs := range streams {
		for _, envs := range compositions(fs.stream) {
			for k := range envs {
				for pi, pl := range places {
					for _, tsig := range []bool{false, true} {
						rcs := rcodes
						if !thorough {
							// low nibble 0 always; one of the others in rotation
							rcs = []int{rcodes[(idx%3)*4%len(rcodes)], rcodes[idx%len(rcodes)]}
							if pi >= 4 {
								rcs = rcs[:1]
							}
						}
						for _, rc := range rcs {
							idx++
							c := base(fs.kind, tsig, "ext-rcode", r)
							c.Compress = idx%3 == 0
							c.Reads = goodReads(c, envs, tsig)
							for i := range c.Reads {
								c.Reads[i].Hdr = &hdrSpec{}
								if (idx+i)%4 == 0 {
									// the good envelopes carry such additional sections as well (RCODE 0)
									c.Reads[i].Hdr = &hdrSpec{Opt: true, GlueBefore: pl[0], GlueAfter: pl[1]}
								}
							}
							c.Reads[k].Hdr = &hdrSpec{Opt: true, GlueBefore: pl[0], GlueAfter: pl[1], NoQuestion: k > 0 && idx%5 == 0}
							c.Reads[k].Rcode = rc
							if tsig && idx%2 == 0 {
								c.Reads[k].Sig.Ref = true
							}
							runOne(c, &expect{deliver: k, then: "error", key: kErr, why: fmt.Sprintf("an envelope whose RCODE is %d (header nibble %d, the rest in the OPT record's extended RCODE bits; additional section: %d record(s), OPT, %d record(s)%s) has a non-zero RCODE and must end the transfer with an error", rc, rc&15, pl[0], pl[1], map[bool]string{false: "", true: ", TSIG"}[tsig])}, true)
						}
					}
				}
			}
		}
	}
}
