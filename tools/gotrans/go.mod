module verif/gotrans

go 1.25.0
