from .core import Check


class C01(Check):
    prop = "C01"
    props_rel = "Props/C01"
    corr_module = "Corr.C01"
    corr_rel = "Corr/C01"
    gen_rels = ["Gen/Layouts", "Gen/Registry", "Gen/Consts", "Gen/Structs", "Gen/Lens"]
    shard_size = 120
    model_desc = ("Model/Rdata.v (field codecs of msg_helpers.go), Model/Msg.v (packRR, UnpackRR, Msg.Pack/Unpack, "
                  "header word, OPT/RCODE split) interpreting the per-type field sequences that tools/gotrans "
                  "regenerates from zmsg.go each run (Gen/Layouts.v), Model/NameWire.v for names")
    rule = ("every registered type x well-formed and ill-formed records (reflection-driven, boundary-biased values), "
            "unknown types as RFC 3597, RDATA-less update records, random messages with shared name suffixes and OPT "
            "in any position, RCODE 0..4095 with/without OPT, header flag words; direct oracles: Unpack(Pack(x)) = x in "
            "every field, Pack(Unpack(octets)) = octets for canonical uncompressed input; model cases: pack octets and "
            "unpacked values for a sample of all of these. Non-trivial: the record has RDATA / the message has records.")
    trusted = ["hex/base64/base32 text codecs of Go's encoding/* are outside the model (fields held as the octets they denote)",
               "EDNS0 option and SVCB parameter values are (code, packed value) pairs at this level"]

    partial = ["wire -> value -> wire (record_converse) covers all 81 types under the canonicity condition plain_fields2 (names written "
               "in full, canonical bitmap blocks, masked APL addresses, option/SVCB values that their codecs do not normalise) and for "
               "records with RDATA; the non-canonical encodings the decoder accepts and the RDATA-less records are *_refuted witnesses and "
               "harness findings (C01/rdataless-repack/<TYPE>)",
               "the message-level uncompressed round trip is proved through C04's unpack_of_pack for canonical messages; header and "
               "RCODE split by exhaustive kernel-checked sweeps"]

    def nontrivial(self, c):
        return len(c["args"][0]) > 60


CHECK = C01()
