package main

import (
	"bytes"
	"crypto"
	"crypto/ecdsa"
	"crypto/ed25519"
	"crypto/rand"
	"crypto/rsa"
	"crypto/sha1"
	"crypto/sha256"
	"crypto/sha512"
	"encoding/asn1"
	"encoding/base64"
	"encoding/binary"
	"errors"
	"math/big"
	"strconv"
	"strings"
	"time"

	"github.com/miekg/dns"
	. "verif/harness/common"
)

// C18: SIG(0). Any message can be signed; only untampered, timely messages verify;
// Verify returns an error rather than panicking on malformed input of header size or more.

func main() { Main(runC18) }

// ---------------------------------------------------------------------------
// keys (generated once per run through the library's own generator)
// ---------------------------------------------------------------------------

type keyPair struct {
	key  *dns.KEY
	priv crypto.Signer
	name string
}

func mkKey(name string, alg uint8, bits int) keyPair {
	k := new(dns.KEY)
	k.Hdr = dns.RR_Header{Name: name, Rrtype: dns.TypeKEY, Class: dns.ClassINET, Ttl: 300}
	k.Flags, k.Protocol, k.Algorithm = 0x0200, 3, alg
	p, err := k.Generate(bits)
	if err != nil {
		panic(err)
	}
	for k.KeyTag() == 0 { // one key in 65536: Sign refuses it (recorded finding C17/Sign/key-tag-zero); take another
		if p, err = k.Generate(bits); err != nil {
			panic(err)
		}
	}
	return keyPair{k, p.(crypto.Signer), dns.AlgorithmToString[alg]}
}

// directVerify checks sig over data with crypto/* only (hash per RFC 4034 A.1 numbers).
func directVerify(kp keyPair, alg uint8, data, sig []byte) string {
	var hashed []byte
	var ch crypto.Hash
	switch alg {
	case dns.RSASHA1, dns.RSASHA1NSEC3SHA1:
		h := sha1.Sum(data)
		hashed, ch = h[:], crypto.SHA1
	case dns.RSASHA256, dns.ECDSAP256SHA256:
		h := sha256.Sum256(data)
		hashed, ch = h[:], crypto.SHA256
	case dns.ECDSAP384SHA384:
		h := sha512.Sum384(data)
		hashed, ch = h[:], crypto.SHA384
	case dns.RSASHA512:
		h := sha512.Sum512(data)
		hashed, ch = h[:], crypto.SHA512
	case dns.ED25519:
		hashed = data
	default:
		return defaultClass(kp)
	}
	switch pub := kp.priv.Public().(type) {
	case ed25519.PublicKey:
		if ed25519.Verify(pub, hashed, sig) {
			return "ok"
		}
		return "sig"
	case *ecdsa.PublicKey:
		// r | s, each exactly as wide as the curve (RFC 6605, section 4)
		if len(sig) != 2*((pub.Curve.Params().BitSize+7)/8) {
			return "sig"
		}
		r := new(big.Int).SetBytes(sig[:len(sig)/2])
		s := new(big.Int).SetBytes(sig[len(sig)/2:])
		if ecdsa.Verify(pub, hashed, r, s) {
			return "ok"
		}
		return "sig"
	case *rsa.PublicKey:
		err := rsa.VerifyPKCS1v15(pub, ch, hashed, sig)
		if err == nil {
			return "ok"
		}
		return strings.TrimPrefix(errClass(err), "err:")
	}
	return "sig"
}

func defaultClass(kp keyPair) string {
	if _, ok := kp.priv.Public().(*rsa.PublicKey); ok {
		return "rsaverify"
	}
	return "sig"
}

// ---------------------------------------------------------------------------
// independent framing walker and the RFC 2931 digest input
// ---------------------------------------------------------------------------

func refName(b []byte, off int) ([][]byte, int, bool) {
	var ls [][]byte
	end := -1
	total := 1
	for hops := 0; ; {
		if off >= len(b) {
			return nil, 0, false
		}
		c := int(b[off])
		switch c & 0xC0 {
		case 0:
			if c == 0 {
				if end < 0 {
					end = off + 1
				}
				return ls, end, true
			}
			if off+1+c > len(b) {
				return nil, 0, false
			}
			total += c + 1
			if total > 255 {
				return nil, 0, false
			}
			ls = append(ls, b[off+1:off+1+c])
			off += 1 + c
		case 0xC0:
			if off+1 >= len(b) {
				return nil, 0, false
			}
			if end < 0 {
				end = off + 2
			}
			hops++
			if hops > 126 {
				return nil, 0, false
			}
			off = (c&0x3F)<<8 | int(b[off+1])
		default:
			return nil, 0, false
		}
	}
}

type refRR struct {
	start, rdStart, end int
	typ, class          uint16
}

func refParse(b []byte) (counts [4]int, rrs []refRR, end int, ok bool) {
	if len(b) < 12 {
		return
	}
	for i := 0; i < 4; i++ {
		counts[i] = int(binary.BigEndian.Uint16(b[4+2*i:]))
	}
	off := 12
	for i := 0; i < counts[0]; i++ {
		_, o, k := refName(b, off)
		if !k || o+4 > len(b) {
			return
		}
		off = o + 4
	}
	for i := 0; i < counts[1]+counts[2]+counts[3]; i++ {
		_, o, k := refName(b, off)
		if !k || o+10 > len(b) {
			return
		}
		rdlen := int(binary.BigEndian.Uint16(b[o+8:]))
		if o+10+rdlen > len(b) {
			return
		}
		rrs = append(rrs, refRR{start: off, rdStart: o + 10, end: o + 10 + rdlen,
			typ: binary.BigEndian.Uint16(b[o:]), class: binary.BigEndian.Uint16(b[o+2:])})
		off = o + 10 + rdlen
	}
	return counts, rrs, off, true
}

type refSig struct {
	rr             refRR
	data, sig      []byte
	expire, incept uint32
	signer         [][]byte
	sigEnd         int // offset where the signature starts
}

// refSig0: the SIG must be the last record (RFC 2931 3.1); data = SIG RDATA
// without the signature | message without the SIG, ARCOUNT lowered by one.
func refSig0(b []byte) (*refSig, bool) {
	counts, rrs, end, ok := refParse(b)
	if !ok || counts[3] == 0 || len(rrs) == 0 || end != len(b) {
		return nil, false
	}
	rr := rrs[len(rrs)-1]
	if rr.typ != dns.TypeSIG || rr.rdStart+18 >= rr.end {
		return nil, false
	}
	signer, o, k := refName(b[:rr.end], rr.rdStart+18)
	if !k {
		return nil, false
	}
	s := &refSig{rr: rr, signer: signer, sigEnd: o}
	s.expire = binary.BigEndian.Uint32(b[rr.rdStart+8:])
	s.incept = binary.BigEndian.Uint32(b[rr.rdStart+12:])
	s.sig = b[o:rr.end]
	msg := append([]byte(nil), b[:rr.start]...)
	binary.BigEndian.PutUint16(msg[10:], uint16(counts[3]-1))
	s.data = append(append([]byte(nil), b[rr.rdStart:o]...), msg...)
	return s, true
}

// refSig0Lenient reads the last record the way a verifier that trusts the counts
// but not the SIG's RDLENGTH would: all records but the last framed by RDLENGTH,
// then owner, ten octets, 18 fixed RDATA octets, signer name, and the signature
// up to the end of the buffer. Only used to fill the model's crypto table.
func refSig0Lenient(b []byte) (*refSig, bool) {
	if len(b) < 12 {
		return nil, false
	}
	qd := int(binary.BigEndian.Uint16(b[4:]))
	adc := binary.BigEndian.Uint16(b[10:])
	total := int(binary.BigEndian.Uint16(b[6:])+binary.BigEndian.Uint16(b[8:])+adc) - 1
	off := 12
	for i := 0; i < qd && off < len(b); i++ {
		_, o, k := refName(b, off)
		if !k {
			return nil, false
		}
		off = o + 4
	}
	for i := 0; i < total && off < len(b); i++ {
		_, o, k := refName(b, off)
		if !k {
			return nil, false
		}
		off = o + 8
		if off+1 >= len(b) {
			continue
		}
		off += 2 + int(binary.BigEndian.Uint16(b[off:]))
	}
	if off >= len(b) {
		return nil, false
	}
	bodyend := off
	_, o, k := refName(b, off)
	if !k || o+10+18+1 > len(b) {
		return nil, false
	}
	rd := o + 10
	signer, se, k := refName(b, rd+18)
	if !k {
		return nil, false
	}
	s := &refSig{signer: signer, sigEnd: se, sig: b[se:]}
	s.data = append([]byte(nil), b[rd:se]...)
	s.data = append(s.data, b[:10]...)
	s.data = append(s.data, byte((adc-1)>>8), byte(adc-1))
	s.data = append(s.data, b[12:bodyend]...)
	return s, true
}

func wireOf(ls [][]byte) []byte {
	var w []byte
	for _, l := range ls {
		w = append(w, byte(len(l)))
		w = append(w, l...)
	}
	return append(w, 0)
}

func nameWire(s string) []byte {
	if s == "" {
		return []byte{0}
	}
	buf := make([]byte, 600)
	off, err := dns.PackDomainName(s, buf, 0, nil, false)
	if err != nil {
		return nil
	}
	return buf[:off]
}

func sigRdata(s *dns.SIG) []byte {
	b := []byte{0, 0, s.Algorithm, 0, 0, 0, 0, 0}
	b = binary.BigEndian.AppendUint32(b, s.Expiration)
	b = binary.BigEndian.AppendUint32(b, s.Inception)
	b = binary.BigEndian.AppendUint16(b, s.KeyTag)
	return append(b, nameWire(s.SignerName)...)
}

// ---------------------------------------------------------------------------
// rendering
// ---------------------------------------------------------------------------

func errClass(err error) string {
	switch {
	case err == nil:
		return "ok:"
	case errors.Is(err, dns.ErrSig):
		return "err:sig"
	case errors.Is(err, dns.ErrTime):
		return "err:time"
	case errors.Is(err, dns.ErrKeyAlg):
		return "err:keyalg"
	case errors.Is(err, dns.ErrKey):
		return "err:key"
	case errors.Is(err, dns.ErrAlg):
		return "err:alg"
	case errors.Is(err, dns.ErrBuf):
		return "err:buf"
	case errors.Is(err, dns.ErrRdata):
		return "err:rdata"
	case errors.Is(err, dns.ErrLongDomain):
		return "err:longname"
	case errors.Is(err, dns.ErrPrivKey):
		return "err:privkey"
	case errors.Is(err, rsa.ErrVerification):
		return "err:rsaverify"
	}
	s := err.Error()
	switch {
	case strings.Contains(s, "too many compression pointers"):
		return "err:ptr"
	case strings.Contains(s, "overflow"):
		return "err:overflow"
	case strings.Contains(s, "signer name"):
		return "err:signer"
	}
	return "err:other"
}

func u(n uint64) string { return strconv.FormatUint(n, 10) }

func sigArgs(s *dns.SIG) []string {
	return []string{u(uint64(s.Algorithm)), u(uint64(s.Expiration)), u(uint64(s.Inception)), u(uint64(s.KeyTag)),
		Btoa(s.SignerName != ""), Hx(nameWire(s.SignerName))}
}

// ---------------------------------------------------------------------------
// generators
// ---------------------------------------------------------------------------

var labelAlpha = []byte("abcxyzABCXYZ019-_")
var baseNames = []string{"example.org.", "www.example.org.", "Mail.Example.ORG.", "a.b.c.example.org.", "ns1.example.net.", "."}

func genOwner(r *Rng) string {
	if r.Intn(5) == 0 {
		n := 1 + r.Intn(3)
		var ls [][]byte
		for i := 0; i < n; i++ {
			l := make([]byte, 1+r.Intn(10))
			for j := range l {
				if r.Intn(10) == 0 {
					l[j] = byte(r.Next())
				} else {
					l[j] = labelAlpha[r.Intn(len(labelAlpha))]
				}
			}
			ls = append(ls, l)
		}
		s, _, _ := dns.UnpackDomainName(wireOf(ls), 0)
		return s
	}
	return baseNames[r.Intn(len(baseNames))]
}

func genRR(r *Rng) dns.RR {
	h := dns.RR_Header{Name: genOwner(r), Class: dns.ClassINET, Ttl: uint32(r.Intn(100000))}
	switch r.Intn(9) {
	case 0:
		h.Rrtype = dns.TypeA
		return &dns.A{Hdr: h, A: r.Bytes(4)}
	case 1:
		h.Rrtype = dns.TypeNS
		return &dns.NS{Hdr: h, Ns: genOwner(r)}
	case 2:
		h.Rrtype = dns.TypeMX
		return &dns.MX{Hdr: h, Preference: uint16(r.Next()), Mx: genOwner(r)}
	case 3:
		h.Rrtype = dns.TypeTXT
		return &dns.TXT{Hdr: h, Txt: []string{string(labelAlpha[:r.Intn(len(labelAlpha))]), "x y"}}
	case 4:
		h.Rrtype = uint16(65280 + r.Intn(255))
		return &dns.RFC3597{Hdr: h, Rdata: Hx(r.Bytes(r.Intn(12)))}
	case 5:
		h.Rrtype = dns.TypeAAAA
		return &dns.AAAA{Hdr: h, AAAA: r.Bytes(16)}
	case 6:
		h.Rrtype = dns.TypeSOA
		return &dns.SOA{Hdr: h, Ns: genOwner(r), Mbox: genOwner(r), Serial: uint32(r.Next()), Refresh: 1, Retry: 2, Expire: 3, Minttl: 4}
	case 7:
		h.Rrtype = dns.TypeSRV
		return &dns.SRV{Hdr: h, Priority: 1, Weight: 2, Port: uint16(r.Next()), Target: genOwner(r)}
	default:
		h.Rrtype = dns.TypeCNAME
		return &dns.CNAME{Hdr: h, Target: genOwner(r)}
	}
}

func genMsg(r *Rng, maxRR int) *dns.Msg {
	m := new(dns.Msg)
	m.Id = uint16(r.Next())
	m.Response = r.Bool()
	m.Opcode = []int{0, 0, 5, 4}[r.Intn(4)]
	m.Authoritative, m.RecursionDesired = r.Bool(), r.Bool()
	m.Rcode = []int{0, 0, 3, 5, 9}[r.Intn(5)]
	nq := []int{1, 1, 1, 0, 2}[r.Intn(5)]
	for i := 0; i < nq; i++ {
		m.Question = append(m.Question, dns.Question{Name: genOwner(r), Qtype: uint16(1 + r.Intn(50)), Qclass: dns.ClassINET})
	}
	for i, n := 0, r.Intn(maxRR+1); i < n; i++ {
		m.Answer = append(m.Answer, genRR(r))
	}
	for i, n := 0, r.Intn(maxRR/2+1); i < n; i++ {
		m.Ns = append(m.Ns, genRR(r))
	}
	for i, n := 0, r.Intn(maxRR/2+1); i < n; i++ {
		m.Extra = append(m.Extra, genRR(r))
	}
	if r.Intn(4) == 0 {
		o := &dns.OPT{Hdr: dns.RR_Header{Name: ".", Rrtype: dns.TypeOPT}}
		o.SetUDPSize(4096)
		m.Extra = append(m.Extra, o)
	}
	return m
}

func newSig(kp keyPair, incept, expire uint32) *dns.SIG {
	s := new(dns.SIG)
	s.Algorithm, s.KeyTag, s.SignerName = kp.key.Algorithm, kp.key.KeyTag(), kp.key.Hdr.Name
	s.Inception, s.Expiration = incept, expire
	return s
}

// ---------------------------------------------------------------------------
// calling the implementation
// ---------------------------------------------------------------------------

type c18in struct {
	Msg      string `json:"msg_hex,omitempty"`
	Signed   string `json:"signed_hex,omitempty"`
	Alg      string `json:"alg,omitempty"`
	Compress bool   `json:"compress"`
	Len      int    `json:"len,omitempty"`
	Extra    int    `json:"additional_records,omitempty"`
	Detail   string `json:"detail,omitempty"`
	Bit      int    `json:"bit,omitempty"`
	KeyRR    string `json:"key_rr,omitempty"`
	Template string `json:"sig_template,omitempty"`
}

var st = map[string]int{}

func doSign(s *dns.SIG, kp keyPair, m *dns.Msg) (out []byte, err error) {
	if Protect(func() string { out, err = s.Sign(kp.priv, m); return "" }) == "panic" {
		err = errors.New("panic")
	}
	return
}

// receive mimics a receiver: unpack, take the trailing SIG, verify. It returns the
// verdict, the SIG used, and the clock readings around the call.
func receive(buf []byte, fallback *dns.SIG, k *dns.KEY) (verdict string, used *dns.SIG, t0, t1 uint32) {
	used = fallback
	var um dns.Msg
	if um.Unpack(buf) == nil && len(um.Extra) > 0 {
		if s, ok := um.Extra[len(um.Extra)-1].(*dns.SIG); ok {
			used = s
		}
	}
	t0 = uint32(time.Now().Unix())
	verdict = verifyClass(used, k, buf)
	t1 = uint32(time.Now().Unix())
	return
}

// Model cases whose octets do not fit a literal (more than 3000 octets) are
// described by a run-length recipe both sides expand (Corr/C18.v expand) and long
// octet strings are compared by length.sum.sum-of-prefix-sums (Corr/C18.v digest).
// They cost ~0.1-0.4 s each inside Coq, so they are queued and interleaved with
// the small cases: the case list is evaluated in shards of 150.
type pcase struct {
	fn   string
	args []string
	out  string
}

var pending []pcase
var emitted int

func emitCase(fn string, args []string, out string) {
	Emit(fn, args, out)
	emitted++
	if emitted%16 == 0 && len(pending) > 0 {
		p := pending[0]
		pending = pending[1:]
		Emit(p.fn, p.args, p.out)
	}
}

func emitBig(fn string, args []string, out string) {
	pending = append(pending, pcase{fn, args, out})
	st["big_model_cases"]++
}

func flushBig() {
	for _, p := range pending {
		Emit(p.fn, p.args, p.out)
	}
	pending = nil
}

// rle: seg,seg,... with seg = hex or hex*count (chunk repeated count times).
func rle(b []byte) string {
	var sb strings.Builder
	var lit []byte
	flush := func() {
		if len(lit) > 0 {
			if sb.Len() > 0 {
				sb.WriteByte(',')
			}
			sb.WriteString(Hx(lit))
			lit = lit[:0]
		}
	}
	for i := 0; i < len(b); {
		bestP, bestReps := 0, 0
		for p := 1; p <= 80 && i+p <= len(b); p++ {
			j := i + p
			for j < len(b) && b[j] == b[j-p] {
				j++
			}
			reps := (j - i) / p
			if reps >= 3 && reps*p >= 48 && reps*p > bestP*bestReps {
				bestP, bestReps = p, reps
			}
		}
		if bestP == 0 {
			lit = append(lit, b[i])
			i++
			continue
		}
		flush()
		if sb.Len() > 0 {
			sb.WriteByte(',')
		}
		sb.WriteString(Hx(b[i:i+bestP]) + "*" + Itoa(bestReps))
		i += bestP * bestReps
	}
	flush()
	return sb.String()
}

func digest(b []byte) string {
	var s1, s2 uint64
	for _, x := range b {
		s1 += uint64(x)
		s2 += s1
	}
	return Itoa(len(b)) + "." + u(s1) + "." + u(s2)
}

const maxLiteral = 3000 // octets given as a hex literal
const maxRecipe = 16000 // characters of a recipe

// emitVerify: one model case for SIG.Verify on buf.
func emitVerify(buf []byte, fallback *dns.SIG, kp keyPair, verifier *dns.KEY) string {
	got, used, t0, t1 := receive(buf, fallback, verifier)
	if t0 != t1 {
		return got // the clock ticked during the call: not replayable
	}
	emitVerifyResult(buf, used, kp, verifier, got, t0)
	return got
}

// emitVerifyResult: the model case for a Verify call already made (SIG used,
// verdict got, clock reading t0 unchanged over the call).
func emitVerifyResult(buf []byte, used *dns.SIG, kp keyPair, verifier *dns.KEY, got string, t0 uint32) {
	big := len(buf) > maxLiteral
	table := ":::" + defaultClass(kp)
	rs, ok := refSig0(buf)
	if !ok {
		rs, ok = refSig0Lenient(buf)
	}
	if ok {
		d := Hx(rs.data)
		if big {
			d = digest(rs.data)
		}
		table = d + ":" + Hx(rs.sig) + ":" + directVerify(kp, used.Algorithm, rs.data, rs.sig) + ":" + defaultClass(kp)
	}
	st["verdict_"+strings.TrimPrefix(strings.TrimSuffix(got, ":"), "err:")]++
	if !big {
		args := append(sigArgs(used), Hx(nameWire(verifier.Hdr.Name)), Hx(buf), u(uint64(t0)), table)
		emitCase("verify", args, got)
		return
	}
	// the model finds the length of its octet list anew for every name it reads:
	// ~5 ms per record in a 64 KiB message
	if nrec := int(binary.BigEndian.Uint16(buf[6:])) + int(binary.BigEndian.Uint16(buf[8:])) + int(binary.BigEndian.Uint16(buf[10:])); nrec > 40 {
		st["big_verify_case_too_many_records"]++
		return
	}
	rec := rle(buf)
	if len(rec) > maxRecipe || len(table) > maxRecipe {
		st["big_case_without_recipe"]++
		return
	}
	args := append(sigArgs(used), Hx(nameWire(verifier.Hdr.Name)), rec, u(uint64(t0)), table)
	emitBig("verifybig", args, got)
}

// directSign: hash-then-sign with crypto/* only, in the DNSSEC signature format.
func directSign(kp keyPair, alg uint8, data []byte) []byte {
	hashed, ch, ok := directHash(alg, data)
	if !ok {
		return nil
	}
	sig, err := kp.priv.Sign(rand.Reader, hashed, ch)
	if err != nil {
		return nil
	}
	if pub, ok := kp.priv.Public().(*ecdsa.PublicKey); ok {
		var rs struct{ R, S *big.Int }
		if _, err := asn1.Unmarshal(sig, &rs); err != nil {
			return nil
		}
		n := (pub.Curve.Params().BitSize + 7) / 8
		sig = append(rs.R.FillBytes(make([]byte, n)), rs.S.FillBytes(make([]byte, n))...)
	}
	return sig
}

// directHash: the octets a signer is handed for data under algorithm alg.
func directHash(alg uint8, data []byte) ([]byte, crypto.Hash, bool) {
	switch alg {
	case dns.RSASHA1, dns.RSASHA1NSEC3SHA1:
		h := sha1.Sum(data)
		return h[:], crypto.SHA1, true
	case dns.RSASHA256, dns.ECDSAP256SHA256:
		h := sha256.Sum256(data)
		return h[:], crypto.SHA256, true
	case dns.ECDSAP384SHA384:
		h := sha512.Sum384(data)
		return h[:], crypto.SHA384, true
	case dns.RSASHA512:
		h := sha512.Sum512(data)
		return h[:], crypto.SHA512, true
	case dns.ED25519:
		return data, crypto.Hash(0), true
	}
	return nil, 0, false
}

// sigLen: the length of a signature by kp in the DNSSEC format.
func sigLen(kp keyPair) int {
	switch pub := kp.priv.Public().(type) {
	case ed25519.PublicKey:
		return ed25519.SignatureSize
	case *ecdsa.PublicKey:
		return 2 * ((pub.Curve.Params().BitSize + 7) / 8)
	case *rsa.PublicKey:
		return pub.Size()
	}
	return 0
}

func emitSign(m *dns.Msg, s *dns.SIG, kp keyPair) {
	mbuf, err := m.Pack()
	if err != nil {
		return
	}
	sc := *s
	out, serr := doSign(&sc, kp, m)
	emitSignResult(m, s, kp, mbuf, out, serr)
}

// emitSignResult: the model case for a Sign call already made: s as handed to
// Sign (Signature empty), mbuf = m.Pack(), (out, serr) what Sign returned.
func emitSignResult(m *dns.Msg, s *dns.SIG, kp keyPair, mbuf, out []byte, serr error) {
	big := len(mbuf) > maxLiteral
	mu := m.Copy()
	mu.Compress = false
	rd := sigRdata(s)
	data := append(append([]byte(nil), rd...), mbuf...)
	dd := Hx(data)
	if big {
		dd = digest(data)
	}
	table := "::"
	got := errClass(serr)
	sigStart := len(mbuf) + 11 + len(rd)
	switch {
	case serr == nil && len(out) >= sigStart:
		table = dd + ":ok:" + Hx(out[sigStart:])
	case serr != nil && got == "err:buf":
		// the 65535 limit is tested after signing: give the model a signature of this key
		if sg := directSign(kp, s.Algorithm, data); sg != nil {
			table = dd + ":ok:" + Hx(sg)
		}
	}
	if serr == nil {
		got = "ok:" + Hx(out)
		if big {
			tail := out
			if len(out) >= len(mbuf) {
				tail = out[len(mbuf):]
			}
			got = "ok:" + digest(out) + ":" + Hx(out[:min(12, len(out))]) + ":" + Hx(tail)
		}
	}
	if !big {
		args := append([]string{Itoa(mu.Len()), Hx(mbuf)}, sigArgs(s)...)
		emitCase("sign", append(args, table), got)
		return
	}
	rec := rle(mbuf)
	if len(rec) > maxRecipe {
		st["big_case_without_recipe"]++
		return
	}
	args := append([]string{Itoa(mu.Len()), rec}, sigArgs(s)...)
	emitBig("signbig", append(args, table), got)
}

// ---------------------------------------------------------------------------
// direct oracles
// ---------------------------------------------------------------------------

// oracleMessage: sign m with kp and check every clause on the result.
const (
	modeSample = iota // bit flips and truncations sampled by position
	modeAll           // every bit, every truncation
	modeLight         // a fixed number of random bits / truncations (large messages)
)

func oracleMessage(r *Rng, m *dns.Msg, kp keyPair, others []keyPair, mode int) []byte {
	return oracleMessageT(r, m, kp, others, mode, nil)
}

// oracleMessageT: the same with a SIG value whose header and remaining fields the
// caller has filled before Sign (template.go). What Sign must produce does not
// depend on them: sigRdata and the expected size use the five fields Sign's
// documentation names (algorithm, times, key tag, signer) and nothing else.
func oracleMessageT(r *Rng, m *dns.Msg, kp keyPair, others []keyPair, mode int, tpl *sigTemplate) []byte {
	now := uint32(time.Now().Unix())
	s := newSig(kp, now-3000, now+3000)
	packed, perr := m.Pack()
	if perr != nil {
		return nil
	}
	in := c18in{Msg: Hx(packed), Alg: kp.name, Compress: m.Compress, Len: len(packed), Extra: len(m.Extra), KeyRR: kp.key.String()}
	if tpl != nil {
		tpl.fill(s, kp)
		in.Template = tpl.describe(s)
		st["template_sign_checked"]++
	}
	// the size of the signed message is known beforehand: Pack(), one SIG record
	// (root owner, ten fixed octets, RDATA), a signature whose length the key fixes
	total := len(packed) + 11 + len(sigRdata(s)) + sigLen(kp)
	out, err := doSign(s, kp, m)
	st["sign_checked"]++
	if err == nil && len(out) > 65535 {
		in.Detail = "signed size " + Itoa(len(out))
		Viol("C18/Sign/oversize", "SIG.Sign returned more octets than a DNS message can have", in)
		return nil
	}
	if err != nil {
		mu := m.Copy()
		mu.Compress = false
		in.Detail = "signed size " + Itoa(total)
		switch {
		case errClass(err) == "err:buf" && total > 65535:
			st["too_large_for_one_message"]++
		case errClass(err) == "err:buf" && total > 65000:
			Viol("C18/Sign/size-limit", "SIG.Sign refuses a message whose signed size fits 65535 octets: "+err.Error(), in)
		case errClass(err) == "err:buf" && m.Compress && m.Len() < mu.Len():
			in.Detail = "m.Len()=" + Itoa(m.Len()) + " uncompressed=" + Itoa(mu.Len())
			Viol("C18/Sign/ErrBuf-compress", "SIG.Sign fails with ErrBuf on a message that packs fine (compression enabled)", in)
		default:
			Viol("C18/Sign/error", "SIG.Sign failed: "+err.Error(), in)
		}
		return nil
	}
	in.Signed = Hx(out)
	if len(out) != total {
		in.Detail = "signed size " + Itoa(len(out)) + ", Pack + SIG record + signature = " + Itoa(total)
		Viol("C18/Sign/layout", "signed octets are not Pack() plus one SIG record with a signature of the key's size", in)
	}
	// layout: Pack() with ARCOUNT+1, then one SIG record
	rs, ok := refSig0(out)
	want := append([]byte(nil), packed...)
	binary.BigEndian.PutUint16(want[10:], binary.BigEndian.Uint16(packed[10:])+1)
	if !ok || !bytes.Equal(out[:rs.rr.start], want) {
		Viol("C18/Sign/layout", "signed octets are not Pack() with ARCOUNT+1 followed by one trailing SIG record", in)
		return out
	}
	rd := sigRdata(s)
	if !bytes.Equal(out[rs.rr.rdStart:rs.sigEnd], rd) || out[rs.rr.start] != 0 || rs.rr.class != dns.ClassANY ||
		binary.BigEndian.Uint32(out[rs.rr.start+5:]) != 0 {
		Viol("C18/Sign/layout", "SIG record is not . ANY TTL 0 with the given RDATA fields", in)
	}
	var um dns.Msg
	if e := um.Unpack(out); e != nil || len(um.Extra) != len(m.Extra)+1 {
		Viol("C18/Sign/layout", "signed octets do not unpack to the message plus one record", in)
		return out
	}
	// the signature is an RFC 2931 signature, checked with crypto/* directly
	if directVerify(kp, s.Algorithm, append(append([]byte(nil), rd...), packed...), rs.sig) != "ok" {
		Viol("C18/Sign/signature-is-rfc2931", "signature does not verify over RDATA | message with crypto/* directly", in)
	}
	// it verifies
	st["verify_checked"]++
	if got, _, _, _ := receive(out, s, kp.key); got != "ok:" {
		if len(m.Extra) >= 256 {
			Viol("C18/Verify/arcount-high-byte", "signed message with "+Itoa(len(m.Extra))+" additional records does not verify: "+got, in)
		} else {
			Viol("C18/Verify/signed-rejected", "signed message does not verify: "+got, in)
		}
		return out
	}
	// wrong keys
	for _, o := range others {
		st["verify_checked"]++
		ko := *o.key
		ko.Hdr.Name = kp.key.Hdr.Name
		if got, _, _, _ := receive(out, s, &ko); got == "ok:" || got == "panic" {
			in2 := in
			in2.Detail = "verified with another key (" + o.name + ")"
			Viol("C18/Verify/wrong-key", "another key: "+got, in2)
		}
	}
	kn := *kp.key
	kn.Hdr.Name = "other." + kp.key.Hdr.Name
	if got, _, _, _ := receive(out, s, &kn); got != "err:signer" {
		Viol("C18/Verify/signer-name", "key with another owner name: "+got, in)
	}
	kn.Hdr.Name = strings.ToUpper(kp.key.Hdr.Name)
	if got, _, _, _ := receive(out, s, &kn); got != "ok:" {
		Viol("C18/Verify/signer-name-case", "key name differing in case only: "+got, in)
	}
	// every single-bit alteration
	nbits := len(out) * 8
	var lightBits []int
	if mode == modeLight {
		for i := 0; i < 12; i++ {
			lightBits = append(lightBits, r.Intn(rs.rr.start*8))
			lightBits = append(lightBits, rs.rr.start*8+r.Intn(nbits-rs.rr.start*8))
		}
		lightBits = append(lightBits, 0, 95, 96, rs.rr.start*8-1, rs.rr.start*8, rs.sigEnd*8-1, rs.sigEnd*8, nbits-1)
		nbits = len(lightBits)
	}
	for idx := 0; idx < nbits; idx++ {
		bit := idx
		if mode == modeLight {
			bit = lightBits[idx]
		}
		pos := bit / 8
		if mode == modeSample {
			switch {
			case pos < rs.rr.start && (len(out) > 1500 || r.Next()%16 != 0):
				continue
			case pos >= rs.sigEnd && r.Next()%8 != 0:
				continue
			}
		}
		// The SIG record's own CLASS, TTL and RDLENGTH are outside the RFC 2931 data
		// (SIG RDATA | message without the SIG), and Verify reads the signature up to
		// the end of the buffer: altering them changes none of the signed inputs.
		sigHeader := pos >= rs.rr.rdStart-8 && pos < rs.rr.rdStart
		mut := append([]byte(nil), out...)
		mut[pos] ^= 0x80 >> (bit % 8)
		var um2 dns.Msg
		if um2.Unpack(mut) != nil || len(um2.Extra) == 0 {
			st["bitflips_unpack_rejected"]++
			continue
		}
		usig, ok := um2.Extra[len(um2.Extra)-1].(*dns.SIG)
		if !ok {
			st["bitflips_unpack_rejected"]++
			continue
		}
		// what receive does, without unpacking a second time
		got := verifyClass(usig, kp.key, mut)
		st["bitflips_checked"]++
		if sigHeader && got != "panic" {
			if got == "ok:" {
				st["sig_header_alteration_accepted"]++
			}
			continue
		}
		if got == "ok:" || got == "panic" {
			in2 := in
			in2.Bit = bit
			key := "C18/Verify/bit-alteration"
			if got == "panic" {
				key = "C18/Verify/panic"
			}
			Viol(key, "bit "+Itoa(bit)+" altered: "+got, in2)
		}
	}
	// every truncation of at least header size, and with the caller's SIG: error, never panic
	for n := 12; n < len(out); n++ {
		if mode == modeSample && n%5 != 0 && n < rs.rr.start {
			continue
		}
		if mode == modeLight && n > 14 && n+40 < len(out) && (n < rs.rr.start-2 || n > rs.rr.start+2) && r.Intn(len(out)/32+1) != 0 {
			continue
		}
		got := verifyClass(s, kp.key, out[:n])
		st["truncations_checked"]++
		if got == "ok:" || got == "panic" {
			in2 := in
			in2.Detail = "prefix of " + Itoa(n) + " octets"
			key := "C18/Verify/truncation"
			if got == "panic" {
				key = "C18/Verify/panic"
			}
			Viol(key, "truncated input: "+got, in2)
		}
	}
	return out
}

// oracleWindow: inception/expiration relative to the clock.
func oracleWindow(m *dns.Msg, kp keyPair, emit bool) {
	for _, w := range [][2]int64{{-3000, 3000}, {0, 3000}, {-3000, 2}, {5, 3000}, {-3000, -5}, {-10, -5}, {5, 10}, {3000, -3000}} {
		now := time.Now().Unix()
		s := newSig(kp, uint32(now+w[0]), uint32(now+w[1]))
		m.Compress = false
		out, err := doSign(s, kp, m)
		if err != nil {
			continue
		}
		got, _, t0, t1 := receive(out, s, kp.key)
		st["window_checked"]++
		exp := func(t uint32) string {
			if t < s.Inception || t > s.Expiration {
				return "err:time"
			}
			return "ok:"
		}
		if exp(t0) == exp(t1) && got != exp(t0) {
			Viol("C18/Verify/time-window", "inception now"+strconv.FormatInt(w[0], 10)+" expiration now"+strconv.FormatInt(w[1], 10)+": got "+got+" want "+exp(t0),
				c18in{Signed: Hx(out), Alg: kp.name})
		}
		if emit {
			emitVerify(out, s, kp, kp.key)
		}
	}
}

// malformed: structured garbage of header size or more.
func oracleMalformed(r *Rng, kp keyPair, seed []byte, emit bool) {
	now := uint32(time.Now().Unix())
	s := newSig(kp, now-3000, now+3000)
	try := func(b []byte) {
		got := verifyClass(s, kp.key, b)
		st["malformed_checked"]++
		// Verify assumes rr was unpacked from buf; here it is not, so only the
		// absence of a panic is demanded (acceptance is judged in oracleMessage,
		// where the SIG comes from unpacking the altered octets)
		if got == "panic" {
			Viol("C18/Verify/panic", "malformed input: "+got, c18in{Signed: Hx(b), Alg: kp.name})
		}
		if emit && len(b) < 400 {
			emitVerify(b, s, kp, kp.key)
		}
	}
	hdr := func(qd, an, ns, ar int) []byte {
		b := make([]byte, 12)
		binary.BigEndian.PutUint16(b[4:], uint16(qd))
		binary.BigEndian.PutUint16(b[6:], uint16(an))
		binary.BigEndian.PutUint16(b[8:], uint16(ns))
		binary.BigEndian.PutUint16(b[10:], uint16(ar))
		return b
	}
	for _, c := range [][4]int{{0, 0, 0, 0}, {0, 0, 0, 1}, {1, 0, 0, 1}, {65535, 65535, 65535, 65535}, {0, 65535, 1, 1}, {0, 32768, 32768, 1}, {2, 1, 1, 2}} {
		try(hdr(c[0], c[1], c[2], c[3]))
		for _, tail := range [][]byte{{0}, {0, 0, 1}, {0, 0, 1, 0, 1}, {0xC0, 12}, {0xC0, 0}, {1}, {63}, {0, 0, 24, 0, 255, 0, 0, 0, 0}, {0, 0, 24, 0, 255, 0, 0, 0, 0, 0xFF, 0xFF}} {
			try(append(hdr(c[0], c[1], c[2], c[3]), tail...))
		}
		// a SIG record whose RDATA stops after every octet
		full := append([]byte{0, 0, 24, 0, 255, 0, 0, 0, 0, 0, 40}, sigRdata(s)...)
		full = append(full, r.Bytes(8)...)
		for n := 0; n <= len(full); n++ {
			try(append(hdr(c[0], c[1], c[2], c[3]), full[:n]...))
		}
	}
	for i := 0; i < 200; i++ {
		b := r.Bytes(12 + r.Intn(60))
		if i%2 == 0 {
			binary.BigEndian.PutUint16(b[4:], uint16(r.Intn(3)))
			binary.BigEndian.PutUint16(b[6:], uint16(r.Intn(3)))
			binary.BigEndian.PutUint16(b[8:], 0)
			binary.BigEndian.PutUint16(b[10:], uint16(r.Intn(3)))
			for j := 12; j < len(b); j++ {
				if r.Intn(3) > 0 {
					b[j] &= 0x0F
				}
			}
		}
		try(b)
	}
	// mutations of a valid signed message: overwrite one octet, splice, duplicate tail
	if len(seed) > 12 {
		for i := 0; i < 200; i++ {
			b := append([]byte(nil), seed...)
			switch r.Intn(3) {
			case 0:
				b[r.Intn(len(b))] = byte(r.Next())
			case 1:
				p := 12 + r.Intn(len(b)-12)
				b = append(b[:p], b[p+1:]...)
			default:
				p := 12 + r.Intn(len(b)-12)
				b = append(b[:p], append([]byte{byte(r.Next())}, b[p:]...)...)
			}
			try(b)
		}
	}
}

func runC18(r *Rng, tier string, n int) {
	nmsg, nmodel := 40, 30
	if tier == "thorough" {
		nmsg, nmodel = 600, 200
	}
	if n > 0 {
		nmsg = n
	}
	keys := []keyPair{
		mkKey("key.example.", dns.ED25519, 256),
		mkKey("Key.Example.", dns.ECDSAP256SHA256, 256),
		mkKey("k.", dns.ECDSAP384SHA384, 384),
		mkKey("rsa.key.example.", dns.RSASHA256, 1024),
		mkKey("rsa1.example.", dns.RSASHA1, 1024),
		mkKey("rsa512.example.", dns.RSASHA512, 2048),
	}
	// the largest RSA size Generate offers (4096 bits: a modulus of exactly 512 octets), a fixed key
	if rr, err := dns.NewRR(RSA4096Pub8); err == nil {
		dk := rr.(*dns.DNSKEY)
		k := &dns.KEY{DNSKEY: *dk}
		k.Hdr.Rrtype = dns.TypeKEY
		k.Flags = 0x0200
		if p, err := k.NewPrivateKey(RSA4096Priv8); err == nil {
			keys = append(keys, keyPair{k, p.(crypto.Signer), dns.AlgorithmToString[dns.RSASHA256]})
		} else {
			Viol("C18/key/rsa4096-not-loadable", "a 4096-bit RSA private key exported by the library cannot be read back: "+err.Error(), nil)
		}
	}
	extra := []keyPair{mkKey("key.example.", dns.ED25519, 256), mkKey("key.example.", dns.ECDSAP256SHA256, 256)}

	// (1) direct oracles: any content, size, compression setting
	var seedMsg []byte
	for i := 0; i < nmsg; i++ {
		kp := keys[i%len(keys)]
		m := genMsg(r, []int{1, 3, 6, 12}[r.Intn(4)])
		m.Compress = i%2 == 1
		others := []keyPair{extra[i%2], keys[(i+1)%len(keys)]}
		mode := modeSample
		if i < 3 || (tier == "thorough" && i < 40) {
			mode = modeAll
		}
		if out := oracleMessage(r, m, kp, others, mode); out != nil && seedMsg == nil {
			seedMsg = out
		}
	}
	// sizes: many additional records (ARCOUNT 254..258 and 511..513), large messages
	for _, na := range []int{254, 255, 256, 257, 258, 511, 512, 513} {
		m := new(dns.Msg)
		m.SetQuestion("a.", dns.TypeA)
		for i := 0; i < na; i++ {
			m.Extra = append(m.Extra, &dns.A{Hdr: dns.RR_Header{Name: "a.", Rrtype: dns.TypeA, Class: 1}, A: []byte{1, 2, 3, byte(i)}})
		}
		oracleMessage(r, m, keys[0], nil, modeSample)
	}
	for _, sz := range []int{20000, 60000, 65300} {
		m := new(dns.Msg)
		m.SetQuestion("big.example.", dns.TypeTXT)
		for m.Len() < sz {
			m.Answer = append(m.Answer, &dns.TXT{Hdr: dns.RR_Header{Name: "big.example.", Rrtype: dns.TypeTXT, Class: 1}, Txt: []string{strings.Repeat("x", 200)}})
		}
		oracleMessage(r, m, keys[0], nil, modeSample)
	}
	// (1b) every size limit of Sign/Verify, from both sides, for every algorithm family
	oracleSizes(r, keys, tier)
	// (1c) many goroutines signing and verifying at once
	oracleConcurrent(r, keys, tier)
	// (1e) Verify observed from the hash it writes to; one buffer verified by many goroutines
	oracleObserved(r, keys)
	oracleSharedBuffer(r, keys, tier)
	// (1f) signer name against KEY owner name: every octet value, Unicode relatives of the ASCII letters
	oracleNames(r, keys)
	// (1g) the length of the signature field
	oracleSigLens(r, keys)
	// (1h) SIG values whose header and remaining fields the caller filled before Sign
	oracleTemplates(r, keys, tier)
	// (1d) KEY objects that change between calls; the window at its exact bounds
	oracleKeyChange(r, keys)
	oracleWindowExact(r, keys)
	// (1i) the public key field: genuine material plus / minus octets, every RSA
	// exponent encoding, ECDSA signatures with leading zero octets in r or s
	oracleKeyMaterial(r, keys)
	oracleKeyEncodings(r, keys)
	oracleEcdsaLeadingZeros(r, keys)
	// (2) validity window, malformed input
	wm := new(dns.Msg)
	wm.SetQuestion("example.org.", dns.TypeSOA)
	for i, kp := range keys {
		oracleWindow(wm, kp, i < 3)
	}
	oracleMalformed(r, keys[0], seedMsg, true)
	oracleMalformed(r, keys[3], nil, false)

	// (3) model cases
	now := uint32(time.Now().Unix())
	for i := 0; i < nmodel; i++ {
		kp := keys[i%len(keys)]
		m := genMsg(r, []int{0, 1, 3, 6}[r.Intn(4)])
		m.Compress = i%3 == 1
		s := newSig(kp, now-3000, now+3000)
		switch i % 10 {
		case 4:
			s.KeyTag = 0
		case 5:
			s.SignerName = ""
		case 6:
			s.Algorithm = 0
		case 7:
			s.Algorithm = []uint8{2, 4, 12, 16, 200}[r.Intn(5)] // no hash registered
		case 8:
			s.SignerName = "." // root is a name
		}
		emitSign(m, s, kp)
		m.Compress = false
		s = newSig(kp, now-3000, now+3000)
		out, err := doSign(s, kp, m)
		if err != nil {
			continue
		}
		emitVerify(out, s, kp, kp.key)
		kn := *kp.key
		kn.Hdr.Name = "other."
		emitVerify(out, s, kp, &kn)
		rs, ok := refSig0(out)
		if !ok {
			continue
		}
		for k := 0; k < 14; k++ {
			mut := append([]byte(nil), out...)
			bit := r.Intn(len(mut) * 8)
			switch {
			case k < 3:
				bit = r.Intn(12 * 8) // header: counts steer the loops
			case k < 8:
				bit = (rs.rr.start+r.Intn(rs.sigEnd-rs.rr.start))*8 + r.Intn(8) // SIG header and fixed RDATA
			}
			mut[bit/8] ^= 0x80 >> (bit % 8)
			emitVerify(mut, s, kp, kp.key)
		}
		for k := 0; k < 6; k++ {
			emitVerify(out[:12+r.Intn(len(out)-12)], s, kp, kp.key)
		}
		// the caller's SIG may disagree with the one in the message
		s2 := *s
		s2.Algorithm = []uint8{dns.ED25519, dns.RSASHA256, dns.ECDSAP256SHA256, 1, 3}[r.Intn(5)]
		emitVerify(out, &s2, kp, kp.key)
	}
	// compression saving below, at and above the SIG's own length (the case that
	// made Sign fail before fix 2fe1c25): n records whose owner repeats the question
	// name save 11 octets each; the SIG is 29 octets plus its signer name
	for nrec := 2; nrec <= 5; nrec++ {
		for l := 1; l <= 22; l += 1 + nrec%2 {
			m := new(dns.Msg)
			m.SetQuestion("example.org.", dns.TypeA)
			m.Compress = true
			for i := 0; i < nrec; i++ {
				m.Answer = append(m.Answer, &dns.A{Hdr: dns.RR_Header{Name: "example.org.", Rrtype: dns.TypeA, Class: 1, Ttl: 60}, A: []byte{10, 0, 0, byte(i)}})
			}
			s := newSig(keys[0], now-3000, now+3000)
			s.SignerName = strings.Repeat("k", l) + "."
			emitSign(m, s, keys[0])
		}
	}
	// ARCOUNT-1 = 254, 255, 256: minimal records so that the octets stay small enough for a model case
	for _, na := range []int{254, 255, 256} {
		m := new(dns.Msg)
		m.SetQuestion(".", dns.TypeA)
		for i := 0; i < na; i++ {
			m.Extra = append(m.Extra, &dns.RFC3597{Hdr: dns.RR_Header{Name: ".", Rrtype: 65300, Class: 1}})
		}
		s := newSig(keys[0], now-3000, now+3000)
		emitSign(m, s, keys[0])
		s = newSig(keys[0], now-3000, now+3000)
		if out, err := doSign(s, keys[0], m); err == nil {
			emitVerify(out, s, keys[0], keys[0].key)
		}
	}
	_ = base64.StdEncoding
	flushBig()
	flushRO()
	Stat(st)
}
