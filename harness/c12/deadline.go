package main

// C12, the deadline clause: "over datagrams [an exchange] skips replies with
// other IDs until the matching one OR THE DEADLINE ARRIVES".
//
// Class exercised here: Exchange / ExchangeContext (ExchangeWithConn[Context])
// under a SUSTAINED stream of foreign-ID, stale and duplicate replies arriving
// at various rates, with no matching reply at all, with a matching reply that
// arrives long after the deadline, and with one that arrives long before it.
// The deadline is the earlier of the client's timeout (Timeout, else
// ReadTimeout, else the documented default of 2 s) and the context's deadline.
// The exchange must end with a timeout error at the deadline (never before it,
// and within `dlSlack` after it), or with the matching reply when that arrives
// in time. The peer is a paced scripted connection (no kernel involved); the
// stream of foreign replies never ends, so an exchange that lets foreign replies
// extend its deadline does not return at all until the supervisor gives up.
//
// Robustness: verdicts are relative to the configured deadline with seconds of
// slack; a watchdog goroutine measures how late the harness' own timers fire,
// and when the machine stalled during a scenario its verdict is dropped
// (stat infra_stall), never reported.

import (
	"context"
	"encoding/binary"
	"fmt"
	"net"
	"sort"
	"strings"
	"sync"
	"time"

	"github.com/miekg/dns"
	. "verif/harness/common"
	"verif/harness/netfake"
)

const (
	dlSlack     = 4 * time.Second // how long after its deadline an exchange may still return
	dlStall     = time.Second     // a scheduling gap of this size voids the verdict
	dlFarBefore = 20 * time.Second
)

// ---------------------------------------------------------------- paced connections

// paced is a scripted peer with a clock: arrival i (a datagram, or a chunk of a
// stream) becomes readable arr(i).at after the request was written. Reads block
// until the next arrival or the read deadline, whichever comes first; the
// deadline in force is the one set last, as with a real socket.
type paced struct {
	mu       sync.Mutex
	cond     *sync.Cond
	arr      func(i int) (time.Duration, []byte, bool)
	next     int
	rest     []byte // stream mode: unread part of the current chunk
	stream   bool
	start    time.Time
	started  bool
	deadline time.Time
	closed   bool
	writes   [][]byte
	reads    int
	sets     int
	// mark, when set, is the arrival whose delivery to a Read closes marked
	mark   []byte
	marked chan struct{}
}

func newPaced(stream bool, arr func(i int) (time.Duration, []byte, bool)) *paced {
	p := &paced{arr: arr, stream: stream, marked: make(chan struct{})}
	p.cond = sync.NewCond(&p.mu)
	return p
}

func (p *paced) wakeIn(d time.Duration) {
	if d < 0 {
		d = 0
	}
	time.AfterFunc(d+200*time.Microsecond, p.cond.Broadcast)
}

func (p *paced) Read(b []byte) (int, error) {
	p.mu.Lock()
	defer p.mu.Unlock()
	for {
		if p.closed {
			return 0, net.ErrClosed
		}
		now := time.Now()
		if !p.deadline.IsZero() && !p.deadline.After(now) {
			return 0, netfake.ErrTimeout
		}
		if p.stream && len(p.rest) > 0 {
			n := copy(b, p.rest)
			p.rest = p.rest[n:]
			p.reads++
			return n, nil
		}
		if p.started {
			at, data, ok := p.arr(p.next)
			if ok {
				due := p.start.Add(at)
				if !due.After(now) {
					p.next++
					p.reads++
					n := copy(b, data)
					if p.stream {
						p.rest = data[n:]
					}
					if len(p.mark) > 0 && len(data) > 0 && &data[0] == &p.mark[0] {
						select {
						case <-p.marked:
						default:
							close(p.marked)
						}
					}
					return n, nil
				}
				p.wakeIn(due.Sub(now))
			}
		}
		p.cond.Wait()
	}
}

func (p *paced) Write(b []byte) (int, error) {
	p.mu.Lock()
	if p.closed {
		p.mu.Unlock()
		return 0, net.ErrClosed
	}
	p.writes = append(p.writes, append([]byte(nil), b...))
	if !p.started {
		p.started, p.start = true, time.Now()
	}
	p.mu.Unlock()
	p.cond.Broadcast()
	return len(b), nil
}

func (p *paced) Close() error {
	p.mu.Lock()
	p.closed = true
	p.mu.Unlock()
	p.cond.Broadcast()
	return nil
}
func (p *paced) LocalAddr() net.Addr  { return netfake.Addr{N: -1} }
func (p *paced) RemoteAddr() net.Addr { return netfake.Addr{N: -2} }
func (p *paced) SetDeadline(t time.Time) error {
	return p.SetReadDeadline(t)
}
func (p *paced) SetReadDeadline(t time.Time) error {
	p.mu.Lock()
	p.deadline = t
	p.sets++
	p.mu.Unlock()
	p.cond.Broadcast()
	if !t.IsZero() {
		p.wakeIn(time.Until(t))
	}
	return nil
}
func (p *paced) SetWriteDeadline(time.Time) error { return nil }
func (p *paced) stats() (reads int) {
	p.mu.Lock()
	defer p.mu.Unlock()
	return p.reads
}

// pacedDgram additionally is a net.PacketConn, which is how dns.Conn recognises
// a datagram transport.
type pacedDgram struct{ *paced }

func (p pacedDgram) ReadFrom(b []byte) (int, net.Addr, error) {
	n, err := p.Read(b)
	return n, p.RemoteAddr(), err
}
func (p pacedDgram) WriteTo(b []byte, _ net.Addr) (int, error) { return p.Write(b) }

// ---------------------------------------------------------------- watchdog

// stallWatch measures how late a 10 ms ticker of this process fires.
type stallWatch struct {
	mu   sync.Mutex
	gaps []struct {
		at  time.Time
		gap time.Duration
	}
	stop chan struct{}
}

func startStallWatch() *stallWatch {
	w := &stallWatch{stop: make(chan struct{})}
	go func() {
		last := time.Now()
		for {
			select {
			case <-w.stop:
				return
			default:
			}
			time.Sleep(10 * time.Millisecond)
			now := time.Now()
			if g := now.Sub(last) - 10*time.Millisecond; g > 5*time.Millisecond { // every late tick counts: many small delays add up too
				w.mu.Lock()
				w.gaps = append(w.gaps, struct {
					at  time.Time
					gap time.Duration
				}{now, g})
				w.mu.Unlock()
			}
			last = now
		}
	}()
	return w
}

// stalled: was there, between from and to, a gap (or a sum of gaps) of dlStall?
func (w *stallWatch) stalled(from, to time.Time) bool {
	w.mu.Lock()
	defer w.mu.Unlock()
	var sum time.Duration
	for _, g := range w.gaps {
		if g.at.After(from) && g.at.Add(-g.gap).Before(to) {
			sum += g.gap
		}
	}
	return sum >= dlStall
}

// ---------------------------------------------------------------- scenarios

type dlScenario struct {
	Transport   string `json:"transport"`
	API         string `json:"api"`
	TimeoutMs   int    `json:"client_timeout_ms"`      // Client.Timeout, 0 = unset
	ReadMs      int    `json:"client_read_timeout_ms"` // Client.ReadTimeout, 0 = unset
	CtxMs       int    `json:"context_deadline_ms"`    // 0 = no deadline
	ForeignUs   int    `json:"foreign_reply_every_us"` // 0 = none
	ForeignFrom int    `json:"foreign_first_at_us"`
	IDs         string `json:"foreign_ids"`
	MatchMs     int    `json:"matching_reply_at_ms"` // -1 = never
	Qid         uint16 `json:"query_id"`
	DeadlineMs  int    `json:"deadline_ms"`
	Got         string `json:"got,omitempty"`
	Want        string `json:"want,omitempty"`
}

func hdrOnly(id uint16) []byte {
	b := make([]byte, 12)
	binary.BigEndian.PutUint16(b, id)
	b[2] = 0x80 // a response, no sections
	return b
}

// effective deadline of an exchange, from the documentation of dns.Client:
// Timeout overrides ReadTimeout, which defaults to 2 s; the context's deadline
// applies when it is earlier.
func (s *dlScenario) deadline() time.Duration {
	d := 2000
	if s.ReadMs != 0 {
		d = s.ReadMs
	}
	if s.TimeoutMs != 0 {
		d = s.TimeoutMs
	}
	if s.CtxMs != 0 && s.CtxMs < d {
		d = s.CtxMs
	}
	return time.Duration(d) * time.Millisecond
}

func (s *dlScenario) run(w *stallWatch) (verdict string, ok bool) {
	q := new(dns.Msg)
	q.SetQuestion("deadline.example.", dns.TypeA)
	q.Id = s.Qid
	var ids []uint16
	for _, f := range strings.Split(s.IDs, ";") {
		if f != "" {
			var v int
			fmt.Sscanf(f, "%d", &v)
			ids = append(ids, uint16(v))
		}
	}
	match, _ := mkReply(s.Qid, "deadline.example.", &Rng{S: uint64(s.Qid)}).Pack()
	matchAt := time.Duration(s.MatchMs) * time.Millisecond
	every := time.Duration(s.ForeignUs) * time.Microsecond
	first := time.Duration(s.ForeignFrom) * time.Microsecond
	stream := s.Transport == "tcp"
	// arrivals: the endless foreign stream merged with the one matching reply
	matchSent := false
	fi := 0
	arr := func(int) (time.Duration, []byte, bool) { return 0, nil, false }
	if !stream {
		var cur struct {
			at   time.Duration
			data []byte
			ok   bool
			idx  int
		}
		cur.idx = -1
		arr = func(i int) (time.Duration, []byte, bool) {
			if cur.idx == i {
				return cur.at, cur.data, cur.ok
			}
			cur.idx, cur.ok = i, false
			fat := time.Duration(-1)
			if every > 0 && len(ids) > 0 {
				fat = first + time.Duration(fi)*every
			}
			switch {
			case s.MatchMs >= 0 && !matchSent && (fat < 0 || matchAt <= fat):
				matchSent = true
				cur.at, cur.data, cur.ok = matchAt, match, true
			case fat >= 0:
				cur.at, cur.data, cur.ok = fat, hdrOnly(ids[fi%len(ids)]), true
				fi++
			}
			return cur.at, cur.data, cur.ok
		}
	} else {
		// stream: the reply frame trickles in, one octet every ForeignUs, its first octet at ForeignFrom;
		// with MatchMs >= 0 the whole frame arrives at once at that time instead
		fr := frame(match)
		arr = func(i int) (time.Duration, []byte, bool) {
			if s.MatchMs >= 0 {
				return matchAt, fr, i == 0
			}
			if every == 0 || i >= len(fr) {
				return 0, nil, false
			}
			return first + time.Duration(i)*every, fr[i : i+1], true
		}
	}
	pc := newPaced(stream, arr)
	if stream {
		pc.mark = frame(match)
		fr := pc.mark
		if s.MatchMs >= 0 {
			arr0 := arr
			arr = func(i int) (time.Duration, []byte, bool) { at, _, ok := arr0(i); return at, fr, ok }
			pc.arr = arr
		}
	} else {
		pc.mark = match
	}
	var conn net.Conn = pc
	if !stream {
		conn = pacedDgram{pc}
	}
	// real sockets: a peer on 127.0.0.1 that answers the query with the same schedule
	loop := s.Transport == "udp-loopback"
	var peer net.PacketConn
	stopPeer := make(chan struct{})
	peerDone := make(chan struct{})
	if loop {
		var err error
		if peer, err = net.ListenPacket("udp", "127.0.0.1:0"); err != nil {
			return "", false
		}
		go func() {
			defer close(peerDone)
			buf := make([]byte, 4096)
			n, src, err := peer.ReadFrom(buf)
			if err != nil || n < 2 {
				return
			}
			start := time.Now()
			for i := 0; ; i++ {
				at, data, ok := arr(i)
				if !ok {
					<-stopPeer
					return
				}
				if d := time.Until(start.Add(at)); d > 0 {
					select {
					case <-stopPeer:
						return
					case <-time.After(d):
					}
				} else {
					select {
					case <-stopPeer:
						return
					default:
					}
				}
				peer.WriteTo(data, src)
			}
		}()
	}
	c := &dns.Client{Timeout: time.Duration(s.TimeoutMs) * time.Millisecond, ReadTimeout: time.Duration(s.ReadMs) * time.Millisecond}
	t0 := time.Now() // before the context is made: its deadline, like the client's, then lies at least D after t0
	ctx := context.Background()
	if s.CtxMs != 0 {
		var cancel context.CancelFunc
		ctx, cancel = context.WithTimeout(ctx, time.Duration(s.CtxMs)*time.Millisecond)
		defer cancel()
	}
	D := s.deadline()
	s.DeadlineMs = int(D / time.Millisecond)
	type result struct {
		rep     *dns.Msg
		err     error
		elapsed time.Duration
	}
	resc := make(chan result, 1)
	go func() {
		var rep *dns.Msg
		var err error
		if s.API == "Exchange" {
			rep, _, err = c.Exchange(q, peer.LocalAddr().String())
		} else if s.API == "ExchangeContext" {
			rep, _, err = c.ExchangeContext(ctx, q, peer.LocalAddr().String())
		} else if s.API == "ExchangeWithConn" {
			rep, _, err = c.ExchangeWithConn(q, &dns.Conn{Conn: conn})
		} else {
			rep, _, err = c.ExchangeWithConnContext(ctx, q, &dns.Conn{Conn: conn})
		}
		resc <- result{rep, err, time.Since(t0)}
	}()
	inTime := s.MatchMs >= 0 && matchAt < D
	limit := D + dlSlack
	var res result
	returned, slow := true, false
	if !inTime {
		select {
		case res = <-resc:
		case <-time.After(limit):
			returned = false
		}
	} else {
		// The matching reply sits behind the foreign ones that arrived before it and is
		// handed over when the client gets there; the verdict counts from that moment
		// (a client that is starved of CPU is not a finding). Over real sockets the
		// moment is not observable: a more generous bound, still far below the deadline.
		limit = dlSlack
		delivered := pc.marked
		if loop {
			delivered = nil
		}
		select {
		case res = <-resc:
		case <-delivered:
			select {
			case res = <-resc:
			case <-time.After(limit):
				returned = false
			}
		case <-time.After(matchAt + 3*dlSlack):
			if loop {
				limit = matchAt + 3*dlSlack
				returned = false
			} else {
				slow = true // neither delivered nor returned: the client did not get through the earlier replies
			}
		}
	}
	t1 := time.Now()
	pc.Close()
	if loop { // a silent peer lets even a sliding read timeout run out
		close(stopPeer)
		peer.SetDeadline(time.Now())
		<-peerDone
		defer peer.Close()
	}
	if !returned {
		select { // the exchange ends once its connection is closed
		case <-resc:
		case <-time.After(infraWait):
		}
	}
	if w.stalled(t0, t1) || slow {
		return "", false
	}
	if inTime && !loop && returned && res.err != nil && res.elapsed >= D-20*time.Millisecond {
		select {
		case <-pc.marked:
		default:
			return "", false // the deadline passed before the client had read as far as the matching reply
		}
	}
	if inTime {
		s.Want = "ok:" + render(match)
	} else {
		s.Want = "err:timeout"
	}
	switch {
	case !returned:
		s.Got = fmt.Sprintf("no-return-within-%dms(%d-reads)", limit/time.Millisecond, pc.stats())
	case res.err == nil && res.rep != nil:
		b, _ := res.rep.Pack()
		s.Got = "ok:" + render(b)
		if res.rep.Id != s.Qid {
			s.Got = fmt.Sprintf("ok:FOREIGN-id%d", res.rep.Id)
		}
	default:
		s.Got = "err:" + classify(res.err)
		if s.Got == "err:timeout" && res.elapsed < D-20*time.Millisecond {
			s.Got = fmt.Sprintf("err:timeout-EARLY-after-%dms", res.elapsed/time.Millisecond)
		}
	}
	return s.Got, true
}

// modelArgs renders the scenario for Corr/C12.v "xtimed": times in microseconds.
func (s *dlScenario) modelArgs() []string {
	m := ""
	if s.MatchMs >= 0 {
		match, _ := mkReply(s.Qid, "deadline.example.", &Rng{S: uint64(s.Qid)}).Pack()
		m = fmt.Sprintf("%d:%s", s.MatchMs*1000, Hx(match))
	}
	ctx := "none"
	if s.CtxMs != 0 {
		ctx = Itoa(s.CtxMs * 1000)
	}
	// the model needs the foreign stream only up to the deadline (it is cut there anyway)
	count := 0
	if s.ForeignUs > 0 && s.IDs != "" {
		until := s.DeadlineMs * 1000
		if s.MatchMs >= 0 && s.MatchMs*1000 < until { // nothing after the reply that is returned matters
			until = s.MatchMs * 1000
		}
		count = (until-s.ForeignFrom)/s.ForeignUs + 3
		if count < 0 {
			count = 0
		}
	}
	return []string{Itoa(int(s.Qid)), Itoa(s.TimeoutMs * 1000), Itoa(s.ReadMs * 1000), ctx,
		fmt.Sprintf("%d.%d.%d", s.ForeignFrom, s.ForeignUs, count), strings.ReplaceAll(s.IDs, ";", "."), m}
}

func genDeadlineScenarios(r *Rng, tier string) []*dlScenario {
	var out []*dlScenario
	idsFor := func(q uint16) string {
		stale := uint16(r.Next())
		if stale == q {
			stale++
		}
		switch r.Intn(4) {
		case 0: // one stale reply duplicated over and over
			return Itoa(int(stale))
		case 1: // neighbours of the query's ID
			return fmt.Sprintf("%d;%d", q+1, q-1)
		case 2: // one bit off, in either octet
			return fmt.Sprintf("%d;%d;%d", q^0x100, q^1, q^0x8000)
		}
		return fmt.Sprintf("%d;%d;%d;%d", stale, q+1, stale, q^0x100)
	}
	add := func(s *dlScenario) {
		s.Qid = uint16(r.Next())
		if s.ForeignUs > 0 {
			s.IDs = idsFor(s.Qid)
		}
		out = append(out, s)
	}
	apis := []string{"ExchangeWithConn", "ExchangeWithConnContext"}
	// (a) nothing matches: every way of configuring the deadline x rates from a flood to just below the timeout
	type cfg struct{ to, rd, ctx int }
	cfgs := []cfg{{300, 0, 0}, {0, 300, 0}, {0, 0, 300}, {700, 0, 250}, {250, 0, 700}, {0, 700, 250}, {0, 250, 700}, {150, 5000, 0}, {0, 0, 1500}, {1000, 0, 0},
		// one of the two far beyond the other plus the slack: taking the wrong one, or only one of them, is seen
		{20000, 0, 300}, {0, 30000, 250}, {300, 0, 20000}, {0, 350, 30000}, {400, 30000, 0}}
	rates := func(dms int) []int { // microseconds between foreign replies
		return []int{0, 300, 1000, 5000, 20000, dms * 1000 / 3, dms * 1000 * 9 / 10}
	}
	for _, c := range cfgs {
		s0 := &dlScenario{TimeoutMs: c.to, ReadMs: c.rd, CtxMs: c.ctx}
		dms := int(s0.deadline() / time.Millisecond)
		rs := rates(dms)
		if tier != "thorough" { // quick: the silent peer, the flood, and two random rates per configuration
			rs = []int{0, 300, rs[2+r.Intn(3)], rs[5+r.Intn(2)]}
		}
		for _, us := range rs {
			api := apis[1]
			if c.ctx == 0 {
				api = apis[r.Intn(2)]
			}
			add(&dlScenario{Transport: "udp", API: api, TimeoutMs: c.to, ReadMs: c.rd, CtxMs: c.ctx, ForeignUs: us, ForeignFrom: r.Intn(1 + us), MatchMs: -1})
		}
	}
	// (b) the matching reply arrives long after the deadline, behind a sustained foreign stream
	for _, c := range []cfg{{300, 0, 0}, {0, 0, 300}, {0, 400, 0}, {2000, 0, 200}, {20000, 0, 200}, {250, 0, 20000}} {
		s0 := &dlScenario{TimeoutMs: c.to, ReadMs: c.rd, CtxMs: c.ctx}
		dms := int(s0.deadline() / time.Millisecond)
		for _, us := range []int{1000, dms * 500} {
			add(&dlScenario{Transport: "udp", API: apis[1], TimeoutMs: c.to, ReadMs: c.rd, CtxMs: c.ctx, ForeignUs: us, ForeignFrom: us, MatchMs: dms + int(dlSlack/time.Millisecond) + 3000})
		}
	}
	// (c) the matching reply arrives long before the deadline, in the middle of the foreign stream
	for _, c := range []cfg{{int(dlFarBefore / time.Millisecond), 0, 0}, {0, 0, int(dlFarBefore / time.Millisecond)}, {0, int(dlFarBefore / time.Millisecond), 60000}} {
		for _, us := range []int{0, 500, 20000} {
			add(&dlScenario{Transport: "udp", API: apis[1], TimeoutMs: c.to, ReadMs: c.rd, CtxMs: c.ctx, ForeignUs: us, ForeignFrom: 0, MatchMs: 50 + r.Intn(300)})
		}
	}
	// (d) streams: a reply frame that trickles in more slowly than the deadline allows, silence, and a prompt reply
	for _, c := range []cfg{{300, 0, 0}, {0, 0, 300}, {0, 300, 900}, {20000, 0, 300}, {300, 0, 20000}} {
		add(&dlScenario{Transport: "tcp", API: apis[1], TimeoutMs: c.to, ReadMs: c.rd, CtxMs: c.ctx, ForeignUs: 100000, ForeignFrom: 1000, MatchMs: -1})
		add(&dlScenario{Transport: "tcp", API: apis[1], TimeoutMs: c.to, ReadMs: c.rd, CtxMs: c.ctx, MatchMs: -1})
	}
	add(&dlScenario{Transport: "tcp", API: apis[1], TimeoutMs: int(dlFarBefore / time.Millisecond), MatchMs: 100})
	// (e) the same through Client.Exchange / Client.ExchangeContext (they dial themselves) against a peer on 127.0.0.1
	for _, c := range []cfg{{300, 0, 0}, {0, 0, 300}, {0, 400, 20000}, {20000, 0, 250}} {
		api := "ExchangeContext"
		if c.ctx == 0 {
			api = "Exchange"
		}
		s0 := &dlScenario{TimeoutMs: c.to, ReadMs: c.rd, CtxMs: c.ctx}
		dms := int(s0.deadline() / time.Millisecond)
		for _, us := range []int{2000, dms * 600} {
			add(&dlScenario{Transport: "udp-loopback", API: api, TimeoutMs: c.to, ReadMs: c.rd, CtxMs: c.ctx, ForeignUs: us, ForeignFrom: us / 2, MatchMs: -1})
		}
		add(&dlScenario{Transport: "udp-loopback", API: api, TimeoutMs: c.to, ReadMs: c.rd, CtxMs: c.ctx, ForeignUs: 5000, ForeignFrom: 0, MatchMs: dms + int(dlSlack/time.Millisecond) + 3000})
	}
	add(&dlScenario{Transport: "udp-loopback", API: "Exchange", TimeoutMs: int(dlFarBefore / time.Millisecond), ForeignUs: 3000, MatchMs: 150})
	add(&dlScenario{Transport: "udp-loopback", API: "ExchangeContext", CtxMs: int(dlFarBefore / time.Millisecond), ReadMs: 30000, ForeignUs: 3000, MatchMs: 150})
	return out
}

func runDeadlines(r *Rng, tier string) {
	scs := genDeadlineScenarios(r, tier)
	w := startStallWatch()
	defer close(w.stop)
	type outcome struct {
		got string
		ok  bool
	}
	res := make([]outcome, len(scs))
	var wg sync.WaitGroup
	sem := make(chan struct{}, 24) // scenarios mostly sleep; floods are few
	for i, s := range scs {
		wg.Add(1)
		sem <- struct{}{}
		go func(i int, s *dlScenario) {
			defer wg.Done()
			defer func() { <-sem }()
			g, ok := s.run(w)
			res[i] = outcome{g, ok}
		}(i, s)
	}
	wg.Wait()
	// report in generation order so that runs replay identically
	order := make([]int, len(scs))
	for i := range order {
		order[i] = i
	}
	sort.Ints(order)
	for _, i := range order {
		s := scs[i]
		if !res[i].ok {
			stat["infra_stall"]++
			continue
		}
		if s.Transport == "udp-loopback" && s.Want != s.Got && strings.HasPrefix(s.Want, "ok:") && s.Got == "err:timeout" {
			stat["infra_timeout"]++ // the kernel may drop a datagram; a lost reply is not a finding
			continue
		}
		stat["deadline_checked"]++
		stat["deadline_"+s.Transport+"_"+strings.SplitN(s.Want, ":", 2)[0]]++
		if s.Transport == "udp" {
			// the model sees the arrivals with their times and cuts them at the deadline
			if strings.HasPrefix(s.Got, "ok:") || s.Got == "err:timeout" {
				Emit("xtimed", s.modelArgs(), s.Got)
				stat["xtimed_cases"]++
			}
		}
		if s.Got != s.Want {
			key := "C12/Exchange/udp-deadline"
			if s.Transport == "tcp" {
				key = "C12/Exchange/tcp-deadline"
			} else if s.Transport == "udp-loopback" {
				key = "C12/Exchange/loopback-udp-deadline"
			}
			Viol(key, "the exchange did not end with the matching reply or, at the earlier of client timeout and context deadline, with a timeout", s)
		}
	}
}
