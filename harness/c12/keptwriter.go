package main

// C12, kept writers: handlers that go on using their ResponseWriter after they
// have returned, while the server accepts, serves and closes OTHER connections
// (resp. receives and answers other datagrams).
//
// Everywhere else in the harness a handler writes its reply before it returns
// (a handler that is parked is still inside its call). Here the writer outlives
// the call, the documented way being Hijack() + a goroutine (zone transfers:
// go tr.Out(w, r, ch); w.Hijack()):
//
//	hijack-later   Hijack(), return; a goroutine writes 1-3 replies later, then Close()
//	hijack-split   the first reply from inside the handler, Hijack(), return; the rest later, Close()
//	xfr-out        go Transfer.Out(w, req, ch); Hijack(); the envelopes are fed later, then Close()
//	late-open      no Hijack: return; a goroutine writes later while the connection is still being
//	               served (the serve loop waits for the next request), then more requests follow
//	late-closed    no Hijack: return; the client closes, the server closes the connection; the
//	               goroutine writes after that (the write must not appear ANYWHERE)
//
// Between the return of those handlers and their late writes the server accepts
// a batch of ordinary connections (answered from inside the handler, kept open),
// afterwards those connections send further requests and new connections arrive.
//
// Oracle from the property text ("each client receives exactly the reply its
// handler wrote - no mixing across requests, connections"): what a handler
// writes through its writer, whenever it does so, appears on the connection its
// request came from, in the order written, and nowhere else; a connection
// carries nothing but the replies of its own handlers; the writer keeps
// reporting the peer it had when the handler was entered. Scripted connections
// (every octet written is recorded per connection), scripted datagrams, and real
// TCP sockets on 127.0.0.1. A reply that is missing is only reported when no
// wait of the scenario ran into its (generous) limit; a message on a connection
// it does not belong to is reported always.

import (
	"bytes"
	"errors"
	"fmt"
	"net"
	"runtime"
	"strings"
	"sync"
	"sync/atomic"
	"time"

	"github.com/miekg/dns"
	. "verif/harness/common"
	"verif/harness/netfake"
)

const (
	kwFast = iota
	kwHijackLater
	kwHijackSplit
	kwXfrOut
	kwLateOpen
	kwLateClosed
	kwModes
)

var kwNames = []string{"fast", "hijack-later", "hijack-split", "xfr-out", "late-open", "late-closed"}

const kwLong = 5 * time.Minute // server-side read/idle timeouts: never part of a scenario

// kwPart is reply number i to req.
func kwPart(req *dns.Msg, i int) *dns.Msg {
	rep := answerFor(req)
	t := rep.Answer[0].(*dns.TXT)
	t.Txt = append(t.Txt, "part"+Itoa(i))
	return rep
}

func kwXfrRR(req *dns.Msg, i int) []dns.RR {
	return []dns.RR{&dns.TXT{Hdr: dns.RR_Header{Name: req.Question[0].Name, Rrtype: dns.TypeTXT, Class: 1, Ttl: uint32(i)},
		Txt: []string{"envelope" + Itoa(i), req.Extra[0].(*dns.TXT).Txt[0]}}}
}

// what Transfer.Out writes for an envelope
func kwXfrMsg(req *dns.Msg, i int) *dns.Msg {
	rep := new(dns.Msg)
	rep.SetReply(req)
	rep.Authoritative = true
	rep.Answer = kwXfrRR(req, i)
	return rep
}

func mustPack(m *dns.Msg) []byte {
	b, err := m.Pack()
	if err != nil {
		panic("harness: " + err.Error())
	}
	return b
}

func waitFor(cond func() bool, d time.Duration) bool {
	t0 := time.Now()
	for i := 0; !cond(); i++ {
		if time.Since(t0) > d {
			return false
		}
		if i < 50 {
			runtime.Gosched()
		} else {
			time.Sleep(500 * time.Microsecond)
		}
	}
	return true
}

type kwConn struct {
	id       int
	mode     int
	fc       *netfake.Conn
	reqs     []*dns.Msg
	parts    int // replies to the first request (kept modes)
	raw      bool
	want     [][]byte
	release  chan struct{}
	done     chan struct{}
	returned chan struct{}
	lateErr  atomic.Int32 // late writes that returned an error
}

type kwRun struct {
	conns []*kwConn
	mu    sync.Mutex
	bad   []string
}

func (k *kwRun) add(s string) {
	k.mu.Lock()
	if len(k.bad) < 8 {
		k.bad = append(k.bad, s)
	}
	k.mu.Unlock()
}

func (k *kwRun) write(c *kwConn, w dns.ResponseWriter, m *dns.Msg) error {
	if c.raw {
		_, err := w.Write(mustPack(m))
		return err
	}
	return w.WriteMsg(m)
}

func (k *kwRun) handler(w dns.ResponseWriter, req *dns.Msg) {
	a, ok := w.RemoteAddr().(netfake.Addr)
	if !ok || a.N < 0 || a.N >= len(k.conns) {
		k.add(fmt.Sprintf("a handler was entered with a writer whose peer is %v", w.RemoteAddr()))
		return
	}
	c := k.conns[a.N]
	var rc, rs int
	if len(req.Question) != 1 || !requestConsistent(req) {
		k.add(fmt.Sprintf("the handler on connection %d saw a request that no client sent", c.id))
		return
	}
	if _, err := fmt.Sscanf(req.Question[0].Name, "c%d-s%d.", &rc, &rs); err != nil || rc != c.id {
		k.add(fmt.Sprintf("the handler on connection %d saw request %s", c.id, req.Question[0].Name))
		return
	}
	if rs > 0 || c.mode == kwFast {
		w.WriteMsg(answerFor(req))
		return
	}
	defer close(c.returned)
	late := func(from int, closeAfter bool) {
		defer close(c.done)
		<-c.release
		if ra := w.RemoteAddr(); ra != net.Addr(netfake.Addr{N: c.id}) {
			k.add(fmt.Sprintf("the writer kept by the handler of connection %d (%s) now reports the peer %v", c.id, kwNames[c.mode], ra))
		}
		for i := from; i < c.parts; i++ {
			if err := k.write(c, w, kwPart(req, i)); err != nil {
				c.lateErr.Add(1)
			}
		}
		if closeAfter {
			w.Close()
		}
	}
	switch c.mode {
	case kwHijackLater:
		w.Hijack()
		go late(0, true)
	case kwHijackSplit:
		k.write(c, w, kwPart(req, 0))
		w.Hijack()
		go late(1, true)
	case kwXfrOut:
		ch := make(chan *dns.Envelope)
		go func() {
			defer close(c.done)
			if err := new(dns.Transfer).Out(w, req, ch); err != nil {
				c.lateErr.Add(1)
				for range ch {
				}
			}
			w.Close()
		}()
		go func() {
			<-c.release
			for i := 0; i < c.parts; i++ {
				ch <- &dns.Envelope{RR: kwXfrRR(req, i)}
			}
			close(ch)
		}()
		w.Hijack()
	case kwLateOpen, kwLateClosed:
		go late(0, false)
	}
}

type kwIn struct {
	Transport string   `json:"transport"`
	Modes     []string `json:"connection_modes"`
	What      []string `json:"what"`
}

// runKeptWritersTCP: one scenario over scripted connections.
func runKeptWritersTCP(r *Rng, nslow, nfast int) {
	k := &kwRun{}
	l := netfake.NewListener()
	infra := false
	// every wait has the generous limit until one has failed; after that the scenario is only run to its end
	limit := func() time.Duration {
		if infra {
			return 100 * time.Millisecond
		}
		return infraWait
	}
	newConn := func(mode int) *kwConn {
		c := &kwConn{id: len(k.conns), mode: mode, release: make(chan struct{}), done: make(chan struct{}), returned: make(chan struct{}),
			parts: 1 + r.Intn(3), raw: r.Bool()}
		if mode == kwHijackSplit {
			c.parts = 2 + r.Intn(2)
		}
		k.conns = append(k.conns, c)
		return c
	}
	// feed appends requests to a connection's stream (and to what it must answer, for requests answered at once)
	feed := func(c *kwConn, n int, start bool) {
		var stream []byte
		var bounds []int
		for i := 0; i < n; i++ {
			m := mkRequest(c.id, len(c.reqs), r)
			if len(c.reqs) > 0 || c.mode == kwFast {
				c.want = append(c.want, mustPack(answerFor(m)))
			}
			c.reqs = append(c.reqs, m)
			bounds = append(bounds, len(stream))
			stream = append(stream, frame(mustPack(m))...)
		}
		chunks := cut(genSizes(r, len(stream), bounds), stream)
		if start {
			c.fc = netfake.NewConn(chunks)
			c.fc.HoldOpen = c.mode != kwLateClosed
			c.fc.Remote = netfake.Addr{N: c.id}
			l.Add(c.fc)
		} else {
			c.fc.Feed(chunks...)
		}
	}
	answered := func(c *kwConn, n int) func() bool {
		return func() bool {
			select {
			case <-c.fc.Closed:
				return true
			default:
			}
			return len(c.fc.Writes()) >= n
		}
	}
	srv := &dns.Server{Listener: l, Handler: dns.HandlerFunc(k.handler), MaxTCPQueries: -1,
		ReadTimeout: kwLong, IdleTimeout: func() time.Duration { return kwLong }}
	done := make(chan error, 1)
	go func() { done <- srv.ActivateAndServe() }()

	// 1. the connections whose handlers keep their writer
	var slow []*kwConn
	for i := 0; i < nslow; i++ {
		c := newConn(1 + (i+r.Intn(2))%(kwModes-1))
		slow = append(slow, c)
		feed(c, 1, true)
		stat["keptwriter_"+kwNames[c.mode]]++
	}
	for _, c := range slow {
		if !netfake.WaitChan(c.returned, limit()) {
			infra = true
		}
		if c.mode == kwLateClosed && !netfake.WaitClosed(c.fc, limit()) {
			infra = true
		}
	}
	// what they will write
	for _, c := range slow {
		if c.mode == kwLateClosed {
			continue // connection closed: nothing may appear anywhere
		}
		for i := 0; i < c.parts; i++ {
			if c.mode == kwXfrOut {
				c.want = append(c.want, mustPack(kwXfrMsg(c.reqs[0], i)))
			} else {
				c.want = append(c.want, mustPack(kwPart(c.reqs[0], i)))
			}
		}
	}
	// let the serve goroutines of the hijacked and closed connections run out
	for i := 0; i < 200; i++ {
		runtime.Gosched()
	}
	time.Sleep(2 * time.Millisecond)

	// 2. ordinary connections arrive, are served, stay open
	var fast []*kwConn
	for i := 0; i < nfast; i++ {
		c := newConn(kwFast)
		fast = append(fast, c)
		feed(c, 1+r.Intn(3), true)
		if !waitFor(answered(c, len(c.reqs)), limit()) {
			infra = true
		}
	}
	// 3. the kept writers write (in random order, concurrently)
	for _, i := range perm(r, len(slow)) {
		close(slow[i].release)
	}
	for _, c := range slow {
		if !netfake.WaitChan(c.done, limit()) {
			infra = true
		}
	}
	// 4. the ordinary connections go on, so do the late-open ones, and new connections arrive
	for _, c := range fast {
		feed(c, 1+r.Intn(2), false)
	}
	for _, c := range slow {
		if c.mode == kwLateOpen {
			feed(c, 1+r.Intn(2), false)
		}
	}
	for i := 0; i < nfast/2; i++ {
		c := newConn(kwFast)
		fast = append(fast, c)
		feed(c, 1+r.Intn(3), true)
	}
	for _, c := range k.conns {
		if c.mode == kwFast || c.mode == kwLateOpen {
			if !waitFor(answered(c, len(c.want)), limit()) {
				infra = true
			}
		}
	}
	// 5. the clients close
	for _, c := range k.conns {
		c.fc.Finish()
	}
	for _, c := range k.conns {
		if !netfake.WaitClosed(c.fc, limit()) {
			infra = true
		}
	}
	sd := make(chan error, 1)
	go func() { sd <- srv.Shutdown() }()
	select {
	case <-sd:
		<-done
	case <-time.After(limit()):
		infra = true
	}
	if infra {
		stat["infra_timeout"]++
	}

	// verdict
	owner := map[string]int{}
	for _, c := range k.conns {
		for _, w := range c.want {
			owner[string(w)] = c.id
		}
		if c.mode == kwLateClosed {
			for i := 0; i < c.parts; i++ {
				owner[string(mustPack(kwPart(c.reqs[0], i)))] = c.id
			}
		}
	}
	for _, c := range k.conns {
		ms, end := refParse(c.fc.Written(), -1)
		if end != "eof" {
			k.add(fmt.Sprintf("connection %d (%s): the octets written to it are not whole frames (%s)", c.id, kwNames[c.mode], end))
		}
		for _, w := range c.fc.Writes() {
			if len(w) < 2 || int(w[0])<<8|int(w[1]) != len(w)-2 {
				k.add(fmt.Sprintf("connection %d (%s): a Write call did not carry exactly one frame", c.id, kwNames[c.mode]))
				break
			}
		}
		foreign := false
		for _, m := range ms {
			if o, ok := owner[string(m)]; !ok || o != c.id {
				foreign = true
				who := "a message nobody wrote"
				if ok {
					who = fmt.Sprintf("a reply written by the handler of connection %d (%s)", o, kwNames[k.conns[o].mode])
				}
				var d dns.Msg
				if d.Unpack(m) == nil && len(d.Question) == 1 {
					who += " for " + d.Question[0].Name
				}
				k.add(fmt.Sprintf("connection %d (%s) received %s", c.id, kwNames[c.mode], who))
			}
		}
		if c.mode == kwLateClosed && len(ms) > 0 && !foreign {
			k.add(fmt.Sprintf("connection %d (late-closed): %d message(s) written to a connection after it had been closed", c.id, len(ms)))
		}
		if !infra && !foreign && c.mode != kwLateClosed {
			same := len(ms) == len(c.want)
			for i := 0; same && i < len(ms); i++ {
				same = bytes.Equal(ms[i], c.want[i])
			}
			if !same {
				k.add(fmt.Sprintf("connection %d (%s): its handlers wrote %d replies, it received %d (or in another order)", c.id, kwNames[c.mode], len(c.want), len(ms)))
			}
		}
		stat["keptwriter_tcp_checked"] += len(ms)
		stat["keptwriter_late_write_errors"] += int(c.lateErr.Load())
	}
	if len(k.bad) > 0 {
		in := kwIn{Transport: "tcp (scripted connections)", What: k.bad}
		for _, c := range k.conns {
			in.Modes = append(in.Modes, kwNames[c.mode])
		}
		Viol("C12/Crosstalk/tcp-kept-writer", "a handler that kept its ResponseWriter beyond its call: its replies did not all go to its own connection and nowhere else", in)
	}
}

func perm(r *Rng, n int) []int {
	p := make([]int, n)
	for i := range p {
		p[i] = i
	}
	for i := n - 1; i > 0; i-- {
		j := r.Intn(i + 1)
		p[i], p[j] = p[j], p[i]
	}
	return p
}

// runKeptWritersUDP: n scripted datagrams; a third of the handlers answer at
// once, a third return and answer later from a goroutine, a third do both. The
// late replies are written when every datagram has been received and handled.
func runKeptWritersUDP(r *Rng, n int) {
	reqs := make([]*dns.Msg, n)
	parts := make([]int, n)
	var in [][]byte
	for i := range reqs {
		reqs[i] = mkRequest(i, 0, r)
		parts[i] = 1 + r.Intn(3)
		in = append(in, mustPack(reqs[i]))
	}
	var mu sync.Mutex
	var bad []string
	add := func(s string) {
		mu.Lock()
		if len(bad) < 8 {
			bad = append(bad, s)
		}
		mu.Unlock()
	}
	release := make(chan struct{})
	var lateWG, handled sync.WaitGroup
	handled.Add(n)
	pc := netfake.NewPacketConn(in, nil)
	srv := &dns.Server{PacketConn: pc, Handler: dns.HandlerFunc(func(w dns.ResponseWriter, req *dns.Msg) {
		defer handled.Done()
		a, ok := w.RemoteAddr().(netfake.Addr)
		var rc, rs int
		if !ok || a.N < 0 || a.N >= n || len(req.Question) != 1 || !requestConsistent(req) {
			add(fmt.Sprintf("a handler was entered with peer %v and a request no client sent", w.RemoteAddr()))
			return
		}
		if _, err := fmt.Sscanf(req.Question[0].Name, "c%d-s%d.", &rc, &rs); err != nil || rc != a.N {
			add(fmt.Sprintf("the handler of client %d saw request %s", a.N, req.Question[0].Name))
			return
		}
		from := 0
		switch a.N % 3 {
		case 0:
			for i := 0; i < parts[a.N]; i++ {
				w.WriteMsg(kwPart(req, i))
			}
			return
		case 1:
			w.WriteMsg(kwPart(req, 0))
			from = 1
		}
		lateWG.Add(1)
		go func() {
			defer lateWG.Done()
			<-release
			if ra := w.RemoteAddr(); ra != net.Addr(a) {
				add(fmt.Sprintf("the writer kept by the handler of client %d now reports the peer %v", a.N, ra))
			}
			for i := from; i < parts[a.N]; i++ {
				if a.N%2 == 0 {
					w.Write(mustPack(kwPart(req, i)))
				} else {
					w.WriteMsg(kwPart(req, i))
				}
			}
		}()
	})}
	done := make(chan error, 1)
	go func() { done <- srv.ActivateAndServe() }()
	infra := false
	wait := func(wg *sync.WaitGroup) {
		ch := make(chan struct{})
		go func() { wg.Wait(); close(ch) }()
		if !netfake.WaitChan(ch, infraWait) {
			infra = true
		}
	}
	if !netfake.WaitChan(pc.Drained, infraWait) {
		infra = true
	}
	wait(&handled)
	close(release)
	if !infra {
		wait(&lateWG)
	}
	srv.Shutdown()
	<-done
	if infra {
		stat["infra_timeout"]++
	}
	got := make([][][]byte, n)
	for _, w := range pc.Writes() {
		a, ok := w.To.(netfake.Addr)
		if !ok || a.N < 0 || a.N >= n {
			add(fmt.Sprintf("a datagram was sent to %v", w.To))
			continue
		}
		got[a.N] = append(got[a.N], w.Data)
	}
	for c := range reqs {
		for i, d := range got[c] {
			if i >= parts[c] || !bytes.Equal(d, mustPack(kwPart(reqs[c], i))) {
				var m dns.Msg
				what := "a datagram nobody wrote for it"
				if m.Unpack(d) == nil && len(m.Question) == 1 {
					what = "a reply for " + m.Question[0].Name
				}
				add(fmt.Sprintf("client %d received %s as its datagram %d (its handler writes %d)", c, what, i, parts[c]))
				break
			}
		}
		if !infra && len(got[c]) < parts[c] {
			add(fmt.Sprintf("client %d received %d of the %d replies its handler wrote", c, len(got[c]), parts[c]))
		}
		stat["keptwriter_udp_checked"] += len(got[c])
	}
	if len(bad) > 0 {
		Viol("C12/Crosstalk/udp-kept-writer", "a handler that kept its ResponseWriter beyond its call: its replies did not all go to its own client and nowhere else",
			kwIn{Transport: "udp (scripted datagrams)", What: bad})
	}
}

// runKeptWritersLoopback: real TCP sockets. nslow clients send a query whose
// handler hijacks the connection and answers later from a goroutine; then nfast
// clients connect, complete one exchange and keep their connection; then the
// pending replies are written; the fast clients must not receive anything they
// did not ask for and their next exchange must work.
func runKeptWritersLoopback(r *Rng, nslow, nfast int) {
	l, err := net.Listen("tcp", "127.0.0.1:0")
	if err != nil {
		stat["infra_loopback_unavailable"]++
		return
	}
	var mu sync.Mutex
	var bad []string
	add := func(s string) {
		mu.Lock()
		if len(bad) < 8 {
			bad = append(bad, s)
		}
		mu.Unlock()
	}
	release := make(chan struct{})
	var hijacked, written sync.WaitGroup
	hijacked.Add(nslow)
	written.Add(nslow)
	srv := &dns.Server{Listener: l, MaxTCPQueries: -1, ReadTimeout: kwLong, IdleTimeout: func() time.Duration { return kwLong },
		Handler: dns.HandlerFunc(func(w dns.ResponseWriter, req *dns.Msg) {
			if len(req.Question) != 1 || !requestConsistent(req) {
				add("a handler saw a request that no client sent")
				return
			}
			var rc, rs int
			if _, err := fmt.Sscanf(req.Question[0].Name, "c%d-s%d.", &rc, &rs); err != nil || rs > 1 || rc < nslow && rs != 0 {
				add("a handler saw the request " + req.Question[0].Name)
				return
			}
			if rc >= nslow {
				w.WriteMsg(answerFor(req))
				return
			}
			peer := w.RemoteAddr().String()
			w.Hijack()
			go func() {
				defer written.Done()
				<-release
				if p := w.RemoteAddr().String(); p != peer {
					add(fmt.Sprintf("the writer kept by the handler of slow client %d reported the peer %s on entry and %s later", rc, peer, p))
				}
				w.WriteMsg(answerFor(req))
				w.Close()
			}()
			hijacked.Done()
		})}
	started := make(chan struct{})
	srv.NotifyStartedFunc = func() { close(started) }
	done := make(chan error, 1)
	go func() { done <- srv.ActivateAndServe() }()
	infra := 0
	waitWG := func(wg *sync.WaitGroup, d time.Duration) bool {
		ch := make(chan struct{})
		go func() { wg.Wait(); close(ch) }()
		return netfake.WaitChan(ch, d)
	}
	finish := func() {
		sd := make(chan error, 1)
		go func() { sd <- srv.Shutdown() }()
		select {
		case <-sd:
		case <-time.After(infraWait):
			infra++
		}
		stat["infra_timeout"] += infra
		if len(bad) > 0 {
			Viol("C12/Crosstalk/loopback-tcp-kept-writer", "real TCP server, handlers that hijack their connection and reply later while other connections are served: a reply went to another connection",
				kwIn{Transport: "tcp (127.0.0.1)", What: bad})
		}
	}
	if !netfake.WaitChan(started, infraWait) {
		infra++
		finish()
		return
	}
	addr := l.Addr().String()
	cl := &dns.Client{Net: "tcp", Timeout: 10 * time.Second}
	isInfra := func(err error) bool {
		var ne net.Error
		return errors.As(err, &ne) && ne.Timeout() || strings.Contains(err.Error(), "connection re") || strings.Contains(err.Error(), "EOF") ||
			strings.Contains(err.Error(), "broken pipe") || strings.Contains(err.Error(), "closed")
	}
	type client struct {
		co  *dns.Conn
		req *dns.Msg
	}
	slow := make([]*client, 0, nslow)
	abort := false
	for i := 0; i < nslow; i++ {
		c := &client{req: mkRequest(i, 0, r)}
		if c.co, err = cl.Dial(addr); err != nil {
			abort = true
			break
		}
		defer c.co.Close()
		c.co.SetWriteDeadline(time.Now().Add(10 * time.Second))
		if err := c.co.WriteMsg(c.req); err != nil {
			abort = true
			break
		}
		slow = append(slow, c)
	}
	if abort || !waitWG(&hijacked, infraWait) {
		infra++
		close(release)
		finish()
		return
	}
	time.Sleep(2 * time.Millisecond)
	fast := make([]*client, 0, nfast)
	for j := 0; j < nfast; j++ {
		c := &client{req: mkRequest(nslow+j, 0, r)}
		if c.co, err = cl.Dial(addr); err != nil {
			infra++
			continue
		}
		defer c.co.Close()
		rep, _, err := cl.ExchangeWithConn(c.req, c.co)
		switch {
		case err != nil && isInfra(err):
			infra++
			continue
		case err != nil:
			add(fmt.Sprintf("fast client %d, first exchange: %v", j, err))
		case !replyMatches(c.req, rep):
			add(fmt.Sprintf("fast client %d received a reply that is not the answer to its request (id %d, %v)", j, rep.Id, rep.Question))
		}
		stat["keptwriter_loopback_checked"]++
		fast = append(fast, c)
	}
	close(release)
	if !waitWG(&written, infraWait) {
		infra++
	}
	var rwg sync.WaitGroup
	var imu sync.Mutex
	for i, c := range slow {
		rwg.Add(1)
		go func(i int, c *client) {
			defer rwg.Done()
			c.co.SetReadDeadline(time.Now().Add(5 * time.Second))
			rep, err := c.co.ReadMsg()
			switch {
			case err != nil && isInfra(err):
				imu.Lock()
				infra++
				imu.Unlock()
			case err != nil:
				add(fmt.Sprintf("slow client %d: %v", i, err))
			case !replyMatches(c.req, rep):
				add(fmt.Sprintf("slow client %d received a reply that is not the answer to its request (id %d, %v)", i, rep.Id, rep.Question))
			}
		}(i, c)
	}
	rwg.Wait()
	stat["keptwriter_loopback_checked"] += len(slow)
	for j, c := range fast {
		// nothing may be waiting on a connection whose only exchange is complete
		c.co.SetReadDeadline(time.Now().Add(100 * time.Millisecond))
		if rep, err := c.co.ReadMsg(); err == nil {
			add(fmt.Sprintf("fast client %d (c%d) found an unsolicited message on its idle connection: id %d, %v", j, nslow+j, rep.Id, rep.Question))
			continue
		} else if !isInfra(err) {
			add(fmt.Sprintf("fast client %d: reading from its idle connection: %v", j, err))
			continue
		} else {
			var ne net.Error
			if !(errors.As(err, &ne) && ne.Timeout()) {
				infra++ // closed under us: no verdict
				continue
			}
		}
		req2 := mkRequest(nslow+j, 1, r)
		rep, _, err := cl.ExchangeWithConn(req2, c.co)
		switch {
		case err != nil && isInfra(err):
			infra++
		case err != nil:
			add(fmt.Sprintf("fast client %d, second exchange: %v", j, err))
		case !replyMatches(req2, rep):
			add(fmt.Sprintf("fast client %d, second exchange: received a reply that is not the answer to its request (id %d, %v)", j, rep.Id, rep.Question))
		}
		stat["keptwriter_loopback_checked"]++
	}
	finish()
}

func runKeptWriters(r *Rng, tier string) {
	k := 1
	if tier == "thorough" {
		k = 8
	}
	for i := 0; i < 6*k; i++ {
		runKeptWritersTCP(r, 10, 12)
	}
	for i := 0; i < 3*k; i++ {
		runKeptWritersUDP(r, 90)
	}
	for i := 0; i < 2*k; i++ {
		runKeptWritersLoopback(r, 8, 8)
	}
}
