(* Model/Lexer.v — scan.go zlexer (readByte, Next with its hand-grown token and
   comment buffers, the nextL/cachedL queue) as a function from the octets of a
   zone text to the stream of tokens that successive Next calls return.
   Definitions only.

   The Go lexer is pulled one token at a time; Peek only caches, so the stream
   does not depend on who pulls.  One call of Next runs a loop over input octets
   with call-local state (str/stri, com/comi, escape) and returns when a token
   is complete; a second token may be queued in zl.l (nextL).  Here [lex_go] is
   structurally recursive on the input: every octet either continues the
   current call ([SCont]), completes it with one or two tokens ([SEmit], the
   call-local state is then re-initialised as at the start of the next call),
   ends the stream with an error token ([SStop], l.err is sticky), or would make
   Go panic on an out-of-range buffer write ([SPanic]; the theorem
   lex_no_panic shows it never happens). *)
From Dns Require Export Base.Bytes Model.Name.
Open Scope N_scope.

Definition B (s : string) : bytes := bytes_of_string s.
(* linear-time list reversal (List.rev is quadratic); frev l = rev l *)
Definition frev {A} (l : list A) : list A := rev_append l [].

(* ---------- tokens (type lex) ---------- *)
Inductive tval :=
| ZEOF | ZString | ZBlank | ZQuote | ZNewline | ZRrtpe | ZOwner | ZClass
| ZDirOrigin | ZDirTTL | ZDirInclude | ZDirGenerate.
Definition tval_code (v : tval) : N :=
  match v with
  | ZEOF => 0 | ZString => 1 | ZBlank => 2 | ZQuote => 3 | ZNewline => 4 | ZRrtpe => 5
  | ZOwner => 6 | ZClass => 7 | ZDirOrigin => 8 | ZDirTTL => 9 | ZDirInclude => 10
  | ZDirGenerate => 11
  end.
Definition tval_eqb (a b : tval) : bool := tval_code a =? tval_code b.

(* t_com is not a field of Go's lex: it is zl.comment as it stands when the call
   of Next that delivered the token returns (what zlexer.Comment would say). *)
Record tok := mkTok {
  t_val : tval; t_text : bytes; t_err : bool; t_torc : N; t_line : N; t_col : N;
  t_com : bytes }.
Definition eof_tok : tok := mkTok ZEOF [] false 0 0 0 [].
Definition tok_is_zero (t : tok) : bool :=
  tval_eqb (t_val t) ZEOF && bytes_eqb (t_text t) [] && negb (t_err t) &&
  (t_torc t =? 0) && (t_line t =? 0) && (t_col t =? 0).

(* ---------- mnemonic tables (ztypes.go TypeToString reversed, types.go
   StringToClass, TypeToRR keys).  Hand copied; the harness prints Go's maps on
   every run and the case "tables" compares them with these. ---------- *)
Definition type_table_s : list (string * N) :=
  [("A",1);("AAAA",28);("AFSDB",18);("AMTRELAY",260);("ANY",255);("APL",42);("ATMA",34);
   ("AVC",258);("AXFR",252);("CAA",257);("CDNSKEY",60);("CDS",59);("CERT",37);("CNAME",5);
   ("CSYNC",62);("DHCID",49);("DLV",32769);("DNAME",39);("DNSKEY",48);("DS",43);("EID",31);
   ("EUI48",108);("EUI64",109);("GID",102);("GPOS",27);("HINFO",13);("HIP",55);("HTTPS",65);
   ("IPSECKEY",45);("ISDN",20);("IXFR",251);("KEY",25);("KX",36);("L32",105);("L64",106);
   ("LOC",29);("LP",107);("MAILA",254);("MAILB",253);("MB",7);("MD",3);("MF",4);("MG",8);
   ("MINFO",14);("MR",9);("MX",15);("NAPTR",35);("NID",104);("NIMLOC",32);("NINFO",56);
   ("NS",2);("NSAP-PTR",23);("NSEC",47);("NSEC3",50);("NSEC3PARAM",51);("NULL",10);
   ("NXNAME",128);("NXT",30);("None",0);("OPENPGPKEY",61);("OPT",41);("PTR",12);("PX",26);
   ("RESINFO",261);("RKEY",57);("RP",17);("RRSIG",46);("RT",21);("Reserved",65535);("SIG",24);
   ("SMIMEA",53);("SOA",6);("SPF",99);("SRV",33);("SSHFP",44);("SVCB",64);("TA",32768);
   ("TALINK",58);("TKEY",249);("TLSA",52);("TSIG",250);("TXT",16);("UID",101);("UINFO",100);
   ("UNSPEC",103);("URI",256);("X25",19);("ZONEMD",63)]%string.
Definition class_table_s : list (string * N) :=
  [("ANY",255);("CH",3);("CS",2);("HS",4);("IN",1);("NONE",254)]%string.
(* type codes that have no entry in TypeToRR (parsed as RFC3597) although they have a mnemonic *)
Definition unregistered_mnemonics : list N := [34; 252; 251; 254; 253; 0; 65535; 103].

Definition type_table : list (bytes * N) :=
  Eval vm_compute in map (fun p => (B (fst p), snd p)) type_table_s.
Definition class_table : list (bytes * N) :=
  Eval vm_compute in map (fun p => (B (fst p), snd p)) class_table_s.
Fixpoint lookup (tab : list (bytes * N)) (k : bytes) : option N :=
  match tab with
  | [] => None
  | (k', v) :: r => if bytes_eqb k k' then Some v else lookup r k
  end.
(* TypeToRR has exactly the mnemonic types minus the unregistered ones *)
Definition known_type (t : N) : bool :=
  existsb (fun p => snd p =? t) type_table && negb (existsb (N.eqb t) unregistered_mnemonics).

(* strings.ToUpper, as far as equality with and prefixes of ASCII strings can
   tell: ASCII letters are folded; the only non-ASCII runes whose upper case is
   ASCII are U+0131 (C4 B1 -> I) and U+017F (C5 BF -> S); C4 and C5 are lead
   octets, so these two-octet patterns are always decoded as those runes. *)
Fixpoint upper (s : bytes) : bytes :=
  match s with
  | [] => []
  | a :: r =>
    match r with
    | b :: r' =>
      if (a =? 196) && (b =? 177) then 73 :: upper r'
      else if (a =? 197) && (b =? 191) then 83 :: upper r'
      else (if (97 <=? a) && (a <=? 122) then a - 32 else a) :: upper r
    | [] => [if (97 <=? a) && (a <=? 122) then a - 32 else a]
    end
  end.

Fixpoint has_prefix (p s : bytes) : bool :=
  match p, s with
  | [], _ => true
  | a :: p', b :: s' => (a =? b) && has_prefix p' s'
  | _, [] => false
  end.

(* strconv.ParseUint(s, 10, bits): digits only, at least one, value < 2^bits *)
Fixpoint all_digits (s : bytes) : bool :=
  match s with [] => true | c :: r => is_digit c && all_digits r end.
Fixpoint dec_value (s : bytes) (acc : N) : N :=
  match s with [] => acc | c :: r => dec_value r (acc * 10 + (c - 48)) end.
Definition parse_uint (s : bytes) (bits : N) : option N :=
  match s with
  | [] => None
  | _ => if all_digits s then
           let v := dec_value s 0 in if v <? 2 ^ bits then Some v else None
         else None
  end.
(* typeToInt / classToInt: the digits after the first 4 (5) octets of the token *)
Definition type_to_int (token : bytes) : option N :=
  if lenN token <? 5 then None else parse_uint (dropN 4 token) 16.
Definition class_to_int (token : bytes) : option N :=
  if lenN token <? 6 then None else parse_uint (dropN 5 token) 16.

(* ---------- lexer state ---------- *)
Definition maxTok : N := 512.

(* fields of zlexer that survive a call of Next, and zl.l *)
Record lst := mkLst {
  z_line : N; z_col : N; z_eol : bool;
  z_brace : N;
  z_quote : bool; z_space : bool; z_commt : bool; z_rrtype : bool; z_owner : bool;
  z_combuf : bytes; z_comment : bytes;
  l_val : tval; l_text : bytes; l_torc : N; l_line : N; l_col : N }.

Definition init_lst : lst :=
  mkLst 1 0 false 0 false false false false true [] [] ZEOF [] 0 0 0.

(* call-local variables of Next; str and com are kept reversed, stri/comi are
   their lengths, scap/ccap are len(str)/len(com) *)
Record loc := mkLoc {
  c_str : bytes; c_stri : N; c_scap : N;
  c_com : bytes; c_comi : N; c_ccap : N;
  c_esc : bool }.

(* record updates *)
Definition set_pos (s : lst) (line col : N) (eol : bool) : lst :=
  mkLst line col eol (z_brace s) (z_quote s) (z_space s) (z_commt s) (z_rrtype s) (z_owner s)
        (z_combuf s) (z_comment s) (l_val s) (l_text s) (l_torc s) line col.
Definition set_l (s : lst) (v : tval) (text : bytes) : lst :=
  mkLst (z_line s) (z_col s) (z_eol s) (z_brace s) (z_quote s) (z_space s) (z_commt s) (z_rrtype s)
        (z_owner s) (z_combuf s) (z_comment s) v text (l_torc s) (l_line s) (l_col s).
Definition set_text (s : lst) (text : bytes) : lst := set_l s (l_val s) text.
Definition set_torc (s : lst) (v : tval) (t : N) : lst :=
  mkLst (z_line s) (z_col s) (z_eol s) (z_brace s) (z_quote s) (z_space s) (z_commt s) (z_rrtype s)
        (z_owner s) (z_combuf s) (z_comment s) v (l_text s) t (l_line s) (l_col s).
Definition set_brace (s : lst) (b : N) : lst :=
  mkLst (z_line s) (z_col s) (z_eol s) b (z_quote s) (z_space s) (z_commt s) (z_rrtype s)
        (z_owner s) (z_combuf s) (z_comment s) (l_val s) (l_text s) (l_torc s) (l_line s) (l_col s).
Definition set_quote (s : lst) (b : bool) : lst :=
  mkLst (z_line s) (z_col s) (z_eol s) (z_brace s) b (z_space s) (z_commt s) (z_rrtype s)
        (z_owner s) (z_combuf s) (z_comment s) (l_val s) (l_text s) (l_torc s) (l_line s) (l_col s).
Definition set_space (s : lst) (b : bool) : lst :=
  mkLst (z_line s) (z_col s) (z_eol s) (z_brace s) (z_quote s) b (z_commt s) (z_rrtype s)
        (z_owner s) (z_combuf s) (z_comment s) (l_val s) (l_text s) (l_torc s) (l_line s) (l_col s).
Definition set_commt (s : lst) (b : bool) : lst :=
  mkLst (z_line s) (z_col s) (z_eol s) (z_brace s) (z_quote s) (z_space s) b (z_rrtype s)
        (z_owner s) (z_combuf s) (z_comment s) (l_val s) (l_text s) (l_torc s) (l_line s) (l_col s).
Definition set_rrtype (s : lst) (b : bool) : lst :=
  mkLst (z_line s) (z_col s) (z_eol s) (z_brace s) (z_quote s) (z_space s) (z_commt s) b
        (z_owner s) (z_combuf s) (z_comment s) (l_val s) (l_text s) (l_torc s) (l_line s) (l_col s).
Definition set_owner (s : lst) (b : bool) : lst :=
  mkLst (z_line s) (z_col s) (z_eol s) (z_brace s) (z_quote s) (z_space s) (z_commt s) (z_rrtype s)
        b (z_combuf s) (z_comment s) (l_val s) (l_text s) (l_torc s) (l_line s) (l_col s).
Definition set_combuf (s : lst) (c : bytes) : lst :=
  mkLst (z_line s) (z_col s) (z_eol s) (z_brace s) (z_quote s) (z_space s) (z_commt s) (z_rrtype s)
        (z_owner s) c (z_comment s) (l_val s) (l_text s) (l_torc s) (l_line s) (l_col s).
Definition set_comment (s : lst) (c : bytes) : lst :=
  mkLst (z_line s) (z_col s) (z_eol s) (z_brace s) (z_quote s) (z_space s) (z_commt s) (z_rrtype s)
        (z_owner s) (z_combuf s) c (l_val s) (l_text s) (l_torc s) (l_line s) (l_col s).

(* *l as a token; the comment is filled in when the call returns *)
Definition snap (s : lst) : tok :=
  mkTok (l_val s) (l_text s) false (l_torc s) (l_line s) (l_col s) [].
Definition snap_err (s : lst) (msg : string) : tok :=
  mkTok (l_val s) (B msg) true (l_torc s) (l_line s) (l_col s) [].
Definition with_com (c : bytes) (t : tok) : tok :=
  mkTok (t_val t) (t_text t) (t_err t) (t_torc t) (t_line t) (t_col t) c.

(* readByte: the line/column bookkeeping, then l.line, l.column = zl.line, zl.column *)
Definition read_byte (s : lst) (x : N) : lst :=
  let line := if z_eol s then z_line s + 1 else z_line s in
  let col := if z_eol s then 0 else z_col s in
  if x =? 10 then set_pos s line col true else set_pos s line (col + 1) false.

(* start of a (non-queued) call of Next: fresh buffers, comBuf copied into com
   (copy() stops at the 512 octets the fresh buffer has), zl.comment cleared *)
Definition fresh (s : lst) : lst * loc :=
  let cb := z_combuf s in
  let n := N.min maxTok (lenN cb) in
  (set_comment (set_combuf s []) [],
   mkLoc [] 0 maxTok (frev (takeN n cb)) n maxTok false).

(* top of the loop body: grow a full buffer by maxTok *)
Definition grow (lc : loc) : loc :=
  mkLoc (c_str lc) (c_stri lc) (if c_scap lc <=? c_stri lc then c_scap lc + maxTok else c_scap lc)
        (c_com lc) (c_comi lc) (if c_ccap lc <=? c_comi lc then c_ccap lc + maxTok else c_ccap lc)
        (c_esc lc).

Inductive sres :=
| SCont (s : lst) (lc : loc)
| SEmit (ts : list tok) (s : lst)
| SStop (ts : list tok)
| SPanic.

(* str[stri] = x; stri++   (index checked as Go does) *)
Definition put_str (s : lst) (lc : loc) (x : N) (esc : bool) : sres :=
  if c_stri lc <? c_scap lc then
    SCont s (mkLoc (x :: c_str lc) (c_stri lc + 1) (c_scap lc) (c_com lc) (c_comi lc) (c_ccap lc) esc)
  else SPanic.
(* com[comi] = x; comi++ *)
Definition put_com_loc (lc : loc) (x : N) : option loc :=
  if c_comi lc <? c_ccap lc then
    Some (mkLoc (c_str lc) (c_stri lc) (c_scap lc) (x :: c_com lc) (c_comi lc + 1) (c_ccap lc) (c_esc lc))
  else None.
Definition put_com (s : lst) (lc : loc) (x : N) : sres :=
  match put_com_loc lc x with Some lc' => SCont s lc' | None => SPanic end.
Definition set_esc (lc : loc) (e : bool) : loc :=
  mkLoc (c_str lc) (c_stri lc) (c_scap lc) (c_com lc) (c_comi lc) (c_ccap lc) e.

Definition str_of (lc : loc) : bytes := frev (c_str lc).
Definition com_of (lc : loc) : bytes := frev (c_com lc).

(* a call returns the tokens [ts]; all of them see the comment as it is now *)
Definition emit (ts : list tok) (s : lst) : sres := SEmit (map (with_com (z_comment s)) ts) s.
Definition stop (pre : list tok) (s : lst) (msg : string) : sres :=
  SStop (map (with_com (z_comment s)) (pre ++ [snap_err s msg])).

(* the directive keywords *)
Definition dir_of (tu : bytes) : option tval :=
  if bytes_eqb tu (B "$TTL") then Some ZDirTTL
  else if bytes_eqb tu (B "$ORIGIN") then Some ZDirOrigin
  else if bytes_eqb tu (B "$INCLUDE") then Some ZDirInclude
  else if bytes_eqb tu (B "$GENERATE") then Some ZDirGenerate
  else None.

(* the type/class recognition done on a blank-terminated string when no RR type
   has been seen on the line yet; None = the lexer error named *)
Definition classify (s : lst) (text : bytes) : lst * option string :=
  let tu := upper text in
  let r1 : lst * option string :=
    match lookup type_table tu with
    | Some t => (set_rrtype (set_torc s ZRrtpe t) true, None)
    | None =>
      if has_prefix (B "TYPE") tu then
        match type_to_int text with
        | Some t => (set_rrtype (set_torc s ZRrtpe t) true, None)
        | None => (s, Some "unknown RR type"%string)
        end
      else (s, None)
    end in
  match r1 with
  | (s1, Some e) => (s1, Some e)
  | (s1, None) =>
    match lookup class_table tu with
    | Some c => (set_torc s1 ZClass c, None)
    | None =>
      if has_prefix (B "CLASS") tu then
        match class_to_int text with
        | Some c => (set_torc s1 ZClass c, None)
        | None => (s1, Some "unknown class"%string)
        end
      else (s1, None)
    end
  end.

(* case ' ', '\t' outside quotes, escapes and comments *)
Definition step_blank (s : lst) (lc : loc) : sres :=
  let text := str_of lc in
  let pending : (option tok * lst) + (lst * string) :=
    if c_stri lc =? 0 then inl (None, s)
    else if z_owner s then
      let v := match dir_of (upper text) with Some d => d | None => ZOwner end in
      let s1 := set_l s v text in inl (Some (snap s1), s1)
    else
      let s1 := set_l s ZString text in
      if z_rrtype s1 then inl (Some (snap s1), s1)
      else match classify s1 text with
           | (s2, None) => inl (Some (snap s2), s2)
           | (s2, Some e) => inr (s2, e)
           end in
  match pending with
  | inr (s1, e) => stop [] s1 e
  | inl (retL, s1) =>
    let s2 := set_owner s1 false in
    if negb (z_space s2) then
      let s3 := set_l (set_space s2 true) ZBlank [32] in
      match retL with
      | None => emit [snap s3] s3
      | Some t => emit [t; snap s3] s3
      end
    else
      match retL with
      | None => SCont s2 lc
      | Some t => emit [t] s2
      end
  end.

(* one octet of the loop body of Next (after readByte and the buffer growth) *)
Definition step (s : lst) (lc : loc) (x : N) : sres :=
  if (x =? 32) || (x =? 9) then
    if c_esc lc || z_quote s then put_str s lc x false
    else if z_commt s then put_com s lc x
    else step_blank s lc
  else if x =? 59 then (* ; *)
    if c_esc lc || z_quote s then put_str s lc x false
    else
      let s1 := set_combuf (set_commt s true) [] in
      let r : option loc + unit :=
        if 1 <? c_comi lc then
          match put_com_loc lc 32 with
          | None => inl None
          | Some lc1 => if c_ccap lc1 <=? c_comi lc1 then inr tt else inl (Some lc1)
          end
        else inl (Some lc) in
      match r with
      | inr _ => stop [] s1 "comment length insufficient for parsing"
      | inl None => SPanic
      | inl (Some lc1) =>
        match put_com_loc lc1 59 with
        | None => SPanic
        | Some lc2 =>
          if 0 <? c_stri lc2 then
            let s2 := set_l (set_combuf s1 (com_of lc2)) ZString (str_of lc2) in
            emit [snap s2] s2
          else SCont s1 lc2
        end
      end
  else if x =? 13 then (* CR *)
    if z_quote s then put_str s lc x false else SCont s (set_esc lc false)
  else if x =? 10 then (* LF *)
    if z_quote s then put_str s lc x false
    else
      let lc := set_esc lc false in
      if z_commt s then
        let s1 := set_rrtype (set_commt s false) false in
        if z_brace s1 =? 0 then
          let s2 := set_comment (set_l (set_owner s1 true) ZNewline [10]) (com_of lc) in
          emit [snap s2] s2
        else SCont (set_combuf s1 (com_of lc)) lc
      else if z_brace s =? 0 then
        let '(retL, s1) :=
          if negb (c_stri lc =? 0) then
            let s1 := set_l s ZString (str_of lc) in
            let s2 := if z_rrtype s1 then s1
                      else match lookup type_table (upper (str_of lc)) with
                           | Some t => set_torc (set_rrtype s1 true) ZRrtpe t
                           | None => s1
                           end in
            (Some (snap s2), s2)
          else (None, s) in
        let s2 := set_l s1 ZNewline [10] in
        let s3 := set_owner (set_rrtype (set_combuf (set_comment s2 (z_combuf s2)) []) false) true in
        match retL with
        | Some t => emit [t; snap s3] s3
        | None => emit [snap s3] s3
        end
      else SCont s lc
  else if x =? 92 then (* backslash *)
    if z_commt s then put_com s lc x
    else if c_esc lc then put_str s lc x false
    else put_str s lc x true
  else if x =? 34 then (* double quote *)
    if z_commt s then put_com s lc x
    else if c_esc lc then put_str s lc x false
    else
      let s1 := set_space s false in
      let '(retL, s2) :=
        if negb (c_stri lc =? 0) then
          let s2 := set_l s1 ZString (str_of lc) in (Some (snap s2), s2)
        else (None, s1) in
      let s3 := set_quote (set_l s2 ZQuote [34]) (negb (z_quote s2)) in
      match retL with
      | Some t => emit [t; snap s3] s3
      | None => emit [snap s3] s3
      end
  else if (x =? 40) || (x =? 41) then (* ( ) *)
    if z_commt s then put_com s lc x
    else if c_esc lc || z_quote s then put_str s lc x false
    else if x =? 41 then
      if z_brace s =? 0 then stop [] s "extra closing brace"
      else SCont (set_brace s (z_brace s - 1)) lc
    else SCont (set_brace s (z_brace s + 1)) lc
  else
    if z_commt s then put_com s (set_esc lc false) x
    else
      match put_str s lc x false with
      | SCont s1 lc1 => SCont (set_space s1 false) lc1
      | r => r
      end.

(* the code after the loop: what the current call and the following calls
   return once the reader is exhausted ([fuel] calls; four are always enough,
   the stream is cut there) *)
Fixpoint lex_eof (fuel : nat) (s : lst) (lc : loc) : list tok :=
  match fuel with
  | O => []
  | S f =>
    let again (s' : lst) := let '(s2, lc2) := fresh s' in lex_eof f s2 lc2 in
    if 0 <? c_stri lc then
      let s1 := set_l s ZString (str_of lc) in
      if c_comi lc =? 0 then with_com (z_comment s1) (snap s1) :: again s1
      else
        let s2 := set_comment (set_l s1 ZNewline [10]) (com_of lc) in
        with_com (z_comment s2) (snap s1) :: with_com (z_comment s2) (snap s2) :: again s2
    else if 0 <? c_comi lc then
      let s2 := set_comment (set_l s ZNewline [10]) (com_of lc) in
      with_com (z_comment s2) (snap s2) :: again s2
    else if negb (z_brace s =? 0) then [with_com (z_comment s) (snap_err s "unbalanced brace")]
    else []
  end.

(* [rerr]: the reader ended with an error other than io.EOF (the $GENERATE
   reader does that); then nothing is delivered after the last complete call *)
Fixpoint lex_go (s : lst) (lc : loc) (inp : bytes) (rerr : bool) : list tok * bool :=
  match inp with
  | [] => (if rerr then [] else lex_eof 5 s lc, false)
  | x :: r =>
    match step (read_byte s x) (grow lc) x with
    | SCont s1 lc1 => lex_go s1 lc1 r rerr
    | SEmit ts s1 =>
      let '(s2, lc2) := fresh s1 in
      let '(l, p) := lex_go s2 lc2 r rerr in (ts ++ l, p)
    | SStop ts => (ts, false)
    | SPanic => ([], true)
    end
  end.

Definition lex_full (inp : bytes) (rerr : bool) : list tok * bool :=
  let '(s, lc) := fresh init_lst in lex_go s lc inp rerr.
(* the token stream of a zone text *)
Definition lex (inp : bytes) : list tok := fst (lex_full inp false).
Definition lex_panics (inp : bytes) : bool := snd (lex_full inp false).
