(* Model/Msg.v — msg.go at the record and message level: packRR / UnpackRR /
   UnpackRRWithHeader / unpackRRslice, Question, Header, Msg.PackBuffer,
   Msg.Unpack, Msg.Len / Len(rr), the OPT extended-RCODE split.  The per-type
   field sequences come from Gen/Layouts.v, the len() terms from Gen/Lens.v and
   the type registry from Gen/Registry.v (regenerated from /repo on every run).
   Definitions only. *)
From Dns Require Export Model.Rdata Model.Len.
From Dns Require Import Gen.Layouts Gen.Lens Gen.Registry Gen.Consts Gen.Structs.
Open Scope N_scope.

Record rr := {
  rr_name : bytes;      (* Hdr.Name, presentation form *)
  rr_type : N;          (* Hdr.Rrtype *)
  rr_class : N;
  rr_ttl : N;
  rr_rdlength : N;      (* Hdr.Rdlength *)
  rr_kind : string;     (* the Go struct type: A, MX, RFC3597, ... *)
  rr_data : rdata
}.
Record question := { q_name : bytes; q_type : N; q_class : N }.
Record msg := {
  m_id : N; m_response : bool; m_opcode : N; m_aa : bool; m_tc : bool; m_rd : bool; m_ra : bool;
  m_z : bool; m_ad : bool; m_cd : bool; m_rcode : N;
  m_compress : bool;
  m_question : list question; m_answer : list rr; m_ns : list rr; m_extra : list rr
}.

Fixpoint find_layout (l : list tlayout) (k : string) : option tlayout :=
  match l with [] => None | t :: r => if String.eqb (tl_name t) k then Some t else find_layout r k end.
Fixpoint find_len (l : list tlen) (k : string) : option (list lterm) :=
  match l with [] => None | t :: r => if String.eqb (ln_name t) k then Some (ln_terms t) else find_len r k end.
Fixpoint assoc_n (l : list (N * string)) (k : N) : option string :=
  match l with [] => None | (a, b) :: r => if a =? k then Some b else assoc_n r k end.

(* edns.go OPT.len is written by hand: 4 + len(o.pack()) per option *)
Definition len_terms_of (kind : string) : option (list lterm) :=
  if String.eqb kind "OPT" then Some [L_pairs "Option"] else find_len lens kind.

(* ------------------------------------------------------------------ *)
(* packing *)
Fixpoint set_at (l : bytes) (i : nat) (x : N) : bytes :=
  match l, i with
  | [], _ => []
  | _ :: r, O => x :: r
  | y :: r, S k => y :: set_at r k x
  end.

(* RR_Header.packHeader *)
Definition pack_header (r : rr) (cap : N) (compress : bool) (st : pn_state) : res pn_state :=
  if poff st =? cap then Ok st
  else
    do st <- pack_name (rr_name r) cap compress st;
    do st <- pack_fixed (u16 (rr_type r)) cap st;
    do st <- pack_fixed (u16 (rr_class r)) cap st;
    do st <- pack_fixed (u32 (rr_ttl r)) cap st;
    pack_fixed (u16 0) cap st.

(* msg.go packRR *)
Definition pack_rr (r : rr) (cap : N) (compress : bool) (st : pn_state) : res pn_state :=
  match find_layout layouts (rr_kind r) with
  | None => Err "nolayout"
  | Some L =>
    do st1 <- pack_header r cap compress st;
    let header_end := poff st1 in
    do st2 <- pack_fields (rr_data r) (tl_pack L) cap st1;
    let rdlength := poff st2 - header_end in
    if 65535 <? rdlength then Err "rdata"
    else if header_end <? 2 then Panic        (* msg[headerEnd-2:] *)
    else
      let out := set_at (set_at (pn_out st2) (N.to_nat (header_end - 2)) (rdlength / 256))
                        (N.to_nat (header_end - 1)) (rdlength mod 256) in
      Ok {| pn_out := out; pn_cm := pn_cm st2 |}
  end.

Definition pack_question (q : question) (cap : N) (compress : bool) (st : pn_state) : res pn_state :=
  do st <- pack_name (q_name q) cap compress st;
  do st <- pack_fixed (u16 (q_type q)) cap st;
  pack_fixed (u16 (q_class q)) cap st.

Fixpoint pack_rrs (l : list rr) (cap : N) (compress : bool) (st : pn_state) : res pn_state :=
  match l with
  | [] => Ok st
  | r :: t => do st' <- pack_rr r cap compress st; pack_rrs t cap compress st'
  end.
Fixpoint pack_questions (l : list question) (cap : N) (compress : bool) (st : pn_state) : res pn_state :=
  match l with
  | [] => Ok st
  | q :: t => do st' <- pack_question q cap compress st; pack_questions t cap compress st'
  end.

(* ------------------------------------------------------------------ *)
(* Len *)
Definition len_rr (r : rr) (off : N) (c : option lset) : N * option lset :=
  let '(hl, c1) := domain_name_len (rr_name r) off c true in
  let l0 := hl + 10 in
  match len_terms_of (rr_kind r) with
  | Some ts => len_terms (rr_data r) ts off l0 c1
  | None => (l0, c1)
  end.
Definition len_question (q : question) (off : N) (c : option lset) : N * option lset :=
  let '(hl, c1) := domain_name_len (q_name q) off c true in (hl + 4, c1).

Definition is_compressible (m : msg) : bool :=
  (1 <? length (m_question m))%nat || negb (Nat.eqb (length (m_answer m)) 0)
  || negb (Nat.eqb (length (m_ns m)) 0) || negb (Nat.eqb (length (m_extra m)) 0).

Definition msg_len_with (m : msg) (c : option lset) : N :=
  let step_q (a : N * option lset) q := let '(n, c') := len_question q (fst a) (snd a) in (fst a + n, c') in
  let step_r (a : N * option lset) r := let '(n, c') := len_rr r (fst a) (snd a) in (fst a + n, c') in
  let a := fold_left step_q (m_question m) (12, c) in
  let a := fold_left step_r (m_answer m) a in
  let a := fold_left step_r (m_ns m) a in
  let a := fold_left step_r (m_extra m) a in
  fst a.
(* Msg.Len *)
Definition msg_len (m : msg) : N :=
  if m_compress m && is_compressible m then msg_len_with m (Some []) else msg_len_with m None.
(* dns.Len(rr) *)
Definition rr_len (r : rr) : N := fst (len_rr r 0 None).

(* ------------------------------------------------------------------ *)
(* Pack *)
Definition is_opt (r : rr) : bool := rr_type r =? c_TypeOPT.
(* IsEdns0: the last OPT of the additional section *)
Fixpoint last_opt_index (l : list rr) (i : nat) (acc : option nat) : option nat :=
  match l with
  | [] => acc
  | r :: t => last_opt_index t (S i) (if is_opt r then Some i else acc)
  end.
(* SetExtendedRcode on that record: Ttl = Ttl & 0x00FFFFFF | (rcode>>4)<<24 *)
Definition set_ext_rcode (r : rr) (rcode : N) : rr :=
  {| rr_name := rr_name r; rr_type := rr_type r; rr_class := rr_class r;
     rr_ttl := (rr_ttl r) mod 16777216 + ((rcode / 16) mod 256) * 16777216;
     rr_rdlength := rr_rdlength r; rr_kind := rr_kind r; rr_data := rr_data r |}.
Fixpoint update_nth {A} (l : list A) (i : nat) (f : A -> A) : list A :=
  match l, i with
  | [], _ => []
  | x :: r, O => f x :: r
  | x :: r, S k => x :: update_nth r k f
  end.

Definition b2n (b : bool) (w : N) : N := if b then w else 0.
Definition hdr_word (m : msg) : N :=
  N.lor (N.lor (N.lor (N.lor (N.lor (N.lor (N.lor (N.lor (N.lor
    ((m_opcode m * 2048) mod 65536) ((m_rcode m) mod 16))
    (b2n (m_response m) c_QR)) (b2n (m_aa m) c_AA)) (b2n (m_tc m) c_TC)) (b2n (m_rd m) c_RD))
    (b2n (m_ra m) c_RA)) (b2n (m_z m) c_Z)) (b2n (m_ad m) c_AD)) (b2n (m_cd m) c_CD).

(* packBufferWithCompressionMap with buf = nil or a caller buffer of buflen octets.
   Returns the packed octets and whether the caller's buffer was used. *)
Definition pack_msg_buf (m : msg) (buflen : N) : res (bytes * bool) :=
  if 4095 <? m_rcode m then Err "rcode"
  else
    let oi := last_opt_index (m_extra m) O None in
    match oi, (15 <? m_rcode m) with
    | None, true => Err "extrcode"
    | _, _ =>
      let extra := match oi with
                   | Some i => update_nth (m_extra m) i (fun r => set_ext_rcode r (m_rcode m))
                   | None => m_extra m end in
      let compress := m_compress m && is_compressible m in
      let ulen := msg_len_with m None in
      let cap := if buflen <? ulen + 1 then ulen + 1 else buflen in
      let st0 := {| pn_out := []; pn_cm := if compress then Some [] else None |} in
      let hdr := u16 (m_id m) ++ u16 (hdr_word m) ++ u16 (lenN (m_question m)) ++ u16 (lenN (m_answer m))
                     ++ u16 (lenN (m_ns m)) ++ u16 (lenN extra) in
      do st <- pack_fixed hdr cap st0;
      do st <- pack_questions (m_question m) cap compress st;
      do st <- pack_rrs (m_answer m) cap compress st;
      do st <- pack_rrs (m_ns m) cap compress st;
      do st <- pack_rrs extra cap compress st;
      Ok (pn_out st, negb (buflen <? ulen + 1))
    end.
Definition pack_msg (m : msg) : res bytes := do r <- pack_msg_buf m 0; Ok (fst r).

(* ------------------------------------------------------------------ *)
(* unpacking *)
Record rrhdr := { h_name : bytes; h_type : N; h_class : N; h_ttl : N; h_rdlength : N }.

(* msg_helpers.go unpackHeader: returns the header, the offset after it and the
   message cut at the end of the RDATA *)
Definition unpack_rr_header (msg : bytes) (off : N) : res (rrhdr * N * bytes) :=
  if off =? lenN msg then Ok ({| h_name := []; h_type := 0; h_class := 0; h_ttl := 0; h_rdlength := 0 |}, off, msg)
  else
    do n <- unpack_name msg off;
    do t <- unpack_fixed 2 msg (snd n);
    do c <- unpack_fixed 2 msg (snd t);
    do ttl <- unpack_fixed 4 msg (snd c);
    do rdl <- unpack_fixed 2 msg (snd ttl);
    let rdlength := be (fst rdl) 0 in
    let off := snd rdl in
    if lenN msg <? off + rdlength then Err "overflow"
    else Ok ({| h_name := fst n; h_type := be (fst t) 0; h_class := be (fst c) 0;
                h_ttl := be (fst ttl) 0; h_rdlength := rdlength |}, off, takeN (off + rdlength) msg).

(* SIG embeds RRSIG, KEY embeds DNSKEY, ...: the generated methods are those of
   the embedded struct (Go method promotion) *)
Fixpoint struct_fields (l : list tstruct) (k : string) : option (list (string * gotype * string)) :=
  match l with [] => None | t :: r => if String.eqb (st_name t) k then Some (st_fields t) else struct_fields r k end.
Fixpoint base_kind_go (fuel : nat) (k : string) : string :=
  match fuel with
  | O => k
  | S f => match struct_fields structs k with
           | Some [(_, G_embedded t, _)] => base_kind_go f t
           | _ => k
           end
  end.
Definition base_kind (k : string) : string := base_kind_go 4 k.

Definition kind_of_type (t : N) : string :=
  match assoc_n type_to_rr t with Some k => base_kind k | None => "RFC3597"%string end.

(* UnpackRRWithHeader.  The result is the record (None stands for the bare
   *RR_Header that is returned together with an error) and the new offset. *)
Definition unpack_rr_with_header (h : rrhdr) (msg : bytes) (off : N) : res (rr * N) :=
  let kind := kind_of_type (h_type h) in
  let mk d := {| rr_name := h_name h; rr_type := h_type h; rr_class := h_class h; rr_ttl := h_ttl h;
                 rr_rdlength := h_rdlength h; rr_kind := kind; rr_data := d |} in
  if lenN msg <? off then Err "badoff"
  else
    let e := off + h_rdlength h in
    if lenN msg <? e then Err "rdlength"
    else if h_rdlength h =? 0 then Ok (mk [], off)
    else
      match find_layout layouts kind with
      | None => Err "nolayout"
      | Some L =>
        do p <- unpack_fields (tl_unpack L) [] msg off;
        if snd p =? e then Ok (mk (fst p), snd p) else Err "rdlength"
      end.

(* UnpackRR *)
Definition unpack_rr (msg : bytes) (off : N) : res (rr * N) :=
  do h <- unpack_rr_header msg off;
  let '(hd, off1, tmsg) := h in
  unpack_rr_with_header hd tmsg off1.

(* unpackRRslice: l records at most; stops when the offset no longer advances *)
Fixpoint unpack_rr_slice (l : nat) (msg : bytes) (off : N) (acc : list rr) : res (list rr * N) :=
  match l with
  | O => Ok (acc, off)
  | S k =>
    match unpack_rr msg off with
    | Ok (r, off') => if off' =? off then Ok (acc, off) else unpack_rr_slice k msg off' (acc ++ [r])
    | Err e => Err e
    | Panic => Panic
    | OutOfFuel => OutOfFuel
    end
  end.

Definition unpack_question (msg : bytes) (off : N) : res (question * N) :=
  match unpack_name msg off with
  | Ok (n, off) =>
    if off =? lenN msg then Ok ({| q_name := n; q_type := 0; q_class := 0 |}, off)
    else
      do t <- unpack_fixed 2 msg off;
      if snd t =? lenN msg then Ok ({| q_name := n; q_type := be (fst t) 0; q_class := 0 |}, snd t)
      else
        do c <- unpack_fixed 2 msg (snd t);
        Ok ({| q_name := n; q_type := be (fst t) 0; q_class := be (fst c) 0 |}, snd c)
  | Err e => Err e
  | Panic => Panic
  | OutOfFuel => OutOfFuel
  end.
Fixpoint unpack_questions (l : nat) (msg : bytes) (off : N) (acc : list question) : res (list question * N) :=
  match l with
  | O => Ok (acc, off)
  | S k =>
    do q <- unpack_question msg off;
    if snd q =? off then Ok (acc, off) else unpack_questions k msg (snd q) (acc ++ [fst q])
  end.

Definition testw (w bit : N) : bool := negb (N.land w bit =? 0).

(* Msg.setHdr: the message header fields from the id and the flags word *)
Definition msg_of_bits (id bits : N) (qs : list question) (an ns ex : list rr) (rc : N) : msg :=
  {| m_id := id; m_response := testw bits c_QR; m_opcode := (bits / 2048) mod 16;
     m_aa := testw bits c_AA; m_tc := testw bits c_TC; m_rd := testw bits c_RD; m_ra := testw bits c_RA;
     m_z := testw bits c_Z; m_ad := testw bits c_AD; m_cd := testw bits c_CD; m_rcode := rc;
     m_compress := false; m_question := qs; m_answer := an; m_ns := ns; m_extra := ex |}.
(* OPT.ExtendedRcode: the upper eight bits of the OPT TTL, shifted into place *)
Definition ext_rcode_of_ttl (ttl : N) : N := ((ttl / 16777216) mod 256) * 16.

(* Msg.Unpack.  A failure inside a record section still leaves the sections
   decoded before it in the message; the model returns them together with the
   error flag (Go returns err and a partially filled Msg). *)
Definition unpack_msg (bs : bytes) : res (msg * bool (* err *)) :=
  do hd <- match unpack_fixed 12 bs 0 with Ok x => Ok x | _ => Err "header" end;
  let w i := be (take_at bs (2 * i) 2) 0 in
  let bits := w 1 in
  let mk qs an ns ex rc := msg_of_bits (w 0) bits qs an ns ex rc in
  let rc0 := bits mod 16 in
  if lenN bs =? 12 then Ok (mk [] [] [] [] rc0, false)
  else
    match unpack_questions (N.to_nat (w 2)) bs 12 [] with
    | Ok (qs, off) =>
      let ext ex := match last_opt_index ex O None with
                    | Some i => N.lor rc0 (ext_rcode_of_ttl (rr_ttl (nth i ex {| rr_name := []; rr_type := 0; rr_class := 0; rr_ttl := 0; rr_rdlength := 0; rr_kind := ""; rr_data := [] |})))
                    | None => rc0 end in
      match unpack_rr_slice (N.to_nat (w 3)) bs off [] with
      | Ok (an, off) =>
        match unpack_rr_slice (N.to_nat (w 4)) bs off [] with
        | Ok (ns, off) =>
          match unpack_rr_slice (N.to_nat (w 5)) bs off [] with
          | Ok (ex, _) => Ok (mk qs an ns ex (ext ex), false)
          | Err _ => Ok (mk qs an ns [] rc0, true)
          | Panic => Panic | OutOfFuel => OutOfFuel
          end
        | Err _ => Ok (mk qs an [] [] rc0, true)
        | Panic => Panic | OutOfFuel => OutOfFuel
        end
      | Err _ => Ok (mk qs [] [] [] rc0, true)
      | Panic => Panic | OutOfFuel => OutOfFuel
      end
    | Err _ => Err "question"
    | Panic => Panic | OutOfFuel => OutOfFuel
    end.
