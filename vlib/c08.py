from .core import Check


class C08(Check):
    prop = "C08"
    props_rel = "Props/C08"
    corr_module = "Corr.C08"
    corr_rel = "Corr/C08"
    gen_rels = ["Gen/Layouts", "Gen/Registry", "Gen/Consts", "Gen/Structs", "Gen/Lens"]
    shard_size = 60
    model_desc = ("Model/Len.v (domainNameLen, compressionLenSearch, escapedNameLen, typeBitMapLen and the len() terms that "
                  "tools/gotrans regenerates from ztypes.go/types.go each run), Model/Msg.v (Msg.Len, PackBuffer buffer sizing), "
                  "Model/Rdata.v, Model/NameWire.v, Model/OptVal.v (every EDNS0_* option type and SVCB* value type at Go struct level: "
                  "pack(), len(), option code / key)")
    rule = ("random messages of all registered types (compressed and not, escaped names, OPT, SVCB, APL, bitmaps, ill-formed "
            "fields), escape-free messages of the 16 common types, messages crossing offset 16384; direct oracles: "
            "Len() >= len(Pack()), equality for plain messages, Len(rr) >= PackRR, Pack never fails for lack of room, "
            "PackBuffer uses the caller's buffer when it is larger than the uncompressed length; model cases: Len() and "
            "PackBuffer results for a sample; option / parameter VALUES at struct level, every type, boundary-biased and "
            "inconsistent fields (cases optval / svcbval: pack() octets or error class and the length Len adds; direct oracle "
            "len >= len(pack()), and SVCB.len adds exactly the value's len()). Non-trivial: the message has at least one record.")
    trusted = ["hex/base64/base32 text codecs of Go's encoding/* are outside the model (fields held as the octets they denote)",
               "inside a record, EDNS0 option and SVCB parameter values are (code, packed value, reported length) triples; "
               "Model/OptVal.v derives the triple from the Go struct fields for every type the library defines"]

    partial = ["the hypothesis 'the length reported for an EDNS0 option / SVCB parameter is at least the octets its pack() returns' is now "
               "PROVED for every option and value type the library defines, at Go struct level (option_len_covers_option_pack, "
               "svcb_value_len_covers_value_pack; EDNS0_LOCAL / SVCBLocal are plain octets and are covered); it remains a hypothesis, "
               "checked per case by the harness, only for implementations of the EDNS0 / SVCBKeyValue interfaces that the library "
               "does not define (it cannot construct them itself: unknown codes unpack to EDNS0_LOCAL / SVCBLocal)",
               "records are taken with their base kind (SIG/KEY/CDS/... flattened to the embedded type, as Go method promotion does); "
               "rr_len_embedding_kind_refuted shows why the theorems say so"]

    def nontrivial(self, c):
        return len(c["args"][0]) > 80


CHECK = C08()
