(* Proofs/LabelsMoreProofs.v -- the remaining label helpers of Model/Labels.v on
   printed names: SplitDomainName, PrevLabel, CompareDomainName, IsSubDomain and
   dnsutil AddOrigin / TrimDomainName. *)
From Dns Require Import Base.ListX Model.Labels Proofs.EscapeProofs Proofs.LabelsProofs.
From Coq Require Import Lia ZifyN ZifyNat ZifyBool.
Open Scope N_scope.

(* ================= shape of the two presentation forms ================= *)
Definition form_tail (fq : bool) : bytes := if fq then [46] else [].

Lemma name_form_shape fq mid last :
  labels_wf mid -> last <> [] /\ wfb last ->
  name_form fq (mid ++ [last]) = show_labels mid ++ show_label last ++ form_tail fq /\
  is_fqdn (name_form fq (mid ++ [last])) = fq.
Proof.
  intros Hmid Hlast. split.
  - unfold name_form, form_tail. rewrite show_labels_snoc_form. destruct fq; [reflexivity|].
    now rewrite app_assoc, removelast_snoc, app_nil_r.
  - destruct fq.
    + unfold name_form. now apply is_fqdn_show_labels.
    + now apply is_fqdn_name_form_false.
Qed.

Lemma name_form_nonempty fq mid last :
  labels_wf mid -> last <> [] /\ wfb last -> name_form fq (mid ++ [last]) <> [].
Proof.
  intros Hmid Hlast. destruct (name_form_shape fq mid last Hmid Hlast) as [-> _].
  destruct Hlast as [Hne _]. pose proof (show_label_nonempty last Hne).
  destruct (show_labels mid); [|discriminate]. destruct (show_label last); [congruence|discriminate].
Qed.

(* ================= SplitDomainName ================= *)
Lemma gslice_mid (a b c : bytes) :
  gslice (a ++ b ++ c) (length a) (length a + length b) = Ok b.
Proof.
  unfold gslice.
  assert (H1 : Nat.leb (length a) (length a + length b) = true) by (apply Nat.leb_le; lia).
  assert (H2 : Nat.leb (length a + length b) (length (a ++ b ++ c)) = true).
  { apply Nat.leb_le. rewrite !app_length. lia. }
  rewrite H1, H2. cbn [andb].
  replace (length a + length b - length a)%nat with (length b) by lia.
  now rewrite skipn_app_exact, firstn_app_exact.
Qed.

Lemma sdn_go_spec mid : forall pre R,
  sdn_go (show_labels pre ++ show_labels mid ++ R) (length (show_labels pre))
         (nexts (length (show_labels pre)) mid) =
  Ok (map show_label mid, length (show_labels (pre ++ mid))).
Proof.
  induction mid as [|l mid IH]; intros pre R.
  - cbn [nexts sdn_go map]. now rewrite app_nil_r.
  - cbn [nexts sdn_go map].
    replace (length (show_labels pre) + length (show_label l) + 1 - 1)%nat
      with (length (show_labels pre) + length (show_label l))%nat by lia.
    rewrite show_labels_cons, <- app_assoc.
    rewrite gslice_mid. cbn [bind].
    assert (Hlen : (length (show_labels pre) + length (show_label l) + 1)%nat
                   = length (show_labels (pre ++ [l]))).
    { rewrite show_labels_snoc_form, !app_length. cbn. lia. }
    rewrite Hlen.
    replace (show_labels pre ++ show_label l ++ (46 :: show_labels mid) ++ R)
      with (show_labels (pre ++ [l]) ++ show_labels mid ++ R).
    2:{ rewrite show_labels_snoc_form, <- !app_assoc. reflexivity. }
    rewrite IH. cbn [bind fst snd]. rewrite <- app_assoc. reflexivity.
Qed.

Theorem split_domain_name_spec fq mid last :
  labels_wf mid -> last <> [] /\ wfb last ->
  split_domain_name (name_form fq (mid ++ [last])) = Ok (map show_label (mid ++ [last])).
Proof.
  intros Hmid Hlast. unfold split_domain_name.
  pose proof (name_form_nonempty fq mid last Hmid Hlast) as Hne.
  rewrite split_spec by auto.
  destruct (name_form_shape fq mid last Hmid Hlast) as [Hs Hf].
  rewrite Hf.
  destruct (name_form fq (mid ++ [last])) as [|c0 s0] eqn:E; [congruence|].
  rewrite label_starts_snoc.
  rewrite Hs.
  pose proof (sdn_go_spec mid [] (show_label last ++ form_tail fq)) as H.
  cbn [show_labels flat_map app length] in H. rewrite H. cbn [bind fst snd].
  fold (show_labels mid).
  assert (Hend : (if fq then (length (show_labels mid ++ show_label last ++ form_tail fq) - 1)%nat
                  else length (show_labels mid ++ show_label last ++ form_tail fq))
                 = (length (show_labels mid) + length (show_label last))%nat).
  { unfold form_tail. destruct fq; rewrite !app_length; cbn; lia. }
  rewrite Hend, gslice_mid. cbn [bind]. now rewrite map_app.
Qed.

Lemma split_domain_name_root :
  split_domain_name [46] = Ok [] /\ split_domain_name [] = Ok [].
Proof. split; reflexivity. Qed.

(* ================= PrevLabel ================= *)
(* scanning leftwards over a separator-free segment changes nothing *)
Lemma pl_go_seg P L n :
  has_sep (scan false P) L = false ->
  pl_go (rev (P ++ L)) (length (P ++ L) - 1) n = pl_go (rev P) (length P - 1) n.
Proof.
  induction L as [|c L IH] using rev_ind; intro Hs.
  - now rewrite app_nil_r.
  - rewrite has_sep_app in Hs. apply orb_false_elim in Hs. destruct Hs as [Hs1 Hs2].
    rewrite app_assoc, rev_app_distr. cbn [rev app pl_go].
    rewrite bs_run_even, scan_app.
    cbn [has_sep] in Hs2. rewrite orb_false_r in Hs2.
    assert (Hc : (c =? 46) && negb (scan (scan false P) L) = false).
    { rewrite andb_comm. exact Hs2. }
    rewrite Hc.
    replace (Nat.pred (length ((P ++ L) ++ [c]) - 1)) with (length (P ++ L) - 1)%nat.
    2:{ rewrite (app_length (P ++ L)). cbn. lia. }
    apply IH, Hs1.
Qed.

Lemma firstn_snoc_le {A} (a : list A) x k : (k <= length a)%nat -> firstn k (a ++ [x]) = firstn k a.
Proof.
  intro H. rewrite firstn_app. replace (k - length a)%nat with O by lia.
  cbn. now rewrite app_nil_r.
Qed.

Lemma pl_go_labels pre : forall L n,
  labels_wf pre -> has_sep false L = false -> (1 <= n)%nat ->
  pl_go (rev (show_labels pre ++ L)) (length (show_labels pre ++ L) - 1) n =
  if Nat.leb n (length pre)
  then (length (show_labels (firstn (length pre - n + 1) pre)), false)
  else (O, Nat.ltb (S (length pre)) n).
Proof.
  induction pre as [|l pre IH] using rev_ind; intros L n Hwf HL Hn.
  - rewrite pl_go_seg by exact HL. cbn [show_labels flat_map rev pl_go length].
    destruct (Nat.leb_spec n 0); [lia|]. reflexivity.
  - apply Forall_app in Hwf. destruct Hwf as [Hpre Hl]. inversion Hl as [|? ? [Hlne Hlw] _]; subst.
    rewrite pl_go_seg by (rewrite show_labels_scan; [exact HL|apply labels_wf_app; auto]).
    rewrite show_labels_snoc_form, app_assoc, rev_app_distr. cbn [rev app pl_go].
    rewrite bs_run_even, scan_app, show_labels_scan by exact Hpre.
    destruct (show_label_scan l Hlw) as [Hsc Hsep]. rewrite Hsc. cbn [negb andb N.eqb Pos.eqb].
    assert (Hlen : length (pre ++ [l]) = S (length pre)) by (rewrite app_length; cbn; lia).
    rewrite Hlen.
    destruct n as [|[|n]]; [lia| |].
    + (* n = 1: stop just after this dot *)
      cbn [Nat.leb].
      replace (S (length pre) - 1 + 1)%nat with (length (pre ++ [l])) by lia.
      rewrite firstn_all, show_labels_snoc_form. f_equal.
      rewrite !app_length. cbn [length]. lia.
    + replace (Nat.pred (length ((show_labels pre ++ show_label l) ++ [46]) - 1))
        with (length (show_labels pre ++ show_label l) - 1)%nat.
      2:{ rewrite (app_length (_ ++ _)). cbn. lia. }
      cbn [Nat.pred].
      rewrite IH by (auto; lia).
      destruct (Nat.leb_spec (S n) (length pre)), (Nat.leb_spec (S (S n)) (S (length pre))); try lia.
      * f_equal. f_equal. f_equal.
        replace (S (length pre) - S (S n) + 1)%nat with (length pre - S n + 1)%nat by lia.
        symmetry. apply firstn_snoc_le. lia.
      * reflexivity.
Qed.

Lemma nth_label_starts A : forall p x C d,
  nth (length A) (label_starts p (A ++ x :: C)) d = (p + length (show_labels A))%nat.
Proof.
  induction A as [|a A IH]; intros p x C d.
  - cbn. lia.
  - cbn [app length label_starts nth]. rewrite IH, show_labels_cons, app_length. cbn [length]. lia.
Qed.

Lemma label_starts_length p ls : length (label_starts p ls) = length ls.
Proof. revert p; induction ls as [|l r IH]; intros p; cbn; [reflexivity|now rewrite IH]. Qed.

Lemma nth_label_starts_firstn ls j d : (j < length ls)%nat ->
  nth j (label_starts 0 ls) d = length (show_labels (firstn j ls)).
Proof.
  intro Hj. rewrite <- (firstn_skipn j ls) at 1.
  destruct (skipn j ls) as [|x C] eqn:E.
  { pose proof (skipn_length j ls) as H. rewrite E in H. cbn in H. lia. }
  assert (Hl : length (firstn j ls) = j) by (rewrite firstn_length; lia).
  rewrite <- Hl at 1. rewrite nth_label_starts. lia.
Qed.

Theorem prev_label_spec fq mid last n :
  labels_wf mid -> last <> [] /\ wfb last ->
  prev_label (name_form fq (mid ++ [last])) n =
  match n with
  | O => (length (name_form fq (mid ++ [last])), false)
  | _ => (nth (length (mid ++ [last]) - n) (label_starts 0 (mid ++ [last])) O,
          Nat.ltb (length (mid ++ [last])) n)
  end.
Proof.
  intros Hmid Hlast. unfold prev_label.
  pose proof (name_form_nonempty fq mid last Hmid Hlast) as Hne.
  destruct (name_form fq (mid ++ [last])) as [|c0 s0] eqn:E; [congruence|].
  destruct n as [|n']; [reflexivity|]. rewrite <- E. clear E c0 s0 Hne.
  set (n := S n'). assert (Hn : (1 <= n)%nat) by (unfold n; lia). clearbody n.
  (* the value of the scan started at the end of mid ++ L *)
  assert (Hval : forall L, has_sep false L = false ->
            pl_go (rev (show_labels mid ++ L)) (length (show_labels mid ++ L) - 1) n =
            (nth (length (mid ++ [last]) - n) (label_starts 0 (mid ++ [last])) O,
             Nat.ltb (length (mid ++ [last])) n)).
  { intros L HL. rewrite pl_go_labels by auto. rewrite app_length. cbn [length].
    destruct (Nat.leb_spec n (length mid)).
    - rewrite nth_label_starts_firstn by (rewrite app_length; cbn; lia).
      destruct (Nat.ltb_spec (length mid + 1) n); [lia|]. f_equal. f_equal. f_equal.
      replace (length mid + 1 - n)%nat with (length mid - n + 1)%nat by lia.
      symmetry. apply firstn_snoc_le. lia.
    - replace (length mid + 1 - n)%nat with O by lia.
      rewrite label_starts_snoc. cbn [nth]. f_equal.
      destruct (Nat.ltb_spec (S (length mid)) n), (Nat.ltb_spec (length mid + 1) n); try lia; reflexivity. }
  destruct Hlast as [Hlne Hlw]. destruct (show_label_scan last Hlw) as [Hsc Hsep].
  destruct (name_form_shape fq mid last Hmid (conj Hlne Hlw)) as [Hs _]. rewrite Hs.
  destruct fq; unfold form_tail.
  - rewrite app_assoc, rev_app_distr. cbn [rev app].
    replace (length ((show_labels mid ++ show_label last) ++ [46%N]) - 2)%nat
      with (length (show_labels mid ++ show_label last) - 1)%nat
      by (rewrite (app_length (_ ++ _)); cbn; lia).
    apply Hval, Hsep.
  - rewrite app_nil_r.
    destruct (exists_last (show_label_nonempty last Hlne)) as [L [x HLx]].
    pose proof Hsep as HsL. rewrite HLx, has_sep_app in HsL. apply orb_false_elim in HsL.
    destruct HsL as [HsL _].
    assert (Hr : rev (show_labels mid ++ show_label last) = x :: rev (show_labels mid ++ L)).
    { rewrite HLx, app_assoc, rev_app_distr. reflexivity. }
    destruct (N.eqb_spec x 46) as [->|Hx].
    + rewrite Hr.
      replace (length (show_labels mid ++ show_label last) - 2)%nat
        with (length (show_labels mid ++ L) - 1)%nat
        by (rewrite HLx, app_assoc, (app_length (_ ++ _)); cbn; lia).
      apply Hval, HsL.
    + assert (Hm : forall (r : bytes) (a b : nat * bool),
                match x :: r with 46 :: r' => a | _ => b end = b).
      { intros r a b. destruct x as [|p]; [reflexivity|].
        repeat (destruct p as [p|p|]; try reflexivity). congruence. }
      rewrite Hr. rewrite (Hm (rev (show_labels mid ++ L))). rewrite <- Hr. apply Hval, Hsep.
Qed.

(* ================= CompareDomainName / IsSubDomain ================= *)
(* The specification: labels are compared as labels.go equal compares their
   printed text, ASCII case-insensitively; the count is the length of the
   longest common suffix of the two label lists. *)
Definition label_eq_ci (a b : label) : bool := equal_ci (show_label a) (show_label b).
Fixpoint common_prefix_ci (a b : list label) : nat :=
  match a, b with
  | x :: a', y :: b' => if label_eq_ci x y then S (common_prefix_ci a' b') else O
  | _, _ => O
  end.
Definition common_suffix_ci (a b : list label) : nat := common_prefix_ci (rev a) (rev b).

Lemma wf_snoc ls : labels_wf ls -> ls <> [] ->
  exists mid last, ls = mid ++ [last] /\ labels_wf mid /\ (last <> [] /\ wfb last).
Proof.
  intros Hwf Hne. destruct (exists_last Hne) as [mid [last E]]. exists mid, last.
  subst ls. apply Forall_app in Hwf. destruct Hwf as [H1 H2]. inversion H2; subst. auto.
Qed.

Lemma wf_of_snoc mid last : labels_wf mid -> last <> [] /\ wfb last -> labels_wf (mid ++ [last]).
Proof. intros. apply labels_wf_app; auto. constructor; auto. Qed.

Lemma equal_ci_app_tail x y t : equal_ci (x ++ t) (y ++ t) = equal_ci x y.
Proof.
  unfold equal_ci, lower_bytes. apply eq_true_iff_eq. rewrite !bytes_eqb_eq, !map_app. split.
  - apply app_inv_tail.
  - intros ->. reflexivity.
Qed.

Lemma gslice_tail (a b : bytes) : gslice (a ++ b) (length a) (length (a ++ b)) = Ok b.
Proof.
  pose proof (gslice_mid a b []) as H. rewrite !app_nil_r in H.
  rewrite app_length. exact H.
Qed.

(* a middle label, with its dot, is the slice between two consecutive starts *)
Lemma gslice_label fq A x C :
  labels_wf (A ++ x :: C) -> C <> [] ->
  gslice (name_form fq (A ++ x :: C))
         (nth (length A) (label_starts 0 (A ++ x :: C)) O)
         (nth (S (length A)) (label_starts 0 (A ++ x :: C)) O) = Ok (show_label x ++ [46]).
Proof.
  intros Hwf HC.
  destruct (exists_last HC) as [C' [last EC]]. subst C.
  rewrite nth_label_starts.
  assert (E2 : nth (S (length A)) (label_starts 0 (A ++ x :: C' ++ [last])) O
               = (length (show_labels A) + length (show_label x ++ [46%N]))%nat).
  { replace (A ++ x :: C' ++ [last]) with ((A ++ [x]) ++ (C' ++ [last]))
      by (rewrite <- app_assoc; reflexivity).
    replace (S (length A)) with (length (A ++ [x])) by (rewrite app_length; cbn; lia).
    destruct (C' ++ [last]) as [|y C''] eqn:EC; [destruct C'; discriminate|].
    rewrite nth_label_starts, show_labels_snoc_form, !app_length. lia. }
  rewrite E2. cbn [Nat.add].
  replace (A ++ x :: C' ++ [last]) with ((A ++ x :: C') ++ [last])
    by (rewrite <- app_assoc; reflexivity).
  assert (Hwf' : labels_wf (A ++ x :: C') /\ (last <> [] /\ wfb last)).
  { replace (A ++ x :: C' ++ [last]) with ((A ++ x :: C') ++ [last]) in Hwf
      by (rewrite <- app_assoc; reflexivity).
    apply Forall_app in Hwf. destruct Hwf as [H1 H2]. inversion H2; subst. auto. }
  destruct Hwf' as [H1 H2].
  destruct (name_form_shape fq (A ++ x :: C') last H1 H2) as [Hs _]. unfold label, bytes in *. rewrite Hs.
  rewrite show_labels_app, show_labels_cons.
  replace ((show_labels A ++ show_label x ++ 46 :: show_labels C') ++ show_label last ++ form_tail fq)
    with (show_labels A ++ (show_label x ++ [46]) ++ (show_labels C' ++ show_label last ++ form_tail fq))
    by (rewrite <- !app_assoc; reflexivity).
  apply gslice_mid.
Qed.

(* the last label, up to the end of the string *)
Lemma gslice_last fq mid last :
  labels_wf mid -> last <> [] /\ wfb last ->
  gslice (name_form fq (mid ++ [last]))
         (nth (length mid) (label_starts 0 (mid ++ [last])) O)
         (length (name_form fq (mid ++ [last]))) = Ok (show_label last ++ form_tail fq).
Proof.
  intros Hmid Hlast. rewrite nth_label_starts.
  destruct (name_form_shape fq mid last Hmid Hlast) as [-> _]. cbn [Nat.add].
  apply gslice_tail.
Qed.

Lemma cdn_go_S f s1 s2 l1 l2 i1 j1 i2 j2 n :
  cdn_go (S f) s1 s2 l1 l2 i1 j1 i2 j2 n =
  if (i1 <? 0)%Z || (i2 <? 0)%Z then Ok n
  else
    do x <- gslice s1 (nth (Z.to_nat i1) l1 O) (nth (Z.to_nat j1) l1 O);
    do y <- gslice s2 (nth (Z.to_nat i2) l2 O) (nth (Z.to_nat j2) l2 O);
    if equal_ci x y then cdn_go f s1 s2 l1 l2 (i1 - 1) (j1 - 1) (i2 - 1) (j2 - 1) (S n)
    else Ok n.
Proof. reflexivity. Qed.

Lemma cdn_go_spec fq1 fq2 A1 : forall A2 x1 x2 C1 C2 fuel n,
  labels_wf (A1 ++ x1 :: C1) -> labels_wf (A2 ++ x2 :: C2) ->
  (length A1 < fuel)%nat ->
  cdn_go fuel (name_form fq1 (A1 ++ x1 :: C1)) (name_form fq2 (A2 ++ x2 :: C2))
         (label_starts 0 (A1 ++ x1 :: C1)) (label_starts 0 (A2 ++ x2 :: C2))
         (Z.of_nat (length A1) - 1) (Z.of_nat (length A1))
         (Z.of_nat (length A2) - 1) (Z.of_nat (length A2)) n =
  Ok (n + common_prefix_ci (rev A1) (rev A2))%nat.
Proof.
  induction A1 as [|a A1 IH] using rev_ind; intros A2 x1 x2 C1 C2 fuel n Hw1 Hw2 Hfuel.
  - destruct fuel as [|f]; [cbn in Hfuel; lia|]. rewrite cdn_go_S.
    cbn [length Z.of_nat Z.sub Z.add Z.opp Z.pos_sub Z.ltb Z.compare orb rev common_prefix_ci].
    f_equal. lia.
  - destruct fuel as [|f]; [cbn in Hfuel; lia|]. rewrite cdn_go_S.
    assert (E1 : (Z.of_nat (length (A1 ++ [a])) - 1 = Z.of_nat (length A1))%Z)
      by (rewrite app_length; cbn; lia).
    destruct A2 as [|b A2 _] using rev_ind.
    + cbn [length Z.of_nat Z.sub Z.add Z.opp Z.pos_sub Z.ltb Z.compare orb].
      rewrite orb_true_r. rewrite rev_app_distr. cbn. f_equal. lia.
    + assert (E2 : (Z.of_nat (length (A2 ++ [b])) - 1 = Z.of_nat (length A2))%Z)
        by (rewrite app_length; cbn; lia).
      rewrite E1, E2.
      assert (F1 : (Z.of_nat (length A1) <? 0)%Z = false) by lia.
      assert (F2 : (Z.of_nat (length A2) <? 0)%Z = false) by lia.
      rewrite F1, F2. cbn [orb]. rewrite !Nat2Z.id.
      assert (L1 : length (A1 ++ [a]) = S (length A1)) by (rewrite app_length; cbn; lia).
      assert (L2 : length (A2 ++ [b]) = S (length A2)) by (rewrite app_length; cbn; lia).
      rewrite L1, L2.
      assert (R1 : (A1 ++ [a]) ++ x1 :: C1 = A1 ++ a :: x1 :: C1) by (rewrite <- app_assoc; reflexivity).
      assert (R2 : (A2 ++ [b]) ++ x2 :: C2 = A2 ++ b :: x2 :: C2) by (rewrite <- app_assoc; reflexivity).
      rewrite R1, R2 in *.
      rewrite (gslice_label fq1 A1 a (x1 :: C1)) by (auto; discriminate).
      rewrite (gslice_label fq2 A2 b (x2 :: C2)) by (auto; discriminate).
      cbn [bind]. rewrite equal_ci_app_tail. fold (label_eq_ci a b).
      rewrite !rev_app_distr. cbn [rev app common_prefix_ci].
      destruct (label_eq_ci a b); [|f_equal; lia].
      rewrite IH by (auto; lia). f_equal. lia.
Qed.

Lemma match_nonnil {A B} (l : list A) (p x : B) :
  l <> [] -> match l with [] => p | _ :: _ => x end = x.
Proof. destruct l; [congruence|reflexivity]. Qed.

(* both forms, possibly different on the two sides: the first comparison is on
   the last label TOGETHER WITH the final dot if there is one *)
Lemma compare_domain_name_general fq1 fq2 mid1 last1 mid2 last2 :
  labels_wf mid1 -> last1 <> [] /\ wfb last1 -> labels_wf mid2 -> last2 <> [] /\ wfb last2 ->
  compare_domain_name (name_form fq1 (mid1 ++ [last1])) (name_form fq2 (mid2 ++ [last2])) =
  if equal_ci (show_label last1 ++ form_tail fq1) (show_label last2 ++ form_tail fq2)
  then Ok (S (common_prefix_ci (rev mid1) (rev mid2))) else Ok O.
Proof.
  intros Hm1 Hl1 Hm2 Hl2.
  unfold compare_domain_name. rewrite !name_form_not_root by auto. cbn [orb].
  rewrite !split_spec by auto.
  rewrite !match_nonnil by (rewrite label_starts_snoc; discriminate).
  rewrite !label_starts_length. unfold label, bytes in *.
  assert (E1 : (Z.of_nat (length (mid1 ++ [last1])) - 1 = Z.of_nat (length mid1))%Z)
    by (rewrite app_length; cbn; lia).
  assert (E2 : (Z.of_nat (length (mid2 ++ [last2])) - 1 = Z.of_nat (length mid2))%Z)
    by (rewrite app_length; cbn; lia).
  rewrite E1, E2, !Nat2Z.id.
  rewrite !gslice_last by auto. cbn [bind].
  destruct (equal_ci _ _); [|reflexivity].
  rewrite (cdn_go_spec fq1 fq2 mid1 mid2 last1 last2 [] []).
  - reflexivity.
  - now apply wf_of_snoc.
  - now apply wf_of_snoc.
  - unfold label, bytes in *. rewrite app_length. cbn [length]. lia.
Qed.

Theorem compare_domain_name_spec fq ls1 ls2 :
  labels_wf ls1 -> ls1 <> [] -> labels_wf ls2 -> ls2 <> [] ->
  compare_domain_name (name_form fq ls1) (name_form fq ls2) = Ok (common_suffix_ci ls1 ls2).
Proof.
  intros Hw1 Hn1 Hw2 Hn2.
  destruct (wf_snoc ls1 Hw1 Hn1) as [mid1 [last1 [-> [Hm1 Hl1]]]].
  destruct (wf_snoc ls2 Hw2 Hn2) as [mid2 [last2 [-> [Hm2 Hl2]]]].
  rewrite compare_domain_name_general by auto.
  rewrite equal_ci_app_tail. fold (label_eq_ci last1 last2).
  unfold common_suffix_ci. rewrite !rev_app_distr. cbn [rev app common_prefix_ci].
  destruct (label_eq_ci last1 last2); reflexivity.
Qed.

(* ---- mixed forms: a final dot on one side only makes the count 0 ---- *)
Lemma lower_is_92 c : (lower c =? 92) = (c =? 92).
Proof. unfold lower. destruct ((65 <=? c) && (c <=? 90)) eqn:E; lia. Qed.
Lemma lower_is_46 c : lower c = 46 -> c = 46.
Proof. unfold lower. destruct ((65 <=? c) && (c <=? 90)) eqn:E; lia. Qed.

Lemma scan_lower st s : scan st (lower_bytes s) = scan st s.
Proof.
  revert st; induction s as [|c s IH]; intros st; cbn; [reflexivity|].
  unfold esc_step. rewrite lower_is_92. apply IH.
Qed.

Lemma equal_ci_dot_mismatch a b :
  wfb a -> b <> [] /\ wfb b -> equal_ci (show_label a ++ [46]) (show_label b) = false.
Proof.
  intros Ha [Hbne Hb]. destruct (equal_ci _ _) eqn:E; [exfalso|reflexivity].
  unfold equal_ci in E. apply bytes_eqb_eq in E.
  destruct (exists_last (show_label_nonempty b Hbne)) as [L [x HLx]].
  rewrite HLx in E. unfold lower_bytes in E. rewrite !map_app in E. cbn [map] in E.
  apply app_inj_tail in E. destruct E as [EL Ex]. symmetry in Ex. apply lower_is_46 in Ex. subst x.
  destruct (show_label_scan b Hb) as [_ Hsep]. rewrite HLx, has_sep_app in Hsep.
  apply orb_false_elim in Hsep. destruct Hsep as [_ Hsep]. cbn in Hsep.
  rewrite orb_false_r, andb_true_r in Hsep.
  destruct (show_label_scan a Ha) as [Hsa _].
  fold (lower_bytes (show_label a)) in EL. fold (lower_bytes L) in EL.
  rewrite <- (scan_lower false L), <- EL, scan_lower, Hsa in Hsep. discriminate.
Qed.

Lemma equal_ci_sym a b : equal_ci a b = equal_ci b a.
Proof. unfold equal_ci. apply eq_true_iff_eq. rewrite !bytes_eqb_eq. split; congruence. Qed.

Theorem compare_domain_name_mixed_forms fq ls1 ls2 :
  labels_wf ls1 -> ls1 <> [] -> labels_wf ls2 -> ls2 <> [] ->
  compare_domain_name (name_form fq ls1) (name_form (negb fq) ls2) = Ok O.
Proof.
  intros Hw1 Hn1 Hw2 Hn2.
  destruct (wf_snoc ls1 Hw1 Hn1) as [mid1 [last1 [-> [Hm1 Hl1]]]].
  destruct (wf_snoc ls2 Hw2 Hn2) as [mid2 [last2 [-> [Hm2 Hl2]]]].
  rewrite compare_domain_name_general by auto.
  destruct fq; cbn [negb form_tail]; rewrite app_nil_r.
  - rewrite equal_ci_dot_mismatch; [reflexivity|tauto|auto].
  - rewrite equal_ci_sym, equal_ci_dot_mismatch; [reflexivity|tauto|auto].
Qed.

Lemma compare_domain_name_mixed_refuted :
  let ls := [[110; 108]] in
  labels_wf ls /\ common_suffix_ci ls ls = 1%nat /\
  compare_domain_name (name_form false ls) (name_form true ls) = Ok O /\
  is_sub_domain (name_form true ls) (name_form false ls) = Ok false.
Proof.
  cbn zeta. split; [repeat constructor; discriminate|]. repeat split; reflexivity.
Qed.

(* ---- the root name on either side ---- *)
Lemma compare_domain_name_root_l s : compare_domain_name [46] s = Ok O.
Proof. reflexivity. Qed.
Lemma compare_domain_name_root_r s : compare_domain_name s [46] = Ok O.
Proof. unfold compare_domain_name. replace (is_root [46]) with true by reflexivity. now rewrite orb_true_r. Qed.
Lemma common_suffix_ci_nil_l b : common_suffix_ci [] b = O.
Proof. reflexivity. Qed.
Lemma common_suffix_ci_nil_r a : common_suffix_ci a [] = O.
Proof. unfold common_suffix_ci. destruct (rev a); reflexivity. Qed.

(* ---- the specification is the longest common suffix ---- *)
Definition labels_eq_ci : list label -> list label -> Prop :=
  Forall2 (fun x y => label_eq_ci x y = true).

Lemma label_eq_ci_refl x : label_eq_ci x x = true.
Proof. unfold label_eq_ci, equal_ci. now apply bytes_eqb_eq. Qed.
Lemma label_eq_ci_sym x y : label_eq_ci x y = label_eq_ci y x.
Proof. apply equal_ci_sym. Qed.
Lemma labels_eq_ci_refl a : labels_eq_ci a a.
Proof. induction a; constructor; auto using label_eq_ci_refl. Qed.
Lemma labels_eq_ci_sym a b : labels_eq_ci a b -> labels_eq_ci b a.
Proof. induction 1; constructor; auto. now rewrite label_eq_ci_sym. Qed.

Lemma Forall2_rev' {A B} (R : A -> B -> Prop) a b : Forall2 R a b -> Forall2 R (rev a) (rev b).
Proof. induction 1; cbn; [constructor|]. apply Forall2_app; auto. Qed.

Lemma cp_sound a : forall b, exists c1 r1 c2 r2,
  a = c1 ++ r1 /\ b = c2 ++ r2 /\ length c1 = common_prefix_ci a b /\ labels_eq_ci c1 c2.
Proof.
  induction a as [|x a IH]; intros b.
  - exists [], [], [], b. repeat split. constructor.
  - destruct b as [|y b].
    + exists [], (x :: a), [], []. repeat split. constructor.
    + cbn [common_prefix_ci]. destruct (label_eq_ci x y) eqn:E.
      * destruct (IH b) as [c1 [r1 [c2 [r2 [-> [-> [Hl Hf]]]]]]].
        exists (x :: c1), r1, (y :: c2), r2. repeat split; [cbn; now rewrite Hl|constructor; auto].
      * exists [], (x :: a), [], (y :: b). repeat split. constructor.
Qed.

Lemma cp_max c1 c2 : labels_eq_ci c1 c2 -> forall r1 r2,
  (length c1 <= common_prefix_ci (c1 ++ r1) (c2 ++ r2))%nat.
Proof.
  induction 1 as [|x y c1 c2 Hxy _ IH]; intros r1 r2; cbn [app length common_prefix_ci]; [lia|].
  rewrite Hxy. specialize (IH r1 r2). lia.
Qed.

Lemma cp_le a : forall b, (common_prefix_ci a b <= length a)%nat /\ (common_prefix_ci a b <= length b)%nat.
Proof.
  induction a as [|x a IH]; intros b; [cbn; lia|]. destruct b as [|y b]; [cbn; lia|].
  cbn [common_prefix_ci length]. destruct (label_eq_ci x y); [|lia]. specialize (IH b). lia.
Qed.

Theorem common_suffix_ci_sound ls1 ls2 : exists p1 c1 p2 c2,
  ls1 = p1 ++ c1 /\ ls2 = p2 ++ c2 /\ length c1 = common_suffix_ci ls1 ls2 /\ labels_eq_ci c1 c2.
Proof.
  unfold common_suffix_ci.
  destruct (cp_sound (rev ls1) (rev ls2)) as [c1 [r1 [c2 [r2 [E1 [E2 [Hl Hf]]]]]]].
  exists (rev r1), (rev c1), (rev r2), (rev c2). repeat split.
  - rewrite <- rev_app_distr, <- E1. now rewrite rev_involutive.
  - rewrite <- rev_app_distr, <- E2. now rewrite rev_involutive.
  - now rewrite rev_length.
  - now apply Forall2_rev'.
Qed.

Theorem common_suffix_ci_max ls1 ls2 p1 c1 p2 c2 :
  ls1 = p1 ++ c1 -> ls2 = p2 ++ c2 -> labels_eq_ci c1 c2 ->
  (length c1 <= common_suffix_ci ls1 ls2)%nat.
Proof.
  intros -> -> Hf. unfold common_suffix_ci. rewrite !rev_app_distr.
  pose proof (cp_max (rev c1) (rev c2) (Forall2_rev' _ _ _ Hf) (rev p1) (rev p2)) as H.
  now rewrite rev_length in H.
Qed.

Theorem common_suffix_ci_full parent child :
  common_suffix_ci parent child = length parent <->
  exists p c, child = p ++ c /\ labels_eq_ci parent c.
Proof.
  split.
  - intro H. destruct (common_suffix_ci_sound parent child) as [p1 [c1 [p2 [c2 [E1 [E2 [Hl Hf]]]]]]].
    assert (p1 = []).
    { apply length_zero_iff_nil. pose proof (f_equal (@length _) E1) as HL. rewrite app_length in HL. unfold label, bytes in *. lia. }
    subst p1. cbn in E1. subst c1. exists p2, c2. auto.
  - intros [p [c [-> Hf]]].
    pose proof (common_suffix_ci_max parent (p ++ c) [] parent p c eq_refl eq_refl Hf) as H1.
    pose proof (cp_le (rev parent) (rev (p ++ c))) as [H2 _]. rewrite rev_length in H2.
    unfold common_suffix_ci in *. lia.
Qed.

(* ---- printed-text comparison = wire-label comparison ---- *)
From Dns Require Import Spec.NameSpec Proofs.NameRoundtripProofs.

Lemma show_label_inj a b : wfb a -> wfb b -> show_label a = show_label b -> a = b.
Proof.
  intros Ha Hb E.
  pose proof (parse_go_show_label a [46] [] [] Ha) as Pa.
  pose proof (parse_go_show_label b [46] [] [] Hb) as Pb.
  rewrite E in Pa. rewrite Pa in Pb. cbn in Pb. congruence.
Qed.

Lemma wfb_lower l : wfb l -> wfb (lower_bytes l).
Proof.
  unfold wfb, lower_bytes. intro H. apply Forall_forall. intros y Hy.
  apply in_map_iff in Hy. destruct Hy as [x [<- Hx]].
  rewrite Forall_forall in H. specialize (H x Hx). unfold lower.
  destruct ((65 <=? x) && (x <=? 90)) eqn:E; lia.
Qed.

Theorem label_eq_ci_wire a b : wfb a -> wfb b -> label_eq_ci a b = equal_ci a b.
Proof.
  intros Ha Hb. unfold label_eq_ci, equal_ci. rewrite !lower_show_label by auto.
  apply eq_true_iff_eq. rewrite !bytes_eqb_eq. split.
  - apply show_label_inj; now apply wfb_lower.
  - intros ->. reflexivity.
Qed.

(* ---- IsSubDomain ---- *)
Theorem is_sub_domain_spec fq parent child :
  labels_wf parent -> parent <> [] -> labels_wf child -> child <> [] ->
  is_sub_domain (name_form fq parent) (name_form fq child) =
  Ok (Nat.eqb (common_suffix_ci parent child) (length parent)).
Proof.
  intros Hw1 Hn1 Hw2 Hn2. unfold is_sub_domain.
  rewrite compare_domain_name_spec by auto. cbn [bind].
  destruct (wf_snoc parent Hw1 Hn1) as [mid1 [last1 [-> [Hm1 Hl1]]]].
  now rewrite count_label_spec by auto.
Qed.

Lemma is_sub_domain_root_parent s : is_sub_domain [46] s = Ok true.
Proof. reflexivity. Qed.

Lemma is_sub_domain_root_child fq ls :
  labels_wf ls -> ls <> [] -> is_sub_domain (name_form fq ls) [46] = Ok false.
Proof.
  intros Hw Hn. unfold is_sub_domain. rewrite compare_domain_name_root_r. cbn [bind].
  destruct (wf_snoc ls Hw Hn) as [mid [last [-> [Hm Hl]]]].
  rewrite count_label_spec by auto. rewrite app_length. cbn [length].
  f_equal. destruct (Nat.eqb_spec 0 (length mid + 1)); [lia|reflexivity].
Qed.

(* ================= dnsutil AddOrigin / TrimDomainName ================= *)
Lemma cp_comm a : forall b, common_prefix_ci a b = common_prefix_ci b a.
Proof.
  induction a as [|x a IH]; intros [|y b]; cbn [common_prefix_ci]; try reflexivity.
  rewrite label_eq_ci_sym, IH. reflexivity.
Qed.
Lemma common_suffix_ci_comm a b : common_suffix_ci a b = common_suffix_ci b a.
Proof. apply cp_comm. Qed.

Lemma hd_app_nonempty (d : N) (a r : bytes) : a <> [] -> hd d (a ++ r) = hd d a.
Proof. destruct a; [congruence|reflexivity]. Qed.

Lemma show_label_cons b l : show_label (b :: l) = show_octet b ++ show_label l.
Proof. reflexivity. Qed.

(* the first octet of a printed name is the first octet of a printed octet *)
Lemma name_form_hd fq mid last (P : N -> bool) :
  labels_wf mid -> last <> [] /\ wfb last ->
  (forall b, b < 256 -> P (hd 0 (show_octet b)) = true) ->
  P (hd 0 (name_form fq (mid ++ [last]))) = true.
Proof.
  intros Hmid Hlast HP.
  destruct (name_form_shape fq mid last Hmid Hlast) as [-> _].
  assert (Hlab : forall f R, f <> [] /\ wfb f -> P (hd 0 (show_label f ++ R)) = true).
  { intros f R [Hne Hw]. destruct f as [|b f]; [congruence|]. inversion Hw; subst.
    rewrite show_label_cons, <- app_assoc, hd_app_nonempty by apply show_octet_nonempty. auto. }
  destruct mid as [|m mid].
  - cbn [show_labels flat_map app]. now apply Hlab.
  - inversion Hmid; subst. rewrite show_labels_cons, <- app_assoc. now apply Hlab.
Qed.

Lemma name_form_not_at fq mid last :
  labels_wf mid -> last <> [] /\ wfb last -> bytes_eqb (name_form fq (mid ++ [last])) [64] = false.
Proof.
  intros Hmid Hlast.
  pose proof (name_form_hd fq mid last (fun c => negb (c =? 64)) Hmid Hlast) as H.
  destruct (bytes_eqb _ _) eqn:E; [|reflexivity]. apply bytes_eqb_eq in E. rewrite E in H.
  cbn in H. enough (false = true) by discriminate. apply H. apply octet_sweep. vm_compute. reflexivity.
Qed.

Lemma name_form_first_not_dot fq mid last :
  labels_wf mid -> last <> [] /\ wfb last -> (nth 0 (name_form fq (mid ++ [last])) 0 =? 46) = false.
Proof.
  intros Hmid Hlast.
  pose proof (name_form_hd fq mid last (fun c => negb (c =? 46)) Hmid Hlast) as H.
  replace (nth 0 (name_form fq (mid ++ [last])) 0) with (hd 0 (name_form fq (mid ++ [last])))
    by (destruct (name_form fq (mid ++ [last])); reflexivity).
  cbn beta in H. assert (H0 : negb (hd 0 (name_form fq (mid ++ [last])) =? 46) = true) by (apply H; apply octet_sweep; vm_compute; reflexivity). now destruct (hd 0 _ =? 46).
Qed.

Lemma name_form_concat fq ls os :
  labels_wf ls -> ls <> [] -> labels_wf os -> os <> [] ->
  name_form false ls ++ [46] ++ name_form fq os = name_form fq (ls ++ os).
Proof.
  intros Hw1 Hn1 Hw2 Hn2.
  destruct (wf_snoc ls Hw1 Hn1) as [mid [last [-> [Hm Hl]]]].
  destruct (wf_snoc os Hw2 Hn2) as [omid [olast [-> [Hom Hol]]]].
  replace ((mid ++ [last]) ++ omid ++ [olast]) with (((mid ++ [last]) ++ omid) ++ [olast])
    by (rewrite <- !app_assoc; reflexivity).
  assert (Hw : labels_wf ((mid ++ [last]) ++ omid)) by (apply labels_wf_app; auto).
  destruct (name_form_shape false mid last Hm Hl) as [E1 _].
  destruct (name_form_shape fq omid olast Hom Hol) as [E2 _].
  destruct (name_form_shape fq ((mid ++ [last]) ++ omid) olast Hw Hol) as [E3 _].
  unfold label, bytes in *. rewrite E1, E2, E3.
  rewrite !show_labels_app, show_labels_cons. cbn [form_tail show_labels flat_map].
  rewrite <- !app_assoc. reflexivity.
Qed.

(* AddOrigin on a relative name and a non-root origin: the concatenated labels *)
Theorem add_origin_spec fq ls os :
  labels_wf ls -> ls <> [] -> labels_wf os -> os <> [] ->
  add_origin (name_form false ls) (name_form fq os) = name_form fq (ls ++ os).
Proof.
  intros Hw1 Hn1 Hw2 Hn2. rewrite <- name_form_concat by auto.
  destruct (wf_snoc ls Hw1 Hn1) as [mid [last [-> [Hm Hl]]]].
  destruct (wf_snoc os Hw2 Hn2) as [omid [olast [-> [Hom Hol]]]].
  unfold add_origin. rewrite is_fqdn_name_form_false by auto.
  rewrite match_nonnil by (now apply name_form_nonempty).
  rewrite name_form_not_at by auto.
  assert (E : bytes_eqb (name_form false (mid ++ [last])) [] = false).
  { destruct (bytes_eqb _ _) eqn:E; [|reflexivity]. apply bytes_eqb_eq in E.
    now apply name_form_nonempty in E. }
  rewrite E, name_form_not_root by auto. reflexivity.
Qed.

Lemma add_origin_root ls :
  labels_wf ls -> ls <> [] -> add_origin (name_form false ls) [46] = name_form true ls.
Proof.
  intros Hw Hn. destruct (wf_snoc ls Hw Hn) as [mid [last [-> [Hm Hl]]]].
  unfold add_origin. rewrite is_fqdn_name_form_false by auto.
  rewrite name_form_not_at by auto.
  assert (E : bytes_eqb (name_form false (mid ++ [last])) [] = false).
  { destruct (bytes_eqb _ _) eqn:E; [|reflexivity]. apply bytes_eqb_eq in E.
    now apply name_form_nonempty in E. }
  rewrite E. cbn [orb]. replace (is_root [46]) with true by reflexivity.
  now rewrite fqdn_spec.
Qed.

Lemma add_origin_fqdn ls o :
  labels_wf ls -> ls <> [] -> add_origin (name_form true ls) o = name_form true ls.
Proof.
  intros Hw Hn. destruct (wf_snoc ls Hw Hn) as [mid [last [-> [Hm Hl]]]].
  unfold add_origin, name_form. now rewrite is_fqdn_show_labels.
Qed.

Lemma add_origin_at fq os :
  labels_wf os -> os <> [] -> add_origin [64] (name_form fq os) = name_form fq os.
Proof.
  intros Hw Hn. destruct (wf_snoc os Hw Hn) as [mid [last [-> [Hm Hl]]]].
  unfold add_origin. replace (is_fqdn [64]) with false by reflexivity.
  rewrite match_nonnil by (now apply name_form_nonempty). reflexivity.
Qed.

Lemma firstn_removelast (a b : bytes) : a <> [] -> firstn (length a - 1) (a ++ b) = removelast a.
Proof.
  intro Hne. destruct (exists_last Hne) as [a' [z ->]].
  rewrite removelast_snoc, app_length. cbn [length].
  replace (length a' + 1 - 1)%nat with (length a') by lia.
  rewrite <- app_assoc. apply firstn_app_exact.
Qed.

Lemma Forall2_length' {A B} (R : A -> B -> Prop) a b : Forall2 R a b -> length a = length b.
Proof. induction 1; cbn; congruence. Qed.

(* TrimDomainName when s ends with the labels of the origin (in any letter case):
   the labels before them, without a final dot; the apex gives the at sign *)
Theorem trim_domain_name_spec fqs fqo ls os os' :
  labels_wf ls -> labels_wf os -> os <> [] -> labels_wf os' -> labels_eq_ci os os' ->
  trim_domain_name (name_form fqs (ls ++ os')) (name_form fqo os) =
  Ok (match ls with [] => [64] | _ => name_form false ls end).
Proof.
  intros Hls Hos Hne Hos' Heq.
  assert (Hlen : length os' = length os) by (symmetry; exact (Forall2_length' _ _ _ Heq)).
  assert (Hne' : os' <> []) by (destruct os'; [destruct os; [congruence|discriminate]|discriminate]).
  assert (Hws : labels_wf (ls ++ os')) by (apply labels_wf_app; auto).
  assert (Hns : ls ++ os' <> []) by (destruct ls; [exact Hne'|discriminate]).
  assert (Hcs1 : common_suffix_ci os (ls ++ os') = length os).
  { apply common_suffix_ci_full. exists ls, os'. auto. }
  assert (Hcs2 : common_suffix_ci (ls ++ os') os = length os)
    by (rewrite common_suffix_ci_comm; exact Hcs1).
  unfold trim_domain_name.
  destruct (wf_snoc _ Hws Hns) as [smid [slast [Es [Hsm Hsl]]]].
  destruct (wf_snoc _ Hos Hne) as [omid [olast [Eo [Hom Hol]]]].
  rewrite Es, Eo.
  rewrite match_nonnil by (now apply name_form_nonempty).
  rewrite name_form_not_root by auto.
  rewrite !fqdn_spec by auto.
  change (show_labels (smid ++ [slast])) with (name_form true (smid ++ [slast])).
  change (show_labels (omid ++ [olast])) with (name_form true (omid ++ [olast])).
  rewrite name_form_first_not_dot by auto.
  rewrite !split_spec by auto. unfold label, bytes in *. rewrite <- Es, <- Eo.
  rewrite is_sub_domain_spec by auto. rewrite Hcs1, Nat.eqb_refl. cbn [bind negb].
  rewrite compare_domain_name_spec by auto. rewrite Hcs2. cbn [bind].
  rewrite !label_starts_length, Nat.eqb_refl. cbn [andb].
  unfold label, bytes in *.
  destruct ls as [|l0 ls'].
  - rewrite !app_nil_l. rewrite Hlen, Nat.eqb_refl. reflexivity.
  - assert (F : Nat.eqb (length os) (length ((l0 :: ls') ++ os')) = false).
    { apply Nat.eqb_neq. rewrite app_length. cbn [length]. lia. }
    rewrite F. cbn [orb andb].
    assert (K : (length ((l0 :: ls') ++ os') - length os)%nat = length (l0 :: ls'))
      by (rewrite app_length; lia).
    rewrite K.
    assert (T1 : Nat.ltb (length (l0 :: ls')) (length ((l0 :: ls') ++ os')) = true).
    { apply Nat.ltb_lt. rewrite app_length. destruct os'; [congruence|cbn [length]; lia]. }
    assert (T2 : Nat.leb (length os) (length ((l0 :: ls') ++ os')) = true).
    { apply Nat.leb_le. rewrite app_length. lia. }
    rewrite T1, T2. cbn [andb].
    destruct os' as [|x C]; [congruence|].
    rewrite nth_label_starts. cbn [Nat.add].
    pose proof (show_labels_nonempty l0 ls') as Hsn.
    destruct (length (show_labels (l0 :: ls'))) as [|e'] eqn:El.
    { apply length_zero_iff_nil in El. exfalso. exact (Hsn El). }
    unfold name_form at 1. rewrite show_labels_app. unfold gslice.
    assert (T3 : Nat.leb 0 e' && Nat.leb e' (length (show_labels (l0 :: ls') ++ show_labels (x :: C))) = true).
    { apply andb_true_intro. split; apply Nat.leb_le; [lia|]. rewrite app_length. lia. }
    rewrite T3. cbn [skipn]. rewrite Nat.sub_0_r.
    replace e' with (length (show_labels (l0 :: ls')) - 1)%nat by lia.
    rewrite firstn_removelast by exact Hsn. reflexivity.
Qed.

(* TrimDomainName leaves a name that is not under the origin untouched *)
Theorem trim_domain_name_not_sub fqs fqo ss os :
  labels_wf ss -> ss <> [] -> labels_wf os -> os <> [] ->
  common_suffix_ci os ss <> length os ->
  trim_domain_name (name_form fqs ss) (name_form fqo os) = Ok (name_form fqs ss).
Proof.
  intros Hws Hns Hwo Hno Hcs.
  destruct (wf_snoc _ Hws Hns) as [smid [slast [Es [Hsm Hsl]]]].
  destruct (wf_snoc _ Hwo Hno) as [omid [olast [Eo [Hom Hol]]]].
  unfold trim_domain_name. rewrite Es, Eo.
  rewrite match_nonnil by (now apply name_form_nonempty).
  rewrite name_form_not_root by auto.
  rewrite !fqdn_spec by auto.
  change (show_labels (smid ++ [slast])) with (name_form true (smid ++ [slast])).
  change (show_labels (omid ++ [olast])) with (name_form true (omid ++ [olast])).
  rewrite is_sub_domain_spec by (auto using wf_of_snoc; destruct smid, omid; discriminate).
  rewrite <- Es, <- Eo. apply Nat.eqb_neq in Hcs. rewrite Hcs. reflexivity.
Qed.

(* origin ".": a plain strings.TrimSuffix *)
Lemma trim_domain_name_root ls :
  labels_wf ls -> ls <> [] -> trim_domain_name (name_form true ls) [46] = Ok (name_form false ls).
Proof.
  intros Hw Hn. destruct (wf_snoc ls Hw Hn) as [mid [last [-> [Hm Hl]]]].
  unfold trim_domain_name. rewrite match_nonnil by (now apply name_form_nonempty).
  replace (is_root [46]) with true by reflexivity. f_equal.
  unfold name_form. rewrite show_labels_snoc_form, app_assoc, removelast_snoc.
  set (X := show_labels mid ++ show_label last).
  unfold trim_suffix. rewrite app_length. cbn [length].
  replace (length X + 1 - 1)%nat with (length X) by lia.
  assert (T : Nat.leb 1 (length X + 1) = true) by (apply Nat.leb_le; lia).
  rewrite T, skipn_app_exact, firstn_app_exact. reflexivity.
Qed.

(* ---- AddOrigin then TrimDomainName ---- *)
Theorem trim_add_origin fq ls os :
  labels_wf ls -> ls <> [] -> labels_wf os -> os <> [] ->
  trim_domain_name (add_origin (name_form false ls) (name_form fq os)) (name_form fq os) =
  Ok (name_form false ls).
Proof.
  intros Hw1 Hn1 Hw2 Hn2. rewrite add_origin_spec by auto.
  rewrite (trim_domain_name_spec fq fq ls os os) by auto using labels_eq_ci_refl.
  destruct ls; [congruence|reflexivity].
Qed.

Theorem trim_add_origin_root ls :
  labels_wf ls -> ls <> [] ->
  trim_domain_name (add_origin (name_form false ls) [46]) [46] = Ok (name_form false ls).
Proof. intros Hw Hn. rewrite add_origin_root by auto. now apply trim_domain_name_root. Qed.

Theorem trim_add_origin_at fq os :
  labels_wf os -> os <> [] ->
  trim_domain_name (add_origin [64] (name_form fq os)) (name_form fq os) = Ok [64].
Proof.
  intros Hw Hn. rewrite add_origin_at by auto.
  exact (trim_domain_name_spec fq fq [] os os (Forall_nil _) Hw Hn Hw (labels_eq_ci_refl os)).
Qed.

(* the at sign under the root origin: TrimDomainName returns the empty string,
   which its documentation says it never does *)
Lemma trim_add_origin_at_root_refuted :
  add_origin [64] [46] = [46] /\ trim_domain_name [46] [46] = Ok [] /\
  trim_domain_name (add_origin [64] [46]) [46] <> Ok [64].
Proof. repeat split; try reflexivity. discriminate. Qed.

(* ---- TrimDomainName then AddOrigin ---- *)
Lemma labels_eq_ci_lower os os' :
  labels_wf os -> labels_wf os' -> labels_eq_ci os os' -> map lower_bytes os = map lower_bytes os'.
Proof.
  intros H1 H2 H. revert H1 H2. induction H as [|x y a b Hxy _ IH]; intros H1 H2; [reflexivity|].
  inversion H1 as [|? ? [_ Hx] H1']; inversion H2 as [|? ? [_ Hy] H2']; subst. cbn [map].
  rewrite IH by auto. f_equal.
  rewrite label_eq_ci_wire in Hxy by auto. now apply bytes_eqb_eq in Hxy.
Qed.

Theorem add_origin_trim fq ls os os' :
  labels_wf ls -> ls <> [] -> labels_wf os -> os <> [] -> labels_wf os' -> labels_eq_ci os os' ->
  trim_domain_name (name_form fq (ls ++ os')) (name_form fq os) = Ok (name_form false ls) /\
  add_origin (name_form false ls) (name_form fq os) = name_form fq (ls ++ os) /\
  canonical_name (name_form fq (ls ++ os)) = canonical_name (name_form fq (ls ++ os')).
Proof.
  intros Hw1 Hn1 Hw2 Hn2 Hw3 Heq. split; [|split].
  - rewrite (trim_domain_name_spec fq fq ls os os') by auto. destruct ls; [congruence|reflexivity].
  - now apply add_origin_spec.
  - assert (Hn3 : os' <> []) by (destruct os'; [destruct os; [congruence|inversion Heq]|discriminate]).
    assert (A1 : labels_wf (ls ++ os)) by (apply labels_wf_app; auto).
    assert (A2 : labels_wf (ls ++ os')) by (apply labels_wf_app; auto).
    destruct (wf_snoc (ls ++ os) A1) as [m1 [l1 [E1 [M1 L1]]]]; [destruct ls; [congruence|discriminate]|].
    destruct (wf_snoc (ls ++ os') A2) as [m2 [l2 [E2 [M2 L2]]]]; [destruct ls; [congruence|discriminate]|].
    unfold label, bytes in *. rewrite E1, E2, !canonical_name_spec by auto. unfold label, bytes in *. rewrite <- E1, <- E2, !map_app.
    f_equal. f_equal. now apply labels_eq_ci_lower.
Qed.

Theorem add_origin_trim_apex fq os os' :
  labels_wf os -> os <> [] -> labels_wf os' -> labels_eq_ci os os' ->
  trim_domain_name (name_form fq os') (name_form fq os) = Ok [64] /\
  add_origin [64] (name_form fq os) = name_form fq os.
Proof.
  intros Hw Hn Hw' Heq. split.
  - exact (trim_domain_name_spec fq fq [] os os' (Forall_nil _) Hw Hn Hw' Heq).
  - now apply add_origin_at.
Qed.

Theorem add_origin_trim_not_sub fqo ss os :
  labels_wf ss -> ss <> [] -> labels_wf os -> os <> [] ->
  common_suffix_ci os ss <> length os ->
  trim_domain_name (name_form true ss) (name_form fqo os) = Ok (name_form true ss) /\
  add_origin (name_form true ss) (name_form fqo os) = name_form true ss.
Proof.
  intros. split; [now apply trim_domain_name_not_sub|now apply add_origin_fqdn].
Qed.

Theorem add_origin_trim_root ls :
  labels_wf ls -> ls <> [] ->
  trim_domain_name (name_form true ls) [46] = Ok (name_form false ls) /\
  add_origin (name_form false ls) [46] = name_form true ls.
Proof. intros. split; [now apply trim_domain_name_root|now apply add_origin_root]. Qed.

(* the letter case of the origin part of s is not restored: a.B. under b. *)
Lemma add_origin_trim_case_refuted :
  let s := name_form true [[97]; [66]] in let o := name_form true [[98]] in
  is_sub_domain o s = Ok true /\ trim_domain_name s o = Ok [97] /\
  add_origin [97] o = name_form true [[97]; [98]] /\ add_origin [97] o <> s.
Proof. cbn zeta. repeat split; try reflexivity. discriminate. Qed.

(* origin "." on a relative name whose last octet is an escaped dot: the textual
   TrimSuffix cuts the dot and leaves a dangling backslash *)
Lemma trim_domain_name_root_escaped_dot_refuted :
  let s := name_form false [[97; 46]] in
  labels_wf [[97; 46]] /\ s = [97; 92; 46] /\ is_fqdn s = false /\
  trim_domain_name s [46] = Ok [97; 92].
Proof. cbn zeta. split; [repeat constructor; discriminate|]. repeat split; reflexivity. Qed.

(* the empty string is expanded like the at sign but comes back as the at sign *)
Lemma trim_add_origin_empty_refuted :
  let o := name_form true [[97]] in
  add_origin [] o = o /\ trim_domain_name (add_origin [] o) o = Ok [64].
Proof. cbn zeta. split; reflexivity. Qed.

(* ---- the root name and the empty string ---- *)
Lemma prev_label_root n :
  prev_label [46] n = match n with O => (1%nat, false) | _ => (O, Nat.ltb 1 n) end.
Proof. destruct n as [|[|n]]; reflexivity. Qed.
Lemma prev_label_empty n : prev_label [] n = (O, true).
Proof. reflexivity. Qed.

(* IsSubDomain as a suffix test on label lists *)
Theorem is_sub_domain_iff fq parent child :
  labels_wf parent -> parent <> [] -> labels_wf child -> child <> [] ->
  exists b, is_sub_domain (name_form fq parent) (name_form fq child) = Ok b /\
            (b = true <-> exists p c, child = p ++ c /\ labels_eq_ci parent c).
Proof.
  intros Hw1 Hn1 Hw2 Hn2. eexists. split; [now apply is_sub_domain_spec|].
  rewrite Nat.eqb_eq. apply common_suffix_ci_full.
Qed.

Theorem common_suffix_ci_longest ls1 ls2 :
  (exists p1 c1 p2 c2, ls1 = p1 ++ c1 /\ ls2 = p2 ++ c2 /\
                       length c1 = common_suffix_ci ls1 ls2 /\ labels_eq_ci c1 c2) /\
  (forall p1 c1 p2 c2, ls1 = p1 ++ c1 -> ls2 = p2 ++ c2 -> labels_eq_ci c1 c2 ->
                       (length c1 <= common_suffix_ci ls1 ls2)%nat).
Proof.
  split; [apply common_suffix_ci_sound|]. intros. eapply common_suffix_ci_max; eauto.
Qed.

Ltac labels_wf_tac :=
  unfold labels_wf, wfb;
  repeat first [ apply Forall_cons | apply Forall_nil | split | discriminate | reflexivity ].
