from .core import Check


class C16(Check):
    prop = "C16"
    props_rel = "Props/C16"
    corr_module = "Corr.C16"
    corr_rel = "Corr/C16"
    shard_size = 60
    gen_rels = ["Gen/Copies", "Gen/Structs"]
    extra_rels = ["Proofs/CopyTableProofs"]
    model_desc = ("Model/Heap.v: trees of mutable memory, copy procedures and shapes computed from the copy() bodies and "
                  "struct definitions that tools/gotrans regenerates from ztypes.go, edns.go, svcb.go, types.go each run")
    rule = ("every registered record type (reflection-driven values with non-empty slices), every EDNS0 option type and SVCB "
            "parameter type, random messages; direct oracles: address ranges of all backing arrays and pointed-to structs of "
            "x and Copy(x) are disjoint (reflect+unsafe walk), writes to every slice element of one are not visible through "
            "the other, an unpacked message shares no address range with the input buffer and survives overwriting it, "
            "Len/String/Pack/PackBuffer/Copy/IsDuplicate/Sign/Verify leave their arguments unchanged up to RDLENGTH and "
            "extended-RCODE bookkeeping - also when the operation FAILS (records of every type made unpackable in every way "
            "their fields offer, alone, in every section / position of a message, first / middle / last of an RRset signed or "
            "verified under non-canonical headers; oracle: reflection fingerprint before = after) and WHILE Sign / Verify run "
            "(private-use RDATA called back from inside the operation fingerprints the caller's RRset); model cases: per type, the fields copy() leaves shared (from the tables) = the fields "
            "observed shared. Non-trivial: every case names a distinct type.")
    trusted = ["hex/base64/base32 text codecs of Go's encoding/* are outside the model (fields held as the octets they denote)",
               "EDNS0 option and SVCB parameter values are (code, packed value, reported length) triples at this level"]

    def nontrivial(self, c):
        return True


CHECK = C16()
