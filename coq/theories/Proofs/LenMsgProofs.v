(* Proofs/LenMsgProofs.v — Msg.Len against Msg.Pack / PackBuffer: the
   uncompressed length bounds what Pack writes under ANY compression setting,
   hence the buffer Pack allocates from it always has room and the result of
   PackBuffer does not depend on the caller's buffer; exactness for plain
   messages. *)
From Dns Require Import Gen.Layouts Gen.Lens Gen.Registry Gen.Structs Gen.Consts.
From Dns Require Import Base.ListX Model.Msg Proofs.EscapeProofs Proofs.NameWireProofs Proofs.LenNameProofs
  Proofs.LenFieldProofs Proofs.LenRRProofs.
From Coq Require Import Lia ZifyN ZifyNat ZifyBool.
Open Scope list_scope.
Open Scope N_scope.

(* ================================================================== *)
(* 1. Msg.Len without a compression map as a sum                        *)
(* ================================================================== *)
Definition q_est (q : question) : N := name_est (q_name q) + 4.
Fixpoint qs_est (l : list question) : N := match l with [] => 0 | q :: r => q_est q + qs_est r end.
Fixpoint rrs_est (l : list rr) : N := match l with [] => 0 | x :: r => rr_est x + rrs_est r end.

Lemma len_question_none q off : len_question q off None = (q_est q, None).
Proof. unfold len_question, q_est. now rewrite domain_name_len_none. Qed.

Lemma fold_q_none l : forall a,
  fold_left (fun (a : N * option lset) q => let '(n, c') := len_question q (fst a) (snd a) in (fst a + n, c'))
            l (a, None) = (a + qs_est l, None).
Proof.
  induction l as [|q r IH]; intro a; cbn [fold_left qs_est fst snd]; [f_equal; lia|].
  rewrite len_question_none, IH. f_equal. lia.
Qed.
Lemma fold_rr_none l : forall a,
  fold_left (fun (a : N * option lset) r => let '(n, c') := len_rr r (fst a) (snd a) in (fst a + n, c'))
            l (a, None) = (a + rrs_est l, None).
Proof.
  induction l as [|x r IH]; intro a; cbn [fold_left rrs_est fst snd]; [f_equal; lia|].
  rewrite len_rr_none, IH. f_equal. lia.
Qed.

Definition msg_est (m : msg) : N :=
  12 + qs_est (m_question m) + rrs_est (m_answer m) + rrs_est (m_ns m) + rrs_est (m_extra m).
Lemma msg_len_with_none m : msg_len_with m None = msg_est m.
Proof.
  unfold msg_len_with, msg_est. rewrite fold_q_none, !fold_rr_none. cbn [fst]. reflexivity.
Qed.

(* ================================================================== *)
(* 2. the sections                                                      *)
(* ================================================================== *)
Lemma room_question q cp st B : poff st + q_est q <= B -> room (fun cap => pack_question q cap cp) st B.
Proof.
  unfold q_est. intro H.
  apply (room_bind' (fun cap => pack_name (q_name q) cap cp) _ st (poff st + name_est (q_name q)) B);
    [apply room_name; lia|lia|]. intros st1 H1.
  apply (room_bind' (pack_fixed (u16 (q_type q))) _ st1 (poff st + name_est (q_name q) + 2) B);
    [apply room_fixed; rewrite lenN_u16; lia|lia|]. intros st2 H2.
  apply room_fixed. rewrite lenN_u16. lia.
Qed.

Lemma room_questions l cp : forall st B, poff st + qs_est l <= B -> room (fun cap => pack_questions l cap cp) st B.
Proof.
  induction l as [|q r IH]; intros st B H; cbn [qs_est] in H.
  - apply room_ret. lia.
  - apply (room_bind' (fun cap => pack_question q cap cp) (fun cap => pack_questions r cap cp) st (poff st + q_est q) B).
    + apply room_question. lia.
    + lia.
    + intros st' Hs. apply IH. lia.
Qed.

Lemma room_rrs l cp : forall st B, forallb rr_okb l = true -> poff st + rrs_est l <= B ->
  room (fun cap => pack_rrs l cap cp) st B.
Proof.
  induction l as [|x r IH]; intros st B Hok H; cbn [rrs_est] in H.
  - apply room_ret. lia.
  - cbn [forallb] in Hok. apply andb_prop in Hok. destruct Hok as [Hx Hr].
    apply (room_bind' (fun cap => pack_rr x cap cp) (fun cap => pack_rrs r cap cp) st (poff st + rr_est x) B).
    + apply room_rr; [exact Hx|lia].
    + lia.
    + intros st' Hs. apply IH; [exact Hr|lia].
Qed.

(* header and the four sections, as PackBuffer runs them *)
Definition pack_sections (qs : list question) (an ns ex : list rr) (compress : bool) (hdr : bytes)
           (cap : N) (st0 : pn_state) : res pn_state :=
  do st <- pack_fixed hdr cap st0;
  do st <- pack_questions qs cap compress st;
  do st <- pack_rrs an cap compress st;
  do st <- pack_rrs ns cap compress st;
  pack_rrs ex cap compress st.

Lemma room_sections qs an ns ex cp hdr st0 B :
  forallb rr_okb an = true -> forallb rr_okb ns = true -> forallb rr_okb ex = true ->
  poff st0 + lenN hdr + qs_est qs + rrs_est an + rrs_est ns + rrs_est ex <= B ->
  room (pack_sections qs an ns ex cp hdr) st0 B.
Proof.
  intros Ha Hn He H. unfold pack_sections.
  apply (room_bind' (pack_fixed hdr) _ st0 (poff st0 + lenN hdr) B); [apply room_fixed; lia|lia|].
  intros st1 H1.
  apply (room_bind' (fun cap => pack_questions qs cap cp) _ st1 (poff st0 + lenN hdr + qs_est qs) B);
    [apply room_questions; lia|lia|]. intros st2 H2.
  apply (room_bind' (fun cap => pack_rrs an cap cp) _ st2 (poff st0 + lenN hdr + qs_est qs + rrs_est an) B);
    [apply room_rrs; [exact Ha|lia]|lia|]. intros st3 H3.
  apply (room_bind' (fun cap => pack_rrs ns cap cp) _ st3 (poff st0 + lenN hdr + qs_est qs + rrs_est an + rrs_est ns) B);
    [apply room_rrs; [exact Hn|lia]|lia|]. intros st4 H4.
  apply room_rrs; [exact He|lia].
Qed.

(* ================================================================== *)
(* 3. PackBuffer                                                        *)
(* ================================================================== *)
Definition msg_okb (m : msg) : bool :=
  forallb rr_okb (m_answer m) && forallb rr_okb (m_ns m) && forallb rr_okb (m_extra m).

(* the extended-RCODE patch of the OPT record touches the TTL only *)
Lemma rr_est_ext r c : rr_est (set_ext_rcode r c) = rr_est r.
Proof. reflexivity. Qed.
Lemma rr_okb_ext r c : rr_okb (set_ext_rcode r c) = rr_okb r.
Proof. reflexivity. Qed.
Lemma rrs_est_update l f : (forall x, rr_est (f x) = rr_est x) -> forall i, rrs_est (update_nth l i f) = rrs_est l.
Proof.
  intro Hf. induction l as [|x r IH]; intro i; [destruct i; reflexivity|].
  destruct i; cbn [update_nth rrs_est]; [now rewrite Hf|now rewrite IH].
Qed.
Lemma okb_update l f : (forall x, rr_okb (f x) = rr_okb x) -> forall i,
  forallb rr_okb (update_nth l i f) = forallb rr_okb l.
Proof.
  intro Hf. induction l as [|x r IH]; intro i; [destruct i; reflexivity|].
  destruct i; cbn [update_nth forallb]; [now rewrite Hf|now rewrite IH].
Qed.
Lemma length_update {A} (l : list A) f : forall i, length (update_nth l i f) = length l.
Proof. induction l as [|x r IH]; intro i; destruct i; cbn [update_nth length]; auto. Qed.

Definition msg_extra (m : msg) : list rr :=
  match last_opt_index (m_extra m) O None with
  | Some i => update_nth (m_extra m) i (fun r => set_ext_rcode r (m_rcode m))
  | None => m_extra m
  end.
Definition msg_hdr (m : msg) : bytes :=
  u16 (m_id m) ++ u16 (hdr_word m) ++ u16 (lenN (m_question m)) ++ u16 (lenN (m_answer m))
      ++ u16 (lenN (m_ns m)) ++ u16 (lenN (msg_extra m)).
Definition msg_cap (m : msg) (buflen : N) : N :=
  if buflen <? msg_len_with m None + 1 then msg_len_with m None + 1 else buflen.
Definition msg_compress (m : msg) : bool := m_compress m && is_compressible m.
Definition msg_st0 (m : msg) : pn_state := {| pn_out := []; pn_cm := if msg_compress m then Some [] else None |}.

Lemma pack_msg_buf_sections m buflen :
  pack_msg_buf m buflen =
  if 4095 <? m_rcode m then Err "rcode"%string
  else match last_opt_index (m_extra m) O None, (15 <? m_rcode m) with
       | None, true => Err "extrcode"%string
       | _, _ =>
         do st <- pack_sections (m_question m) (m_answer m) (m_ns m) (msg_extra m) (msg_compress m) (msg_hdr m)
                                (msg_cap m buflen) (msg_st0 m);
         Ok (pn_out st, negb (buflen <? msg_len_with m None + 1))
       end.
Proof.
  unfold pack_msg_buf. destruct (4095 <? m_rcode m); [reflexivity|].
  assert (K : forall ex,
    (do st <- pack_fixed (u16 (m_id m) ++ u16 (hdr_word m) ++ u16 (lenN (m_question m)) ++ u16 (lenN (m_answer m))
                              ++ u16 (lenN (m_ns m)) ++ u16 (lenN ex)) (msg_cap m buflen) (msg_st0 m);
     do st <- pack_questions (m_question m) (msg_cap m buflen) (msg_compress m) st;
     do st <- pack_rrs (m_answer m) (msg_cap m buflen) (msg_compress m) st;
     do st <- pack_rrs (m_ns m) (msg_cap m buflen) (msg_compress m) st;
     do st <- pack_rrs ex (msg_cap m buflen) (msg_compress m) st;
     Ok (pn_out st, negb (buflen <? msg_len_with m None + 1))) =
    (do st <- pack_sections (m_question m) (m_answer m) (m_ns m) ex (msg_compress m)
                (u16 (m_id m) ++ u16 (hdr_word m) ++ u16 (lenN (m_question m)) ++ u16 (lenN (m_answer m))
                              ++ u16 (lenN (m_ns m)) ++ u16 (lenN ex)) (msg_cap m buflen) (msg_st0 m);
     Ok (pn_out st, negb (buflen <? msg_len_with m None + 1)))).
  { intro ex. unfold pack_sections.
    destruct (pack_fixed _ _ _) as [s1| | |]; try reflexivity. cbn [bind].
    destruct (pack_questions _ _ _ s1) as [s2| | |]; try reflexivity. cbn [bind].
    destruct (pack_rrs (m_answer m) _ _ s2) as [s3| | |]; try reflexivity. cbn [bind].
    destruct (pack_rrs (m_ns m) _ _ s3) as [s4| | |]; try reflexivity. }
  unfold msg_hdr, msg_extra.
  destruct (last_opt_index (m_extra m) O None) as [i|]; [|destruct (15 <? m_rcode m); [reflexivity|]]; apply K.
Qed.

Lemma lenN_msg_hdr m : lenN (msg_hdr m) = 12.
Proof. reflexivity. Qed.

Lemma msg_extra_est m : rrs_est (msg_extra m) = rrs_est (m_extra m).
Proof. unfold msg_extra. destruct (last_opt_index _ _ _); [|reflexivity]. apply rrs_est_update. intro; apply rr_est_ext. Qed.
Lemma msg_extra_okb m : forallb rr_okb (msg_extra m) = forallb rr_okb (m_extra m).
Proof. unfold msg_extra. destruct (last_opt_index _ _ _); [|reflexivity]. apply okb_update. intro; apply rr_okb_ext. Qed.

Lemma msg_room m : msg_okb m = true ->
  room (pack_sections (m_question m) (m_answer m) (m_ns m) (msg_extra m) (msg_compress m) (msg_hdr m))
       (msg_st0 m) (msg_len_with m None).
Proof.
  unfold msg_okb. intro H. apply andb_prop in H. destruct H as [H He]. apply andb_prop in H. destruct H as [Ha Hn].
  apply room_sections; try assumption.
  - now rewrite msg_extra_okb.
  - rewrite msg_len_with_none, msg_extra_est, lenN_msg_hdr. unfold msg_est. cbn. lia.
Qed.

Lemma msg_cap_gt m buflen : msg_len_with m None < msg_cap m buflen.
Proof. unfold msg_cap. destruct (_ <? _) eqn:E; lia. Qed.

(* Len() without compression map bounds what Pack writes, compressed or not *)
Theorem uncompressed_len_ge_pack m buflen w u :
  msg_okb m = true -> pack_msg_buf m buflen = Ok (w, u) -> lenN w <= msg_len_with m None.
Proof.
  intros Hok. rewrite pack_msg_buf_sections. destruct (4095 <? _); [discriminate|].
  destruct (msg_room m Hok) as [R1 _].
  assert (K : (do st <- pack_sections (m_question m) (m_answer m) (m_ns m) (msg_extra m) (msg_compress m) (msg_hdr m)
                                (msg_cap m buflen) (msg_st0 m);
               Ok (pn_out st, negb (buflen <? msg_len_with m None + 1))) = Ok (w, u) ->
              lenN w <= msg_len_with m None).
  { destruct (pack_sections _ _ _ _ _ _ _ _) as [st| | |] eqn:E; try discriminate. cbn [bind].
    intro X. injection X as <- _. exact (R1 _ _ E). }
  destruct (last_opt_index _ _ _); [|destruct (15 <? _); [discriminate|]]; exact K.
Qed.

Theorem msg_len_ge_pack_uncompressed m w :
  msg_okb m = true -> msg_compress m = false -> pack_msg m = Ok w -> lenN w <= msg_len m.
Proof.
  intros Hok Hc. unfold pack_msg, msg_len. fold (msg_compress m). rewrite Hc.
  destruct (pack_msg_buf m 0) as [[w' u]| | |] eqn:E; try discriminate. cbn [bind fst].
  intro X; injection X as <-. eapply uncompressed_len_ge_pack; eauto.
Qed.

(* Stage 2: the buffer never matters.  PackBuffer with a buffer of any length
   returns what Pack returns — the same octets or the same error: a failure is
   never for lack of space (with or without compression) *)
Theorem pack_buffer_independent m b1 b2 :
  msg_okb m = true ->
  (do r <- pack_msg_buf m b1; Ok (fst r)) = (do r <- pack_msg_buf m b2; Ok (fst r)).
Proof.
  intro Hok. rewrite !pack_msg_buf_sections. destruct (4095 <? _); [reflexivity|].
  destruct (msg_room m Hok) as [_ R2].
  rewrite (R2 (msg_cap m b1) (msg_cap m b2) (msg_cap_gt m b1) (msg_cap_gt m b2)).
  destruct (last_opt_index _ _ _); [|destruct (15 <? _); [reflexivity|]];
    destruct (pack_sections _ _ _ _ _ _ _ _); reflexivity.
Qed.

Corollary pack_has_room m buflen :
  msg_okb m = true -> (do r <- pack_msg_buf m buflen; Ok (fst r)) = pack_msg m.
Proof. intro Hok. unfold pack_msg. now apply pack_buffer_independent. Qed.

Corollary pack_error_not_for_lack_of_space m buflen e :
  msg_okb m = true -> pack_msg_buf m buflen = Err e -> forall buflen', pack_msg_buf m buflen' = Err e.
Proof.
  intros Hok H b'. pose proof (pack_buffer_independent m buflen b' Hok) as I. rewrite H in I. cbn [bind] in I.
  destruct (pack_msg_buf m b') as [x| | |]; cbn [bind] in I; congruence.
Qed.

(* the caller's buffer is used exactly when it is longer than the uncompressed length *)
Theorem pack_buffer_uses_callers_buffer m buflen w u :
  pack_msg_buf m buflen = Ok (w, u) -> u = (msg_len_with m None <? buflen).
Proof.
  rewrite pack_msg_buf_sections. destruct (4095 <? _); [discriminate|].
  assert (K : (do st <- pack_sections (m_question m) (m_answer m) (m_ns m) (msg_extra m) (msg_compress m) (msg_hdr m)
                                (msg_cap m buflen) (msg_st0 m);
               Ok (pn_out st, negb (buflen <? msg_len_with m None + 1))) = Ok (w, u) ->
              u = (msg_len_with m None <? buflen)).
  { destruct (pack_sections _ _ _ _ _ _ _ _); try discriminate. cbn [bind].
    intro X. injection X as _ <-. lia. }
  destruct (last_opt_index _ _ _); [|destruct (15 <? _); [discriminate|]]; exact K.
Qed.

(* ================================================================== *)
(* 4. exactness for plain messages                                      *)
(* ================================================================== *)
Definition q_plain (q : question) : bool := no_bs (q_name q) && negb (bytes_eqb (q_name q) []).
Definition msg_plain (m : msg) : bool :=
  forallb q_plain (m_question m) && forallb rr_plain (m_answer m) && forallb rr_plain (m_ns m)
  && forallb rr_plain (m_extra m).

Lemma pack_question_exact q cap cp st st' :
  q_plain q = true -> pn_cm st = None -> pack_question q cap cp st = Ok st' ->
  poff st' = poff st + q_est q /\ pn_cm st' = None.
Proof.
  unfold q_plain, q_est, pack_question. intros Hp Hc. apply andb_prop in Hp. destruct Hp as [Hb Hn].
  destruct (pack_name (q_name q) cap cp st) as [s1| | |] eqn:E1; try discriminate. cbn [bind].
  destruct (pack_fixed (u16 (q_type q)) cap s1) as [s2| | |] eqn:E2; try discriminate. cbn [bind].
  intro E3.
  pose proof (pack_name_cm_none _ _ _ _ _ Hc E1) as C1.
  apply pack_name_plain_exact in E1; [|exact Hc| |unfold no_bs in Hb; now destruct (has_backslash _)].
  2:{ intro E. rewrite E in Hn. discriminate. }
  pose proof (pack_fixed_cm _ _ _ _ E2). pose proof (pack_fixed_cm _ _ _ _ E3).
  apply pack_fixed_exact in E2, E3. rewrite lenN_u16 in E2, E3. split; [lia|congruence].
Qed.

Lemma exact_questions l : forall cap cp st st',
  forallb q_plain l = true -> pn_cm st = None -> pack_questions l cap cp st = Ok st' ->
  poff st' = poff st + qs_est l /\ pn_cm st' = None.
Proof.
  induction l as [|q r IH]; intros cap cp st st' Hp Hc H.
  - injection H as <-. cbn [qs_est]. split; [lia|exact Hc].
  - cbn [forallb] in Hp. apply andb_prop in Hp. destruct Hp as [Hq Hr].
    cbn [pack_questions] in H. destruct (pack_question q cap cp st) as [s1| | |] eqn:E1; try discriminate.
    cbn [bind] in H. destruct (pack_question_exact _ _ _ _ _ Hq Hc E1) as [O1 C1].
    destruct (IH _ _ _ _ Hr C1 H) as [O2 C2]. cbn [qs_est]. split; [lia|exact C2].
Qed.

Lemma exact_rrs l : forall cap cp st st',
  forallb rr_plain l = true -> pn_cm st = None -> poff st + rrs_est l < cap ->
  pack_rrs l cap cp st = Ok st' ->
  poff st' = poff st + rrs_est l /\ pn_cm st' = None.
Proof.
  induction l as [|x r IH]; intros cap cp st st' Hp Hc Hcap H.
  - injection H as <-. cbn [rrs_est]. split; [lia|exact Hc].
  - cbn [forallb] in Hp. apply andb_prop in Hp. destruct Hp as [Hx Hr]. cbn [rrs_est] in *.
    cbn [pack_rrs] in H. destruct (pack_rr x cap cp st) as [s1| | |] eqn:E1; try discriminate.
    cbn [bind] in H.
    assert (Hlt : poff st < cap) by lia.
    destruct (rr_len_exact_plain _ _ _ _ _ Hx Hc Hlt E1) as [O1 C1]. rewrite rr_len_est in O1.
    assert (Hlt' : poff s1 + rrs_est r < cap) by lia.
    destruct (IH _ _ _ _ Hr C1 Hlt' H) as [O2 C2]. split; [lia|exact C2].
Qed.

Lemma rr_plain_ext r c : rr_plain (set_ext_rcode r c) = rr_plain r.
Proof. reflexivity. Qed.
Lemma plain_update l f : (forall x, rr_plain (f x) = rr_plain x) -> forall i,
  forallb rr_plain (update_nth l i f) = forallb rr_plain l.
Proof.
  intro Hf. induction l as [|x r IH]; intro i; [destruct i; reflexivity|].
  destruct i; cbn [update_nth forallb]; [now rewrite Hf|now rewrite IH].
Qed.
Lemma msg_extra_plain m : forallb rr_plain (msg_extra m) = forallb rr_plain (m_extra m).
Proof. unfold msg_extra. destruct (last_opt_index _ _ _); [|reflexivity]. apply plain_update. intro; apply rr_plain_ext. Qed.

(* the exactness clause of C08: a message of the common types with escape-free
   content, packed without compression, has exactly Len() octets *)
Theorem msg_len_exact_plain m w :
  msg_plain m = true -> msg_compress m = false -> pack_msg m = Ok w -> lenN w = msg_len m.
Proof.
  unfold msg_plain. intros Hp Hc.
  repeat (apply andb_prop in Hp; let X := fresh "Hp" in destruct Hp as [Hp X]).
  unfold pack_msg, msg_len. fold (msg_compress m). rewrite Hc.
  rewrite pack_msg_buf_sections. destruct (4095 <? _); [discriminate|].
  assert (K : (do r <- (do st <- pack_sections (m_question m) (m_answer m) (m_ns m) (msg_extra m) (msg_compress m)
                                (msg_hdr m) (msg_cap m 0) (msg_st0 m);
                        Ok (pn_out st, negb (0 <? msg_len_with m None + 1))); Ok (fst r)) = Ok w ->
              lenN w = msg_len_with m None).
  { destruct (pack_sections _ _ _ _ _ _ _ _) as [st| | |] eqn:E; try discriminate. cbn [bind fst].
    intro X. injection X as <-. revert E. unfold pack_sections.
    pose proof (msg_cap_gt m 0) as Hcap. rewrite msg_len_with_none in *. unfold msg_est in *.
    rewrite <- (msg_extra_est m) in *.
    destruct (pack_fixed (msg_hdr m) (msg_cap m 0) (msg_st0 m)) as [s1| | |] eqn:E1; try discriminate. cbn [bind].
    destruct (pack_questions _ _ _ s1) as [s2| | |] eqn:E2; try discriminate. cbn [bind].
    destruct (pack_rrs (m_answer m) _ _ s2) as [s3| | |] eqn:E3; try discriminate. cbn [bind].
    destruct (pack_rrs (m_ns m) _ _ s3) as [s4| | |] eqn:E4; try discriminate. cbn [bind].
    intro E5.
    pose proof (pack_fixed_cm _ _ _ _ E1) as C1. apply pack_fixed_exact in E1. rewrite lenN_msg_hdr in E1.
    assert (C0 : pn_cm (msg_st0 m) = None) by (unfold msg_st0; rewrite Hc; reflexivity).
    assert (P0 : poff (msg_st0 m) = 0) by reflexivity.
    rewrite C0 in C1.
    destruct (exact_questions _ _ _ _ _ Hp C1 E2) as [O2 C2].
    assert (L3 : poff s2 + rrs_est (m_answer m) < msg_cap m 0) by lia.
    destruct (exact_rrs _ _ _ _ _ Hp2 C2 L3 E3) as [O3 C3].
    assert (L4 : poff s3 + rrs_est (m_ns m) < msg_cap m 0) by lia.
    destruct (exact_rrs _ _ _ _ _ Hp1 C3 L4 E4) as [O4 C4].
    rewrite <- msg_extra_plain in Hp0.
    assert (L5 : poff s4 + rrs_est (msg_extra m) < msg_cap m 0) by lia.
    destruct (exact_rrs _ _ _ _ _ Hp0 C4 L5 E5) as [O5 C5].
    unfold poff in *. lia. }
  destruct (last_opt_index _ _ _); [|destruct (15 <? _); [discriminate|]]; exact K.
Qed.
