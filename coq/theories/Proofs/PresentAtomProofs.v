(* Proofs/PresentAtomProofs.v — the atoms of the irregular printers and
   parsers (C05, B05): each atom's printed form is one good word (or good
   quoted strings) and its reader gives back the value in the printer's
   normal form.  Used by PresentGrammarProofs. *)
From Dns Require Import Base.ListX Model.Present Proofs.EscapeProofs Proofs.PresentEscProofs
     Proofs.PresentCodeProofs Proofs.PresentLexProofs Proofs.PresentTxtProofs Proofs.PresentWordProofs.
From Coq Require Import Lia ZifyN ZifyNat ZifyBool.
Open Scope N_scope.

(* ------------------------------------------------------------------ *)
(* mnemonic tables of CERT                                             *)
(* ------------------------------------------------------------------ *)

Lemma mtab_inverse m :
  forallb (fun e => match lookup_name (mtab m) (snd e) with Some k => k =? fst e | None => false end) (mtab m) = true.
Proof. destruct m; vm_compute; reflexivity. Qed.
Lemma mtab_no_digit_head m :
  forallb (fun e => match snd e with [] => false | x :: _ => negb (is_digit x) end) (mtab m) = true.
Proof. destruct m; vm_compute; reflexivity. Qed.
Lemma mtab_ordinary m : forallb (fun e => forallb ordinary (snd e)) (mtab m) = true.
Proof. destruct m; vm_compute; reflexivity. Qed.

Lemma lookup_name_digit tbl c r :
  forallb (fun e => match snd e with [] => false | x :: _ => negb (is_digit x) end) tbl = true ->
  is_digit c = true -> lookup_name tbl (c :: r) = None.
Proof.
  induction tbl as [|[k v] tbl IH]; intros H Hc; [reflexivity|].
  cbn [forallb snd] in H. apply andb_prop in H. destruct H as [H1 H2].
  cbn [lookup_name]. destruct (bytes_eqb v (c :: r)) eqn:E.
  - apply bytes_eqb_eq in E. subst v. rewrite Hc in H1. discriminate.
  - now apply IH.
Qed.

Lemma parse_uint_nondigit_head c r bits : is_digit c = false -> parse_uint (c :: r) bits = None.
Proof. intro H. unfold parse_uint. cbn [forallb]. now rewrite H. Qed.

Lemma show_mnem_word_ok m n : word_ok (show_mnem m n) = true.
Proof.
  unfold show_mnem. destruct (lookup_code (mtab m) n) as [s|] eqn:L; [|apply dec_word_ok].
  apply lookup_code_in in L.
  pose proof (mtab_ordinary m) as O. rewrite forallb_forall in O. specialize (O _ L). cbn [snd] in O.
  pose proof (mtab_no_digit_head m) as D. rewrite forallb_forall in D. specialize (D _ L). cbn [snd] in D.
  apply word_ok_ordinary; [|exact O]. destruct s; [discriminate|discriminate].
Qed.

(* CERT.parse order: the mnemonic first, then the number *)
Lemma read_mnem m n bits : n < 2 ^ bits ->
  match lookup_name (mtab m) (show_mnem m n) with
  | Some k => k = n
  | None => parse_uint (show_mnem m n) bits = Some n
  end.
Proof.
  intro Hn. unfold show_mnem. destruct (lookup_code (mtab m) n) as [s|] eqn:L.
  - apply lookup_code_in in L.
    pose proof (mtab_inverse m) as I. rewrite forallb_forall in I. specialize (I _ L). cbn [fst snd] in I.
    destruct (lookup_name (mtab m) s); [|discriminate]. now apply N.eqb_eq in I.
  - destruct (dec_bytes_head n) as (c & r & E & Hc). rewrite E.
    rewrite (lookup_name_digit _ c r (mtab_no_digit_head m) Hc). rewrite <- E. now apply parse_uint_dec.
Qed.

(* RRSIG.parse reads the algorithm as a number first *)
Lemma read_algnum n : n < 256 ->
  parse_uint (dec_bytes n) 8 = Some n.
Proof. intro H. apply parse_uint_dec. cbn. lia. Qed.

(* ------------------------------------------------------------------ *)
(* RRSIG type covered                                                  *)
(* ------------------------------------------------------------------ *)
Definition read_type (text : bytes) : option N :=
  let up := upper_bytes text in
  match string_to_type up with
  | Some t => Some t
  | None => if has_prefix b_TYPE up then type_to_int text else None
  end.

Lemma read_type_mnemonics_checked :
  forallb (fun e => (fst e =? 0) || (fst e =? 65535) ||
                    match read_type (snd e) with Some k => k =? fst e | None => false end) type_table = true.
Proof. vm_compute. reflexivity. Qed.

Lemma read_type_show t : t < 65536 -> t <> 0 -> t <> 65535 -> read_type (show_type t) = Some t.
Proof.
  intros Ht H0 H1. unfold show_type. destruct (lookup_code type_table t) as [m|] eqn:L.
  - apply lookup_code_in in L.
    pose proof read_type_mnemonics_checked as C. rewrite forallb_forall in C. specialize (C _ L). cbn [fst snd] in C.
    replace (t =? 0) with false in C by lia. replace (t =? 65535) with false in C by lia. cbn [orb] in C.
    destruct (read_type m); [|discriminate]. apply N.eqb_eq in C. now subst.
  - pose proof (bitmap_tok_show t Ht H0 H1) as B. unfold bitmap_tok, show_type in B. rewrite L in B.
    unfold read_type.
    destruct (string_to_type (upper_bytes (b_TYPE ++ dec_bytes t))) as [k|] eqn:E; [exact B|].
    rewrite upper_app, (upper_digits (dec_bytes t)) by apply dec_bytes_digits.
    replace (upper_bytes b_TYPE) with b_TYPE by reflexivity. rewrite has_prefix_app. exact B.
Qed.

(* ------------------------------------------------------------------ *)
(* splitN and endingToString on several words (SMIMEA)                 *)
(* ------------------------------------------------------------------ *)
Lemma splitn_loop_concat fuel : forall s n, (0 < n)%nat -> (length s < fuel)%nat ->
  concat (splitn_loop fuel s n) = s.
Proof.
  induction fuel as [|f IH]; intros s n Hn Hf; [lia|].
  cbn [splitn_loop]. destruct (n <=? length s)%nat eqn:E.
  - cbn [concat]. rewrite IH; [apply firstn_skipn|exact Hn|].
    rewrite skipn_length. apply Nat.leb_le in E. lia.
  - cbn [concat]. apply app_nil_r.
Qed.
Lemma split_n_concat s n : (0 < n)%nat -> concat (split_n s n) = s.
Proof.
  intro Hn. unfold split_n. destruct (length s <? n)%nat; [cbn; apply app_nil_r|].
  apply splitn_loop_concat; [exact Hn|lia].
Qed.
Lemma split_n_nonempty s n : split_n s n <> [].
Proof.
  unfold split_n. destruct (length s <? n)%nat; [discriminate|].
  cbn [splitn_loop]. destruct (n <=? length s)%nat; discriminate.
Qed.

Lemma join_words_items ws : join_bytes [32] ws = render_items (map IWord ws).
Proof.
  induction ws as [|w r IH]; [reflexivity|]. cbn [map join_bytes render_items render_item].
  destruct r as [|w2 r2]; [reflexivity|]. cbn [map] in *. rewrite IH. reflexivity.
Qed.

Lemma ets_words ws : forall acc,
  ets_go (items_toks (map IWord ws) ++ [TNewline]) acc = Ok (acc ++ concat ws).
Proof.
  induction ws as [|w r IH]; intro acc.
  - cbn. now rewrite app_nil_r.
  - cbn [map items_toks item_toks]. destruct r as [|w2 r2].
    + cbn [map app ets_go concat]. now rewrite app_nil_r.
    + cbn [map app ets_go]. change (IWord w2 :: map IWord r2) with (map IWord (w2 :: r2)).
      rewrite IH. cbn [concat]. now rewrite <- app_assoc.
Qed.

(* ------------------------------------------------------------------ *)
(* RRSIG times                                                         *)
(* ------------------------------------------------------------------ *)
Fixpoint zrange_from (fuel : nat) (z : Z) : list Z :=
  match fuel with O => [] | S f => z :: zrange_from f (z + 1)%Z end.
Definition zrange (n : N) : list Z := zrange_from (N.to_nat n) 0%Z.
Lemma zrange_from_in fuel : forall z d, (z <= d < z + Z.of_nat fuel)%Z -> In d (zrange_from fuel z).
Proof.
  induction fuel as [|f IH]; intros z d H; [lia|].
  cbn [zrange_from]. destruct (Z.eq_dec z d) as [->|Hne]; [now left|]. right. apply IH. lia.
Qed.
Lemma zrange_in n d : (0 <= d < Z.of_N n)%Z -> In d (zrange n).
Proof. intro H. unfold zrange. apply zrange_from_in. lia. Qed.

(* every day from 1970-01-01 to 2106-02-07 (the 32-bit range), swept *)
Lemma days_checked :
  forallb (fun d => let '(y, m, dd) := civil_from_days d in
                    (1970 <=? y) && (y <=? 2106) && (1 <=? m) && (m <=? 12) && (1 <=? dd) &&
                    (dd <=? days_in m y) && (days_from_civil y m dd =? d))%Z (zrange 49711) = true.
Proof. vm_compute. reflexivity. Qed.

Definition two_ok (n : N) : bool :=
  match pad_dec 2 n with
  | [a; b] => is_digit a && is_digit b && ((a - 48) * 10 + (b - 48) =? n)
  | _ => false
  end.
Definition four_ok (n : N) : bool :=
  match pad_dec 4 n with
  | [a; b; c; d] => is_digit a && is_digit b && is_digit c && is_digit d &&
                    (((a - 48) * 10 + (b - 48)) * 100 + ((c - 48) * 10 + (d - 48)) =? n)
  | _ => false
  end.
Lemma two_checked : forallb (fun z => two_ok (Z.to_N z)) (zrange 100) = true.
Proof. vm_compute. reflexivity. Qed.
Lemma four_checked : forallb (fun z => (z <? 1970)%Z || four_ok (Z.to_N z)) (zrange 2107) = true.
Proof. vm_compute. reflexivity. Qed.

Lemma two_digits z : (0 <= z < 100)%Z ->
  exists a b, append_int z 2 = [a; b] /\ is_digit a = true /\ is_digit b = true /\ dval a b = z.
Proof.
  intro H. pose proof two_checked as C. rewrite forallb_forall in C. specialize (C z (zrange_in 100 z ltac:(lia))).
  unfold append_int. replace (z <? 0)%Z with false by lia. unfold two_ok in C.
  destruct (pad_dec 2 (Z.to_N z)) as [|a [|b [|c r]]]; try discriminate.
  apply andb_prop in C. destruct C as [C C3]. apply andb_prop in C. destruct C as [C1 C2].
  exists a, b. repeat split; try assumption. unfold dval. apply N.eqb_eq in C3. rewrite C3. lia.
Qed.

Lemma four_digits z : (1970 <= z <= 2106)%Z ->
  exists a b c d, append_int z 4 = [a; b; c; d] /\ is_digit a = true /\ is_digit b = true /\
                  is_digit c = true /\ is_digit d = true /\ (dval a b * 100 + dval c d)%Z = z.
Proof.
  intro H. pose proof four_checked as C. rewrite forallb_forall in C. specialize (C z (zrange_in 2107 z ltac:(lia))).
  replace (z <? 1970)%Z with false in C by lia. cbn [orb] in C.
  unfold append_int. replace (z <? 0)%Z with false by lia. unfold four_ok in C.
  destruct (pad_dec 4 (Z.to_N z)) as [|a [|b [|c [|d [|e r]]]]]; try discriminate.
  apply andb_prop in C. destruct C as [C C5]. apply andb_prop in C. destruct C as [C C4].
  apply andb_prop in C. destruct C as [C C3]. apply andb_prop in C. destruct C as [C1 C2].
  exists a, b, c, d. repeat split; try assumption. unfold dval. apply N.eqb_eq in C5.
  unfold is_digit in *. lia.
Qed.

(* at any clock reading from 1970 on, the serial-number correction is zero *)
Lemma time_to_string_now now t : (0 <= now)%Z -> t < 4294967296 ->
  time_to_string now t = format_time (Z.of_N t).
Proof.
  intros Hn Ht. unfold time_to_string.
  assert (Hq : (Z.quot (Z.of_N t - now) year68 <= 1)%Z).
  { unfold year68. destruct (Z_lt_le_dec (Z.of_N t - now) 0) as [Hneg|Hpos].
    - pose proof (Z.quot_opp_l (now - Z.of_N t) 2147483648 ltac:(lia)) as Q.
      replace (- (now - Z.of_N t))%Z with (Z.of_N t - now)%Z in Q by lia. rewrite Q.
      pose proof (Z.quot_pos (now - Z.of_N t) 2147483648 ltac:(lia) ltac:(lia)). lia.
    - rewrite Z.quot_div_nonneg by lia. apply Z.lt_succ_r. apply Z.div_lt_upper_bound; lia. }
  destruct (Z.quot (Z.of_N t - now) year68 - 1 <? 0)%Z eqn:E.
  - f_equal. lia.
  - assert (Z.quot (Z.of_N t - now) year68 - 1 = 0)%Z as -> by lia. f_equal. lia.
Qed.

Lemma serial_id t : (0 <= t < 4294967296)%Z ->
  ((t - (if Z.quot t year68 - 1 <? 0 then 0 else Z.quot t year68 - 1) * year68) mod 4294967296 = t)%Z.
Proof.
  intro Ht.
  assert (Hq : (Z.quot t year68 <= 1)%Z).
  { unfold year68. rewrite Z.quot_div_nonneg by lia. apply Z.lt_succ_r. apply Z.div_lt_upper_bound; lia. }
  destruct (Z.quot t year68 - 1 <? 0)%Z eqn:E.
  - rewrite Z.mul_0_l, Z.sub_0_r. apply Z.mod_small. exact Ht.
  - assert (Z.quot t year68 - 1 = 0)%Z as -> by (clear - Hq E; lia).
    rewrite Z.mul_0_l, Z.sub_0_r. apply Z.mod_small. exact Ht.
Qed.

Lemma sod_split sod : (0 <= sod < 86400)%Z ->
  exists hh mm ss, (sod / 3600 = hh /\ sod / 60 mod 60 = mm /\ sod mod 60 = ss /\
                    0 <= hh < 24 /\ 0 <= mm < 60 /\ 0 <= ss < 60 /\ hh * 3600 + mm * 60 + ss = sod)%Z.
Proof.
  intro H. exists (sod / 3600)%Z, (sod / 60 mod 60)%Z, (sod mod 60)%Z.
  repeat split; try (apply Z.mod_pos_bound; lia); try (apply Z.div_pos; lia); try (apply Z.div_lt_upper_bound; lia).
  replace (sod / 3600)%Z with (sod / 60 / 60)%Z by (rewrite Z.div_div by lia; reflexivity).
  pose proof (Z.div_mod sod 60 ltac:(lia)) as A. pose proof (Z.div_mod (sod / 60) 60 ltac:(lia)) as B.
  remember (sod / 60)%Z as q. remember (sod mod 60)%Z as r. remember (q / 60)%Z as q2. remember (q mod 60)%Z as r2.
  clear - A B. lia.
Qed.

Theorem string_to_time_format t : (0 <= t < 4294967296)%Z ->
  string_to_time (format_time t) = Some (Z.to_N t).
Proof.
  intro Ht. unfold format_time.
  assert (Hd : (0 <= t / 86400 < 49711)%Z) by (split; [apply Z.div_pos; lia|apply Z.div_lt_upper_bound; lia]).
  pose proof (Z.mod_pos_bound t 86400 ltac:(lia)) as Hs.
  pose proof (Z.div_mod t 86400 ltac:(lia)) as Hdm.
  remember (t / 86400)%Z as days eqn:Edays. remember (t mod 86400)%Z as sod eqn:Esod. clear Edays Esod.
  destruct (sod_split sod Hs) as (hh & mm & ss & -> & -> & -> & Hh & Hm & Hse & HT).
  pose proof days_checked as C. rewrite forallb_forall in C. specialize (C days (zrange_in 49711 days ltac:(lia))).
  destruct (civil_from_days days) as [[y m] d].
  repeat (apply andb_prop in C; let C' := fresh "C" in destruct C as [C C']).
  apply Z.eqb_eq in C0.
  assert (Hy : (1970 <= y <= 2106)%Z) by (clear - C C5; lia).
  assert (Hmo : (1 <= m <= 12)%Z) by (clear - C4 C3; lia).
  assert (Hd1 : (1 <= d)%Z) by (clear - C2; lia).
  assert (Hd2 : (d <= days_in m y)%Z) by (clear - C1; lia).
  assert (Hd3 : (days_in m y <= 31)%Z).
  { unfold days_in. destruct (m =? 2)%Z; [destruct (is_leap y); lia|].
    destruct ((m =? 4) || (m =? 6) || (m =? 9) || (m =? 11))%Z; lia. }
  destruct (four_digits y Hy) as (y1 & y2 & y3 & y4 & -> & Y1 & Y2 & Y3 & Y4 & Yv).
  destruct (two_digits m ltac:(clear - Hmo; lia)) as (m1 & m2 & -> & M1 & M2 & Mv).
  destruct (two_digits d ltac:(clear - Hd1 Hd2 Hd3; lia)) as (d1 & d2 & -> & D1 & D2 & Dv).
  destruct (two_digits hh ltac:(clear - Hh; lia)) as (h1 & h2 & -> & H1 & H2 & Hv).
  destruct (two_digits mm ltac:(clear - Hm; lia)) as (i1 & i2 & -> & I1 & I2 & Iv).
  destruct (two_digits ss ltac:(clear - Hse; lia)) as (s1 & s2 & -> & S1 & S2 & Sv).
  cbn [app string_to_time forallb].
  rewrite Y1, Y2, Y3, Y4, M1, M2, D1, D2, H1, H2, I1, I2, S1, S2. cbn [andb negb].
  rewrite Yv, Mv, Dv, Hv, Iv, Sv. unfold stt_core.
  replace ((m <? 1) || (12 <? m) || (24 <=? hh) || (60 <=? mm) || (60 <=? ss) || (d <? 1) || (days_in m y <? d))%Z
    with false by (clear - Hmo Hh Hm Hse Hd1 Hd2; lia).
  rewrite C0.
  assert (HT2 : (days * 86400 + hh * 3600 + mm * 60 + ss = t)%Z) by (clear - HT Hdm; lia).
  rewrite HT2.
  f_equal. f_equal. now apply serial_id.
Qed.

Lemma format_time_word_ok t : (0 <= t < 4294967296)%Z -> word_ok (format_time t) = true.
Proof.
  intro Ht. pose proof (string_to_time_format t Ht) as S.
  (* fourteen digits *)
  unfold string_to_time in S.
  destruct (format_time t) as [|y1 [|y2 [|y3 [|y4 [|m1 [|m2 [|d1 [|d2 [|h1 [|h2 [|i1 [|i2 [|s1 [|s2 rest]]]]]]]]]]]]]];
    try discriminate.
  destruct (forallb is_digit [y1; y2; y3; y4; m1; m2; d1; d2; h1; h2; i1; i2; s1; s2]) eqn:E; [|discriminate].
  cbn [negb] in S.
  destruct rest as [|c ds].
  - apply word_ok_ordinary; [discriminate|]. now apply digits_ordinary.
  - (* cannot happen, but a fraction is ordinary too *)
    destruct (((c =? 46) || (c =? 44)) && negb (is_nil ds) && forallb is_digit ds) eqn:F; [|discriminate].
    apply andb_prop in F. destruct F as [F F3]. apply andb_prop in F. destruct F as [F1 F2].
    apply word_ok_ordinary; [discriminate|].
    change (y1 :: y2 :: y3 :: y4 :: m1 :: m2 :: d1 :: d2 :: h1 :: h2 :: i1 :: i2 :: s1 :: s2 :: c :: ds)
      with ([y1; y2; y3; y4; m1; m2; d1; d2; h1; h2; i1; i2; s1; s2] ++ c :: ds).
    rewrite ordinary_app. rewrite (digits_ordinary _ E). cbn [andb forallb].
    rewrite (digits_ordinary _ F3). rewrite andb_true_r.
    apply orb_prop in F1. destruct F1 as [F1|F1]; apply N.eqb_eq in F1; subst c; reflexivity.
Qed.

(* ------------------------------------------------------------------ *)
(* hexadecimal numbers: EUI48, EUI64, NID, L64                         *)
(* ------------------------------------------------------------------ *)
Lemma be_app' a b acc : be (a ++ b) acc = be b (be a acc).
Proof. revert acc. induction a as [|x a IH]; intros acc; cbn; [reflexivity|apply IH]. Qed.
Lemma be_u16' n : n < 65536 -> be (u16 n) 0 = n.
Proof. intro H. unfold u16. cbn [be]. lia. Qed.
Lemma be_u32' n : n < 4294967296 -> be (u32 n) 0 = n.
Proof. intro H. unfold u32. cbn [be]. lia. Qed.
Lemma be_u32_acc' v acc : v < 4294967296 -> be (u32 v) acc = acc * 4294967296 + v.
Proof. intro H. unfold u32. cbn [be]. lia. Qed.
Lemma be_u48' n : n < 281474976710656 -> be (u48 n) 0 = n.
Proof. intro H. unfold u48. rewrite be_app', be_u16' by lia. rewrite be_u32_acc' by lia. lia. Qed.
Lemma be_u64' n : n < 18446744073709551616 -> be (u64 n) 0 = n.
Proof. intro H. unfold u64. rewrite be_app', be_u32' by lia. rewrite be_u32_acc' by lia. lia. Qed.
Lemma wfb_u48 n : wfb (u48 n).
Proof. unfold u48, u16, u32. cbn [app]. repeat constructor; apply N.mod_lt; lia. Qed.
Lemma wfb_u64 n : wfb (u64 n).
Proof. unfold u64, u32. cbn [app]. repeat constructor; apply N.mod_lt; lia. Qed.

Lemma hexval_hexdigit x : x < 16 -> hexval (N_of_ascii (hexdigit x)) = x.
Proof. intro H. unfold hexval. rewrite ascii_N_embedding. now apply hexdigit_val. Qed.
Lemma hexdigits_checked :
  forallb (fun x => is_hexdigit (N_of_ascii (hexdigit x)) && is_hexdigit (upper (N_of_ascii (hexdigit x))))
          [0; 1; 2; 3; 4; 5; 6; 7; 8; 9; 10; 11; 12; 13; 14; 15] = true.
Proof. vm_compute. reflexivity. Qed.
Lemma is_hexdigit_hexdigit x : x < 16 ->
  is_hexdigit (N_of_ascii (hexdigit x)) = true /\ is_hexdigit (upper (N_of_ascii (hexdigit x))) = true.
Proof.
  intro H. pose proof hexdigits_checked as C. rewrite forallb_forall in C.
  assert (Hin : In x [0; 1; 2; 3; 4; 5; 6; 7; 8; 9; 10; 11; 12; 13; 14; 15]).
  { cbn [In]. lia. }
  specialize (C x Hin). now apply andb_prop in C.
Qed.

Lemma hex_bytes_cons b r :
  hex_bytes (b :: r) = N_of_ascii (hexdigit (b / 16)) :: N_of_ascii (hexdigit (b mod 16)) :: hex_bytes r.
Proof. reflexivity. Qed.

Lemma hex_bytes_app a b : hex_bytes (a ++ b) = hex_bytes a ++ hex_bytes b.
Proof. induction a as [|x a IH]; [reflexivity|]. cbn [app]. rewrite !hex_bytes_cons, IH. reflexivity. Qed.

Lemma hex_bytes_hexdigits w : wfb w ->
  forallb is_hexdigit (hex_bytes w) = true /\ forallb is_hexdigit (upper_bytes (hex_bytes w)) = true.
Proof.
  induction w as [|b r IH]; intro H; [split; reflexivity|].
  inversion H as [|? ? Hb Hr]; subst. destruct (IH Hr) as [I1 I2]. rewrite hex_bytes_cons.
  destruct (is_hexdigit_hexdigit (b / 16) ltac:(apply N.div_lt_upper_bound; lia)) as [A1 A2].
  destruct (is_hexdigit_hexdigit (b mod 16) ltac:(apply N.mod_lt; lia)) as [B1 B2].
  unfold upper_bytes. cbn [map forallb]. fold (upper_bytes (hex_bytes r)).
  rewrite A1, A2, B1, B2, I1, I2. split; reflexivity.
Qed.

Lemma hexnum_hex_bytes w : wfb w -> forall acc, hexnum (hex_bytes w) acc = be w acc.
Proof.
  induction w as [|b r IH]; intros H acc; [reflexivity|].
  inversion H as [|? ? Hb Hr]; subst. rewrite hex_bytes_cons. cbn [hexnum be].
  rewrite !hexval_hexdigit by (apply N.div_lt_upper_bound || apply N.mod_lt; lia).
  rewrite IH by exact Hr. f_equal. lia.
Qed.

Lemma hexval_upper c : c < 256 -> hexval (upper c) = hexval c.
Proof. intro H. unfold hexval. now apply unhexdigit_upper. Qed.
Lemma hexnum_upper s : wfb s -> forall acc, hexnum (upper_bytes s) acc = hexnum s acc.
Proof.
  induction s as [|c r IH]; intros H acc; [reflexivity|].
  inversion H as [|? ? Hc Hr]; subst. cbn [upper_bytes map hexnum]. fold (upper_bytes r).
  rewrite hexval_upper by exact Hc. now apply IH.
Qed.
Lemma wfb_hex_bytes w : wfb (hex_bytes w).
Proof.
  induction w as [|b r IH]; [constructor|]. rewrite hex_bytes_cons.
  constructor; [apply N_ascii_bounded|]. constructor; [apply N_ascii_bounded|exact IH].
Qed.

Lemma parse_hex_nonempty s : s <> [] ->
  parse_hex s = if forallb is_hexdigit s then Some (hexnum s 0) else None.
Proof. destruct s; [congruence|reflexivity]. Qed.

Lemma parse_hex_hex_bytes w (up : bool) : wfb w -> w <> [] ->
  parse_hex (if up then upper_bytes (hex_bytes w) else hex_bytes w) = Some (be w 0).
Proof.
  intros H Hne. destruct (hex_bytes_hexdigits w H) as [D1 D2].
  assert (Hn : hex_bytes w <> []) by (destruct w; [congruence|rewrite hex_bytes_cons; discriminate]).
  destruct up.
  - rewrite parse_hex_nonempty.
    + rewrite D2. rewrite hexnum_upper by apply wfb_hex_bytes. now rewrite hexnum_hex_bytes.
    + intro E. unfold upper_bytes in E. apply map_eq_nil in E. contradiction.
  - rewrite parse_hex_nonempty by exact Hn. rewrite D1. now rewrite hexnum_hex_bytes.
Qed.

(* EUI *)
Lemma join_cons2 sep (x y : bytes) r : join_bytes sep (x :: y :: r) = x ++ sep ++ join_bytes sep (y :: r).
Proof. reflexivity. Qed.

Lemma eui_digits_step k a b r :
  eui_digits (S (S k)) (a :: b :: 45 :: r) =
  match eui_digits (S k) r with Some d => Some (a :: b :: d) | None => None end.
Proof. reflexivity. Qed.

Lemma eui_digits_join bs : bs <> [] ->
  eui_digits (length bs) (join_bytes [45] (map (fun b => hex_bytes [b]) bs)) = Some (hex_bytes bs).
Proof.
  induction bs as [|b r IH]; intro H; [congruence|].
  destruct r as [|b2 r2].
  - reflexivity.
  - cbn [map length]. cbn [length map] in IH.
    rewrite (join_cons2 [45]). rewrite (hex_bytes_cons b []). change (hex_bytes []) with (@nil N). cbn [app].
    rewrite eui_digits_step. rewrite IH by discriminate. now rewrite (hex_bytes_cons b).
Qed.

Lemma join_dash_ordinary bs : wfb bs ->
  forallb ordinary (join_bytes [45] (map (fun b => hex_bytes [b]) bs)) = true.
Proof.
  induction bs as [|b r IH]; intro H; [reflexivity|]. inversion H as [|? ? Hb Hr]; subst.
  assert (O1 : forallb ordinary (hex_bytes [b]) = true) by (apply hex_bytes_ordinary; now constructor).
  destruct r as [|b2 r2]; [exact O1|].
  cbn [map]. rewrite (join_cons2 [45]). rewrite !ordinary_app, O1. cbn [map] in IH. rewrite IH by exact Hr. reflexivity.
Qed.

Definition eui_ok (k : nat) (n : N) : Prop :=
  (k = 6%nat /\ n < 281474976710656) \/ (k = 8%nat /\ n < 18446744073709551616).

Lemma eui_roundtrip k n : eui_ok k n ->
  word_ok (eui_to_string k n) = true /\ parse_eui k (eui_to_string k n) = Some n.
Proof.
  intros [[-> H]|[-> H]]; unfold eui_to_string, parse_eui; cbn [Nat.eqb].
  - split.
    + apply word_ok_ordinary; [unfold u48, u16, u32; discriminate|apply join_dash_ordinary, wfb_u48].
    + change 6%nat with (length (u48 n)). rewrite eui_digits_join by (unfold u48, u16; discriminate).
      rewrite (parse_hex_hex_bytes (u48 n) false (wfb_u48 n)) by (unfold u48, u16; discriminate).
      now rewrite be_u48'.
  - split.
    + apply word_ok_ordinary; [unfold u64, u32; discriminate|apply join_dash_ordinary, wfb_u64].
    + change 8%nat with (length (u64 n)). rewrite eui_digits_join by (unfold u64, u32; discriminate).
      rewrite (parse_hex_hex_bytes (u64 n) false (wfb_u64 n)) by (unfold u64, u32; discriminate).
      now rewrite be_u64'.
Qed.

(* NID, L64 *)
Lemma upper_cons58 l : upper_bytes (58 :: l) = 58 :: upper_bytes l.
Proof. reflexivity. Qed.
Lemma upper_ordinary l : forallb ordinary l = true -> forallb ordinary (upper_bytes l) = true.
Proof.
  induction l as [|x l IH]; [reflexivity|]. cbn [forallb upper_bytes map]. fold (upper_bytes l).
  intro O. apply andb_prop in O. destruct O as [O1 O2]. rewrite IH by exact O2. rewrite andb_true_r.
  unfold upper. destruct ((97 <=? x) && (x <=? 122)) eqn:E; [|exact O1].
  unfold ordinary, word_special.
  repeat match goal with |- context [?u =? ?v] => let b := fresh in destruct (N.eqb_spec u v) as [b|b]; [lia|] end.
  reflexivity.
Qed.

Lemma parse_nodeid_groups p0 p1 p2 p3 :
  length p0 = 4%nat -> length p1 = 4%nat -> length p2 = 4%nat -> length p3 = 4%nat ->
  parse_nodeid (p0 ++ 58 :: p1 ++ 58 :: p2 ++ 58 :: p3) = parse_hex (p0 ++ p1 ++ p2 ++ p3).
Proof.
  intros H0 H1 H2 H3.
  destruct p0 as [|a0 [|a1 [|a2 [|a3 [|? ?]]]]]; try discriminate.
  destruct p1 as [|b0 [|b1 [|b2 [|b3 [|? ?]]]]]; try discriminate.
  destruct p2 as [|c0 [|c1 [|c2 [|c3 [|? ?]]]]]; try discriminate.
  destruct p3 as [|d0 [|d1 [|d2 [|d3 [|? ?]]]]]; try discriminate.
  unfold parse_nodeid. cbn [app length nth firstn skipn Nat.ltb Nat.leb]. rewrite N.eqb_refl. reflexivity.
Qed.

Lemma nodeid_roundtrip up n : n < 18446744073709551616 ->
  word_ok (nodeid_to_string up n) = true /\ parse_nodeid (nodeid_to_string up n) = Some n.
Proof.
  intro H. pose proof (wfb_u64 n) as W. pose proof (be_u64' n H) as B.
  unfold nodeid_to_string. unfold u64, u32 in *. cbn [app] in *.
  set (a := (n / 4294967296 / 16777216) mod 256) in *. set (b := (n / 4294967296 / 65536) mod 256) in *.
  set (c := (n / 4294967296 / 256) mod 256) in *. set (d := (n / 4294967296) mod 256) in *.
  set (e := (n mod 4294967296 / 16777216) mod 256) in *. set (f := (n mod 4294967296 / 65536) mod 256) in *.
  set (g := (n mod 4294967296 / 256) mod 256) in *. set (h := (n mod 4294967296) mod 256) in *.
  clearbody a b c d e f g h.
  assert (Wab : wfb [a; b]) by (inversion W as [|? ? ? W1]; inversion W1; subst; repeat constructor; assumption).
  assert (Hx : hex_bytes [a; b] ++ hex_bytes [c; d] ++ hex_bytes [e; f] ++ hex_bytes [g; h] = hex_bytes [a; b; c; d; e; f; g; h])
    by reflexivity.
  assert (L : forall x y, length (hex_bytes [x; y]) = 4%nat) by reflexivity.
  split.
  - apply word_ok_ordinary; [destruct up; discriminate|].
    assert (O : forallb ordinary (hex_bytes [a; b] ++ [58] ++ hex_bytes [c; d] ++ [58] ++ hex_bytes [e; f] ++ [58] ++ hex_bytes [g; h]) = true).
    { assert (Og : forall x y, wfb [x; y] -> forallb ordinary (hex_bytes [x; y]) = true) by (intros; now apply hex_bytes_ordinary).
      inversion W as [|? ? Ha W1]; subst. inversion W1 as [|? ? Hb W2]; subst. inversion W2 as [|? ? Hc W3]; subst.
      inversion W3 as [|? ? Hd W4]; subst. inversion W4 as [|? ? He W5]; subst. inversion W5 as [|? ? Hf W6]; subst.
      inversion W6 as [|? ? Hg W7]; subst. inversion W7 as [|? ? Hh W8]; subst.
      rewrite !ordinary_app. rewrite !Og by (repeat constructor; assumption). reflexivity. }
    destruct up; [|exact O]. now apply upper_ordinary.
  - destruct up.
    + repeat (rewrite ?upper_app, ?upper_cons58).
      rewrite parse_nodeid_groups by (unfold upper_bytes; rewrite map_length; apply L).
      rewrite <- !upper_app, Hx.
      rewrite (parse_hex_hex_bytes [a; b; c; d; e; f; g; h] true W) by discriminate. now rewrite B.
    + rewrite parse_nodeid_groups by apply L. rewrite Hx.
      rewrite (parse_hex_hex_bytes [a; b; c; d; e; f; g; h] false W) by discriminate. now rewrite B.
Qed.
