(* Model/Sha.v — executable SHA-1 (FIPS 180-4 6.1) and SHA-256 (6.2) on octet
   strings.  Used ONLY by the correspondence runners (Corr/C17.v, Corr/C10.v) to
   instantiate the hash parameter of the DNSSEC models, so that HashName /
   ToDS outputs of the implementation can be compared with the model inside
   Coq.  Every theorem in Props/ is universally quantified over the hash
   function and does not depend on this file.  Definitions only. *)
From Dns Require Export Base.Bytes.
Open Scope N_scope.

Definition w32 : N := 4294967296.
Definition m32 : N := 4294967295.
Definition add32 (a b : N) : N := N.land (a + b) m32.
Definition rotl32 (n x : N) : N := N.lor (N.land (N.shiftl x n) m32) (N.shiftr x (32 - n)).
Definition rotr32 (n x : N) : N := N.lor (N.shiftr x n) (N.land (N.shiftl x (32 - n)) m32).
Definition not32 (x : N) : N := m32 - x.

(* message padding: 0x80, zeros, 64-bit big-endian bit length *)
Definition sha_pad (m : bytes) : bytes :=
  let l := lenN m in
  m ++ [128] ++ repeat 0 (N.to_nat ((119 - l mod 64) mod 64)) ++ u64 (8 * l).

Fixpoint words_be (fuel : nat) (l : bytes) : list N :=
  match fuel with
  | O => []
  | S f =>
    match l with
    | a :: b :: c :: d :: r => be [a; b; c; d] 0 :: words_be f r
    | _ => []
    end
  end.
Definition words (l : bytes) : list N := words_be (length l) l.

Fixpoint chunks {A} (fuel : nat) (n : nat) (l : list A) : list (list A) :=
  match fuel with
  | O => []
  | S f => match l with [] => [] | _ => firstn n l :: chunks f n (skipn n l) end
  end.

(* ---------- SHA-1 ---------- *)
Fixpoint sha1_sched (n : nat) (rw : list N) : list N :=
  match n with
  | O => rw
  | S n' =>
    let x := N.lxor (N.lxor (nth 2 rw 0) (nth 7 rw 0)) (N.lxor (nth 13 rw 0) (nth 15 rw 0)) in
    sha1_sched n' (rotl32 1 x :: rw)
  end.

Definition st5 := (N * N * N * N * N)%type.
Definition sha1_round (t : N) (s : st5) (w : N) : st5 :=
  let '(a, b, c, d, e) := s in
  let '(f, k) :=
    if t <? 20 then (N.lor (N.land b c) (N.land (not32 b) d), 0x5A827999)
    else if t <? 40 then (N.lxor (N.lxor b c) d, 0x6ED9EBA1)
    else if t <? 60 then (N.lor (N.lor (N.land b c) (N.land b d)) (N.land c d), 0x8F1BBCDC)
    else (N.lxor (N.lxor b c) d, 0xCA62C1D6) in
  let tmp := add32 (add32 (add32 (rotl32 5 a) f) (add32 e k)) w in
  (tmp, a, rotl32 30 b, c, d).

Fixpoint sha1_rounds (t : N) (ws : list N) (s : st5) : st5 :=
  match ws with
  | [] => s
  | w :: r => sha1_rounds (t + 1) r (sha1_round t s w)
  end.

Definition sha1_block (h : st5) (blk : bytes) : st5 :=
  let ws := rev (sha1_sched 64 (rev (words blk))) in
  let '(a, b, c, d, e) := sha1_rounds 0 ws h in
  let '(h0, h1, h2, h3, h4) := h in
  (add32 h0 a, add32 h1 b, add32 h2 c, add32 h3 d, add32 h4 e).

Definition sha1 (m : bytes) : bytes :=
  let p := sha_pad m in
  let '(a, b, c, d, e) :=
    fold_left sha1_block (chunks (length p) 64 p)
              (0x67452301, 0xEFCDAB89, 0x98BADCFE, 0x10325476, 0xC3D2E1F0) in
  u32 a ++ u32 b ++ u32 c ++ u32 d ++ u32 e.

(* ---------- SHA-256 ---------- *)
Definition k256 : list N :=
  [0x428a2f98; 0x71374491; 0xb5c0fbcf; 0xe9b5dba5; 0x3956c25b; 0x59f111f1; 0x923f82a4; 0xab1c5ed5;
   0xd807aa98; 0x12835b01; 0x243185be; 0x550c7dc3; 0x72be5d74; 0x80deb1fe; 0x9bdc06a7; 0xc19bf174;
   0xe49b69c1; 0xefbe4786; 0x0fc19dc6; 0x240ca1cc; 0x2de92c6f; 0x4a7484aa; 0x5cb0a9dc; 0x76f988da;
   0x983e5152; 0xa831c66d; 0xb00327c8; 0xbf597fc7; 0xc6e00bf3; 0xd5a79147; 0x06ca6351; 0x14292967;
   0x27b70a85; 0x2e1b2138; 0x4d2c6dfc; 0x53380d13; 0x650a7354; 0x766a0abb; 0x81c2c92e; 0x92722c85;
   0xa2bfe8a1; 0xa81a664b; 0xc24b8b70; 0xc76c51a3; 0xd192e819; 0xd6990624; 0xf40e3585; 0x106aa070;
   0x19a4c116; 0x1e376c08; 0x2748774c; 0x34b0bcb5; 0x391c0cb3; 0x4ed8aa4a; 0x5b9cca4f; 0x682e6ff3;
   0x748f82ee; 0x78a5636f; 0x84c87814; 0x8cc70208; 0x90befffa; 0xa4506ceb; 0xbef9a3f7; 0xc67178f2].

Definition ssig0 x := N.lxor (N.lxor (rotr32 7 x) (rotr32 18 x)) (N.shiftr x 3).
Definition ssig1 x := N.lxor (N.lxor (rotr32 17 x) (rotr32 19 x)) (N.shiftr x 10).
Definition bsig0 x := N.lxor (N.lxor (rotr32 2 x) (rotr32 13 x)) (rotr32 22 x).
Definition bsig1 x := N.lxor (N.lxor (rotr32 6 x) (rotr32 11 x)) (rotr32 25 x).

Fixpoint sha256_sched (n : nat) (rw : list N) : list N :=
  match n with
  | O => rw
  | S n' =>
    let x := add32 (add32 (ssig1 (nth 1 rw 0)) (nth 6 rw 0)) (add32 (ssig0 (nth 14 rw 0)) (nth 15 rw 0)) in
    sha256_sched n' (x :: rw)
  end.

Definition st8 := (N * N * N * N * N * N * N * N)%type.
Definition sha256_round (s : st8) (wk : N * N) : st8 :=
  let '(a, b, c, d, e, f, g, h) := s in
  let '(w, k) := wk in
  let ch := N.lxor (N.land e f) (N.land (not32 e) g) in
  let maj := N.lxor (N.lxor (N.land a b) (N.land a c)) (N.land b c) in
  let t1 := add32 (add32 (add32 h (bsig1 e)) (add32 ch k)) w in
  let t2 := add32 (bsig0 a) maj in
  (add32 t1 t2, a, b, c, add32 d t1, e, f, g).

Definition sha256_block (hh : st8) (blk : bytes) : st8 :=
  let ws := rev (sha256_sched 48 (rev (words blk))) in
  let '(a, b, c, d, e, f, g, h) := fold_left sha256_round (combine ws k256) hh in
  let '(h0, h1, h2, h3, h4, h5, h6, h7) := hh in
  (add32 h0 a, add32 h1 b, add32 h2 c, add32 h3 d, add32 h4 e, add32 h5 f, add32 h6 g, add32 h7 h).

Definition sha256 (m : bytes) : bytes :=
  let p := sha_pad m in
  let '(a, b, c, d, e, f, g, h) :=
    fold_left sha256_block (chunks (length p) 64 p)
              (0x6a09e667, 0xbb67ae85, 0x3c6ef372, 0xa54ff53a, 0x510e527f, 0x9b05688c, 0x1f83d9ab, 0x5be0cd19) in
  u32 a ++ u32 b ++ u32 c ++ u32 d ++ u32 e ++ u32 f ++ u32 g ++ u32 h.
