(* Props/C06.v — property C06 (zone files denote what RFC 1035 section 5 says).
   Only statements; each is closed by [exact] of a lemma proved in Proofs/.
   The specification is Model/ZoneSpec.v (abstract zones, [denote], token
   skeletons); the parser model is Model/Zone.v. *)
From Dns Require Import Model.ZoneSpec Proofs.ZoneSpecProofs.
Open Scope N_scope.

(* Relative names are completed with the current origin, @ is the origin,
   absolute names are kept: for every name that may be written. *)
Theorem name_completion :
  forall (origin n : bytes),
    origin <> [] -> (n = [64] \/ (is_domain_name n = true /\ n <> [10])) ->
    to_absolute_name n origin = Some (complete origin n).
Proof. exact to_absolute_complete. Qed.

(* TTL unit suffixes: the parser's value of a TTL text is the weighted sum
   (w d h m s, either case, a trailing number counts seconds) whenever the
   64-bit computation does not wrap; values above 2^32-1 are rejected. *)
Theorem ttl_units :
  forall s : bytes,
    ttl_nowrap s 0 0 = true ->
    string_to_ttl s = match ttl_of_text s with
                      | Some v => if 4294967295 <? v then None else Some v
                      | None => None
                      end.
Proof. exact string_to_ttl_spec. Qed.
