package main

// C15: incoming zone transfers (Transfer.In -> inAxfr / inIxfr) deliver the
// zone exactly, stop at the closing SOA, hide no error; with TSIG every
// envelope is verified against the running MAC chain.
//
// The real Transfer.In is driven over a scripted net.Conn that serves the
// envelope sequence chosen by the generators (any composition of the record
// stream, faults at chosen positions, real HMAC signatures built with the
// public dns.TsigGenerate), and over a real loopback TCP server that uses
// Transfer.Out.  Observed: the sequence of Envelope{RR, Error} values received
// from the channel, closure of the channel, Close on the connection, and how
// many frames were read from the connection.

import (
	"errors"
	"fmt"
	"io"
	"net"
	"os"
	"strings"
	"sync"
	"time"

	"github.com/miekg/dns"
	. "verif/harness/common"
)

func main() { Main(runC15) }

const (
	zone     = "z.example."
	keyName  = "axfr."
	keyOther = "other."
	keySecond = "second." // the receiver holds secret2 under this name
	secret   = "so6ZGir4GPAqINNh9U5c3A=="
	secret2  = "c2VjcmV0LW51bWJlci10d28="
)

// ---------------------------------------------------------------- records
type rrd struct {
	Soa    bool   `json:"soa,omitempty"`
	Serial uint32 `json:"serial,omitempty"`
	Pid    int    `json:"pid,omitempty"`
	// Pad > 0: a TXT record p<pid>.z.example. whose wire form is exactly Pad octets (rich.go)
	Pad int `json:"pad,omitempty"`
	// Rich: a record of any registered type (rich.go); Txt is its text for the replay input
	Rich dns.RR `json:"-"`
	Txt  string `json:"rr,omitempty"`
}

func S(serial uint32) rrd { return rrd{Soa: true, Serial: serial} }
func A(pid int) rrd       { return rrd{Pid: pid} }

func (r rrd) String() string {
	if r.Soa {
		return fmt.Sprintf("s%d", r.Serial)
	}
	return fmt.Sprintf("a%d", r.Pid)
}
func (r rrd) RR() dns.RR {
	if r.Soa {
		return &dns.SOA{Hdr: dns.RR_Header{Name: zone, Rrtype: dns.TypeSOA, Class: dns.ClassINET, Ttl: 3600},
			Ns: "ns." + zone, Mbox: "h." + zone, Serial: r.Serial, Refresh: 1, Retry: 2, Expire: 3, Minttl: 4}
	}
	if r.Rich != nil {
		return dns.Copy(r.Rich) // the sender's own copy: nothing the receiver holds shares memory with it
	}
	if r.Pad > 0 {
		return padRR(r.Pid, r.Pad)
	}
	return &dns.A{Hdr: dns.RR_Header{Name: fmt.Sprintf("r%d.%s", r.Pid, zone), Rrtype: dns.TypeA, Class: dns.ClassINET, Ttl: 60},
		A: net.IPv4(10, byte(r.Pid>>16), byte(r.Pid>>8), byte(r.Pid)).To4()}
}
// wireKey: the uncompressed wire form of a record, as a map key ("" when it
// cannot be packed)
func wireKey(r dns.RR) (k string) {
	defer func() {
		if recover() != nil {
			k = ""
		}
	}()
	if r == nil {
		return ""
	}
	buf := make([]byte, dns.Len(r)+16)
	off, err := dns.PackRR(r, buf, 0, nil, false)
	if err != nil {
		buf = make([]byte, 1<<17)
		if off, err = dns.PackRR(r, buf, 0, nil, false); err != nil {
			return ""
		}
	}
	return string(buf[:off])
}

// recTable: wire form -> name (s<serial>, a<pid>) of every record the case
// transmits.  A received record is named after the transmitted record it is
// octet for octet (owner, type, class, TTL, RDATA) equal to, "q" when there is
// none.
type recTable map[string]string

func (c xcase) table() recTable {
	t := recTable{}
	add := func(x rrd) {
		if k := wireKey(x.RR()); k != "" {
			if _, ok := t[k]; !ok {
				t[k] = x.String()
			}
		}
	}
	for _, r := range c.Reads {
		for _, x := range r.RRs {
			add(x)
		}
	}
	add(A(1)) // the records of a cut frame that has none of its own (buildStream)
	add(A(2))
	return t
}
func (t recTable) showRR(r dns.RR) string {
	if n, ok := t[wireKey(r)]; ok {
		return n
	}
	return "q"
}
func (t recTable) showRRs(rs []dns.RR) string {
	s := make([]string, len(rs))
	for i, r := range rs {
		s[i] = t.showRR(r)
	}
	return strings.Join(s, ",")
}
func showRrds(rs []rrd) string {
	s := make([]string, len(rs))
	for i, r := range rs {
		s[i] = r.String()
	}
	return strings.Join(s, ",")
}

// ---------------------------------------------------------------- case description
type sigSpec struct {
	Key    int  `json:"key"`  // 0 right key, 1 same name other secret, 2 unknown key name
	Prev   int  `json:"prev"` // tag of the MAC it is chained to
	To     bool `json:"timers_only"`
	Tag    int  `json:"tag"`
	Tamper bool `json:"tamper,omitempty"`
	TimeOK bool `json:"time_ok"`
	// Ref: signed by the harness's own RFC 8945 signer (wire.go) instead of dns.TsigGenerate
	Ref bool `json:"ref,omitempty"`
	// Orig: the sender signs the message under this ID (TSIG Original ID, the ID the
	// MAC covers) and the header then carries readSpec.Id: a valid MAC over an
	// Original ID that is not the header ID (RFC 8945 4.2)
	Orig *uint16 `json:"orig_id,omitempty"`
}
type readSpec struct {
	Fail  bool     `json:"fail,omitempty"`   // a frame cut after Keep octets, then the connection ends
	Keep  int      `json:"keep,omitempty"`   // octets of the cut frame that are still delivered (incl. length prefix)
	Id    uint16   `json:"id,omitempty"`
	Rcode int      `json:"rcode,omitempty"`
	RRs   []rrd    `json:"rrs,omitempty"`
	Sig   *sigSpec `json:"sig,omitempty"`
	// Muts: edits of the packed (and signed) envelope on its way to the receiver
	Muts []mutSpec `json:"muts,omitempty"`
	// Hdr: how the sender composes this envelope beside its records (shape.go);
	// nil = question section present as asked, AA set, no OPT, xcase.Compress
	Hdr *hdrSpec `json:"envelope_shape,omitempty"`
}
type xcase struct {
	Kind    string     `json:"kind"` // axfr | ixfr
	Tsig    bool       `json:"tsig"` // Transfer.TsigSecret configured
	QSigned bool       `json:"query_signed"`
	Qid     uint16     `json:"qid"`
	Qser    uint32     `json:"qser"`
	Reads   []readSpec `json:"reads"`
	Chunk   int        `json:"chunk"`   // the scripted conn returns at most this many octets per Read
	Stall   bool       `json:"stall"`   // at the end of the script reads time out instead of EOF
	Family  string     `json:"family"`
	Alg     string     `json:"alg,omitempty"` // HMAC algorithm of query and envelopes ("" = hmac-sha256.)
	Compress bool      `json:"compress,omitempty"` // envelopes packed with name compression
	// key configuration of this transfer ("" = keyName / secret / secret2); seq.go
	// runs sequences of transfers in one process in which it changes
	KeyName    string            `json:"key_name,omitempty"`        // the name of the key of query and envelopes
	RecvSecret string            `json:"receiver_secret,omitempty"` // what Transfer.TsigSecret holds under that name
	SendSecret string            `json:"other_secret,omitempty"`    // the secret of a sender whose sigSpec.Key is 1
	RecvKeys   map[string]string `json:"receiver_other_keys,omitempty"` // further entries of Transfer.TsigSecret
	Step       string            `json:"step,omitempty"`            // position in its sequence, what came before
	Reused     bool              `json:"transfer_value_reused,omitempty"`
	// Pace: the connection honours read deadlines, the sender paces its envelopes
	// and the consumer pauses between items (pace.go)
	Pace *paceSpec `json:"pace,omitempty"`
	// Dgram: Transfer.Conn is a caller-supplied datagram connection (a net.PacketConn, as
	// dns.Dial("udp", ...) gives one): every envelope is one datagram, no length prefix
	// (IXFR over UDP, RFC 1995 section 2); UDPSize is the field of that dns.Conn (dgram.go)
	Dgram   bool   `json:"datagram_conn,omitempty"`
	UDPSize uint16 `json:"udp_size,omitempty"`
	// how the TSIG names are spelled (names.go).  KeyName is the key name as the caller
	// wrote it in Transfer.TsigSecret and SetTsig; AlgSpell the algorithm name as the caller
	// wrote it in SetTsig ("" = the lower case constant of Alg); PeerKeyName / PeerAlg what
	// the peer puts on the wire in its envelopes ("" = the caller's spelling, echoed)
	AlgSpell    string `json:"alg_as_spelled,omitempty"`
	PeerKeyName string `json:"peer_key_name_on_the_wire,omitempty"`
	PeerAlg     string `json:"peer_alg_on_the_wire,omitempty"`
}

// algName: the algorithm name as the caller spells it
func (c xcase) algName() string {
	if c.AlgSpell != "" {
		return c.AlgSpell
	}
	return algOf(c.Alg).name
}

// peerKey / peerAlg: key and algorithm name as the peer spells them on the wire
func (c xcase) peerKey() string {
	if c.PeerKeyName != "" {
		return c.PeerKeyName
	}
	return c.kname()
}
func (c xcase) peerAlg() string {
	if c.PeerAlg != "" {
		return c.PeerAlg
	}
	return c.algName()
}

func (c xcase) kname() string {
	if c.KeyName != "" {
		return c.KeyName
	}
	return keyName
}
func (c xcase) rsecret() string {
	if c.RecvSecret != "" {
		return c.RecvSecret
	}
	return secret
}
func (c xcase) osecret() string {
	if c.SendSecret != "" {
		return c.SendSecret
	}
	return secret2
}

// what Transfer.TsigSecret is for this case
func (c xcase) recvKeys() map[string]string {
	m := map[string]string{keySecond: secret2}
	for k, v := range c.RecvKeys {
		m[k] = v
	}
	m[c.kname()] = c.rsecret()
	return m
}

func (c xcase) m0tag() int {
	if c.Tsig && c.QSigned {
		return 1
	}
	return 0
}

func b2s(b bool) string {
	if b {
		return "1"
	}
	return "0"
}
func (r readSpec) arg() string {
	if r.Fail {
		return "x"
	}
	// what the receiver gets: header ID and RCODE after the edits; the MAC is
	// no longer the one computed over the envelope when an edit touched
	// anything the digest covers
	id, rcode := r.Id, r.Rcode
	tamper, key := false, -1
	for _, m := range r.Muts {
		switch m.Kind {
		case mHdrID:
			id ^= uint16(m.N)
		case mHdrIDOrig:
			id ^= uint16(m.N)
			tamper = true
		case mHdrRcode:
			rcode = m.N & 0xf
			tamper = true
		case mKeyUnknown:
			key = 2
		case mKeySecond:
			key = 1
		default:
			tamper = true
		}
	}
	sg := "n"
	if r.Sig != nil {
		s := r.Sig
		if key < 0 {
			key = s.Key
		}
		sg = fmt.Sprintf("%d.%d.%s.%d.%s.%s", key, s.Prev, b2s(s.To), s.Tag, b2s(s.Tamper || tamper), b2s(s.TimeOK))
	}
	return fmt.Sprintf("%d:%d:%s:%s", id, rcode, sg, showRrds(r.RRs))
}

// modelled: every edit of every read is one the model describes
func (c xcase) modelled() bool {
	for _, r := range c.Reads {
		for _, m := range r.Muts {
			if !m.modelled() {
				return false
			}
		}
	}
	return true
}
func (c xcase) args() []string {
	a := []string{b2s(c.Tsig), Itoa(int(c.Qid)), fmt.Sprint(c.Qser), Itoa(c.m0tag())}
	for _, r := range c.Reads {
		a = append(a, r.arg())
	}
	return a
}

// ---------------------------------------------------------------- scripted connection
type scriptConn struct {
	mu       sync.Mutex
	script   func(query []byte) ([]byte, []int) // stream, frame end offsets
	started  bool
	wrote    []byte
	data     []byte
	ends     []int
	off      int
	chunk    int
	stall    bool
	closed   int
	readsAfterClose int
	// the read deadline in force and when it was installed (SetReadDeadline /
	// SetDeadline); pace != nil: the connection honours it (pace.go)
	rdl, rdlSet time.Time
	noDeadline  int // envelope reads begun with no read deadline in force
	pace        *pacer
	// dgram: a datagram connection (dgram.go) - every frame of the script is one
	// datagram (its payload: the frame without the length prefix), a Read takes one
	// datagram and what does not fit into the caller's buffer is discarded
	dgram     bool
	writes    int // Write calls
	discarded int // octets of datagrams that did not fit into the buffer of the Read that took them
}

type timeoutErr struct{}

func (timeoutErr) Error() string   { return "i/o timeout" }
func (timeoutErr) Timeout() bool   { return true }
func (timeoutErr) Temporary() bool { return true }

func (s *scriptConn) Read(p []byte) (int, error) {
	s.mu.Lock()
	defer s.mu.Unlock()
	if s.closed > 0 {
		s.readsAfterClose++
		return 0, net.ErrClosed
	}
	if !s.started {
		s.started = true
		s.data, s.ends = s.script(s.wrote)
	}
	if s.off >= len(s.data) {
		if s.stall {
			return 0, timeoutErr{}
		}
		return 0, io.EOF
	}
	if k, atStart := s.frameAt(); atStart {
		if s.rdl.IsZero() {
			s.noDeadline++
		}
		if s.pace != nil {
			if err := s.pace.beginRead(s, k); err != nil {
				return 0, err
			}
		}
	}
	if s.dgram {
		// the next datagram, whole: data[off+2 : end of its frame] (a frame the
		// script cut short is a datagram cut short)
		k, _ := s.frameAt()
		end := len(s.data)
		if k < len(s.ends) && s.ends[k] < end {
			end = s.ends[k]
		}
		var payload []byte
		if s.off+2 < end {
			payload = s.data[s.off+2 : end]
		}
		n := copy(p, payload)
		s.discarded += len(payload) - n
		s.off = end
		if s.pace != nil {
			s.pace.delivered(s)
		}
		return n, nil
	}
	n := len(p)
	if s.chunk > 0 && n > s.chunk {
		n = s.chunk
	}
	if n > len(s.data)-s.off {
		n = len(s.data) - s.off
	}
	copy(p, s.data[s.off:s.off+n])
	s.off += n
	if s.pace != nil {
		s.pace.delivered(s)
	}
	return n, nil
}
func (s *scriptConn) Write(p []byte) (int, error) {
	s.mu.Lock()
	defer s.mu.Unlock()
	if s.closed > 0 {
		return 0, net.ErrClosed
	}
	s.writes++
	if s.dgram {
		// one datagram; kept as the stream transports frame it (length first), so that
		// everything that looks at the query finds it where it always is
		s.wrote = append(s.wrote, byte(len(p)>>8), byte(len(p)))
	}
	s.wrote = append(s.wrote, p...)
	if s.pace != nil {
		s.pace.wrote()
	}
	return len(p), nil
}
func (s *scriptConn) Close() error {
	s.mu.Lock()
	defer s.mu.Unlock()
	s.closed++
	return nil
}
func (s *scriptConn) LocalAddr() net.Addr                { return &net.TCPAddr{IP: net.IPv4(127, 0, 0, 1), Port: 1} }
func (s *scriptConn) RemoteAddr() net.Addr               { return &net.TCPAddr{IP: net.IPv4(127, 0, 0, 1), Port: 2} }
func (s *scriptConn) SetDeadline(t time.Time) error      { return s.SetReadDeadline(t) }
func (s *scriptConn) SetReadDeadline(t time.Time) error {
	s.mu.Lock()
	defer s.mu.Unlock()
	s.rdl = t
	if s.pace != nil {
		s.rdlSet = time.Now()
	}
	return nil
}
func (s *scriptConn) SetWriteDeadline(t time.Time) error { return nil }

// frameAt: the frame the next octet belongs to, and whether that octet is its
// first one (s.mu held, data not exhausted)
func (s *scriptConn) frameAt() (k int, atStart bool) {
	start := 0
	for k = 0; k < len(s.ends) && s.ends[k] <= s.off; k++ {
		start = s.ends[k]
	}
	return k, s.off == start
}

// frames consumed = number of complete frames whose last octet was read, plus
// one if a cut frame was (partly) read
func (s *scriptConn) framesConsumed() int {
	s.mu.Lock()
	defer s.mu.Unlock()
	n := 0
	prev := 0
	for _, e := range s.ends {
		if s.off >= e && e > prev {
			n++
		} else if s.off > prev && s.off < e {
			n++ // inside this frame
		}
		prev = e
	}
	return n
}

// ---------------------------------------------------------------- building the stream
func question(kind string) dns.Question {
	t := dns.TypeAXFR
	if kind == "ixfr" {
		t = dns.TypeIXFR
	}
	return dns.Question{Name: zone, Qtype: t, Qclass: dns.ClassINET}
}

// buildFrame packs one envelope; macs maps tags to MAC strings (hex).
func buildFrame(c xcase, r readSpec, macs map[int]string, now int64) []byte {
	m := new(dns.Msg)
	m.Id = r.Id
	if r.Sig != nil && r.Sig.Orig != nil {
		m.Id = *r.Sig.Orig
	}
	m.Response = true
	m.Authoritative = true
	m.Rcode = r.Rcode
	m.Question = []dns.Question{question(c.Kind)}
	m.Compress = c.Compress
	for _, x := range r.RRs {
		m.Answer = append(m.Answer, x.RR())
	}
	if r.Hdr != nil {
		r.Hdr.apply(c, m)
	}
	plain, err := m.Pack()
	if err != nil {
		panic(err)
	}
	out := plain
	tsigAt := -1
	var prevMAC []byte
	if r.Sig != nil {
		s := r.Sig
		name, sec := c.peerKey(), c.rsecret()
		switch s.Key {
		case 1:
			sec = c.osecret()
		case 2:
			name = keyOther
		}
		ts := now
		if !s.TimeOK {
			ts = now - 4000
		}
		prev, ok := macs[s.Prev]
		if !ok {
			panic(fmt.Sprintf("unknown prev tag %d", s.Prev))
		}
		prevMAC = Unhx(prev)
		var b []byte
		var mac string
		if s.Ref {
			b, mac = refSign(plain, name, c.peerAlg(), sec, uint64(ts), 300, prev, s.To)
		} else {
			m.SetTsig(name, c.peerAlg(), 300, ts)
			b, mac, err = dns.TsigGenerate(m, sec, prev, s.To)
			if err != nil {
				// the sender's side of the library refuses to sign a well-formed envelope: reported,
				// and the envelope is signed by the harness's own signer so that the run goes on
				Viol("C15/tsig-generate-error", "dns.TsigGenerate failed for a well-formed envelope, key and algorithm: "+err.Error(),
					map[string]any{"case": c, "key_name": name, "algorithm": c.peerAlg()})
				b, mac = refSign(plain, name, c.peerAlg(), sec, uint64(ts), 300, prev, s.To)
			}
		}
		if _, dup := macs[s.Tag]; !dup {
			macs[s.Tag] = mac
		}
		out = b
		tsigAt = len(plain)
		if s.Orig != nil {
			out = clone(b)
			out[0], out[1] = byte(r.Id>>8), byte(r.Id)
		}
		if s.Tamper {
			out = clone(out)
			out[len(plain)-1] ^= 1 // last octet before the TSIG RR: rdata of the last answer (or the question class)
		}
	}
	for _, mu := range r.Muts {
		out = applyMut(out, tsigAt, mu, prevMAC)
		if mu.positional() {
			tsigAt = -1 // the TSIG record is no longer the tail of the message: no further edit of its fields
		}
	}
	f := make([]byte, 2+len(out))
	f[0], f[1] = byte(len(out)>>8), byte(len(out))
	copy(f[2:], out)
	return f
}

func buildStream(c xcase, query []byte) ([]byte, []int) {
	macs := map[int]string{0: ""}
	if len(query) > 2 {
		qm := new(dns.Msg)
		if err := qm.Unpack(query[2:]); err == nil {
			if t := qm.IsTsig(); t != nil {
				macs[1] = t.MAC
			}
		}
	}
	if _, ok := macs[1]; !ok {
		macs[1] = "0000000000000000"
	}
	now := time.Now().Unix()
	// pre-pass: logical chain tags (Tag >= 2, default form) so that reordered
	// envelopes can refer to MACs of envelopes transmitted later
	pending := map[int]readSpec{}
	for _, r := range c.Reads {
		if r.Sig != nil && !r.Fail {
			if _, ok := pending[r.Sig.Tag]; !ok {
				pending[r.Sig.Tag] = r
			}
		}
	}
	for progress := true; progress; {
		progress = false
		for tag, r := range pending {
			if _, ok := macs[r.Sig.Prev]; ok {
				buildFrame(c, r, macs, now)
				delete(pending, tag)
				progress = true
			}
		}
	}
	for tag := range pending { // unresolvable prev: chain it to a fresh unknown MAC
		macs[pending[tag].Sig.Prev] = "ffffffffffffffff"
	}
	var data []byte
	var ends []int
	for _, r := range c.Reads {
		if r.Fail {
			// a cut frame: keep only the first r.Keep octets of the frame
			full := r
			full.Fail = false
			if len(full.RRs) == 0 && full.Sig == nil {
				full = readSpec{Id: c.Qid, RRs: []rrd{A(1), A(2)}}
			}
			f := buildFrame(c, full, macs, now)
			k := r.Keep
			if k < 1 {
				k = 1
			}
			if k > len(f)-1 {
				k = len(f) - 1
			}
			data = append(data, f[:k]...)
			ends = append(ends, len(data)+(len(f)-k))
			break
		}
		data = append(data, buildFrame(c, r, macs, now)...)
		ends = append(ends, len(data))
	}
	return data, ends
}

// ---------------------------------------------------------------- running the real Transfer.In
type obs struct {
	items    []string // "rrs:err", rendered after the channel was closed
	atRecv   []string // the same, rendered at the moment the item was received
	envs     []*dns.Envelope
	bad      []string // text of received records that are none of the transmitted ones
	errs     []string
	nrr      []int
	closed   bool
	infra    string
	connClosedAtChanClose int
	frames   int
	readsAfterClose int
	inErr    string
	query    []byte // what Transfer.In wrote to the connection
	noDeadline int       // envelope reads begun with no read deadline in force
	paceLog    []paceRow // paced transfers: the deadline in force at every envelope read
	writes     int       // Write calls on the connection
	discarded  int       // datagram connection: octets that did not fit into the library's read buffer
}

func errClass(err error) string {
	switch {
	case err == nil:
		return "-"
	case errors.Is(err, dns.ErrId):
		return "id"
	case errors.Is(err, dns.ErrSoa):
		return "soa"
	case errors.Is(err, dns.ErrSig):
		return "sig"
	case errors.Is(err, dns.ErrNoSig):
		return "nosig"
	case errors.Is(err, dns.ErrSecret):
		return "secret"
	case errors.Is(err, dns.ErrTime):
		return "time"
	case errors.Is(err, dns.ErrAuth):
		return "auth"
	case strings.Contains(err.Error(), "bad xfr rcode"):
		return "rcode"
	}
	return "read"
}

func mkQuery(c xcase) *dns.Msg {
	q := new(dns.Msg)
	if c.Kind == "axfr" {
		q.SetAxfr(zone)
	} else {
		q.SetIxfr(zone, c.Qser, "ns."+zone, "h."+zone)
	}
	q.Id = c.Qid
	if c.Tsig && c.QSigned {
		q.SetTsig(c.kname(), c.algName(), 300, time.Now().Unix())
	}
	return q
}

// collect keeps every envelope it receives, as a caller of Transfer.In that
// assembles the zone does.  What was delivered is rendered twice: at the
// moment of reception and again after the channel was closed, i.e. after every
// later envelope has been read - the records handed out must still be the
// transmitted ones then.
func collect(c xcase, ch chan *dns.Envelope, atClose func() int) (o obs) {
	return collectPaused(c, ch, atClose, nil)
}

// collectPaused: before(j) runs before the consumer asks for item j (a consumer
// that takes its time between envelopes: pace.go)
func collectPaused(c xcase, ch chan *dns.Envelope, atClose func() int, before func(j int)) (o obs) {
	t := c.table()
	defer func() {
		for _, e := range o.envs {
			cl := errClass(e.Error)
			o.items = append(o.items, t.showRRs(e.RR)+":"+cl)
			for _, r := range e.RR {
				if t.showRR(r) == "q" && len(o.bad) < 4 {
					o.bad = append(o.bad, Protect(func() string {
						s := fmt.Sprint(r)
						if len(s) > 300 {
							s = s[:300] + "..."
						}
						return s
					}))
				}
			}
		}
	}()
	for j := 0; ; j++ {
		if before != nil {
			before(j)
		}
		select {
		case e, ok := <-ch:
			if !ok {
				o.closed = true
				o.connClosedAtChanClose = atClose()
				return
			}
			cl := errClass(e.Error)
			o.envs = append(o.envs, e)
			o.atRecv = append(o.atRecv, t.showRRs(e.RR)+":"+cl)
			o.errs = append(o.errs, cl)
			o.nrr = append(o.nrr, len(e.RR))
		case <-time.After(20 * time.Second):
			o.infra = "timeout waiting for the envelope channel"
			return
		}
	}
}

func runScripted(c xcase) obs { return runScriptedOn(new(dns.Transfer), c) }

// runScriptedOn: the transfer described by c made with the Transfer value t (a
// new one, or one that has made other transfers before: seq.go)
func runScriptedOn(t *dns.Transfer, c xcase) obs {
	sc := &scriptConn{chunk: c.Chunk, stall: c.Stall, dgram: c.Dgram}
	sc.script = func(q []byte) ([]byte, []int) { return buildStream(c, q) }
	t.Conn = &dns.Conn{Conn: sc}
	if c.Dgram {
		t.Conn = &dns.Conn{Conn: dgramConn{sc}, UDPSize: c.UDPSize}
	}
	t.TsigSecret = nil
	if c.Tsig {
		t.TsigSecret = c.recvKeys()
	}
	t.ReadTimeout = 0
	var before func(j int)
	if c.Pace != nil {
		t.ReadTimeout = c.Pace.readTimeoutField()
		sc.pace = newPacer(c.Pace)
		before = func(j int) { sc.pace.consumerBefore(sc, j) }
	}
	ch, err := t.In(mkQuery(c), "scripted")
	if err != nil {
		return obs{inErr: err.Error()}
	}
	o := collectPaused(c, ch, func() int { sc.mu.Lock(); defer sc.mu.Unlock(); return sc.closed }, before)
	o.frames = sc.framesConsumed()
	sc.mu.Lock()
	o.noDeadline = sc.noDeadline
	if sc.pace != nil {
		o.paceLog = sc.pace.log
	}
	sc.mu.Unlock()
	sc.mu.Lock()
	o.query = clone(sc.wrote)
	o.writes, o.discarded = sc.writes, sc.discarded
	sc.mu.Unlock()
	// A frame cut short is one class of failed read in the model.  Depending on
	// where the cut falls the error is EOF, unexpected EOF, an unpack error or
	// (header-only remainder with TSIG configured) a TSIG error: all are "read".
	if k := len(c.Reads); k > 0 && c.Reads[k-1].Fail && len(o.items) == k && o.errs[k-1] != "-" {
		st["cut_frame_error_was_"+o.errs[k-1]]++
		o.errs[k-1] = "read"
		o.items[k-1] = o.items[k-1][:strings.LastIndex(o.items[k-1], ":")] + ":read"
		o.atRecv[k-1] = o.atRecv[k-1][:strings.LastIndex(o.atRecv[k-1], ":")] + ":read"
	}
	sc.mu.Lock()
	o.readsAfterClose = sc.readsAfterClose
	sc.mu.Unlock()
	return o
}

// ---------------------------------------------------------------- expectations (direct oracles)
// A case built by the generators carries what the property text demands of it.
type expect struct {
	// deliver: the transfer must deliver exactly Reads[0:deliver] without error ...
	deliver int
	// ... and then: "done" (complete, channel closed, nothing further read) or
	// "error" (one more item carrying an error)
	then string
	key  string // finding key used when the expectation fails
	why  string
}

var st = map[string]int{}

func check(c xcase, o obs, ex *expect) {
	st["transfers_checked"]++
	in := map[string]any{"case": c, "observed": o.items}
	if len(o.bad) > 0 {
		in["received_records_that_were_not_transmitted"] = o.bad
	}
	if o.paceLog != nil {
		in["read_deadline_at_every_envelope_read"] = o.paceLog
	}
	st["envelope_reads_begun_with_no_read_deadline"] += o.noDeadline
	if o.inErr != "" {
		Viol("C15/in-error", "Transfer.In returned an error on a writable connection: "+o.inErr, in)
		return
	}
	if o.infra != "" {
		// the scripted connection never blocks, so this is the code not closing the channel
		Viol("C15/channel-not-closed", o.infra, in)
		return
	}
	// universal clauses, whatever was sent
	if !o.closed {
		Viol("C15/channel-not-closed", "channel not closed", in)
	}
	if o.connClosedAtChanClose < 1 {
		Viol("C15/conn-not-closed", "channel closed while the connection was not closed", in)
	}
	if o.readsAfterClose > 0 {
		Viol("C15/read-after-close", "connection read after it was closed", in)
	}
	for i, e := range o.errs {
		if e != "-" && i != len(o.errs)-1 {
			Viol("C15/items-after-error", "envelopes delivered after an error", in)
		}
	}
	if len(o.items) == 0 {
		Viol("C15/closed-without-item", "channel closed without any envelope or error", in)
		return
	}
	for i := range o.items {
		if o.items[i] != o.atRecv[i] {
			in["observed_when_received"] = o.atRecv
			Viol("C15/records-changed-after-delivery", fmt.Sprintf("the records of envelope %d were %s when it was received and are %s after the rest of the transfer was read: what was delivered is no longer what was transmitted", i, o.atRecv[i], o.items[i]), in)
			break
		}
	}
	checkQuery(c, o, in)
	if c.Dgram {
		checkDatagramQuery(c, o, in)
	}
	if ex == nil {
		return
	}
	st["expectations_checked"]++
	fail := func(msg string) {
		Viol(ex.key, ex.why+": "+msg, in)
	}
	// prefix delivered exactly
	for i := 0; i < ex.deliver; i++ {
		if i >= len(o.items) {
			fail(fmt.Sprintf("only %d envelopes delivered, %d expected", len(o.items), ex.deliver))
			return
		}
		want := showRrds(c.Reads[i].RRs) + ":-"
		if o.items[i] != want {
			fail(fmt.Sprintf("envelope %d is %s, transmitted %s", i, o.items[i], want))
			return
		}
	}
	switch ex.then {
	case "done":
		if len(o.items) != ex.deliver {
			fail(fmt.Sprintf("%d items received, the transfer is complete after %d", len(o.items), ex.deliver))
			return
		}
		if o.frames != ex.deliver {
			fail(fmt.Sprintf("%d frames read from the connection, closing SOA is in frame %d", o.frames, ex.deliver))
		}
	case "error":
		if len(o.items) != ex.deliver+1 {
			fail(fmt.Sprintf("%d items received, expected %d good ones and one error", len(o.items), ex.deliver))
			return
		}
		if o.errs[ex.deliver] == "-" {
			fail("no error reported")
		}
	}
}

// emit a model case
func emit(c xcase, o obs) {
	if o.inErr != "" || o.infra != "" {
		return
	}
	Emit(c.Kind, c.args(), strings.Join(o.items, "|")+";"+Itoa(o.frames))
	st["model_cases"]++
}

// ---------------------------------------------------------------- generators
// all compositions of a stream into non-empty consecutive envelopes
func compositions(stream []rrd) [][][]rrd {
	n := len(stream)
	if n == 0 {
		return [][][]rrd{{}}
	}
	var out [][][]rrd
	for mask := 0; mask < 1<<(n-1); mask++ {
		var envs [][]rrd
		cur := []rrd{stream[0]}
		for i := 1; i < n; i++ {
			if mask&(1<<(i-1)) != 0 {
				envs = append(envs, cur)
				cur = nil
			}
			cur = append(cur, stream[i])
		}
		envs = append(envs, cur)
		out = append(out, envs)
	}
	return out
}
func randomComposition(r *Rng, stream []rrd) [][]rrd {
	var envs [][]rrd
	cur := []rrd{stream[0]}
	for i := 1; i < len(stream); i++ {
		if r.Intn(3) == 0 {
			envs = append(envs, cur)
			cur = nil
		}
		cur = append(cur, stream[i])
	}
	return append(envs, cur)
}

// plain or correctly chained reads for the envelopes
func goodReads(c xcase, envs [][]rrd, signed bool) []readSpec {
	var rs []readSpec
	for i, e := range envs {
		r := readSpec{Id: c.Qid, RRs: e}
		if signed {
			prev := i + 1
			if i == 0 {
				prev = c.m0tag()
			}
			r.Sig = &sigSpec{Key: 0, Prev: prev, To: i > 0, Tag: i + 2, TimeOK: true}
		}
		rs = append(rs, r)
	}
	return rs
}

func posClass(k, n int) string {
	switch {
	case n == 1:
		return "only"
	case k == 0:
		return "first"
	case k == n-1:
		return "last"
	}
	return "middle"
}

func axfrStream(serial uint32, body int) []rrd {
	s := []rrd{S(serial)}
	for i := 0; i < body; i++ {
		s = append(s, A(i+1))
	}
	return append(s, S(serial))
}

type diffd struct {
	old, new   uint32
	dels, adds int
}

func ixfrStream(cur uint32, ds []diffd) []rrd {
	s := []rrd{S(cur)}
	p := 1
	for _, d := range ds {
		s = append(s, S(d.old))
		for i := 0; i < d.dels; i++ {
			s = append(s, A(p))
			p++
		}
		s = append(s, S(d.new))
		for i := 0; i < d.adds; i++ {
			s = append(s, A(p))
			p++
		}
	}
	return append(s, S(cur))
}

var caseNo int

func base(kind string, tsig bool, fam string, r *Rng) xcase {
	caseNo++
	c := xcase{Kind: kind, Tsig: tsig, QSigned: tsig, Qid: uint16(1000 + caseNo%50000), Qser: 3, Family: fam}
	switch r.Intn(4) {
	case 0:
		c.Chunk = 1
	case 1:
		c.Chunk = 3 + r.Intn(40)
	}
	c.Stall = r.Intn(4) == 0
	return c
}

func runOne(c xcase, ex *expect, emitIt bool) obs {
	o := runScripted(c)
	check(c, o, ex)
	if emitIt {
		emit(c, o)
	}
	st["family_"+c.Family]++
	return o
}

const (
	kExact = "C15/exact"
	kErr   = "C15/error-not-reported"
	kTsig  = "C15/tsig-not-enforced"
)

func runC15(r *Rng, tier string, n int) {
	thorough := tier == "thorough"
	maxLen := 6
	if thorough {
		maxLen = 9
	}

	// ---- P. the read deadline of every envelope: senders that pace their
	// envelopes, consumers that take their time (pace.go).  These transfers take
	// real time, so they run in the background while the other families run; their
	// verdicts are drawn by paced.finish() below.
	paced := startPaced(r, thorough)

	// ---- A. AXFR, every composition, without and with TSIG
	for _, tsig := range []bool{false, true} {
		for body := 0; body+2 <= maxLen; body++ {
			stream := axfrStream(5, body)
			for _, envs := range compositions(stream) {
				c := base("axfr", tsig, "axfr-exact", r)
				c.Reads = goodReads(c, envs, tsig)
				// something after the closing SOA that must not be read
				c.Reads = append(c.Reads, readSpec{Id: c.Qid, RRs: []rrd{A(99)}})
				runOne(c, &expect{deliver: len(envs), then: "done", key: kExact, why: "AXFR must deliver exactly the transmitted envelopes and stop at the closing SOA"}, true)
			}
		}
	}

	// ---- B. IXFR: difference sequences, AXFR-style fallback, up to date
	var ixStreams [][]rrd
	for dels := 0; dels <= 1; dels++ {
		for adds := 0; adds <= 1; adds++ {
			ixStreams = append(ixStreams, ixfrStream(5, []diffd{{3, 5, dels, adds}}))
		}
	}
	ixStreams = append(ixStreams, ixfrStream(5, []diffd{{3, 4, 0, 0}, {4, 5, 0, 0}}))
	if thorough {
		ixStreams = append(ixStreams, ixfrStream(5, []diffd{{3, 4, 1, 0}, {4, 5, 0, 1}}), ixfrStream(6, []diffd{{3, 4, 0, 0}, {4, 5, 0, 0}, {5, 6, 0, 0}}))
	}
	for _, tsig := range []bool{false, true} {
		for _, stream := range ixStreams {
			for _, envs := range compositions(stream) {
				c := base("ixfr", tsig, "ixfr-diffs", r)
				c.Reads = goodReads(c, envs, tsig)
				c.Reads = append(c.Reads, readSpec{Id: c.Qid, RRs: []rrd{A(99)}})
				runOne(c, &expect{deliver: len(envs), then: "done", key: kExact, why: "IXFR (RFC 1995 difference sequences) must deliver exactly the transmitted envelopes and stop at the closing SOA"}, true)
			}
		}
		for body := 0; body+2 <= maxLen-1; body++ {
			for _, envs := range compositions(axfrStream(5, body)) {
				c := base("ixfr", tsig, "ixfr-fallback", r)
				c.Reads = goodReads(c, envs, tsig)
				c.Reads = append(c.Reads, readSpec{Id: c.Qid, RRs: []rrd{A(99)}})
				runOne(c, &expect{deliver: len(envs), then: "done", key: kExact, why: "IXFR answered AXFR-style must deliver exactly the transmitted envelopes and stop at the closing SOA"}, true)
			}
		}
		// up to date: a single SOA whose serial is not above the client's
		for _, ser := range []uint32{1, 3} {
			c := base("ixfr", tsig, "ixfr-uptodate", r)
			c.Reads = goodReads(c, [][]rrd{{S(ser)}}, tsig)
			c.Reads = append(c.Reads, readSpec{Id: c.Qid, RRs: []rrd{A(99)}})
			runOne(c, &expect{deliver: 1, then: "done", key: kExact, why: "single-SOA up-to-date IXFR answer must end the transfer without error"}, true)
		}
		// a single SOA with a newer serial is not an answer yet: more must follow
		c := base("ixfr", tsig, "ixfr-single-newer", r)
		c.Reads = goodReads(c, [][]rrd{{S(5)}}, tsig)
		runOne(c, &expect{deliver: 1, then: "error", key: kErr, why: "stream ends after the first SOA of a newer version"}, true)
	}
	// longer streams, sampled compositions
	nLong := 40
	if thorough {
		nLong = 1500
	}
	for i := 0; i < nLong; i++ {
		tsig := r.Bool()
		var stream []rrd
		kind := "axfr"
		switch r.Intn(3) {
		case 0:
			stream = axfrStream(7, 5+r.Intn(20))
		case 1:
			kind = "ixfr"
			stream = axfrStream(7, 5+r.Intn(20))
		default:
			kind = "ixfr"
			k := 1 + r.Intn(4)
			var ds []diffd
			for j := 0; j < k; j++ {
				ds = append(ds, diffd{uint32(7 - k + j), uint32(7 - k + j + 1), r.Intn(4), r.Intn(4)})
			}
			stream = ixfrStream(7, ds)
		}
		envs := randomComposition(r, stream)
		c := base(kind, tsig, "long-sampled", r)
		c.Qser = 2
		c.Reads = goodReads(c, envs, tsig)
		c.Reads = append(c.Reads, readSpec{Id: c.Qid, RRs: []rrd{A(99)}})
		runOne(c, &expect{deliver: len(envs), then: "done", key: kExact, why: "transfer must deliver exactly the transmitted envelopes and stop at the closing SOA"}, true)
	}

	// ---- C. faults at every envelope position of every composition of small streams
	type fstream struct {
		kind   string
		stream []rrd
	}
	fstreams := []fstream{{"axfr", axfrStream(5, 2)}, {"ixfr", axfrStream(5, 2)}, {"ixfr", ixfrStream(5, []diffd{{3, 5, 1, 0}})}}
	if thorough {
		fstreams = append(fstreams, fstream{"axfr", axfrStream(5, 4)}, fstream{"ixfr", ixfrStream(5, []diffd{{3, 4, 1, 1}, {4, 5, 0, 1}})})
	}
	for _, fs := range fstreams {
		for _, envs := range compositions(fs.stream) {
			for k := 0; k < len(envs); k++ {
				for _, tsig := range []bool{false, true} {
					// wrong ID in envelope k
					c := base(fs.kind, tsig, "fault-id", r)
					c.Reads = goodReads(c, envs, tsig)
					c.Reads[k].Id = c.Qid + 1
					runOne(c, &expect{deliver: k, then: "error", key: kErr, why: "an envelope with a different ID must end the transfer with an error"}, !tsig || k%2 == 0)
					// non-zero RCODE in envelope k
					c = base(fs.kind, tsig, "fault-rcode", r)
					c.Reads = goodReads(c, envs, tsig)
					c.Reads[k].Rcode = dns.RcodeServerFailure
					key := kErr
					if fs.kind == "axfr" && k > 0 {
						key = "C15/axfr/rcode-ignored-after-first"
					}
					runOne(c, &expect{deliver: k, then: "error", key: key, why: "an envelope with a non-zero RCODE must end the transfer with an error"}, !tsig || k%2 == 0)
					// the connection ends before envelope k (k = 0: before anything)
					c = base(fs.kind, tsig, "fault-eof", r)
					c.Reads = goodReads(c, envs, tsig)[:k]
					runOne(c, &expect{deliver: k, then: "error", key: kErr, why: "a stream that ends before the closing SOA must end the transfer with an error"}, !tsig)
					// envelope k is cut inside the frame
					c = base(fs.kind, tsig, "fault-cut", r)
					all := goodReads(c, envs, tsig)
					part := all[k]
					part.Fail, part.Keep = true, 1+r.Intn(40)
					c.Reads = append(all[:k:k], part)
					runOne(c, &expect{deliver: k, then: "error", key: kErr, why: "a frame cut short must end the transfer with an error"}, !tsig)
				}
			}
			// first record not an SOA
			for _, tsig := range []bool{false, true} {
				c := base(fs.kind, tsig, "fault-nosoa", r)
				e2 := append([][]rrd{append([]rrd{A(50)}, envs[0]...)}, envs[1:]...)
				c.Reads = goodReads(c, e2, tsig)
				runOne(c, &expect{deliver: 0, then: "error", key: kErr, why: "a first record that is not an SOA must end the transfer with an error"}, true)
				c = base(fs.kind, tsig, "fault-empty-first", r)
				e3 := append([][]rrd{{}}, envs...)
				c.Reads = goodReads(c, e3, tsig)
				runOne(c, &expect{deliver: 0, then: "error", key: kErr, why: "an empty first answer must end the transfer with an error"}, true)
			}
		}
	}

	// ---- D. TSIG faults at every position
	tsigStreams := []fstream{{"axfr", axfrStream(5, 2)}, {"ixfr", ixfrStream(5, []diffd{{3, 5, 1, 1}})}}
	for _, fs := range tsigStreams {
		comps := compositions(fs.stream)
		for ci, envs := range comps {
			if !thorough && len(envs) > 4 && ci%2 == 1 {
				continue
			}
			for k := 0; k < len(envs); k++ {
				mk := func(fam string, f func(rs []readSpec) []readSpec) {
					c := base(fs.kind, true, fam, r)
					c.Reads = f(goodReads(c, envs, true))
					runOne(c, &expect{deliver: k, then: "error", key: kTsig, why: "TSIG configured: envelope " + Itoa(k) + " does not verify against the running MAC chain (" + fam + "), the transfer must end there with an error"}, true)
				}
				mk("tsig-tamper", func(rs []readSpec) []readSpec { rs[k].Sig.Tamper = true; return rs })
				mk("tsig-unsigned", func(rs []readSpec) []readSpec { rs[k].Sig = nil; return rs })
				mk("tsig-wrong-secret", func(rs []readSpec) []readSpec { rs[k].Sig.Key = 1; rs[k].Sig.Tag = 900; return rs })
				mk("tsig-unknown-key", func(rs []readSpec) []readSpec { rs[k].Sig.Key = 2; rs[k].Sig.Tag = 900; return rs })
				mk("tsig-bad-time", func(rs []readSpec) []readSpec { rs[k].Sig.TimeOK = false; rs[k].Sig.Tag = 900; return rs })
				mk("tsig-wrong-form", func(rs []readSpec) []readSpec { rs[k].Sig.To = !rs[k].Sig.To; rs[k].Sig.Tag = 900; return rs })
				mk("tsig-wrong-prev", func(rs []readSpec) []readSpec {
					if rs[k].Sig.Prev == 0 {
						rs[k].Sig.Prev = 1
					} else {
						rs[k].Sig.Prev = 0
					}
					rs[k].Sig.Tag = 900
					return rs
				})
				if k+1 < len(envs) {
					// envelope k dropped: envelope k+1 arrives in its place
					c := base(fs.kind, true, "tsig-drop", r)
					rs := goodReads(c, envs, true)
					c.Reads = append(rs[:k:k], rs[k+1:]...)
					runOne(c, &expect{deliver: k, then: "error", key: kTsig, why: "TSIG configured: an envelope was removed from the chain"}, true)
					// envelopes k and k+1 swapped
					c = base(fs.kind, true, "tsig-swap", r)
					rs = goodReads(c, envs, true)
					rs[k], rs[k+1] = rs[k+1], rs[k]
					c.Reads = rs
					runOne(c, &expect{deliver: k, then: "error", key: kTsig, why: "TSIG configured: two envelopes were reordered"}, true)
					// envelope k sent twice
					c = base(fs.kind, true, "tsig-dup", r)
					rs = goodReads(c, envs, true)
					c.Reads = append(append(rs[:k+1:k+1], rs[k]), rs[k+1:]...)
					runOne(c, &expect{deliver: k + 1, then: "error", key: kTsig, why: "TSIG configured: an envelope was duplicated"}, true)
				}
			}
		}
	}
	// TSIG configured, query unsigned, signed answers chained to the empty request MAC
	for _, envs := range compositions(axfrStream(5, 1)) {
		c := base("axfr", true, "tsig-query-unsigned", r)
		c.QSigned = false
		c.Reads = goodReads(c, envs, true)
		runOne(c, nil, true)
	}
	// TSIG not configured, signed answers: delivered as they are
	for _, envs := range compositions(axfrStream(5, 1)) {
		c := base("axfr", false, "tsig-off-signed-answers", r)
		c.Reads = goodReads(c, envs, true)
		runOne(c, &expect{deliver: len(envs), then: "done", key: kExact, why: "AXFR without TSIG configured"}, true)
	}
	// NOTAUTH answer with TSIG configured: ErrAuth
	{
		c := base("axfr", true, "tsig-notauth", r)
		c.Reads = goodReads(c, [][]rrd{{S(5), S(5)}}, true)
		c.Reads[0].Rcode = dns.RcodeNotAuth
		runOne(c, &expect{deliver: 0, then: "error", key: kErr, why: "NOTAUTH answer"}, true)
	}

	// ---- D2. TSIG configured: what can be done to a signed envelope on the path
	// without the key, at every envelope of every composition.  Every edit of
	// anything the RFC 8945 digest covers (and every removal / displacement of
	// the TSIG record) must end the transfer with an error at that envelope.
	macLens := func(full int) []int {
		var out []int
		seen := map[int]bool{}
		for _, l := range []int{0, 1, 2, 9, 10, 11, full/2 - 1, full / 2, full/2 + 1, full - 2, full - 1} {
			if l >= 0 && l < full && !seen[l] {
				seen[l] = true
				out = append(out, l)
			}
		}
		return out
	}
	pathMuts := func(full int) []mutSpec {
		ms := []mutSpec{{mMacBit, 0}, {mMacBit, 7}, {mMacBit, full*8 - 1}, {mMacBit, 8 + r.Intn(full*8-16)},
			{mMacExtend, 1}, {mMacExtend, full}, {mMacZero, 0}, {mMacPrev, 0},
			{mOrigID, 1}, {mOrigID, 0x100}, {mOrigID, 0xffff},
			{mTime, 1}, {mTime, -1}, {mTime, 301}, {mTime, -301}, {mTime, 1 << 32},
			{mFudge, 1}, {mFudge, -1}, {mFudge, 30000},
			{mKeyUnknown, 0}, {mKeySecond, 0}, {mAlgOther, 0}, {mAlgUnknown, 0},
			{mStrip, 0}, {mStripCount, 0}, {mRRAfter, 0}, {mRRBefore, 0}, {mTsigTwice, 0}, {mTsigAnswer, 0},
			{mError, 16}, {mError, 17}, {mError, 18}, {mOther, 6}, {mClass, 0}, {mTTL, 1}}
		for _, l := range macLens(full) {
			ms = append(ms, mutSpec{mMacTrunc, l})
		}
		return ms
	}
	withMuts := func(rs []readSpec, k int, ms ...mutSpec) []readSpec {
		rs[k].Muts = append([]mutSpec(nil), ms...)
		return rs
	}
	refSigned := func(rs []readSpec, ref bool) []readSpec {
		for i := range rs {
			if rs[i].Sig != nil {
				rs[i].Sig.Ref = ref
			}
		}
		return rs
	}
	runMut := func(kind string, envs [][]rrd, k int, mu mutSpec, alg string, ref bool, emitIt bool) {
		c := base(kind, true, "tsigmut-"+mu.Kind, r)
		c.Alg = alg
		c.Reads = withMuts(refSigned(goodReads(c, envs, true), ref), k, mu)
		c.Reads = append(c.Reads, readSpec{Id: c.Qid, RRs: []rrd{A(99)}})
		var ex *expect
		if k == 0 || !mu.fullFormOnly() {
			key := kTsig + "/" + mu.Kind
			if full := algOf(alg).size; mu.Kind == mMacTrunc && (mu.N < 10 || mu.N < full/2) {
				// shorter than anything RFC 8945 5.2.2.1 lets a receiver accept
				key += "-below-rfc-minimum"
			}
			ex = &expect{deliver: k, then: "error", key: key,
				why: "TSIG configured: envelope " + Itoa(k) + " was changed after it was signed (" + mu.String() + "), it cannot verify against the running MAC chain and the transfer must end there with an error"}
		} else {
			// RFC 8945 5.3.1: not part of what the MAC of a later envelope covers
			st["tsigmut_outside_timers_only_digest"]++
		}
		o := runOne(c, ex, emitIt && ex != nil && mu.modelled())
		st["tsigmut_pos_"+posClass(k, len(envs))]++
		if ex != nil && len(o.errs) == k+1 {
			st["tsigmut_error_was_"+o.errs[k]]++
		}
	}
	for si, fs := range tsigStreams {
		for ci, envs := range compositions(fs.stream) {
			if !thorough && len(envs) > 4 && ci%2 == 1 {
				continue
			}
			for k := 0; k < len(envs); k++ {
				for mi, mu := range pathMuts(32) {
					runMut(fs.kind, envs, k, mu, "", (ci+mi)%2 == 0, si == 0 || (ci+k+mi)%4 == 0)
				}
			}
		}
	}
	// the MAC cut to every length below the full one, for every HMAC algorithm
	for ai, a := range algTable {
		streams := []fstream{{"axfr", axfrStream(5, 1)}}
		if ai == 0 || thorough {
			streams = append(streams, fstream{"ixfr", ixfrStream(5, []diffd{{3, 5, 0, 0}})})
		}
		for _, fs := range streams {
			for ci, envs := range compositions(fs.stream) {
				for k := 0; k < len(envs); k++ {
					for l := 0; l < a.size; l++ {
						runMut(fs.kind, envs, k, mutSpec{mMacTrunc, l}, a.name, (ci+l)%2 == 1, l%4 == 0 || l == a.size-1)
					}
				}
			}
		}
	}
	// the library quirk fudge 0 = 300 (tsigBuffer replaces a zero fudge on the
	// verifying side too): recorded, no verdict
	for _, envs := range compositions(axfrStream(5, 1)) {
		for k := 0; k < len(envs); k++ {
			c := base("axfr", true, "tsigmut-fudge-zero", r)
			c.Reads = withMuts(goodReads(c, envs, true), k, mutSpec{mFudgeZero, 0})
			o := runOne(c, nil, false)
			if len(o.errs) > k && o.errs[k] == "-" {
				st["deviation_fudge_zero_accepted_as_300"]++
			}
		}
	}
	// honest chains from the harness's own signer, every algorithm: exact
	for _, a := range algTable {
		for _, fs := range []fstream{{"axfr", axfrStream(5, 2)}, {"ixfr", ixfrStream(5, []diffd{{3, 5, 1, 0}})}} {
			for _, envs := range compositions(fs.stream) {
				c := base(fs.kind, true, "tsig-ref-signed", r)
				c.Alg = a.name
				c.Reads = refSigned(goodReads(c, envs, true), true)
				c.Reads = append(c.Reads, readSpec{Id: c.Qid, RRs: []rrd{A(99)}})
				runOne(c, &expect{deliver: len(envs), then: "done", key: kExact, why: "TSIG configured, envelopes signed as RFC 8945 4.3 / 5.3.1 prescribe (" + a.name + "): the transfer must deliver exactly the transmitted envelopes"}, a.name == dns.HmacSHA256)
			}
		}
	}
	// TSIG not configured: a TSIG record on an envelope is not looked at,
	// whatever state it is in
	for _, envs := range compositions(axfrStream(5, 1)) {
		for k := 0; k < len(envs); k++ {
			for _, mu := range []mutSpec{{mMacTrunc, 0}, {mMacBit, 3}, {mOrigID, 0x101}, {mKeyUnknown, 0}, {mAlgUnknown, 0}, {mTime, -100000}, {mRRAfter, 0}, {mTsigTwice, 0}} {
				c := base("axfr", false, "tsig-off-edited-tsig", r)
				c.Reads = withMuts(goodReads(c, envs, true), k, mu)
				c.Reads = append(c.Reads, readSpec{Id: c.Qid, RRs: []rrd{A(99)}})
				runOne(c, &expect{deliver: len(envs), then: "done", key: kExact, why: "AXFR without TSIG configured: header ID, RCODE and records are in order, the transfer must be delivered"}, mu.modelled())
			}
		}
	}

	// ---- D3. the ID of every envelope is the ID in its header: a header ID
	// that differs from the query's in any octet must be reported, whatever a
	// TSIG record on the envelope says and whether or not the receiver has a key
	idMasks := []int{0x0001, 0x0080, 0x0100, 0x8000, 0xffff}
	type idVariant struct {
		name   string
		tsig   bool // receiver has the key
		signed bool // envelopes carry TSIG records
		masks  int  // how many of idMasks
		f      func(c xcase, rs []readSpec, k int, mask int)
	}
	third := func(c xcase) *uint16 { v := c.Qid ^ 0x0ff0; return &v }
	idVariants := []idVariant{
		{"off/no-tsig-rr", false, false, 5, func(c xcase, rs []readSpec, k, mask int) { withMuts(rs, k, mutSpec{mHdrID, mask}) }},
		{"off/tsig-rr-origid-is-query-id-empty-mac", false, true, 5, func(c xcase, rs []readSpec, k, mask int) {
			withMuts(rs, k, mutSpec{mHdrID, mask}, mutSpec{mMacTrunc, 0})
		}},
		{"off/tsig-rr-origid-is-query-id-valid-mac", false, true, 2, func(c xcase, rs []readSpec, k, mask int) { withMuts(rs, k, mutSpec{mHdrID, mask}) }},
		{"off/tsig-rr-origid-is-header-id", false, true, 2, func(c xcase, rs []readSpec, k, mask int) { withMuts(rs, k, mutSpec{mHdrIDOrig, mask}) }},
		{"off/tsig-rr-origid-is-neither", false, true, 2, func(c xcase, rs []readSpec, k, mask int) {
			rs[k].Id ^= uint16(mask)
			rs[k].Sig.Orig = third(c)
		}},
		{"on/header-rewritten-mac-valid", true, true, 5, func(c xcase, rs []readSpec, k, mask int) { withMuts(rs, k, mutSpec{mHdrID, mask}) }},
		{"on/signed-under-wrong-id", true, true, 2, func(c xcase, rs []readSpec, k, mask int) { rs[k].Id ^= uint16(mask) }},
		{"on/origid-is-neither-mac-valid", true, true, 2, func(c xcase, rs []readSpec, k, mask int) {
			rs[k].Id ^= uint16(mask)
			rs[k].Sig.Orig = third(c)
		}},
		{"on/header-rewritten-empty-mac", true, true, 2, func(c xcase, rs []readSpec, k, mask int) {
			withMuts(rs, k, mutSpec{mHdrID, mask}, mutSpec{mMacTrunc, 0})
		}},
		{"on/header-and-origid-rewritten", true, true, 2, func(c xcase, rs []readSpec, k, mask int) { withMuts(rs, k, mutSpec{mHdrIDOrig, mask}) }},
		{"on/header-rewritten-tsig-removed", true, true, 1, func(c xcase, rs []readSpec, k, mask int) {
			withMuts(rs, k, mutSpec{mHdrID, mask}, mutSpec{mStrip, 0})
		}},
	}
	for _, fs := range fstreams {
		for ci, envs := range compositions(fs.stream) {
			for k := 0; k < len(envs); k++ {
				for vi, v := range idVariants {
					for mi := 0; mi < v.masks; mi++ {
						c := base(fs.kind, v.tsig, "hdr-id", r)
						c.Reads = refSigned(goodReads(c, envs, v.signed), (ci+mi)%2 == 0)
						v.f(c, c.Reads, k, idMasks[mi])
						runOne(c, &expect{deliver: k, then: "error", key: "C15/id-not-checked/" + v.name,
							why: fmt.Sprintf("the header ID of envelope %d differs from the query ID (mask %#04x, %s): the transfer must end there with an error", k, idMasks[mi], v.name)},
							c.modelled() && (ci+k+vi+mi)%2 == 0)
						st["hdr_id_"+v.name]++
						st["hdr_id_pos_"+posClass(k, len(envs))]++
					}
				}
				// header ID is the query's, the Original ID of a TSIG record is not
				for _, tsig := range []bool{false, true} {
					c := base(fs.kind, tsig, "hdr-id-ok-origid-differs", r)
					c.Reads = goodReads(c, envs, true)
					c.Reads[k].Sig.Orig = third(c)
					var ex *expect
					if !tsig {
						// no key: the TSIG record is one more record of the additional section
						ex = &expect{deliver: len(envs), then: "done", key: kExact, why: "transfer without TSIG configured, every envelope has the query's ID in its header: it must be delivered"}
					}
					runOne(c, ex, false)
				}
			}
		}
	}

	// ---- D4. every non-zero RCODE at every envelope, sent that way or set on the path
	for _, fs := range []fstream{{"axfr", axfrStream(5, 1)}, {"ixfr", ixfrStream(5, []diffd{{3, 5, 0, 0}})}} {
		for ci, envs := range compositions(fs.stream) {
			for k := 0; k < len(envs); k++ {
				for rc := 1; rc <= 15; rc++ {
					for vi, v := range []struct {
						name         string
						tsig, signed bool
						inflight     bool
					}{{"off/sent", false, false, false}, {"on/sent-signed", true, true, false}, {"on/set-on-path", true, true, true}, {"off/tsig-rr-set-on-path", false, true, true}} {
						c := base(fs.kind, v.tsig, "hdr-rcode", r)
						c.Reads = refSigned(goodReads(c, envs, v.signed), (ci+rc)%2 == 0)
						if v.inflight {
							withMuts(c.Reads, k, mutSpec{mHdrRcode, rc})
						} else {
							c.Reads[k].Rcode = rc
						}
						runOne(c, &expect{deliver: k, then: "error", key: "C15/rcode-not-reported/" + v.name,
							why: fmt.Sprintf("envelope %d has RCODE %d (%s): the transfer must end there with an error", k, rc, v.name)}, (ci+k+rc+vi)%3 == 0)
						st["hdr_rcode_"+v.name]++
					}
				}
			}
		}
	}

	// ---- E. malformed senders and deviations (model cases; expectations only where the property text is clear)
	// records after the closing SOA in the same envelope, a foreign SOA in the middle, empty envelopes
	odd := [][][]rrd{
		{{S(5), A(1), S(5), A(2)}},
		{{S(5), A(1)}, {S(5), A(2)}, {A(3)}},
		{{S(5)}, {A(1), S(5), A(2)}, {S(5)}},
		{{S(5), A(1)}, {S(9)}, {A(2), S(5)}},
		{{S(5)}, {}, {A(1)}, {}, {S(5)}},
		{{S(5)}, {S(5)}},
		{{S(5), S(5)}},
		{{S(5), S(5), A(1)}},
		{{S(5), S(3), A(1), S(5), A(2), S(5), A(3)}, {A(4)}},
		{{S(5), S(3)}, {S(5)}, {S(5)}, {S(5)}},
		{{S(5)}, {S(5)}, {S(5)}},
		{{S(5), A(1), S(3), A(2), S(5)}, {S(5)}},
		{{S(5), S(5), S(5)}},
		{{S(5), S(3), S(5), S(5)}},
	}
	for _, envs := range odd {
		for _, kind := range []string{"axfr", "ixfr"} {
			c := base(kind, false, "odd", r)
			c.Reads = goodReads(c, envs, false)
			runOne(c, nil, true)
		}
	}
	// IXFR: a newer version whose serial is numerically not above the client's
	// (serial number arithmetic, RFC 1982): the difference sequence is cut after
	// the first envelope
	for _, envs := range compositions(ixfrStream(1, []diffd{{4294967295, 1, 1, 1}})) {
		c := base("ixfr", false, "ixfr-serial-wrap", r)
		c.Qser = 4294967295
		c.Reads = goodReads(c, envs, false)
		runOne(c, &expect{deliver: len(envs), then: "done", key: "C15/ixfr/serial-wraparound-truncates",
			why: "IXFR from serial 4294967295 to serial 1 (newer in RFC 1982 arithmetic): all transmitted envelopes must be delivered"}, len(envs) <= 3)
	}

	// serial arithmetic boundaries: up to date iff int32(serial-qser) <= 0
	for _, b := range []struct {
		qser, ser uint32
		newer     bool
	}{{1, 4294967295, false}, {0, 2147483648, false}, {0, 2147483647, true}, {4294967295, 2147483646, true},
		{4294967295, 2147483647, false}, {7, 7, false}, {2147483648, 0, false}, {2147483649, 0, true}} {
		for _, envs := range [][][]rrd{{{S(b.ser)}, {A(1), S(b.ser)}}, {{S(b.ser), A(1)}, {S(b.ser)}}} {
			c := base("ixfr", false, "ixfr-serial-boundary", r)
			c.Qser = b.qser
			c.Reads = goodReads(c, envs, false)
			ex := &expect{deliver: 1, then: "done", key: kExact, why: "first SOA serial not newer than the client's (RFC 1982): up to date, the transfer ends after the first envelope"}
			if b.newer {
				ex = &expect{deliver: 2, then: "done", key: "C15/ixfr/serial-wraparound-truncates", why: "first SOA serial newer than the client's (RFC 1982): the AXFR-style answer must be delivered whole"}
			}
			runOne(c, ex, true)
		}
	}

	// ---- F. random read sequences over a small alphabet (model cases)
	nRand := 500
	if thorough {
		nRand = 20000
	}
	alpha := []rrd{S(5), S(5), S(3), S(4), A(1), A(2), A(3)}
	for i := 0; i < nRand; i++ {
		kind := "axfr"
		if r.Bool() {
			kind = "ixfr"
		}
		tsig := r.Intn(3) == 0
		c := base(kind, tsig, "random", r)
		c.Qser = uint32(2 + r.Intn(4))
		ne := 1 + r.Intn(5)
		var envs [][]rrd
		for j := 0; j < ne; j++ {
			var e []rrd
			l := r.Intn(4)
			if j == 0 && r.Intn(4) != 0 {
				e = append(e, S(5))
			}
			for x := 0; x < l; x++ {
				e = append(e, alpha[r.Intn(len(alpha))])
			}
			envs = append(envs, e)
		}
		c.Reads = goodReads(c, envs, tsig || r.Intn(6) == 0)
		if r.Intn(5) == 0 {
			k := r.Intn(len(c.Reads))
			switch r.Intn(4) {
			case 0:
				c.Reads[k].Id++
			case 1:
				c.Reads[k].Rcode = 1 + r.Intn(10)
			case 2:
				cut := c.Reads[k]
				cut.Fail, cut.Keep = true, 1+r.Intn(30)
				c.Reads = append(c.Reads[:k], cut)
			case 3:
				// only when the receiver verifies: without a key the flipped bit
				// (an address octet of the last answer) is delivered as sent and
				// the case description would no longer name the records on the wire
				if c.Reads[k].Sig != nil && c.Tsig {
					c.Reads[k].Sig.Tamper = true
				}
			}
		}
		runOne(c, nil, true)
	}

	// ---- G. close at every octet of a stream
	for _, fs := range []fstream{{"axfr", axfrStream(5, 2)}, {"ixfr", ixfrStream(5, []diffd{{3, 5, 1, 1}})}} {
		for _, tsig := range []bool{false, true} {
			envs := [][]rrd{fs.stream[:2], fs.stream[2:3], fs.stream[3:]}
			c0 := base(fs.kind, tsig, "cut-every-octet", r)
			c0.Reads = goodReads(c0, envs, tsig)
			// learn the frame sizes
			probe, ends := buildStream(c0, nil)
			_ = probe
			total := ends[len(ends)-1]
			step := 1
			if !thorough && tsig {
				step = 3
			}
			for cut := 0; cut < total; cut += step {
				c := c0
				c.Chunk = 0
				k := 0
				for k < len(ends) && ends[k] <= cut {
					k++
				}
				start := 0
				if k > 0 {
					start = ends[k-1]
				}
				c.Reads = append([]readSpec(nil), c0.Reads[:k]...)
				if cut > start {
					part := c0.Reads[k]
					part.Fail, part.Keep = true, cut-start
					c.Reads = append(c.Reads, part)
				}
				runOne(c, &expect{deliver: k, then: "error", key: kErr, why: fmt.Sprintf("connection closed after octet %d of %d", cut, total)}, cut%5 == 0)
			}
		}
	}

	// ---- R, S. records of every type kept until the end of the transfer; envelope lengths at the limits (rich.go)
	richFamilies(r, thorough)

	// ---- T. sequences of transfers while the TSIG configuration changes, incoming and outgoing (seq.go)
	seqIn(r, thorough)
	seqOut(r, thorough)

	// ---- U. transfers over a caller-supplied datagram connection: answer datagrams of every size (dgram.go)
	dgramFamilies(r, thorough)

	// ---- W. how the sender composes its envelopes beside the record split: question section, header bits, OPT, compression (shape.go)
	shapeFamilies(r, thorough)
	// ---- W2. error RCODEs carried in the OPT record's extended bits, OPT anywhere in the additional section (shape.go)
	extRcodeFamilies(r, thorough)

	// ---- V. TSIG key and algorithm names spelled in mixed case, against the harness's own RFC 8945 signer / verifier (names.go)
	namesFamilies(r, thorough)

	// ---- P (end). the paced transfers started at the top have run meanwhile
	paced.finish()

	// ---- H. real loopback TCP server using Transfer.Out
	loopback(r, thorough)

	Stat(st)
}

// ---------------------------------------------------------------- loopback
func loopback(r *Rng, thorough bool) {
	for _, tsig := range []bool{false, true} {
		for _, kind := range []string{"axfr", "ixfr"} {
			stream := axfrStream(5, 3)
			if kind == "ixfr" {
				stream = ixfrStream(5, []diffd{{3, 5, 1, 1}})
			}
			comps := compositions(stream)
			for ci, envs := range comps {
				if !thorough && ci%3 != 0 {
					continue
				}
				c := base(kind, tsig, "loopback", r)
				c.Chunk, c.Stall = 0, false
				c.Reads = goodReads(c, envs, tsig)
				loopOne(c, envs, true)
			}
		}
	}
	// zones of records of every type, and envelopes of the limit lengths, sent
	// by Transfer.Out
	g := newRichGen(r)
	types := zoneTypes()
	nz := 6
	if thorough {
		nz = 60
	}
	for z := 0; z < nz; z++ {
		var body []rrd
		for i := 2 + r.Intn(12); i > 0; i-- {
			body = append(body, g.any(types))
		}
		body = append(body, g.svcRecords()[r.Intn(10)])
		kind := []string{"axfr", "ixfr"}[z%2]
		stream := append(append([]rrd{S(5)}, body...), S(5))
		if z%4 == 3 {
			h := len(body) / 2
			stream = append(append(append(append([]rrd{S(5), S(3)}, body[:h]...), S(5)), body[h:]...), S(5))
		}
		envs := randomComposition(r, stream)
		c := base(kind, z%3 == 0, "loopback-rich", r)
		c.Chunk, c.Stall = 0, false
		c.Reads = goodReads(c, envs, c.Tsig)
		loopOne(c, envs, z%2 == 0)
	}
	for i, L := range []int{511, 512, 513, 4095, 4096, 4097, 16383, 16384, 16385, 32767, 32768, 32769, 65533, 65534, 65535} {
		for _, tsig := range []bool{false, true} {
			if !thorough && tsig && i%3 != 2 {
				continue
			}
			envs := [][]rrd{{S(5), g.pad()}, {g.pad(), g.any(types)}, {g.pad(), S(5)}}
			c := base("axfr", tsig, "loopback-size", r)
			c.Chunk, c.Stall = 0, false
			c.Reads = cloneReads(goodReads(c, envs, tsig))
			// the sender (Transfer.Out) signs itself: L is the length with its TSIG record
			ok := true
			for k := range envs {
				ok = ok && sizeTo(&c, k, L)
			}
			if !ok {
				st["loopback_size_out_of_reach"]++
				continue
			}
			for k := range envs {
				envs[k] = c.Reads[k].RRs
			}
			loopOne(c, envs, false)
		}
	}
}

func loopOne(c xcase, envs [][]rrd, emitIt bool) {
	o, infra := runLoopback(c, envs)
	if infra != "" {
		// infrastructure (socket) problem: retry once, never a verdict
		o, infra = runLoopback(c, envs)
	}
	if infra != "" {
		st["loopback_infra_failures"]++
		fmt.Fprintln(os.Stderr, "loopback infrastructure failure:", infra)
		return
	}
	st["transfers_checked"]++
	st["family_"+c.Family]++
	in := map[string]any{"case": c, "observed": o.items, "via": "Transfer.Out over loopback TCP"}
	if len(o.bad) > 0 {
		in["received_records_that_were_not_transmitted"] = o.bad
	}
	if !o.closed {
		Viol("C15/channel-not-closed", "channel not closed", in)
		return
	}
	ok := len(o.items) == len(envs)
	for i := 0; ok && i < len(envs); i++ {
		ok = o.items[i] == showRrds(envs[i])+":-"
	}
	if !ok {
		Viol("C15/exact-loopback", "Transfer.Out -> Transfer.In did not deliver exactly the transmitted envelopes", in)
	}
	o.frames = len(o.items)
	if emitIt {
		emit(c, o)
	}
}

func runLoopback(c xcase, envs [][]rrd) (obs, string) {
	l, err := net.Listen("tcp", "127.0.0.1:0")
	if err != nil {
		return obs{}, "listen: " + err.Error()
	}
	started := make(chan struct{})
	mux := dns.NewServeMux()
	mux.HandleFunc(zone, func(w dns.ResponseWriter, req *dns.Msg) {
		ch := make(chan *dns.Envelope)
		tr := new(dns.Transfer)
		go func() {
			for _, e := range envs {
				var rrs []dns.RR
				for _, x := range e {
					rrs = append(rrs, x.RR())
				}
				ch <- &dns.Envelope{RR: rrs}
			}
			close(ch)
		}()
		tr.Out(w, req, ch)
		w.Close()
	})
	srv := &dns.Server{Listener: l, Handler: mux, NotifyStartedFunc: func() { close(started) }}
	if c.Tsig {
		srv.TsigSecret = map[string]string{keyName: secret}
	}
	done := make(chan error, 1)
	go func() { done <- srv.ActivateAndServe() }()
	select {
	case <-started:
	case <-time.After(10 * time.Second):
		l.Close()
		return obs{}, "server did not start"
	}
	defer func() {
		srv.Shutdown()
		select {
		case <-done:
		case <-time.After(10 * time.Second):
		}
	}()
	t := &dns.Transfer{ReadTimeout: 10 * time.Second}
	if c.Tsig {
		t.TsigSecret = map[string]string{keyName: secret}
	}
	ch, err := t.In(mkQuery(c), l.Addr().String())
	if err != nil {
		return obs{}, "dial/write: " + err.Error()
	}
	o := collect(c, ch, func() int { return 1 })
	if o.infra != "" {
		return o, o.infra
	}
	// a read deadline / reset on the socket is infrastructure, not a verdict
	for _, e := range o.errs {
		if e == "read" {
			return o, "socket read error"
		}
	}
	return o, ""
}
