(* Props/C13.v — property C13 (server start / shutdown is graceful, terminates,
   leaks nothing).  Statements only.

   The model (Model/ServerLts.v) is a labelled transition system of server.go:
   [step s l] is one atomic action of one thread (a starter, the serve loop, a
   per-connection / per-packet worker, a Shutdown caller), [run] a sequence of
   them, [reachable m s] any state reached from the initial one for a TCP or
   UDP server under ANY interleaving, any number of connections, requests and
   callers.  Goroutine leaks and data races are run-time facts checked by the
   harness, not by these theorems. *)
From Dns Require Import Model.ServerLts Proofs.ServerLtsProofs.
Open Scope nat_scope.

(* srv.shutdown is closed only when every worker that was started has
   finished (handlers returned, connections closed and deregistered), the
   WaitGroup is at zero and the serve loop is past its loop *)
Theorem shutdown_closed_implies_drained :
  forall (m : mode) (s : state),
    reachable m s -> shut s = true ->
    Forall (fun w => w_pc w = CDone) (workers s) /\ wg s = 0 /\
    (exists v, serve s = SClosing v \/ serve s = SReturned v).
Proof. exact closed_implies_drained. Qed.

(* Shutdown / ShutdownContext returned nil  ==>  every handler that was
   started has returned *)
Theorem shutdown_returns_after_handlers :
  forall (m : mode) (s : state) (j : nat),
    reachable m s -> In (j, SdDone ResNil) (sds s) ->
    Forall (fun w => w_pc w = CDone) (workers s) /\ wg s = 0 /\
    (exists v, serve s = SClosing v \/ serve s = SReturned v).
Proof. exact returns_after_handlers. Qed.

(* ... unless its context expired: then it may return at once *)
Theorem shutdown_context_expiry_returns :
  forall (s : state) (j : nat),
    find_a j (sds s) = Some SdExpired ->
    exists s', step s (SdReturn j ResCtx) = Some s' /\ find_a j (sds s') = Some (SdDone ResCtx).
Proof. exact shutdown_ctx_return_enabled. Qed.

(* in no execution is a handler entered after a Shutdown call returned nil *)
Theorem no_handler_after_shutdown_return :
  forall (m : mode) (ls1 : list label) (j : nat) (ls2 : list label) (s : state) (c : nat),
    run (init m) (ls1 ++ SdReturn j ResNil :: ls2) = Some s -> ~ In (HEnter c) ls2.
Proof. exact no_handler_after_return. Qed.

(* the serve call returns nil unless the environment injected a non-temporary
   listener error, and once the channel is closed its return is enabled *)
Theorem serve_returns_nil :
  forall (m : mode) (s : state) (v : retv),
    reachable m s -> serve_val (serve s) = Some v -> fatal s = false -> v = RNil.
Proof. exact serve_nil. Qed.

Theorem serve_return_enabled_after_close :
  forall (s : state) (v : retv),
    serve s = SClosing v -> exists s', step s (SReturn v) = Some s' /\ serve s' = SReturned v.
Proof. exact serve_return_enabled. Qed.

(* a second start while started: its lock region is enabled at once and ends
   in the error return, the running server is untouched *)
Theorem double_start_errors :
  forall (s : state) (i : nat),
    ph s = Running -> find_a i (sts s) = Some StPending ->
    exists s1 s2, step s (StAtomic i) = Some s1 /\ find_a i (sts s1) = Some StFailed /\
                  step s1 (StReturnErr i) = Some s2 /\ find_a i (sts s2) = Some StDone /\
                  ph s2 = Running /\ serve s2 = serve s /\ workers s2 = workers s.
Proof. exact double_start. Qed.

(* Shutdown of a server that is not started: error return, enabled at once,
   nothing changes *)
Theorem shutdown_unstarted_errors :
  forall (s : state) (j : nat),
    ph s <> Running -> find_a j (sds s) = Some SdPending ->
    exists s1 s2, step s (SdAtomic j) = Some s1 /\ step s1 (SdReturn j ResNotStarted) = Some s2 /\
                  find_a j (sds s2) = Some (SdDone ResNotStarted) /\
                  ph s2 = ph s /\ serve s2 = serve s /\ workers s2 = workers s /\ shut s2 = shut s.
Proof. exact shutdown_unstarted. Qed.

(* the read-deadline-under-RLock mechanism: after the lock region of Shutdown
   the listener is closed, a blocked Accept / ReadFrom / connection read fails
   on its own, and a reader that has not yet set its deadline will not
   override the one Shutdown set *)
Theorem no_stuck_reader :
  forall (m : mode) (s : state),
    reachable m s -> ph s = Stopping ->
    lclosed s = true /\
    (serve s = SAccept -> internal s SAcceptErr = true /\ exists s', step s SAcceptErr = Some s') /\
    (serve s = SRead -> internal s SReadErr = true /\ exists s', step s SReadErr = Some s') /\
    (forall w, In w (workers s) -> w_pc w = CRead ->
               w_dl w = true /\ internal s (ReadErr (w_id w)) = true /\
               exists s', step s (ReadErr (w_id w)) = Some s') /\
    (forall w, In w (workers s) -> w_pc w = CSetDl -> w_dl w = true).
Proof. exact no_stuck_reader. Qed.

(* progress: while a Shutdown caller waits and srv.shutdown is not yet closed,
   a handler is still running (user code) or a server thread other than the
   callers can take a step on its own *)
Theorem shutdown_progress :
  forall (m : mode) (s : state),
    reachable m s ->
    (exists j, In (j, SdWaiting) (sds s) \/ In (j, SdExpired) (sds s)) -> shut s = false ->
    (exists w, In w (workers s) /\ w_pc w = CHandler) \/
    (exists l s', internal s l = true /\ step s l = Some s').
Proof. exact progress. Qed.

(* and when it is closed the waiting caller's return is enabled *)
Theorem shutdown_return_enabled_after_close :
  forall (s : state) (j : nat),
    shut s = true -> (find_a j (sds s) = Some SdWaiting \/ find_a j (sds s) = Some SdExpired) ->
    exists s', step s (SdReturn j ResNil) = Some s' /\ find_a j (sds s') = Some (SdDone ResNil).
Proof. exact shutdown_return_enabled. Qed.

(* a start that fails in serveUDP before its loop (generic PacketConn, decorated
   Reader without ReadPacketConn) leaves the server unstarted: a Shutdown call
   gets the not-started error at once, a new start call succeeds *)
Theorem failed_start_leaves_unstarted :
  forall (s s' : state) (j i : nat),
    step s SFailStart = Some s' ->
    ph s' = Fresh /\ serve s' = SNone /\ shut s' = shut s /\ workers s' = workers s /\
    (find_a j (sds s') = Some SdPending ->
     exists s1 s2, step s' (SdAtomic j) = Some s1 /\ step s1 (SdReturn j ResNotStarted) = Some s2 /\
                   find_a j (sds s2) = Some (SdDone ResNotStarted)) /\
    (find_a i (sts s') = Some StPending ->
     exists s1, step s' (StAtomic i) = Some s1 /\ ph s1 = Running /\ serve s1 = SInit).
Proof. exact failed_start_unstarted. Qed.

(* ---- the same Server value started again after Shutdown (start / Shutdown /
   start / Shutdown ...).  [epoch_over s]: the serve call has returned after a
   Shutdown and every Shutdown and start call has returned; [restart s] is the
   initial state (Server.init re-creates srv.shutdown and srv.conns, the
   WaitGroup is local to the serve call); [reachable_r] allows any number of
   restarts, [run_lives] runs a history of lives. *)

(* when the server can be started again nothing of the previous life remains:
   srv.shutdown closed, listener closed, every worker finished (connections
   closed and deregistered), WaitGroup 0, every Shutdown call returned *)
Theorem restart_only_when_nothing_remains :
  forall (m : mode) (s : state),
    reachable m s -> epoch_over s = true ->
    ph s = Stopping /\ shut s = true /\ lclosed s = true /\
    Forall (fun w => w_pc w = CDone) (workers s) /\ wg s = 0 /\
    (forall j p, In (j, p) (sds s) -> exists r, p = SdDone r).
Proof. exact epoch_over_quiescent. Qed.

(* every state reached with any number of restarts is a reachable state of one
   life, so every theorem above holds in every life of a restarted server *)
Theorem restarts_preserve_reachability :
  forall (m : mode) (s : state), reachable_r m s -> exists m', reachable m' s.
Proof. exact reachable_r_reachable. Qed.

(* in particular: in every life, Shutdown returned nil ==> every handler that
   was started in that life has returned *)
Theorem shutdown_returns_after_handlers_in_every_life :
  forall (m : mode) (s : state) (j : nat),
    reachable_r m s -> In (j, SdDone ResNil) (sds s) ->
    Forall (fun w => w_pc w = CDone) (workers s) /\ wg s = 0 /\
    (exists v, serve s = SClosing v \/ serve s = SReturned v).
Proof. exact returns_after_handlers_r. Qed.

(* a history of lives only visits such states *)
Theorem lives_reachable :
  forall (m : mode) (lives : list (list label)) (s s' : state),
    reachable_r m s -> run_lives s lives = Some s' -> reachable_r m s'.
Proof. exact run_lives_reachable_r. Qed.

(* in a later life no handler is entered after a Shutdown call of that life returned nil *)
Theorem no_handler_after_shutdown_return_in_later_life :
  forall (m : mode) (lives : list (list label)) (ls1 : list label) (j : nat) (ls2 : list label)
         (s s' : state) (c : nat),
    run_lives (init m) lives = Some s -> epoch_over s = true ->
    run (restart s) (ls1 ++ SdReturn j ResNil :: ls2) = Some s' -> ~ In (HEnter c) ls2.
Proof. exact no_handler_after_return_lives. Qed.

(* after a restart a start call succeeds at once and the new life starts empty *)
Theorem restart_is_startable :
  forall (s : state) (i : nat),
    exists s1 s2, step (restart s) (StInvoke i) = Some s1 /\ step s1 (StAtomic i) = Some s2 /\
                  ph s2 = Running /\ serve s2 = SInit /\ workers s2 = [] /\ wg s2 = 0 /\ shut s2 = false /\
                  sds s2 = [] /\ lclosed s2 = false /\ pcdl s2 = false.
Proof. exact restart_startable. Qed.

(* a start call that fails before srv.started is set (ListenAndServe: bad
   network, tcp-tls without certificates, listen error such as address in use,
   setUDPSocketOptions error; ActivateAndServe: no listeners) is only possible
   on a server that is not started and leaves it exactly as it was: a Shutdown
   call gets the not-started error at once, a retry of the start succeeds *)
Theorem failed_listen_leaves_unstarted :
  forall (s s' : state) (i : nat),
    step s (StFail i) = Some s' ->
    ph s <> Running /\ ph s' = ph s /\ serve s' = serve s /\ workers s' = workers s /\ wg s' = wg s /\
    shut s' = shut s /\ sds s' = sds s /\ lclosed s' = lclosed s /\ pcdl s' = pcdl s /\
    find_a i (sts s') = Some StDone /\
    (forall j, find_a j (sds s') = Some SdPending ->
       exists s1 s2, step s' (SdAtomic j) = Some s1 /\ step s1 (SdReturn j ResNotStarted) = Some s2 /\
                     find_a j (sds s2) = Some (SdDone ResNotStarted)) /\
    (forall k, ph s = Fresh -> find_a k (sts s') = Some StPending ->
       exists s1, step s' (StAtomic k) = Some s1 /\ ph s1 = Running /\ serve s1 = SInit).
Proof. exact failed_listen_unstarted. Qed.

(* Hijack: when a handler that hijacked its TCP connection returns, the server
   never closes that connection, never reads from it or sets its deadline from
   the connection loop again and starts no further handler on it; its only
   remaining step is the deregistration (delete from srv.conns, wg.Done), after
   which the worker is finished - so Shutdown does not wait for the connection *)
Theorem hijacked_connection_is_released :
  forall (s s' : state) (c : nat),
    step s (HExitHj c) = Some s' ->
    md s = TCP /\
    (exists w, find_w c (workers s) = Some w /\ w_pc w = CHandler) /\
    (exists w', find_w c (workers s') = Some w' /\ w_pc w' = CFin) /\
    step s' (WClose c) = None /\ step s' (WCheck c) = None /\ step s' (WSetDl c) = None /\
    step s' (Req c) = None /\ step s' (ReadErr c) = None /\ step s' (HEnter c) = None /\
    exists s'', step s' (WFinish c) = Some s'' /\ wg s'' = pred (wg s') /\
                exists w'', find_w c (workers s'') = Some w'' /\ w_pc w'' = CDone.
Proof. exact hijack_exit_releases. Qed.

(* Input that never reaches a handler.  A UDP datagram shorter than a DNS
   header (0..11 octets) creates no worker and does not touch the WaitGroup:
   the serve loop goes on as it was, so a later Shutdown has nothing to wait
   for because of it. *)
Theorem short_datagram_leaves_nothing_to_wait_for :
  forall (s s' : state) (p : nat),
    step s (SPacketShort p) = Some s' ->
    md s = UDP /\ serve s = SRead /\ serve s' = SLoop /\ workers s' = workers s /\ wg s' = wg s /\
    ph s' = ph s /\ shut s' = shut s /\ sds s' = sds s /\ pcdl s' = pcdl s.
Proof. exact short_datagram_no_worker. Qed.

(* A message the server drops or rejects by itself (no complete header,
   MsgAcceptFunc says ignore or reject, the body does not unpack): no handler is
   ever entered for it and no handler reply written; the worker that held it
   finishes (UDP: its only step is wg.Done, after which it is done) or goes on
   with the connection loop (TCP) - Shutdown waits for no handler because of it. *)
Theorem dropped_message_starts_no_handler :
  forall (s s' : state) (c : nat),
    step s (WDrop c) = Some s' ->
    (exists w, find_w c (workers s) = Some w /\ w_pc w = CGot) /\
    step s' (HEnter c) = None /\ step s' (Reply c) = None /\ step s' (HExit c) = None /\
    wg s' = wg s /\ ph s' = ph s /\ shut s' = shut s /\
    (md s = UDP -> exists s'', step s' (WFinish c) = Some s'' /\ wg s'' = pred (wg s') /\
                   exists w'', find_w c (workers s'') = Some w'' /\ w_pc w'' = CDone) /\
    (md s = TCP -> exists s'', step s' (WCheck c) = Some s'').
Proof. exact dropped_message_no_handler. Qed.
