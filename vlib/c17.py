from .core import Check


class C17(Check):
    prop = "C17"
    props_rel = "Props/C17"
    corr_module = "Corr.C17"
    corr_rel = "Corr/C17"
    model_desc = ("Model/KeyEnc.v: DNSKEY.KeyTag loop and RFC 4034 App. B sum, ToDS pre-image and nil cases, "
                  "ValidityPeriod (int64 arithmetic, Z.quot), StringToTime arithmetic, exponentToBuf/setPublicKeyRSA/"
                  "publicKeyRSA (RFC 3110), intToBytes/curveToBuf/publicKeyECDSA, the private-key file lexer and parseKey; "
                  "Model/Nsec3.v: HashName (RFC 5155 iterated hash over the lower-cased wire name, base32hex), in-zone "
                  "test, the Cover and Match comparison chains on Go strings; Model/Sha.v: executable SHA-1/SHA-256 used "
                  "only by the case runner (theorems quantify over the hash function)")
    rule = ("direct oracles against values computed in the harness from the RFC definitions on octets assembled from "
            "label lists (crypto/sha1, sha256, sha512, encoding/base32 directly; key tag by the RFC's C code): KeyTag, "
            "ToDS (digest types 1,2,4,5 + unsupported, owner case variants, owners at the 63/255 limits, RDATA at the "
            "4096 limit), HashName (salts, iterations 0..65535, case variants, RFC 5155 App. A vectors), Match/Cover on "
            "every interval shape (normal, wrapping, empty) x hash position (below, equal owner, inside, equal next, "
            "above) x inside/outside the zone incl. root zone, lower-case owner/next text, unsupported algorithm and bad "
            "salt, ValidityPeriod triples around both boundaries and around 2^31/2^32, generated Ed25519/ECDSA/RSA keys "
            "exported to BIND text, re-read, compared field by field and cross signed/verified; the same calls (HashName, "
            "Match/Cover, KeyTag, ToDS, ValidityPeriod, Verify, key text) made from 16-24 goroutines at once behind a start "
            "barrier, with inputs of very different cost, every single result compared with the RFC value computed "
            "beforehand; every DNSKEY flags value (all 2^16 through KeyTag/ToDS/text, a spread incl. 256, 257, 384, "
            "385, 0x8100, 0xFFFF through export / re-read / Sign / Verify with Ed25519, ECDSA and RSA keys: zone keys "
            "verify whatever the other bits, keys without the ZONE bit never do); fixed RSA key pairs of 1024..4096 "
            "bits x algorithms 5/7/8/10 re-read through NewPrivateKey / ReadPrivateKey (plain and chunked readers), "
            "exported again, signing and verifying; key text with lines of 0..1400 and up to 2^20 characters (values, "
            "field names, comments, BIND timing lines, unknown fields) read back as the same fields / the same key. "
            "Model cases: the same "
            "inputs evaluated by the Coq model (with SHA-1/SHA-256 executed inside Coq) and compared with the "
            "implementation's outputs; key decoders and the key-file lexer through hooks. A case is non-trivial when "
            "its output is not the rejection value; distinct by hash of (function, arguments, output).")
    partial = [
        "sign and verify interchangeably (generated / exported / re-read keys): observed on the implementation by the "
        "harness (Go crypto/*), not a theorem",
        "SHA-1/256/384/512 are parameters of the theorems; SHA-384/512 digests are compared in the harness only (the "
        "model supplies the pre-image, checked through its SHA-256 fingerprint)",
        "base64 coding of the private-key fields is checked by the harness against encoding/base64, not modelled",
        "names are label lists; HashName/ToDS on presentation text with \\DDD escapes of letters is outside the model "
        "(reported by a direct oracle)",
    ]
    trusted = ["Go crypto/sha1, crypto/sha256, crypto/sha512, encoding/base32, encoding/base64, math/big as reference",
               "hook file /repo/verif_hooks_c17.go (add-only wrappers of publicKeyRSA/ECDSA/ED25519, setPublicKeyRSA, "
               "exponentToBuf, curveToBuf, intToBytes, parseKey)"]
    shard_size = 250

    def nontrivial(self, c):
        return c.get("out") not in ("", "nil", "err", "none", "false,false", "0")


CHECK = C17()
