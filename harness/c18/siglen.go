package main

import (
	"encoding/binary"
	"time"

	"github.com/miekg/dns"
	. "verif/harness/common"
)

// ---------------------------------------------------------------------------
// The LENGTH of the signature field (round 5).
//
// "Verification fails if any octet ... of the SIG RDATA is altered": octets
// appended to the signature, prepended, the field cut at either end, and for
// ECDSA r and s padded with / stripped of leading zero octets, separately and
// together (a split in the middle then gives the same two integers). A
// signature has one length: the modulus for RSA (RFC 8017 8.2.2), 2 x 32 / 2 x
// 48 octets for ECDSA (RFC 6605 4), 64 for Ed25519 (RFC 8080 4). The SIG's
// RDLENGTH is adjusted so that the message still parses (a receiver unpacks it,
// takes the trailing SIG and verifies); a few are also tried with the RDLENGTH
// left alone (Verify reads the signature up to the end of the buffer). Every
// key; a rotating sample as verify model cases (the model's signature check is
// crypto/* called by the harness on the altered field, demanding those lengths).
// ---------------------------------------------------------------------------

type sigMut struct {
	name     string
	sig      []byte
	sameInts bool // ECDSA: both halves padded / stripped alike
}

func catb(bs ...[]byte) []byte {
	var o []byte
	for _, b := range bs {
		o = append(o, b...)
	}
	return o
}

func nonZero(r *Rng, n int) []byte {
	b := r.Bytes(n)
	for i := range b {
		if b[i] == 0 {
			b[i] = 0x5a
		}
	}
	return b
}

func sigLenMutations(r *Rng, alg uint8, sb []byte) []sigMut {
	n := len(sb)
	if n < 4 {
		return nil
	}
	zeros := func(k int) []byte { return make([]byte, k) }
	ms := []sigMut{
		{"appended-00", catb(sb, zeros(1)), false},
		{"appended-ff", catb(sb, []byte{0xff}), false},
		{"appended-octet", catb(sb, r.Bytes(1)), false},
		{"appended-octets", catb(sb, r.Bytes(2+r.Intn(15))), false},
		{"appended-zeros", catb(sb, zeros(2+r.Intn(7))), false},
		{"appended-copy", catb(sb, sb), false},
		{"appended-half", catb(sb, sb[:n/2]), false},
		{"prepended-00", catb(zeros(1), sb), false},
		{"prepended-octet", catb(nonZero(r, 1), sb), false},
		{"prepended-octets", catb(r.Bytes(2+r.Intn(15)), sb), false},
		{"prepended-zeros", catb(zeros(2+2*r.Intn(4)), sb), false},
		{"cut-front-1", sb[1:], false},
		{"cut-end-1", sb[:n-1], false},
		{"cut-end-2", sb[:n-2], false},
		{"cut-to-first-half", sb[:n/2], false},
		{"cut-to-second-half", sb[n/2:], false},
		{"cut-at-random", sb[:1+r.Intn(n-1)], false},
		{"cut-front-at-random", sb[1+r.Intn(n-1):], false},
		{"cut-to-one-octet", sb[:1], false},
		{"cut-to-two-octets", sb[:2], false},
	}
	if alg == dns.ECDSAP256SHA256 || alg == dns.ECDSAP384SHA384 {
		h := n / 2
		rr, ss := sb[:h], sb[h:]
		k := 2 + r.Intn(7)
		ms = append(ms,
			sigMut{"ecdsa-r-and-s-zero-padded-1", catb(zeros(1), rr, zeros(1), ss), true},
			sigMut{"ecdsa-r-and-s-zero-padded-n", catb(zeros(k), rr, zeros(k), ss), true},
			sigMut{"ecdsa-r-zero-padded", catb(zeros(1), rr, ss), false},
			sigMut{"ecdsa-s-zero-padded", catb(rr, zeros(1), ss), false},
			sigMut{"ecdsa-r-s-padded-unequally", catb(zeros(2), rr, zeros(1), ss), false},
			sigMut{"ecdsa-r-and-s-octet-padded", catb(nonZero(r, 1), rr, nonZero(r, 1), ss), false},
		)
		if rr[0] == 0 && ss[0] == 0 {
			ms = append(ms, sigMut{"ecdsa-r-and-s-zero-stripped", catb(rr[1:], ss[1:]), true})
		}
		if rr[0] == 0 {
			ms = append(ms, sigMut{"ecdsa-r-zero-stripped", catb(rr[1:], ss), false})
		}
		if ss[0] == 0 {
			ms = append(ms, sigMut{"ecdsa-s-zero-stripped", catb(rr, ss[1:]), false})
		}
	} else if sb[0] == 0 {
		ms = append(ms, sigMut{"leading-zero-stripped", sb[1:], false})
	}
	return ms
}

// oracleSigLen: out is a signed message that verifies under kp.
func oracleSigLen(r *Rng, kp keyPair, s *dns.SIG, out []byte, emitN int) {
	rs, ok := refSig0(out)
	if !ok || rs.rr.end != len(out) {
		return
	}
	sb := out[rs.sigEnd:]
	ms := sigLenMutations(r, kp.key.Algorithm, sb)
	if len(ms) == 0 {
		return
	}
	emitFrom := r.Intn(len(ms))
	for i, mu := range ms {
		for _, adjust := range []bool{true, false} {
			if !adjust && i%4 != 0 && !mu.sameInts {
				continue
			}
			b := catb(out[:rs.sigEnd], mu.sig)
			if adjust {
				rdlen := rs.sigEnd - rs.rr.rdStart + len(mu.sig)
				if rdlen > 65535 || len(b) > 65535 {
					continue
				}
				binary.BigEndian.PutUint16(b[rs.rr.rdStart-2:], uint16(rdlen))
			}
			emit := adjust && (i-emitFrom+len(ms))%len(ms) < emitN && len(b) <= maxLiteral
			var got string
			if emit {
				got = emitVerify(b, s, kp, kp.key)
			} else {
				got, _, _, _ = receive(b, s, kp.key)
			}
			st["signature_length_checked"]++
			if got != "ok:" && got != "panic" {
				continue
			}
			what := mu.name + ": signature of " + Itoa(len(mu.sig)) + " octets instead of " + Itoa(len(sb))
			if !adjust {
				what += " (RDLENGTH not adjusted)"
			}
			in := c18in{Signed: Hx(b), Alg: kp.name, Detail: what, KeyRR: kp.key.String()}
			switch {
			case got == "panic":
				Viol("C18/Verify/panic", "signature length changed ("+what+"): panic", in)
			case mu.sameInts:
				Viol("C18/Verify/ecdsa-signature-not-fixed-width", "SIG.Verify accepts an ECDSA signature whose r and s are both padded with (stripped of) zero octets; RFC 6605 4 fixes the field at 2 x 32 / 2 x 48 octets, the altered SIG RDATA is accepted like the original", in)
			default:
				Viol("C18/Verify/signature-length", "SIG.Verify accepts the message after the length of the signature was changed ("+what+")", in)
			}
		}
	}
}

// oracleSigLens: for every key a few signed messages; for ECDSA also signatures
// whose r or s begins with a zero octet (signing until some turn up).
func oracleSigLens(r *Rng, keys []keyPair) {
	now := uint32(time.Now().Unix())
	for ki, kp := range keys {
		for i := 0; i < 3; i++ {
			m := genMsg(r, []int{0, 2, 6}[i])
			m.Compress = (ki+i)%2 == 0
			s := newSig(kp, now-3000, now+3000)
			out, err := doSign(s, kp, m)
			if err != nil {
				continue // judged by oracleMessage
			}
			if got, _, _, _ := receive(out, s, kp.key); got != "ok:" {
				continue // judged by oracleMessage
			}
			oracleSigLen(r, kp, s, out, 2)
		}
		tries := map[uint8]int{dns.ECDSAP256SHA256: 500, dns.ECDSAP384SHA384: 120}[kp.key.Algorithm]
		m := new(dns.Msg)
		m.SetQuestion("example.org.", dns.TypeSOA)
		for found := 0; tries > 0 && found < 2; tries-- {
			m.Id = uint16(r.Next())
			s := newSig(kp, now-3000, now+3000)
			out, err := doSign(s, kp, m)
			if err != nil {
				break
			}
			n := sigLen(kp)
			sg := out[len(out)-n:]
			if sg[0] != 0 && sg[n/2] != 0 {
				continue
			}
			if got, _, _, _ := receive(out, s, kp.key); got != "ok:" {
				Viol("C18/Verify/signed-rejected", "signed message (r or s of the ECDSA signature begins with a zero octet) does not verify: "+got, c18in{Signed: Hx(out), Alg: kp.name, KeyRR: kp.key.String()})
				continue
			}
			found++
			st["ecdsa_leading_zero_signatures"]++
			oracleSigLen(r, kp, s, out, 2)
		}
	}
}
