(* Proofs/DupWireProofs.v -- IsDuplicate, second part:
   (1) a true verdict holds exactly when every compared field agrees, and the
       compared fields of a type are exactly the fields of its wire layout
       (the comparison list of zduplicate.go is the one derived from the pack
       statements of zmsg.go), so: duplicates iff header and every RDATA field
       agree, names up to letter case;
   (2) every RDATA the generated unpack() returns holds values of the kinds the
       comparisons expect, hence IsDuplicate(r, r) for every record obtained
       from the wire (OPT excepted). *)
From Dns Require Import Base.ListX Model.Dup Gen.Dups Gen.Layouts Gen.Registry Proofs.EscapeProofs Proofs.DedupProofs Proofs.DupProofs.
From Coq Require Import Lia ZifyN ZifyNat ZifyBool.
Open Scope list_scope.
Open Scope N_scope.

(* ---------- list_eqb as equality of keys ---------- *)
Lemma list_eqb_map_key {A K} (e : A -> A -> bool) (k : A -> K) :
  (forall x y, e x y = true <-> k x = k y) ->
  forall a b, list_eqb e a b = true <-> map k a = map k b.
Proof.
  intros H. induction a as [|x a IH]; intros [|y b]; cbn; split; try discriminate; try reflexivity.
  - rewrite andb_true_iff, H, IH. intros [-> ->]. reflexivity.
  - intros E. injection E as E1 E2. rewrite andb_true_iff, H, IH. auto.
Qed.
Lemma list_eqb_eq_iff {A} (e : A -> A -> bool) :
  (forall x y, e x y = true <-> x = y) -> forall a b, list_eqb e a b = true <-> a = b.
Proof. intros H a b. rewrite (list_eqb_map_key e (fun x => x) H), !map_id. reflexivity. Qed.
Lemma list_eqb_Forall2 {A} (e : A -> A -> bool) :
  forall a b, list_eqb e a b = true <-> Forall2 (fun x y => e x y = true) a b.
Proof.
  induction a as [|x a IH]; intros [|y b]; cbn; split; intros H; try discriminate; try constructor; try (inversion H; fail).
  - apply andb_prop in H. tauto.
  - apply IH. apply andb_prop in H. tauto.
  - inversion H; subst. apply andb_true_intro. split; [assumption|now apply IH].
Qed.

(* ---------- what "the field agrees" means, per comparison ---------- *)
(* lists of the same kind and length, an absent field being the empty list *)
Definition empty_list (x : fval) : Prop :=
  match x with V_ss [] | V_ns [] | V_apl [] | V_pairs [] => True | _ => False end.
Definition same_len (o1 o2 : option fval) : Prop :=
  match o1, o2 with
  | Some (V_ss a), Some (V_ss b) => length a = length b
  | Some (V_ns a), Some (V_ns b) => length a = length b
  | Some (V_apl a), Some (V_apl b) => length a = length b
  | Some (V_pairs a), Some (V_pairs b) => length a = length b
  | None, None => True
  | Some x, None | None, Some x => empty_list x
  | _, _ => False
  end.

Lemma len_rel_iff o1 o2 : len_rel o1 o2 = true <-> same_len o1 o2.
Proof.
  destruct o1 as [[]|], o2 as [[]|]; lr; cbn [same_len empty_list]; rewrite ?Nat.eqb_eq;
    try tauto; try (split; [discriminate|tauto]);
    try (destruct l; cbn; split; [tauto|discriminate|discriminate|tauto]);
    destruct l; cbn; split; auto; try discriminate; tauto.
Qed.

(* APLPrefix.equals *)
Definition apl_agree (p q : bool * N * bytes) : Prop :=
  fst (fst p) = fst (fst q) /\ ip_norm (snd p) = ip_norm (snd q) /\ snd (fst p) = snd (fst q) /\
  length (snd p) = length (snd q).
Lemma apl_equals_iff p q : apl_equals p q = true <-> apl_agree p q.
Proof.
  unfold apl_equals, apl_agree, ip_equal, lenN. rewrite !andb_true_iff, Bool.eqb_true_iff, bytes_eqb_eq, !N.eqb_eq.
  split; intros [[[A B] C] D] || intros [A [B [C D]]]; repeat split; auto; lia.
Qed.

(* an SVCB/EDNS0 element as areSVCBPairArraysEqual sees it: key and packed value *)
Definition kv (p : N * bytes * N) : N * bytes := (pkey p, snd (fst p)).
Lemma pair_eqb_iff p q : pair_eqb p q = true <-> kv p = kv q.
Proof.
  unfold pair_eqb, kv. rewrite andb_true_iff, N.eqb_eq, bytes_eqb_eq. split.
  - intros [-> ->]. reflexivity.
  - intros E. injection E as E1 E2. auto.
Qed.

Definition gw_agree (tyf : string) (mask : N) (addrf hostf : string) (v1 v2 : rdata) : Prop :=
  let ty := N.land (vget_n v1 tyf) mask in
  vget_n v1 tyf = vget_n v2 tyf /\
  (ty = gw_v4 \/ ty = gw_v6 -> ip_norm (as_b (vget v1 addrf)) = ip_norm (as_b (vget v2 addrf))) /\
  (ty = gw_host -> lower_bytes (as_s (vget v1 hostf)) = lower_bytes (as_s (vget v2 hostf))).

(* what "the field agrees" means, per comparison; absent = zero value throughout
   (the as_ accessors give [] / 0 for an absent field) *)
Definition agree (c : dcmp) (v1 v2 : rdata) : Prop :=
  match c with
  | D_eq f => val_agree (vget v1 f) (vget v2 f)
  | D_name f => lower_bytes (as_s (vget v1 f)) = lower_bytes (as_s (vget v2 f))
  | D_len_eq f => same_len (vget v1 f) (vget v2 f)
  | D_each_eq f =>
    same_len (vget v1 f) (vget v2 f) /\
    as_ss (vget v1 f) = as_ss (vget v2 f) /\ as_ns (vget v1 f) = as_ns (vget v2 f)
  | D_each_name f => map lower_bytes (as_ss (vget v1 f)) = map lower_bytes (as_ss (vget v2 f))
  | D_each_equals f => Forall2 apl_agree (as_apl (vget v1 f)) (as_apl (vget v2 f))
  | D_ip_equal f => ip_norm (as_b (vget v1 f)) = ip_norm (as_b (vget v2 f))
  | D_pairs f => map kv (sort_pairs (as_pairs (vget v1 f))) = map kv (sort_pairs (as_pairs (vget v2 f)))
  | D_gateway tyf mask addrf hostf => gw_agree tyf mask addrf hostf v1 v2
  | D_embedded _ => True
  | D_const b => b = true
  | D_other _ => False
  end.

Lemma Forall2_impl_iff {A} (P Q : A -> A -> Prop) : (forall x y, P x y <-> Q x y) ->
  forall a b, Forall2 P a b <-> Forall2 Q a b.
Proof. intros H a b. split; induction 1; constructor; auto; now apply H. Qed.

Lemma fval_eqb_refl x : is_scalar (Some x) = true -> fval_eqb x x = true.
Proof. destruct x; cbn; try discriminate; intros _; first [apply N.eqb_refl|apply bytes_eqb_refl]. Qed.
Lemma opt_fval_eqb_iff a b : is_scalar a = true -> is_scalar b = true ->
  (opt_fval_eqb a b = true <-> val_agree a b).
Proof.
  intros A B. split; [apply opt_fval_eqb_agree|].
  destruct a as [x|], b as [y|]; cbn [val_agree opt_fval_eqb]; try reflexivity.
  - intros <-. now apply fval_eqb_refl.
  - intros E. rewrite <- E. now apply fval_eqb_refl.
  - intros E. rewrite <- E. now apply fval_eqb_refl.
Qed.

(* under the field's own type the length test is about one list *)
Lemma len_rel_strs o1 o2 : is_strs o1 = true -> is_strs o2 = true ->
  len_rel o1 o2 = Nat.eqb (length (as_ss o1)) (length (as_ss o2)).
Proof. destruct o1 as [[]|], o2 as [[]|]; cbn; try discriminate; reflexivity. Qed.
Lemma len_rel_aplv o1 o2 : is_aplv o1 = true -> is_aplv o2 = true ->
  len_rel o1 o2 = Nat.eqb (length (as_apl o1)) (length (as_apl o2)).
Proof. destruct o1 as [[]|], o2 as [[]|]; cbn; try discriminate; reflexivity. Qed.
Lemma len_rel_pairsv o1 o2 : is_pairsv o1 = true -> is_pairsv o2 = true ->
  len_rel o1 o2 = Nat.eqb (length (as_pairs o1)) (length (as_pairs o2)).
Proof. destruct o1 as [[]|], o2 as [[]|]; cbn; try discriminate; reflexivity. Qed.

Lemma each_full_iff o1 o2 : is_eachv o1 = true -> is_eachv o2 = true -> len_rel o1 o2 = true ->
  (each_full o1 o2 = true <-> as_ss o1 = as_ss o2 /\ as_ns o1 = as_ns o2).
Proof.
  destruct o1 as [[]|], o2 as [[]|]; cbn [is_eachv]; try discriminate; intros _ _; lr; try discriminate; intros L;
    rewrite ?(list_eqb_eq_iff bytes_eqb bytes_eqb_eq), ?(list_eqb_eq_iff N.eqb N.eqb_eq); tauto.
Qed.

Lemma ideal_agree c v1 v2 : is_plain c = true -> typed1 v1 c = true -> typed1 v2 c = true ->
  (ideal c v1 v2 = true <-> agree c v1 v2).
Proof.
  unfold ideal. destruct c; intros P T1 T2; try discriminate P; cbn [pre_b rawb agree typed1 andb] in *.
  - (* D_eq *) now apply opt_fval_eqb_iff.
  - apply name_eq_ci_iff.
  - apply len_rel_iff.
  - (* D_each_eq *) rewrite andb_true_iff, <- len_rel_iff. split.
    + intros [L E]. split; [exact L|]. rewrite (each_rel_full _ _ L) in E. now apply each_full_iff.
    + intros [L E]. split; [exact L|]. rewrite (each_rel_full _ _ L). now apply each_full_iff.
  - (* D_each_name *) rewrite (len_rel_strs _ _ T1 T2), list_eqb_firstn.
    apply (list_eqb_map_key name_eq_ci lower_bytes name_eq_ci_iff).
  - (* D_each_equals *) rewrite (len_rel_aplv _ _ T1 T2), list_eqb_firstn, list_eqb_Forall2.
    apply Forall2_impl_iff. apply apl_equals_iff.
  - (* D_ip_equal *) apply bytes_eqb_eq.
  - (* D_pairs *) rewrite (len_rel_pairsv _ _ T1 T2), andb_true_iff, (list_eqb_map_key pair_eqb kv pair_eqb_iff), Nat.eqb_eq.
    split; [tauto|]. intros E. split; [|exact E].
    apply (f_equal (@length _)) in E. now rewrite !map_length, !sort_pairs_length in E.
  - (* D_gateway *) unfold gw_agree, gw_rel. rewrite andb_true_iff.
    apply andb_prop in T1, T2. destruct T1 as [T1 _], T2 as [T2 _]. apply andb_prop in T1, T2. destruct T1 as [T1 _], T2 as [T2 _].
    set (ty := N.land (vget_n v1 tyf) mask).
    assert (E : opt_fval_eqb (vget v1 tyf) (vget v2 tyf) = true <-> vget_n v1 tyf = vget_n v2 tyf).
    { unfold vget_n. destruct (vget v1 tyf) as [[]|], (vget v2 tyf) as [[]|]; cbn in T1, T2; try discriminate;
        cbn [opt_fval_eqb fval_eqb zero_like]; rewrite ?N.eqb_eq; split; congruence. }
    rewrite E. unfold gw_v4, gw_v6, gw_host.
    destruct (ty =? 1) eqn:E1; [|destruct (ty =? 2) eqn:E2; [|destruct (ty =? 3) eqn:E3]]; cbn [orb];
      unfold ip_equal; rewrite ?bytes_eqb_eq, ?name_eq_ci_iff; split; intros [A B]; repeat split; auto; try tauto; try (intros; lia).
    + destruct B as [B _]. apply B. lia.
    + destruct B as [B _]. apply B. lia.
    + destruct B as [_ B]. apply B. lia.
  - (* D_embedded *) tauto.
Qed.

(* ---------- a true verdict = every comparison's field agrees ---------- *)
Lemma all_ideal_const cs v1 v2 b : forall seen,
  wf_from seen cs = true -> all_ideal cs v1 v2 = true -> In (D_const b) cs -> b = true.
Proof.
  induction cs as [|d r IH]; intros seen W H Hin; [destruct Hin|].
  destruct Hin as [E|Hin].
  - subst d. exact H.
  - destruct d; cbn [all_ideal wf_from] in H, W;
      try (apply andb_prop in H; destruct H as [_ H]; apply andb_prop in W; destruct W as [_ W]; now apply (IH _ W)).
    + destruct r; [destruct Hin|discriminate W].
    + discriminate W.
Qed.

Lemma wf_no_other cs what : forall seen, wf_from seen cs = true -> ~ In (D_other what) cs.
Proof.
  induction cs as [|d r IH]; intros seen W Hin; [destruct Hin|].
  destruct Hin as [E|Hin].
  - subst d. discriminate W.
  - destruct d; cbn [wf_from] in W; try (apply andb_prop in W; destruct W as [_ W]; exact (IH _ W Hin)).
    + destruct r; [destruct Hin|discriminate W].
    + discriminate W.
Qed.

Lemma all_ideal_of_agree cs v1 v2 :
  typed_for cs v1 = true -> typed_for cs v2 = true ->
  (forall c, In c cs -> agree c v1 v2) -> all_ideal cs v1 v2 = true.
Proof.
  induction cs as [|c r IH]; intros T1 T2 H; [reflexivity|].
  cbn [typed_for forallb] in T1, T2. apply andb_prop in T1, T2. destruct T1 as [T1 T1'], T2 as [T2 T2'].
  pose proof (H c (or_introl eq_refl)) as Hc.
  assert (IH' : all_ideal r v1 v2 = true) by (apply IH; auto; intros d Hd; apply H; now right).
  destruct (is_plain c) eqn:P.
  - assert (E : all_ideal (c :: r) v1 v2 = ideal c v1 v2 && all_ideal r v1 v2) by (destruct c; try discriminate P; reflexivity).
    rewrite E, IH', andb_true_r. now apply ideal_agree.
  - destruct c; try discriminate P; cbn in Hc |- *; [exact Hc|destruct Hc].
Qed.

Lemma dup_cmps_true_iff cs v1 v2 :
  cmps_wf cs = true -> typed_for cs v1 = true -> typed_for cs v2 = true ->
  (dup_cmps cs v1 v2 = Ok true <-> forall c, In c cs -> agree c v1 v2).
Proof.
  intros W T1 T2. rewrite (dup_cmps_ideal cs v1 v2 W). split.
  - intros H c Hin. injection H as H. destruct (is_plain c) eqn:P.
    + unfold typed_for in T1, T2. rewrite forallb_forall in T1, T2.
      apply ideal_agree; auto. exact (all_ideal_in cs v1 v2 c [] W H Hin P).
    + destruct c; try discriminate P; cbn.
      * exact (all_ideal_const cs v1 v2 b [] W H Hin).
      * exact (wf_no_other cs what [] W Hin).
  - intros H. f_equal. now apply all_ideal_of_agree.
Qed.

(* ---------- the comparison list of a type is the one its wire layout dictates ---------- *)
Definition expected_cmps (p : pfield) : list dcmp :=
  let f := fst p in
  match snd p with
  | K_name _ => [D_name f]
  | K_names _ => [D_len_eq f; D_each_name f]
  | K_txt | K_nsec => [D_len_eq f; D_each_eq f]
  | K_a | K_aaaa => [D_ip_equal f]
  | K_svcb | K_opt => [D_len_eq f; D_pairs f]
  | K_apl => [D_len_eq f; D_each_equals f]
  | K_gateway tyf addrf hostf mask _ => [D_gateway tyf mask addrf hostf]
  | _ => [D_eq f]
  end.
Definition layout_cmps (L : tlayout) : list dcmp := flat_map expected_cmps (tl_pack L) ++ [D_const true].

Definition dcmp_eqb (a b : dcmp) : bool :=
  match a, b with
  | D_eq f, D_eq g | D_name f, D_name g | D_len_eq f, D_len_eq g | D_each_eq f, D_each_eq g
  | D_each_name f, D_each_name g | D_each_equals f, D_each_equals g | D_ip_equal f, D_ip_equal g
  | D_pairs f, D_pairs g | D_embedded f, D_embedded g | D_other f, D_other g => String.eqb f g
  | D_gateway t m a h, D_gateway t' m' a' h' => String.eqb t t' && N.eqb m m' && String.eqb a a' && String.eqb h h'
  | D_const x, D_const y => Bool.eqb x y
  | _, _ => false
  end.
Lemma dcmp_eqb_eq a b : dcmp_eqb a b = true <-> a = b.
Proof.
  split.
  - destruct a, b; cbn; try discriminate; intros H;
      try (apply String.eqb_eq in H; now subst);
      try (apply Bool.eqb_prop in H; now subst).
    apply andb_prop in H. destruct H as [H H4]. apply andb_prop in H. destruct H as [H H3]. apply andb_prop in H. destruct H as [H1 H2].
    apply String.eqb_eq in H1, H3, H4. apply N.eqb_eq in H2. now subst.
  - intros <-. destruct a; cbn; rewrite ?String.eqb_refl, ?N.eqb_refl, ?Bool.eqb_reflx; reflexivity.
Qed.

(* table check, re-run on every regenerated zduplicate.go / zmsg.go: every type
   with a wire layout, OPT excepted, has exactly the comparison list derived from
   its pack statements, in order, followed by return true *)
Lemma dups_match_layouts :
  forallb (fun L => String.eqb (tl_name L) "OPT" ||
                    match find_dup dups (tl_name L) with
                    | Some cs => list_eqb dcmp_eqb cs (layout_cmps L)
                    | None => false end) layouts = true.
Proof. vm_compute. reflexivity. Qed.

Lemma find_layout_in l k L : find_layout l k = Some L -> In L l /\ tl_name L = k.
Proof.
  induction l as [|t r IH]; cbn; [discriminate|]. destruct (String.eqb (tl_name t) k) eqn:E.
  - intros H. injection H as <-. apply String.eqb_eq in E. auto.
  - intros H. destruct (IH H). auto.
Qed.

Lemma layout_dup k L : k <> "OPT"%string -> find_layout layouts k = Some L ->
  find_dup dups k = Some (layout_cmps L).
Proof.
  intros K F. apply find_layout_in in F. destruct F as [Hin <-].
  pose proof dups_match_layouts as T. rewrite forallb_forall in T. specialize (T L Hin).
  apply orb_prop in T. destruct T as [T|T]; [apply String.eqb_eq in T; contradiction|].
  destruct (find_dup dups (tl_name L)) as [cs|]; [|discriminate].
  apply (list_eqb_eq_iff dcmp_eqb dcmp_eqb_eq) in T. now subst.
Qed.

(* ---------- field by field ---------- *)
Definition is_encv (o : option fval) : bool := match o with None | Some (V_enc _) => true | _ => false end.
Definition is_nsv (o : option fval) : bool := match o with None | Some (V_ns _) => true | _ => false end.
(* the field of pack statement p holds a value of the Go type of that field (or is absent) *)
Definition field_typed (v : rdata) (p : pfield) : bool :=
  let o := vget v (fst p) in
  match snd p with
  | K_u8 | K_u16 | K_u32 | K_u48 | K_u64 => is_num o
  | K_name _ | K_string | K_octet | K_any => is_str o
  | K_txt | K_names _ => is_strs o
  | K_hex _ | K_hexdash _ | K_b64 _ | K_b32 _ => is_encv o
  | K_a | K_aaaa => is_ip o
  | K_nsec => is_nsv o
  | K_opt | K_svcb => is_pairsv o
  | K_apl => is_aplv o
  | K_gateway tyf addrf hostf _ _ => is_num (vget v tyf) && is_ip (vget v addrf) && is_str (vget v hostf)
  end.
Definition layout_typed (L : tlayout) (v : rdata) : bool := forallb (field_typed v) (tl_pack L).

(* agreement of one wire field, on the Go values (absent = zero value) *)
Definition field_agree (p : pfield) (v1 v2 : rdata) : Prop :=
  let o1 := vget v1 (fst p) in let o2 := vget v2 (fst p) in
  match snd p with
  | K_u8 | K_u16 | K_u32 | K_u48 | K_u64 => as_n o1 = as_n o2
  | K_name _ => lower_bytes (as_s o1) = lower_bytes (as_s o2)
  | K_string | K_octet | K_any => as_s o1 = as_s o2
  | K_txt => as_ss o1 = as_ss o2
  | K_names _ => map lower_bytes (as_ss o1) = map lower_bytes (as_ss o2)
  | K_hex _ | K_hexdash _ | K_b64 _ | K_b32 _ => as_enc o1 = as_enc o2
  | K_a | K_aaaa => ip_norm (as_b o1) = ip_norm (as_b o2)
  | K_nsec => as_ns o1 = as_ns o2
  | K_opt | K_svcb => map kv (sort_pairs (as_pairs o1)) = map kv (sort_pairs (as_pairs o2))
  | K_apl => Forall2 apl_agree (as_apl o1) (as_apl o2)
  | K_gateway tyf addrf hostf mask _ => gw_agree tyf mask addrf hostf v1 v2
  end.

Lemma field_typed_typed1 v p c : field_typed v p = true -> In c (expected_cmps p) -> typed1 v c = true.
Proof.
  destruct p as [f k]. unfold field_typed, expected_cmps. cbn [fst snd]. intros T.
  destruct k; cbn [In]; intros H; repeat (destruct H as [<-|H]); try destruct H; cbn [typed1]; try exact T;
    destruct (vget v f) as [[]|]; cbn in T |- *; congruence.
Qed.

Lemma val_agree_num o1 o2 : is_num o1 = true -> is_num o2 = true -> (val_agree o1 o2 <-> as_n o1 = as_n o2).
Proof. destruct o1 as [[]|], o2 as [[]|]; cbn; try discriminate; intros _ _; split; intros; first [congruence|exact I]. Qed.
Lemma val_agree_str o1 o2 : is_str o1 = true -> is_str o2 = true -> (val_agree o1 o2 <-> as_s o1 = as_s o2).
Proof. destruct o1 as [[]|], o2 as [[]|]; cbn; try discriminate; intros _ _; split; intros; first [congruence|exact I]. Qed.
Lemma val_agree_enc o1 o2 : is_encv o1 = true -> is_encv o2 = true -> (val_agree o1 o2 <-> as_enc o1 = as_enc o2).
Proof. destruct o1 as [[]|], o2 as [[]|]; cbn; try discriminate; intros _ _; split; intros; first [congruence|exact I]. Qed.

Lemma same_len_strs o1 o2 : is_strs o1 = true -> is_strs o2 = true ->
  (same_len o1 o2 <-> length (as_ss o1) = length (as_ss o2)).
Proof. intros A B. now rewrite <- len_rel_iff, (len_rel_strs _ _ A B), Nat.eqb_eq. Qed.
Lemma same_len_aplv o1 o2 : is_aplv o1 = true -> is_aplv o2 = true ->
  (same_len o1 o2 <-> length (as_apl o1) = length (as_apl o2)).
Proof. intros A B. now rewrite <- len_rel_iff, (len_rel_aplv _ _ A B), Nat.eqb_eq. Qed.
Lemma same_len_pairsv o1 o2 : is_pairsv o1 = true -> is_pairsv o2 = true ->
  (same_len o1 o2 <-> length (as_pairs o1) = length (as_pairs o2)).
Proof. intros A B. now rewrite <- len_rel_iff, (len_rel_pairsv _ _ A B), Nat.eqb_eq. Qed.
Lemma same_len_nsv o1 o2 : is_nsv o1 = true -> is_nsv o2 = true ->
  (same_len o1 o2 <-> length (as_ns o1) = length (as_ns o2)).
Proof.
  rewrite <- len_rel_iff. destruct o1 as [[]|], o2 as [[]|]; cbn [is_nsv]; try discriminate; intros _ _; lr; rewrite ?Nat.eqb_eq; tauto.
Qed.
Lemma strs_as_ns o : is_strs o = true -> as_ns o = [].
Proof. destruct o as [[]|]; cbn; try discriminate; reflexivity. Qed.
Lemma nsv_as_ss o : is_nsv o = true -> as_ss o = [].
Proof. destruct o as [[]|]; cbn; try discriminate; reflexivity. Qed.

Lemma Forall2_len {A B} (R : A -> B -> Prop) a b : Forall2 R a b -> length a = length b.
Proof. induction 1; cbn; congruence. Qed.

Lemma field_agree_iff p v1 v2 : field_typed v1 p = true -> field_typed v2 p = true ->
  (field_agree p v1 v2 <-> forall c, In c (expected_cmps p) -> agree c v1 v2).
Proof.
  destruct p as [f k]. unfold field_agree, field_typed, expected_cmps. cbn [fst snd]. intros T1 T2.
  assert (X1 : forall c (P : Prop), (P <-> agree c v1 v2) -> (P <-> forall d, In d [c] -> agree d v1 v2)).
  { intros c P H. rewrite H. split; [intros A d [<-|[]]; exact A|intros A; apply A; now left]. }
  assert (X2 : forall c d (P : Prop), (P <-> agree c v1 v2 /\ agree d v1 v2) -> (P <-> forall x, In x [c; d] -> agree x v1 v2)).
  { intros c d P H. rewrite H. split; [intros [A B] x [<-|[<-|[]]]; assumption|intros A; split; apply A; cbn; auto]. }
  destruct k; first [apply X1|apply X2]; cbn [agree]; try reflexivity;
    try (symmetry; now apply val_agree_num); try (symmetry; now apply val_agree_str); try (symmetry; now apply val_agree_enc).
  - (* K_txt *) rewrite (same_len_strs _ _ T1 T2), (strs_as_ns _ T1), (strs_as_ns _ T2).
    split; [intros E; rewrite E; auto|tauto].
  - (* K_nsec *) rewrite (same_len_nsv _ _ T1 T2), (nsv_as_ss _ T1), (nsv_as_ss _ T2).
    split; [intros E; rewrite E; auto|tauto].
  - (* K_opt *) rewrite (same_len_pairsv _ _ T1 T2). split; [|tauto]. intros E. split; [|exact E].
    apply (f_equal (@length _)) in E. now rewrite !map_length, !sort_pairs_length in E.
  - (* K_svcb *) rewrite (same_len_pairsv _ _ T1 T2). split; [|tauto]. intros E. split; [|exact E].
    apply (f_equal (@length _)) in E. now rewrite !map_length, !sort_pairs_length in E.
  - (* K_apl *) rewrite (same_len_aplv _ _ T1 T2). split; [|tauto]. intros E. split; [|exact E].
    eapply Forall2_len; eauto.
  - (* K_names *) rewrite (same_len_strs _ _ T1 T2). split; [|tauto]. intros E. split; [|exact E].
    apply (f_equal (@length _)) in E. now rewrite !map_length in E.
Qed.

Lemma in_layout_cmps L c :
  In c (layout_cmps L) <-> (exists p, In p (tl_pack L) /\ In c (expected_cmps p)) \/ c = D_const true.
Proof.
  unfold layout_cmps. rewrite in_app_iff, in_flat_map. cbn [In]. split.
  - intros [H|[H|[]]]; [now left|now right].
  - intros [H| ->]; [now left|right; now left].
Qed.

Lemma layout_typed_for L v : layout_typed L v = true -> typed_for (layout_cmps L) v = true.
Proof.
  intros T. unfold layout_typed in T. rewrite forallb_forall in T. unfold typed_for. apply forallb_forall.
  intros c Hc. apply in_layout_cmps in Hc. destruct Hc as [[p [Hp Hc]]| ->]; [|reflexivity].
  exact (field_typed_typed1 v p c (T p Hp) Hc).
Qed.

Lemma is_duplicate_iff_fields r1 r2 L :
  rr_kind r1 <> "OPT"%string -> find_layout layouts (rr_kind r1) = Some L ->
  layout_typed L (rr_data r1) = true -> layout_typed L (rr_data r2) = true ->
  (is_duplicate r1 r2 = Ok true <->
   rr_class r1 = rr_class r2 /\ rr_type r1 = rr_type r2 /\ rr_kind r1 = rr_kind r2 /\
   lower_bytes (rr_name r1) = lower_bytes (rr_name r2) /\
   forall p, In p (tl_pack L) -> field_agree p (rr_data r1) (rr_data r2)).
Proof.
  intros K FL LT1 LT2. pose proof (layout_dup _ _ K FL) as FD. pose proof (find_dup_wf _ _ FD) as W.
  pose proof (layout_typed_for _ _ LT1) as T1. pose proof (layout_typed_for _ _ LT2) as T2.
  unfold layout_typed in LT1, LT2. rewrite forallb_forall in LT1, LT2.
  split.
  - intros H. destruct (is_duplicate_true_header _ _ H) as [A [B [C D]]]. repeat split; auto.
    destruct (is_duplicate_true_inv _ _ H) as [_ [_ [cs [F' DC]]]]. rewrite FD in F'. injection F' as <-.
    rewrite (dup_cmps_true_iff _ _ _ W T1 T2) in DC.
    intros p Hp. apply (field_agree_iff p _ _ (LT1 p Hp) (LT2 p Hp)). intros c Hc. apply DC. apply in_layout_cmps. left. eauto.
  - intros [A [B [C [D E]]]]. rewrite is_duplicate_unfold. unfold hdr_eq.
    rewrite A, B, !N.eqb_refl, (proj2 (name_eq_ci_iff _ _) D), <- C, String.eqb_refl, FD. cbn [andb negb].
    apply (dup_cmps_true_iff _ _ _ W T1 T2). intros c Hc. apply in_layout_cmps in Hc. destruct Hc as [[p [Hp Hc]]| ->].
    + exact (proj1 (field_agree_iff p _ _ (LT1 p Hp) (LT2 p Hp)) (E p Hp) c Hc).
    + reflexivity.
Qed.

(* ---------- (2) the kinds of value the generated unpack() assigns ---------- *)
Definition vclass_eqb (a b : vclass) : bool :=
  match a, b with
  | C_n, C_n | C_s, C_s | C_ss, C_ss | C_b, C_b | C_enc, C_enc | C_ns, C_ns | C_pairs, C_pairs | C_apl, C_apl => true
  | _, _ => false
  end.
(* the fields one unpack statement assigns, with the kind of value it stores *)
Definition assigned_classes (u : ufield) : list (string * vclass) :=
  let f := uf_name u in
  match uf_kind u with
  | K_u8 | K_u16 | K_u32 | K_u48 | K_u64 => [(f, C_n)]
  | K_name _ | K_string | K_octet | K_any => [(f, C_s)]
  | K_txt | K_names _ => [(f, C_ss)]
  | K_hex _ | K_hexdash _ | K_b64 _ | K_b32 _ => [(f, C_enc)]
  | K_a | K_aaaa => [(f, C_b)]
  | K_nsec => [(f, C_ns)]
  | K_opt | K_svcb => [(f, C_pairs)]
  | K_apl => [(f, C_apl)]
  | K_gateway _ addrf hostf _ _ => [(addrf, C_b); (hostf, C_s)]
  end.
Definition classed (acs : list (string * vclass)) (gx : string * fval) : Prop :=
  In (fst gx, class_of (snd gx)) acs.

Ltac inv_ok H := injection H as <- <-; cbn [combine]; repeat (apply Forall_cons || apply Forall_nil); unfold classed; cbn; auto.

Lemma unpack_field_classes got u msg off vals off' :
  unpack_field got (uf_kind u) msg off = Ok (vals, off') ->
  Forall (classed (assigned_classes u)) (combine (assigned u) vals).
Proof.
  destruct u as [f k e]. unfold assigned, assigned_classes. cbn [uf_kind uf_name].
  destruct k; unfold unpack_field; cbv beta iota zeta.
  all: try (destruct (unpack_fixed _ msg off) as [[a b]| | |]; cbn [bind fst snd]; intros H; try discriminate H; inv_ok H; fail).
  all: try (destruct (unpack_name msg off) as [[a b]| | |]; cbn [bind fst snd]; intros H; try discriminate H; inv_ok H; fail).
  all: try (destruct (unpack_to_end msg off _) as [[a b]| | |]; cbn [bind fst snd]; intros H; try discriminate H; inv_ok H; fail).
  - destruct (unpack_string msg off) as [[a b]| | |]; cbn [bind fst snd]; intros H; try discriminate H; inv_ok H.
  - destruct (unpack_txt msg off) as [[a b]| | |]; cbn [bind fst snd]; intros H; try discriminate H; inv_ok H.
  - destruct (lenN msg <? off); cbn [bind fst snd]; intros H; try discriminate H; inv_ok H.
  - destruct (unpack_nsec msg off) as [[a b]| | |]; cbn [bind fst snd]; intros H; try discriminate H; inv_ok H.
  - destruct (unpack_opts msg off) as [[a b]| | |]; cbn [bind fst snd]; intros H; try discriminate H; inv_ok H.
  - destruct (unpack_svcb msg off) as [[a b]| | |]; cbn [bind fst snd]; intros H; try discriminate H; inv_ok H.
  - destruct (unpack_apl msg off) as [[a b]| | |]; cbn [bind fst snd]; intros H; try discriminate H; inv_ok H.
  - destruct (unpack_names msg off) as [[a b]| | |]; cbn [bind fst snd]; intros H; try discriminate H; inv_ok H.
  - destruct (_ =? gw_v4); [|destruct (_ =? gw_v6); [|destruct (_ =? gw_host)]].
    + destruct (unpack_fixed 4 msg off) as [[a b]| | |]; cbn [bind fst snd]; intros H; try discriminate H; inv_ok H.
    + destruct (unpack_fixed 16 msg off) as [[a b]| | |]; cbn [bind fst snd]; intros H; try discriminate H; inv_ok H.
    + destruct (unpack_name msg off) as [[a b]| | |]; cbn [bind fst snd]; intros H; try discriminate H; inv_ok H.
    + intros H; inv_ok H.
Qed.

Lemma unpack_fields_classes acs l :
  (forall u, In u l -> incl (assigned_classes u) acs) ->
  forall got msg off v off', Forall (classed acs) got ->
    unpack_fields l got msg off = Ok (v, off') -> Forall (classed acs) v.
Proof.
  induction l as [|u r IH]; intros Hl got msg off v off' G H.
  - cbn in H. injection H as <- _. exact G.
  - cbn [unpack_fields] in H.
    destruct (unpack_field got (uf_kind u) msg off) as [[vals o]| | |] eqn:U; cbn [bind fst snd] in H; try discriminate H.
    assert (G' : Forall (classed acs) (got ++ combine (assigned u) vals)).
    { apply Forall_app. split; [exact G|]. apply unpack_field_classes in U.
      eapply Forall_impl; [|exact U]. intros gx Hgx. apply (Hl u (or_introl eq_refl)). exact Hgx. }
    destruct (uf_exit u && (o =? lenN msg)).
    + injection H as <- _. exact G'.
    + apply (IH (fun u' Hu' => Hl u' (or_intror Hu')) _ _ _ _ _ G' H).
Qed.

Definition layout_classes (L : tlayout) : list (string * vclass) := flat_map assigned_classes (tl_unpack L).

Lemma unpack_layout_classes L msg off v off' :
  unpack_fields (tl_unpack L) [] msg off = Ok (v, off') -> Forall (classed (layout_classes L)) v.
Proof.
  apply unpack_fields_classes; [|constructor].
  intros u Hu gc Hgc. unfold layout_classes. apply in_flat_map. eauto.
Qed.

(* which kind of value comparison c tolerates in field g *)
Definition cl_in (cl : vclass) (l : list vclass) : bool := existsb (vclass_eqb cl) l.
Definition class_ok (c : dcmp) (g : string) (cl : vclass) : bool :=
  let on f l := negb (String.eqb g f) || cl_in cl l in
  match c with
  | D_eq f => on f [C_n; C_s; C_enc; C_b]
  | D_name f => on f [C_s]
  | D_len_eq f => on f [C_ss; C_ns; C_apl; C_pairs]
  | D_each_eq f => on f [C_ss; C_ns]
  | D_each_name f => on f [C_ss]
  | D_each_equals f => on f [C_apl]
  | D_ip_equal f => on f [C_b]
  | D_pairs f => on f [C_pairs]
  | D_gateway tyf _ addrf hostf => on tyf [C_n] && on addrf [C_b] && on hostf [C_s]
  | _ => true
  end.

Lemma vget_in v f x : vget v f = Some x -> In (f, x) v.
Proof.
  induction v as [|[g y] r IH]; cbn; [discriminate|]. destruct (String.eqb f g) eqn:E.
  - intros H. injection H as ->. apply String.eqb_eq in E. subst. now left.
  - intros H. right. auto.
Qed.

(* the class of a present field, from the invariant and the table entry *)
Lemma vget_class acs v f (l : list vclass) :
  Forall (classed acs) v ->
  forallb (fun gc => negb (String.eqb (fst gc) f) || cl_in (snd gc) l) acs = true ->
  match vget v f with Some x => cl_in (class_of x) l = true | None => True end.
Proof.
  intros G T. destruct (vget v f) as [x|] eqn:E; [|exact I].
  apply vget_in in E. rewrite Forall_forall in G. specialize (G _ E). unfold classed in G. cbn in G.
  rewrite forallb_forall in T. specialize (T _ G). cbn in T. now rewrite String.eqb_refl in T.
Qed.

Lemma typed1_of_classes acs v c :
  Forall (classed acs) v -> forallb (fun gc => class_ok c (fst gc) (snd gc)) acs = true -> typed1 v c = true.
Proof.
  intros G T. destruct c; cbn [typed1]; try reflexivity; cbn [class_ok] in T.
  1-8: pose proof (vget_class acs v f _ G T) as H; destruct (vget v f) as [[]|]; cbn in H |- *; congruence.
  assert (T3 : forallb (fun gc => negb (String.eqb (fst gc) tyf) || cl_in (snd gc) [C_n]) acs = true /\
               forallb (fun gc => negb (String.eqb (fst gc) addrf) || cl_in (snd gc) [C_b]) acs = true /\
               forallb (fun gc => negb (String.eqb (fst gc) hostf) || cl_in (snd gc) [C_s]) acs = true).
  { rewrite !forallb_forall in *. repeat split; intros gc Hgc; specialize (T gc Hgc);
      apply andb_prop in T; destruct T as [T T3]; apply andb_prop in T; destruct T as [T1 T2]; assumption. }
  destruct T3 as [A [B C]].
  pose proof (vget_class acs v tyf _ G A) as HA. pose proof (vget_class acs v addrf _ G B) as HB.
  pose proof (vget_class acs v hostf _ G C) as HC.
  destruct (vget v tyf) as [[]|], (vget v addrf) as [[]|], (vget v hostf) as [[]|]; cbn in HA, HB, HC |- *; congruence.
Qed.

(* table check: in every layout, each field a comparison looks at is assigned a
   value of a kind that comparison expects *)
Lemma layout_classes_fit_comparisons :
  forallb (fun L => match find_dup dups (tl_name L) with
                    | Some cs => forallb (fun c => forallb (fun gc => class_ok c (fst gc) (snd gc)) (layout_classes L)) cs
                    | None => false end) layouts = true.
Proof. vm_compute. reflexivity. Qed.

Lemma unpacked_rdata_typed k L cs msg off v off' :
  find_layout layouts k = Some L -> find_dup dups k = Some cs ->
  unpack_fields (tl_unpack L) [] msg off = Ok (v, off') -> typed_for cs v = true.
Proof.
  intros FL FD U. apply find_layout_in in FL. destruct FL as [Hin <-].
  pose proof layout_classes_fit_comparisons as T. rewrite forallb_forall in T. specialize (T L Hin).
  rewrite FD in T. rewrite forallb_forall in T.
  unfold typed_for. apply forallb_forall. intros c Hc.
  apply (typed1_of_classes (layout_classes L)); [exact (unpack_layout_classes L msg off v off' U)|exact (T c Hc)].
Qed.

Lemma typed_for_nil cs : typed_for cs [] = true.
Proof. unfold typed_for. apply forallb_forall. intros c _. destruct c; reflexivity. Qed.

(* the same for the field types of the layout *)
Definition field_class_ok (p : pfield) (g : string) (cl : vclass) : bool :=
  let on f l := negb (String.eqb g f) || cl_in cl l in
  match snd p with
  | K_u8 | K_u16 | K_u32 | K_u48 | K_u64 => on (fst p) [C_n]
  | K_name _ | K_string | K_octet | K_any => on (fst p) [C_s]
  | K_txt | K_names _ => on (fst p) [C_ss]
  | K_hex _ | K_hexdash _ | K_b64 _ | K_b32 _ => on (fst p) [C_enc]
  | K_a | K_aaaa => on (fst p) [C_b]
  | K_nsec => on (fst p) [C_ns]
  | K_opt | K_svcb => on (fst p) [C_pairs]
  | K_apl => on (fst p) [C_apl]
  | K_gateway tyf addrf hostf _ _ => on tyf [C_n] && on addrf [C_b] && on hostf [C_s]
  end.

Lemma field_typed_of_classes acs v p :
  Forall (classed acs) v -> forallb (fun gc => field_class_ok p (fst gc) (snd gc)) acs = true -> field_typed v p = true.
Proof.
  intros G T. destruct p as [f k]. unfold field_typed, field_class_ok in *. cbn [fst snd] in *.
  destruct k.
  1-21: pose proof (vget_class acs v f _ G T) as H; destruct (vget v f) as [[]|]; cbn in H |- *; congruence.
  assert (T3 : forallb (fun gc => negb (String.eqb (fst gc) tyf) || cl_in (snd gc) [C_n]) acs = true /\
               forallb (fun gc => negb (String.eqb (fst gc) addrf) || cl_in (snd gc) [C_b]) acs = true /\
               forallb (fun gc => negb (String.eqb (fst gc) hostf) || cl_in (snd gc) [C_s]) acs = true).
  { rewrite !forallb_forall in *. repeat split; intros gc Hgc; specialize (T gc Hgc);
      apply andb_prop in T; destruct T as [T T3]; apply andb_prop in T; destruct T as [T1 T2]; assumption. }
  destruct T3 as [A [B C]].
  pose proof (vget_class acs v tyf _ G A) as HA. pose proof (vget_class acs v addrf _ G B) as HB.
  pose proof (vget_class acs v hostf _ G C) as HC.
  destruct (vget v tyf) as [[]|], (vget v addrf) as [[]|], (vget v hostf) as [[]|]; cbn in HA, HB, HC |- *; congruence.
Qed.

(* table checks: the unpack statements of a layout assign every pack field a value
   of that field's type, and no field two kinds of value *)
Lemma layout_classes_fit_fields :
  forallb (fun L => forallb (fun p => forallb (fun gc => field_class_ok p (fst gc) (snd gc)) (layout_classes L)) (tl_pack L))
          layouts = true.
Proof. vm_compute. reflexivity. Qed.

Definition classes_functional (acs : list (string * vclass)) : bool :=
  forallb (fun a => forallb (fun b => negb (String.eqb (fst a) (fst b)) || vclass_eqb (snd a) (snd b)) acs) acs.
Lemma layout_classes_functional : forallb (fun L => classes_functional (layout_classes L)) layouts = true.
Proof. vm_compute. reflexivity. Qed.

Lemma vclass_eqb_eq a b : vclass_eqb a b = true -> a = b.
Proof. destruct a, b; cbn; congruence. Qed.

Lemma classed_same_shape acs v1 v3 : classes_functional acs = true ->
  Forall (classed acs) v1 -> Forall (classed acs) v3 -> same_shape v1 v3.
Proof.
  intros F G1 G3 f. unfold kinds_ok. destruct (vget v1 f) as [x|] eqn:E1; [|exact I].
  destruct (vget v3 f) as [y|] eqn:E3; [|exact I].
  apply vget_in in E1, E3. rewrite Forall_forall in G1, G3. specialize (G1 _ E1). specialize (G3 _ E3).
  unfold classed in G1, G3. cbn [fst snd] in G1, G3.
  unfold classes_functional in F. rewrite forallb_forall in F. specialize (F _ G1). rewrite forallb_forall in F.
  specialize (F _ G3). cbn [fst snd] in F. rewrite String.eqb_refl in F. cbn in F. now apply vclass_eqb_eq.
Qed.

Lemma unpacked_rdata_layout_typed k L msg off v off' :
  find_layout layouts k = Some L ->
  unpack_fields (tl_unpack L) [] msg off = Ok (v, off') -> layout_typed L v = true.
Proof.
  intros FL U. apply find_layout_in in FL. destruct FL as [Hin _].
  pose proof layout_classes_fit_fields as T. rewrite forallb_forall in T. specialize (T L Hin). rewrite forallb_forall in T.
  unfold layout_typed. apply forallb_forall. intros p Hp.
  apply (field_typed_of_classes (layout_classes L)); [exact (unpack_layout_classes L msg off v off' U)|exact (T p Hp)].
Qed.

Lemma layout_typed_nil L : layout_typed L [] = true.
Proof. unfold layout_typed. apply forallb_forall. intros [f k] _. destruct k; reflexivity. Qed.

(* ---------- records obtained from the wire ---------- *)
(* table check: every Go type UnpackRR can produce has a comparison list, and
   among them only OPT ends in return false *)
Lemma unpacked_kinds_have_comparisons :
  forallb (fun k => match find_dup dups k with
                    | Some cs => no_const_false cs || String.eqb k "OPT"
                    | None => false end)
          ("RFC3597"%string :: map (fun p => base_kind (snd p)) type_to_rr) = true.
Proof. vm_compute. reflexivity. Qed.

Lemma assoc_n_in l t k : assoc_n l t = Some k -> In (t, k) l.
Proof.
  induction l as [|[a b] r IH]; cbn; [discriminate|]. destruct (a =? t) eqn:E.
  - intros H. injection H as ->. apply N.eqb_eq in E. subst. now left.
  - intros H. right. auto.
Qed.

Lemma kind_of_type_dup t : exists cs, find_dup dups (kind_of_type t) = Some cs /\
  (no_const_false cs = true \/ kind_of_type t = "OPT"%string).
Proof.
  pose proof unpacked_kinds_have_comparisons as T. rewrite forallb_forall in T.
  assert (Hin : In (kind_of_type t) ("RFC3597"%string :: map (fun p => base_kind (snd p)) type_to_rr)).
  { unfold kind_of_type. destruct (assoc_n type_to_rr t) as [k|] eqn:E; [|now left].
    right. apply assoc_n_in in E. apply in_map_iff. exists (t, k). auto. }
  specialize (T _ Hin). destruct (find_dup dups (kind_of_type t)) as [cs|]; [|discriminate].
  exists cs. split; [reflexivity|]. apply orb_prop in T. destruct T as [T|T]; [now left|right; now apply String.eqb_eq].
Qed.

(* what UnpackRR guarantees about the RDATA it returns *)
Definition wire_rdata (r : rr) : Prop :=
  rr_data r = [] \/
  exists L, find_layout layouts (rr_kind r) = Some L /\ Forall (classed (layout_classes L)) (rr_data r) /\
            layout_typed L (rr_data r) = true.

Local Opaque layouts dups type_to_rr kind_of_type unpack_fields.

Lemma unpack_rr_with_header_typed h msg off r off' :
  unpack_rr_with_header h msg off = Ok (r, off') ->
  wire_rdata r /\
  exists cs, find_dup dups (rr_kind r) = Some cs /\ typed_for cs (rr_data r) = true /\
             (no_const_false cs = true \/ rr_kind r = "OPT"%string).
Proof.
  unfold unpack_rr_with_header. destruct (kind_of_type_dup (h_type h)) as [cs [FD NC]].
  destruct (lenN msg <? off); [discriminate|]. destruct (lenN msg <? off + h_rdlength h); [discriminate|].
  destruct (h_rdlength h =? 0).
  - intros H. injection H as <- _. cbn [rr_kind rr_data]. split; [now left|].
    exists cs. split; [exact FD|]. split; [apply typed_for_nil|exact NC].
  - destruct (find_layout layouts (kind_of_type (h_type h))) as [L|] eqn:FL; [|discriminate].
    destruct (unpack_fields (tl_unpack L) [] msg off) as [[v o]| | |] eqn:U; cbn [bind fst snd]; try discriminate.
    destruct (o =? off + h_rdlength h); [|discriminate].
    intros H. injection H as <- _. unfold wire_rdata. cbn [rr_kind rr_data]. split.
    + right. exists L. split; [exact FL|]. split; [exact (unpack_layout_classes L msg off v o U)|].
      exact (unpacked_rdata_layout_typed _ L msg off v o FL U).
    + exists cs. split; [exact FD|]. split; [|exact NC].
      exact (unpacked_rdata_typed _ L cs msg off v o FL FD U).
Qed.

Lemma unpack_rr_typed msg off r off' :
  unpack_rr msg off = Ok (r, off') ->
  wire_rdata r /\
  exists cs, find_dup dups (rr_kind r) = Some cs /\ typed_for cs (rr_data r) = true /\
             (no_const_false cs = true \/ rr_kind r = "OPT"%string).
Proof.
  unfold unpack_rr. destruct (unpack_rr_header msg off) as [[[hd off1] tmsg]| | |]; cbn [bind]; try discriminate.
  apply unpack_rr_with_header_typed.
Qed.

Lemma wire_rdata_layout_typed r L : wire_rdata r -> find_layout layouts (rr_kind r) = Some L ->
  layout_typed L (rr_data r) = true.
Proof.
  intros [E|[L' [FL [_ T]]]] F; [rewrite E; apply layout_typed_nil|]. rewrite F in FL. injection FL as <-. exact T.
Qed.

Lemma wire_rdata_same_shape r1 r3 : wire_rdata r1 -> wire_rdata r3 -> rr_kind r1 = rr_kind r3 ->
  same_shape (rr_data r1) (rr_data r3).
Proof.
  intros [E1|[L1 [F1 [G1 _]]]] W3 K.
  - rewrite E1. intros f. exact I.
  - destruct W3 as [E3|[L3 [F3 [G3 _]]]].
    + rewrite E3. intros f. unfold kinds_ok. cbn. now destruct (vget (rr_data r1) f).
    + rewrite <- K, F1 in F3. injection F3 as <-. apply (classed_same_shape (layout_classes L1)); auto.
      apply find_layout_in in F1. destruct F1 as [Hin _].
      pose proof layout_classes_functional as T. rewrite forallb_forall in T. exact (T _ Hin).
Qed.

Lemma unpacked_rr_is_own_duplicate msg off r off' :
  unpack_rr msg off = Ok (r, off') -> rr_kind r <> "OPT"%string -> is_duplicate r r = Ok true.
Proof.
  intros U K. destruct (unpack_rr_typed _ _ _ _ U) as [_ [cs [FD [T [NC|NC]]]]]; [|contradiction].
  exact (is_duplicate_refl_cs r cs FD NC T).
Qed.

(* transitivity on records from the wire, no side condition *)
Lemma unpacked_rr_duplicate_trans m1 o1 r1 o1' m3 o3 r3 o3' r2 :
  unpack_rr m1 o1 = Ok (r1, o1') -> unpack_rr m3 o3 = Ok (r3, o3') ->
  is_duplicate r1 r2 = Ok true -> is_duplicate r2 r3 = Ok true -> is_duplicate r1 r3 = Ok true.
Proof.
  intros U1 U3 H1 H2. apply (is_duplicate_trans r1 r2 r3); auto.
  destruct (unpack_rr_typed _ _ _ _ U1) as [W1 _]. destruct (unpack_rr_typed _ _ _ _ U3) as [W3 _].
  apply wire_rdata_same_shape; auto.
  destruct (is_duplicate_true_header _ _ H1) as [_ [_ [K1 _]]]. destruct (is_duplicate_true_header _ _ H2) as [_ [_ [K2 _]]].
  congruence.
Qed.

(* duplicates among records from the wire: header and every wire field agree *)
Lemma unpacked_rr_duplicate_iff m1 o1 r1 o1' m2 o2 r2 o2' L :
  unpack_rr m1 o1 = Ok (r1, o1') -> unpack_rr m2 o2 = Ok (r2, o2') ->
  rr_kind r1 <> "OPT"%string -> find_layout layouts (rr_kind r1) = Some L ->
  (is_duplicate r1 r2 = Ok true <->
   rr_class r1 = rr_class r2 /\ rr_type r1 = rr_type r2 /\ rr_kind r1 = rr_kind r2 /\
   lower_bytes (rr_name r1) = lower_bytes (rr_name r2) /\
   forall p, In p (tl_pack L) -> field_agree p (rr_data r1) (rr_data r2)).
Proof.
  intros U1 U2 K FL.
  destruct (unpack_rr_typed _ _ _ _ U1) as [W1 _]. destruct (unpack_rr_typed _ _ _ _ U2) as [W2 _].
  destruct (String.eqb (rr_kind r1) (rr_kind r2)) eqn:E.
  - apply String.eqb_eq in E. apply is_duplicate_iff_fields; auto.
    + now apply wire_rdata_layout_typed.
    + apply wire_rdata_layout_typed; [exact W2|]. now rewrite <- E.
  - apply String.eqb_neq in E. split.
    + intros H. apply is_duplicate_true_header in H. tauto.
    + tauto.
Qed.

(* ---------- truncated RDATA ---------- *)
(* The generated unpack() returns early when the RDATA is exhausted, leaving the
   remaining struct fields at their zero value.  So a record whose RDATA stops
   after field k and the record that carries explicit zero values for the next
   fields decode to equal structs: IsDuplicate holds although the RDATA octets
   differ.  Witness: CAA with RDATA 00 (Flag only) and with RDATA 00 00 (Flag,
   empty Tag); the Go library answers IsDuplicate = true for this pair. *)
Definition caa_hdr : bytes := [1;97;0; 1;1; 0;1; 0;0;0;60].
Definition caa_wire_short : bytes := caa_hdr ++ [0;1] ++ [0].
Definition caa_wire_empty_tag : bytes := caa_hdr ++ [0;2] ++ [0;0].
Lemma truncated_rdata_witness :
  match unpack_rr caa_wire_short 0, unpack_rr caa_wire_empty_tag 0 with
  | Ok (r1, o1), Ok (r2, o2) =>
    rr_kind r1 = "CAA"%string /\ rr_kind r2 = "CAA"%string /\
    o1 = lenN caa_wire_short /\ o2 = lenN caa_wire_empty_tag /\
    rr_data r1 = [("Flag"%string, V_n 0)] /\
    rr_data r2 = [("Flag"%string, V_n 0); ("Tag"%string, V_s [])] /\
    ([0] : bytes) <> [0; 0] /\
    is_duplicate r1 r2 = Ok true /\ is_duplicate r2 r1 = Ok true
  | _, _ => False
  end.
Proof. vm_compute. repeat split; discriminate. Qed.
