(* Model/Name.v — presentation form of wire labels (the escaping done by
   UnpackDomainName in msg.go) and the escape reader nextByte/isDDD/dddToByte.
   Definitions only. *)
From Dns Require Export Base.Bytes.
Open Scope N_scope.

Definition c_dot : N := 46.
Definition c_bsl : N := 92.

(* types.go isDomainNameLabelSpecial: dot, space, apostrophe, at, semicolon, parentheses, double quote, backslash *)
Definition label_special (b : N) : bool :=
  (b =? 46) || (b =? 32) || (b =? 39) || (b =? 64) || (b =? 59) ||
  (b =? 40) || (b =? 41) || (b =? 34) || (b =? 92).

(* types.go escapeByte: \DDD, three decimal digits *)
Definition ddd (b : N) : bytes := [92; 48 + b / 100; 48 + (b / 10) mod 10; 48 + b mod 10].

(* one octet of a label as UnpackDomainName prints it *)
Definition show_octet (b : N) : bytes :=
  if label_special b then [92; b]
  else if (b <? 32) || (126 <? b) then ddd b
  else [b].

Definition label := bytes.
Definition show_label (l : label) : bytes := flat_map show_octet l.
(* every label is followed by a dot; the empty sequence (root) prints as "." *)
Definition show_labels (ls : list label) : bytes := flat_map (fun l => show_label l ++ [46]) ls.
Definition show_name (ls : list label) : bytes :=
  match ls with [] => [46] | _ => show_labels ls end.

(* wire form without compression *)
Definition wire_labels (ls : list label) : bytes := flat_map (fun l => lenN l :: l) ls.
Definition wire_name (ls : list label) : bytes := wire_labels ls ++ [0].
Definition wire_len (ls : list label) : N := lenN (wire_name ls).

(* a valid wire name: labels of 1..63 octets, at most 255 octets with the root *)
Definition label_ok (l : label) : bool := (1 <=? lenN l) && (lenN l <=? 63) && wfbb l.
Definition labels_ok (ls : list label) : bool := forallb label_ok ls.
Definition valid_wire (ls : list label) : bool := labels_ok ls && (wire_len ls <=? 255).

(* msg.go isDigit / isDDD / dddToByte (the byte arithmetic wraps mod 256) *)
Definition is_digit (b : N) : bool := (48 <=? b) && (b <=? 57).
Definition is_ddd (s : bytes) : bool :=
  match s with a :: b :: c :: _ => is_digit a && is_digit b && is_digit c | _ => false end.
Definition ddd_to_byte (s : bytes) : N :=
  match s with
  | a :: b :: c :: _ => ((a - 48) * 100 + (b - 48) * 10 + (c - 48)) mod 256
  | _ => 0
  end.

Definition lower (b : N) : N := if (65 <=? b) && (b <=? 90) then b + 32 else b.
Definition lower_bytes (s : bytes) : bytes := map lower s.

(* length of the run of backslashes at the head of a (reversed) prefix *)
Fixpoint bs_run (l : bytes) : nat :=
  match l with b :: r => if b =? 92 then S (bs_run r) else O | [] => O end.


(* defaults.go IsFqdn: trailing dot preceded by an even number of backslashes.
   (strings.LastIndexFunc is rune based; the model is octet based and agrees
   with it on every string whose last non-backslash rune is a single octet.) *)
Definition is_fqdn (s : bytes) : bool :=
  match rev s with
  | 46 :: r => Nat.even (bs_run r)
  | _ => false
  end.
