package main

// Behaviour that must not depend on the process environment: the local time zone (RRSIG / SIG times are UTC,
// RFC 4034 section 3.2) and concurrent use of the printers (a shared lazily filled table would show here).

import (
	"bytes"
	"fmt"
	"os"
	"os/exec"
	"strings"
	"sync"
	"time"

	"github.com/miekg/dns"
	. "verif/harness/common"
)

// utcStamp is the harness's own rendering of a 32-bit time value near the present: YYYYMMDDHHmmSS in UTC.
func utcStamp(t uint32) string { return time.Unix(int64(t), 0).UTC().Format("20060102150405") }

func timeZones() {
	saved := time.Local
	defer func() { time.Local = saved }()
	now := uint32(time.Now().Unix())
	for _, z := range []struct {
		name string
		off  int
	}{{"UTC", 0}, {"UTC+1", 3600}, {"UTC-8", -8 * 3600}, {"UTC+5:45", 5*3600 + 2700}, {"UTC+14", 14 * 3600}} {
		time.Local = time.FixedZone(z.name, z.off)
		for _, t := range []uint32{now, now - 86400*30, now + 86400*400, now - now%86400, now - now%86400 - 1, 1767225600, 1} {
			if int64(now)-int64(t) > 60*365*86400 {
				continue // far in the past: serial arithmetic territory, checked elsewhere
			}
			for _, typ := range []uint16{dns.TypeRRSIG, dns.TypeSIG} {
				rd := []byte{0, 1, 13, 2, 0, 0, 14, 16, byte(t >> 24), byte(t >> 16), byte(t >> 8), byte(t), byte((t - 3600) >> 24), byte((t - 3600) >> 16), byte((t - 3600) >> 8), byte(t - 3600), 0x12, 0x34, 1, 'z', 0, 1, 2, 3, 4}
				w := append([]byte{1, 't', 0, byte(typ >> 8), byte(typ), 0, 1, 0, 0, 0, 9, 0, byte(len(rd))}, rd...)
				rr, _, err := dns.UnpackRR(w, 0)
				if err != nil {
					stats["timezone_wire_rejected"]++
					continue
				}
				stats["timezone_records_checked"]++
				txt := rr.String()
				want := utcStamp(t) + " " + utcStamp(t-3600)
				if !strings.Contains(txt, want) {
					Viol("C05/time-zone/print", fmt.Sprintf("with the local time zone %s a %s record with expiration %d / inception %d does not print the UTC stamps %q", z.name, dns.TypeToString[typ], t, t-3600, want), violIn{Type: dns.TypeToString[typ], Origin: "wire", Text: txt})
				}
				std := fmt.Sprintf("t.\t9\tIN\t%s\tA 13 2 3600 %s %s 4660 z. AQIDBA==", dns.TypeToString[typ], utcStamp(t), utcStamp(t-3600))
				back, err := dns.NewRR(std)
				if err != nil {
					Viol("C05/time-zone/read", "standard text is rejected with the local time zone "+z.name+": "+err.Error(), violIn{Type: dns.TypeToString[typ], Origin: "text", Text: std})
					continue
				}
				var exp, inc uint32
				switch x := back.(type) {
				case *dns.RRSIG:
					exp, inc = x.Expiration, x.Inception
				case *dns.SIG:
					exp, inc = x.Expiration, x.Inception
				}
				if exp != t || inc != t-3600 {
					Viol("C05/time-zone/read", fmt.Sprintf("with the local time zone %s the UTC stamps %s %s are read as %d %d, want %d %d", z.name, utcStamp(t), utcStamp(t-3600), exp, inc, t, t-3600), violIn{Type: dns.TypeToString[typ], Origin: "text", Text: std})
				}
			}
		}
	}
}

// concurrentChild runs in a child process (a Go "fatal error: concurrent map writes" cannot be recovered):
// many goroutines print and re-read records that mention type and class codes nobody printed before.
func concurrentChild() {
	var wg sync.WaitGroup
	start := make(chan struct{})
	for g := 0; g < 8; g++ {
		wg.Add(1)
		go func(g int) {
			defer wg.Done()
			<-start
			for i := 0; i < 3000; i++ {
				n := 300 + (i*8+g)%60000
				for _, line := range []string{
					fmt.Sprintf("c.\t9\tIN\tNSEC\tn. A TYPE%d", n),
					fmt.Sprintf("c.\t9\tCLASS%d\tTYPE%d\t\\# 1 00", n, n),
					fmt.Sprintf("c.\t9\tIN\tRRSIG\tTYPE%d 13 2 3600 20260101000000 20251201000000 4660 z. AQIDBA==", n),
				} {
					rr, err := dns.NewRR(line)
					if err != nil || rr == nil {
						continue
					}
					_ = rr.String()
					_ = dns.Type(uint16(n)).String() + dns.Class(uint16(n)).String()
				}
			}
		}(g)
	}
	close(start)
	wg.Wait()
}

func concurrentPrinting() {
	cmd := exec.Command(os.Args[0], os.Args[1:]...)
	cmd.Env = append(os.Environ(), "C05_CHILD=concurrent")
	var errb bytes.Buffer
	cmd.Stderr = &errb
	if err := cmd.Start(); err != nil {
		stats["concurrent_child_not_started"]++
		return
	}
	done := make(chan error, 1)
	go func() { done <- cmd.Wait() }()
	select {
	case err := <-done:
		stats["concurrent_child_runs"]++
		if err != nil {
			msg := errb.String()
			if len(msg) > 500 {
				msg = msg[:500]
			}
			Viol("C05/concurrent-printing-crashes", "printing and re-reading records in 8 goroutines at once ended the process: "+err.Error(), violIn{Origin: "text", Detail: msg})
		}
	case <-time.After(120 * time.Second):
		_ = cmd.Process.Kill()
		Viol("C05/concurrent-printing-hangs", "printing and re-reading records in 8 goroutines at once did not finish within 120 s", violIn{Origin: "text"})
	}
}
