(* Proofs/LenRoomProofs.v — the error classes of Pack when the buffer is longer
   than the Len estimate: never a Go panic (the two-octet pointer write, the
   RDLENGTH patch), never "buffer size too small" (class buf), and the class
   overflow only for what is not a space problem at all (an address of the wrong
   length) — excluded here by [addr_okb]. *)
From Dns Require Import Gen.Layouts Gen.Lens Gen.Registry Gen.Structs Gen.Consts.
From Dns Require Import Base.ListX Model.Msg Proofs.EscapeProofs Proofs.TokenProofs Proofs.NameWireProofs
  Proofs.LenNameProofs Proofs.LenFieldProofs Proofs.LenRRProofs Proofs.LenMsgProofs.
From Coq Require Import Lia ZifyN ZifyNat ZifyBool.
Open Scope list_scope.
Open Scope N_scope.

Definition cleanr {A} (r : res A) : Prop :=
  match r with
  | Ok _ => True
  | Err e => e <> "buf"%string /\ e <> "overflow"%string
  | Panic => False
  | OutOfFuel => False
  end.
(* neither panic nor exhausted budget (the error class may be anything) *)
Definition noexc {A} (r : res A) : Prop :=
  match r with Panic => False | OutOfFuel => False | _ => True end.

Lemma clean_bind {A B} (r : res A) (k : A -> res B) :
  cleanr r -> (forall x, r = Ok x -> cleanr (k x)) -> cleanr (do x <- r; k x).
Proof. destruct r; cbn; auto. Qed.
Lemma clean_relabel {A} (r : res A) (c : string) :
  noexc r -> c <> "buf"%string -> c <> "overflow"%string -> cleanr (match r with Ok a => Ok a | Err _ => Err c | Panic => Panic | OutOfFuel => OutOfFuel end).
Proof. destruct r; cbn; auto. Qed.
Lemma noexc_bind {A B} (r : res A) (k : A -> res B) :
  noexc r -> (forall x, r = Ok x -> noexc (k x)) -> noexc (do x <- r; k x).
Proof. destruct r; cbn; auto. Qed.

Ltac clean_err := cbv beta iota delta [cleanr]; split; discriminate.

(* ---------------- names ---------------- *)
Lemma pn_go_clean s : forall first lab lstart wd nl cap cp st,
  lenN (pn_out st) + escaped_name_len s + lenN lab + 1 <= cap ->
  cleanr (pn_go s first lab lstart wd nl cap cp st).
Proof.
  induction s as [| a b c r3 Hd IH | a r1 Hd IH | | r IH | x r H1 H2 IH] using tok_ind;
    intros first lab lstart wd nl cap cp st Hc.
  - exact I.
  - rewrite pn_go_ddd by auto. rewrite enl_ddd in Hc by auto.
    replace (cap <? lenN (pn_out st) + 1) with false by lia.
    apply IH. rewrite lenN_app, lenN_cons, lenN_nil. lia.
  - rewrite pn_go_esc by auto. rewrite enl_esc in Hc by auto.
    replace (cap <? lenN (pn_out st) + 1) with false by lia.
    apply IH. rewrite lenN_app, lenN_cons, lenN_nil. lia.
  - cbn [pn_go]. cbn [escaped_name_len] in Hc.
    replace (cap <? lenN (pn_out st) + 1) with false by lia. clean_err.
  - rewrite pn_go_dot. rewrite enl_plain in Hc by lia.
    destruct (first && _); [clean_err|]. destruct wd; [clean_err|].
    destruct (64 <=? lenN lab); [clean_err|].
    replace (cap <? lenN (pn_out st) + 1 + lenN lab) with false by lia.
    assert (K : cleanr (if max_name_wire <? nl + 1 + lenN lab + 1 then Err "longdomain"%string
         else pn_go r false [] r true (nl + 1 + lenN lab) cap cp
                {| pn_out := pn_out (dot_st1 st lab r lstart) ++ lenN lab :: lab;
                   pn_cm := pn_cm (dot_st1 st lab r lstart) |})).
    { destruct (max_name_wire <? nl + 1 + lenN lab + 1); [clean_err|]. apply IH.
      cbn [pn_out]. rewrite dot_st1_out, lenN_app, lenN_cons, lenN_nil. lia. }
    destruct (dot_hit st lab r lstart) as [p|]; [destruct cp|]; auto.
    clear K. destruct (max_name_wire <? _); [clean_err|exact I].
  - rewrite pn_go_plain by auto. rewrite enl_plain in Hc by auto.
    apply IH. rewrite lenN_app, lenN_cons, lenN_nil. lia.
Qed.

Lemma pack_name_clean s cap cp st :
  lenN (pn_out st) + name_est s < cap -> cleanr (pack_name s cap cp st).
Proof.
  intros Hc. unfold pack_name. destruct s as [|x r] eqn:Es; [exact I|].
  rewrite <- Es in *. assert (Hne : s <> []) by (rewrite Es; discriminate).
  pose proof (enl_le_name_est s Hne) as Hle.
  destruct (negb (is_fqdn s)); [clean_err|].
  apply clean_bind; [apply pn_go_clean; rewrite lenN_nil; lia|].
  intros e E. apply pn_go_size in E. rewrite lenN_nil in E.
  destruct e as [st1|st1 p]; cbn [pn_end_bound] in E.
  - destruct (bytes_eqb s [46]); [exact I|].
    replace (lenN (pn_out st1) <? cap) with true by lia. exact I.
  - destruct (bytes_eqb s [46]); [exact I|].
    replace (cap <? lenN (pn_out st1) + 2) with false by lia. exact I.
Qed.

(* ---------------- fixed-size, character-strings ---------------- *)
Lemma pack_fixed_clean b cap st : poff st + lenN b <= cap -> cleanr (pack_fixed b cap st).
Proof. intro H. unfold pack_fixed. replace (cap <? poff st + lenN b) with false by lia. exact I. Qed.

Lemma ptx_go_noexc s : forall acc off0 cap, noexc (ptx_go s acc off0 cap).
Proof.
  induction s as [| a b c r3 Hd IH | a r1 Hd IH | | r IH | x r H1 H2 IH] using tok_ind; intros acc off0 cap.
  - exact I.
  - rewrite ptx_go_ddd by auto. destruct (_ <=? _); [exact I|apply IH].
  - rewrite ptx_go_esc by auto. destruct (_ <=? _); [exact I|apply IH].
  - rewrite ptx_go_dangling. destruct (_ <=? _); exact I.
  - rewrite ptx_go_other by lia. destruct (_ <=? _); [exact I|apply IH].
  - rewrite ptx_go_other by auto. destruct (_ <=? _); [exact I|apply IH].
Qed.
Lemma pack_txt_string_noexc s cap st : noexc (pack_txt_string s cap st).
Proof.
  unfold pack_txt_string. destruct (_ || _); [exact I|].
  apply noexc_bind; [apply ptx_go_noexc|]. intros d _. destruct (255 <? _); exact I.
Qed.
Lemma pack_txts_noexc l : forall cap st, noexc (pack_txts l cap st).
Proof.
  induction l as [|s r IH]; intros cap st; [exact I|]. cbn [pack_txts].
  apply noexc_bind; [apply pack_txt_string_noexc|]. intros; apply IH.
Qed.
Lemma pack_txt_noexc l cap st : noexc (pack_txt l cap st).
Proof. destruct l; [cbn [pack_txt]; destruct (_ <=? _); exact I|apply pack_txts_noexc]. Qed.
Lemma pack_octet_noexc s cap st : noexc (pack_octet s cap st).
Proof.
  unfold pack_octet. destruct (_ || _); [exact I|].
  apply noexc_bind; [apply ptx_go_noexc|]. intros; exact I.
Qed.

(* ---------------- addresses ---------------- *)
Definition a_lenb (a : bytes) : bool := (lenN a =? 0) || (lenN a =? 4) || (lenN a =? 16).
Definition aaaa_lenb (a : bytes) : bool := (lenN a =? 0) || (lenN a =? 16).

Lemma pack_a_clean a cap st : a_lenb a = true -> poff st + ifne_est a 4 <= cap -> cleanr (pack_a a cap st).
Proof.
  unfold a_lenb, ifne_est. intros Ha H.
  destruct (N.eq_dec (lenN a) 4) as [E4|N4].
  { rewrite pack_a_4 by exact E4. apply pack_fixed_clean. rewrite E4 in *. cbn in H. lia. }
  destruct (N.eq_dec (lenN a) 16) as [E16|N16].
  { rewrite pack_a_16 by exact E16. apply pack_fixed_clean. rewrite E16 in H. cbn in H.
    destruct (is_v4_mapped a); [rewrite lenN_skipn_12_of_16 by exact E16|cbn]; lia. }
  destruct (N.eq_dec (lenN a) 0) as [E0|N0]; [rewrite pack_a_0 by exact E0; exact I|]. lia.
Qed.
Lemma pack_aaaa_clean a cap st : aaaa_lenb a = true -> poff st + ifne_est a 16 <= cap -> cleanr (pack_aaaa a cap st).
Proof.
  unfold aaaa_lenb, ifne_est. intros Ha H.
  destruct (N.eq_dec (lenN a) 16) as [E16|N16].
  { rewrite pack_aaaa_16 by exact E16. apply pack_fixed_clean. rewrite E16 in *. cbn in H. lia. }
  destruct (N.eq_dec (lenN a) 0) as [E0|N0]; [rewrite pack_aaaa_0 by exact E0; exact I|]. lia.
Qed.

(* ---------------- type bitmaps ---------------- *)
Lemma nsec_go_clean l : forall lw cur cap st,
  tbm_len_go l lw (lenN cur) (poff st) <= cap -> cleanr (nsec_go l lw cur cap st).
Proof.
  induction l as [|t r IH]; intros lw cur cap st H; [exact I|].
  cbn [tbm_len_go] in H.
  set (window := t / 256) in *. set (len := (t - window * 256) / 8 + 1) in *.
  assert (U : nsec_go (t :: r) lw cur cap st =
    let '(st1, cur1) := if (lw <? window) && negb (lenN cur =? 0)
                        then (pemit st (lw :: lenN cur :: cur), []) else (st, cur) in
    if (window <? lw) || (len <? lenN cur1) then Err "nsecorder"%string
    else if cap <? poff st1 + 2 + len then Err "overflow"%string
    else nsec_go r window (or_last (pad_to cur1 (N.to_nat len)) (t mod 8)) cap st1) by reflexivity.
  rewrite U. clear U.
  destruct ((lw <? window) && negb (lenN cur =? 0)) eqn:Efl; cbv beta iota zeta.
  - assert (Hp : poff (pemit st (lw :: lenN cur :: cur)) = poff st + lenN cur + 2).
    { rewrite poff_pemit, !lenN_cons. lia. }
    rewrite lenN_nil.
    destruct ((window <? lw) || (len <? 0)) eqn:Eo; [clean_err|].
    pose proof (tbm_len_go_ge r window len (poff st + lenN cur + 2)) as Hge.
    rewrite Hp. replace (cap <? poff st + lenN cur + 2 + 2 + len) with false by lia.
    apply IH. rewrite lenN_nsec_cur, Hp by (rewrite lenN_nil; lia). exact H.
  - destruct ((window <? lw) || (len <? lenN cur)) eqn:Eo; [clean_err|].
    pose proof (tbm_len_go_ge r window len (poff st)) as Hge.
    replace (cap <? poff st + 2 + len) with false by lia.
    apply IH. rewrite lenN_nsec_cur by lia. exact H.
Qed.
Lemma pack_nsec_clean l cap st : poff st + type_bitmap_len l <= cap -> cleanr (pack_nsec l cap st).
Proof.
  intro H. destruct l as [|t r]; [exact I|].
  assert (H' : tbm_len_go (t :: r) 0 0 (poff st) <= cap) by (rewrite tbm_len_go_acc; exact H).
  pose proof (tbm_len_go_ge (t :: r) 0 0 (poff st)) as Hge.
  unfold pack_nsec. replace (cap <? poff st) with false by lia. apply nsec_go_clean. exact H'.
Qed.

(* ---------------- options, parameters, APL ---------------- *)
Lemma pack_opts_clean l : forall cap st, Forall pair_ok l -> poff st + pairs_est l <= cap -> cleanr (pack_opts l cap st).
Proof.
  induction l as [|[[code b] n] r IH]; intros cap st Hok H; [exact I|].
  inversion Hok as [|? ? Hp Hr]; subst. unfold pair_ok in Hp. cbn [fst snd] in Hp. cbn [pairs_est snd] in H.
  cbn [pack_opts].
  replace (cap <? poff st + 4) with false by lia. replace (cap <? poff st + 4 + lenN b) with false by lia.
  apply IH; [exact Hr|]. rewrite poff_pemit, !lenN_app, !lenN_u16. lia.
Qed.
Lemma pack_pairs_go_clean l : forall prev cap st, Forall pair_ok l -> poff st + pairs_est l <= cap ->
  cleanr (pack_pairs_go l prev cap st).
Proof.
  induction l as [|[[code b] n] r IH]; intros prev cap st Hok H; [exact I|].
  inversion Hok as [|? ? Hp Hr]; subst. unfold pair_ok in Hp. cbn [fst snd] in Hp. cbn [pairs_est snd] in H.
  cbn [pack_pairs_go]. destruct (code =? prev); [clean_err|].
  replace (cap <? poff st + 2) with false by lia. replace (cap <? poff st + 4) with false by lia.
  replace (cap <? poff st + 4 + lenN b) with false by lia.
  apply IH; [exact Hr|]. rewrite poff_pemit, !lenN_app, !lenN_u16. lia.
Qed.
Lemma pack_svcb_clean l cap st : Forall pair_ok l -> poff st + pairs_est l <= cap -> cleanr (pack_svcb l cap st).
Proof.
  intros Hok H. unfold pack_svcb, sort_pairs. destruct (sort_pairs_gen l []) as [I1 I2].
  apply pack_pairs_go_clean; [now apply I2|]. rewrite I1. cbn [pairs_est]. lia.
Qed.

Lemma pack_apl_prefix_clean p cap st : poff st + apl_one_est p <= cap -> cleanr (pack_apl_prefix p cap st).
Proof.
  destruct p as [[neg prefix] ip]. unfold apl_one_est. cbn [fst snd]. intro H. unfold pack_apl_prefix.
  set (addr := trim_trailing_zeros (takeN ((prefix + 7) / 8) (mask_bytes ip prefix))).
  assert (Ha : lenN addr <= (prefix + 7) / 8).
  { unfold addr. pose proof (lenN_trim (takeN ((prefix + 7) / 8) (mask_bytes ip prefix))).
    pose proof (lenN_takeN ((prefix + 7) / 8) (mask_bytes ip prefix)). lia. }
  destruct (match lenN ip with 4 => Some 1 | 16 => Some 2 | _ => None end) as [f|]; [|clean_err].
  apply clean_bind; [apply pack_fixed_clean; rewrite lenN_u16; lia|]. intros s1 E1. apply pack_fixed_exact in E1.
  rewrite lenN_u16 in E1.
  apply clean_bind; [apply pack_fixed_clean; cbn; lia|]. intros s2 E2. apply pack_fixed_exact in E2.
  change (lenN (u8 prefix)) with 1 in E2.
  apply clean_bind; [apply pack_fixed_clean; cbn; lia|]. intros s3 E3. apply pack_fixed_exact in E3.
  change (lenN (u8 ((if neg then 128 else 0) + lenN addr mod 128))) with 1 in E3.
  apply pack_fixed_clean. lia.
Qed.
Lemma pack_apl_clean l : forall cap st, poff st + apl_est l <= cap -> cleanr (pack_apl l cap st).
Proof.
  induction l as [|p r IH]; intros cap st H; [exact I|]. cbn [apl_est] in H. cbn [pack_apl].
  apply clean_bind; [apply pack_apl_prefix_clean; lia|]. intros s1 E1. apply IH.
  destruct (room_apl_prefix p st (poff st + apl_one_est p)) as [R1 _]; [lia|]. apply R1 in E1. lia.
Qed.

Lemma pack_names_clean l cp : forall cap st, poff st + names_est l < cap -> cleanr (pack_names l cap cp st).
Proof.
  induction l as [|s r IH]; intros cap st H; [exact I|]. cbn [names_est] in H. cbn [pack_names].
  apply clean_bind; [apply pack_name_clean; unfold poff in H; lia|]. intros s1 E1. apply IH.
  apply pack_name_size_est in E1. unfold poff in *. lia.
Qed.

(* ---------------- one statement, one sequence ---------------- *)
(* address fields hold 0, 4 or 16 (A, gateway) resp. 0 or 16 (AAAA) octets *)
Definition addr_okb (v : rdata) (f : string) (k : fkind) : bool :=
  match k with
  | K_a => a_lenb (as_b (vget v f))
  | K_aaaa => aaaa_lenb (as_b (vget v f))
  | K_gateway tyf addrf _ mask _ =>
    let ty := N.land (vget_n v tyf) mask in
    if ty =? gw_v4 then a_lenb (as_b (vget v addrf))
    else if ty =? gw_v6 then aaaa_lenb (as_b (vget v addrf)) else true
  | _ => true
  end.

Lemma kind_term_clean v f k t cap st :
  kind_term f k t = true -> rdata_pairs_ok v = true -> addr_okb v f k = true ->
  poff st + term_est v t < cap -> cleanr (pack_field v f k cap st).
Proof.
  intros Hk Hv Ha.
  destruct k, t; cbn [kind_term] in Hk; try discriminate;
    repeat (apply andb_prop in Hk; let H := fresh "Hk" in destruct Hk as [Hk H]);
    try (apply String.eqb_eq in Hk; subst); cbn [term_est pack_field addr_okb] in *; intro H.
  - apply pack_name_clean. unfold poff in H. lia.
  - apply clean_relabel; [apply pack_txt_string_noexc|discriminate|discriminate].
  - apply clean_relabel; [apply pack_txt_noexc|discriminate|discriminate].
  - apply clean_relabel; [apply pack_octet_noexc|discriminate|discriminate].
  - apply pack_fixed_clean. lia.
  - apply pack_fixed_clean. lia.
  - apply pack_fixed_clean. lia.
  - apply pack_fixed_clean. pose proof (b64_len_ge (lenN (as_enc (vget v f0)))). lia.
  - apply pack_fixed_clean. pose proof (b32_len_ge (lenN (as_enc (vget v f0)))). lia.
  - apply pack_fixed_clean. pose proof (b32text_len_ge (lenN (as_enc (vget v f0)))). lia.
  - apply N.eqb_eq in Hk0. subst. apply pack_a_clean; [exact Ha|lia].
  - apply N.eqb_eq in Hk0. subst. apply pack_aaaa_clean; [exact Ha|lia].
  - apply pack_nsec_clean. lia.
  - apply pack_opts_clean; [now apply rdata_pairs_ok_get|lia].
  - apply pack_svcb_clean; [now apply rdata_pairs_ok_get|lia].
  - apply pack_apl_clean. lia.
  - apply pack_names_clean. lia.
  - apply String.eqb_eq in Hk4. apply N.eqb_eq in Hk3, Hk2, Hk1, Hk0. subst.
    unfold gateway_est in H. cbv zeta in Ha, H.
    destruct (N.land (vget_n v tyf0) mask0 =? gw_v4).
    { apply pack_a_clean; [exact Ha|]. unfold ifne_est. destruct (_ =? 0); lia. }
    destruct (N.land (vget_n v tyf0) mask0 =? gw_v6).
    { apply pack_aaaa_clean; [exact Ha|]. unfold ifne_est. destruct (_ =? 0); lia. }
    destruct (N.land (vget_n v tyf0) mask0 =? gw_host); [|exact I].
    apply pack_name_clean. pose proof (name_est_le (as_s (vget v hostf0))). unfold poff in H. lia.
Qed.

Definition addrs_okb (v : rdata) (pfs : list pfield) : bool :=
  forallb (fun fk : pfield => addr_okb v (fst fk) (snd fk)) pfs.

Lemma pack_fields_clean v : forall pfs credit ts cap st,
  aligned_go credit pfs ts = true -> rdata_pairs_ok v = true -> addrs_okb v pfs = true ->
  poff st + credit + terms_est v ts < cap -> cleanr (pack_fields v pfs cap st).
Proof.
  induction pfs as [|[f k] r IH]; intros credit ts cap st Ha Hv Hd HB; [exact I|].
  cbn [aligned_go] in Ha. destruct (absorb credit ts) as [c' ts'] eqn:Eab.
  apply (absorb_est v) in Eab.
  cbn [addrs_okb forallb fst snd] in Hd. apply andb_prop in Hd. destruct Hd as [Hd1 Hd].
  cbn [pack_fields].
  destruct (kind_fixed k) as [n|] eqn:Ek.
  - apply andb_prop in Ha. destruct Ha as [Hn Ha].
    destruct (fixed_is_fixed v f k n Ek) as [b [Hb Hf]]. rewrite Hf.
    apply clean_bind; [apply pack_fixed_clean; lia|]. intros s1 E1. apply pack_fixed_exact in E1.
    apply (IH (c' - n) ts'); [exact Ha|exact Hv|exact Hd|lia].
  - destruct ts' as [|t ts'']; [discriminate|]. apply andb_prop in Ha. destruct Ha as [Hk Ha].
    cbn [terms_est] in Eab.
    apply clean_bind; [apply (kind_term_clean v f k t); [exact Hk|exact Hv|exact Hd1|lia]|].
    intros s1 E1.
    destruct (kind_term_room v f k t st (poff st + term_est v t) Hk Hv) as [R1 _]; [lia|]. apply R1 in E1.
    apply (IH c' ts''); [exact Ha|exact Hv|exact Hd|lia].
Qed.

(* ---------------- record, sections, message ---------------- *)
Definition rr_addr_okb (r : rr) : bool :=
  match find_layout layouts (rr_kind r) with Some L => addrs_okb (rr_data r) (tl_pack L) | None => true end.

Lemma pack_header_clean r cap cp st :
  poff st + name_est (rr_name r) + 10 < cap ->
  cleanr (pack_header r cap cp st) /\
  (forall st1, pack_header r cap cp st = Ok st1 -> 10 <= poff st1 <= poff st + name_est (rr_name r) + 10).
Proof.
  intro H. unfold pack_header. replace (poff st =? cap) with false by lia. split.
  - apply clean_bind; [apply pack_name_clean; unfold poff in H; lia|]. intros s1 E1.
    apply pack_name_size_est in E1. fold (poff s1) in E1. fold (poff st) in E1.
    apply clean_bind; [apply pack_fixed_clean; rewrite lenN_u16; lia|]. intros s2 E2. apply pack_fixed_exact in E2.
    rewrite lenN_u16 in E2.
    apply clean_bind; [apply pack_fixed_clean; rewrite lenN_u16; lia|]. intros s3 E3. apply pack_fixed_exact in E3.
    rewrite lenN_u16 in E3.
    apply clean_bind; [apply pack_fixed_clean; change (lenN (u32 (rr_ttl r))) with 4; lia|]. intros s4 E4.
    apply pack_fixed_exact in E4. change (lenN (u32 (rr_ttl r))) with 4 in E4.
    apply pack_fixed_clean. rewrite lenN_u16. lia.
  - intros st1.
    destruct (pack_name (rr_name r) cap cp st) as [s1| | |] eqn:E1; try discriminate. cbn [bind].
    destruct (pack_fixed (u16 (rr_type r)) cap s1) as [s2| | |] eqn:E2; try discriminate. cbn [bind].
    destruct (pack_fixed (u16 (rr_class r)) cap s2) as [s3| | |] eqn:E3; try discriminate. cbn [bind].
    destruct (pack_fixed (u32 (rr_ttl r)) cap s3) as [s4| | |] eqn:E4; try discriminate. cbn [bind].
    intro E5. apply pack_name_size_est in E1. fold (poff s1) in E1. fold (poff st) in E1.
    apply pack_fixed_exact in E2, E3, E4, E5. rewrite lenN_u16 in E2, E3, E5.
    change (lenN (u32 (rr_ttl r))) with 4 in E4. lia.
Qed.

Lemma pack_rr_clean r cap cp st :
  rr_okb r = true -> rr_addr_okb r = true -> poff st + rr_est r < cap -> cleanr (pack_rr r cap cp st).
Proof.
  unfold rr_okb, kind_ok, rr_est, rr_addr_okb. intros Hok Hd HB. apply andb_prop in Hok. destruct Hok as [Hk Hv].
  destruct (find_layout layouts (rr_kind r)) as [L|] eqn:EL; [|discriminate].
  destruct (len_terms_of (rr_kind r)) as [ts|]; [|discriminate].
  rewrite (pack_rr_unfold r L cap cp st EL).
  destruct (pack_header_clean r cap cp st) as [Hc Hs]; [lia|].
  apply clean_bind; [exact Hc|]. intros s1 E1. apply Hs in E1.
  apply clean_bind; [apply (pack_fields_clean (rr_data r) (tl_pack L) 0 ts); [exact Hk|exact Hv|exact Hd|lia]|].
  intros s2 E2. unfold rr_finish. cbv zeta. destruct (65535 <? _); [clean_err|].
  replace (poff s1 <? 2) with false by lia. exact I.
Qed.

Lemma pack_question_clean q cap cp st : poff st + q_est q < cap -> cleanr (pack_question q cap cp st).
Proof.
  unfold q_est, pack_question. intro H.
  apply clean_bind; [apply pack_name_clean; unfold poff in H; lia|]. intros s1 E1.
  apply pack_name_size_est in E1. fold (poff s1) in E1. fold (poff st) in E1.
  apply clean_bind; [apply pack_fixed_clean; rewrite lenN_u16; lia|]. intros s2 E2. apply pack_fixed_exact in E2.
  rewrite lenN_u16 in E2. apply pack_fixed_clean. rewrite lenN_u16. lia.
Qed.
Lemma pack_questions_clean l : forall cap cp st, poff st + qs_est l < cap -> cleanr (pack_questions l cap cp st).
Proof.
  induction l as [|q r IH]; intros cap cp st H; [exact I|]. cbn [qs_est] in H. cbn [pack_questions].
  apply clean_bind; [apply pack_question_clean; lia|]. intros s1 E1. apply IH.
  destruct (room_question q cp st (poff st + q_est q)) as [R1 _]; [lia|]. apply R1 in E1. lia.
Qed.
Lemma pack_rrs_clean l : forall cap cp st,
  forallb rr_okb l = true -> forallb rr_addr_okb l = true -> poff st + rrs_est l < cap ->
  cleanr (pack_rrs l cap cp st).
Proof.
  induction l as [|x r IH]; intros cap cp st Hok Hd H; [exact I|]. cbn [rrs_est] in H. cbn [pack_rrs].
  cbn [forallb] in Hok, Hd. apply andb_prop in Hok, Hd. destruct Hok as [Hx Hr]. destruct Hd as [Hdx Hdr].
  apply clean_bind; [apply pack_rr_clean; [exact Hx|exact Hdx|lia]|]. intros s1 E1. apply IH; [exact Hr|exact Hdr|].
  destruct (room_rr x cp st (poff st + rr_est x) Hx) as [R1 _]; [lia|]. apply R1 in E1. lia.
Qed.

Definition msg_addr_okb (m : msg) : bool :=
  forallb rr_addr_okb (m_answer m) && forallb rr_addr_okb (m_ns m) && forallb rr_addr_okb (m_extra m).

Lemma rr_addr_okb_ext r c : rr_addr_okb (set_ext_rcode r c) = rr_addr_okb r.
Proof. reflexivity. Qed.
Lemma addr_update l f : (forall x, rr_addr_okb (f x) = rr_addr_okb x) -> forall i,
  forallb rr_addr_okb (update_nth l i f) = forallb rr_addr_okb l.
Proof.
  intro Hf. induction l as [|x r IH]; intro i; [destruct i; reflexivity|].
  destruct i; cbn [update_nth forallb]; [now rewrite Hf|now rewrite IH].
Qed.
Lemma msg_extra_addr m : forallb rr_addr_okb (msg_extra m) = forallb rr_addr_okb (m_extra m).
Proof. unfold msg_extra. destruct (last_opt_index _ _ _); [|reflexivity]. apply addr_update. intro; apply rr_addr_okb_ext. Qed.

(* Stage 2 in the error-class form: whatever the caller's buffer, compressed or
   not, Pack never panics, never reports class buf, and reports class overflow
   only for a malformed address *)
Theorem pack_never_fails_for_space m buflen :
  msg_okb m = true -> msg_addr_okb m = true -> cleanr (pack_msg_buf m buflen).
Proof.
  unfold msg_okb, msg_addr_okb. intros Hok Hd.
  apply andb_prop in Hok. destruct Hok as [Hok He]. apply andb_prop in Hok. destruct Hok as [Ha Hn].
  apply andb_prop in Hd. destruct Hd as [Hd Hde]. apply andb_prop in Hd. destruct Hd as [Hda Hdn].
  rewrite pack_msg_buf_sections. destruct (4095 <? _); [clean_err|].
  assert (K : cleanr (do st <- pack_sections (m_question m) (m_answer m) (m_ns m) (msg_extra m) (msg_compress m)
                                (msg_hdr m) (msg_cap m buflen) (msg_st0 m);
                      Ok (pn_out st, negb (buflen <? msg_len_with m None + 1)))).
  { apply clean_bind; [|intros; exact I]. unfold pack_sections.
    pose proof (msg_cap_gt m buflen) as Hcap. rewrite msg_len_with_none in Hcap. unfold msg_est in Hcap.
    rewrite <- (msg_extra_est m) in Hcap. rewrite <- msg_extra_okb in He. rewrite <- msg_extra_addr in Hde.
    assert (P0 : poff (msg_st0 m) = 0) by reflexivity.
    apply clean_bind; [apply pack_fixed_clean; rewrite lenN_msg_hdr; lia|]. intros s1 E1.
    apply pack_fixed_exact in E1. rewrite lenN_msg_hdr in E1.
    apply clean_bind; [apply pack_questions_clean; lia|]. intros s2 E2.
    destruct (room_questions (m_question m) (msg_compress m) s1 (poff s1 + qs_est (m_question m))) as [R2 _]; [lia|].
    apply R2 in E2.
    apply clean_bind; [apply pack_rrs_clean; [exact Ha|exact Hda|lia]|]. intros s3 E3.
    destruct (room_rrs (m_answer m) (msg_compress m) s2 (poff s2 + rrs_est (m_answer m)) Ha) as [R3 _]; [lia|].
    apply R3 in E3.
    apply clean_bind; [apply pack_rrs_clean; [exact Hn|exact Hdn|lia]|]. intros s4 E4.
    destruct (room_rrs (m_ns m) (msg_compress m) s3 (poff s3 + rrs_est (m_ns m)) Hn) as [R4 _]; [lia|].
    apply R4 in E4.
    apply pack_rrs_clean; [exact He|exact Hde|lia]. }
  destruct (last_opt_index _ _ _); [|destruct (15 <? _); [clean_err|]]; exact K.
Qed.
