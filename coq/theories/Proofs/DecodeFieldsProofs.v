(* Proofs/DecodeFieldsProofs.v — the RDATA decoders on ARBITRARY octets: no Go
   panic, no exhaustion of the model's iteration budgets (every loop consumes
   input), and every offset handed on stays inside the message. *)
From Dns Require Import Base.ListX Model.Msg Proofs.NameWireProofs Proofs.DecodeNameProofs.
From Coq Require Import Lia ZifyN ZifyNat ZifyBool.
Open Scope N_scope.

(* the verdict "safe": a result is an error or a value with an in-range offset *)
Definition safe {A} (off len : N) (r : res (A * N)) : Prop :=
  match r with
  | Ok (_, off') => off <= off' <= len
  | Err _ => True
  | Panic => False
  | OutOfFuel => False
  end.
(* ... that also made progress *)
Definition safe_progress {A} (off len : N) (r : res (A * N)) : Prop :=
  match r with
  | Ok (_, off') => off < off' <= len
  | Err _ => True
  | Panic => False
  | OutOfFuel => False
  end.
Lemma safe_progress_safe {A} off len (r : res (A * N)) : safe_progress off len r -> safe off len r.
Proof. destruct r as [[a o]| | |]; cbn; auto. lia. Qed.

Lemma unpack_fixed_safe n msg off : safe off (lenN msg) (unpack_fixed n msg off).
Proof. unfold unpack_fixed. destruct (lenN msg <? off + n) eqn:E; cbn; lia. Qed.
Lemma unpack_fixed_progress n msg off : 0 < n -> safe_progress off (lenN msg) (unpack_fixed n msg off).
Proof. intro H. unfold unpack_fixed. destruct (lenN msg <? off + n) eqn:E; cbn; lia. Qed.

(* UnpackDomainName always consumes at least one octet *)
Lemma un_go_progress fuel : forall msg off s off1 budget ptr off0 r,
  (ptr = 0 /\ off0 <= off) \/ (ptr <> 0 /\ off0 < off1) ->
  un_go fuel msg off s off1 budget ptr = Ok r -> off0 < snd r.
Proof.
  induction fuel as [|f IH]; intros msg off s off1 budget ptr off0 r Hinv H; [discriminate|].
  cbn [un_go] in H.
  destruct (lenN msg <=? off); [discriminate|].
  destruct (nthN msg off 0 <? 64).
  - destruct (nthN msg off 0 =? 0).
    + injection H as <-. cbn [snd]. destruct (ptr =? 0) eqn:E; destruct Hinv as [[A B]|[A B]]; lia.
    + destruct (lenN msg <? off + 1 + nthN msg off 0); [discriminate|].
      destruct (_ <=? 0)%Z; [discriminate|].
      eapply IH; [|exact H]. destruct Hinv as [[A B]|[A B]]; [left|right]; split; lia.
  - destruct (192 <=? nthN msg off 0); [|discriminate].
    destruct (lenN msg <=? off + 1); [discriminate|].
    destruct (max_pointers <? ptr + 1); [discriminate|].
    eapply IH; [|exact H]. right. split; [lia|].
    destruct (ptr =? 0) eqn:E; destruct Hinv as [[A B]|[A B]]; lia.
Qed.

(* keep the kernel from unfolding the 400-step recursion when it re-checks proofs *)
Local Opaque un_go.
Local Strategy opaque [unpack_name_fuel un_go].

Lemma unpack_name_safe msg off : wfb msg -> safe_progress off (lenN msg) (unpack_name msg off).
Proof.
  intro Hm. destruct (unpack_name msg off) as [[s o]| | |] eqn:E; cbn; auto.
  - split.
    + unfold unpack_name in E.
      exact (un_go_progress unpack_name_fuel msg off [] 0 _ 0 off (s, o) (or_introl (conj eq_refl (N.le_refl off))) E).
    + destruct (unpack_name_accepts_only_valid msg off (s, o) Hm E) as [ls [_ [_ H]]]. exact H.
  - destruct (unpack_name_total msg off) as [H _]. congruence.
  - destruct (unpack_name_total msg off) as [_ H]. congruence.
Qed.

Lemma unpack_string_safe msg off : safe_progress off (lenN msg) (unpack_string msg off).
Proof.
  unfold unpack_string. destruct (lenN msg <? off + 1) eqn:E; cbn; [exact I|].
  destruct (lenN msg <? off + 1 + nthN msg off 0) eqn:E2; cbn; lia.
Qed.

(* a loop that repeats a decoder making progress terminates within |msg| + 1 rounds *)
Section Loops.
  Context {A : Type}.
  Variable step : bytes -> N -> res (A * N).
  Variable msg : bytes.
  Hypothesis step_progress : forall off, off < lenN msg -> safe_progress off (lenN msg) (step msg off).

  Fixpoint loop (fuel : nat) (off : N) (acc : list A) : res (list A * N) :=
    match fuel with
    | O => OutOfFuel
    | S f =>
      if off <? lenN msg then
        do r <- step msg off;
        loop f (snd r) (acc ++ [fst r])
      else Ok (acc, off)
    end.

  Lemma loop_safe fuel : forall off acc,
    off <= lenN msg -> (N.to_nat (lenN msg - off) < fuel)%nat -> safe off (lenN msg) (loop fuel off acc).
  Proof.
    induction fuel as [|f IH]; intros off acc Hoff Hf; [lia|]. cbn [loop].
    destruct (off <? lenN msg) eqn:E; [|cbn; lia].
    pose proof (step_progress off ltac:(lia)) as Hs.
    destruct (step msg off) as [[a o]| | |]; cbn in *; auto.
    specialize (IH o (acc ++ [a]) ltac:(lia) ltac:(lia)).
    destruct (loop f o (acc ++ [a])) as [[x o']| | |]; cbn in *; auto. lia.
  Qed.
End Loops.

(* the list decoders are instances of [loop] *)
Lemma unpack_txts_is_loop fuel msg off acc :
  unpack_txts fuel msg off acc = loop unpack_string msg fuel off acc.
Proof.
  revert off acc; induction fuel as [|f IH]; intros off acc; cbn; [reflexivity|].
  destruct (off <? lenN msg); [|reflexivity].
  destruct (unpack_string msg off) as [[a o]| | |]; cbn; auto.
Qed.
Lemma unpack_names_is_loop fuel msg off acc :
  unpack_names_go fuel msg off acc = loop unpack_name msg fuel off acc.
Proof.
  revert off acc; induction fuel as [|f IH]; intros off acc; cbn; [reflexivity|].
  destruct (off <? lenN msg); [|reflexivity].
  destruct (unpack_name msg off) as [[a o]| | |]; cbn; auto.
Qed.
Lemma unpack_apl_is_loop fuel msg off acc :
  unpack_apl_go fuel msg off acc = loop unpack_apl_prefix msg fuel off acc.
Proof.
  revert off acc; induction fuel as [|f IH]; intros off acc; cbn; [reflexivity|].
  destruct (off <? lenN msg); [|reflexivity].
  destruct (unpack_apl_prefix msg off) as [[a o]| | |]; cbn; auto.
Qed.

Lemma fuel_enough (msg : bytes) off : (N.to_nat (lenN msg - off) < S (length msg))%nat.
Proof. unfold lenN. lia. Qed.

Lemma unpack_txt_safe msg off : off <= lenN msg -> safe off (lenN msg) (unpack_txt msg off).
Proof.
  intro H. unfold unpack_txt. rewrite unpack_txts_is_loop.
  apply loop_safe; [intros; apply unpack_string_safe|exact H|apply fuel_enough].
Qed.
Lemma unpack_names_safe msg off : wfb msg -> off <= lenN msg -> safe off (lenN msg) (unpack_names msg off).
Proof.
  intros Hm H. unfold unpack_names. rewrite unpack_names_is_loop.
  apply loop_safe; [intros; apply unpack_name_safe, Hm|exact H|apply fuel_enough].
Qed.

Ltac split_ifs :=
  repeat match goal with
         | |- context [if ?c then _ else _] => destruct c eqn:?
         end.
Lemma unpack_apl_prefix_safe msg off : safe_progress off (lenN msg) (unpack_apl_prefix msg off).
Proof.
  unfold unpack_apl_prefix. split_ifs; cbn; try exact I; lia.
Qed.
Lemma unpack_apl_safe msg off : off <= lenN msg -> safe off (lenN msg) (unpack_apl msg off).
Proof.
  intro H. unfold unpack_apl. rewrite unpack_apl_is_loop.
  apply loop_safe; [intros; apply unpack_apl_prefix_safe|exact H|apply fuel_enough].
Qed.

(* the bitmap / option / parameter loops carry extra state; same measure *)
Lemma unpack_nsec_go_safe fuel : forall msg off lw acc,
  off <= lenN msg -> (N.to_nat (lenN msg - off) < fuel)%nat ->
  safe off (lenN msg) (unpack_nsec_go fuel msg off lw acc).
Proof.
  induction fuel as [|f IH]; intros msg off lw acc Hoff Hf; [lia|]. cbn [unpack_nsec_go].
  destruct (off <? lenN msg) eqn:E; [|cbn; lia].
  destruct (lenN msg <? off + 2) eqn:E2; [exact I|].
  destruct (_ <=? lw)%Z; [exact I|].
  destruct (nthN msg (off + 1) 0 =? 0) eqn:E0; [exact I|].
  destruct (32 <? nthN msg (off + 1) 0); [exact I|].
  destruct (lenN msg <? off + 2 + nthN msg (off + 1) 0) eqn:E3; [exact I|].
  specialize (IH msg (off + 2 + nthN msg (off + 1) 0) (Z.of_N (nthN msg off 0))
                 (acc ++ block_types (nthN msg off 0) 0 (take_at msg (off + 2) (nthN msg (off + 1) 0)))
                 ltac:(lia) ltac:(lia)).
  destruct (unpack_nsec_go f msg _ _ _) as [[x o]| | |]; cbn in *; auto. lia.
Qed.
Lemma unpack_nsec_safe msg off : off <= lenN msg -> safe off (lenN msg) (unpack_nsec msg off).
Proof. intro H. apply unpack_nsec_go_safe; [exact H|apply fuel_enough]. Qed.

Lemma unpack_opts_go_safe fuel : forall msg off acc,
  off <= lenN msg -> (N.to_nat (lenN msg - off) < fuel)%nat ->
  safe off (lenN msg) (unpack_opts_go fuel msg off acc).
Proof.
  induction fuel as [|f IH]; intros msg off acc Hoff Hf; [lia|]. cbn [unpack_opts_go].
  destruct (off <? lenN msg) eqn:E; [|cbn; lia].
  destruct (lenN msg <? off + 4) eqn:E2; [exact I|].
  destruct (lenN msg <? off + 4 + _) eqn:E3; [exact I|].
  destruct (opt_view _ _) as [[b l]|]; [|exact I].
  match goal with |- safe _ _ (unpack_opts_go f msg ?o ?a) => specialize (IH msg o a ltac:(lia) ltac:(lia)) end.
  destruct (unpack_opts_go f msg _ _) as [[x o]| | |]; cbn in *; auto. lia.
Qed.
Lemma unpack_opts_safe msg off : off <= lenN msg -> safe off (lenN msg) (unpack_opts msg off).
Proof. intro H. apply unpack_opts_go_safe; [exact H|apply fuel_enough]. Qed.

Lemma unpack_svcb_go_safe fuel : forall msg off last acc,
  off <= lenN msg -> (N.to_nat (lenN msg - off) < fuel)%nat ->
  safe off (lenN msg) (unpack_svcb_go fuel msg off last acc).
Proof.
  induction fuel as [|f IH]; intros msg off last acc Hoff Hf; [lia|]. cbn [unpack_svcb_go].
  destruct (off <? lenN msg) eqn:E; [|cbn; lia].
  destruct (lenN msg <? off + 2) eqn:E2; [exact I|].
  destruct (lenN msg <? off + 2 + 2) eqn:E3; [exact I|].
  destruct (lenN msg <? off + 2 + 2 + _) eqn:E4; [exact I|].
  destruct (svcb_view _ _) as [[b l]|]; [|exact I].
  destruct (_ <=? last)%Z; [exact I|].
  match goal with |- safe _ _ (unpack_svcb_go f msg ?o ?l ?a) => specialize (IH msg o l a ltac:(lia) ltac:(lia)) end.
  destruct (unpack_svcb_go f msg _ _ _) as [[x o]| | |]; cbn in *; auto. lia.
Qed.
Lemma unpack_svcb_safe msg off : off <= lenN msg -> safe off (lenN msg) (unpack_svcb msg off).
Proof. intro H. apply unpack_svcb_go_safe; [exact H|apply fuel_enough]. Qed.

Lemma unpack_to_end_safe msg off e : off <= e -> safe off (lenN msg) (unpack_to_end msg off e).
Proof.
  intro H. unfold unpack_to_end. destruct (lenN msg <? e) eqn:E1; [exact I|].
  destruct (e <? off) eqn:E2; [lia|]. cbn. lia.
Qed.

Lemma safe_bind {A B} off len (r : res (A * N)) (f : A * N -> res (B * N)) :
  safe off len r -> (forall a o, off <= o <= len -> safe off len (f (a, o))) ->
  safe off len (bind r f).
Proof. destruct r as [[a o]| | |]; cbn; auto. Qed.

Ltac sb_ok := intros ? ? ?; cbn [fst snd safe]; lia.
Ltac sb lem := apply safe_bind; [apply safe_bind; [lem|sb_ok]|sb_ok].

(* one statement of a generated unpack() *)
Lemma unpack_field_safe got k msg off :
  wfb msg -> off <= lenN msg -> safe off (lenN msg) (unpack_field got k msg off).
Proof.
  intros Hm Hoff.
  destruct k; cbn [unpack_field]; cbv zeta.
  - sb ltac:(apply unpack_fixed_safe).
  - sb ltac:(apply unpack_fixed_safe).
  - sb ltac:(apply unpack_fixed_safe).
  - sb ltac:(apply unpack_fixed_safe).
  - sb ltac:(apply unpack_fixed_safe).
  - sb ltac:(apply safe_progress_safe, unpack_name_safe, Hm).
  - sb ltac:(apply safe_progress_safe, unpack_string_safe).
  - apply safe_bind; [|sb_ok].
    pose proof (unpack_txt_safe msg off Hoff) as H.
    destruct (unpack_txt msg off) as [[a o]| | |]; cbn in *; auto.
  - apply safe_bind; [|sb_ok]. replace (lenN msg <? off) with false by lia. cbn. lia.
  - sb ltac:(apply unpack_to_end_safe, Hoff).
  - sb ltac:(apply unpack_to_end_safe; destruct e; cbn; lia).
  - sb ltac:(apply unpack_to_end_safe; destruct e; cbn; lia).
  - sb ltac:(apply unpack_to_end_safe; destruct e; cbn; lia).
  - sb ltac:(apply unpack_to_end_safe; destruct e; cbn; lia).
  - sb ltac:(apply unpack_fixed_safe).
  - sb ltac:(apply unpack_fixed_safe).
  - sb ltac:(apply unpack_nsec_safe, Hoff).
  - sb ltac:(apply unpack_opts_safe, Hoff).
  - sb ltac:(apply unpack_svcb_safe, Hoff).
  - sb ltac:(apply unpack_apl_safe, Hoff).
  - sb ltac:(apply unpack_names_safe; assumption).
  - destruct (_ =? gw_v4).
    { apply safe_bind; [apply unpack_fixed_safe|sb_ok]. }
    destruct (_ =? gw_v6).
    { apply safe_bind; [apply unpack_fixed_safe|sb_ok]. }
    destruct (_ =? gw_host).
    { apply safe_bind; [apply safe_progress_safe, unpack_name_safe, Hm|sb_ok]. }
    cbn. lia.
Qed.

(* a whole generated unpack(): any field sequence *)
Lemma unpack_fields_safe l : forall got msg off,
  wfb msg -> off <= lenN msg -> safe off (lenN msg) (unpack_fields l got msg off).
Proof.
  induction l as [|u r IH]; intros got msg off Hm Hoff; cbn [unpack_fields]; [cbn; lia|].
  pose proof (unpack_field_safe got (uf_kind u) msg off Hm Hoff) as H.
  destruct (unpack_field got (uf_kind u) msg off) as [[vs o]| | |]; cbn in *; auto.
  destruct (uf_exit u && (o =? lenN msg)); [cbn; lia|].
  specialize (IH (got ++ combine (assigned u) vs) msg o Hm ltac:(lia)).
  destruct (unpack_fields r _ msg o) as [[x o']| | |]; cbn in *; auto. lia.
Qed.
