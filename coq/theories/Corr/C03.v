(* Corr/C03.v — case runner for names on the wire. *)
From Dns Require Import Model.NameWire Corr.Wire.
Open Scope N_scope.

Definition show_unpack (r : res (bytes * N)) : string :=
  show_res (fun p => hex (fst p) +++ ","%string +++ dec (snd p)) r.
Definition show_pack (r : res bytes) : string := show_res hex r.
Definition show_idn (p : N * bool) : string := dec (fst p) +++ ","%string +++ showb (snd p).

Definition run (fn : string) (args : list string) : string :=
  if String.eqb fn "unpack" then show_unpack (unpack_name (unhex (arg args 0)) (undec (arg args 1)))
  else if String.eqb fn "pack" then show_pack (pack_name_plain (unhex (arg args 0)) (undec (arg args 1)))
  else if String.eqb fn "idn" then show_idn (is_domain_name (unhex (arg args 0)))
  else if String.eqb fn "fqdn" then showb (is_fqdn (unhex (arg args 0)))
  else match run_wire fn args with Some r => r | None => "unknown-fn"%string end.
