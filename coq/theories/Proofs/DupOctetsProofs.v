(* Proofs/DupOctetsProofs.v -- the wire clause of C20: for records obtained from
   the wire, IsDuplicate holds exactly when type, class, the lower-cased owner
   octets and the lower-cased uncompressed RDATA octets are equal.

   Plan.
   (1) [movable]: without a compression map every field packer writes the same
       octets wherever it starts (given room), so the RDATA octets of a record
       do not depend on where the record stands in its message.
   (2) [lower_names ps v]: the RDATA v with the domain-name fields of the layout
       ps lower-cased; canonical values stay canonical.
   (3) fields agree (DupWireProofs.field_agree) -> the two lower-cased values are
       packed identically (same octets or same failure).
   (4) equal octets -> equal lower-cased values (unpack after pack is the
       identity, RoundtripRRProofs) -> fields agree.
   (5) records: UnpackRR output under the conditions of C01's record_converse. *)
From Dns Require Import Gen.Layouts Gen.Registry Gen.Dups.
From Dns Require Import Base.ListX Model.Msg Model.Dup Spec.NameSpec
  Proofs.EscapeProofs Proofs.TokenProofs Proofs.NameWireProofs Proofs.NameRoundtripProofs
  Proofs.LayoutProofs Proofs.DecodeFieldsProofs Proofs.RoundtripFieldProofs Proofs.RoundtripRRProofs
  Proofs.RoundtripConverseProofs Proofs.LenFieldProofs Proofs.DnssecProofs Proofs.DedupProofs Proofs.DupProofs Proofs.DupWireProofs.
From Coq Require Import Lia ZifyN ZifyNat ZifyBool.
Open Scope list_scope.
Open Scope N_scope.

Ltac Zify.zify_post_hook ::= Z.div_mod_to_equations.

(* DupProofs has its own pack_fields (field names of a statement); here it is the interpreter *)
Local Notation pack_fields := Dns.Model.Rdata.pack_fields.

(* ================================================================== *)
(* 1. packers do not depend on the position (no compression map)        *)
(* ================================================================== *)
(* [movable P]: when P succeeds from the octets out it appends some octets b,
   and it appends the same b after any other octets out' in any buffer with
   room for them (320 octets of slack cover the look-ahead checks) *)
Definition movable (P : N -> pn_state -> res pn_state) : Prop :=
  forall cap out st', P cap (st0 out) = Ok st' ->
    exists b, st' = st0 (out ++ b) /\
      forall cap' out', lenN out' + lenN b + 320 <= cap' -> P cap' (st0 out') = Ok (st0 (out' ++ b)).

Lemma mv_ret : movable (fun _ st => Ok st).
Proof.
  intros cap out st' H. injection H as <-. exists []. split; [now rewrite app_nil_r|].
  intros cap' out' _. now rewrite app_nil_r.
Qed.

Lemma mv_ext (P Q : N -> pn_state -> res pn_state) :
  (forall cap st, P cap st = Q cap st) -> movable P -> movable Q.
Proof.
  intros E HP cap out st' H. rewrite <- E in H. destruct (HP cap out st' H) as [b [-> Hb]].
  exists b. split; [reflexivity|]. intros cap' out' Hr. rewrite <- E. now apply Hb.
Qed.

Lemma mv_fixed b : movable (pack_fixed b).
Proof.
  intros cap out st' H. apply pack_fixed_ok in H. subst st'. exists b. split; [reflexivity|].
  intros cap' out' Hr. unfold pack_fixed. rewrite poff_st0. bfalse (cap' <? lenN out' + lenN b). reflexivity.
Qed.

Lemma mv_bind (P Q : N -> pn_state -> res pn_state) :
  movable P -> movable Q -> movable (fun cap st => do x <- P cap st; Q cap x).
Proof.
  intros HP HQ cap out st' H. cbv beta in H. inv_bind H.
  destruct (HP cap out a Ha) as [b1 [-> H1]]. destruct (HQ cap (out ++ b1) st' H) as [b2 [-> H2]].
  exists (b1 ++ b2). split; [now rewrite app_assoc|].
  intros cap' out' Hr. rewrite lenN_app in Hr. cbv beta. rewrite H1 by lia. cbn [bind].
  rewrite H2 by (rewrite lenN_app; lia). now rewrite app_assoc.
Qed.

Lemma mv_relabel (P : N -> pn_state -> res pn_state) (c : string) :
  movable P -> movable (fun cap st => match P cap st with Err _ => Err c | r => r end).
Proof.
  intros HP cap out st' H. cbv beta in H.
  destruct (P cap (st0 out)) as [s| | |] eqn:E; try discriminate. injection H as <-.
  destruct (HP cap out s E) as [b [-> Hb]]. exists b. split; [reflexivity|].
  intros cap' out' Hr. cbv beta. now rewrite Hb.
Qed.

(* a packer run over a list *)
Lemma mv_list {A} (P : A -> N -> pn_state -> res pn_state) (F : list A -> N -> pn_state -> res pn_state) :
  (forall cap st, F [] cap st = Ok st) ->
  (forall x r cap st, F (x :: r) cap st = do st' <- P x cap st; F r cap st') ->
  forall l, Forall (fun x => movable (P x)) l -> movable (F l).
Proof.
  intros Fn Fc l. induction l as [|x r IH]; intro Hl.
  - apply (mv_ext (fun _ st => Ok st)); [intros; now rewrite Fn|apply mv_ret].
  - apply (mv_ext (fun cap st => do st' <- P x cap st; F r cap st')); [intros; now rewrite Fc|].
    apply mv_bind; [exact (Forall_inv Hl)|apply IH, (Forall_inv_tail Hl)].
Qed.

(* ---- character-strings ---- *)
Lemma ptx_go_acc_le s : forall acc off0 cap d, ptx_go s acc off0 cap = Ok d -> lenN acc <= lenN d.
Proof.
  induction s as [| a b c r3 Hd IH | a r1 Hd IH | | r IH | x r H1 H2 IH] using tok_ind;
    intros acc off0 cap d H.
  - injection H as <-. lia.
  - rewrite ptx_go_ddd in H by auto. destruct (_ <=? _); [discriminate|]. apply IH in H.
    rewrite lenN_app in H. lia.
  - rewrite ptx_go_esc in H by auto. destruct (_ <=? _); [discriminate|]. apply IH in H.
    rewrite lenN_app in H. lia.
  - cbn in H. destruct (_ <=? _); [discriminate|]. injection H as <-. lia.
  - rewrite ptx_go_plain in H by lia. destruct (_ <=? _); [discriminate|]. apply IH in H.
    rewrite lenN_app in H. lia.
  - rewrite ptx_go_plain in H by auto. destruct (_ <=? _); [discriminate|]. apply IH in H.
    rewrite lenN_app in H. lia.
Qed.

Lemma ptx_go_move s : forall acc off0 cap d, ptx_go s acc off0 cap = Ok d ->
  forall off0' cap', off0' + lenN d < cap' -> ptx_go s acc off0' cap' = Ok d.
Proof.
  induction s as [| a b c r3 Hd IH | a r1 Hd IH | | r IH | x r H1 H2 IH] using tok_ind;
    intros acc off0 cap d H off0' cap' Hr.
  - exact H.
  - rewrite ptx_go_ddd in * by auto. destruct (cap <=? _); [discriminate|].
    pose proof (ptx_go_acc_le _ _ _ _ _ H) as Hl. rewrite lenN_app in Hl.
    bfalse (cap' <=? off0' + lenN acc). eapply IH; eauto.
  - rewrite ptx_go_esc in * by auto. destruct (cap <=? _); [discriminate|].
    pose proof (ptx_go_acc_le _ _ _ _ _ H) as Hl. rewrite lenN_app in Hl.
    bfalse (cap' <=? off0' + lenN acc). eapply IH; eauto.
  - cbn in *. destruct (cap <=? _); [discriminate|]. injection H as <-.
    bfalse (cap' <=? off0' + lenN acc). reflexivity.
  - rewrite ptx_go_plain in * by lia. destruct (cap <=? _); [discriminate|].
    pose proof (ptx_go_acc_le _ _ _ _ _ H) as Hl. rewrite lenN_app in Hl.
    bfalse (cap' <=? off0' + lenN acc). eapply IH; eauto.
  - rewrite ptx_go_plain in * by auto. destruct (cap <=? _); [discriminate|].
    pose proof (ptx_go_acc_le _ _ _ _ _ H) as Hl. rewrite lenN_app in Hl.
    bfalse (cap' <=? off0' + lenN acc). eapply IH; eauto.
Qed.

Lemma mv_txt_string s : movable (pack_txt_string s).
Proof.
  intros cap out st' H. unfold pack_txt_string in H. rewrite poff_st0 in H.
  destruct (cap <=? lenN out) eqn:E1; [discriminate|]. destruct (1025 <? lenN s) eqn:E2; [discriminate|].
  cbn [orb] in H. inv_bind H. destruct (255 <? lenN a) eqn:E3; [discriminate|]. injection H as <-.
  exists (lenN a :: a). split; [reflexivity|].
  intros cap' out' Hr. rewrite lenN_cons in Hr. unfold pack_txt_string. rewrite poff_st0.
  bfalse (cap' <=? lenN out'). rewrite E2. cbn [orb].
  rewrite (ptx_go_move _ _ _ _ _ Ha) by lia. cbn [bind]. rewrite E3. reflexivity.
Qed.

Lemma mv_txts l : movable (pack_txts l).
Proof.
  apply (mv_list pack_txt_string); try reflexivity. apply Forall_forall. intros s _. apply mv_txt_string.
Qed.

Lemma mv_txt l : movable (pack_txt l).
Proof.
  destruct l as [|s r]; [|exact (mv_txts (s :: r))].
  intros cap out st' H. cbn [pack_txt] in H. destruct (cap <=? _); [discriminate|]. injection H as <-.
  exists []. split; [now rewrite app_nil_r|]. intros cap' out' Hr. cbn [pack_txt]. rewrite poff_st0.
  bfalse (cap' <=? lenN out'). now rewrite app_nil_r.
Qed.

Lemma mv_octet s : movable (pack_octet s).
Proof.
  intros cap out st' H. unfold pack_octet in H. rewrite poff_st0 in H.
  destruct (cap <=? lenN out) eqn:E1; [discriminate|]. destruct (1025 <? lenN s) eqn:E2; [discriminate|].
  cbn [orb] in H. inv_bind H. injection H as <-.
  exists a. split; [reflexivity|].
  intros cap' out' Hr. unfold pack_octet. rewrite poff_st0.
  bfalse (cap' <=? lenN out'). rewrite E2. cbn [orb].
  rewrite (ptx_go_move _ _ _ _ _ Ha) by lia. reflexivity.
Qed.

(* ---- addresses ---- *)
Lemma mv_a a : movable (pack_a a).
Proof.
  destruct (N.eq_dec (lenN a) 4) as [E|N4].
  { apply (mv_ext (pack_fixed a)); [intros; symmetry; now apply pack_a_4|apply mv_fixed]. }
  destruct (N.eq_dec (lenN a) 16) as [E|N16].
  { apply (mv_ext (pack_fixed (if is_v4_mapped a then skipn 12 a else [0;0;0;0]))); [intros; symmetry; now apply pack_a_16|apply mv_fixed]. }
  destruct (N.eq_dec (lenN a) 0) as [E|N0].
  { apply (mv_ext (fun _ st => Ok st)); [intros; symmetry; now apply pack_a_0|apply mv_ret]. }
  intros cap out st' H. rewrite pack_a_other in H by assumption. discriminate.
Qed.
Lemma mv_aaaa a : movable (pack_aaaa a).
Proof.
  destruct (N.eq_dec (lenN a) 16) as [E|N16].
  { apply (mv_ext (pack_fixed a)); [intros; symmetry; now apply pack_aaaa_16|apply mv_fixed]. }
  destruct (N.eq_dec (lenN a) 0) as [E|N0].
  { apply (mv_ext (fun _ st => Ok st)); [intros; symmetry; now apply pack_aaaa_0|apply mv_ret]. }
  intros cap out st' H. rewrite pack_aaaa_other in H by assumption. discriminate.
Qed.

(* ---- type bitmaps ---- *)
Lemma nsec_len_le t : (t - t / 256 * 256) / 8 + 1 <= 32.
Proof. lia. Qed.

Lemma mv_nsec_go l : forall lw cur, movable (fun cap st => nsec_go l lw cur cap st).
Proof.
  induction l as [|t r IH]; intros lw cur cap out st' H.
  - cbn in H. injection H as <-. exists (lw :: lenN cur :: cur). split; [reflexivity|].
    intros cap' out' _. reflexivity.
  - cbn [nsec_go] in H. pose proof (nsec_len_le t) as Hlen.
    set (len := (t - t / 256 * 256) / 8 + 1) in *.
    destruct ((lw <? t / 256) && negb (lenN cur =? 0)) eqn:Ef.
    + rewrite pemit_st0 in H. destruct ((t / 256 <? lw) || (len <? lenN [])) eqn:Eo; [discriminate|].
      destruct (cap <? _); [discriminate|].
      destruct (IH _ _ _ _ _ H) as [b [-> Hb]].
      exists ((lw :: lenN cur :: cur) ++ b). split; [now rewrite <- app_assoc|].
      intros cap' out' Hr. rewrite lenN_app in Hr. cbn [nsec_go]. fold len. rewrite Ef, pemit_st0, Eo, poff_st0.
      rewrite lenN_app. bfalse (cap' <? lenN out' + lenN (lw :: lenN cur :: cur) + 2 + len).
      rewrite Hb by (rewrite lenN_app; lia). now rewrite <- app_assoc.
    + destruct ((t / 256 <? lw) || (len <? lenN cur)) eqn:Eo; [discriminate|].
      destruct (cap <? _); [discriminate|].
      destruct (IH _ _ _ _ _ H) as [b [-> Hb]].
      exists b. split; [reflexivity|].
      intros cap' out' Hr. cbn [nsec_go]. fold len. rewrite Ef, Eo, poff_st0.
      bfalse (cap' <? lenN out' + 2 + len). now apply Hb.
Qed.

Lemma mv_nsec l : movable (pack_nsec l).
Proof.
  destruct l as [|t r]; [apply mv_ret|].
  intros cap out st' H. unfold pack_nsec in H. destruct (cap <? _); [discriminate|].
  destruct (mv_nsec_go (t :: r) 0 [] cap out st' H) as [b [-> Hb]]. exists b. split; [reflexivity|].
  intros cap' out' Hr. unfold pack_nsec. rewrite poff_st0. bfalse (cap' <? lenN out'). now apply Hb.
Qed.

(* ---- EDNS0 options, SVCB parameters ---- *)
Lemma mv_opts l : movable (pack_opts l).
Proof.
  induction l as [|[[k b] n] l IH]; [apply mv_ret|].
  intros cap out st' H. cbn [pack_opts] in H. destruct (cap <? _); [discriminate|]. destruct (cap <? _); [discriminate|].
  rewrite pemit_st0 in H. destruct (IH _ _ _ H) as [b2 [-> Hb]].
  exists ((u16 k ++ u16 (lenN b) ++ b) ++ b2). split; [now rewrite <- app_assoc|].
  intros cap' out' Hr. rewrite !lenN_app in Hr. cbn [pack_opts]. rewrite poff_st0.
  bfalse (cap' <? lenN out' + 4). bfalse (cap' <? lenN out' + 4 + lenN b). rewrite pemit_st0.
  rewrite Hb by (rewrite !lenN_app; lia). now rewrite <- app_assoc.
Qed.

Lemma mv_pairs_go l : forall prev, movable (pack_pairs_go l prev).
Proof.
  induction l as [|[[k b] n] l IH]; intro prev; [apply mv_ret|].
  intros cap out st' H. cbn [pack_pairs_go] in H. destruct (k =? prev) eqn:Ek; [discriminate|].
  destruct (cap <? _); [discriminate|]. destruct (cap <? _); [discriminate|]. destruct (cap <? _); [discriminate|].
  rewrite pemit_st0 in H. destruct (IH _ _ _ _ H) as [b2 [-> Hb]].
  exists ((u16 k ++ u16 (lenN b) ++ b) ++ b2). split; [now rewrite <- app_assoc|].
  intros cap' out' Hr. rewrite !lenN_app in Hr. cbn [pack_pairs_go]. rewrite Ek, poff_st0.
  bfalse (cap' <? lenN out' + 2). bfalse (cap' <? lenN out' + 4). bfalse (cap' <? lenN out' + 4 + lenN b). rewrite pemit_st0.
  rewrite Hb by (rewrite !lenN_app; lia). now rewrite <- app_assoc.
Qed.

Lemma mv_svcb l : movable (pack_svcb l).
Proof. apply mv_pairs_go. Qed.

(* ---- APL ---- *)
Lemma mv_apl_prefix p : movable (pack_apl_prefix p).
Proof.
  destruct p as [[neg prefix] ip]. unfold pack_apl_prefix.
  destruct (match lenN ip with 4 => Some 1 | 16 => Some 2 | _ => None end) as [f|];
    [|intros cap out st' H; discriminate H].
  apply (mv_bind (pack_fixed (u16 f))); [apply mv_fixed|].
  apply (mv_bind (pack_fixed (u8 prefix))); [apply mv_fixed|].
  apply (mv_bind (pack_fixed _)); apply mv_fixed.
Qed.

Lemma mv_apl l : movable (pack_apl l).
Proof.
  apply (mv_list pack_apl_prefix); try reflexivity. apply Forall_forall. intros p _. apply mv_apl_prefix.
Qed.

(* ---- names: the presentation form of a valid wire name ---- *)
Lemma pack_show_at ls cap c out : valid_wire ls = true -> lenN out + 320 <= cap ->
  pack_name (show_name ls) cap c (st0 out) = Ok (st0 (out ++ wire_name ls)).
Proof.
  intros Hls Hr. apply pack_name_at; [apply is_fqdn_show_name, Hls|apply parse_show_name, Hls|apply valid_wire_len_ok, Hls|exact Hr].
Qed.

Lemma mv_name ls c : valid_wire ls = true -> movable (fun cap st => pack_name (show_name ls) cap c st).
Proof.
  intros Hls cap out st' H. apply pack_name_show in H; [|exact Hls]. subst st'.
  exists (wire_name ls). split; [reflexivity|]. intros cap' out' Hr. apply pack_show_at; [exact Hls|lia].
Qed.

Lemma mv_names lss c : Forall (fun ls => valid_wire ls = true) lss ->
  movable (fun cap st => pack_names (map show_name lss) cap c st).
Proof.
  intro Hl.
  apply (mv_ext (fun cap st => (fix F (l : list (list label)) cap st :=
                   match l with [] => Ok st | ls :: r => do st' <- pack_name (show_name ls) cap c st; F r cap st' end) lss cap st)).
  { intros cap st. revert st. induction lss as [|ls r IH]; intro st; [reflexivity|]. cbn [map pack_names].
    destruct (pack_name (show_name ls) cap c st); cbn [bind]; try reflexivity. apply IH. now apply Forall_inv_tail in Hl. }
  apply (mv_list (fun ls cap st => pack_name (show_name ls) cap c st)); try reflexivity.
  eapply Forall_impl; [|exact Hl]. intros ls Hls. now apply mv_name.
Qed.

(* ---- one pack statement, a whole pack() ---- *)
Lemma mv_field v f k : field_canon v f k -> movable (pack_field v f k).
Proof.
  intro Hc. destruct k; cbn [field_canon] in Hc; unfold pack_field;
    try apply mv_fixed; try apply mv_a; try apply mv_aaaa; try apply mv_nsec; try apply mv_opts;
    try apply mv_svcb; try apply mv_apl.
  - (* name *) destruct Hc as [x [Hv [ls [-> Hls]]]]. rewrite Hv. cbn [as_s]. now apply mv_name.
  - (* string *) apply (mv_relabel (pack_string _)). apply mv_txt_string.
  - (* txt *) apply (mv_relabel (pack_txt _)). apply mv_txt.
  - (* octet *) apply (mv_relabel (pack_octet _)). apply mv_octet.
  - (* names *) destruct Hc as [x [Hv [lss [-> Hl]]]]. rewrite Hv. cbn [as_ss]. now apply mv_names.
  - (* gateway *)
    destruct Hc as [_ [a [h [Ha [Hh Hg]]]]]. rewrite Ha, Hh. cbn [as_b as_s].
    destruct (N.land (vget_n v tyf) mask =? gw_v4) eqn:E1; [apply mv_a|].
    destruct (N.land (vget_n v tyf) mask =? gw_v6) eqn:E2; [apply mv_aaaa|].
    destruct (N.land (vget_n v tyf) mask =? gw_host) eqn:E3; [|apply mv_ret].
    destruct Hg as [[Ety _]|[[Ety _]|[[_ [_ [ls [-> Hls]]]]|[_ [_ [N3 _]]]]]]; try lia.
    now apply mv_name.
Qed.

Lemma mv_fields v : forall ps, fields_canon v ps -> movable (pack_fields v ps).
Proof.
  unfold fields_canon. induction ps as [|[f k] ps IH]; intro Hc; [apply mv_ret|].
  apply (mv_ext (fun cap st => do st' <- pack_field v f k cap st; pack_fields v ps cap st')); [reflexivity|].
  apply mv_bind; [exact (mv_field v f k (Forall_inv Hc))|apply IH; exact (Forall_inv_tail Hc)].
Qed.

(* ================================================================== *)
(* 2. lower-casing the domain-name fields of an RDATA value             *)
(* ================================================================== *)
Definition lower_val (x : fval) : fval :=
  match x with V_s s => V_s (lower_bytes s) | V_ss l => V_ss (map lower_bytes l) | _ => x end.
(* g is a struct field that the statement p packs as domain name(s) *)
Definition names_field (p : pfield) (g : string) : bool :=
  match snd p with
  | K_name _ | K_names _ => String.eqb (fst p) g
  | K_gateway _ _ hostf _ _ => String.eqb hostf g
  | _ => false
  end.
Definition is_name_field (ps : list pfield) (g : string) : bool := existsb (fun p => names_field p g) ps.
(* the value v with every domain-name field of the layout ps lower-cased *)
Definition lower_names (ps : list pfield) (v : rdata) : rdata :=
  map (fun gx => if is_name_field ps (fst gx) then (fst gx, lower_val (snd gx)) else gx) v.

Lemma vget_lower ps v g :
  vget (lower_names ps v) g = if is_name_field ps g then option_map lower_val (vget v g) else vget v g.
Proof.
  induction v as [|[h x] v IH]; cbn [lower_names map vget fst snd option_map].
  - now destruct (is_name_field ps g).
  - fold (lower_names ps v). destruct (String.eqb_spec g h) as [->|Hn].
    + destruct (is_name_field ps h); cbn [vget]; rewrite String.eqb_refl; reflexivity.
    + destruct (is_name_field ps h); cbn [vget]; (destruct (String.eqb_spec g h); [contradiction|]); exact IH.
Qed.

Lemma vget_n_lower ps v s : vget_n (lower_names ps v) s = vget_n v s.
Proof.
  unfold vget_n. rewrite vget_lower. destruct (is_name_field ps s); [|reflexivity].
  destruct (vget v s) as [[]|]; reflexivity.
Qed.

Lemma vget_lower_none ps v g : vget (lower_names ps v) g = None <-> vget v g = None.
Proof. rewrite vget_lower. destruct (is_name_field ps g), (vget v g); cbn; split; congruence. Qed.

(* the layout keeps its name fields apart: a field packed as a name is packed by
   no other statement, the gateway type is an integer field of the same layout,
   and there is no EDNS0 option list (OPT has no comparison at all) *)
Definition num_kind (k : fkind) : bool := match k with K_u8 | K_u16 | K_u32 | K_u48 | K_u64 => true | _ => false end.
Definition sep_field (ps : list pfield) (p : pfield) : bool :=
  match snd p with
  | K_name _ | K_names _ => true
  | K_gateway tyf addrf hostf _ _ =>
    negb (is_name_field ps tyf) && negb (is_name_field ps addrf) &&
    existsb (fun q => String.eqb (fst q) tyf && num_kind (snd q)) ps
  | K_opt => false
  | _ => negb (is_name_field ps (fst p))
  end.
Definition sep_ok (ps : list pfield) : bool := forallb (sep_field ps) ps.

(* table check, re-run on every regenerated zmsg.go *)
Lemma layouts_sep_ok : forallb (fun L => String.eqb (tl_name L) "OPT" || sep_ok (tl_pack L)) layouts = true.
Proof. vm_compute. reflexivity. Qed.

Lemma in_name_field ps p g : In p ps -> names_field p g = true -> is_name_field ps g = true.
Proof. intros Hin H. unfold is_name_field. apply existsb_exists. eauto. Qed.

(* canonical values stay canonical *)
Lemma canon_ext v v' k x : (forall s, vget_n v' s = vget_n v s) -> canon v k x -> canon v' k x.
Proof.
  intros E. destruct k; cbn [canon]; try exact (fun H => H);
    intros [d [-> Hs]]; exists d; (split; [reflexivity|]); destruct e; cbn [size_agrees] in *; try exact I; now rewrite E.
Qed.

Lemma lower_show_names lss : Forall (fun ls => valid_wire ls = true) lss ->
  map lower_bytes (map show_name lss) = map show_name (map (map lower_bytes) lss) /\
  Forall (fun ls => valid_wire ls = true) (map (map lower_bytes) lss).
Proof.
  induction 1 as [|ls lss Hls _ [IH1 IH2]]; [split; [reflexivity|constructor]|].
  cbn [map]. split; [now rewrite lower_show_name, IH1|constructor; [now apply valid_wire_lower|exact IH2]].
Qed.

Lemma field_canon_lower ps v f k : In (f, k) ps -> sep_ok ps = true ->
  field_canon v f k -> field_canon (lower_names ps v) f k.
Proof.
  intros Hin Hsep Hc. unfold sep_ok in Hsep. rewrite forallb_forall in Hsep.
  pose proof (Hsep _ Hin) as Hs. unfold sep_field in Hs. cbn [fst snd] in Hs.
  assert (Hn : forall s, vget_n (lower_names ps v) s = vget_n v s) by (intro; apply vget_n_lower).
  destruct k; cbn [field_canon] in *;
    try (destruct Hc as [x [Hv Hx]]; exists x; split;
         [rewrite vget_lower; apply negb_true_iff in Hs; rewrite Hs; exact Hv|exact (canon_ext v _ _ x Hn Hx)]; fail).
  - (* name *) destruct Hc as [x [Hv [ls [-> Hls]]]].
    exists (V_s (show_name (map lower_bytes ls))). split.
    + rewrite vget_lower, (in_name_field ps (f, K_name compress) f Hin) by (cbn; apply String.eqb_refl).
      rewrite Hv. cbn. now rewrite lower_show_name.
    + exists (map lower_bytes ls). split; [reflexivity|now apply valid_wire_lower].
  - (* opt *) discriminate.
  - (* names *) destruct Hc as [x [Hv [lss [-> Hl]]]]. destruct (lower_show_names lss Hl) as [E1 E2].
    exists (V_ss (map show_name (map (map lower_bytes) lss))). split.
    + rewrite vget_lower, (in_name_field ps (f, K_names compress) f Hin) by (cbn; apply String.eqb_refl).
      rewrite Hv. cbn. now rewrite E1.
    + eexists. split; [reflexivity|exact E2].
  - (* gateway *)
    destruct Hc as [Hne [a [h [Ha [Hh Hg]]]]]. apply andb_prop in Hs. destruct Hs as [Hs _].
    apply andb_prop in Hs. destruct Hs as [_ Hs2]. apply negb_true_iff in Hs2.
    split; [exact Hne|]. exists a, (lower_bytes h). split; [now rewrite vget_lower, Hs2|]. split.
    + rewrite vget_lower, (in_name_field ps (f, K_gateway tyf addrf hostf mask compress) hostf Hin) by (cbn; apply String.eqb_refl).
      now rewrite Hh.
    + rewrite Hn. destruct Hg as [[A [B ->]]|[[A [B ->]]|[[A [B [ls [-> Hls]]]]|[A [B [C [D ->]]]]]]].
      * left. auto.
      * right. left. auto.
      * right. right. left. split; [exact A|]. split; [exact B|]. exists (map lower_bytes ls).
        split; [now apply lower_show_name|now apply valid_wire_lower].
      * right. right. right. auto.
Qed.

Lemma fields_canon_lower ps v : sep_ok ps = true -> fields_canon v ps -> fields_canon (lower_names ps v) ps.
Proof.
  intros Hsep Hc. unfold fields_canon in *. rewrite Forall_forall in *. intros [f k] Hin. cbn [fst snd].
  apply field_canon_lower; [exact Hin|exact Hsep|exact (Hc _ Hin)].
Qed.

Lemma present_lower ps v : present ps v -> present ps (lower_names ps v).
Proof.
  unfold present. intro H. eapply Forall_impl; [|exact H]. intros fk Hfk. eapply Forall_impl; [|exact Hfk].
  intros g Hg. cbv beta in *. now rewrite vget_lower_none.
Qed.

(* ================================================================== *)
(* 3. agreeing fields are packed identically once names are lower-cased *)
(* ================================================================== *)
Lemma ip_norm_short a : lenN a <> 16 -> ip_norm a = a.
Proof. intro H. unfold ip_norm. replace (lenN a =? 16) with false by lia. reflexivity. Qed.

Lemma ip_norm_16_inj a b : lenN a = 16 -> lenN b = 16 -> ip_norm a = ip_norm b -> a = b.
Proof.
  intros Ha Hb. unfold ip_norm. rewrite Ha, Hb. cbn [N.eqb Pos.eqb andb]. unfold is_v4_mapped.
  pose proof (lenN_skipn_12_of_16 a Ha) as La. pose proof (lenN_skipn_12_of_16 b Hb) as Lb.
  destruct (bytes_eqb (firstn 12 a) _) eqn:Ea, (bytes_eqb (firstn 12 b) _) eqn:Eb; intro E.
  - apply bytes_eqb_eq in Ea, Eb. rewrite <- (firstn_skipn 12 a), <- (firstn_skipn 12 b), Ea, Eb, E. reflexivity.
  - rewrite E in La. lia.
  - rewrite <- E in Lb. lia.
  - exact E.
Qed.

Lemma ip_norm_same_len a b : (lenN a = 4 \/ lenN a = 16) -> length a = length b -> ip_norm a = ip_norm b -> a = b.
Proof.
  intros Ha Hl E. assert (Hb : lenN b = lenN a) by (unfold lenN; now rewrite Hl).
  destruct Ha as [Ha|Ha].
  - rewrite !ip_norm_short in E by lia. exact E.
  - apply ip_norm_16_inj; [exact Ha|lia|exact E].
Qed.

Lemma apl_agree_eq l1 : forall l2, Forall2 apl_agree l1 l2 -> Forall apl_ok l1 -> l1 = l2.
Proof.
  induction l1 as [|p l1 IH]; intros l2 H Hok; inversion H as [|? q ? l2' Hpq Hr]; subst; [reflexivity|].
  f_equal; [|apply IH; [exact Hr|exact (Forall_inv_tail Hok)]].
  apply Forall_inv in Hok. destruct p as [[n1 p1] ip1], q as [[n2 p2] ip2].
  destruct Hpq as [A [B [C D]]]. cbn [fst snd] in *. destruct Hok as [Hl _].
  rewrite (ip_norm_same_len ip1 ip2 Hl D B). congruence.
Qed.

Lemma apl_agree_refl l : Forall2 apl_agree l l.
Proof. induction l; constructor; [repeat split|assumption]. Qed.

Lemma pack_pairs_go_kv a : forall b prev cap st, map kv a = map kv b ->
  pack_pairs_go a prev cap st = pack_pairs_go b prev cap st.
Proof.
  induction a as [|[[k x] n] a IH]; intros [|[[k' x'] n'] b] prev cap st E; try discriminate E; [reflexivity|].
  cbn [map] in E. injection E as E1 E2 E3. unfold pkey in E1. cbn [fst snd] in E1, E2. subst k' x'.
  cbn [pack_pairs_go]. now rewrite (IH b k cap _ E3).
Qed.

Ltac shape H := let d := fresh "d" in destruct H as [d H];
  match type of H with _ /\ _ => let X := fresh in destruct H as [H X] | _ => idtac end.

Lemma pack_field_agree ps v1 v2 f k cap st :
  In (f, k) ps -> sep_ok ps = true -> field_canon v1 f k -> field_canon v2 f k ->
  field_agree (f, k) v1 v2 ->
  pack_field (lower_names ps v1) f k cap st = pack_field (lower_names ps v2) f k cap st.
Proof.
  intros Hin Hsep Hc1 Hc2 Ha. unfold sep_ok in Hsep. rewrite forallb_forall in Hsep.
  pose proof (Hsep _ Hin) as Hs. unfold sep_field in Hs. cbn [fst snd] in Hs.
  unfold field_agree in Ha. cbn [fst snd] in Ha.
  destruct k; cbn [field_canon] in Hc1, Hc2;
    try (match goal with |- pack_field _ _ K_svcb _ _ = _ => fail 1 | _ => idtac end;
         apply negb_true_iff in Hs; destruct Hc1 as [x1 [Hv1 Hx1]]; destruct Hc2 as [x2 [Hv2 Hx2]];
         rewrite Hv1, Hv2 in Ha; cbn [canon] in Hx1, Hx2; shape Hx1; shape Hx2; subst x1 x2;
         cbn [as_n as_s as_ss as_enc as_b as_ns as_pairs as_apl] in Ha;
         assert (E : vget (lower_names ps v1) f = vget (lower_names ps v2) f);
         [rewrite !vget_lower, Hs, Hv1, Hv2; f_equal|unfold pack_field; rewrite E; reflexivity]).
  all: try (f_equal; congruence).
  - (* name *) destruct Hc1 as [x1 [Hv1 [l1 [-> _]]]]. destruct Hc2 as [x2 [Hv2 [l2 [-> _]]]].
    rewrite Hv1, Hv2 in Ha. cbn [as_s] in Ha.
    assert (E : vget (lower_names ps v1) f = vget (lower_names ps v2) f).
    { rewrite !vget_lower, (in_name_field ps (f, K_name compress) f Hin) by (cbn; apply String.eqb_refl).
      rewrite Hv1, Hv2. cbn. now rewrite Ha. }
    unfold pack_field. now rewrite E.
  - (* A *) f_equal. rewrite !ip_norm_short in Ha by lia. exact Ha.
  - (* AAAA *) f_equal. now apply ip_norm_16_inj.
  - (* svcb *) apply negb_true_iff in Hs. destruct Hc1 as [x1 [Hv1 [l1 [-> _]]]]. destruct Hc2 as [x2 [Hv2 [l2 [-> _]]]].
    rewrite Hv1, Hv2 in Ha. cbn [as_pairs] in Ha.
    unfold pack_field. rewrite !vget_lower, Hs, Hv1, Hv2. cbn [as_pairs]. unfold pack_svcb. now apply pack_pairs_go_kv.
  - (* apl *) f_equal. now apply apl_agree_eq.
  - (* names *) destruct Hc1 as [x1 [Hv1 [l1 [-> _]]]]. destruct Hc2 as [x2 [Hv2 [l2 [-> _]]]].
    rewrite Hv1, Hv2 in Ha. cbn [as_ss] in Ha.
    assert (E : vget (lower_names ps v1) f = vget (lower_names ps v2) f).
    { rewrite !vget_lower, (in_name_field ps (f, K_names compress) f Hin) by (cbn; apply String.eqb_refl).
      rewrite Hv1, Hv2. cbn. now rewrite Ha. }
    unfold pack_field. now rewrite E.
  - (* gateway *)
    apply andb_prop in Hs. destruct Hs as [Hs _]. apply andb_prop in Hs. destruct Hs as [_ Hs2]. apply negb_true_iff in Hs2.
    destruct Hc1 as [_ [a1 [h1 [Ha1 [Hh1 Hg1]]]]]. destruct Hc2 as [_ [a2 [h2 [Ha2 [Hh2 Hg2]]]]].
    destruct Ha as [Ety [Hip Hho]]. rewrite Ha1, Ha2 in Hip. rewrite Hh1, Hh2 in Hho. cbn [as_b as_s] in Hip, Hho.
    rewrite <- Ety in Hg2.
    pose proof (in_name_field ps (f, K_gateway tyf addrf hostf mask compress) hostf Hin) as Hnf.
    cbn in Hnf. rewrite String.eqb_refl in Hnf. specialize (Hnf eq_refl).
    unfold pack_field. rewrite !vget_n_lower, !vget_lower, Hs2, Hnf, Ha1, Ha2, Hh1, Hh2, <- Ety.
    cbn [option_map lower_val as_b as_s].
    set (ty := N.land (vget_n v1 tyf) mask) in *.
    destruct Hg1 as [[A1 [B1 ->]]|[[A1 [B1 ->]]|[[A1 [B1 _]]|[A1 [B1 [C1 [D1 ->]]]]]]];
      destruct Hg2 as [[A2 [B2 ->]]|[[A2 [B2 ->]]|[[A2 [B2 _]]|[A2 [B2 [C2 [D2 ->]]]]]]];
      unfold gw_v4, gw_v6, gw_host in *; try lia.
    + rewrite A1. cbn [N.eqb Pos.eqb]. specialize (Hip (or_introl A1)). rewrite !ip_norm_short in Hip by lia. now rewrite Hip.
    + rewrite A1. cbn [N.eqb Pos.eqb]. specialize (Hip (or_intror A1)). now rewrite (ip_norm_16_inj a1 a2 B1 B2 Hip).
    + rewrite A1. cbn [N.eqb Pos.eqb]. now rewrite (Hho A1).
    + replace (ty =? 1) with false by lia. replace (ty =? 2) with false by lia. replace (ty =? 3) with false by lia. reflexivity.
Qed.

Lemma pack_fields_agree ps v1 v2 cap : sep_ok ps = true ->
  forall qs st, (forall p, In p qs -> In p ps) ->
    fields_canon v1 qs -> fields_canon v2 qs -> (forall p, In p qs -> field_agree p v1 v2) ->
    pack_fields (lower_names ps v1) qs cap st = pack_fields (lower_names ps v2) qs cap st.
Proof.
  intros Hsep. unfold fields_canon. induction qs as [|[f k] qs IH]; intros st Hsub Hc1 Hc2 Ha; [reflexivity|].
  cbn [Dns.Model.Rdata.pack_fields].
  rewrite (pack_field_agree ps v1 v2 f k cap st); auto.
  - destruct (pack_field (lower_names ps v2) f k cap st) as [s| | |]; cbn [bind]; try reflexivity.
    apply IH; [intros p Hp; apply Hsub; now right|exact (Forall_inv_tail Hc1)|exact (Forall_inv_tail Hc2)|intros p Hp; apply Ha; now right].
  - apply Hsub. now left.
  - exact (Forall_inv Hc1).
  - exact (Forall_inv Hc2).
  - apply Ha. now left.
Qed.

(* ================================================================== *)
(* 4. equal octets: equal lower-cased values, hence agreeing fields     *)
(* ================================================================== *)
Lemma st0_inj' a b : st0 a = st0 b -> a = b.
Proof. intro H. injection H as H. exact H. Qed.

Lemma same_val_join z got w1 w2 :
  same_val z got w1 -> same_val z got w2 -> w1 <> None -> w2 <> None -> w1 = w2.
Proof. intros [A|[A A']] [B|[B B']] N1 N2; congruence. Qed.

(* both values are what unpack() reads back from the common octets *)
Lemma equal_octets_equal_values ps us w1 w2 cap b :
  sides_agree ps us = true -> layout_ok [] ps = true ->
  fields_canon w1 ps -> fields_canon w2 ps -> present ps w1 -> present ps w2 ->
  pack_fields w1 ps cap (st0 []) = Ok (st0 b) -> pack_fields w2 ps cap (st0 []) = Ok (st0 b) ->
  forall f k g, In (f, k) ps -> In g (knames f k) -> vget w1 g = vget w2 g.
Proof.
  intros Hs Hl C1 C2 P1 P2 K1 K2 f k g Hin Hg.
  destruct (fields_roundtrip_top w1 cap ps us [] [] (st0 b) Hs Hl C1 K1) as [b1 [g1 [E1 [U1 [_ S1]]]]].
  destruct (fields_roundtrip_top w2 cap ps us [] [] (st0 b) Hs Hl C2 K2) as [b2 [g2 [E2 [U2 [_ S2]]]]].
  apply st0_inj' in E1, E2. cbn [app] in E1, E2. subst b1 b2. rewrite U1 in U2. injection U2 as <-.
  unfold all_same, same_fields, present in *. rewrite Forall_forall in S1, S2, P1, P2.
  specialize (S1 _ Hin). specialize (S2 _ Hin). specialize (P1 _ Hin). specialize (P2 _ Hin). cbn [fst snd] in *.
  rewrite Forall_forall in S1, S2, P1, P2.
  exact (same_val_join _ _ _ _ (S1 g Hg) (S2 g Hg) (P1 g Hg) (P2 g Hg)).
Qed.

Lemma field_agree_of_values ps v1 v2 f k :
  In (f, k) ps -> sep_ok ps = true -> field_canon v1 f k -> field_canon v2 f k ->
  (forall f' k' g, In (f', k') ps -> In g (knames f' k') -> vget (lower_names ps v1) g = vget (lower_names ps v2) g) ->
  field_agree (f, k) v1 v2.
Proof.
  intros Hin Hsep Hc1 Hc2 Hv. unfold sep_ok in Hsep. rewrite forallb_forall in Hsep.
  pose proof (Hsep _ Hin) as Hs. unfold sep_field in Hs. cbn [fst snd] in Hs.
  unfold field_agree. cbn [fst snd].
  destruct k; cbn [field_canon] in Hc1, Hc2;
    try (apply negb_true_iff in Hs; pose proof (Hv _ _ f Hin (or_introl eq_refl)) as E; rewrite !vget_lower, Hs in E;
         rewrite E; first [reflexivity|apply apl_agree_refl]).
  - (* name *) pose proof (Hv _ _ f Hin (or_introl eq_refl)) as E.
    rewrite !vget_lower, (in_name_field ps (f, K_name compress) f Hin) in E by (cbn; apply String.eqb_refl).
    destruct Hc1 as [x1 [Hv1 [l1 [-> _]]]]. destruct Hc2 as [x2 [Hv2 [l2 [-> _]]]]. rewrite Hv1, Hv2 in *. cbn [option_map lower_val as_s as_ss] in E |- *. congruence.
  - (* opt *) discriminate.
  - (* names *) pose proof (Hv _ _ f Hin (or_introl eq_refl)) as E.
    rewrite !vget_lower, (in_name_field ps (f, K_names compress) f Hin) in E by (cbn; apply String.eqb_refl).
    destruct Hc1 as [x1 [Hv1 [l1 [-> _]]]]. destruct Hc2 as [x2 [Hv2 [l2 [-> _]]]]. rewrite Hv1, Hv2 in *. cbn [option_map lower_val as_s as_ss] in E |- *. congruence.
  - (* gateway *)
    apply andb_prop in Hs. destruct Hs as [Hs Hs3]. apply andb_prop in Hs. destruct Hs as [Hs1 Hs2].
    apply negb_true_iff in Hs1, Hs2. apply existsb_exists in Hs3. destruct Hs3 as [[tf tk] [Hq Hq']].
    cbn [fst snd] in Hq'. apply andb_prop in Hq'. destruct Hq' as [Hq1 Hq2]. apply String.eqb_eq in Hq1. subst tf.
    assert (Et : vget v1 tyf = vget v2 tyf).
    { assert (Hk : knames tyf tk = [tyf]) by (destruct tk; try discriminate Hq2; reflexivity).
      pose proof (Hv _ _ tyf Hq) as E. rewrite Hk in E. specialize (E (or_introl eq_refl)).
      now rewrite !vget_lower, Hs1 in E. }
    pose proof (Hv _ _ addrf Hin (or_introl eq_refl)) as Ea. rewrite !vget_lower, Hs2 in Ea.
    pose proof (Hv _ _ hostf Hin (or_intror (or_introl eq_refl))) as Eh.
    rewrite !vget_lower, (in_name_field ps (f, K_gateway tyf addrf hostf mask compress) hostf Hin) in Eh by (cbn; apply String.eqb_refl).
    destruct Hc1 as [_ [a1 [h1 [Ha1 [Hh1 _]]]]]. destruct Hc2 as [_ [a2 [h2 [Ha2 [Hh2 _]]]]].
    unfold gw_agree. unfold vget_n. rewrite Et, Ea. rewrite Hh1, Hh2 in *. cbn [option_map lower_val as_s as_b] in Eh |- *.
    repeat split; congruence.
Qed.

(* ================================================================== *)
(* 5. fields agree <-> the lower-cased RDATA octets are equal           *)
(* ================================================================== *)
Theorem fields_agree_iff_octets ps us v1 v2 cap ln1 ln2 :
  sides_agree ps us = true -> layout_ok [] ps = true -> sep_ok ps = true ->
  fields_canon v1 ps -> fields_canon v2 ps -> present ps v1 -> present ps v2 ->
  pack_fields (lower_names ps v1) ps cap (st0 []) = Ok (st0 ln1) ->
  pack_fields (lower_names ps v2) ps cap (st0 []) = Ok (st0 ln2) ->
  ((forall p, In p ps -> field_agree p v1 v2) <-> ln1 = ln2).
Proof.
  intros Hs Hl Hsep C1 C2 P1 P2 K1 K2. split.
  - intro Ha. rewrite (pack_fields_agree ps v1 v2 cap Hsep ps (st0 []) (fun p H => H) C1 C2 Ha) in K1.
    rewrite K1 in K2. injection K2 as E. exact E.
  - intros <- [f k] Hin.
    assert (F1 : field_canon v1 f k) by (unfold fields_canon in C1; rewrite Forall_forall in C1; exact (C1 _ Hin)).
    assert (F2 : field_canon v2 f k) by (unfold fields_canon in C2; rewrite Forall_forall in C2; exact (C2 _ Hin)).
    apply (field_agree_of_values ps v1 v2 f k Hin Hsep F1 F2).
    apply (equal_octets_equal_values ps us _ _ cap ln1 Hs Hl); auto using fields_canon_lower, present_lower.
Qed.

(* ---- packing the lower-cased value succeeds wherever packing the value does ---- *)
Lemma valid_labels_ok ls : valid_wire ls = true -> labels_ok ls = true.
Proof. unfold valid_wire. intro H. apply andb_prop in H. tauto. Qed.

Lemma lenN_wire_lower ls : valid_wire ls = true -> lenN (wire_name (map lower_bytes ls)) = lenN (wire_name ls).
Proof. intro H. rewrite <- lower_wire_name by now apply valid_labels_ok. apply lenN_lower. Qed.

Lemma lenN_wires_lower lss : Forall (fun ls => valid_wire ls = true) lss ->
  lenN (concat (map wire_name (map (map lower_bytes) lss))) = lenN (concat (map wire_name lss)).
Proof.
  induction 1 as [|ls lss Hls _ IH]; [reflexivity|]. cbn [map concat]. now rewrite !lenN_app, IH, lenN_wire_lower.
Qed.

Lemma pack_names_show_at lss c : forall cap out, Forall (fun ls => valid_wire ls = true) lss ->
  lenN out + lenN (concat (map wire_name lss)) + 320 <= cap ->
  pack_names (map show_name lss) cap c (st0 out) = Ok (st0 (out ++ concat (map wire_name lss))).
Proof.
  induction lss as [|ls lss IH]; intros cap out Hl Hr.
  - cbn. now rewrite app_nil_r.
  - cbn [map concat pack_names] in *. rewrite lenN_app in Hr.
    rewrite pack_show_at by (try exact (Forall_inv Hl); lia). cbn [bind].
    rewrite IH by (try exact (Forall_inv_tail Hl); rewrite lenN_app; lia). now rewrite <- app_assoc.
Qed.

Lemma pack_field_lower_ok ps v f k cap out st' :
  In (f, k) ps -> sep_ok ps = true -> field_canon v f k ->
  pack_field v f k cap (st0 out) = Ok st' ->
  exists b, st' = st0 (out ++ b) /\
    forall cap' out', lenN out' + lenN b + 320 <= cap' ->
      pack_field v f k cap' (st0 out') = Ok (st0 (out' ++ b)) /\
      exists b', lenN b' = lenN b /\ pack_field (lower_names ps v) f k cap' (st0 out') = Ok (st0 (out' ++ b')).
Proof.
  intros Hin Hsep Hc H. destruct (mv_field v f k Hc cap out st' H) as [b [-> Hb]].
  exists b. split; [reflexivity|]. intros cap' out' Hr. split; [now apply Hb|].
  unfold sep_ok in Hsep. rewrite forallb_forall in Hsep.
  pose proof (Hsep _ Hin) as Hs. unfold sep_field in Hs. cbn [fst snd] in Hs.
  destruct k; cbn [field_canon] in Hc;
    try (apply negb_true_iff in Hs; exists b; split; [reflexivity|];
         rewrite <- (Hb cap' out' Hr); unfold pack_field; now rewrite vget_lower, Hs).
  - (* name *) destruct Hc as [x [Hv [ls [-> Hls]]]].
    cbn [pack_field] in H. rewrite Hv in H. cbn [as_s] in H. apply pack_name_show in H; [|exact Hls].
    apply st0_inj', app_inv_head in H. subst b.
    exists (wire_name (map lower_bytes ls)). split; [now apply lenN_wire_lower|].
    cbn [pack_field]. rewrite vget_lower, (in_name_field ps (f, K_name compress) f Hin) by (cbn; apply String.eqb_refl).
    rewrite Hv. cbn [option_map lower_val as_s]. rewrite lower_show_name by exact Hls.
    apply pack_show_at; [now apply valid_wire_lower|lia].
  - (* opt *) discriminate.
  - (* names *) destruct Hc as [x [Hv [lss [-> Hl]]]].
    cbn [pack_field] in H. rewrite Hv in H. cbn [as_ss] in H. apply pack_names_show in H; [|exact Hl].
    apply st0_inj', app_inv_head in H. subst b. destruct (lower_show_names lss Hl) as [E1 E2].
    exists (concat (map wire_name (map (map lower_bytes) lss))). split; [now apply lenN_wires_lower|].
    cbn [pack_field]. rewrite vget_lower, (in_name_field ps (f, K_names compress) f Hin) by (cbn; apply String.eqb_refl).
    rewrite Hv. cbn [option_map lower_val as_ss]. rewrite E1.
    apply pack_names_show_at; [exact E2|rewrite lenN_wires_lower by exact Hl; exact Hr].
  - (* gateway *)
    apply andb_prop in Hs. destruct Hs as [Hs _]. apply andb_prop in Hs. destruct Hs as [_ Hs2]. apply negb_true_iff in Hs2.
    destruct Hc as [_ [a [h [Ha [Hh Hg]]]]].
    pose proof (in_name_field ps (f, K_gateway tyf addrf hostf mask compress) hostf Hin) as Hnf.
    cbn in Hnf. rewrite String.eqb_refl in Hnf. specialize (Hnf eq_refl).
    pose proof (Hb cap' out' Hr) as Hb'. cbn [pack_field] in H, Hb' |- *.
    rewrite vget_n_lower, !vget_lower, Hs2, Hnf, Ha, Hh. rewrite Ha, Hh in H, Hb'. cbn [option_map lower_val as_b as_s] in *.
    destruct (N.land (vget_n v tyf) mask =? gw_v4) eqn:E1; [exists b; split; [reflexivity|exact Hb']|].
    destruct (N.land (vget_n v tyf) mask =? gw_v6) eqn:E2; [exists b; split; [reflexivity|exact Hb']|].
    destruct (N.land (vget_n v tyf) mask =? gw_host) eqn:E3; [|exists b; split; [reflexivity|exact Hb']].
    unfold gw_v4, gw_v6, gw_host in *.
    destruct Hg as [[Ety _]|[[Ety _]|[[_ [_ [ls [-> Hls]]]]|[_ [_ [N3 _]]]]]]; unfold gw_v4, gw_v6, gw_host in *; try lia.
    apply pack_name_show in H; [|exact Hls]. apply st0_inj', app_inv_head in H. subst b.
    exists (wire_name (map lower_bytes ls)). split; [now apply lenN_wire_lower|].
    rewrite lower_show_name by exact Hls. apply pack_show_at; [now apply valid_wire_lower|lia].
Qed.

Lemma pack_fields_lower_ok ps v cap : sep_ok ps = true ->
  forall qs out st', (forall p, In p qs -> In p ps) -> fields_canon v qs ->
    pack_fields v qs cap (st0 out) = Ok st' ->
    exists rd, st' = st0 (out ++ rd) /\
      forall cap' out', lenN out' + lenN rd + 320 <= cap' ->
        pack_fields v qs cap' (st0 out') = Ok (st0 (out' ++ rd)) /\
        exists ln, lenN ln = lenN rd /\ pack_fields (lower_names ps v) qs cap' (st0 out') = Ok (st0 (out' ++ ln)).
Proof.
  intro Hsep. unfold fields_canon. induction qs as [|[f k] qs IH]; intros out st' Hsub Hc H.
  - cbn in H. injection H as <-. exists []. split; [now rewrite app_nil_r|].
    intros cap' out' _. cbn. rewrite app_nil_r. split; [reflexivity|]. exists []. split; [reflexivity|now rewrite app_nil_r].
  - cbn [Dns.Model.Rdata.pack_fields] in H. inv_bind H.
    destruct (pack_field_lower_ok ps v f k cap out a (Hsub _ (or_introl eq_refl)) Hsep (Forall_inv Hc) Ha) as [b1 [-> H1]].
    destruct (IH (out ++ b1) st' (fun p Hp => Hsub p (or_intror Hp)) (Forall_inv_tail Hc) H) as [b2 [-> H2]].
    exists (b1 ++ b2). split; [now rewrite <- app_assoc|].
    intros cap' out' Hr. rewrite lenN_app in Hr.
    destruct (H1 cap' out') as [K1 [b1' [L1 K1']]]; [lia|].
    destruct (H2 cap' (out' ++ b1)) as [K2 _]; [rewrite lenN_app; lia|].
    destruct (H2 cap' (out' ++ b1')) as [_ [b2' [L2 K2']]]; [rewrite lenN_app; lia|].
    cbn [Dns.Model.Rdata.pack_fields]. rewrite K1, K1'. cbn [bind]. rewrite K2, K2'. split; [now rewrite <- app_assoc|].
    exists (b1' ++ b2'). split; [rewrite !lenN_app; lia|now rewrite <- app_assoc].
Qed.

(* ================================================================== *)
(* 6. records                                                           *)
(* ================================================================== *)
(* packRR without compression: owner, TYPE, CLASS, TTL, RDLENGTH, then what pack()
   writes, which is at most 65535 octets *)
Lemma pack_rr_inv r L ls cap out st' :
  find_layout layouts (rr_kind r) = Some L -> rr_ok r ls -> fields_canon (rr_data r) (tl_pack L) ->
  lenN out < cap -> pack_rr r cap false (st0 out) = Ok st' ->
  exists hdr rd,
    pack_fields (rr_data r) (tl_pack L) cap (st0 hdr) = Ok (st0 (hdr ++ rd)) /\
    st' = st0 (out ++ rr_wire ls r rd) /\ lenN rd <= 65535.
Proof.
  intros Hfind [Hname [Hls [Ht [Hc [Httl Hkind]]]]] Hcanon Hcap Hp.
  unfold pack_rr in Hp. rewrite Hfind in Hp. inv_bind Hp.
  unfold pack_header in Ha. rewrite poff_st0 in Ha.
  replace (lenN out =? cap) with false in Ha by lia.
  inv_bind Ha. rewrite Hname in Ha0. apply pack_name_show in Ha0; [|exact Hls]. subst a0.
  inv_bind Ha. apply pack_fixed_ok in Ha0. subst a0.
  inv_bind Ha. apply pack_fixed_ok in Ha0. subst a0.
  inv_bind Ha. apply pack_fixed_ok in Ha0. subst a0.
  apply pack_fixed_ok in Ha. subst a.
  set (P := (((out ++ wire_name ls) ++ u16 (rr_type r)) ++ u16 (rr_class r)) ++ u32 (rr_ttl r)) in *.
  inv_bind Hp.
  destruct (mv_fields _ _ Hcanon _ _ _ Ha) as [rd [-> _]].
  exists (P ++ u16 0), rd. split; [exact Ha|].
  assert (E1 : lenN ((P ++ u16 0) ++ rd) - lenN (P ++ u16 0) = lenN rd) by (rewrite !lenN_app; lia).
  assert (E2 : lenN (P ++ u16 0) = lenN P + 2) by (rewrite lenN_app; reflexivity).
  unfold poff in Hp. cbn [st0 pn_out pn_cm] in Hp. rewrite E1, E2 in Hp.
  destruct (65535 <? lenN rd) eqn:Erd; [discriminate|].
  replace (lenN P + 2 <? 2) with false in Hp by lia.
  injection Hp as <-. split; [|lia].
  unfold st0. f_equal.
  replace (N.to_nat (lenN P + 2 - 2)) with (length P) by (unfold lenN; lia).
  replace (N.to_nat (lenN P + 2 - 1)) with (length (P ++ [lenN rd / 256]))
    by (rewrite app_length; unfold lenN; cbn [length]; lia).
  change (u16 0) with [0; 0]. rewrite <- app_assoc. cbn [app]. rewrite set_at_exact.
  replace (P ++ lenN rd / 256 :: 0 :: rd) with ((P ++ [lenN rd / 256]) ++ 0 :: rd)
    by (rewrite <- app_assoc; reflexivity).
  rewrite set_at_exact. unfold rr_wire, P. rewrite <- (u16_small (lenN rd)) by lia.
  rewrite <- !app_assoc. reflexivity.
Qed.

Lemma take_at_prefix_name msg off n ls ls' rest :
  valid_wire ls = true -> valid_wire ls' = true ->
  take_at msg off (lenN (wire_name ls)) = wire_name ls -> take_at msg off n = wire_name ls' ++ rest -> ls = ls'.
Proof.
  intros V V' E1 E2. unfold take_at, takeN in *. set (X := dropN off msg) in *.
  pose proof (firstn_skipn (N.to_nat (lenN (wire_name ls))) X) as S1. rewrite E1 in S1.
  pose proof (firstn_skipn (N.to_nat n) X) as S2. rewrite E2, <- app_assoc in S2.
  rewrite <- S2 in S1. now destruct (wire_name_inj _ _ _ _ V V' S1).
Qed.

(* ---- canonical wire octets give values that meet [values_ok] ---- *)
Lemma svcb_view_alpn_ok key data b l : svcb_view key data = Some (b, l) -> alpn_len_ok (key, b, l).
Proof.
  unfold alpn_len_ok, pkey, svcb_view. cbn [fst snd]. intros H E. subst key. cbn [N.eqb Pos.eqb] in H.
  destruct (alpn_scan (S (length data)) data) as [[|]|]; try discriminate. injection H as <- <-. reflexivity.
Qed.

Lemma unpack_svcb_go_alpn_ok fuel : forall msg off last acc l off',
  Forall alpn_len_ok acc -> unpack_svcb_go fuel msg off last acc = Ok (l, off') -> Forall alpn_len_ok l.
Proof.
  induction fuel as [|f IH]; intros msg off last acc l off' Ha H; [discriminate|].
  cbn [unpack_svcb_go] in H. destruct (off <? lenN msg).
  2:{ apply Ok_pair_inj in H. destruct H as [<- _]. exact Ha. }
  destruct (lenN msg <? off + 2); [discriminate|]. destruct (lenN msg <? off + 2 + 2); [discriminate|].
  destruct (lenN msg <? _); [discriminate|].
  destruct (svcb_view _ _) as [[b lb]|] eqn:Ev; [|discriminate]. destruct (_ <=? last)%Z; [discriminate|].
  eapply IH; [|exact H]. apply Forall_app. split; [exact Ha|]. constructor; [|constructor].
  eapply svcb_view_alpn_ok; exact Ev.
Qed.

Lemma fkind_apl_svcb k : (k = K_apl \/ k = K_svcb) \/ (k <> K_apl /\ k <> K_svcb).
Proof. destruct k; try (right; split; discriminate); left; auto. Qed.

Lemma value_ok_trivial k x : k <> K_apl -> k <> K_svcb -> value_ok k x.
Proof. intros A B. destruct k; try exact I; congruence. Qed.

Lemma unpack_field_value_ok got k k' msg off vals off' :
  kind_agree k k' = true -> unpack_field got k' msg off = Ok (vals, off') ->
  plain2 got k msg off off' vals -> Forall (value_ok k) vals.
Proof.
  intros Ha H Hp.
  destruct (fkind_apl_svcb k) as [[->| ->]|[N1 N2]].
  - exact Hp.
  - destruct k'; try discriminate Ha. cbn [unpack_field] in H. cbv zeta in H.
    destruct (unpack_svcb msg off) as [[l o]| | |] eqn:E; try discriminate H. cbn [bind fst snd] in H.
    apply Ok_pair_inj in H. destruct H as [<- _]. constructor; [|constructor]. cbn [value_ok].
    unfold unpack_svcb in E. eapply unpack_svcb_go_alpn_ok; [|exact E]. constructor.
  - apply Forall_forall. intros x _. now apply value_ok_trivial.
Qed.

Lemma unpack_fields_ext us : forall got msg off gotF off',
  unpack_fields us got msg off = Ok (gotF, off') -> exists ext, gotF = got ++ ext.
Proof.
  induction us as [|u us IH]; intros got msg off gotF off' H.
  - cbn in H. apply Ok_pair_inj in H. destruct H as [<- _]. exists []. now rewrite app_nil_r.
  - cbn [unpack_fields] in H. destruct (unpack_field got (uf_kind u) msg off) as [[vals o]| | |]; try discriminate H.
    cbn [bind fst snd] in H. destruct (uf_exit u && (o =? lenN msg)).
    + apply Ok_pair_inj in H. destruct H as [<- _]. eexists. reflexivity.
    + destruct (IH _ _ _ _ _ H) as [ext ->]. eexists. rewrite <- app_assoc. reflexivity.
Qed.

Lemma plain_values_ok ps : forall us seen got msg off gotF off',
  sides_agree ps us = true -> layout_ok seen ps = true -> keys_are seen got ->
  unpack_fields us got msg off = Ok (gotF, off') -> plain_fields2 ps us got msg off ->
  values_ok gotF ps.
Proof.
  unfold values_ok.
  induction ps as [|[f k] ps IH]; intros us seen got msg off gotF off' Hs Hl Hkeys Hun Hplain; [constructor|].
  destruct us as [|u us]; [discriminate|]. cbn [sides_agree] in Hs.
  apply andb_prop in Hs. destruct Hs as [Hs Hs']. apply andb_prop in Hs. destruct Hs as [Hname Hk].
  apply String.eqb_eq in Hname.
  cbn [layout_ok] in Hl. apply andb_prop in Hl. destruct Hl as [Hl Hl'].
  apply andb_prop in Hl. destruct Hl as [Hl Hlast]. apply andb_prop in Hl. destruct Hl as [Hl Hsz].
  apply andb_prop in Hl. destruct Hl as [Hfresh Hdist].
  set (names := knames f k) in *.
  assert (Hnf : forall g, In g names -> ~ In g seen).
  { intros g Hg. rewrite forallb_forall in Hfresh. specialize (Hfresh g Hg).
    apply existsb_eqb_notin. now destruct (existsb _ seen). }
  assert (Hnd : NoDup names) by (apply names_distinct_nodup, Hdist).
  cbn [unpack_fields] in Hun. cbn [plain_fields2] in Hplain.
  destruct (unpack_field got (uf_kind u) msg off) as [[vals o]| | |] eqn:Eu; try contradiction.
  destruct Hplain as [Hpl Hplain]. cbn [bind fst snd] in Hun.
  rewrite (assigned_knames u f k Hk Hname) in Hun, Hplain. fold names in Hun, Hplain.
  pose proof (unpack_field_arity got k (uf_kind u) msg off vals o f Hk Eu) as Har. fold names in Har.
  pose proof (unpack_field_value_ok got k (uf_kind u) msg off vals o Hk Eu Hpl) as Hvo.
  set (got' := got ++ combine names vals) in *.
  assert (Hsub : forall g, In g names -> vget got g = None).
  { intros g Hg. destruct (vget got g) eqn:Eg; [|reflexivity]. exfalso. apply (Hnf g Hg), Hkeys. congruence. }
  assert (Hhead : forall ext x, vget (got' ++ ext) f = Some x -> value_ok k x).
  { intros ext x Hx. destruct (fkind_apl_svcb k) as [Hk2|[N1 N2]]; [|now apply value_ok_trivial].
    assert (En : names = [f]) by (unfold names; destruct Hk2 as [-> | ->]; reflexivity).
    rewrite En in *. destruct vals as [|x0 [|? ?]]; try discriminate Har.
    assert (E : vget (got' ++ ext) f = Some x0).
    { unfold got'. rewrite En. cbn [combine]. rewrite !vget_app, (Hsub f (or_introl eq_refl)). cbn. now rewrite String.eqb_refl. }
    rewrite E in Hx. injection Hx as <-. exact (Forall_inv Hvo). }
  destruct (uf_exit u && (o =? lenN msg)) eqn:Hex.
  - apply Ok_pair_inj in Hun. destruct Hun as [<- _].
    constructor; [cbn [fst snd]; intros x Hx; apply (Hhead [] x); now rewrite app_nil_r|].
    (* the remaining fields are absent *)
    apply Forall_forall. intros [f' k'] Hin x Hx. cbn [fst snd] in *.
    destruct (fkind_apl_svcb k') as [Hk2|[N1 N2]]; [|now apply value_ok_trivial].
    exfalso.
    assert (Hk' : keys_are (names ++ seen) got').
    { intro g. unfold got'. rewrite vget_app, in_app_iff. split.
      - intros [Hg|Hg].
        + rewrite (Hsub g Hg). exact (forall2_in_some _ _ _ g (vget_combine names vals Hnd Har) Hg).
        + apply Hkeys in Hg. destruct (vget got g); congruence.
      - destruct (vget got g) eqn:Eg; [intros _; right; apply Hkeys; congruence|].
        intro Hc. left. apply vget_some_in, combine_keys in Hc. exact Hc. }
    apply (layout_ok_fresh _ _ f' k' f' Hl' Hin); [destruct Hk2 as [-> | ->]; now left|]. apply Hk'. congruence.
  - destruct (unpack_fields_ext _ _ _ _ _ _ Hun) as [ext ->].
    constructor; [cbn [fst snd]; intros x Hx; exact (Hhead ext x Hx)|].
    apply (IH us (names ++ seen) got' msg o (got' ++ ext) off' Hs' Hl'); [|exact Hun|exact Hplain].
    intro g. unfold got'. rewrite vget_app, in_app_iff. split.
    + intros [Hg|Hg].
      * rewrite (Hsub g Hg). exact (forall2_in_some _ _ _ g (vget_combine names vals Hnd Har) Hg).
      * apply Hkeys in Hg. destruct (vget got g); congruence.
    + destruct (vget got g) eqn:Eg; [intros _; right; apply Hkeys; congruence|].
      intro Hc. left. apply vget_some_in, combine_keys in Hc. exact Hc.
Qed.

(* UnpackRR with a non-empty RDATA: the owner name, ten octets, then unpack() of
   the record type on the message cut at the end of the RDATA *)
Lemma unpack_rr_fields msg off r off' L :
  unpack_rr msg off = Ok (r, off') -> find_layout layouts (rr_kind r) = Some L -> rr_rdlength r <> 0 ->
  exists nm o1, unpack_name msg off = Ok (nm, o1) /\
    unpack_fields (tl_unpack L) [] (takeN off' msg) (o1 + 10) = Ok (rr_data r, off').
Proof.
  intros H Hfind Hrdl.
  unfold unpack_rr in H. inv_bind H. destruct a as [[hd off1] tmsg].
  unfold unpack_rr_header in Ha.
  destruct (off =? lenN msg) eqn:E0.
  { apply Ok_pair_inj in Ha. destruct Ha as [Ha <-].
    assert (Ea1 : hd = fst (hd, off1)) by reflexivity. rewrite <- Ha in Ea1. cbn [fst] in Ea1. subst hd.
    unfold unpack_rr_with_header in H. cbn [h_rdlength h_type h_name h_class h_ttl] in H.
    destruct (lenN msg <? off1); [discriminate|]. destruct (lenN msg <? off1 + 0); [discriminate|].
    cbn [N.eqb] in H. apply Ok_pair_inj in H. destruct H as [<- _]. cbn in Hrdl. congruence. }
  destruct (unpack_name msg off) as [[nm o1]| | |] eqn:En; try discriminate. cbn [bind fst snd] in Ha.
  destruct (unpack_fixed 2 msg o1) as [[T o2]| | |] eqn:E1; try discriminate. cbn [bind fst snd] in Ha.
  destruct (unpack_fixed 2 msg o2) as [[C o3]| | |] eqn:E2; try discriminate. cbn [bind fst snd] in Ha.
  destruct (unpack_fixed 4 msg o3) as [[TT o4]| | |] eqn:E3; try discriminate. cbn [bind fst snd] in Ha.
  destruct (unpack_fixed 2 msg o4) as [[RL o5]| | |] eqn:E4; try discriminate. cbn [bind fst snd] in Ha.
  destruct (lenN msg <? o5 + be RL 0) eqn:E5; [discriminate|].
  apply Ok_pair_inj in Ha. destruct Ha as [Ha <-].
  assert (Ea1 : hd = fst (hd, off1)) by reflexivity. assert (Ea2 : off1 = snd (hd, off1)) by reflexivity.
  rewrite <- Ha in Ea1, Ea2. cbn [fst snd] in Ea1, Ea2. subst hd off1. clear Ha.
  apply unpack_fixed_inv in E1, E2, E3, E4.
  destruct E1 as [R1 [-> ->]]. destruct E2 as [R2 [-> ->]]. destruct E3 as [R3 [-> ->]]. destruct E4 as [R4 [-> ->]].
  set (rdl := be (take_at msg (o1 + 2 + 2 + 4) 2) 0) in *. set (o5 := o1 + 2 + 2 + 4 + 2) in *.
  unfold unpack_rr_with_header in H. cbn [h_type h_name h_class h_ttl h_rdlength] in H.
  set (tmsg := takeN (o5 + rdl) msg) in *.
  destruct (lenN tmsg <? o5); [discriminate|]. destruct (lenN tmsg <? o5 + rdl); [discriminate|].
  destruct (rdl =? 0) eqn:Er0.
  { apply Ok_pair_inj in H. destruct H as [<- _]. cbn [rr_rdlength] in Hrdl. lia. }
  destruct (find_layout layouts (kind_of_type (be (take_at msg o1 2) 0))) as [L'|] eqn:EL; [|discriminate].
  inv_bind H. destruct a as [gotF e]. cbn [fst snd] in H.
  destruct (e =? o5 + rdl) eqn:Ee; [|discriminate]. apply Ok_pair_inj in H. destruct H as [<- <-].
  cbn [rr_kind rr_data] in *. rewrite EL in Hfind. apply Some_inj in Hfind. subst L'.
  exists nm, o1. split; [reflexivity|].
  assert (e = o5 + rdl) by lia. subst e. replace (o1 + 10) with o5 by (unfold o5; lia). exact Ha.
Qed.

Lemma wire_values_ok msg off r off' L ls :
  unpack_rr msg off = Ok (r, off') -> find_layout layouts (rr_kind r) = Some L -> rr_rdlength r <> 0 ->
  valid_wire ls = true -> off + lenN (wire_name ls) <= lenN msg ->
  take_at msg off (lenN (wire_name ls)) = wire_name ls ->
  plain_fields2 (tl_pack L) (tl_unpack L) [] (takeN off' msg) (off + lenN (wire_name ls) + 10) ->
  values_ok (rr_data r) (tl_pack L).
Proof.
  intros Hu Hfind Hrdl Hls Hwl Ewire Hplain.
  destruct (unpack_rr_fields msg off r off' L Hu Hfind Hrdl) as [nm [o1 [Hn Hf]]].
  assert (Hun : unpack_name msg off = Ok (show_name ls, off + lenN (wire_name ls))).
  { assert (Emsg : msg = takeN off msg ++ wire_name ls ++ dropN (off + lenN (wire_name ls)) msg).
    { rewrite <- Ewire at 1. rewrite app_assoc, <- takeN_split by lia. symmetry. apply firstn_skipn. }
    set (pre := takeN off msg) in *. set (post := dropN (off + lenN (wire_name ls)) msg) in *.
    assert (Eoff : lenN pre = off) by (apply lenN_takeN'; lia).
    rewrite Emsg, <- Eoff. apply unpack_name_exact, Hls. }
  rewrite Hun in Hn. apply Ok_pair_inj in Hn. destruct Hn as [_ <-].
  eapply (plain_values_ok (tl_pack L) (tl_unpack L) [] []); [eapply sides_agree_of; eauto|eapply layout_ok_of; eauto| |exact Hf|exact Hplain].
  intro g. cbn. split; [intros []|congruence].
Qed.

(* one record from the wire, under the conditions of C01's record_converse: its
   octets are owner, TYPE, CLASS, TTL, RDLENGTH, rd, where rd is what pack()
   writes for the decoded RDATA anywhere (no compression), and the decoded RDATA
   with its names lower-cased is packed as well, to as many octets *)
Lemma wire_record_octets msg off r off' L ls cap :
  wfb msg -> unpack_rr msg off = Ok (r, off') ->
  find_layout layouts (rr_kind r) = Some L -> rr_kind r <> "OPT"%string ->
  rr_rdlength r <> 0 ->
  valid_wire ls = true -> off + lenN (wire_name ls) <= lenN msg ->
  take_at msg off (lenN (wire_name ls)) = wire_name ls ->
  plain_fields2 (tl_pack L) (tl_unpack L) [] (takeN off' msg) (off + lenN (wire_name ls) + 10) ->
  present (tl_pack L) (rr_data r) ->
  65855 <= cap ->
  rr_ok r ls /\ fields_canon (rr_data r) (tl_pack L) /\ sep_ok (tl_pack L) = true /\
  exists rd ln,
    take_at msg off (off' - off) = rr_wire ls r rd /\
    pack_fields (rr_data r) (tl_pack L) cap (st0 []) = Ok (st0 rd) /\
    lenN ln = lenN rd /\
    pack_fields (lower_names (tl_pack L) (rr_data r)) (tl_pack L) cap (st0 []) = Ok (st0 ln).
Proof.
  intros Hw Hu Hfind Hopt Hrdl Hls Hwl Ewire Hplain Hpres Hcap.
  pose proof (wire_values_ok msg off r off' L ls Hu Hfind Hrdl Hls Hwl Ewire Hplain) as Hvals.
  destruct (unpack_rr_canon msg off r off' L Hw Hu Hfind Hrdl Hpres Hvals) as [ls' [Hok Hcanon]].
  pose proof (wire_name_len_pos ls) as Hpos.
  assert (Hlo : lenN (takeN off msg) = off) by (apply lenN_takeN'; lia).
  destruct (rr_converse_all msg off r off' L ls (lenN msg + 320) (takeN off msg) Hw Hu Hfind Hrdl Hls Hwl Ewire Hplain Hpres)
    as [Hrange Hpack]; [lia|exact Hlo|].
  destruct (pack_rr_inv r L ls' (lenN msg + 320) (takeN off msg) (st0 (takeN off msg ++ take_at msg off (off' - off))) Hfind Hok Hcanon) as [hdr [rd [Hpf [Est Hrd]]]];
    [lia|exact Hpack|].
  apply st0_inj', app_inv_head in Est.
  assert (Els : ls = ls').
  { destruct Hok as [_ [Hls' _]]. unfold rr_wire in Est. eapply take_at_prefix_name; eauto. }
  subst ls'.
  assert (Hsep : sep_ok (tl_pack L) = true).
  { apply find_layout_in in Hfind. destruct Hfind as [Hin Hn].
    pose proof layouts_sep_ok as T. rewrite forallb_forall in T. specialize (T L Hin).
    apply orb_prop in T. destruct T as [T|T]; [|exact T]. apply String.eqb_eq in T. congruence. }
  split; [exact Hok|]. split; [exact Hcanon|]. split; [exact Hsep|].
  destruct (pack_fields_lower_ok (tl_pack L) (rr_data r) (lenN msg + 320) Hsep (tl_pack L) hdr _ (fun p H => H) Hcanon Hpf)
    as [rd' [Erd Hmv]].
  apply st0_inj', app_inv_head in Erd. subst rd'.
  destruct (Hmv cap []) as [K1 [ln [Ll K2]]]; [rewrite lenN_nil; lia|].
  exists rd, ln. cbn [app] in K1, K2. auto.
Qed.

(* the wire clause of C20 *)
Theorem wire_duplicate_iff_octets m1 o1 r1 o1' L1 ls1 m2 o2 r2 o2' L2 ls2 cap :
  wfb m1 -> unpack_rr m1 o1 = Ok (r1, o1') ->
  find_layout layouts (rr_kind r1) = Some L1 -> rr_kind r1 <> "OPT"%string -> rr_rdlength r1 <> 0 ->
  valid_wire ls1 = true -> o1 + lenN (wire_name ls1) <= lenN m1 ->
  take_at m1 o1 (lenN (wire_name ls1)) = wire_name ls1 ->
  plain_fields2 (tl_pack L1) (tl_unpack L1) [] (takeN o1' m1) (o1 + lenN (wire_name ls1) + 10) ->
  present (tl_pack L1) (rr_data r1) ->
  wfb m2 -> unpack_rr m2 o2 = Ok (r2, o2') ->
  find_layout layouts (rr_kind r2) = Some L2 -> rr_kind r2 <> "OPT"%string -> rr_rdlength r2 <> 0 ->
  valid_wire ls2 = true -> o2 + lenN (wire_name ls2) <= lenN m2 ->
  take_at m2 o2 (lenN (wire_name ls2)) = wire_name ls2 ->
  plain_fields2 (tl_pack L2) (tl_unpack L2) [] (takeN o2' m2) (o2 + lenN (wire_name ls2) + 10) ->
  present (tl_pack L2) (rr_data r2) ->
  65855 <= cap ->
  exists rd1 ln1 rd2 ln2,
    (take_at m1 o1 (o1' - o1) = rr_wire ls1 r1 rd1 /\
     pack_fields (rr_data r1) (tl_pack L1) cap (st0 []) = Ok (st0 rd1) /\
     pack_fields (lower_names (tl_pack L1) (rr_data r1)) (tl_pack L1) cap (st0 []) = Ok (st0 ln1) /\
     lenN ln1 = lenN rd1) /\
    (take_at m2 o2 (o2' - o2) = rr_wire ls2 r2 rd2 /\
     pack_fields (rr_data r2) (tl_pack L2) cap (st0 []) = Ok (st0 rd2) /\
     pack_fields (lower_names (tl_pack L2) (rr_data r2)) (tl_pack L2) cap (st0 []) = Ok (st0 ln2) /\
     lenN ln2 = lenN rd2) /\
    (is_duplicate r1 r2 = Ok true <->
     rr_type r1 = rr_type r2 /\ rr_class r1 = rr_class r2 /\
     lower_bytes (wire_name ls1) = lower_bytes (wire_name ls2) /\ ln1 = ln2).
Proof.
  intros W1 U1 F1 O1 R1 V1 B1 T1 PL1 PR1 W2 U2 F2 O2 R2 V2 B2 T2 PL2 PR2 Hcap.
  destruct (wire_record_octets m1 o1 r1 o1' L1 ls1 cap W1 U1 F1 O1 R1 V1 B1 T1 PL1 PR1 Hcap)
    as [K1 [C1 [S1 [rd1 [ln1 [X1 [Y1 [Q1 Z1]]]]]]]].
  destruct (wire_record_octets m2 o2 r2 o2' L2 ls2 cap W2 U2 F2 O2 R2 V2 B2 T2 PL2 PR2 Hcap)
    as [K2 [C2 [S2 [rd2 [ln2 [X2 [Y2 [Q2 Z2]]]]]]]].
  exists rd1, ln1, rd2, ln2. split; [auto|]. split; [auto|].
  destruct K1 as [N1 [_ [_ [_ [_ Kd1]]]]]. destruct K2 as [N2 [_ [_ [_ [_ Kd2]]]]].
  assert (Hname : lower_bytes (rr_name r1) = lower_bytes (rr_name r2) <->
                  lower_bytes (wire_name ls1) = lower_bytes (wire_name ls2)).
  { rewrite N1, N2, <- name_eq_ci_iff. now apply name_eq_ci_wire. }
  rewrite (unpacked_rr_duplicate_iff m1 o1 r1 o1' m2 o2 r2 o2' L1 U1 U2 O1 F1), Hname.
  split.
  - intros [Ec [Et [Ek [En Ha]]]]. rewrite <- Ek, F1 in F2. injection F2 as <-.
    repeat split; auto.
    apply (fields_agree_iff_octets (tl_pack L1) (tl_unpack L1) (rr_data r1) (rr_data r2) cap ln1 ln2); auto.
    + eapply sides_agree_of; eauto.
    + eapply layout_ok_of; eauto.
  - intros [Et [Ec [En El]]].
    assert (Ek : rr_kind r1 = rr_kind r2) by (rewrite Kd1, Kd2, Et; reflexivity).
    rewrite <- Ek, F1 in F2. injection F2 as <-.
    repeat split; auto.
    apply (fields_agree_iff_octets (tl_pack L1) (tl_unpack L1) (rr_data r1) (rr_data r2) cap ln1 ln2); auto.
    + eapply sides_agree_of; eauto.
    + eapply layout_ok_of; eauto.
Qed.

(* ================================================================== *)
(* 7. where the clause fails: accepted octets outside the conditions    *)
(* ================================================================== *)
(* a record a. 60 IN TYPE t with RDATA rd, alone in its message *)
Definition rrw (t : N) (rd : bytes) : bytes := [1; 97; 0] ++ u16 t ++ [0; 1] ++ [0; 0; 0; 60] ++ u16 (lenN rd) ++ rd.
(* both RDATA are accepted by UnpackRR (consuming the whole input) as records of
   Go type k, and IsDuplicate answers b in both directions *)
Definition wire_verdict (t : N) (k : string) (rd1 rd2 : bytes) (b : bool) : Prop :=
  match unpack_rr (rrw t rd1) 0, unpack_rr (rrw t rd2) 0 with
  | Ok (r1, o1), Ok (r2, o2) =>
    rr_kind r1 = k /\ rr_kind r2 = k /\ o1 = lenN (rrw t rd1) /\ o2 = lenN (rrw t rd2) /\
    is_duplicate r1 r2 = Ok b /\ is_duplicate r2 r1 = Ok b
  | _, _ => False
  end.

(* NSEC, next name root: bitmap block 00 01 60 against 00 02 60 00 (trailing zero octet) *)
Lemma trailing_zero_bitmap_witness :
  wire_verdict 47 "NSEC" [0; 0; 1; 96] [0; 0; 2; 96; 0] true /\ ([0; 0; 1; 96] : bytes) <> [0; 0; 2; 96; 0].
Proof. split; [vm_compute; repeat split|discriminate]. Qed.

(* NSEC, next name root, no bitmap at all against an empty block 00 01 00 *)
Lemma empty_bitmap_block_witness :
  wire_verdict 47 "NSEC" [0] [0; 0; 1; 0] true /\ ([0] : bytes) <> [0; 0; 1; 0].
Proof. split; [vm_compute; repeat split|discriminate]. Qed.

(* SVCB 1 . mandatory=port,alpn alpn=h2 port=443 against mandatory=alpn,port: the
   mandatory list is compared (and packed) sorted *)
Definition svcb_rest : bytes := [0; 1; 0; 3; 2; 104; 50; 0; 3; 0; 2; 1; 187].
Lemma svcb_mandatory_order_witness :
  wire_verdict 64 "SVCB" ([0; 1; 0; 0; 0; 0; 4; 0; 3; 0; 1] ++ svcb_rest) ([0; 1; 0; 0; 0; 0; 4; 0; 1; 0; 3] ++ svcb_rest) true /\
  [0; 1; 0; 0; 0; 0; 4; 0; 3; 0; 1] ++ svcb_rest <> [0; 1; 0; 0; 0; 0; 4; 0; 1; 0; 3] ++ svcb_rest.
Proof. split; [vm_compute; repeat split|discriminate]. Qed.

(* CAA with RDLENGTH 0 against CAA with RDATA 00 (Flag 0): no RDATA fields at all
   against one zero field *)
Lemma empty_rdata_witness :
  wire_verdict 257 "CAA" [] [0] true /\ ([] : bytes) <> [0].
Proof. split; [vm_compute; repeat split|discriminate]. Qed.

(* OPT: the same octets twice are not duplicates (isDuplicate of OPT is return false) *)
Lemma opt_same_octets_witness : wire_verdict 41 "OPT" [0; 10; 0; 2; 1; 2] [0; 10; 0; 2; 1; 2] false.
Proof. vm_compute. repeat split. Qed.

(* APL 1:10.1.1.1/8 against 1:10.0.0.0/8: not duplicates and the wire octets differ
   (the clause holds on the wire octets), but pack() masks the address: the
   re-packed octets are equal.  So [values_ok] cannot be dropped from a statement
   about re-packed octets. *)
Lemma apl_unmasked_repack_witness :
  wire_verdict 42 "APL" [0; 1; 8; 4; 10; 1; 1; 1] [0; 1; 8; 1; 10] false /\
  match unpack_rr (rrw 42 [0; 1; 8; 4; 10; 1; 1; 1]) 0, unpack_rr (rrw 42 [0; 1; 8; 1; 10]) 0 with
  | Ok (r1, _), Ok (r2, _) =>
    pack_fields (rr_data r1) [("Prefixes"%string, K_apl)] 70000 (st0 []) = Ok (st0 [0; 1; 8; 1; 10]) /\
    pack_fields (rr_data r2) [("Prefixes"%string, K_apl)] 70000 (st0 []) = Ok (st0 [0; 1; 8; 1; 10])
  | _, _ => False
  end.
Proof. vm_compute. repeat split. Qed.

(* ================================================================== *)
(* 8. non-vacuity: MX records on the wire                               *)
(* ================================================================== *)
(* all the hypotheses the main theorem makes about one record *)
Definition wire_hyps (w : bytes) (o : N) (r : rr) (o' : N) (L : tlayout) (ls : list label) : Prop :=
  wfb w /\ unpack_rr w o = Ok (r, o') /\
  find_layout layouts (rr_kind r) = Some L /\ rr_kind r <> "OPT"%string /\ rr_rdlength r <> 0 /\
  valid_wire ls = true /\ o + lenN (wire_name ls) <= lenN w /\
  take_at w o (lenN (wire_name ls)) = wire_name ls /\
  plain_fields2 (tl_pack L) (tl_unpack L) [] (takeN o' w) (o + lenN (wire_name ls) + 10) /\
  present (tl_pack L) (rr_data r).

(* a. 300 IN MX 10 b.  /  A. 60 IN MX 10 B.  /  a. 60 IN MX 11 b. *)
Definition mxw_1 : bytes := [1;97;0; 0;15; 0;1; 0;0;1;44; 0;5; 0;10; 1;98;0].
Definition mxw_2 : bytes := [1;65;0; 0;15; 0;1; 0;0;0;60; 0;5; 0;10; 1;66;0].
Definition mxw_3 : bytes := [1;97;0; 0;15; 0;1; 0;0;0;60; 0;5; 0;11; 1;98;0].

Ltac mx_hyps l :=
  unfold wire_hyps;
  split; [unfold wfb; vm_compute; repeat constructor|];
  split; [vm_compute; reflexivity|]; split; [vm_compute; reflexivity|];
  split; [vm_compute; discriminate|]; split; [vm_compute; discriminate|];
  split; [vm_compute; reflexivity|]; split; [vm_compute; discriminate|]; split; [vm_compute; reflexivity|];
  split; [ex_plain; exists l; split; reflexivity|solve [ex_plain]].

Lemma mx_wire_hyps :
  exists r1 r2 r3 L,
    wire_hyps mxw_1 0 r1 18 L [[97]] /\ wire_hyps mxw_2 0 r2 18 L [[65]] /\ wire_hyps mxw_3 0 r3 18 L [[97]] /\
    tl_pack L = [("Preference"%string, K_u16); ("Mx"%string, K_name true)] /\
    is_duplicate r1 r2 = Ok true /\ is_duplicate r1 r3 = Ok false /\
    pack_fields (lower_names (tl_pack L) (rr_data r1)) (tl_pack L) 70000 (st0 []) = Ok (st0 [0; 10; 1; 98; 0]) /\
    pack_fields (lower_names (tl_pack L) (rr_data r2)) (tl_pack L) 70000 (st0 []) = Ok (st0 [0; 10; 1; 98; 0]) /\
    pack_fields (rr_data r2) (tl_pack L) 70000 (st0 []) = Ok (st0 [0; 10; 1; 66; 0]) /\
    pack_fields (lower_names (tl_pack L) (rr_data r3)) (tl_pack L) 70000 (st0 []) = Ok (st0 [0; 11; 1; 98; 0]).
Proof.
  do 4 eexists.
  split; [mx_hyps [[98]]|]. split; [mx_hyps [[66]]|]. split; [mx_hyps [[98]]|].
  vm_compute. repeat split.
Qed.

(* ================================================================== *)
(* 9. packaged statements for Props/C20.v                               *)
(* ================================================================== *)
(* [packs_to ps v cap b]: the generated pack() of the layout ps, run on the RDATA
   value v in an empty buffer of cap octets without compression map, writes
   exactly the octets b *)
Definition packs_to (ps : list pfield) (v : rdata) (cap : N) (b : bytes) : Prop :=
  pack_fields v ps cap (st0 []) = Ok (st0 b).

Lemma packed_octets_position_free v ps cap out st' :
  fields_canon v ps -> pack_fields v ps cap (st0 out) = Ok st' ->
  exists b, st' = st0 (out ++ b) /\
    forall cap' out', lenN out' + lenN b + 320 <= cap' -> pack_fields v ps cap' (st0 out') = Ok (st0 (out' ++ b)).
Proof. intros Hc H. exact (mv_fields v ps Hc cap out st' H). Qed.

Lemma lower_names_no_name_field ps v : (forall g, is_name_field ps g = false) -> lower_names ps v = v.
Proof.
  intro H. unfold lower_names. rewrite <- (map_id v) at 2. apply map_ext. intros [g x]. cbn [fst snd]. now rewrite H.
Qed.

Lemma mx_values_hyps :
  let ps := [("Preference"%string, K_u16); ("Mx"%string, K_name true)] in
  let us := [{| uf_name := "Preference"; uf_kind := K_u16; uf_exit := true |}; {| uf_name := "Mx"; uf_kind := K_name true; uf_exit := false |}] in
  let v1 := [("Preference"%string, V_n 10); ("Mx"%string, V_s [98; 46])] in
  let v2 := [("Preference"%string, V_n 10); ("Mx"%string, V_s [66; 46])] in
  sides_agree ps us = true /\ layout_ok [] ps = true /\ sep_ok ps = true /\
  fields_canon v1 ps /\ fields_canon v2 ps /\ present ps v1 /\ present ps v2 /\
  packs_to ps (lower_names ps v1) 100 [0; 10; 1; 98; 0] /\ packs_to ps (lower_names ps v2) 100 [0; 10; 1; 98; 0].
Proof.
  cbv zeta. split; [vm_compute; reflexivity|]. split; [vm_compute; reflexivity|]. split; [vm_compute; reflexivity|].
  split.
  { constructor; [exists (V_n 10); split; [reflexivity|exists 10; split; [reflexivity|lia]]|].
    constructor; [|constructor]. exists (V_s [98; 46]). split; [reflexivity|]. exists [[98]]. split; reflexivity. }
  split.
  { constructor; [exists (V_n 10); split; [reflexivity|exists 10; split; [reflexivity|lia]]|].
    constructor; [|constructor]. exists (V_s [66; 46]). split; [reflexivity|]. exists [[66]]. split; reflexivity. }
  split; [repeat constructor; discriminate|]. split; [repeat constructor; discriminate|].
  split; vm_compute; reflexivity.
Qed.
