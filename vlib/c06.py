from .core import Check


class C06(Check):
    prop = "C06"
    props_rel = "Props/C06"
    corr_module = "Corr.C06"
    corr_rel = "Corr/C06"
    model_desc = ("Model/ZoneSpec.v: abstract zones (records with owner/TTL/class omitted or given in either order, "
                  "$ORIGIN, $TTL), denote as a fold over (origin, previous owner, $TTL value, last stated TTL, configured "
                  "default), name completion, TTL unit arithmetic, token skeletons; parser and lexer models shared with "
                  "C07 (Model/Lexer.v, Model/Zone.v)")
    rule = ""
    partial = []
    trusted = []
    shard_size = 250

    def nontrivial(self, c):
        a = c.get("args") or [""]
        return len(a[-1 if c.get("fn") == "denote" else 0]) > 4


CHECK = C06()
