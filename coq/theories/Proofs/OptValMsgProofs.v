(* Proofs/OptValMsgProofs.v — C08 at message level with EDNS0 options / SVCB
   parameters given as Go struct VALUES (Model/OptVal.v): a message whose records
   each satisfy rr_okb (rr_okb2) or are opt_record / svcb_record of values whose
   pack() succeeds satisfies msg_okb (msg_okb2); hence Msg.Len() >= |Pack()| with
   no hypothesis about options. *)
From Coq Require Import Lia ZifyN ZifyNat ZifyBool.
From Dns Require Import Gen.Layouts Gen.Lens.
From Dns Require Import Model.OptVal Proofs.LenFieldProofs Proofs.LenRRProofs Proofs.LenMsgProofs
  Proofs.LenCompressMsgProofs Proofs.OptValProofs.
Open Scope list_scope.
Open Scope N_scope.

(* a record of option / parameter values whose pack() succeeds *)
Definition valued (r : rr) : Prop :=
  (exists h vs ts, opt_triples vs = Ok ts /\ r = opt_record h ts) \/
  (exists h p t vs ts, svcb_triples vs = Ok ts /\ r = svcb_record h p t ts).
Definition msg_rrs (m : msg) : list rr := m_answer m ++ m_ns m ++ m_extra m.

Lemma kind_ok2_opt : kind_ok2 "OPT" = true.
Proof. vm_compute. reflexivity. Qed.
Lemma kind_ok2_svcb : kind_ok2 "SVCB" = true.
Proof. vm_compute. reflexivity. Qed.

Lemma valued_okb r : valued r -> rr_okb r = true.
Proof.
  intros [(h & vs & ts & H & ->)|(h & p & t & vs & ts & H & ->)];
    [exact (opt_record_okb h vs ts H)|exact (svcb_record_okb h p t vs ts H)].
Qed.
Lemma valued_okb2 r : valued r -> rr_okb2 r = true.
Proof.
  intro Hv. pose proof (valued_okb r Hv) as H. unfold rr_okb in H. apply andb_prop in H. destruct H as [_ H].
  unfold rr_okb2. rewrite H, andb_true_r.
  destruct Hv as [(h & vs & ts & _ & ->)|(h & p & t & vs & ts & _ & ->)];
    [exact kind_ok2_opt|exact kind_ok2_svcb].
Qed.

Lemma msg_okb_of_records m :
  (forall r, In r (msg_rrs m) -> rr_okb r = true \/ valued r) -> msg_okb m = true.
Proof.
  intro H. unfold msg_okb. unfold msg_rrs in H.
  assert (A : forall l, (forall r, In r l -> In r (m_answer m ++ m_ns m ++ m_extra m)) -> forallb rr_okb l = true).
  { intros l Hl. apply forallb_forall. intros r Hr. destruct (H r (Hl r Hr)) as [K|K]; [exact K|now apply valued_okb]. }
  rewrite !A; [reflexivity| | |]; intros r Hr; rewrite !in_app_iff; tauto.
Qed.
Lemma msg_okb2_of_records m :
  (forall r, In r (msg_rrs m) -> rr_okb2 r = true \/ valued r) -> msg_okb2 m = true.
Proof.
  intro H. unfold msg_okb2. unfold msg_rrs in H.
  assert (A : forall l, (forall r, In r l -> In r (m_answer m ++ m_ns m ++ m_extra m)) -> forallb rr_okb2 l = true).
  { intros l Hl. apply forallb_forall. intros r Hr. destruct (H r (Hl r Hr)) as [K|K]; [exact K|now apply valued_okb2]. }
  rewrite !A; [reflexivity| | |]; intros r Hr; rewrite !in_app_iff; tauto.
Qed.

Theorem valued_msg_uncompressed_len_ge_pack m buflen w u :
  (forall r, In r (m_answer m ++ m_ns m ++ m_extra m) -> rr_okb r = true \/
     (exists h vs ts, opt_triples vs = Ok ts /\ r = opt_record h ts) \/
     (exists h p t vs ts, svcb_triples vs = Ok ts /\ r = svcb_record h p t ts)) ->
  pack_msg_buf m buflen = Ok (w, u) -> lenN w <= msg_len_with m None.
Proof. intro H. apply uncompressed_len_ge_pack. now apply msg_okb_of_records. Qed.

Theorem valued_msg_len_ge_pack_uncompressed m w :
  (forall r, In r (m_answer m ++ m_ns m ++ m_extra m) -> rr_okb r = true \/
     (exists h vs ts, opt_triples vs = Ok ts /\ r = opt_record h ts) \/
     (exists h p t vs ts, svcb_triples vs = Ok ts /\ r = svcb_record h p t ts)) ->
  msg_compress m = false -> pack_msg m = Ok w -> lenN w <= msg_len m.
Proof. intro H. apply msg_len_ge_pack_uncompressed. now apply msg_okb_of_records. Qed.

Theorem valued_msg_len_ge_pack m w :
  (forall r, In r (m_answer m ++ m_ns m ++ m_extra m) -> rr_okb2 r = true \/
     (exists h vs ts, opt_triples vs = Ok ts /\ r = opt_record h ts) \/
     (exists h p t vs ts, svcb_triples vs = Ok ts /\ r = svcb_record h p t ts)) ->
  pack_msg m = Ok w -> lenN w <= msg_len m.
Proof. intro H. apply msg_len_ge_pack. now apply msg_okb2_of_records. Qed.

(* non-vacuity: a query with an OPT record of 14 option values and an SVCB answer of
   10 parameter values packs, with and without compression *)
Definition ex_vmsg (c : bool) (o s : list triple) : msg :=
  {| m_id := 7; m_response := true; m_opcode := 0; m_aa := false; m_tc := false; m_rd := true; m_ra := true;
     m_z := false; m_ad := false; m_cd := false; m_rcode := 0; m_compress := c;
     m_question := [{| q_name := bytes_of_string "v.example."; q_type := 64; q_class := 1 |}];
     m_answer := [svcb_record (ex_hdr "v.example." 64) 1 (bytes_of_string "svc.example.") s]; m_ns := [];
     m_extra := [opt_record (ex_hdr "." 41) o] |}.
Example ex_valued_msg :
  match opt_triples ex_opts, svcb_triples ex_svcbs with
  | Ok o, Ok s =>
    match pack_msg (ex_vmsg false o s), pack_msg (ex_vmsg true o s) with
    | Ok w, Ok w' => lenN w <= msg_len (ex_vmsg false o s) /\ lenN w' <= msg_len (ex_vmsg true o s) /\ 250 < lenN w' /\
                     msg_compress (ex_vmsg true o s) = true
    | _, _ => False
    end
  | _, _ => False
  end.
Proof. vm_compute. repeat split; discriminate. Qed.
