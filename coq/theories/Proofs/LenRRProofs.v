(* Proofs/LenRRProofs.v — the generated pack() field sequences against the
   generated len() term sequences (Gen/Layouts.v, Gen/Lens.v): an executable
   alignment check over the tables, and from it Len(rr) >= octets packRR writes,
   with equality for the plain kinds and escape-free content. *)
From Dns Require Import Gen.Layouts Gen.Lens Gen.Registry Gen.Structs Gen.Consts.
From Dns Require Import Base.ListX Model.Msg Proofs.EscapeProofs Proofs.NameWireProofs Proofs.LenNameProofs
  Proofs.LenFieldProofs.
From Coq Require Import Lia ZifyN ZifyNat ZifyBool.
Open Scope list_scope.
Open Scope N_scope.

(* ================================================================== *)
(* 1. alignment of a pack sequence with a len sequence                  *)
(* ================================================================== *)
(* ztypes.go adds the fixed-size fields as constants, sometimes merged
   (l += 4 + 2) and sometimes ahead of the field they belong to; the check keeps
   a credit of constant octets already counted by len() and not yet written *)
Fixpoint absorb (credit : N) (ts : list lterm) : N * list lterm :=
  match ts with
  | L_const n :: r => absorb (credit + n) r
  | _ => (credit, ts)
  end.

Fixpoint aligned_go (credit : N) (pfs : list pfield) (ts : list lterm) : bool :=
  match pfs with
  | [] => true
  | (f, k) :: r =>
    let '(credit', ts') := absorb credit ts in
    match kind_fixed k with
    | Some n => (n <=? credit') && aligned_go (credit' - n) r ts'
    | None =>
      match ts' with
      | t :: ts'' => kind_term f k t && aligned_go credit' r ts''
      | [] => false
      end
    end
  end.
Definition aligned (pfs : list pfield) (ts : list lterm) : bool := aligned_go 0 pfs ts.

(* the same, and nothing is left over: every constant is used up, every term
   belongs to a field, and the fields are of the kinds of the exactness clause *)
Fixpoint exact_go (credit : N) (pfs : list pfield) (ts : list lterm) : bool :=
  let '(credit', ts') := absorb credit ts in
  match pfs with
  | [] => (credit' =? 0) && match ts' with [] => true | _ => false end
  | (f, k) :: r =>
    match kind_fixed k with
    | Some n => (n <=? credit') && exact_go (credit' - n) r ts'
    | None =>
      match ts' with
      | t :: ts'' => kind_term f k t && exact_kind k && exact_go credit' r ts''
      | [] => false
      end
    end
  end.
Definition aligned_exact (pfs : list pfield) (ts : list lterm) : bool := exact_go 0 pfs ts.

Lemma absorb_est v ts : forall credit c' ts',
  absorb credit ts = (c', ts') -> c' + terms_est v ts' = credit + terms_est v ts.
Proof.
  induction ts as [|t r IH]; intros credit c' ts' H.
  - injection H as <- <-. reflexivity.
  - destruct t; try (injection H as <- <-; reflexivity).
    cbn [absorb] in H. apply IH in H. cbn [terms_est term_est]. lia.
Qed.

Lemma room_fields v : forall pfs credit ts st B,
  aligned_go credit pfs ts = true -> rdata_pairs_ok v = true ->
  poff st + credit + terms_est v ts <= B -> room (pack_fields v pfs) st B.
Proof.
  induction pfs as [|[f k] r IH]; intros credit ts st B Ha Hv HB.
  - apply room_ret. lia.
  - cbn [aligned_go] in Ha. destruct (absorb credit ts) as [c' ts'] eqn:Eab.
    apply (absorb_est v) in Eab.
    apply (room_ext (fun cap st => do x <- pack_field v f k cap st; pack_fields v r cap x)); [reflexivity|].
    destruct (kind_fixed k) as [n|] eqn:Ek.
    + apply andb_prop in Ha. destruct Ha as [Hn Ha].
      destruct (fixed_is_fixed v f k n Ek) as [b [Hb Hf]].
      apply (room_bind' (pack_field v f k) (pack_fields v r) st (poff st + n) B).
      * apply (room_ext (pack_fixed b)); [intro cap; symmetry; apply Hf|]. apply room_fixed. lia.
      * lia.
      * intros st' Hs. apply (IH (c' - n) ts'); [exact Ha|exact Hv|lia].
    + destruct ts' as [|t ts'']; [discriminate|]. apply andb_prop in Ha. destruct Ha as [Hk Ha].
      cbn [terms_est] in Eab.
      apply (room_bind' (pack_field v f k) (pack_fields v r) st (poff st + term_est v t) B).
      * apply (kind_term_room v f k t); [exact Hk|exact Hv|lia].
      * lia.
      * intros st' Hs. apply (IH c' ts''); [exact Ha|exact Hv|lia].
Qed.

Definition plain_fields (v : rdata) (pfs : list pfield) : bool :=
  forallb (fun fk : pfield => plain_field v (fst fk) (snd fk)) pfs.

Lemma exact_fields v : forall pfs credit ts cap st st',
  exact_go credit pfs ts = true -> plain_fields v pfs = true -> pn_cm st = None ->
  pack_fields v pfs cap st = Ok st' ->
  poff st' = poff st + credit + terms_est v ts /\ pn_cm st' = None.
Proof.
  induction pfs as [|[f k] r IH]; intros credit ts cap st st' Ha Hp Hc H.
  - cbn [exact_go] in Ha. destruct (absorb credit ts) as [c' ts'] eqn:Eab.
    apply (absorb_est v) in Eab. apply andb_prop in Ha. destruct Ha as [H0 Ht].
    destruct ts'; [|discriminate]. cbn [terms_est] in Eab.
    cbn [pack_fields] in H. injection H as <-. split; [lia|exact Hc].
  - cbn [exact_go] in Ha. destruct (absorb credit ts) as [c' ts'] eqn:Eab.
    apply (absorb_est v) in Eab.
    cbn [plain_fields forallb fst snd] in Hp. apply andb_prop in Hp. destruct Hp as [Hp1 Hp].
    cbn [pack_fields] in H. destruct (pack_field v f k cap st) as [st1| | |] eqn:E1; try discriminate.
    cbn [bind] in H.
    destruct (kind_fixed k) as [n|] eqn:Ek.
    + apply andb_prop in Ha. destruct Ha as [Hn Ha].
      destruct (fixed_is_fixed v f k n Ek) as [b [Hb Hf]]. rewrite Hf in E1.
      pose proof (pack_fixed_exact _ _ _ _ E1) as Hs. pose proof (pack_fixed_cm _ _ _ _ E1) as Hm.
      destruct (IH (c' - n) ts' cap st1 st' Ha Hp) as [I1 I2]; [congruence|exact H|]. split; [lia|exact I2].
    + destruct ts' as [|t ts'']; [discriminate|].
      apply andb_prop in Ha. destruct Ha as [Hk Ha]. apply andb_prop in Hk. destruct Hk as [Hk He].
      cbn [terms_est] in Eab.
      destruct (kind_term_exact v f k t cap st st1 Hk He Hp1 Hc E1) as [Hs Hm].
      destruct (IH c' ts'' cap st1 st' Ha Hp Hm H) as [I1 I2]. split; [lia|exact I2].
Qed.

(* ================================================================== *)
(* 2. the tables                                                        *)
(* ================================================================== *)
Definition kind_ok (k : string) : bool :=
  match find_layout layouts k, len_terms_of k with
  | Some L, Some ts => aligned (tl_pack L) ts
  | _, _ => false
  end.
Definition kind_exact (k : string) : bool :=
  match find_layout layouts k, len_terms_of k with
  | Some L, Some ts => aligned_exact (tl_pack L) ts
  | _, _ => false
  end.

(* the obligation that breaks when a pack() and a len() in the Go code stop
   agreeing: every type's pack sequence is aligned with its len sequence.
   SIG, KEY, CDS, ... embed another record type and use its promoted methods, so
   a record of such a type runs the sequences of its base kind. *)
Lemma tables_aligned : forallb (fun L => kind_ok (base_kind (tl_name L))) layouts = true.
Proof. vm_compute. reflexivity. Qed.

(* every type code is decoded to a kind whose sequences are aligned *)
Lemma registry_aligned :
  forallb (fun p : N * string => kind_ok (base_kind (snd p))) type_to_rr = true /\ kind_ok "RFC3597" = true.
Proof. vm_compute. split; reflexivity. Qed.

Lemma assoc_n_in l k s : assoc_n l k = Some s -> In (k, s) l.
Proof.
  induction l as [|[a b] r IH]; [discriminate|]. cbn [assoc_n]. destruct (a =? k) eqn:E.
  - intro H. injection H as <-. apply N.eqb_eq in E. subst. now left.
  - intro H. right. auto.
Qed.
Lemma kind_of_type_ok t : kind_ok (kind_of_type t) = true.
Proof.
  destruct registry_aligned as [H1 H2]. unfold kind_of_type.
  destruct (assoc_n type_to_rr t) as [k|] eqn:E; [|exact H2].
  apply assoc_n_in in E. rewrite forallb_forall in H1. exact (H1 _ E).
Qed.

Definition exact_kinds : list string :=
  ["A"; "AAAA"; "NS"; "CNAME"; "SOA"; "PTR"; "MX"; "SRV"; "TXT"; "DNAME"; "MINFO"; "RP"; "AFSDB"; "KX";
   "NAPTR"; "HINFO"]%string.
Lemma exact_kinds_aligned : forallb kind_exact exact_kinds = true.
Proof. vm_compute. reflexivity. Qed.

(* ================================================================== *)
(* 3. one record                                                        *)
(* ================================================================== *)
Definition rr_est (r : rr) : N :=
  name_est (rr_name r) + 10 +
  match len_terms_of (rr_kind r) with Some ts => terms_est (rr_data r) ts | None => 0 end.

Lemma len_rr_none r off : len_rr r off None = (rr_est r, None).
Proof.
  unfold len_rr, rr_est. rewrite domain_name_len_none.
  destruct (len_terms_of (rr_kind r)) as [ts|]; [|f_equal; lia].
  rewrite len_terms_none. reflexivity.
Qed.
Lemma rr_len_est r : rr_len r = rr_est r.
Proof. unfold rr_len. now rewrite len_rr_none. Qed.

Lemma room_pure (F : pn_state -> res pn_state) st B :
  (forall st', F st = Ok st' -> poff st' <= B) -> room (fun _ st => F st) st B.
Proof. intro H. split; [intros _ st'; apply H|reflexivity]. Qed.

Lemma room_header r cp st B :
  poff st + name_est (rr_name r) + 10 <= B -> room (fun cap => pack_header r cap cp) st B.
Proof.
  intro H.
  assert (R : room (fun cap st =>
              do st <- pack_name (rr_name r) cap cp st;
              do st <- pack_fixed (u16 (rr_type r)) cap st;
              do st <- pack_fixed (u16 (rr_class r)) cap st;
              do st <- pack_fixed (u32 (rr_ttl r)) cap st;
              pack_fixed (u16 0) cap st) st B).
  { apply (room_bind' (fun cap => pack_name (rr_name r) cap cp) _ st (poff st + name_est (rr_name r)) B);
      [apply room_name; lia|lia|]. intros st1 H1.
    apply (room_bind' (pack_fixed (u16 (rr_type r))) _ st1 (poff st + name_est (rr_name r) + 2) B);
      [apply room_fixed; rewrite lenN_u16; lia|lia|]. intros st2 H2.
    apply (room_bind' (pack_fixed (u16 (rr_class r))) _ st2 (poff st + name_est (rr_name r) + 4) B);
      [apply room_fixed; rewrite lenN_u16; lia|lia|]. intros st3 H3.
    apply (room_bind' (pack_fixed (u32 (rr_ttl r))) _ st3 (poff st + name_est (rr_name r) + 8) B);
      [apply room_fixed; change (lenN (u32 (rr_ttl r))) with 4; lia|lia|]. intros st4 H4.
    apply room_fixed. rewrite lenN_u16. lia. }
  destruct R as [R1 R2]. split.
  - intros cap st'. unfold pack_header. destruct (poff st =? cap).
    + intro E; injection E as <-. lia.
    + apply R1.
  - intros cap cap' Hc Hc'. unfold pack_header.
    replace (poff st =? cap) with false by lia. replace (poff st =? cap') with false by lia.
    apply R2; assumption.
Qed.

Lemma length_set_at l : forall i x, length (set_at l i x) = length l.
Proof.
  induction l as [|y r IH]; intros i x; [reflexivity|]. destruct i; cbn [set_at length]; [reflexivity|].
  now rewrite IH.
Qed.

(* what packRR does after the header and the fields: patch the RDLENGTH *)
Definition rr_finish (header_end : N) (st2 : pn_state) : res pn_state :=
  let rdlength := poff st2 - header_end in
  if 65535 <? rdlength then Err "rdata"%string
  else if header_end <? 2 then Panic
  else
    let out := set_at (set_at (pn_out st2) (N.to_nat (header_end - 2)) (rdlength / 256))
                      (N.to_nat (header_end - 1)) (rdlength mod 256) in
    Ok {| pn_out := out; pn_cm := pn_cm st2 |}.
Lemma rr_finish_off he st2 st' : rr_finish he st2 = Ok st' -> poff st' = poff st2 /\ pn_cm st' = pn_cm st2.
Proof.
  unfold rr_finish. cbv zeta. destruct (65535 <? _); [discriminate|]. destruct (he <? 2); [discriminate|].
  intro E; injection E as <-. unfold poff, lenN. cbn [pn_out pn_cm]. now rewrite !length_set_at.
Qed.

Lemma pack_rr_unfold r L cap cp st :
  find_layout layouts (rr_kind r) = Some L ->
  pack_rr r cap cp st =
  do st1 <- pack_header r cap cp st;
  do st2 <- pack_fields (rr_data r) (tl_pack L) cap st1; rr_finish (poff st1) st2.
Proof. intro E. unfold pack_rr. rewrite E. reflexivity. Qed.

Definition rr_okb (r : rr) : bool := kind_ok (rr_kind r) && rdata_pairs_ok (rr_data r).

Lemma room_rr r cp st B :
  rr_okb r = true -> poff st + rr_est r <= B -> room (fun cap => pack_rr r cap cp) st B.
Proof.
  unfold rr_okb, kind_ok, rr_est. intros Hok HB. apply andb_prop in Hok. destruct Hok as [Hk Hv].
  destruct (find_layout layouts (rr_kind r)) as [L|] eqn:EL; [|discriminate].
  destruct (len_terms_of (rr_kind r)) as [ts|]; [|discriminate].
  apply (room_ext (fun cap st =>
     do st1 <- pack_header r cap cp st;
     (fun cap st1 => do st2 <- pack_fields (rr_data r) (tl_pack L) cap st1; rr_finish (poff st1) st2) cap st1)).
  { intro cap. now rewrite (pack_rr_unfold r L cap cp st EL). }
  apply (room_bind' (fun cap => pack_header r cap cp) _ st (poff st + name_est (rr_name r) + 10) B);
    [apply room_header; lia|lia|].
  intros st1 H1.
  apply (room_bind' (pack_fields (rr_data r) (tl_pack L)) (fun _ st2 => rr_finish (poff st1) st2) st1 B B);
    [|lia|].
  - apply (room_fields (rr_data r) (tl_pack L) 0 ts); [exact Hk|exact Hv|lia].
  - intros st2 H2. apply room_pure. intros st' E. apply rr_finish_off in E. destruct E as [E _]. lia.
Qed.

(* Stage 1, item 4: Len(rr) is at least what packRR writes — whatever the
   buffer length, the compression setting and the state of the compression map *)
Theorem rr_len_ge_pack r cap cp st st' :
  rr_okb r = true -> pack_rr r cap cp st = Ok st' ->
  lenN (pn_out st') - lenN (pn_out st) <= rr_len r.
Proof.
  intros Hok H. destruct (room_rr r cp st (poff st + rr_est r) Hok) as [R1 _]; [lia|].
  apply R1 in H. rewrite rr_len_est. unfold poff in H. lia.
Qed.

Corollary rr_len_ge_pack_uncompressed r cap out st' :
  rr_okb r = true -> pack_rr r cap false {| pn_out := out; pn_cm := None |} = Ok st' ->
  lenN (pn_out st') - lenN out <= rr_len r.
Proof. intros Hok H. exact (rr_len_ge_pack r cap false _ st' Hok H). Qed.

(* ... and the buffer length does not matter once it exceeds Len(rr) *)
Theorem pack_rr_has_room r cp st cap cap' :
  rr_okb r = true -> poff st + rr_len r < cap -> poff st + rr_len r < cap' ->
  pack_rr r cap cp st = pack_rr r cap' cp st.
Proof.
  intros Hok Hc Hc'. rewrite rr_len_est in *.
  destruct (room_rr r cp st (poff st + rr_est r) Hok) as [_ R2]; [lia|]. apply R2; assumption.
Qed.

(* ================================================================== *)
(* 4. exactness                                                         *)
(* ================================================================== *)
Definition rr_plain (r : rr) : bool :=
  kind_exact (rr_kind r) && no_bs (rr_name r) && negb (bytes_eqb (rr_name r) [])
  && match find_layout layouts (rr_kind r) with Some L => plain_fields (rr_data r) (tl_pack L) | None => false end.

Lemma pack_header_exact r cap cp st st' :
  pn_cm st = None -> poff st < cap -> no_bs (rr_name r) = true -> rr_name r <> [] ->
  pack_header r cap cp st = Ok st' ->
  poff st' = poff st + name_est (rr_name r) + 10 /\ pn_cm st' = None.
Proof.
  intros Hc Hlt Hb Hn. unfold pack_header. replace (poff st =? cap) with false by lia.
  destruct (pack_name (rr_name r) cap cp st) as [s1| | |] eqn:E1; try discriminate. cbn [bind].
  destruct (pack_fixed (u16 (rr_type r)) cap s1) as [s2| | |] eqn:E2; try discriminate. cbn [bind].
  destruct (pack_fixed (u16 (rr_class r)) cap s2) as [s3| | |] eqn:E3; try discriminate. cbn [bind].
  destruct (pack_fixed (u32 (rr_ttl r)) cap s3) as [s4| | |] eqn:E4; try discriminate. cbn [bind].
  intro E5.
  pose proof (pack_name_cm_none _ _ _ _ _ Hc E1) as C1.
  apply pack_name_plain_exact in E1; [|exact Hc|exact Hn|unfold no_bs in Hb; now destruct (has_backslash _)].
  pose proof (pack_fixed_cm _ _ _ _ E2). pose proof (pack_fixed_cm _ _ _ _ E3).
  pose proof (pack_fixed_cm _ _ _ _ E4). pose proof (pack_fixed_cm _ _ _ _ E5).
  apply pack_fixed_exact in E2, E3, E4, E5. rewrite lenN_u16 in E2, E3, E5.
  change (lenN (u32 (rr_ttl r))) with 4 in E4. split; [lia|congruence].
Qed.

Theorem rr_len_exact_plain r cap cp st st' :
  rr_plain r = true -> pn_cm st = None -> poff st < cap ->
  pack_rr r cap cp st = Ok st' ->
  poff st' = poff st + rr_len r /\ pn_cm st' = None.
Proof.
  unfold rr_plain, kind_exact. intros Hp Hc Hlt H. rewrite rr_len_est. unfold rr_est.
  repeat (apply andb_prop in Hp; let X := fresh "Hp" in destruct Hp as [Hp X]).
  destruct (find_layout layouts (rr_kind r)) as [L|] eqn:EL; [|discriminate].
  destruct (len_terms_of (rr_kind r)) as [ts|]; [|discriminate].
  rewrite (pack_rr_unfold r L cap cp st EL) in H.
  destruct (pack_header r cap cp st) as [s1| | |] eqn:E1; try discriminate. cbn [bind] in H.
  destruct (pack_fields (rr_data r) (tl_pack L) cap s1) as [s2| | |] eqn:E2; try discriminate. cbn [bind] in H.
  apply pack_header_exact in E1; [|exact Hc|exact Hlt|exact Hp2|].
  2:{ intro E. rewrite E in Hp1. discriminate. }
  destruct E1 as [O1 C1].
  destruct (exact_fields (rr_data r) (tl_pack L) 0 ts cap s1 s2 Hp Hp0 C1 E2) as [O2 C2].
  apply rr_finish_off in H. destruct H as [O3 C3]. split; [lia|congruence].
Qed.
