(* Props/C01.v — property C01: wire encoding is lossless and matches the RFC
   layouts.  Only statements; proofs in Proofs/LayoutProofs.v, HeaderProofs.v,
   NameRoundtripProofs.v.

   The per-type field sequences (Gen/Layouts.v) are regenerated from zmsg.go on
   every run; Spec/RfcLayouts.v is the frozen RFC table.  The field codecs that
   interpret a layout (Model/Rdata.v) are tied to msg_helpers.go by the
   correspondence check for every type on every run.  Names, the header word and
   the RCODE split come first; then the generic value -> wire -> value theorems
   over the translated layouts (per field kind, per field sequence, per record,
   all record types), and last the converse wire -> value -> wire theorems for
   the record types made of the plainer field kinds (partial). *)
From Dns Require Import Model.Msg Spec.RfcLayouts Proofs.LayoutProofs Proofs.HeaderProofs
  Proofs.NameRoundtripProofs Proofs.RoundtripFieldProofs Proofs.RoundtripRRProofs Gen.Layouts Gen.Registry.
Open Scope list_scope.
Open Scope N_scope.

(* every type's pack() walks exactly the fields the RFCs prescribe, in order,
   with the prescribed widths and compression flags *)
Theorem layouts_match_the_rfcs :
  map (fun L => (tl_name L, tl_pack L)) layouts = rfc_layouts.
Proof. exact layouts_are_rfc. Qed.

(* unpack() of every type reads the same fields in the same order as pack() writes *)
Theorem pack_and_unpack_walk_the_same_fields :
  forallb (fun L => sides_agree (tl_pack L) (tl_unpack L)) layouts = true.
Proof. exact pack_unpack_sides_agree. Qed.

(* every registered type code has a field layout and a length description *)
Theorem every_registered_type_has_a_layout :
  forallb (fun tk : N * string =>
             match find_layout layouts (base_kind (snd tk)), len_terms_of (base_kind (snd tk)) with
             | Some _, Some _ => true | _, _ => false end) type_to_rr = true.
Proof. exact registry_complete. Qed.

(* all 2^16 flag/opcode/RCODE words: unpacking the word and packing the header
   fields again gives the word back *)
Theorem header_word_roundtrip :
  forall (w id : N) qs an ns ex,
    w < 65536 -> hdr_word (msg_of_bits id w qs an ns ex (w mod 16)) = w.
Proof. intros w id qs an ns ex H. exact (hdr_word_roundtrip w id qs an ns ex H). Qed.

(* every combination of the eight flags, opcode 0..15 and low RCODE 0..15
   survives pack followed by unpack *)
Theorem header_fields_roundtrip :
  forallb (fun q => forallb (fun a => forallb (fun t => forallb (fun r => forallb (fun v => forallb (fun z =>
  forallb (fun d => forallb (fun c => forallb (fun op => forallb (fun rc =>
    let m := flag_msg q a t r v z d c op rc in
    flags_eq (msg_of_bits 0 (hdr_word m) [] [] [] [] (hdr_word m mod 16)) m)
  (upto 16)) (upto 16)) bools) bools) bools) bools) bools) bools) bools) bools = true.
Proof. exact flags_sweep. Qed.

(* the 12-bit RCODE: the upper eight bits written into the OPT TTL by Pack are
   what Unpack reads back, the other OPT TTL bits are untouched, and joining them
   with the low four header bits gives the RCODE again, for all 0..4095 *)
Theorem extended_rcode_split_and_rejoined :
  forall (r : rr) (rc : N),
    rc < 4096 ->
    N.lor (rc mod 16) (ext_rcode_of_ttl (rr_ttl (set_ext_rcode r rc))) = rc /\
    rr_ttl (set_ext_rcode r rc) mod 16777216 = rr_ttl r mod 16777216.
Proof.
  intros r rc H. split; [rewrite ext_rcode_set_get; apply rcode_rejoin, H|apply set_ext_rcode_keeps_low_bits].
Qed.

(* names: wire -> text -> wire is the identity on every valid name (C03) *)
Theorem names_roundtrip :
  forall (ls : list label) (cap : N) (post : bytes),
    valid_wire ls = true -> 320 <= cap ->
    pack_name_plain (show_name ls) cap = Ok (wire_name ls) /\
    unpack_name (wire_name ls ++ post) 0 = Ok (show_name ls, wire_len ls).
Proof. intros ls cap post Hv Hc. split; [apply pack_show_name; assumption|apply unpack_wire_name, Hv]. Qed.

(* ================================================================== *)
(* value -> wire -> value, generically over the translated layouts
   (Proofs/RoundtripFieldProofs.v, Proofs/RoundtripRRProofs.v), for every field
   kind and every record type of the table, without name compression.

   [st0 out]        the packing state: octets written so far, no compression map.
   [canon v k x]    x is a canonical value of field kind k inside the RDATA v:
                    integers below 2^(8w); names that are the presentation form
                    of a valid wire name; character-strings that print at most
                    255 octets, non-empty lists of such; 4 / 16 octet addresses;
                    octet strings with only the backslash escaped; opaque octets
                    and, for a sized field, as many octets as its size field
                    says; lists of such strings (also empty), lists of names;
                    type bitmaps that are strictly
                    increasing lists of 16-bit codes; EDNS0 options and SVCB
                    parameters held as (code, value) pairs that their own codecs
                    reproduce (opt_view / svcb_view), SVCB keys strictly
                    increasing; APL prefixes whose address is what unpacking
                    rebuilds from its masked, zero-trimmed form.
   [field_canon v f k]  the struct field f of v is canonical for k; for the
                    IPSECKEY / AMTRELAY gateway union: address and host fields
                    agree with the gateway type (4 octets / 16 octets / a valid
                    name / nothing).
   [knames f k]     the struct fields a statement assigns: f, or (gateway) the
                    address and the host field.  [kzero k g]: the Go zero value.
   [same_val z got want]  equal, or absent after unpacking while the packed
                    value was the zero value z (the generated unpack() returns
                    early when the RDATA is exhausted).
   [all_same ps got want]  [same_val] for every struct field of the layout ps. *)

(* one field statement: whatever pack_field writes for canonical values,
   unpack_field of the agreeing kind reads back as those values, consuming
   exactly those octets; a to-the-end kind must be followed by nothing, a sized
   kind (or the gateway) needs the field it depends on among those decoded *)
Theorem field_value_roundtrip :
  forall (v : rdata) (f : string) (k k' : fkind) (cap : N) (out : bytes) (st' : pn_state),
    kind_agree k k' = true -> field_canon v f k ->
    pack_field v f k cap (st0 out) = Ok st' ->
    exists (b : bytes) (vals : list fval),
      st' = st0 (out ++ b) /\
      Forall2 (fun g y => vget v g = Some y) (knames f k) vals /\
      (b = [] -> Forall (fun g => vget v g = Some (kzero k g)) (knames f k)) /\
      forall (pre post : bytes) (got : rdata),
        (to_end k = true -> post = []) ->
        (forall s, depends_on k = Some s -> vget_n got s = vget_n v s) ->
        unpack_field got k' (pre ++ b ++ post) (lenN pre) = Ok (vals, lenN pre + lenN b).
Proof. exact field_roundtrip_gen. Qed.
Print Assumptions field_value_roundtrip.

(* a field sequence: pack() of any layout that meets [layout_ok] (assigned struct
   fields pairwise distinct, a sized field or gateway depending on an earlier
   field, only the last field of to-the-end extent) followed by the agreeing
   unpack() on the RDATA octets gives every field back *)
Theorem field_sequence_roundtrip :
  forall (v : rdata) (cap : N) (ps : list pfield) (us : list ufield) (pre out : bytes) (st' : pn_state),
    sides_agree ps us = true -> layout_ok [] ps = true -> fields_canon v ps ->
    pack_fields v ps cap (st0 out) = Ok st' ->
    exists (b : bytes) (got' : rdata),
      st' = st0 (out ++ b) /\
      unpack_fields us [] (pre ++ b) (lenN pre) = Ok (got', lenN pre + lenN b) /\
      (b = [] -> all_zero ps v) /\
      all_same ps got' v.
Proof. exact fields_roundtrip_top. Qed.
Print Assumptions field_sequence_roundtrip.

(* every layout translated from zmsg.go on this run meets [layout_ok] *)
Theorem every_layout_roundtrips : forallb layout_supported layouts = true.
Proof. exact all_layouts_supported. Qed.
Print Assumptions every_layout_roundtrips.

Theorem roundtrip_covers :
  map tl_name (filter layout_supported layouts) =
  ["A"; "AAAA"; "AFSDB"; "AMTRELAY"; "ANY"; "APL"; "AVC"; "CAA"; "CDNSKEY"; "CDS"; "CERT"; "CNAME";
   "CSYNC"; "DHCID"; "DLV"; "DNAME"; "DNSKEY"; "DS"; "EID"; "EUI48"; "EUI64"; "GID"; "GPOS"; "HINFO";
   "HIP"; "HTTPS"; "IPSECKEY"; "ISDN"; "KEY"; "KX"; "L32"; "L64"; "LOC"; "LP"; "MB"; "MD"; "MF"; "MG";
   "MINFO"; "MR"; "MX"; "NAPTR"; "NID"; "NIMLOC"; "NINFO"; "NS"; "NSAPPTR"; "NSEC"; "NSEC3";
   "NSEC3PARAM"; "NULL"; "NXNAME"; "NXT"; "OPENPGPKEY"; "OPT"; "PTR"; "PX"; "RESINFO"; "RFC3597";
   "RKEY"; "RP"; "RRSIG"; "RT"; "SIG"; "SMIMEA"; "SOA"; "SPF"; "SRV"; "SSHFP"; "SVCB"; "TA"; "TALINK";
   "TKEY"; "TLSA"; "TSIG"; "TXT"; "UID"; "UINFO"; "URI"; "X25"; "ZONEMD"]%string.
Proof. exact supported_census. Qed.
Print Assumptions roundtrip_covers.

(* a record of any type that has a layout: packRR writes the owner name, TYPE,
   CLASS, TTL, RDLENGTH and the RDATA ([rr_wire], the RFC 1035 record format),
   and UnpackRR at that offset of any message holding these octets returns the
   record: same header fields, RDLENGTH = the RDATA length, every RDATA field
   the same ([rr_same]).  [rr_ok r ls]: the owner is the presentation form of
   the valid wire name ls, TYPE/CLASS below 2^16, TTL below 2^32, and the Go
   struct type is the one registered for the TYPE code.  The buffer must not be
   full already (lenN out < cap); see [record_roundtrip_needs_room]. *)
Theorem record_roundtrip :
  forall (r : rr) (L : tlayout) (ls : list label) (cap : N) (out : bytes) (st' : pn_state) (post : bytes),
    find_layout layouts (rr_kind r) = Some L ->
    rr_ok r ls -> fields_canon (rr_data r) (tl_pack L) ->
    lenN out < cap ->
    pack_rr r cap false (st0 out) = Ok st' ->
    exists (rd : bytes) (r' : rr),
      st' = st0 (out ++ rr_wire ls r rd) /\
      unpack_rr (out ++ rr_wire ls r rd ++ post) (lenN out) = Ok (r', lenN out + lenN (rr_wire ls r rd)) /\
      rr_rdlength r' = lenN rd /\ rr_same L r' r.
Proof. exact rr_roundtrip_all. Qed.
Print Assumptions record_roundtrip.

(* non-vacuity: the hypotheses of the record theorem hold of a concrete MX, TXT
   and IPSECKEY record, with the octets and the unpacked record computed.  The
   IPSECKEY has an empty key: unpack() returns before the PublicKey statement
   and the field is absent from the result (the zero-value case of same_val). *)
Example record_roundtrip_mx :
  exists L st',
    find_layout layouts (rr_kind ex_mx) = Some L /\ layout_ok [] (tl_pack L) = true /\
    rr_ok ex_mx ex_owner /\ fields_canon (rr_data ex_mx) (tl_pack L) /\
    pack_rr ex_mx 100 false (st0 [7; 7; 7]) = Ok st' /\
    pn_out st' = [7; 7; 7] ++ rr_wire ex_owner ex_mx [0; 10; 2; 109; 120; 2; 92; 46; 0] /\
    unpack_rr (pn_out st' ++ [9; 9]) 3 =
      Ok ({| rr_name := rr_name ex_mx; rr_type := 15; rr_class := 1; rr_ttl := 3600; rr_rdlength := 9;
             rr_kind := "MX"; rr_data := rr_data ex_mx |}, 30).
Proof. exact mx_hypotheses_hold. Qed.

Example record_roundtrip_txt :
  exists L st',
    find_layout layouts (rr_kind ex_txt) = Some L /\ layout_ok [] (tl_pack L) = true /\
    rr_ok ex_txt ex_owner /\ fields_canon (rr_data ex_txt) (tl_pack L) /\
    pack_rr ex_txt 100 false (st0 []) = Ok st' /\
    pn_out st' = rr_wire ex_owner ex_txt [4; 104; 105; 34; 0; 0; 2; 255; 92] /\
    unpack_rr (pn_out st') 0 =
      Ok ({| rr_name := rr_name ex_txt; rr_type := 16; rr_class := 1; rr_ttl := 4294967295; rr_rdlength := 9;
             rr_kind := "TXT"; rr_data := rr_data ex_txt |}, 27).
Proof. exact txt_hypotheses_hold. Qed.

Example record_roundtrip_ipseckey :
  exists L st',
    find_layout layouts (rr_kind ex_ipseckey) = Some L /\
    rr_ok ex_ipseckey ex_owner /\ fields_canon (rr_data ex_ipseckey) (tl_pack L) /\
    pack_rr ex_ipseckey 100 false (st0 []) = Ok st' /\
    pn_out st' = rr_wire ex_owner ex_ipseckey [10; 1; 2; 192; 0; 2; 1] /\
    unpack_rr (pn_out st') 0 =
      Ok ({| rr_name := rr_name ex_ipseckey; rr_type := 45; rr_class := 1; rr_ttl := 0; rr_rdlength := 7;
             rr_kind := "IPSECKEY";
             rr_data := [("Precedence"%string, V_n 10); ("GatewayType"%string, V_n 1); ("Algorithm"%string, V_n 2);
                         ("GatewayAddr"%string, V_b [192; 0; 2; 1]); ("GatewayHost"%string, V_s [])] |}, 25).
Proof. exact ipseckey_hypotheses_hold. Qed.

(* the hypothesis lenN out < cap cannot be dropped: at off = len(msg) packRR
   writes no header, accepts a record with empty RDATA, and back-patches the
   RDLENGTH over the two octets BEFORE the record *)
Example record_roundtrip_needs_room :
  rr_ok ex_any ex_owner /\ fields_canon (rr_data ex_any) [] /\
  find_layout layouts (rr_kind ex_any) = Some {| tl_name := "ANY"; tl_pack := []; tl_unpack := [] |} /\
  pack_rr ex_any 3 false (st0 [1; 2; 3]) = Ok (st0 [1; 0; 0]) /\
  unpack_rr [1; 0; 0] 3 =
    Ok ({| rr_name := []; rr_type := 0; rr_class := 0; rr_ttl := 0; rr_rdlength := 0;
           rr_kind := kind_of_type 0; rr_data := [] |}, 3).
Proof. exact full_buffer_quirk. Qed.

(* APL: an address already masked to its prefix length is canonical in the sense
   of [canon] (apl_ok) *)
Theorem masked_apl_prefixes_are_canonical :
  forall (neg : bool) (prefix : N) (ip : bytes),
    (lenN ip = 4 \/ lenN ip = 16) -> prefix <= 8 * lenN ip -> mask_bytes ip prefix = ip ->
    apl_ok (neg, prefix, ip).
Proof. exact masked_apl_ok. Qed.
Print Assumptions masked_apl_prefixes_are_canonical.

(* ================================================================== *)
(* wire -> value -> wire (partial: the field kinds of [conv_kind], i.e. integers,
   addresses, names, character-strings, lists of them, octet strings, opaque
   to-the-end and sized octets; not yet type bitmaps, option/parameter lists,
   APL, lists of names, the gateway union).

   [plain_at k msg off off']   the octets msg[off:off'] are plain for kind k: a
                    name is written out in full (no compression pointer); the
                    text of an octet string stays within packStringOctet's
                    1025-octet limit; no condition for the other kinds.
   [plain_fields ps us got msg off]  [plain_at] for every statement of the
                    layout, following the decoder.
   [conv_layout_ok]  kinds within [conv_kind], field names pairwise distinct. *)

(* one field: unpacking msg[off:off'] and packing the value at any offset of the
   same height writes exactly msg[off:off'] again *)
Theorem field_converse_partial :
  forall (got : rdata) (k k' : fkind) (msg : bytes) (off : N) (vals : list fval) (off' cap : N),
    wfb msg -> conv_kind k = true -> kind_agree k k' = true -> off <= lenN msg ->
    unpack_field got k' msg off = Ok (vals, off') -> plain_at k msg off off' ->
    lenN msg + 320 <= cap ->
    off <= off' <= lenN msg /\
    exists x, vals = [x] /\
      forall (v : rdata) (f : string) (out : bytes), vget v f = Some x -> lenN out = off ->
        pack_field v f k cap (st0 out) = Ok (st0 (out ++ take_at msg off (off' - off))).
Proof. exact field_converse. Qed.
Print Assumptions field_converse_partial.

(* a field sequence: when unpack() ran through all its statements (every field
   of the layout is present in the result: no early return on exhausted RDATA),
   pack() of the result writes the octets it was read from *)
Theorem field_sequence_converse_partial :
  forall (cap : N) (ps : list pfield) (us : list ufield) (msg : bytes) (off : N) (gotF : rdata)
         (off' : N) (out : bytes),
    wfb msg -> sides_agree ps us = true -> conv_layout_ok [] ps = true -> off <= lenN msg ->
    unpack_fields us [] msg off = Ok (gotF, off') ->
    plain_fields ps us [] msg off ->
    Forall (fun fk : pfield => vget gotF (fst fk) <> None) ps ->
    lenN msg + 320 <= cap -> lenN out = off ->
    off <= off' <= lenN msg /\
    pack_fields gotF ps cap (st0 out) = Ok (st0 (out ++ take_at msg off (off' - off))).
Proof.
  intros cap ps us msg off gotF off' out Hw Hs Hl Ho Hu Hp Hpr Hc Hlo.
  destruct (fields_converse cap ps us [] [] msg off gotF off' out Hw Hs Hl Ho (fun _ _ => eq_refl) Hu Hp Hpr Hc Hlo)
    as [H1 [_ H2]].
  split; assumption.
Qed.
Print Assumptions field_sequence_converse_partial.

(* a record: what UnpackRR reads from plain octets msg[off:off'] with a non-empty
   RDATA, packRR writes back as the same octets (owner name, TYPE, CLASS, TTL,
   RDLENGTH, RDATA).  A record with RDLENGTH 0 is excluded: UnpackRR returns it
   without RDATA fields and packRR would write their zero values. *)
Theorem record_converse_partial :
  forall (msg : bytes) (off : N) (r : rr) (off' : N) (L : tlayout) (ls : list label) (cap : N) (out : bytes),
    wfb msg -> unpack_rr msg off = Ok (r, off') ->
    find_layout layouts (rr_kind r) = Some L -> conv_layout_ok [] (tl_pack L) = true ->
    rr_rdlength r <> 0 ->
    valid_wire ls = true -> off + lenN (wire_name ls) <= lenN msg ->
    take_at msg off (lenN (wire_name ls)) = wire_name ls ->
    plain_fields (tl_pack L) (tl_unpack L) [] (takeN off' msg) (off + lenN (wire_name ls) + 10) ->
    Forall (fun fk : pfield => vget (rr_data r) (fst fk) <> None) (tl_pack L) ->
    lenN msg + 320 <= cap -> lenN out = off ->
    off < off' <= lenN msg /\
    pack_rr r cap false (st0 out) = Ok (st0 (out ++ take_at msg off (off' - off))).
Proof. exact rr_converse. Qed.
Print Assumptions record_converse_partial.

(* the record types the converse covers, and those it does not *)
Theorem converse_covers :
  map tl_name (filter layout_conv_supported layouts) =
  ["A"; "AAAA"; "AFSDB"; "ANY"; "AVC"; "CAA"; "CDNSKEY"; "CDS"; "CERT"; "CNAME"; "DHCID"; "DLV";
   "DNAME"; "DNSKEY"; "DS"; "EID"; "EUI48"; "EUI64"; "GID"; "GPOS"; "HINFO"; "ISDN"; "KEY"; "KX";
   "L32"; "L64"; "LOC"; "LP"; "MB"; "MD"; "MF"; "MG"; "MINFO"; "MR"; "MX"; "NAPTR"; "NID"; "NIMLOC";
   "NINFO"; "NS"; "NSAPPTR"; "NSEC3PARAM"; "NULL"; "NXNAME"; "OPENPGPKEY"; "PTR"; "PX"; "RESINFO";
   "RFC3597"; "RKEY"; "RP"; "RRSIG"; "RT"; "SIG"; "SMIMEA"; "SOA"; "SPF"; "SRV"; "SSHFP"; "TA";
   "TALINK"; "TKEY"; "TLSA"; "TSIG"; "TXT"; "UID"; "UINFO"; "URI"; "X25"; "ZONEMD"]%string.
Proof. exact converse_census. Qed.
Print Assumptions converse_covers.

Theorem converse_does_not_cover :
  map tl_name (filter (fun L => negb (layout_conv_supported L)) layouts) =
  ["AMTRELAY"; "APL"; "CSYNC"; "HIP"; "HTTPS"; "IPSECKEY"; "NSEC"; "NSEC3"; "NXT"; "OPT"; "SVCB"]%string.
Proof. exact converse_uncovered_census. Qed.
Print Assumptions converse_does_not_cover.

(* non-vacuity: the octets of the MX example, between other octets *)
Example record_converse_mx :
  exists r L,
    wfb ex_mx_wire /\ unpack_rr ex_mx_wire 3 = Ok (r, 30) /\
    find_layout layouts (rr_kind r) = Some L /\ conv_layout_ok [] (tl_pack L) = true /\
    rr_rdlength r <> 0 /\ valid_wire ex_owner = true /\
    take_at ex_mx_wire 3 (lenN (wire_name ex_owner)) = wire_name ex_owner /\
    plain_fields (tl_pack L) (tl_unpack L) [] (takeN 30 ex_mx_wire) (3 + lenN (wire_name ex_owner) + 10) /\
    Forall (fun fk : pfield => vget (rr_data r) (fst fk) <> None) (tl_pack L) /\
    pack_rr r 400 false (st0 [7; 7; 7]) = Ok (st0 (takeN 30 ex_mx_wire)).
Proof. exact mx_converse_hypotheses_hold. Qed.

(* ================================================================== *)
(* wire -> value -> wire completed (Proofs/RoundtripConverseProofs.v): what the
   decoders return is canonical, hence unpack (pack (unpack w)) = unpack w; and
   the converse for every field kind and all 81 record types, each kind under
   the canonicity condition of its wire form, with refuting octets wherever an
   accepted wire form is not written back identically. *)
From Dns Require Import Proofs.RoundtripConverseProofs.

(* ---- 1. canonicity of decoder output ----
   [value_ok k x]      the two conditions that are needed on a decoded value:
                       k = K_apl: every address has no bits beyond its prefix
                       ([apl_masked]: mask_bytes ip prefix = ip);
                       k = K_svcb: every alpn value reports the length of its
                       packed form ([alpn_len_ok]; it always does since the
                       decoder refuses an empty id, fix 59da914); True for every other kind.
   [present ps v]      every struct field the layout ps assigns is present in v
                       (unpack() ran through all its statements).
   [values_ok v ps]    [value_ok] for every field of the layout. *)

(* one statement: whatever unpack_field returns for kind k' is canonical for the
   agreeing pack kind k, wherever the values are stored (v), provided a sized
   field / the gateway sees the same size / type field as the decoder did *)
Theorem decoded_field_is_canonical :
  forall (got : rdata) (k k' : fkind) (msg : bytes) (off : N) (vals : list fval) (off' : N),
    wfb msg -> off <= lenN msg -> kind_agree k k' = true ->
    unpack_field got k' msg off = Ok (vals, off') ->
    Forall (value_ok k) vals ->
    forall (v : rdata) (f : string),
      Forall2 (fun g y => vget v g = Some y) (knames f k) vals ->
      names_distinct (knames f k) = true ->
      (forall s, depends_on k = Some s -> vget_n v s = vget_n got s) ->
      field_canon v f k.
Proof. exact unpack_field_canon. Qed.
Print Assumptions decoded_field_is_canonical.

(* the two conditions of [value_ok] cannot be dropped: these octets are
   accepted, and what is packed from the decoded value decodes to another value *)
Theorem apl_decoded_value_not_canonical_refuted :
  decoded K_apl [0; 1; 8; 4; 10; 1; 1; 1] = Some [V_apl [(false, 8, [10; 1; 1; 1])]] /\
  repack K_apl [0; 1; 8; 4; 10; 1; 1; 1] = Some [0; 1; 8; 1; 10] /\
  reunpack K_apl [0; 1; 8; 4; 10; 1; 1; 1] = Some [V_apl [(false, 8, [10; 0; 0; 0])]] /\
  ~ apl_masked (false, 8, [10; 1; 1; 1]).
Proof. exact apl_bits_beyond_prefix_refuted. Qed.
Print Assumptions apl_decoded_value_not_canonical_refuted.

Theorem svcb_decoded_value_not_canonical_refuted :
  repack K_svcb [0; 0; 0; 4; 0; 4; 0; 1] = Some [0; 0; 0; 4; 0; 1; 0; 4] /\
  decoded K_svcb [0; 1; 0; 1; 0] = None /\
  decoded K_svcb [0; 1; 0; 2; 1; 104] = Some [V_pairs [(1, [1; 104], 2)]].
Proof. exact svcb_normalised_refuted. Qed.
Print Assumptions svcb_decoded_value_not_canonical_refuted.

(* the views of EDNS0 options and SVCB parameters are idempotent: the packed
   value of a decoded option is what its codec returns for that value again *)
Theorem option_view_idempotent :
  forall (code : N) (data b : bytes) (l : N),
    wfb data -> opt_view code data = Some (b, l) ->
    opt_view code b = Some (b, l) /\ (lenN b <= lenN data \/ lenN b <= 255).
Proof. exact opt_view_idem. Qed.
Print Assumptions option_view_idempotent.

Theorem svcb_view_idempotent :
  forall (key : N) (data b : bytes) (l : N),
    wfb data -> svcb_view key data = Some (b, l) -> alpn_len_ok (key, b, l) ->
    svcb_view key b = Some (b, l) /\ lenN b <= lenN data.
Proof. exact svcb_view_idem. Qed.
Print Assumptions svcb_view_idempotent.

(* a generated unpack(), any layout meeting [layout_ok] (all 81 do) *)
Theorem decoded_field_sequence_is_canonical :
  forall (ps : list pfield) (us : list ufield) (msg : bytes) (off : N) (gotF : rdata) (off' : N),
    wfb msg -> sides_agree ps us = true -> layout_ok [] ps = true -> off <= lenN msg ->
    unpack_fields us [] msg off = Ok (gotF, off') ->
    present ps gotF -> values_ok gotF ps -> fields_canon gotF ps.
Proof. exact unpack_fields_canon_top. Qed.
Print Assumptions decoded_field_sequence_is_canonical.

(* UnpackRR: the record meets the hypotheses of [record_roundtrip] *)
Theorem decoded_record_is_canonical :
  forall (msg : bytes) (off : N) (r : rr) (off' : N) (L : tlayout),
    wfb msg -> unpack_rr msg off = Ok (r, off') ->
    find_layout layouts (rr_kind r) = Some L -> rr_rdlength r <> 0 ->
    present (tl_pack L) (rr_data r) -> values_ok (rr_data r) (tl_pack L) ->
    exists ls, rr_ok r ls /\ fields_canon (rr_data r) (tl_pack L).
Proof. exact unpack_rr_canon. Qed.
Print Assumptions decoded_record_is_canonical.

(* unpack (pack (unpack w)) = unpack w.  Full clause: for every accepted w.
   Proved (partial): when unpack() ran through all statements ([present]; see
   [record_repack_not_identical_refuted] for a truncated SOA), under [values_ok]
   (refuted otherwise, above), and when pack() accepts the decoded value (shown
   for canonical wire forms by the converse below; not shown in general). *)
Theorem field_sequence_reunpack_partial :
  forall (ps : list pfield) (us : list ufield) (msg : bytes) (off : N) (gotF : rdata) (off' cap : N)
         (pre out : bytes) (st' : pn_state),
    wfb msg -> sides_agree ps us = true -> layout_ok [] ps = true -> off <= lenN msg ->
    unpack_fields us [] msg off = Ok (gotF, off') ->
    present ps gotF -> values_ok gotF ps ->
    pack_fields gotF ps cap (st0 out) = Ok st' ->
    exists (b : bytes) (got' : rdata), st' = st0 (out ++ b) /\
      unpack_fields us [] (pre ++ b) (lenN pre) = Ok (got', lenN pre + lenN b) /\
      all_same ps got' gotF.
Proof. exact fields_reunpack. Qed.
Print Assumptions field_sequence_reunpack_partial.

Theorem record_reunpack_partial :
  forall (msg : bytes) (off : N) (r : rr) (off' : N) (L : tlayout) (cap : N) (out : bytes) (st' : pn_state)
         (post : bytes),
    wfb msg -> unpack_rr msg off = Ok (r, off') ->
    find_layout layouts (rr_kind r) = Some L -> rr_rdlength r <> 0 ->
    present (tl_pack L) (rr_data r) -> values_ok (rr_data r) (tl_pack L) ->
    lenN out < cap -> pack_rr r cap false (st0 out) = Ok st' ->
    exists (ls : list label) (rd : bytes) (r' : rr),
      rr_ok r ls /\ st' = st0 (out ++ rr_wire ls r rd) /\
      unpack_rr (out ++ rr_wire ls r rd ++ post) (lenN out) = Ok (r', lenN out + lenN (rr_wire ls r rd)) /\
      rr_rdlength r' = lenN rd /\ rr_same L r' r.
Proof. exact rr_reunpack. Qed.
Print Assumptions record_reunpack_partial.

(* ---- 2. the converse, kind by kind: the canonicity condition of the wire form ----
   Each theorem: octets the decoder accepts at off, ending at off', under the
   stated condition, are written back by the packer as exactly msg[off:off']. *)

(* type bitmaps.  [nsec_plain fuel msg off]: following the blocks from off, the
   last data octet of every block is not zero.  (Increasing windows and lengths
   1..32 are enforced by the decoder itself.) *)
Theorem nsec_converse_canonical_blocks :
  forall (msg : bytes) (off : N) (l : list N) (off' cap : N) (out : bytes),
    wfb msg -> off <= lenN msg -> lenN msg + 320 <= cap -> lenN out = off ->
    unpack_nsec msg off = Ok (l, off') -> nsec_plain (S (length msg)) msg off ->
    off <= off' <= lenN msg /\
    pack_nsec l cap (st0 out) = Ok (st0 (out ++ take_at msg off (off' - off))).
Proof. exact nsec_converse. Qed.
Print Assumptions nsec_converse_canonical_blocks.

Theorem nsec_trailing_zero_octet_refuted :
  decoded K_nsec [0; 2; 64; 0] = Some [V_ns [1]] /\ repack K_nsec [0; 2; 64; 0] = Some [0; 1; 64] /\
  ~ nsec_plain 5 [0; 2; 64; 0] 0 /\
  decoded K_nsec [0; 1; 0] = Some [V_ns []] /\ repack K_nsec [0; 1; 0] = Some [].
Proof. exact nsec_trailing_zero_refuted. Qed.
Print Assumptions nsec_trailing_zero_octet_refuted.

(* lists of names.  [names_plain msg off]: every name the loop reads is written
   out in full ([name_plain]: the octets are wire_name ls of a valid ls; no
   compression pointer) *)
Theorem names_converse_uncompressed :
  forall (msg : bytes) (off : N) (l : list bytes) (off' cap : N) (c : bool) (out : bytes),
    wfb msg -> off <= lenN msg -> lenN msg + 320 <= cap -> lenN out = off ->
    unpack_names msg off = Ok (l, off') -> names_plain msg off ->
    off <= off' <= lenN msg /\
    pack_names l cap c (st0 out) = Ok (st0 (out ++ take_at msg off (off' - off))).
Proof. exact names_converse. Qed.
Print Assumptions names_converse_uncompressed.

Theorem names_compression_pointer_refuted :
  decoded (K_names false) [1; 97; 0; 192; 0] = Some [V_ss [[97; 46]; [97; 46]]] /\
  repack (K_names false) [1; 97; 0; 192; 0] = Some [1; 97; 0; 1; 97; 0].
Proof. exact names_pointer_refuted. Qed.
Print Assumptions names_compression_pointer_refuted.

(* APL.  The decoder rejects a trailing zero address octet; what remains to be
   asked is that the address has no bits beyond the prefix length *)
Theorem apl_converse_masked :
  forall (msg : bytes) (off : N) (l : list (bool * N * bytes)) (off' cap : N) (out : bytes),
    wfb msg -> off <= lenN msg -> lenN msg <= cap -> lenN out = off ->
    unpack_apl msg off = Ok (l, off') -> Forall apl_masked l ->
    off <= off' <= lenN msg /\
    pack_apl l cap (st0 out) = Ok (st0 (out ++ take_at msg off (off' - off))).
Proof. exact apl_converse. Qed.
Print Assumptions apl_converse_masked.

(* EDNS0 options / SVCB parameters.  [opts_plain] / [svcb_plain]: for every
   (code, length, value) triple read from off, the option's view returns the
   octets it was given ([view_id]) *)
Theorem options_converse_fixed_values :
  forall (msg : bytes) (off : N) (l : list (N * bytes * N)) (off' cap : N) (out : bytes),
    wfb msg -> off <= lenN msg -> lenN msg <= cap -> lenN out = off ->
    unpack_opts msg off = Ok (l, off') -> opts_plain (S (length msg)) msg off ->
    off <= off' <= lenN msg /\
    pack_opts l cap (st0 out) = Ok (st0 (out ++ take_at msg off (off' - off))).
Proof. exact opts_converse. Qed.
Print Assumptions options_converse_fixed_values.

Theorem svcb_converse_fixed_values :
  forall (msg : bytes) (off : N) (l : list (N * bytes * N)) (off' cap : N) (out : bytes),
    wfb msg -> off <= lenN msg -> lenN msg <= cap -> lenN out = off ->
    unpack_svcb msg off = Ok (l, off') -> svcb_plain (S (length msg)) msg off ->
    off <= off' <= lenN msg /\
    pack_svcb l cap (st0 out) = Ok (st0 (out ++ take_at msg off (off' - off))).
Proof. exact svcb_converse. Qed.
Print Assumptions svcb_converse_fixed_values.

(* for which codes the view is the identity on everything it accepts: every
   EDNS0 code except LLQ(1), UL(2), SUBNET(8), EXPIRE(9), TCP-KEEPALIVE(11),
   REPORTING(18); every SVCB key except mandatory(0) and alpn(1) *)
Theorem option_codes_kept_as_read :
  forall (code : N) (data b : bytes) (l : N),
    opt_view code data = Some (b, l) -> ~ In code [1; 2; 8; 9; 11; 18] -> b = data.
Proof. exact opt_view_transparent. Qed.
Print Assumptions option_codes_kept_as_read.

Theorem svcb_keys_kept_as_read :
  forall (key : N) (data b : bytes) (l : N),
    svcb_view key data = Some (b, l) -> key <> 0 -> key <> 1 -> b = data.
Proof. exact svcb_view_transparent. Qed.
Print Assumptions svcb_keys_kept_as_read.

(* ... and exactly when the others are (SUBNET and REPORTING: when the value is
   a fixed point of the view, i.e. [view_id] itself) *)
Theorem option_codes_kept_iff :
  forall (code : N) (data b : bytes) (l : N),
    opt_view code data = Some (b, l) -> code <> 8 -> code <> 18 ->
    (b = data <->
     (code = 1 -> lenN data = 18) /\
     (code = 2 -> lenN data = 4 \/ Options.all_zero (skipn 4 data) = false) /\
     (code = 9 -> lenN data = 0 \/ lenN data = 4) /\
     (code = 11 -> lenN data = 0 \/ Options.all_zero data = false)).
Proof. exact opt_view_id_iff. Qed.
Print Assumptions option_codes_kept_iff.

Theorem svcb_keys_kept_iff :
  forall (key : N) (data b : bytes) (l : N),
    wfb data -> svcb_view key data = Some (b, l) ->
    (b = data <->
     (key = 0 -> sort_n (pairs16 data) = pairs16 data) /\
     (key = 1 -> alpn_scan (S (length data)) data = Some false)).
Proof. exact svcb_view_id_iff. Qed.
Print Assumptions svcb_keys_kept_iff.

(* the values the option codecs normalise, octets in / octets out: LLQ longer
   than 18 octets, UL with a zero key lease, SUBNET family 0 with trailing
   octets, SUBNET with address bits beyond the source prefix, EXPIRE longer than
   4 octets, TCP-KEEPALIVE with timeout 0, REPORTING followed by more octets,
   REPORTING with a compression pointer inside the option *)
Theorem options_normalised_refuted :
  map (repack K_opt)
    [ [0; 1; 0; 19; 7; 7; 7; 7; 7; 7; 7; 7; 7; 7; 7; 7; 7; 7; 7; 7; 7; 7; 7];
      [0; 2; 0; 8; 0; 0; 0; 5; 0; 0; 0; 0];
      [0; 8; 0; 5; 0; 0; 0; 0; 9];
      [0; 8; 0; 8; 0; 1; 8; 0; 10; 1; 1; 1];
      [0; 9; 0; 5; 1; 2; 3; 4; 5];
      [0; 11; 0; 2; 0; 0];
      [0; 18; 0; 5; 1; 97; 0; 9; 9];
      [0; 18; 0; 7; 1; 97; 192; 4; 1; 98; 0] ] =
    [ Some [0; 1; 0; 18; 7; 7; 7; 7; 7; 7; 7; 7; 7; 7; 7; 7; 7; 7; 7; 7; 7; 7];
      Some [0; 2; 0; 4; 0; 0; 0; 5];
      Some [0; 8; 0; 4; 0; 0; 0; 0];
      Some [0; 8; 0; 5; 0; 1; 8; 0; 10];
      Some [0; 9; 0; 4; 1; 2; 3; 4];
      Some [0; 11; 0; 0];
      Some [0; 18; 0; 3; 1; 97; 0];
      Some [0; 18; 0; 5; 1; 97; 1; 98; 0] ].
Proof. exact opt_normalised_refuted. Qed.
Print Assumptions options_normalised_refuted.

(* an octet string (CAA value) whose text exceeds packStringOctet's 1025 octets
   is decoded but cannot be packed again ([plain_at K_octet]) *)
Theorem octet_string_too_long_refuted :
  decoded K_octet (repeat 92 520) <> None /\ repack K_octet (repeat 92 520) = None.
Proof. exact octet_too_long_refuted. Qed.
Print Assumptions octet_string_too_long_refuted.

(* ---- 3. every kind, every layout, every record type ----
   [plain2 got k msg off off' vals]  the condition above for kind k: names (also
   in lists and as the gateway host) in full; octet-string text within the
   limit; [nsec_plain]; APL addresses masked; [opts_plain]; [svcb_plain]; no
   condition for integers, addresses, character-strings and opaque octets.
   [plain_fields2]  [plain2] for every statement, following the decoder. *)
Theorem field_converse :
  forall (got : rdata) (k k' : fkind) (msg : bytes) (off : N) (vals : list fval) (off' cap : N),
    wfb msg -> kind_agree k k' = true -> off <= lenN msg ->
    unpack_field got k' msg off = Ok (vals, off') -> plain2 got k msg off off' vals ->
    lenN msg + 320 <= cap ->
    off <= off' <= lenN msg /\
    forall (v : rdata) (f : string) (out : bytes),
      Forall2 (fun g y => vget v g = Some y) (knames f k) vals ->
      (forall s, depends_on k = Some s -> vget_n v s = vget_n got s) -> lenN out = off ->
      pack_field v f k cap (st0 out) = Ok (st0 (out ++ take_at msg off (off' - off))).
Proof. exact field_converse_all. Qed.
Print Assumptions field_converse.

Theorem field_sequence_converse :
  forall (cap : N) (ps : list pfield) (us : list ufield) (msg : bytes) (off : N) (gotF : rdata)
         (off' : N) (out : bytes),
    wfb msg -> sides_agree ps us = true -> layout_ok [] ps = true -> off <= lenN msg ->
    unpack_fields us [] msg off = Ok (gotF, off') ->
    plain_fields2 ps us [] msg off -> present ps gotF ->
    lenN msg + 320 <= cap -> lenN out = off ->
    off <= off' <= lenN msg /\
    pack_fields gotF ps cap (st0 out) = Ok (st0 (out ++ take_at msg off (off' - off))).
Proof. exact fields_converse_all_top. Qed.
Print Assumptions field_sequence_converse.

(* a record of ANY type with a layout: no restriction on the field kinds any
   more.  The owner name is written out in full, the RDATA is not empty, unpack()
   ran through all statements, the RDATA octets are canonical ([plain_fields2]) *)
Theorem record_converse :
  forall (msg : bytes) (off : N) (r : rr) (off' : N) (L : tlayout) (ls : list label) (cap : N) (out : bytes),
    wfb msg -> unpack_rr msg off = Ok (r, off') ->
    find_layout layouts (rr_kind r) = Some L ->
    rr_rdlength r <> 0 ->
    valid_wire ls = true -> off + lenN (wire_name ls) <= lenN msg ->
    take_at msg off (lenN (wire_name ls)) = wire_name ls ->
    plain_fields2 (tl_pack L) (tl_unpack L) [] (takeN off' msg) (off + lenN (wire_name ls) + 10) ->
    present (tl_pack L) (rr_data r) ->
    lenN msg + 320 <= cap -> lenN out = off ->
    off < off' <= lenN msg /\
    pack_rr r cap false (st0 out) = Ok (st0 (out ++ take_at msg off (off' - off))).
Proof. exact rr_converse_all. Qed.
Print Assumptions record_converse.

(* all 81 record types of the translated table are in its range *)
Theorem converse_covers_all_types :
  length layouts = 81%nat /\ forallb layout_supported layouts = true.
Proof. split; [exact layouts_count|exact all_layouts_supported]. Qed.
Print Assumptions converse_covers_all_types.

(* the hypotheses rr_rdlength r <> 0 and [present] cannot be dropped, and an
   NSEC record with a zero-ended block: UnpackRR at 0, packRR into an empty buffer *)
Theorem record_repack_not_identical_refuted :
  rr_repack [0; 0; 15; 0; 1; 0; 0; 0; 0; 0; 0] = Some [0; 0; 15; 0; 1; 0; 0; 0; 0; 0; 2; 0; 0] /\
  rr_repack [0; 0; 6; 0; 1; 0; 0; 0; 0; 0; 2; 0; 0] =
    Some [0; 0; 6; 0; 1; 0; 0; 0; 0; 0; 22; 0; 0; 0; 0; 0; 0; 0; 0; 0; 0; 0; 0; 0; 0; 0; 0; 0; 0; 0; 0; 0; 0] /\
  rr_repack [0; 0; 47; 0; 1; 0; 0; 0; 0; 0; 5; 0; 0; 2; 64; 0] = Some [0; 0; 47; 0; 1; 0; 0; 0; 0; 0; 4; 0; 0; 1; 64].
Proof. exact record_repack_refuted. Qed.
Print Assumptions record_repack_not_identical_refuted.

(* non-vacuity: an NSEC record (two bitmap windows) between other octets meets
   every hypothesis of [record_converse], [decoded_record_is_canonical] and
   [record_reunpack_partial], and packs to the octets it was read from *)
Example record_converse_nsec :
  exists r L,
    wfb ex_nsec_wire /\ unpack_rr ex_nsec_wire 3 = Ok (r, 35) /\
    find_layout layouts (rr_kind r) = Some L /\ rr_rdlength r <> 0 /\ valid_wire ex_owner = true /\
    take_at ex_nsec_wire 3 (lenN (wire_name ex_owner)) = wire_name ex_owner /\
    plain_fields2 (tl_pack L) (tl_unpack L) [] (takeN 35 ex_nsec_wire) (3 + lenN (wire_name ex_owner) + 10) /\
    present (tl_pack L) (rr_data r) /\ values_ok (rr_data r) (tl_pack L) /\
    pack_rr r 400 false (st0 [7; 7; 7]) = Ok (st0 (takeN 35 ex_nsec_wire)).
Proof. exact nsec_converse_example. Qed.
(* the same statement ([converse_example w n]) for an HTTPS record (mandatory,
   alpn, port, ipv4hint), an OPT record (SUBNET, COOKIE, EDE, REPORTING), an APL
   record (IPv4 and negated IPv6 prefix), an IPSECKEY with a host-name gateway,
   a HIP record with two rendezvous servers *)
Example record_converse_https : converse_example ex_https_wire 56.
Proof. exact https_converse_example. Qed.
Example record_converse_opt : converse_example ex_opt_wire 59.
Proof. exact opt_converse_example. Qed.
Example record_converse_apl : converse_example ex_apl_wire 40.
Proof. exact apl_converse_example. Qed.
Example record_converse_ipseckey : converse_example ex_ipseckey_wire 31.
Proof. exact ipseckey_converse_example. Qed.
Example record_converse_hip : converse_example ex_hip_wire 38.
Proof. exact hip_converse_example. Qed.

(* ---- 4. the conditions are exact ----
   For each of the kinds added here: the packer writes back msg[off:off'] IF AND
   ONLY IF the condition holds (given room: the cap bounds only exclude the
   overflow errors). *)
Theorem nsec_condition_exact :
  forall (msg : bytes) (off : N) (l : list N) (off' cap : N) (out : bytes),
    wfb msg -> off <= lenN msg -> lenN msg + 320 <= cap -> lenN out = off ->
    unpack_nsec msg off = Ok (l, off') ->
    (pack_nsec l cap (st0 out) = Ok (st0 (out ++ take_at msg off (off' - off))) <->
     nsec_plain (S (length msg)) msg off).
Proof. exact nsec_converse_iff. Qed.
Print Assumptions nsec_condition_exact.

Theorem name_condition_exact :
  forall (msg : bytes) (off : N) (s : bytes) (o cap : N) (c : bool) (out : bytes),
    wfb msg -> off <= lenN msg -> unpack_name msg off = Ok (s, o) ->
    lenN msg + 320 <= cap -> lenN out = off ->
    (pack_name s cap c (st0 out) = Ok (st0 (out ++ take_at msg off (o - off))) <-> name_plain msg off o).
Proof. exact name_converse_iff. Qed.
Print Assumptions name_condition_exact.

Theorem names_condition_exact :
  forall (msg : bytes) (off : N) (l : list bytes) (off' cap : N) (c : bool) (out : bytes),
    wfb msg -> off <= lenN msg -> lenN msg + 320 <= cap -> lenN out = off ->
    unpack_names msg off = Ok (l, off') ->
    (pack_names l cap c (st0 out) = Ok (st0 (out ++ take_at msg off (off' - off))) <-> names_plain msg off).
Proof. exact names_converse_iff. Qed.
Print Assumptions names_condition_exact.

Theorem apl_condition_exact :
  forall (msg : bytes) (off : N) (l : list (bool * N * bytes)) (off' cap : N) (out : bytes),
    wfb msg -> off <= lenN msg -> lenN msg <= cap -> lenN out = off ->
    unpack_apl msg off = Ok (l, off') ->
    (pack_apl l cap (st0 out) = Ok (st0 (out ++ take_at msg off (off' - off))) <-> Forall apl_masked l).
Proof. exact apl_converse_iff. Qed.
Print Assumptions apl_condition_exact.

Theorem options_condition_exact :
  forall (msg : bytes) (off : N) (l : list (N * bytes * N)) (off' cap : N) (out : bytes),
    wfb msg -> off <= lenN msg -> lenN msg <= cap -> lenN out = off ->
    unpack_opts msg off = Ok (l, off') ->
    (pack_opts l cap (st0 out) = Ok (st0 (out ++ take_at msg off (off' - off))) <->
     opts_plain (S (length msg)) msg off).
Proof. exact opts_converse_iff. Qed.
Print Assumptions options_condition_exact.

Theorem svcb_condition_exact :
  forall (msg : bytes) (off : N) (l : list (N * bytes * N)) (off' cap : N) (out : bytes),
    wfb msg -> off <= lenN msg -> lenN msg <= cap -> lenN out = off ->
    unpack_svcb msg off = Ok (l, off') ->
    (pack_svcb l cap (st0 out) = Ok (st0 (out ++ take_at msg off (off' - off))) <->
     svcb_plain (S (length msg)) msg off).
Proof. exact svcb_converse_iff. Qed.
Print Assumptions svcb_condition_exact.

(* the octets the RFC layouts prescribe include WHERE names may be compressed: RFC 3597
   section 4 allows compression pointers in RDATA only for the types of RFC 1035; the
   compress flags of every pack() regenerated from zmsg.go say the same *)
From Dns Require Import Spec.RfcSets.
Theorem rdata_names_are_compressed_only_where_rfc3597_allows :
  forallb (fun L => negb (existsb (fun pf : pfield => compresses (snd pf)) (tl_pack L))
                    || existsb (String.eqb (tl_name L)) rfc1035_compressible) layouts = true.
Proof. exact only_rfc1035_types_compress_rdata. Qed.
Print Assumptions rdata_names_are_compressed_only_where_rfc3597_allows.

(* ================================================================== *)
(* EDNS0 options and SVCB parameters at the level of their Go struct fields
   (Model/OptVal.v: what pack() returns; Model/OptValUnpack.v: makeDataOpt /
   makeSVCBKeyValue followed by the type's unpack(), branch by branch), proofs in
   Proofs/OptValRoundtripProofs.v.  The model functions are compared with the
   real methods on every run (optunpack / svcbunpack cases of Corr/C01.v, optval /
   svcbval cases of Corr/C08.v).

   [opt_wf v]      the fields are in the range of their Go types.
   [opt_rt_ok v]   not an EDNS0_LOCAL carrying a code makeDataOpt knows, not a
                   SUBNET whose SourceScope exceeds the address width (both
                   refuted below).
   [opt_norm v]    the decoder's normal form: lower-case hex text (NSID, COOKIE),
                   the SUBNET address masked, zero-filled and in 16 octet form for
                   family 1, Expire 0 beside Empty.
   REPORTING (code 18) is excluded from the two general EDNS0 statements: its
   codec is the domain name codec of C03/C04 run with a 255 octet buffer. *)
From Dns Require Import Model.OptValUnpack Proofs.OptValRoundtripProofs.

(* value -> wire -> value up to the normal form, and the normal form packs to the same octets *)
Theorem option_value_roundtrip :
  forall (v : optval) (b : bytes),
    opt_wf v = true -> opt_rt_ok v = true -> opt_code v <> 18 -> opt_pack v = Ok b ->
    opt_unpack (opt_code v) b = Ok (opt_norm v) /\ opt_pack (opt_norm v) = Ok b.
Proof. exact opt_pack_unpack_all. Qed.
Print Assumptions option_value_roundtrip.

Theorem option_canonical_value_is_its_normal_form :
  forall v : optval, opt_canon v = true -> opt_norm v = v.
Proof. exact opt_canon_norm. Qed.
Print Assumptions option_canonical_value_is_its_normal_form.

(* pack() writes a SourceScope that unpack() refuses *)
Theorem option_subnet_scope_refuted :
  let v := O_SUBNET 1 24 33 [192; 0; 2; 0] in
  opt_wf v = true /\ opt_pack v = Ok [0; 1; 24; 33; 192; 0; 2] /\
  opt_unpack (opt_code v) [0; 1; 24; 33; 192; 0; 2] = Err "netmask".
Proof. exact subnet_scope_refuted. Qed.
Print Assumptions option_subnet_scope_refuted.

Theorem option_local_with_known_code_refuted :
  opt_pack (O_LOCAL 1 []) = Ok [] /\ opt_unpack 1 [] = Err "buf" /\
  opt_pack (O_LOCAL 3 [171]) = Ok [171] /\ opt_unpack 3 [171] = Ok (O_NSID [97; 98]).
Proof. exact local_known_code_refuted. Qed.
Print Assumptions option_local_with_known_code_refuted.

Theorem option_value_not_canonical_refuted :
  opt_norm (O_NSID [65; 66]) = O_NSID [97; 98] /\
  opt_norm (O_SUBNET 1 8 0 [10; 1; 2; 3]) = O_SUBNET 1 8 0 (v4in6_prefix ++ [10; 0; 0; 0]) /\
  opt_norm (O_EXPIRE 7 true) = O_EXPIRE 0 true.
Proof. exact opt_not_canonical_refuted. Qed.
Print Assumptions option_value_not_canonical_refuted.

(* wire -> value -> wire: whatever unpack accepts packs to exactly the octets the
   octet-level view of Model/Options.v reports (this ties the two models), and
   what unpack refuses the view refuses *)
Theorem option_unpack_then_pack_is_the_view :
  forall (c : N) (b : bytes) (v : optval),
    wfb b -> c <> 18 -> opt_unpack c b = Ok v ->
    exists b', opt_pack v = Ok b' /\ opt_view c b = Some (b', lenN b').
Proof. exact opt_unpack_pack_all. Qed.
Print Assumptions option_unpack_then_pack_is_the_view.

Theorem option_unpack_error_is_the_views :
  forall (c : N) (b : bytes) (e : string), c <> 18 -> opt_unpack c b = Err e -> opt_view c b = None.
Proof. exact opt_unpack_error_view. Qed.
Print Assumptions option_unpack_error_is_the_views.

(* SVCB.  [svcb_rt_ok v]: not an SVCBLocal carrying a key makeSVCBKeyValue knows,
   not an empty address list.  [svcb_norm v]: mandatory keys sorted, IPv4 hints
   in 4 octet form. *)
Theorem svcb_value_roundtrip :
  forall (v : svcbval) (b : bytes),
    svcb_wf v = true -> svcb_rt_ok v = true -> svcb_pack v = Ok b ->
    svcb_unpack (svcb_key v) b = Ok (svcb_norm v) /\ svcb_pack (svcb_norm v) = Ok b.
Proof. exact svcb_pack_unpack_all. Qed.
Print Assumptions svcb_value_roundtrip.

Theorem svcb_canonical_value_is_its_normal_form :
  forall v : svcbval, svcb_canon v = true -> svcb_norm v = v.
Proof. exact svcb_canon_norm. Qed.
Print Assumptions svcb_canonical_value_is_its_normal_form.

Theorem svcb_value_roundtrip_refuted :
  svcb_pack (S_IPV4HINT []) = Ok [] /\ svcb_unpack 4 [] = Err "v4hint" /\
  svcb_pack (S_IPV6HINT []) = Ok [] /\ svcb_unpack 6 [] = Err "v6hintlen" /\
  svcb_pack (S_LOCAL 3 [1]) = Ok [1] /\ svcb_unpack 3 [1] = Err "port".
Proof. exact svcb_roundtrip_refuted. Qed.
Print Assumptions svcb_value_roundtrip_refuted.

Theorem svcb_value_not_canonical_refuted :
  svcb_norm (S_MANDATORY [4; 1]) = S_MANDATORY [1; 4] /\
  svcb_norm (S_IPV4HINT [v4in6_prefix ++ [192; 0; 2; 1]]) = S_IPV4HINT [[192; 0; 2; 1]].
Proof. exact svcb_not_canonical_refuted. Qed.
Print Assumptions svcb_value_not_canonical_refuted.

(* every key, no exception: the octets and the length len() reports *)
Theorem svcb_unpack_then_pack_is_the_view :
  forall (k : N) (b : bytes) (v : svcbval),
    wfb b -> svcb_unpack k b = Ok v ->
    exists b', svcb_pack v = Ok b' /\ svcb_view k b = Some (b', svcb_len v).
Proof. exact svcb_unpack_pack_all. Qed.
Print Assumptions svcb_unpack_then_pack_is_the_view.
