package main

import (
	"bytes"
	"crypto"
	"crypto/ecdsa"
	"io"
	"runtime"
	"strings"
	"sync"
	"time"

	"github.com/miekg/dns"
	. "verif/harness/common"
)

// Concurrency: SIG.Sign and SIG.Verify called from many goroutines at once, on
// different messages, for every algorithm family. Nothing in the property
// restricts it to one caller at a time. Every result is compared with what the
// same call gave when made alone (computed before the goroutines start): the
// signed octets up to the signature are equal (and the signature too for the
// deterministic algorithms), the signer was handed exactly (the hash of) SIG
// RDATA | packed message, the signature checks with crypto/* directly, Verify
// accepts it and rejects it with one bit altered. No oracle depends on time or
// on the schedule: on the unchanged tree every interleaving gives these
// results. What the number of rounds buys is the chance that two calls overlap.

// watchSigner hands the digest to the real key and notes whether it was the
// expected one (RDATA | message for ED25519, its hash otherwise).
type watchSigner struct {
	inner crypto.Signer
	want  []byte
	calls int
	wrong bool
}

func (w *watchSigner) Public() crypto.PublicKey { return w.inner.Public() }
func (w *watchSigner) Sign(rnd io.Reader, digest []byte, opts crypto.SignerOpts) ([]byte, error) {
	w.calls++
	if !bytes.Equal(digest, w.want) {
		w.wrong = true
	}
	return w.inner.Sign(rnd, digest, opts)
}

type concJob struct {
	kp            keyPair
	m             *dns.Msg
	packed, rd    []byte
	incept, until uint32
	seq           []byte // what a lone caller got
	want          []byte // the octets the signer must be handed
	det           bool   // the algorithm is deterministic
	rounds        int
	// results (written by the job's goroutine, read after wg.Wait)
	key, desc, signed string
	round, done       int
	lastOut           []byte
	lastErr           error
	lastVerdict       string
	lastT0, lastT1    uint32
	lastSig           *dns.SIG
}

func (j *concJob) fail(round int, key, desc string, signed []byte) {
	if j.key == "" {
		j.key, j.desc, j.round, j.signed = key, desc, round, Hx(signed)
	}
}

func (j *concJob) run(start <-chan struct{}, wg *sync.WaitGroup) {
	defer wg.Done()
	defer func() {
		if e := recover(); e != nil {
			j.fail(j.done, "C18/Concurrent/panic", "panic in a concurrent Sign/Verify", nil)
		}
	}()
	<-start
	siglen := sigLen(j.kp)
	data := append(append([]byte(nil), j.rd...), j.packed...)
	for i := 0; i < j.rounds; i++ {
		s := newSig(j.kp, j.incept, j.until)
		ws := &watchSigner{inner: j.kp.priv, want: j.want}
		out, err := s.Sign(ws, j.m)
		j.lastOut, j.lastErr, j.lastSig, j.done = out, err, nil, i+1
		if err != nil {
			j.fail(i, "C18/Concurrent/sign-error", "Sign failed while other goroutines sign and verify: "+err.Error(), nil)
			continue
		}
		if ws.calls != 1 || ws.wrong {
			j.fail(i, "C18/Concurrent/signer-input", "the signer was not handed (the hash of) SIG RDATA | packed message", out)
		}
		switch {
		case len(out) != len(j.seq) || !bytes.Equal(out[:len(out)-siglen], j.seq[:len(j.seq)-siglen]):
			j.fail(i, "C18/Concurrent/signed-octets", "signed octets differ from those of the same call made alone", out)
			continue
		case j.det && !bytes.Equal(out, j.seq):
			j.fail(i, "C18/Concurrent/signed-octets", "deterministic algorithm: the signature differs from that of the same call made alone", out)
		}
		if directVerify(j.kp, s.Algorithm, data, out[len(out)-siglen:]) != "ok" {
			j.fail(i, "C18/Concurrent/signature", "signature does not verify over RDATA | message with crypto/* directly", out)
		}
		// a receiver: unpack, take the SIG, verify
		verdict, used, t0, t1 := receive(out, s, j.kp.key)
		j.lastVerdict, j.lastSig, j.lastT0, j.lastT1 = verdict, used, t0, t1
		if verdict != "ok:" {
			j.fail(i, "C18/Concurrent/verify-rejected", "untampered message rejected while other goroutines sign and verify: "+verdict, out)
		}
		// one altered bit of the message proper (the SIG stays the one unpacked)
		mut := append([]byte(nil), out...)
		bit := (i*7919 + len(out)) % (len(j.packed) * 8)
		mut[bit/8] ^= 0x80 >> (bit % 8)
		if v := Protect(func() string { return errClass(s.Verify(j.kp.key, mut)) }); v == "ok:" || v == "panic" {
			j.fail(i, "C18/Concurrent/tampered", "bit "+Itoa(bit)+" altered: "+v, mut)
		}
	}
}

func oracleConcurrent(r *Rng, keys []keyPair, tier string) {
	t0 := time.Now()
	defer func() { st["wall_ms_concurrent"] = int(time.Since(t0).Milliseconds()) }()
	if runtime.GOMAXPROCS(0) < 4 {
		defer runtime.GOMAXPROCS(runtime.GOMAXPROCS(4))
	}
	now := uint32(time.Now().Unix())
	// rounds per goroutine by the cost of the algorithm; four goroutines per key,
	// each with a message of its own (a few hundred octets to ~30 KiB)
	rounds := map[uint8]int{dns.ED25519: 1200, dns.ECDSAP256SHA256: 300, dns.ECDSAP384SHA384: 30,
		dns.RSASHA256: 300, dns.RSASHA1: 300, dns.RSASHA512: 80}
	var jobs []*concJob
	for ki, kp := range keys {
		for g, nrec := range []int{0, 6, 40, 150} {
			m := genMsg(r, 3)
			m.Compress = (ki+g)%2 == 0
			for i := 0; i < nrec; i++ {
				m.Answer = append(m.Answer, &dns.TXT{Hdr: dns.RR_Header{Name: "g" + Itoa(len(jobs)) + ".example.org.", Rrtype: dns.TypeTXT, Class: 1, Ttl: uint32(i)},
					Txt: []string{strings.Repeat(string(rune('a'+len(jobs)%26)), 100+r.Intn(100))}})
			}
			packed, err := m.Pack()
			if err != nil {
				continue
			}
			j := &concJob{kp: kp, m: m, packed: packed, incept: now - 3000, until: now + 3000, rounds: rounds[kp.key.Algorithm]}
			switch n := sigLen(kp); { // large RSA moduli: signing costs milliseconds
			case n >= 512:
				j.rounds = min(j.rounds, 30)
			case n >= 256:
				j.rounds = min(j.rounds, 80)
			}
			if tier == "thorough" {
				j.rounds *= 5
			}
			s := newSig(kp, j.incept, j.until)
			j.rd = sigRdata(s)
			j.seq, err = doSign(s, kp, m)
			if err != nil {
				continue // a lone Sign is judged by oracleMessage
			}
			j.want, _, _ = directHash(kp.key.Algorithm, append(append([]byte(nil), j.rd...), packed...))
			_, isECDSA := kp.priv.Public().(*ecdsa.PublicKey)
			j.det = !isECDSA
			jobs = append(jobs, j)
		}
	}
	start := make(chan struct{})
	var wg sync.WaitGroup
	for _, j := range jobs {
		wg.Add(1)
		go j.run(start, &wg)
	}
	close(start)
	wg.Wait()
	for _, j := range jobs {
		st["concurrent_rounds_checked"] += j.done
		if j.key != "" {
			Viol(j.key, j.desc, c18in{Msg: Hx(j.packed), Signed: j.signed, Alg: j.kp.name, Compress: j.m.Compress, Len: len(j.packed),
				Detail: "round " + Itoa(j.round) + " of " + Itoa(j.rounds) + ", " + Itoa(len(jobs)) + " goroutines, GOMAXPROCS " + Itoa(runtime.GOMAXPROCS(0)),
				KeyRR:  j.kp.key.String()})
		}
		if len(j.packed) < 12000 {
			// the last result of each goroutine against the model
			emitSignResult(j.m, newSig(j.kp, j.incept, j.until), j.kp, j.packed, j.lastOut, j.lastErr)
			if j.lastErr == nil && j.lastSig != nil && j.lastT0 == j.lastT1 {
				emitVerifyResult(j.lastOut, j.lastSig, j.kp, j.kp.key, j.lastVerdict, j.lastT0)
			}
		}
	}
}
