from .core import Check


class C01(Check):
    prop = "C01"
    props_rel = "Props/C01"
    corr_module = "Corr.C01"
    corr_rel = "Corr/C01"
    gen_rels = ["Gen/Layouts", "Gen/Registry", "Gen/Consts", "Gen/Structs", "Gen/Lens"]
    shard_size = 120
    model_desc = ("Model/Rdata.v (field codecs of msg_helpers.go), Model/Msg.v (packRR, UnpackRR, Msg.Pack/Unpack, "
                  "header word, OPT/RCODE split) interpreting the per-type field sequences that tools/gotrans "
                  "regenerates from zmsg.go each run (Gen/Layouts.v), Model/NameWire.v for names; Model/OptVal.v + "
                  "Model/OptValUnpack.v: every EDNS0_*.pack/unpack (makeDataOpt) and SVCB*.pack/unpack/len "
                  "(makeSVCBKeyValue) at Go struct level, Model/Options.v the same codecs as octet-level views")
    rule = ("every registered type x well-formed and ill-formed records (reflection-driven, boundary-biased values), "
            "unknown types as RFC 3597, RDATA-less update records, random messages with shared name suffixes and OPT "
            "in any position, RCODE 0..4095 with/without OPT, header flag words; direct oracles: Unpack(Pack(x)) = x in "
            "every field, Pack(Unpack(octets)) = octets for canonical uncompressed input; model cases: pack octets and "
            "unpacked values for a sample of all of these; struct-level option codecs: generated EDNS0 / SVCB values "
            "(boundary-biased, inconsistent on purpose) packed, unpacked and packed again (oracle: unpack accepts what "
            "pack wrote and repacks to the same octets, outside the two refuted classes), raw value octets of every "
            "length 0..20 for every known and several unknown codes / keys, truncated and over-long packed values, "
            "SUBNET / REPORTING / alpn / hint boundary streams; model cases optunpack / svcbunpack: error class or "
            "decoded value and its repacked octets. Non-trivial: the record has RDATA / the message has records.")
    trusted = ["hex/base64/base32 text codecs of Go's encoding/* are outside the model (fields held as the octets they denote)",
               "inside records and messages EDNS0 option and SVCB parameter values are (code, packed value, length) triples; "
               "their codecs are modelled at Go struct level (Model/OptVal.v, Model/OptValUnpack.v), proved to round-trip and "
               "to agree with the octet-level views (option_value_roundtrip, option_unpack_then_pack_is_the_view, svcb_*), and "
               "compared with the real pack()/unpack() methods on every run (optunpack / svcbunpack cases)"]

    partial = ["EDNS0 REPORTING (code 18) is excluded from option_value_roundtrip / option_unpack_then_pack_is_the_view: its codec is "
               "the domain-name codec with a 255 octet buffer, whose round trip (names_roundtrip) is proved for buffers >= 320; "
               "the REPORTING unpack/pack model is compared with the code on every run",
               "struct-level round trip excludes, with *_refuted witnesses: EDNS0_LOCAL / SVCBLocal carrying a known code / key, "
               "SUBNET SourceScope above the address width (pack writes it, unpack refuses it), empty SVCB address-hint lists",
               "wire -> value -> wire (record_converse) covers all 81 types under the canonicity condition plain_fields2 (names written "
               "in full, canonical bitmap blocks, masked APL addresses, option/SVCB values that their codecs do not normalise) and for "
               "records with RDATA; the non-canonical encodings the decoder accepts and the RDATA-less records are *_refuted witnesses and "
               "harness findings (C01/rdataless-repack/<TYPE>)",
               "the message-level uncompressed round trip is proved through C04's unpack_of_pack for canonical messages; header and "
               "RCODE split by exhaustive kernel-checked sweeps"]

    def nontrivial(self, c):
        if c.get("fn") in ("optunpack", "svcbunpack"):
            return len(c["args"][1]) > 0 and c["out"].startswith("ok:")
        return len(c["args"][0]) > 60


CHECK = C01()
