module verif/harness

go 1.25.0

require github.com/miekg/dns v0.0.0

require (
	golang.org/x/net v0.55.0 // indirect
	golang.org/x/sys v0.45.0 // indirect
)

replace github.com/miekg/dns => /repo
