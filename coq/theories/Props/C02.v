(* Props/C02.v — property C02: decoding hostile wire input never panics, hangs or
   over-produces.  Only statements; proofs in Proofs/Decode*Proofs.v.

   All theorems quantify over EVERY octet string [bs] ([wfb bs]: each element is
   an octet, < 256) — no length bound, no assumption that it is a DNS message.
   [Panic] is a Go run-time panic (index/slice out of range) in the modelled
   code; [OutOfFuel] is the exhaustion of one of the model's iteration budgets,
   which are fixed multiples of the input length (|bs|+1 rounds per list decoder,
   400 steps per name), so "not OutOfFuel" is the statement that the work is
   bounded by the input length whatever counts, RDLENGTHs and pointers claim.
   Real allocation and wall time are measured by the harness (partial). *)
From Dns Require Import Model.Msg Proofs.DecodeNameProofs Proofs.DecodeFieldsProofs Proofs.DecodeMsgProofs Gen.Consts.
Open Scope N_scope.

(* the name decoder: total, at most 400 loop iterations for any pointer graph *)
Theorem name_decoder_never_panics_or_hangs :
  forall (msg : bytes) (off : N),
    unpack_name msg off <> Panic /\ unpack_name msg off <> OutOfFuel.
Proof. exact unpack_name_total. Qed.

(* every name it accepts respects the 63/255-octet limits (it is the text of a
   valid wire name) and the offset it returns lies inside the message *)
Theorem accepted_names_respect_limits :
  forall (msg : bytes) (off : N) (r : bytes * N),
    wfb msg -> unpack_name msg off = Ok r ->
    exists ls, valid_wire ls = true /\ fst r = show_name ls /\ snd r <= lenN msg.
Proof. exact unpack_name_accepts_only_valid. Qed.

(* any generated unpack() (any field sequence, so also every type the
   translator will ever emit): no panic, no exhausted budget, offset in range *)
Theorem rdata_decoders_are_safe :
  forall (l : list ufield) (got : rdata) (msg : bytes) (off : N),
    wfb msg -> off <= lenN msg -> safe off (lenN msg) (unpack_fields l got msg off).
Proof. exact unpack_fields_safe. Qed.

(* a record decoder result ends inside the input *)
Theorem record_decoder_is_safe :
  forall (msg : bytes) (off : N),
    wfb msg -> off <= lenN msg -> safe off (lenN msg) (unpack_rr msg off).
Proof. exact unpack_rr_safe. Qed.

(* the message decoder *)
Theorem message_decoder_never_panics_or_hangs :
  forall bs : bytes, wfb bs -> unpack_msg bs <> Panic /\ unpack_msg bs <> OutOfFuel.
Proof. exact unpack_msg_total. Qed.

(* lying section counts: an accepted message holds at most one record per input
   octet after the header *)
Theorem accepted_records_bounded_by_input :
  forall (bs : bytes) (m : msg),
    wfb bs -> unpack_msg bs = Ok (m, false) ->
    N.of_nat (length (m_question m) + length (m_answer m) + length (m_ns m) + length (m_extra m)) <= lenN bs - 12.
Proof. exact accepted_sections_bounded. Qed.

(* the limits of the model are the constants of the current source (Gen/Consts.v is
   regenerated from msg.go on every run): a changed limit breaks this obligation *)
Theorem decoder_limits_are_the_source_constants :
  max_pointers = Gen.Consts.c_maxCompressionPointers /\
  max_name_wire = Gen.Consts.c_maxDomainNameWireOctets.
Proof. split; reflexivity. Qed.

(* ------------------------------------------------------------------ *)
(* How much can be PRODUCED: the model-level counterpart of "allocates memory
   bounded by a fixed multiple of the input length".  The size of a decoded
   value counts the octets of every string and blob it holds, eight octets per
   integer field, two per type code of a bitmap and one more per element of a
   list; a record adds its owner text and ten octets of header fields, a question
   four, a message twelve (definitions in Proofs/DecodeSizeProofs.v, spelled out
   by the next theorem).  The per-record Go struct is constant and the number of
   records is bounded above (accepted_records_bounded_by_input). *)
From Dns Require Import Proofs.DecodeSizeProofs.

Theorem the_size_measure_is :
  (forall n, fval_size (V_n n) = 8) /\
  (forall s, fval_size (V_s s) = lenN s) /\
  (forall l, fval_size (V_ss l) = sumN (fun s => lenN s + 1) l) /\
  (forall b, fval_size (V_b b) = lenN b) /\
  (forall b, fval_size (V_enc b) = lenN b) /\
  (forall l, fval_size (V_ns l) = 2 * lenN l) /\
  (forall l, fval_size (V_pairs l) = sumN (fun p => lenN (snd (fst p)) + 1) l) /\
  (forall l, fval_size (V_apl l) = sumN (fun p => lenN (snd p) + 1) l) /\
  (forall vs, vals_size vs = sumN fval_size vs) /\
  (forall d, rdata_size d = sumN (fun p => fval_size (snd p)) d) /\
  (forall r, rr_size r = lenN (rr_name r) + 10 + rdata_size (rr_data r)) /\
  (forall q, q_size q = lenN (q_name q) + 4) /\
  (forall m, msg_size m = 12 + sumN q_size (m_question m) + sumN rr_size (m_answer m)
                             + sumN rr_size (m_ns m) + sumN rr_size (m_extra m)).
Proof. repeat split. Qed.
Print Assumptions the_size_measure_is.

(* 1. whatever the compression pointers claim, an accepted name is at most 1004
   characters of text (at most 254 wire octets of labels, each octet printed as
   at most four characters) ... *)
Theorem decoded_name_text_is_bounded :
  forall (msg : bytes) (off : N) (s : bytes) (off' : N),
    unpack_name msg off = Ok (s, off') -> lenN s <= 1004.
Proof. exact unpack_name_text_bounded. Qed.
Print Assumptions decoded_name_text_is_bounded.
(* ... and the bound is attained: 255 wire octets decode to 1004 characters *)
Example decoded_name_text_bound_is_tight :
  match unpack_name long_name_wire 0 with
  | Ok (s, off') => lenN s = 1004 /\ off' = 255 /\ lenN long_name_wire = 255
  | _ => False
  end.
Proof. vm_compute. repeat split. Qed.

(* 2. every statement of a generated unpack() assigns values that hold at most
   field_factor k octets per octet it consumed, with no additive constant; this
   needs no assumption on the octets at all *)
Theorem field_factors_are :
  field_factor K_u8 = 8 /\ field_factor K_u16 = 4 /\ field_factor K_u32 = 2 /\ field_factor K_u48 = 2 /\
  field_factor K_u64 = 1 /\ (forall c, field_factor (K_name c) = 1004) /\ field_factor K_string = 4 /\
  field_factor K_txt = 4 /\ field_factor K_octet = 2 /\ field_factor K_any = 1 /\
  (forall e, field_factor (K_hex e) = 1) /\ (forall e, field_factor (K_hexdash e) = 1) /\
  (forall e, field_factor (K_b64 e) = 1) /\ (forall e, field_factor (K_b32 e) = 1) /\
  field_factor K_a = 1 /\ field_factor K_aaaa = 1 /\ field_factor K_nsec = 16 /\ field_factor K_opt = 64 /\
  field_factor K_svcb = 1 /\ field_factor K_apl = 5 /\ (forall c, field_factor (K_names c) = 1005) /\
  (forall a b c d e, field_factor (K_gateway a b c d e) = 1004) /\
  (forall k, field_factor k <= 1005).
Proof. repeat split. exact field_factor_le. Qed.
Print Assumptions field_factors_are.

Theorem field_decoders_produce_linearly :
  forall (got : rdata) (k : fkind) (msg : bytes) (off : N) (vs : list fval) (off' : N),
    unpack_field got k msg off = Ok (vs, off') ->
    off <= off' /\ vals_size vs <= field_factor k * (off' - off).
Proof. exact unpack_field_size. Qed.
Print Assumptions field_decoders_produce_linearly.
Example field_decoders_produce_linearly_nonvacuous :
  match unpack_field [] (K_names false) (long_name_wire ++ [192; 0; 192; 0]) 0 with
  | Ok (vs, off') => vals_size vs = 3015 /\ off' = 259
  | _ => False
  end.
Proof. vm_compute. repeat split. Qed.

(* the EDNS0 option and SVCB parameter decoders, through their views: what an
   option keeps is never more than its octets or a 255-octet name, a parameter
   never more than its octets; the lists hold at most 64 (resp. 1) per octet *)
Theorem option_views_are_bounded :
  forall (code : N) (data b : bytes) (l : N),
    opt_view code data = Some (b, l) -> l = lenN b /\ lenN b <= N.max (lenN data) 255.
Proof. exact opt_view_len. Qed.
Print Assumptions option_views_are_bounded.
Theorem svcb_views_are_bounded :
  forall (key : N) (data b : bytes) (l : N),
    svcb_view key data = Some (b, l) -> lenN b <= lenN data /\ l <= lenN data.
Proof. exact svcb_view_len. Qed.
Print Assumptions svcb_views_are_bounded.
Theorem option_decoder_produces_linearly :
  forall (msg : bytes) (off : N) (l : list (N * bytes * N)) (off' : N),
    unpack_opts msg off = Ok (l, off') -> off <= off' /\ fval_size (V_pairs l) <= 64 * (off' - off).
Proof. exact unpack_opts_size. Qed.
Print Assumptions option_decoder_produces_linearly.
Theorem svcb_decoder_produces_linearly :
  forall (msg : bytes) (off : N) (l : list (N * bytes * N)) (off' : N),
    unpack_svcb msg off = Ok (l, off') -> off <= off' /\ fval_size (V_pairs l) <= 1 * (off' - off).
Proof. exact unpack_svcb_size. Qed.
Print Assumptions svcb_decoder_produces_linearly.
Example option_decoders_nonvacuous :
  match unpack_opts [0; 18; 0; 3; 1; 97; 0; 0; 10; 0; 3; 1; 2; 3] 0,
        unpack_svcb [0; 0; 0; 4; 0; 3; 0; 1; 0; 3; 0; 2; 1; 187] 0 with
  | Ok (l1, o1), Ok (l2, o2) =>
    fval_size (V_pairs l1) = 3 + 1 + 3 + 1 /\ o1 = 14 /\ fval_size (V_pairs l2) = 4 + 1 + 2 + 1 /\ o2 = 14
  | _, _ => False
  end.
Proof. vm_compute. repeat split. Qed.

(* any generated unpack(), for ANY field sequence (so also every type the
   translator will ever emit): at most 1005 octets held per octet of RDATA read *)
Theorem rdata_decoders_produce_linearly :
  forall (l : list ufield) (got : rdata) (msg : bytes) (off : N) (d : rdata) (off' : N),
    unpack_fields l got msg off = Ok (d, off') ->
    off <= off' /\ rdata_size d <= rdata_size got + 1005 * (off' - off).
Proof. exact unpack_fields_size. Qed.
Print Assumptions rdata_decoders_produce_linearly.

(* 3. UnpackRR.  The additive 10 is only needed for the empty header that is
   returned, without consuming anything, at the very end of the message; a
   record that consumed octets holds at most 1005 per octet *)
Theorem record_decoder_produces_linearly :
  forall (msg : bytes) (off : N) (r : rr) (off' : N),
    unpack_rr msg off = Ok (r, off') ->
    off <= off' /\ rr_size r <= 1005 * (off' - off) + 10 /\
    (off' <> off -> rr_size r <= 1005 * (off' - off)).
Proof. exact unpack_rr_size. Qed.
Print Assumptions record_decoder_produces_linearly.

(* 4. Msg.Unpack: whatever it returns (complete, or cut at the first failing
   section: flag e) holds at most 1008 octets per input octet — section counts,
   RDLENGTHs and pointers notwithstanding *)
Theorem message_decoder_produces_linearly :
  forall (bs : bytes) (m : msg) (e : bool),
    wfb bs -> unpack_msg bs = Ok (m, e) -> msg_size m <= 1008 * lenN bs.
Proof. exact unpack_msg_size. Qed.
Print Assumptions message_decoder_produces_linearly.

(* non-vacuity, and how close to the bound hostile input gets: 2281 octets (one
   HIP record whose 1000 rendezvous servers are pointers to a 255-octet owner
   name) decode to 1006050 octets of values, 441 per input octet *)
Example message_decoder_expansion_witness :
  match unpack_msg (amp_msg 1000) with
  | Ok (m, e) =>
    e = false /\ lenN (amp_msg 1000) = 2281 /\ wfbb (amp_msg 1000) = true /\
    msg_size m = 1006050 /\ 441 * 2281 < msg_size m
  | _ => False
  end.
Proof. vm_compute. repeat split. Qed.
Example record_decoder_nonvacuous :
  match unpack_rr (amp_msg 10) 12 with
  | Ok (r, off') => off' = 301 /\ rr_size r = 11088 /\ rr_kind r = "HIP"%string
  | _ => False
  end.
Proof. vm_compute. repeat split. Qed.
