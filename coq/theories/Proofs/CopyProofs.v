(* Proofs/CopyProofs.v — a copy procedure that is [deep] for the shape of a value
   produces a value none of whose cells is taken over from the original. *)
From Dns Require Import Model.Heap.
From Coq Require Import Lia.
Open Scope N_scope.

(* induction principle for the nested type mshape *)
Lemma mshape_ind' (P : mshape -> Prop) :
  P M0 -> (forall e, P e -> P (MSlice e)) -> (forall ss, Forall P ss -> P (MPtr ss)) ->
  (forall ss, Forall P ss -> P (MStruct ss)) -> P MDyn -> forall s, P s.
Proof.
  intros H0 Hs Hp Ht Hd.
  fix IH 1. intros [|e|ss|ss|].
  - exact H0.
  - apply Hs, IH.
  - apply Hp. induction ss as [|s ss IHss]; constructor; [apply IH|exact IHss].
  - apply Ht. induction ss as [|s ss IHss]; constructor; [apply IH|exact IHss].
  - exact Hd.
Qed.

Section Shapes.
  Context {A : Type}.
  Variable shp : string -> mshape.   (* shape of each dynamic type *)
  Variable env : string -> cproc.    (* its copy procedure *)

  (* a value has the shape its Go type prescribes (no interface values inside) *)
  Fixpoint shape_nd (v : hval A) (s : mshape) {struct s} : Prop :=
    match s, v with
    | M0, HLeaf => True
    | MSlice e, HCell _ es => Forall (fun x => shape_nd x e) es
    | MPtr ss, HCell _ fs =>
      (fix go (ss : list mshape) (fs : list (hval A)) {struct ss} : Prop :=
         match ss, fs with
         | [], [] => True
         | s :: ss', f :: fs' => shape_nd f s /\ go ss' fs'
         | _, _ => False
         end) ss fs
    | MStruct ss, HStruct fs =>
      (fix go (ss : list mshape) (fs : list (hval A)) {struct ss} : Prop :=
         match ss, fs with
         | [], [] => True
         | s :: ss', f :: fs' => shape_nd f s /\ go ss' fs'
         | _, _ => False
         end) ss fs
    | _, _ => False
    end.
  Fixpoint shape (v : hval A) (s : mshape) {struct s} : Prop :=
    match s, v with
    | MDyn, HDyn t x => shape_nd x (shp t)
    | M0, HLeaf => True
    | MSlice e, HCell _ es => Forall (fun x => shape x e) es
    | MPtr ss, HCell _ fs =>
      (fix go (ss : list mshape) (fs : list (hval A)) {struct ss} : Prop :=
         match ss, fs with
         | [], [] => True
         | s :: ss', f :: fs' => shape f s /\ go ss' fs'
         | _, _ => False
         end) ss fs
    | MStruct ss, HStruct fs =>
      (fix go (ss : list mshape) (fs : list (hval A)) {struct ss} : Prop :=
         match ss, fs with
         | [], [] => True
         | s :: ss', f :: fs' => shape f s /\ go ss' fs'
         | _, _ => False
         end) ss fs
    | _, _ => False
    end.

  Definition fresh_only (v : hval (A + unit)) : Prop :=
    Forall (fun i => match i with inr _ => True | inl _ => False end) (ids v).

  Lemma fresh_only_cell es : Forall fresh_only es -> fresh_only (HCell (inr tt) es).
  Proof.
    unfold fresh_only. cbn. intro H. constructor; [exact I|].
    induction H as [|e es He _ IH]; cbn; [constructor|]. apply Forall_app. split; assumption.
  Qed.
  Lemma fresh_only_struct es : Forall fresh_only es -> fresh_only (HStruct es).
  Proof.
    unfold fresh_only. cbn. intro H.
    induction H as [|e es He _ IH]; cbn; [constructor|]. apply Forall_app. split; assumption.
  Qed.

  (* values without mutable memory: sharing them is harmless *)
  Lemma share_immutable : forall s v,
    deep_nd P_share s = true -> shape_nd v s -> ids (keep v) = [].
  Proof.
    induction s as [|e IH|ss IH|ss IH|] using mshape_ind'; intros v Hd Hs; try discriminate.
    - destruct v; try contradiction. reflexivity.
    - destruct v as [|id es|fs|t x]; try contradiction. cbn [deep_nd] in Hd. cbn [keep ids].
      cbn [shape_nd] in Hs. revert fs Hd Hs.
      induction IH as [|s ss Hs0 _ IHss]; intros fs Hd Hs; destruct fs as [|f fs]; try contradiction; [reflexivity|].
      cbn [forallb] in Hd. apply andb_prop in Hd. destruct Hd as [Hd1 Hd2]. destruct Hs as [Hs1 Hs2].
      cbn [map flat_map]. rewrite (Hs0 f Hd1 Hs1). cbn [app]. apply IHss; assumption.
  Qed.
  Lemma share_immutable' : forall s v,
    deep P_share s = true -> shape v s -> ids (keep v) = [].
  Proof.
    induction s as [|e IH|ss IH|ss IH|] using mshape_ind'; intros v Hd Hs; try discriminate.
    - destruct v; try contradiction. reflexivity.
    - destruct v as [|id es|fs|t x]; try contradiction. cbn [deep] in Hd. cbn [keep ids].
      cbn [shape] in Hs. revert fs Hd Hs.
      induction IH as [|s ss Hs0 _ IHss]; intros fs Hd Hs; destruct fs as [|f fs]; try contradiction; [reflexivity|].
      cbn [forallb] in Hd. apply andb_prop in Hd. destruct Hd as [Hd1 Hd2]. destruct Hs as [Hs1 Hs2].
      cbn [map flat_map]. rewrite (Hs0 f Hd1 Hs1). cbn [app]. apply IHss; assumption.
  Qed.

  Lemma fresh_only_nil v : ids v = [] -> fresh_only v.
  Proof. unfold fresh_only. intros ->. constructor. Qed.

  (* without dynamic dispatch *)
  Lemma deep_nd_fresh : forall s p v,
    deep_nd p s = true -> shape_nd v s -> fresh_only (apply_nd p v).
  Proof.
    induction s as [|e IH|ss IH|ss IH|] using mshape_ind'; intros p v Hd Hs.
    - destruct p; try discriminate. destruct v; try contradiction. cbn. constructor.
    - destruct p as [|pe|ps|ps|]; try discriminate. destruct v as [|id es|fs|t x]; try contradiction.
      cbn [deep_nd] in Hd. cbn [shape_nd] in Hs. cbn [apply_nd].
      apply fresh_only_cell. induction Hs as [|x es Hx _ IHes]; cbn; constructor; auto.
    - destruct p as [|pe|ps|ps|]; try discriminate. destruct v as [|id fs|fs|t x]; try contradiction.
      cbn [deep_nd] in Hd. cbn [shape_nd] in Hs. cbn [apply_nd].
      apply fresh_only_cell. revert ps fs Hd Hs.
      induction IH as [|s ss Hs0 _ IHss]; intros ps fs Hd Hs;
        destruct ps as [|p ps]; destruct fs as [|f fs]; try contradiction; try discriminate.
      + constructor.
      + apply andb_prop in Hd. destruct Hd as [Hd1 Hd2]. destruct Hs as [Hs1 Hs2].
        constructor; [apply Hs0; assumption|apply IHss; assumption].
    - destruct p as [|pe|ps|ps|]; try discriminate.
      + (* a struct of immutable fields shared as a whole *)
        apply fresh_only_nil.
        assert (H : apply_nd P_share v = keep v) by (destruct v; reflexivity). rewrite H.
        apply (share_immutable (MStruct ss)); assumption.
      + destruct v as [|id fs|fs|t x]; try contradiction.
        cbn [deep_nd] in Hd. cbn [shape_nd] in Hs. cbn [apply_nd].
        apply fresh_only_struct. revert ps fs Hd Hs.
        induction IH as [|s ss Hs0 _ IHss]; intros ps fs Hd Hs;
          destruct ps as [|p ps]; destruct fs as [|f fs]; try contradiction; try discriminate.
        * constructor.
        * apply andb_prop in Hd. destruct Hd as [Hd1 Hd2]. destruct Hs as [Hs1 Hs2].
          constructor; [apply Hs0; assumption|apply IHss; assumption].
    - destruct p; discriminate.
  Qed.

  Hypothesis env_deep : forall t, deep_nd (env t) (shp t) = true.

  (* the main lemma: a deep procedure leaves no cell of the original in the copy *)
  Lemma deep_fresh : forall s p v,
    deep p s = true -> shape v s -> fresh_only (apply env p v).
  Proof.
    induction s as [|e IH|ss IH|ss IH|] using mshape_ind'; intros p v Hd Hs.
    - destruct p; try discriminate. destruct v; try contradiction. cbn. constructor.
    - destruct p as [|pe|ps|ps|]; try discriminate. destruct v as [|id es|fs|t x]; try contradiction.
      cbn [deep] in Hd. cbn [shape] in Hs. cbn [apply].
      apply fresh_only_cell. induction Hs as [|x es Hx _ IHes]; cbn; constructor; auto.
    - destruct p as [|pe|ps|ps|]; try discriminate. destruct v as [|id fs|fs|t x]; try contradiction.
      cbn [deep] in Hd. cbn [shape] in Hs. cbn [apply].
      apply fresh_only_cell. revert ps fs Hd Hs.
      induction IH as [|s ss Hs0 _ IHss]; intros ps fs Hd Hs;
        destruct ps as [|p ps]; destruct fs as [|f fs]; try contradiction; try discriminate.
      + constructor.
      + apply andb_prop in Hd. destruct Hd as [Hd1 Hd2]. destruct Hs as [Hs1 Hs2].
        constructor; [apply Hs0; assumption|apply IHss; assumption].
    - destruct p as [|pe|ps|ps|]; try discriminate.
      + apply fresh_only_nil.
        assert (H : apply env P_share v = keep v) by (destruct v; reflexivity). rewrite H.
        apply (share_immutable' (MStruct ss)); assumption.
      + destruct v as [|id fs|fs|t x]; try contradiction.
        cbn [deep] in Hd. cbn [shape] in Hs. cbn [apply].
        apply fresh_only_struct. revert ps fs Hd Hs.
        induction IH as [|s ss Hs0 _ IHss]; intros ps fs Hd Hs;
          destruct ps as [|p ps]; destruct fs as [|f fs]; try contradiction; try discriminate.
        * constructor.
        * apply andb_prop in Hd. destruct Hd as [Hd1 Hd2]. destruct Hs as [Hs1 Hs2].
          constructor; [apply Hs0; assumption|apply IHss; assumption].
    - destruct p; try discriminate. destruct v as [|id fs|fs|t x]; try contradiction.
      cbn [shape] in Hs. cbn [apply]. unfold fresh_only. cbn [ids].
      apply (deep_nd_fresh (shp t)); [apply env_deep|exact Hs].
  Qed.
End Shapes.
