// C01: records that sit in the MIDDLE of a larger buffer, through every exported decoding entry point.
//
// The per-record checks of main.go decode a record from a buffer that holds exactly that record, so the end
// of the buffer and the end of the RDATA coincide and a decoder that reads "to the end of msg" instead of
// "to the end of the RDATA" is never noticed.  Here every registered type (plus unknown types held as RFC 3597
// data, RDATA-less update records and a user-registered private type) is packed, preceded by 0..n octets and
// followed by (a) another record, (b) arbitrary octets, (c) nothing, and decoded with
//   - UnpackRR(buf, off),
//   - UnpackRRWithHeader(h, buf, off') with a header the caller parsed himself and the WHOLE buffer (and with
//     the buffer cut at the end of the RDATA, the way unpackHeader hands it over),
//   - Msg.Unpack of a message that holds the record between two others (and as the last one).
// Oracle (property text: "unpacking those octets yields a message equal to the original in every ... field",
// "unpacking ... and packing the result reproduces the same octets"): each entry point yields a record equal
// to the original and to what the other entry points yield, the returned offset is exactly the end of the
// record, and packing the decoded record reproduces the record's octets.  What surrounds a record is not part
// of it.  Records whose plain round trip (exact buffer) already fails are reported by checkRR under its own
// keys and are left out here.
// Model cases: unpack_rr at a non-zero offset in a buffer with trailing octets / a trailing record.
package main

import (
	"bytes"
	"encoding/binary"
	"strings"

	"github.com/miekg/dns"
	. "verif/harness/common"
)

type inMid struct {
	Type   string `json:"type"`
	RR     string `json:"rr_text"`
	Buf    string `json:"buffer_hex"`
	Off    int    `json:"off"`
	RecLen int    `json:"record_octets"`
	Entry  string `json:"entry_point"`
	After  string `json:"followed_by"`
}

// the header as a caller reads it who wants to peek before deciding to decode: name, then ten octets
func peekHeader(buf []byte, off int) (h dns.RR_Header, rdoff int, ok bool) {
	r := Protect(func() string {
		name, o, err := dns.UnpackDomainName(buf, off)
		if err != nil || o+10 > len(buf) {
			return "err"
		}
		h.Name = name
		h.Rrtype = binary.BigEndian.Uint16(buf[o:])
		h.Class = binary.BigEndian.Uint16(buf[o+2:])
		h.Ttl = binary.BigEndian.Uint32(buf[o+4:])
		h.Rdlength = binary.BigEndian.Uint16(buf[o+8:])
		rdoff = o + 10
		return "ok"
	})
	return h, rdoff, r == "ok"
}

func unpackWithHeader(h dns.RR_Header, buf []byte, off int) string {
	return Protect(func() string {
		x, o, err := dns.UnpackRRWithHeader(h, buf, off)
		if err != nil {
			return "err:" + err.Error()
		}
		if x == nil {
			return "err:nil record"
		}
		t, _ := RRText(x)
		return "ok:" + t + "@" + Itoa(o)
	})
}

// a message built by hand around the given records: 12 octets of header, one question, the records as
// PackRR wrote them (uncompressed) in the answer section
func handMsg(recs [][]byte) ([]byte, int) {
	w := []byte{0x12, 0x34, 0x80, 0x00, 0, 1, 0, byte(len(recs)), 0, 0, 0, 0}
	w = append(w, 1, 'q', 7, 'e', 'x', 'a', 'm', 'p', 'l', 'e', 0, 0, 1, 0, 1)
	first := len(w)
	for _, r := range recs {
		w = append(w, r...)
	}
	return w, first
}

type midStats struct{ emitted map[uint16]int }

// rr packs to w; want is the text of the record UnpackRR yields from exactly w.  hasData: RDLENGTH > 0.
func checkMid(r *Rng, ms *midStats, tname string, typ uint16, w []byte, want string, repack bool, neighbours [][]byte, emit bool) {
	rrTextAt := func(off int) string { return "ok:" + want + "@" + Itoa(off) }
	prefixes := []int{0, 1, 12, 2 + r.Intn(60)}
	type tail struct {
		kind string
		b    []byte
	}
	nb := neighbours[r.Intn(len(neighbours))]
	tails := []tail{
		{"another record", nb},
		{"nothing", nil},
		{"one zero octet", []byte{0}},
		{"random octets", r.Bytes(1 + r.Intn(40))},
		{"octets 0xff", bytes.Repeat([]byte{0xff}, 1+r.Intn(8))},
		{"small length octets", []byte{1, 'a', 0, 0, 1, 0, 1, 0, 0, 0, 0, 0, 0}},
	}
	for pi, p := range prefixes {
		for ti, tl := range tails {
			// quick tier: not the full product for every record, but every tail kind with some prefix
			if pi != 0 && (pi+ti)%2 == 0 && tl.kind != "another record" {
				continue
			}
			buf := append(r.Bytes(p), w...)
			buf = append(buf, tl.b...)
			end := p + len(w)
			in := func(entry string) inMid { return inMid{tname, want, Hx(buf), p, len(w), entry, tl.kind} }
			st["mid_cases"]++

			// (i) UnpackRR
			got, rr1 := unpackRR(buf, p)
			if emit && ms.emitted[typ] < 2 && len(tl.b) > 0 && p > 0 && len(buf) < 1500 {
				Emit("unpack_rr", []string{Hx(buf), Itoa(p)}, got)
				ms.emitted[typ]++
				st["model_unpack_rr_mid"]++
			}
			if got != rrTextAt(end) {
				Viol("C01/"+tname+"/midbuffer", "UnpackRR of a record inside a larger buffer does not yield the record and its end offset ("+Itoa(end)+"): "+clip(got), in("UnpackRR"))
				continue
			}
			if repack && rr1 != nil {
				if pr, w2 := packRR(rr1, len(w)+16); !strings.HasPrefix(pr, "ok:") || !bytes.Equal(w, w2) {
					Viol("C01/"+tname+"/midbuffer", "packing the record UnpackRR took from inside a larger buffer does not reproduce its octets: "+clip(pr), in("UnpackRR"))
				}
			}

			// (ii) UnpackRRWithHeader, header read by the caller, whole buffer and buffer cut at the end of the RDATA
			h, rdoff, ok := peekHeader(buf, p)
			if !ok || rdoff+int(h.Rdlength) != end {
				Viol("C01/"+tname+"/midbuffer", "the header of the packed record does not delimit it (harness walker)", in("header"))
				continue
			}
			for _, cut := range []bool{false, true} {
				b, entry := buf, "UnpackRRWithHeader(h, whole buffer, off)"
				if cut {
					b, entry = buf[:end], "UnpackRRWithHeader(h, buffer[:end of RDATA], off)"
				}
				g := unpackWithHeader(h, b, rdoff)
				st["mid_withheader"]++
				if g != rrTextAt(end) {
					Viol("C01/"+tname+"/midbuffer", entry+" does not yield the record UnpackRR yields and its end offset ("+Itoa(end)+"): "+clip(g), in(entry))
					continue
				}
				if repack {
					x, _, _ := dns.UnpackRRWithHeader(h, b, rdoff)
					if pr, w2 := packRR(x, len(w)+16); !strings.HasPrefix(pr, "ok:") || !bytes.Equal(w, w2) {
						Viol("C01/"+tname+"/midbuffer", "packing the record "+entry+" yields does not reproduce its octets: "+clip(pr), in(entry))
					}
				}
			}
		}
	}

	// (iii) Msg.Unpack: first, middle and last record of a hand-built message
	a, b := neighbours[r.Intn(len(neighbours))], neighbours[r.Intn(len(neighbours))]
	for pos, recs := range [][][]byte{{w, a, b}, {a, w, b}, {a, b, w}, {w}} {
		if pos == 3 {
			pos = 0
		}
		mw, _ := handMsg(recs)
		var m dns.Msg
		res := Protect(func() string {
			if err := m.Unpack(mw); err != nil {
				return "err:" + err.Error()
			}
			return "ok"
		})
		st["mid_msg_cases"]++
		in := inMid{tname, want, Hx(mw), -1, len(w), "Msg.Unpack, answer " + Itoa(pos) + " of " + Itoa(len(recs)), "see buffer"}
		if res != "ok" || len(m.Answer) != len(recs) {
			Viol("C01/"+tname+"/midbuffer", "Msg.Unpack of a message holding the record among others fails or miscounts: "+clip(res)+", answers "+Itoa(len(m.Answer)), in)
			continue
		}
		if got, _ := RRText(m.Answer[pos]); got != want {
			Viol("C01/"+tname+"/midbuffer", "Msg.Unpack yields another record than UnpackRR for the same octets: "+clip(got), in)
			continue
		}
		if repack {
			if pr, w2 := packRR(m.Answer[pos], len(w)+16); !strings.HasPrefix(pr, "ok:") || !bytes.Equal(w, w2) {
				Viol("C01/"+tname+"/midbuffer", "packing the record Msg.Unpack yields does not reproduce its octets: "+clip(pr), in)
			}
		}
	}
}

func clip(s string) string {
	if len(s) > 300 {
		return s[:300] + "..."
	}
	return s
}

func runMidBuffer(r *Rng, tier string) {
	per := 3
	if tier == "thorough" {
		per = 40
	}
	pool := &NamePool{R: r}
	ms := &midStats{emitted: map[uint16]int{}}
	types := append(AllTypes(), 65280, 1234, 0xFFFE)

	// neighbours: short records of assorted layouts (fixed, name, run-to-end text, bitmap, opaque)
	var neighbours [][]byte
	for _, t := range []uint16{dns.TypeA, dns.TypeMX, dns.TypeTXT, dns.TypeNSEC, dns.TypeNULL, dns.TypeSOA, dns.TypeDNSKEY, 65280} {
		for k := 0; k < 4 && len(neighbours) < 24; k++ {
			rr, info := GenRR(r, pool, t, false)
			if !info.WellFormed {
				continue
			}
			if pr, w := packRR(rr, dns.Len(rr)+64); strings.HasPrefix(pr, "ok:") && len(w) < 600 {
				neighbours = append(neighbours, w)
			}
		}
	}
	neighbours = append(neighbours, []byte{1, 'n', 0, 0, 1, 0, 1, 0, 0, 0, 9, 0, 4, 192, 0, 2, 7})

	one := func(rr dns.RR, typ uint16, wf bool, emit bool) {
		tname := dns.TypeToString[typ]
		if tname == "" {
			tname = "TYPE" + Itoa(int(typ))
		}
		capN := dns.Len(rr) + 64
		pr, w := packRR(rr, capN)
		if !strings.HasPrefix(pr, "ok:") {
			st["mid_skipped_does_not_pack"]++
			return
		}
		base, rr0 := unpackRR(w, 0)
		if rr0 == nil {
			st["mid_skipped_baseline"]++
			return
		}
		want, _ := RRText(rr0)
		if base != "ok:"+want+"@"+Itoa(len(w)) {
			st["mid_skipped_baseline"]++
			return
		}
		repack := false
		if wf {
			// the plain round trip is checkRR's business; here only records for which it holds
			after, _ := RRText(rr)
			if after != want {
				st["mid_skipped_baseline"]++
				return
			}
			if pr2, w2 := packRR(rr0, capN); strings.HasPrefix(pr2, "ok:") && bytes.Equal(w, w2) {
				repack = true
			}
		}
		st["mid_records"]++
		checkMid(r, ms, tname, typ, w, want, repack, neighbours, emit)
	}

	for _, t := range types {
		for i := 0; i < per; i++ {
			rr, info := GenRR(r, pool, t, false)
			one(rr, t, info.WellFormed, true)
		}
		// whatever else packs and decodes from its own octets decodes the same from inside a buffer
		for i := 0; i < per/3+1; i++ {
			rr, _ := GenRR(r, pool, t, true)
			one(rr, t, false, false)
		}
		// RDATA-less record of this type (dynamic update)
		if _, ok := dns.TypeToRR[t]; ok && t != dns.TypeOPT {
			one(&dns.ANY{Hdr: dns.RR_Header{Name: pool.Name(), Rrtype: t, Class: dns.ClassANY}}, t, false, false)
		}
	}

	// a user-registered private type whose Unpack takes all it is given
	{
		const code = 65283
		dns.PrivateHandle("VMIDT", code, func() dns.PrivateRdata { return new(c01Priv) })
		for i := 0; i < per+2; i++ {
			rr := dns.TypeToRR[code]().(*dns.PrivateRR)
			rr.Hdr = dns.RR_Header{Name: pool.Name(), Rrtype: code, Class: 1, Ttl: uint32(r.Next())}
			rr.Data.(*c01Priv).b = r.Bytes(1 + r.Intn(30))
			pr, w := packRR(rr, 400)
			if !strings.HasPrefix(pr, "ok:") {
				continue
			}
			_, rr0 := unpackRR(w, 0)
			p0, ok := rr0.(*dns.PrivateRR)
			if !ok || !bytes.Equal(p0.Data.(*c01Priv).b, rr.Data.(*c01Priv).b) {
				continue
			}
			want, _ := RRText(rr0)
			st["mid_records"]++
			checkMid(r, ms, "PrivateRR", code, w, want, true, neighbours, false)
			// RRText may not show private RDATA: look at it directly
			buf := append(r.Bytes(5), w...)
			buf = append(buf, neighbours[0]...)
			chk := func(x dns.RR, entry string) {
				if p, ok := x.(*dns.PrivateRR); !ok || !bytes.Equal(p.Data.(*c01Priv).b, rr.Data.(*c01Priv).b) {
					Viol("C01/PrivateRR/midbuffer", entry+" hands a private type's Unpack other octets than the record's RDATA", inMid{"PrivateRR", want, Hx(buf), 5, len(w), entry, "another record"})
				}
			}
			if x, o, err := dns.UnpackRR(buf, 5); err == nil && o == 5+len(w) {
				chk(x, "UnpackRR")
			} else {
				chk(nil, "UnpackRR")
			}
			if h, rdoff, ok := peekHeader(buf, 5); ok {
				x, _, err := dns.UnpackRRWithHeader(h, buf, rdoff)
				if err != nil {
					x = nil
				}
				chk(x, "UnpackRRWithHeader(h, whole buffer, off)")
			}
		}
		dns.PrivateHandleRemove(code)
	}
}
