(* Props/C15.v — property C15 (incoming zone transfers deliver the zone
   exactly, stop at the right SOA, hide no error).  Statements only.

   Reading guide.  [in_axfr mac verify tsig qid m0 reads] / [in_ixfr ... qser
   m0 reads] (Model/Xfr.v) are the loops of Transfer.inAxfr / inIxfr: [reads]
   is what successive Transfer.ReadMsg calls return (an envelope, or a failed
   read with its error class; after the list the peer has closed), the result
   is the list of Envelope{RR, Error} values sent on the channel, after which
   the Go code closes connection and channel.  [verify] is TSIG verification
   of one envelope against the running MAC and is universally quantified.
   [axfr_stream]/[ixfr_stream]/[is_split] (Spec/RfcXfr.v) are the RFC 5936 /
   RFC 1995 record streams and the ways of cutting them into envelopes. *)
From Dns Require Import Model.Xfr Spec.RfcXfr Proofs.XfrProofs.
Open Scope N_scope.

(* AXFR: for EVERY way of cutting the stream SOA, zone records, SOA into
   non-empty envelopes, exactly the transmitted envelopes are delivered, in
   order, without error, and nothing after the closing SOA is read ([rest] is
   arbitrary and untouched).  With TSIG on, provided the envelopes verify in
   chain. *)
Theorem axfr_exact :
  forall (mac : Type) (verify : mac -> bool -> env -> vres mac) (qid : N) (tsig : bool)
         (soa : rr) (body : list rr) (soa' : rr) (es : list env) (rest : list rd) (m0 : mac),
    axfr_wf soa body soa' ->
    Forall (fun e => e_id e = qid /\ e_rcode e = 0) es ->
    is_split (map e_rrs es) (axfr_stream soa body soa') ->
    (tsig = true -> chain_ok mac verify m0 false es) ->
    in_axfr mac verify tsig qid m0 (map RMsg es ++ rest) = map (fun e => mkItem (e_rrs e) None) es.
Proof. exact axfr_exact_any. Qed.

(* AXFR, early end: the connection ends or a read fails at any envelope
   boundary before the closing SOA: the envelopes so far, then one error. *)
Theorem axfr_early_eof :
  forall (mac : Type) (verify : mac -> bool -> env -> vres mac) (qid : N)
         (soa : rr) (body : list rr) (soa' : rr) (p post : list env) (tail : list rd) (c : string) (m0 : mac),
    axfr_wf soa body soa' ->
    Forall (fun e => e_id e = qid /\ e_rcode e = 0) (p ++ post) ->
    is_split (map e_rrs (p ++ post)) (axfr_stream soa body soa') -> post <> [] ->
    (tail = [] /\ c = "read"%string \/ exists t, tail = RFail c :: t) ->
    in_axfr mac verify false qid m0 (map RMsg p ++ tail) =
    map (fun e => mkItem (e_rrs e) None) p ++ [mkItem [] (Some c)].
Proof. exact axfr_early_eof. Qed.

(* IXFR, RFC 1995 difference sequences (one or more): every split. *)
Theorem ixfr_exact :
  forall (mac : Type) (verify : mac -> bool -> env -> vres mac) (qid qser : N) (tsig : bool)
         (cur : N) (soa : rr) (ds : list diff) (soa' : rr) (es : list env) (rest : list rd) (m0 : mac),
    ixfr_wf cur soa ds soa' -> serial_newer cur qser = true ->
    Forall (fun e => e_id e = qid /\ e_rcode e = 0) es ->
    is_split (map e_rrs es) (ixfr_stream soa ds soa') ->
    (tsig = true -> chain_ok mac verify m0 false es) ->
    in_ixfr mac verify tsig qid qser m0 (map RMsg es ++ rest) = map (fun e => mkItem (e_rrs e) None) es.
Proof. exact ixfr_exact_any. Qed.

(* the sequences as RFC 1995 section 4 orders them satisfy [wf_diffs] *)
Theorem rfc1995_sequences_wf :
  forall (from cur : N) (ds : list diff), rfc1995_chain from cur ds -> from < cur /\ wf_diffs cur ds.
Proof. exact rfc1995_chain_wf. Qed.

(* IXFR answered AXFR-style (second record not an SOA): every split. *)
Theorem ixfr_axfr_fallback :
  forall (mac : Type) (verify : mac -> bool -> env -> vres mac) (qid qser : N) (tsig : bool)
         (cur : N) (soa : rr) (body : list rr) (soa' : rr) (es : list env) (rest : list rd) (m0 : mac),
    axfr_wf soa body soa' -> r_serial soa = cur -> r_serial soa' = cur -> serial_newer cur qser = true ->
    Forall (fun e => e_id e = qid /\ e_rcode e = 0) es ->
    is_split (map e_rrs es) (axfr_stream soa body soa') ->
    (tsig = true -> chain_ok mac verify m0 false es) ->
    in_ixfr mac verify tsig qid qser m0 (map RMsg es ++ rest) = map (fun e => mkItem (e_rrs e) None) es.
Proof. exact ixfr_fallback_any. Qed.

(* IXFR "up to date": first envelope starts with an SOA whose serial is not
   newer than the query's in RFC 1982 arithmetic ([serial_newer], the Go
   expression int32(serial-qser) > 0): that envelope is delivered and the
   transfer ends.  The single-SOA answer is the case x = []. *)
Theorem ixfr_uptodate :
  forall (mac : Type) (verify : mac -> bool -> env -> vres mac) (qid qser : N) (tsig : bool)
         (e : env) (soa : rr) (x : list rr) (rest : list rd) (m0 m' : mac),
    read_msg mac verify tsig m0 false (RMsg e) = VOk (e, m') ->
    e_id e = qid -> e_rcode e = 0 ->
    e_rrs e = soa :: x -> r_soa soa = true -> serial_newer (r_serial soa) qser = false ->
    in_ixfr mac verify tsig qid qser m0 (RMsg e :: rest) = [mkItem (e_rrs e) None].
Proof. exact ixfr_uptodate_any. Qed.

Theorem ixfr_early_eof :
  forall (mac : Type) (verify : mac -> bool -> env -> vres mac) (qid qser : N)
         (cur : N) (soa : rr) (ds : list diff) (soa' : rr) (p post : list env) (tail : list rd) (c : string) (m0 : mac),
    ixfr_wf cur soa ds soa' -> serial_newer cur qser = true ->
    Forall (fun e => e_id e = qid /\ e_rcode e = 0) (p ++ post) ->
    is_split (map e_rrs (p ++ post)) (ixfr_stream soa ds soa') -> post <> [] ->
    (tail = [] /\ c = "read"%string \/ exists t, tail = RFail c :: t) ->
    in_ixfr mac verify false qid qser m0 (map RMsg p ++ tail) =
    map (fun e => mkItem (e_rrs e) None) p ++ [mkItem [] (Some c)].
Proof. exact ixfr_early_eof_diffs. Qed.

Theorem ixfr_fallback_early_eof :
  forall (mac : Type) (verify : mac -> bool -> env -> vres mac) (qid qser : N)
         (cur : N) (soa : rr) (body : list rr) (soa' : rr) (p post : list env) (tail : list rd) (c : string) (m0 : mac),
    axfr_wf soa body soa' -> r_serial soa = cur -> r_serial soa' = cur -> serial_newer cur qser = true ->
    Forall (fun e => e_id e = qid /\ e_rcode e = 0) (p ++ post) ->
    is_split (map e_rrs (p ++ post)) (axfr_stream soa body soa') -> post <> [] ->
    (tail = [] /\ c = "read"%string \/ exists t, tail = RFail c :: t) ->
    in_ixfr mac verify false qid qser m0 (map RMsg p ++ tail) =
    map (fun e => mkItem (e_rrs e) None) p ++ [mkItem [] (Some c)].
Proof. exact ixfr_early_eof_fallback. Qed.

(* First envelope: wrong ID, non-zero RCODE, first record not an SOA. *)
Theorem axfr_first_envelope_errors :
  forall (mac : Type) (verify : mac -> bool -> env -> vres mac) (tsig : bool) (qid : N)
         (e : env) (m' : mac) (rs : list rd) (m0 : mac),
    read_msg mac verify tsig m0 false (RMsg e) = VOk (e, m') ->
    in_axfr mac verify tsig qid m0 (RMsg e :: rs) =
    if negb (e_id e =? qid) then [mkItem (e_rrs e) (Some "id"%string)]
    else if negb (e_rcode e =? 0) then [mkItem (e_rrs e) (Some "rcode"%string)]
    else if negb (is_soa_first (e_rrs e)) then [mkItem (e_rrs e) (Some "soa"%string)]
    else in_axfr mac verify tsig qid m0 (RMsg e :: rs).
Proof. exact axfr_first_errors. Qed.

Theorem ixfr_first_envelope_errors :
  forall (mac : Type) (verify : mac -> bool -> env -> vres mac) (tsig : bool) (qid qser : N)
         (e : env) (m' : mac) (rs : list rd) (m0 : mac),
    read_msg mac verify tsig m0 false (RMsg e) = VOk (e, m') ->
    in_ixfr mac verify tsig qid qser m0 (RMsg e :: rs) =
    if negb (e_id e =? qid) then [mkItem (e_rrs e) (Some "id"%string)]
    else if negb (e_rcode e =? 0) then [mkItem (e_rrs e) (Some "rcode"%string)]
    else if negb (is_soa_first (e_rrs e)) then [mkItem (e_rrs e) (Some "soa"%string)]
    else in_ixfr mac verify tsig qid qser m0 (RMsg e :: rs).
Proof. exact ixfr_first_errors. Qed.

(* Any position: the result is always a run of error-free items, one per
   envelope read, each from an envelope with the query's ID and RCODE 0,
   followed by nothing or by exactly one error item.  So a wrong ID or a
   non-zero RCODE anywhere is never delivered as good data, and nothing is
   delivered after an error. *)
Theorem axfr_items_checked :
  forall (mac : Type) (verify : mac -> bool -> env -> vres mac) (qid : N) (tsig : bool) (m0 : mac) (rs : list rd),
    exists es rest tl, rs = map RMsg es ++ rest /\
      in_axfr mac verify tsig qid m0 rs = map (fun e => mkItem (e_rrs e) None) es ++ tl /\
      Forall (fun e => e_id e = qid /\ e_rcode e = 0) es /\
      (tl = [] \/ exists rrs c, tl = [mkItem rrs (Some c)]).
Proof. exact axfr_items_checked. Qed.

Theorem ixfr_items_checked :
  forall (mac : Type) (verify : mac -> bool -> env -> vres mac) (qid qser : N) (tsig : bool) (m0 : mac) (rs : list rd),
    exists es rest tl, rs = map RMsg es ++ rest /\
      in_ixfr mac verify tsig qid qser m0 rs = map (fun e => mkItem (e_rrs e) None) es ++ tl /\
      Forall (fun e => e_id e = qid /\ e_rcode e = 0) es /\
      (tl = [] \/ exists rrs c, tl = [mkItem rrs (Some c)]).
Proof. exact ixfr_items_checked. Qed.

(* TSIG.  With a provider configured the loops behave exactly as without one
   on the read list cut at the first envelope that does not verify against
   the running MAC chain, that envelope replaced by a failed read. *)
Theorem tsig_factor_axfr :
  forall (mac : Type) (verify : mac -> bool -> env -> vres mac) (qid : N) (m0 : mac) (rs : list rd),
    in_axfr mac verify true qid m0 rs = in_axfr mac verify false qid m0 (vfilter mac verify m0 false rs).
Proof. exact tsig_factor_axfr. Qed.

Theorem tsig_factor_ixfr :
  forall (mac : Type) (verify : mac -> bool -> env -> vres mac) (qid qser : N) (m0 : mac) (rs : list rd),
    in_ixfr mac verify true qid qser m0 rs = in_ixfr mac verify false qid qser m0 (vfilter mac verify m0 false rs).
Proof. exact tsig_factor_ixfr. Qed.

(* No transfer is reported complete and error-free unless every envelope
   that was read verified against the running MAC chain. *)
Theorem axfr_complete_implies_all_verified :
  forall (mac : Type) (verify : mac -> bool -> env -> vres mac) (qid : N) (m0 : mac) (rs : list rd),
    complete (in_axfr mac verify true qid m0 rs) = true ->
    exists es rest, rs = map RMsg es ++ rest /\ chain_ok mac verify m0 false es /\
      in_axfr mac verify true qid m0 rs = map (fun e => mkItem (e_rrs e) None) es.
Proof. exact axfr_complete_verified. Qed.

Theorem ixfr_complete_implies_all_verified :
  forall (mac : Type) (verify : mac -> bool -> env -> vres mac) (qid qser : N) (m0 : mac) (rs : list rd),
    complete (in_ixfr mac verify true qid qser m0 rs) = true ->
    exists es rest, rs = map RMsg es ++ rest /\ chain_ok mac verify m0 false es /\
      in_ixfr mac verify true qid qser m0 rs = map (fun e => mkItem (e_rrs e) None) es.
Proof. exact ixfr_complete_verified. Qed.

(* An envelope that does not verify against the MAC the chain has reached
   (altered, reordered, dropped predecessor, unsigned, wrong key) behaves as a
   failed read with that error: it and everything after it is never delivered. *)
Theorem axfr_tampered_envelope_errors :
  forall (mac : Type) (verify : mac -> bool -> env -> vres mac) (qid : N)
         (pre : list env) (e : env) (rest : list rd) (m0 m : mac) (to : bool) (c : string),
    chain_end mac verify m0 false pre = Some (m, to) -> verify m to e = VErr c ->
    in_axfr mac verify true qid m0 (map RMsg pre ++ RMsg e :: rest) =
    in_axfr mac verify false qid m0 (map RMsg pre ++ [RFail c]).
Proof. exact tampered_axfr. Qed.

Theorem ixfr_tampered_envelope_errors :
  forall (mac : Type) (verify : mac -> bool -> env -> vres mac) (qid qser : N)
         (pre : list env) (e : env) (rest : list rd) (m0 m : mac) (to : bool) (c : string),
    chain_end mac verify m0 false pre = Some (m, to) -> verify m to e = VErr c ->
    in_ixfr mac verify true qid qser m0 (map RMsg pre ++ RMsg e :: rest) =
    in_ixfr mac verify false qid qser m0 (map RMsg pre ++ [RFail c]).
Proof. exact tampered_ixfr. Qed.

(* A deviation of xfr.go for a malformed sender, as a fact about the model
   (see docs/C15.md). *)

(* inAxfr looks only at the last record of an envelope: records after the
   closing SOA in the same envelope keep it reading. *)
Theorem axfr_trailing_records_keep_reading :
  forall (mac : Type) (verify : mac -> bool -> env -> vres mac) (qid : N)
         (soa : rr) (x t : list rr) (e : env) (rs : list rd) (m0 : mac),
    e_id e = qid -> e_rcode e = 0 -> e_rrs e = soa :: x ++ t -> r_soa soa = true ->
    t <> [] -> nosoa t ->
    in_axfr mac verify false qid m0 (RMsg e :: rs) =
    mkItem (e_rrs e) None :: axfr_loop mac verify false qid false m0 true rs.
Proof. exact axfr_trailing_keeps_reading_first. Qed.
