(* Model/Frame.v — property C12: two-octet length framing over streams
   (client.go Conn.ReadMsgHeader / Read / Write, server.go readTCP /
   serveTCPConn / response.Write) and reply/ID matching in
   Client.ExchangeWithConnContext.  A stream is what successive Read calls on
   the net.Conn return: a list of chunks (any segmentation, empty chunks
   allowed) followed by EOF.  Definitions only. *)
From Dns Require Export Base.Bytes.
Open Scope N_scope.

Definition MaxMsgSize : N := 65535.
Definition headerSize : nat := 12.

(* ---------- io.ReadFull over a chunked stream ---------- *)
Inductive rf_result :=
| RfOk (got : bytes) (rest : list bytes)   (* buffer filled; what the conn still holds *)
| RfEOF                                    (* io.EOF: no octet read *)
| RfUnexpectedEOF.                         (* io.ErrUnexpectedEOF: some but not all *)

(* io.ReadFull(conn, buf) with len(buf) = n: Read is called until n octets
   have arrived; each call returns (part of) the next chunk; a call that returns
   zero octets and no error is simply repeated. *)
Fixpoint read_full (cs : list bytes) (n : nat) (got : bytes) : rf_result :=
  match n with
  | O => RfOk got cs
  | S _ =>
    match cs with
    | [] => match got with [] => RfEOF | _ => RfUnexpectedEOF end
    | c :: r =>
      if Nat.leb (length c) n then read_full r (n - length c) (got ++ c)
      else RfOk (got ++ firstn n c) (skipn n c :: r)
    end
  end.

(* ---------- reading one frame ---------- *)
Inductive frame_result :=
| FrMsg (m : bytes) (rest : list bytes)
| FrErr (c : string) (rest : list bytes)   (* an error that leaves the stream usable *)
| FrEnd (c : string).                      (* eof / unexpected-eof: nothing more to read *)

Definition be16 (l : bytes) : nat := N.to_nat (nth 0 l 0 * 256 + nth 1 l 0).

(* server.go readTCP: binary.Read of the length, make([]byte, length), io.ReadFull *)
Definition read_tcp (cs : list bytes) : frame_result :=
  match read_full cs 2 [] with
  | RfOk lenb cs' =>
    match read_full cs' (be16 lenb) [] with
    | RfOk m cs'' => FrMsg m cs''
    | RfEOF => FrEnd "eof"
    | RfUnexpectedEOF => FrEnd "unexpected-eof"
    end
  | RfEOF => FrEnd "eof"
  | RfUnexpectedEOF => FrEnd "unexpected-eof"
  end.

(* client.go Conn.ReadMsgHeader over a stream: as readTCP, then n < headerSize
   is ErrShortRead (the frame has been consumed, the stream stays in step) *)
Definition read_msg_header (cs : list bytes) : frame_result :=
  match read_tcp cs with
  | FrMsg m rest => if Nat.ltb (length m) headerSize then FrErr "short-read" rest else FrMsg m rest
  | r => r
  end.

(* client.go Conn.Read(p) over a stream with len(p) = bufsize: a frame longer
   than the buffer is io.ErrShortBuffer (after the length has been consumed) *)
Definition conn_read (bufsize : nat) (cs : list bytes) : frame_result :=
  match read_full cs 2 [] with
  | RfOk lenb cs' =>
    if Nat.ltb bufsize (be16 lenb) then FrErr "short-buffer" cs'
    else
      match read_full cs' (be16 lenb) [] with
      | RfOk m cs'' => FrMsg m cs''
      | RfEOF => FrEnd "eof"
      | RfUnexpectedEOF => FrEnd "unexpected-eof"
      end
  | RfEOF => FrEnd "eof"
  | RfUnexpectedEOF => FrEnd "unexpected-eof"
  end.

(* server.go serveTCPConn: frames are read and served one after the other until
   the first read error (or the query limit); the result is the list of
   messages handed to serveDNS and the error that ended the loop. *)
Fixpoint serve_tcp_conn (fuel : nat) (limit : nat) (cs : list bytes) : res (list bytes * string) :=
  match fuel with
  | O => OutOfFuel
  | S f =>
    match limit with
    | O => Ok ([], "limit"%string)
    | S l =>
      match read_tcp cs with
      | FrMsg m rest =>
        do r <- serve_tcp_conn f l rest;
        Ok (m :: fst r, snd r)
      | FrErr c _ => Ok ([], c)
      | FrEnd c => Ok ([], c)
      end
    end
  end.

Definition stream_len (cs : list bytes) : nat := length (concat cs).
(* every frame consumes at least its two length octets *)
Definition serve_tcp (limit : nat) (cs : list bytes) : res (list bytes * string) :=
  serve_tcp_conn (S (stream_len cs)) limit cs.

(* successive Conn.ReadMsgHeader calls by a client that goes on after a short
   frame, until the stream ends *)
Fixpoint read_all_client (fuel : nat) (cs : list bytes) : res (list (res bytes) * string) :=
  match fuel with
  | O => OutOfFuel
  | S f =>
    match read_msg_header cs with
    | FrMsg m rest => do r <- read_all_client f rest; Ok (Ok m :: fst r, snd r)
    | FrErr c rest => do r <- read_all_client f rest; Ok (Err c :: fst r, snd r)
    | FrEnd c => Ok ([], c)
    end
  end.

(* ---------- writing ---------- *)
(* the framing of one message *)
Definition frame (m : bytes) : bytes := u16 (lenN m) ++ m.

(* client.go Conn.Write / server.go response.Write over a stream: refuse more
   than MaxMsgSize octets, else ONE Write call with the length-prefixed copy *)
Definition write_frame (m : bytes) : res bytes :=
  if MaxMsgSize <? lenN m then Err "too-large" else Ok (frame m).

(* ---------- exchange ---------- *)
Definition msg_id (m : bytes) : N := nth 0 m 0 * 256 + nth 1 m 0.

Section Exchange.
  (* Msg.Unpack succeeds on these octets (the decoder itself is property C02) *)
  Variable decodes : bytes -> bool.

  (* Conn.ReadMsg over a stream *)
  Definition read_msg_stream (cs : list bytes) : frame_result :=
    match read_msg_header cs with
    | FrMsg m rest => if decodes m then FrMsg m rest else FrErr "unpack" rest
    | r => r
    end.

  (* ExchangeWithConnContext, stream branch, after the request with ID qid has
     been written: one ReadMsg, then the ID test *)
  Definition exchange_stream (qid : N) (cs : list bytes) : res bytes :=
    match read_msg_stream cs with
    | FrMsg m _ => if msg_id m =? qid then Ok m else Err "id"
    | FrErr c _ => Err c
    | FrEnd c => Err c
    end.

  (* Conn.ReadMsg over a datagram socket: one Read into a buffer of bufsize
     octets (longer datagrams are cut by the socket), n < headerSize is
     ErrShortRead, then Unpack *)
  Definition read_msg_dgram (bufsize : nat) (d : bytes) : res bytes :=
    let p := firstn bufsize d in
    if Nat.ltb (length p) headerSize then Err "short-read"
    else if decodes p then Ok p else Err "unpack".

  (* ExchangeWithConnContext, datagram branch: read until an error or a reply
     with the request's ID; when the script of arriving datagrams is exhausted
     the read deadline fires *)
  Fixpoint exchange_dgram (bufsize : nat) (qid : N) (ds : list bytes) : res bytes :=
    match ds with
    | [] => Err "timeout"
    | d :: r =>
      match read_msg_dgram bufsize d with
      | Ok p => if msg_id p =? qid then Ok p else exchange_dgram bufsize qid r
      | Err c => Err c
      | Panic => Panic
      | OutOfFuel => OutOfFuel
      end
    end.

  (* The same with a clock.  Arrivals carry the time (any unit, counted from the
     moment the request was written) at which they become readable, in arrival
     order.  The read deadline is fixed ONCE, before the request is written
     (co.SetReadDeadline(readDeadline)); no later event moves it.  A read that
     starts or is still blocked at the deadline fails with a timeout, so the
     exchange sees exactly the arrivals that come before the deadline. *)
  Definition arrived_before (deadline : N) (arr : list (N * bytes)) : list bytes :=
    map snd (filter (fun a => fst a <? deadline) arr).

  Definition exchange_dgram_timed (bufsize : nat) (qid : N) (deadline : N)
             (arr : list (N * bytes)) : res bytes :=
    exchange_dgram bufsize qid (arrived_before deadline arr).
  (* ---- several exchanges on ONE Conn ---- *)
  (* The receive size is a field of the Conn (Conn.UDPSize) which
     ExchangeWithConnContext sets for EVERY exchange before it writes the
     request: from the OPT record of the query when it advertises at least 512
     octets, else (no OPT record) from Client.UDPSize when that is at least 512,
     else it stays what the Conn had. *)
  Definition conn_udpsize (client_size conn_size : N) (opt : option N) : N :=
    match opt with
    | Some s => if 512 <=? s then s else conn_size
    | None => if 512 <=? client_size then client_size else conn_size
    end.

  (* Conn.ReadMsgHeader: a buffer of UDPSize octets, at least 512 *)
  Definition dgram_bufsize (udpsize : N) : nat := N.to_nat (N.max 512 udpsize).

  (* exchange_dgram that also returns what stays queued on the socket *)
  Fixpoint exchange_dgram_rest (bufsize : nat) (qid : N) (ds : list bytes) : res bytes * list bytes :=
    match ds with
    | [] => (Err "timeout", [])
    | d :: r =>
      match read_msg_dgram bufsize d with
      | Ok p => if msg_id p =? qid then (Ok p, r) else exchange_dgram_rest bufsize qid r
      | e => (e, r)
      end
    end.

  (* a session: exchange i has the ID qid, the advertised size opt and finds
     the datagrams still queued plus those that arrive for it *)
  Fixpoint exchange_session (client_size conn_size : N) (queue : list bytes)
           (xs : list (N * option N * list bytes)) : list (res bytes) :=
    match xs with
    | [] => []
    | (qid, opt, arrivals) :: r =>
      let cs := conn_udpsize client_size conn_size opt in
      let o := exchange_dgram_rest (dgram_bufsize cs) qid (queue ++ arrivals) in
      fst o :: exchange_session client_size cs (snd o) r
    end.
End Exchange.

(* The deadline of an exchange: Client.Timeout when set, else Client.ReadTimeout
   when set, else dnsTimeout (2 s); the earlier of that and the deadline of the
   context when it has one.  Times in microseconds, 0 = not set. *)
Definition dns_timeout_us : N := 2000000.
Definition client_read_timeout (timeout read_timeout : N) : N :=
  if timeout =? 0 then (if read_timeout =? 0 then dns_timeout_us else read_timeout) else timeout.
Definition exchange_deadline (timeout read_timeout : N) (ctx : option N) : N :=
  match ctx with
  | Some c => N.min (client_read_timeout timeout read_timeout) c
  | None => client_read_timeout timeout read_timeout
  end.

(* ---------- a recipe language for large streams (correspondence only) ---------- *)
(* pseudo-random octets both sides can expand: x' = (1103515245 x + 12345) mod 2^31,
   octet = bits 16..23 (bit operations only, so that vm_compute is fast) *)
Fixpoint prng (n : nat) (x : N) : bytes :=
  match n with
  | O => []
  | S k => let x' := N.land (1103515245 * x + 12345) 2147483647 in
           N.land (N.shiftr x' 16) 255 :: prng k x'
  end.

(* cut s into chunks of the given sizes; what is left is the last chunk *)
Fixpoint cut (sizes : list nat) (s : bytes) : list bytes :=
  match sizes with
  | [] => match s with [] => [] | _ => [s] end
  | n :: r => firstn n s :: cut r (skipn n s)
  end.

(* an order-sensitive checksum, to compare long octet strings:
   acc' = (31 acc + b + 1) mod 2^32 *)
Fixpoint wsum (l : bytes) (i acc : N) : N :=
  match l with
  | [] => acc
  | b :: r => wsum r i (N.land (31 * acc + b + 1) 4294967295)
  end.
