(* Proofs/PresentTxtProofs.v — character-string lists (C05): what sprintTxt
   prints is read back by the lexer and endingToTxtSlice (with its 255-octet
   chunking) as the same strings, for every list of octet strings. *)
From Dns Require Import Base.ListX Model.Present Proofs.EscapeProofs Proofs.PresentEscProofs Proofs.PresentLexProofs.
From Coq Require Import Lia ZifyN ZifyNat ZifyBool.
Open Scope N_scope.

(* no dangling backslash: the escape automaton ends in the unescaped state *)
Fixpoint complete (esc : bool) (s : bytes) : bool :=
  match s with
  | [] => negb esc
  | x :: r => if esc then complete false r else if x =? 92 then complete true r else complete false r
  end.

Lemma qbody_complete s : forall esc, qbody_ok esc s = true -> complete esc s = true.
Proof.
  induction s as [|x r IH]; intros esc H; [exact H|].
  cbn [qbody_ok complete] in *. destruct esc; [now apply IH|].
  destruct (x =? 92); [now apply IH|]. destruct (x =? 34); [discriminate|now apply IH].
Qed.

Lemma is_digit_not_bsl d : is_digit d = true -> (d =? 92) = false.
Proof. unfold is_digit. lia. Qed.

Definition U (s : bytes) : N := N.of_nat (length (unescape s)).

Lemma complete_unescape_nil_n n : forall s, (length s <= n)%nat ->
  complete false s = true -> unescape s = [] -> s = [].
Proof.
  induction n as [|n IH]; intros s Hl Hc Hu.
  - destruct s; [reflexivity|cbn in Hl; lia].
  - destruct s as [|b r]; [reflexivity|]. exfalso. cbn [unescape complete] in *.
    destruct (b =? 92); [|discriminate].
    destruct r as [|d1 r1]; [discriminate|].
    destruct r1 as [|d2 [|d3 r3]]; try discriminate.
    destruct (is_digit d1 && is_digit d2 && is_digit d3); discriminate.
Qed.
Lemma complete_unescape_nil s : complete false s = true -> unescape s = [] -> s = [].
Proof. apply (complete_unescape_nil_n (length s)). lia. Qed.

(* escapedStringOffset counts exactly the octets the string denotes *)
Lemma eso_spec fuel : forall s i cur d, (length s < fuel)%nat -> complete false s = true ->
  (cur + U s < d -> eso_loop fuel s i cur d = Some (-1)%Z) /\
  (cur + U s = d -> cur < d -> eso_loop fuel s i cur d = Some (Z.of_N (i + lenN s))).
Proof.
  induction fuel as [|f IH]; intros s i cur d Hl Hc; [lia|].
  destruct s as [|b r].
  - split; intros; [reflexivity|]. unfold U in *. cbn in *. lia.
  - cbn [eso_loop]. unfold U in *. cbn [unescape complete] in *.
    destruct (b =? 92) eqn:Hb.
    + cbn [negb].
      destruct r as [|d1 r1]; [discriminate|].
      cbn [complete] in Hc.
      (* the three shapes of what follows the backslash *)
      assert (Hstep : forall n rest, (n = 2%nat \/ n = 4%nat) -> skipn n (b :: d1 :: r1) = rest ->
                 lenN (b :: d1 :: r1) = N.of_nat n + lenN rest ->
                 complete false rest = true -> (length rest < f)%nat ->
                 forall tail, length (unescape rest) = tail ->
                 (cur + N.of_nat (S tail) < d ->
                  (if d <=? cur + 1 then Some (Z.of_N (i + N.of_nat n)) else eso_loop f rest (i + N.of_nat n) (cur + 1) d) = Some (-1)%Z) /\
                 (cur + N.of_nat (S tail) = d -> cur < d ->
                  (if d <=? cur + 1 then Some (Z.of_N (i + N.of_nat n)) else eso_loop f rest (i + N.of_nat n) (cur + 1) d)
                  = Some (Z.of_N (i + lenN (b :: d1 :: r1))))).
      { intros n rest Hn Hs Hlen Hcr Hlr tail Ht.
        destruct (IH rest (i + N.of_nat n) (cur + 1) d Hlr Hcr) as [I1 I2]. unfold U in I1, I2. rewrite Ht in I1, I2.
        split.
        - intro Hlt. destruct (d <=? cur + 1) eqn:E; [lia|]. apply I1. lia.
        - intros Heq Hcd. destruct (d <=? cur + 1) eqn:E.
          + assert (Hz : tail = 0%nat) by lia. rewrite Hz in Ht.
            apply length_zero_iff_nil in Ht. apply complete_unescape_nil in Ht; [|exact Hcr].
            rewrite Hlen, Ht. unfold lenN. cbn [length]. f_equal. lia.
          + rewrite I2 by lia. f_equal. rewrite Hlen. lia. }
      destruct r1 as [|d2 [|d3 r3]].
      * cbn [is_ddd]. apply (Hstep 2%nat []); try reflexivity; auto. cbn [length] in *. lia.
      * cbn [is_ddd]. apply (Hstep 2%nat [d2]); try reflexivity; auto. cbn [length] in *. lia.
      * cbn [is_ddd]. destruct (is_digit d1 && is_digit d2 && is_digit d3) eqn:Hd.
        -- apply andb_prop in Hd. destruct Hd as [Hd12 Hd3]. apply andb_prop in Hd12. destruct Hd12 as [Hd1 Hd2].
           apply (Hstep 4%nat r3); try reflexivity; auto.
           ++ unfold lenN. cbn [length]. lia.
           ++ cbn [complete] in Hc. rewrite (is_digit_not_bsl d2 Hd2), (is_digit_not_bsl d3 Hd3) in Hc. exact Hc.
           ++ cbn [length] in *. lia.
        -- apply (Hstep 2%nat (d2 :: d3 :: r3)); try reflexivity; auto.
           ++ unfold lenN. cbn [length]. lia.
           ++ cbn [length] in *. lia.
    + cbn [negb].
      destruct (IH r (i + N.of_nat 1) (cur + 1) d) as [I1 I2]; [cbn in Hl; lia|exact Hc|]. unfold U in *.
      cbn [skipn length]. split.
      * intro Hlt. destruct (d <=? cur + 1) eqn:E; [lia|]. apply I1. lia.
      * intros Heq Hcd. destruct (d <=? cur + 1) eqn:E.
        -- assert (Hz : length (unescape r) = 0%nat) by lia.
           apply length_zero_iff_nil in Hz. apply complete_unescape_nil in Hz; [|exact Hc]. subst r.
           unfold lenN. cbn [length]. f_equal; lia.
        -- rewrite I2 by lia. f_equal. unfold lenN. cbn [length]. lia.
Qed.

(* a string denoting at most 255 octets is one chunk *)
Lemma txt_chunks_single s : complete false s = true -> (length (unescape s) <= 255)%nat ->
  txt_chunks s = Ok [s].
Proof.
  intros Hc Hl. unfold txt_chunks. cbn [chunks_loop]. unfold escaped_string_offset.
  replace (255 =? 0) with false by reflexivity.
  destruct (eso_spec (S (length s)) s 0 0 255) as [E1 E2]; [lia|exact Hc|]. unfold U in *.
  destruct (Nat.eq_dec (length (unescape s)) 255) as [Heq|Hne].
  - rewrite E2 by lia. replace (0 + lenN s) with (lenN s) by lia.
    replace (Z.of_N (lenN s) =? -1)%Z with false by lia.
    replace (Z.to_nat (Z.of_N (lenN s))) with (length s) by (unfold lenN; lia).
    rewrite Nat.eqb_refl. reflexivity.
  - rewrite E1 by lia. reflexivity.
Qed.

(* ---- endingToTxtSlice on the tokens of quoted strings ---- *)
Lemma etts_quoted q rest acc e :
  (q = [] \/ txt_chunks q = Ok [q]) ->
  etts_go (item_toks (IQuoted q) ++ rest) acc false e = etts_go rest (acc ++ [q]) false true.
Proof.
  intros H. cbn [item_toks]. destruct q as [|x q].
  - cbn [is_nil app etts_go andb negb]. rewrite andb_false_r. reflexivity.
  - destruct H as [H|H]; [discriminate|].
    cbn [is_nil app etts_go andb negb]. rewrite andb_false_r, H. cbn [bind]. reflexivity.
Qed.

Definition chunk_ok (q : bytes) : Prop := q = [] \/ txt_chunks q = Ok [q].

Lemma etts_quoted_list qs : forall acc e, Forall chunk_ok qs ->
  etts_go (items_toks (map IQuoted qs) ++ [TNewline]) acc false e = Ok (acc ++ qs).
Proof.
  induction qs as [|q r IH]; intros acc e H.
  - cbn. now rewrite app_nil_r.
  - inversion H as [|? ? Hq Hr]; subst. cbn [map items_toks].
    destruct r as [|q2 r2].
    + cbn [map]. rewrite etts_quoted by exact Hq. cbn [etts_go]. reflexivity.
    + cbn [map]. rewrite <- app_assoc. rewrite etts_quoted by exact Hq.
      cbn [app etts_go]. change (IQuoted q2 :: map IQuoted r2) with (map IQuoted (q2 :: r2)).
      rewrite IH by exact Hr. now rewrite <- app_assoc.
Qed.

(* sprintTxt prints the strings as quoted items separated by one blank *)
Lemma sprint_txt_go_items ss : forall first, ss <> [] ->
  sprint_txt_go first ss = (if first then [] else [32]) ++ render_items (map (fun s => IQuoted (sprint_txt_body s)) ss).
Proof.
  induction ss as [|s r IH]; intros first Hne; [congruence|].
  cbn [sprint_txt_go map render_items render_item].
  destruct r as [|s2 r2].
  - cbn [sprint_txt_go map]. destruct first; cbn [app]; now rewrite ?app_nil_r.
  - rewrite (IH false) by discriminate. cbn [map].
    destruct first; cbn [app]; rewrite <- ?app_assoc; reflexivity.
Qed.
Lemma sprint_txt_items ss : sprint_txt ss = render_items (map (fun s => IQuoted (sprint_txt_body s)) ss).
Proof.
  destruct ss as [|s r]; [reflexivity|]. unfold sprint_txt. now rewrite sprint_txt_go_items by discriminate.
Qed.

Definition str_ok (s : bytes) : Prop := wfb s /\ (length (unescape s) <= 255)%nat.

Lemma printed_item_ok s : wfb s -> item_ok (IQuoted (sprint_txt_body s)) = true.
Proof. intro H. cbn [item_ok]. rewrite sprint_txt_body_spec. apply qbody_esc_wire, unescape_wfb, H. Qed.

Lemma printed_chunk_ok s : str_ok s -> chunk_ok (sprint_txt_body s).
Proof.
  intros [Hw Hl]. right. apply txt_chunks_single.
  - apply qbody_complete. apply (printed_item_ok s Hw).
  - now rewrite unescape_sprint_txt_body.
Qed.

(* every list of in-memory strings: print, lex, endingToTxtSlice *)
Theorem txt_print_read ss : Forall str_ok ss ->
  ending_to_txt_slice (lex_rdata (sprint_txt ss ++ [10])) = Ok (map sprint_txt_body ss) /\
  map unescape (map sprint_txt_body ss) = map unescape ss.
Proof.
  intro H. split.
  - rewrite sprint_txt_items, lexer_on_printed.
    + unfold ending_to_txt_slice. rewrite <- (map_map sprint_txt_body IQuoted).
      rewrite etts_quoted_list; [reflexivity|].
      rewrite Forall_map. eapply Forall_impl; [|exact H]. intros s Hs. now apply printed_chunk_ok.
    + rewrite forallb_forall. intros i Hi. apply in_map_iff in Hi. destruct Hi as (s & <- & Hs).
      rewrite Forall_forall in H. apply printed_item_ok, (H s Hs).
  - rewrite map_map. apply map_ext_in. intros s Hs. rewrite Forall_forall in H.
    apply unescape_sprint_txt_body, (H s Hs).
Qed.

(* from the wire: every list of octet strings of at most 255 octets each *)
Theorem txt_escape_roundtrip ws :
  Forall (fun w => wfb w /\ (length w <= 255)%nat) ws ->
  ending_to_txt_slice (lex_rdata (sprint_txt (map esc_wire ws) ++ [10])) = Ok (map esc_wire ws) /\
  map unescape (map esc_wire ws) = ws.
Proof.
  intro H.
  assert (Hs : Forall str_ok (map esc_wire ws)).
  { rewrite Forall_map. eapply Forall_impl; [|exact H]. intros w [Hw Hl]. split.
    - unfold esc_wire. clear Hl. induction Hw as [|b w Hb _ IH]; [constructor|]. cbn [flat_map].
      apply Forall_app. split; [|exact IH]. unfold write_txt_byte, ddd.
      destruct ((b =? 34) || (b =? 92)); [repeat constructor; lia|].
      destruct ((b <? 32) || (126 <? b)); repeat constructor; lia.
    - now rewrite unescape_esc_wire. }
  destruct (txt_print_read _ Hs) as [P1 P2]. split.
  - rewrite P1. f_equal. rewrite map_map. apply map_ext_in. intros w Hw.
    rewrite Forall_forall in H. apply sprint_txt_body_canonical, (H w Hw).
  - rewrite map_map. rewrite <- (map_id ws) at 2. apply map_ext_in. intros w Hw.
    rewrite Forall_forall in H. apply unescape_esc_wire, (H w Hw).
Qed.

Lemma wfbb_wfb l : wfbb l = true -> wfb l.
Proof.
  unfold wfbb, wfb. rewrite forallb_forall, Forall_forall. intros H x Hx. specialize (H x Hx). lia.
Qed.

(* non-vacuity: the empty string, a 255-octet string of non-ASCII octets, specials *)
Example txt_example :
  let ws := [[]; repeat 200 255; [34; 92; 32; 59; 40; 41; 10; 0]; [92; 49; 50; 51]] in
  Forall (fun w => wfb w /\ (length w <= 255)%nat) ws /\
  ending_to_txt_slice (lex_rdata (sprint_txt (map esc_wire ws) ++ [10])) = Ok (map esc_wire ws).
Proof.
  cbv zeta. split.
  - apply Forall_forall. intros w Hw.
    assert (C : forallb (fun w => wfbb w && Nat.leb (length w) 255)
                  [[]; repeat 200 255; [34; 92; 32; 59; 40; 41; 10; 0]; [92; 49; 50; 51]] = true) by (vm_compute; reflexivity).
    rewrite forallb_forall in C. specialize (C w Hw). apply andb_prop in C. destruct C as [C1 C2].
    split; [now apply wfbb_wfb|]. now apply Nat.leb_le.
  - vm_compute. reflexivity.
Qed.
