package main

// C15, round 4: what the zone is made of and how long an envelope is.
//
//   * records of every registered type (common.GenRR over common.AllTypes, and
//     SVCB / HTTPS records with every SvcParam kind) travel in early envelopes;
//     the receiver keeps every envelope and what it holds is compared with what
//     was transmitted after the channel was closed (collect in main.go), i.e.
//     after every later envelope - of smaller, equal and greater length - has
//     been read;
//   * envelopes whose length (the value of the two-octet TCP length prefix) is
//     exactly L for L at the limit of the framing (65533, 65534, 65535) and on
//     both sides of every power of two from 512 to 32768, in every position of
//     the transfer, built from records and a padding TXT record that makes the
//     length exact.
//
// Both reuse the case description, the scripted connection, the oracles and the
// model cases of main.go: a record of any type is "a<pid>" for the model, and a
// received record is named after the transmitted record it is octet for octet
// equal to (recTable).

import (
	"fmt"
	"net"
	"sort"
	"strings"

	"github.com/miekg/dns"
	. "verif/harness/common"
)

// ---------------------------------------------------------------- padding records
func padOwner(pid int) string { return fmt.Sprintf("p%d.%s", pid, zone) }

// wire length of the owner (plain labels: presentation length + 1), type,
// class, TTL, RDLENGTH, one character-string of one octet
func padMin(pid int) int { return len(padOwner(pid)) + 1 + 10 + 2 }

// the longest one: RDATA of 65535 octets
func padMax(pid int) int { return len(padOwner(pid)) + 1 + 10 + 65535 }

// padRR: a TXT record whose uncompressed wire form is exactly n octets
func padRR(pid, n int) dns.RR {
	if n < padMin(pid) {
		n = padMin(pid)
	}
	if n > padMax(pid) {
		n = padMax(pid)
	}
	rd := n - (len(padOwner(pid)) + 1 + 10)
	// RDATA = character-strings of 1 + len octets
	var lens []int
	full, rem := rd/256, rd%256
	for i := 0; i < full; i++ {
		lens = append(lens, 255)
	}
	switch {
	case rem == 1: // no empty character-string: take one octet from the last full one
		lens[len(lens)-1] = 254
		lens = append(lens, 1)
	case rem > 1:
		lens = append(lens, rem-1)
	}
	x := uint32(pid)*2654435761 + 12345
	var txt []string
	for _, l := range lens {
		b := make([]byte, l)
		for i := range b {
			x = x*1664525 + 1013904223
			b[i] = "abcdefghijklmnopqrstuvwxyz0123456789"[(x>>16)%36]
		}
		txt = append(txt, string(b))
	}
	return &dns.TXT{Hdr: dns.RR_Header{Name: padOwner(pid), Rrtype: dns.TypeTXT, Class: dns.ClassINET, Ttl: 300}, Txt: txt}
}

func P(pid int) rrd { return rrd{Pid: pid, Pad: padMin(pid)} }
func Psz(pid, n int) rrd {
	if n < padMin(pid) {
		n = padMin(pid)
	}
	return rrd{Pid: pid, Pad: n}
}

// ---------------------------------------------------------------- records of every type
func richRR(pid int, rr dns.RR) rrd {
	t := rr.String()
	if len(t) > 240 {
		t = t[:240] + "..."
	}
	return rrd{Pid: pid, Rich: rr, Txt: t}
}

// the types a zone transfer can carry as ordinary zone content: every
// registered type except SOA (it delimits the transfer) and the two
// pseudo-records of the additional section
func zoneTypes() []uint16 {
	var ts []uint16
	for _, t := range AllTypes() {
		switch t {
		case dns.TypeSOA, dns.TypeOPT, dns.TypeTSIG:
			continue
		}
		ts = append(ts, t)
	}
	return ts
}

// sendable: the record has a wire form and that wire form denotes it (packing
// what a private, never reused buffer unpacks to gives the same octets)
func sendable(rr dns.RR) bool {
	k := wireKey(rr)
	if k == "" || len(k) > 4000 {
		return false
	}
	back, off, err := dns.UnpackRR([]byte(k), 0)
	return err == nil && off == len(k) && wireKey(back) == k
}

type richGen struct {
	r    *Rng
	pool *NamePool
	seen map[string]bool
	pid  int
}

func newRichGen(r *Rng) *richGen {
	return &richGen{r: r, pool: &NamePool{R: r, Names: []string{zone, "www." + zone}}, seen: map[string]bool{}, pid: 100}
}

func (g *richGen) nextPid() int { g.pid++; return g.pid }

// wrap gives a record its payload id; ok=false when it cannot be sent or the
// same record is already part of the zone
func (g *richGen) wrap(rr dns.RR) (rrd, bool) {
	if !sendable(rr) {
		st["rich_not_sendable_"+dns.Type(rr.Header().Rrtype).String()]++
		return rrd{}, false
	}
	k := wireKey(rr)
	if g.seen[k] {
		return rrd{}, false
	}
	g.seen[k] = true
	st["rich_type_"+dns.Type(rr.Header().Rrtype).String()]++
	return richRR(g.nextPid(), rr), true
}

// ofType: a record of that type (boundary-biased field values)
func (g *richGen) ofType(t uint16) (rrd, bool) {
	for try := 0; try < 8; try++ {
		rr, info := GenRR(g.r, g.pool, t, false)
		if !info.WellFormed {
			continue
		}
		if x, ok := g.wrap(rr); ok {
			return x, true
		}
	}
	return rrd{}, false
}

func (g *richGen) any(types []uint16) rrd {
	for {
		if x, ok := g.ofType(types[g.r.Intn(len(types))]); ok {
			return x
		}
	}
}

// pad-able filler: a padding record of minimal size with a fresh id
func (g *richGen) pad() rrd { return P(g.nextPid()) }

// svcParams: one value of every SvcParam kind the library knows
func (g *richGen) svcParams() []dns.SVCBKeyValue {
	r := g.r
	ips := func(n, l int) []net.IP {
		var out []net.IP
		for i := 0; i < n; i++ {
			ip := net.IP(r.Bytes(l))
			if l == 16 {
				ip[0] = 0x20
			}
			out = append(out, ip)
		}
		return out
	}
	return []dns.SVCBKeyValue{
		&dns.SVCBAlpn{Alpn: []string{"h2", "h3", "x" + Itoa(r.Intn(1000))}},
		&dns.SVCBNoDefaultAlpn{},
		&dns.SVCBPort{Port: uint16(r.Intn(65536))},
		&dns.SVCBIPv4Hint{Hint: ips(1+r.Intn(4), 4)},
		&dns.SVCBECHConfig{ECH: r.Bytes(1 + r.Intn(60))},
		&dns.SVCBIPv6Hint{Hint: ips(1+r.Intn(4), 16)},
		&dns.SVCBDoHPath{Template: "/dns-query{?dns}" + Itoa(r.Intn(1000))},
		&dns.SVCBOhttp{},
		&dns.SVCBLocal{KeyCode: dns.SVCBKey(65280 + r.Intn(200)), Data: r.Bytes(1 + r.Intn(30))},
	}
}

// svcRecords: SVCB and HTTPS records with each SvcParam kind alone, every two
// neighbours, and all of them (with and without a mandatory list)
func (g *richGen) svcRecords() []rrd {
	var out []rrd
	mk := func(typ uint16, kvs []dns.SVCBKeyValue, mandatory bool) {
		kvs = append([]dns.SVCBKeyValue(nil), kvs...)
		if mandatory {
			var ks []dns.SVCBKey
			for _, kv := range kvs {
				if kv.Key() != dns.SVCB_NO_DEFAULT_ALPN || len(kvs) > 1 {
					ks = append(ks, kv.Key())
				}
			}
			if len(ks) > 0 {
				kvs = append(kvs, &dns.SVCBMandatory{Code: ks})
			}
		}
		sort.Slice(kvs, func(i, j int) bool { return kvs[i].Key() < kvs[j].Key() })
		hdr := dns.RR_Header{Name: "svc" + Itoa(g.pid) + "." + zone, Rrtype: typ, Class: dns.ClassINET, Ttl: uint32(g.r.Intn(100000))}
		body := dns.SVCB{Hdr: hdr, Priority: uint16(1 + g.r.Intn(10)), Target: g.pool.Name(), Value: kvs}
		var rr dns.RR = &body
		if typ == dns.TypeHTTPS {
			rr = &dns.HTTPS{SVCB: body}
		}
		if x, ok := g.wrap(rr); ok {
			out = append(out, x)
		}
	}
	for _, typ := range []uint16{dns.TypeSVCB, dns.TypeHTTPS} {
		ps := g.svcParams()
		for i := range ps {
			mk(typ, ps[i:i+1], false)
			if i+1 < len(ps) {
				mk(typ, ps[i:i+2], g.r.Bool())
			}
		}
		mk(typ, g.svcParams(), false)
		mk(typ, g.svcParams(), true)
	}
	return out
}

// ---------------------------------------------------------------- frame lengths
func cloneReads(rs []readSpec) []readSpec {
	out := make([]readSpec, len(rs))
	for i, r := range rs {
		out[i] = r
		out[i].RRs = append([]rrd(nil), r.RRs...)
		if r.Sig != nil {
			s := *r.Sig
			out[i].Sig = &s
		}
	}
	return out
}

// frameLen: the length the sender announces for this envelope (the frame
// without its two-octet prefix); the MAC values do not matter for it
func frameLen(c xcase, r readSpec) int {
	macs := map[int]string{0: ""}
	z := strings.Repeat("00", algOf(c.Alg).size)
	for i := 1; i < len(c.Reads)+4; i++ {
		macs[i] = z
	}
	if r.Sig != nil {
		if _, ok := macs[r.Sig.Prev]; !ok {
			macs[r.Sig.Prev] = z
		}
	}
	return len(buildFrame(c, r, macs, 1700000000)) - 2
}

// sizeTo grows or shrinks the first padding record of envelope k so that the
// envelope is exactly L octets long; false when no padding record is there or
// L is out of its reach
func sizeTo(c *xcase, k, L int) bool {
	rs := c.Reads[k].RRs
	pi := -1
	for i, x := range rs {
		if x.Pad > 0 {
			pi = i
			break
		}
	}
	if pi < 0 {
		return false
	}
	for try := 0; try < 4; try++ {
		cur := frameLen(*c, c.Reads[k])
		if cur == L {
			return true
		}
		n := rs[pi].Pad + L - cur
		if n < padMin(rs[pi].Pid) || n > padMax(rs[pi].Pid) {
			return false
		}
		rs[pi].Pad = n
	}
	return frameLen(*c, c.Reads[k]) == L
}

// shape makes the envelope lengths of a case follow a pattern, as far as the
// envelopes hold a padding record:
//
//	natural  as the records make them
//	grow     no envelope shorter than the one before it (by 0, 1 or a few octets more)
//	equal    all of one length
func shape(c *xcase, g *richGen, how string, n int) {
	r := g.r
	if how != "natural" {
		// an envelope without padding record gets one after its first non-SOA
		// record (a place where any zone record may stand, in AXFR and IXFR)
		for k := 0; k < n; k++ {
			rs := c.Reads[k].RRs
			has, at := false, -1
			for i, x := range rs {
				has = has || x.Pad > 0
				if at < 0 && !x.Soa {
					at = i
				}
			}
			if !has && at >= 0 {
				out := append([]rrd(nil), rs[:at+1]...)
				out = append(out, g.pad())
				c.Reads[k].RRs = append(out, rs[at+1:]...)
			}
		}
	}
	switch how {
	case "grow":
		prev := 0
		for k := 0; k < n; k++ {
			cur := frameLen(*c, c.Reads[k])
			if cur < prev {
				want := prev + []int{0, 0, 1, r.Intn(40)}[r.Intn(4)]
				if sizeTo(c, k, want) {
					cur = want
					st["shape_grow_padded"]++
				} else if sizeTo(c, k, want+64) {
					cur = want + 64
					st["shape_grow_padded"]++
				} else {
					st["shape_grow_no_pad_record"]++
				}
			}
			if cur > prev {
				prev = cur
			}
		}
	case "equal":
		max := 0
		for k := 0; k < n; k++ {
			if l := frameLen(*c, c.Reads[k]); l > max {
				max = l
			}
		}
		max += 48
		for k := 0; k < n; k++ {
			if sizeTo(c, k, max) {
				st["shape_equal_padded"]++
			} else {
				st["shape_equal_no_pad_record"]++
			}
		}
	}
}

var chunkChoices = []int{0, 1, 2, 3, 7, 511, 512, 513, 4096, 16384, 32768, 65535, 65536, 65537}

// ---------------------------------------------------------------- the families
func richFamilies(r *Rng, thorough bool) {
	g := newRichGen(r)
	types := zoneTypes()
	st["rich_types_registered"] = len(types)
	idx := 0
	why := "every record of every envelope handed out by Transfer.In must be the transmitted record (owner, type, class, TTL, RDATA), still so after the rest of the transfer has been read"

	// run one stream under one composition
	run := func(kind, fam string, envs [][]rrd, tsig bool, how string, emitIt bool) {
		idx++
		c := base(kind, tsig, fam, r)
		c.Qser = 3
		c.Compress = idx%2 == 0
		if idx%3 == 0 {
			c.Chunk = chunkChoices[r.Intn(len(chunkChoices))]
		}
		c.Reads = cloneReads(goodReads(c, envs, tsig))
		if tsig && idx%4 < 2 {
			for i := range c.Reads {
				c.Reads[i].Sig.Ref = true
			}
		}
		shape(&c, g, how, len(envs))
		c.Reads = append(c.Reads, readSpec{Id: c.Qid, RRs: []rrd{A(99)}})
		runOne(c, &expect{deliver: len(envs), then: "done", key: kExact, why: why}, emitIt)
		st["rich_shape_"+how]++
	}
	shapes := []string{"natural", "grow", "equal"}

	// wrap a body (zone records without SOA) into the three stream kinds
	streamOf := func(kind int, body []rrd) (string, []rrd) {
		switch kind {
		case 0:
			return "axfr", append(append([]rrd{S(5)}, body...), S(5))
		case 1: // IXFR answered AXFR-style
			return "ixfr", append(append([]rrd{S(5)}, body...), S(5))
		}
		// one difference sequence: the first half deleted, the second half added
		h := len(body) / 2
		s := append([]rrd{S(5), S(3)}, body[:h]...)
		s = append(s, S(5))
		s = append(s, body[h:]...)
		return "ixfr", append(s, S(5))
	}

	// ---- R1. every type, in an early envelope, followed by 1..3 later envelopes
	reps := 3
	if thorough {
		reps = 12
	}
	var directed []rrd
	for _, t := range types {
		for i := 0; i < reps; i++ {
			if x, ok := g.ofType(t); ok {
				directed = append(directed, x)
			} else {
				st["rich_type_skipped_"+dns.Type(t).String()]++
			}
		}
	}
	nsvc := 2
	if thorough {
		nsvc = 6
	}
	for i := 0; i < nsvc; i++ {
		directed = append(directed, g.svcRecords()...)
	}
	for di, x := range directed {
		// the record under test is the second record of the stream (after the
		// opening SOA, or alone in the second envelope); the later envelopes -
		// one, and two to four - hold other records and a padding record each
		for li, later := range []int{1, 2 + r.Intn(3)} {
			var tail [][]rrd
			for j := 0; j < later; j++ {
				e := []rrd{g.pad()}
				if r.Bool() {
					e = append(e, g.any(types))
				}
				if j == later-1 {
					e = append(e, S(5))
				}
				tail = append(tail, e)
			}
			var envs [][]rrd
			kind := "axfr"
			switch di % 4 {
			case 0:
				envs = append([][]rrd{{S(5), x}}, tail...)
			case 1:
				envs = append([][]rrd{{S(5)}, {x}}, tail...)
			case 2:
				kind = "ixfr" // AXFR-style
				envs = append([][]rrd{{S(5), x, g.pad()}}, tail...)
			default:
				kind = "ixfr" // a deleted record of a difference sequence
				tail[later-1] = append([]rrd{S(5)}, tail[later-1]...)
				envs = append([][]rrd{{S(5), S(3), x}}, tail...)
			}
			run(kind, "rich-every-type", envs, (di+li)%5 == 0, shapes[1+(di+li)%2], (di+li)%2 == 0)
		}
	}

	// ---- R2. small zones of records of any type: every composition, every shape
	nSmall := 6
	if thorough {
		nSmall = 40
	}
	for z := 0; z < nSmall; z++ {
		nb := 1 + z%3
		var body []rrd
		for i := 0; i < nb; i++ {
			body = append(body, g.any(types), g.pad())
		}
		for sk := 0; sk < 3; sk++ {
			kind, stream := streamOf(sk, body)
			if len(stream) > 8 {
				continue
			}
			for ci, envs := range compositions(stream) {
				how := shapes[(ci+z)%3]
				run(kind, "rich-small-zone", envs, (ci+sk+z)%3 == 0, how, (ci+z)%2 == 0)
			}
		}
	}

	// ---- R3. larger zones, sampled compositions, all shapes
	nBig := 60
	if thorough {
		nBig = 1500
	}
	for z := 0; z < nBig; z++ {
		nb := 4 + r.Intn(30)
		var body []rrd
		for i := 0; i < nb; i++ {
			if r.Intn(3) == 0 {
				body = append(body, g.pad())
			} else {
				body = append(body, g.any(types))
			}
		}
		kind, stream := streamOf(z%3, body)
		envs := randomComposition(r, stream)
		for si, how := range shapes {
			run(kind, "rich-zone", envs, (z+si)%3 == 0, how, si == z%3)
		}
	}

	// ---- S. envelope lengths at the limits
	sizeFamily(r, g, thorough)
}

// sizeFamily: one envelope (or every envelope) of the transfer is exactly L
// octets long.
func sizeFamily(r *Rng, g *richGen, thorough bool) {
	var sizes []int
	for b := 512; b <= 32768; b *= 2 {
		sizes = append(sizes, b-1, b, b+1)
	}
	sizes = append(sizes, 65533, 65534, 65535)
	types := zoneTypes()
	idx := 0
	for _, L := range sizes {
		for _, kind := range []string{"axfr", "ixfr"} {
			for _, tsig := range []bool{false, true} {
				for _, many := range []bool{false, true} {
					for _, pos := range []string{"only", "first", "middle", "last", "all"} {
						idx++
						c, envs, at, ok := sizedCase(r, g, types, idx, L, kind, tsig, many, pos, "size-"+pos)
						if !ok {
							st["size_out_of_reach"]++
							continue
						}
						c.Reads = append(c.Reads, readSpec{Id: c.Qid, RRs: []rrd{A(99)}})
						runOne(c, &expect{deliver: len(envs), then: "done", key: "C15/exact/envelope-length",
							why: fmt.Sprintf("an envelope of exactly %d octets (position: %s) is a legal TCP message (the length prefix carries up to 65535): the transfer must deliver exactly the transmitted envelopes and stop at the closing SOA", L, pos)},
							!many || idx%8 == 0)
						st["size_envelopes_of_"+Itoa(L)] += len(at)
						st["size_pos_"+pos]++
					}
				}
			}
		}
	}
}

// sizedCase: a transfer of one envelope (pos "only") or three in which the only /
// first / middle / last / every envelope is exactly L octets long (the message,
// without any framing); at = the envelopes that were sized; ok = false when L is
// out of reach of the padding.  many: the sized envelope is made of some hundred
// records instead of one large one.
func sizedCase(r *Rng, g *richGen, types []uint16, idx, L int, kind string, tsig, many bool, pos, fam string) (c xcase, envs [][]rrd, at []int, ok bool) {
	// body of an envelope: a padding record, and either a few
	// records of any type or many records of 150..260 octets
	body := func(sized bool) []rrd {
		e := []rrd{g.pad()}
		if sized && many {
			for tot := 400; tot+300 < L; {
				n := 150 + r.Intn(111)
				e = append(e, Psz(g.nextPid(), n))
				tot += n
			}
		} else {
			for i := r.Intn(3); i > 0; i-- {
				e = append(e, g.any(types))
			}
		}
		return e
	}
	ixDiff := kind == "ixfr" && idx%2 == 0
	open := []rrd{S(5)}
	if ixDiff {
		open = []rrd{S(5), S(3)}
	}
	switch pos {
	case "only":
		e := append(append([]rrd{}, open...), body(true)...)
		if ixDiff {
			e = append(e, S(5))
			e = append(e, g.any(types))
		}
		envs = [][]rrd{append(e, S(5))}
		at = []int{0}
	default:
		sz := map[string][]int{"first": {0}, "middle": {1}, "last": {2}, "all": {0, 1, 2}}[pos]
		is := func(k int) bool {
			for _, x := range sz {
				if x == k {
					return true
				}
			}
			return false
		}
		e0 := append(append([]rrd{}, open...), body(is(0))...)
		e1 := body(is(1))
		var e2 []rrd
		if ixDiff {
			e2 = append([]rrd{S(5)}, body(is(2))...)
		} else {
			e2 = body(is(2))
		}
		envs = [][]rrd{e0, e1, append(e2, S(5))}
		at = sz
	}
	c = base(kind, tsig, fam, r)
	c.Qser = 3
	c.Compress = idx%4 == 3
	ch := append([]int{L - 1, L, L + 1, L + 2, L + 3}, chunkChoices...)
	c.Chunk = ch[idx%len(ch)]
	c.Reads = cloneReads(goodReads(c, envs, tsig))
	if tsig && idx%3 == 0 {
		for i := range c.Reads {
			c.Reads[i].Sig.Ref = true
		}
	}
	ok = true
	for _, k := range at {
		ok = ok && sizeTo(&c, k, L)
	}
	for k := range envs {
		envs[k] = c.Reads[k].RRs
	}
	return c, envs, at, ok
}
