(* Props/C12.v — property C12 (each exchange gets its own reply intact under any
   segmentation / concurrency).  Only statements; each is closed by [exact] of a
   lemma proved in Proofs/FrameProofs.v or Proofs/PoolProofs.v.

   Vocabulary (Model/Frame.v, Model/PoolLts.v): a stream is the list of chunks
   successive Read calls return (any segmentation, empty chunks allowed),
   followed by EOF; frame m = two-octet big-endian length ++ m;
   read_tcp = server readTCP, read_msg_header = Conn.ReadMsgHeader,
   serve_tcp limit = the serveTCPConn loop (messages handed to serveDNS and the
   error that ended it), write_frame = Conn.Write / response.Write,
   exchange_stream / exchange_dgram = Client.ExchangeWithConnContext after the
   request has been written; [decodes] (does Msg.Unpack succeed) is a
   parameter. *)
From Dns Require Import Model.Frame Model.PoolLts Proofs.FrameProofs Proofs.PoolProofs.
Open Scope N_scope.

(* Every list of messages of at most 65535 octets each is delivered by the
   server's reader exactly as sent, for EVERY segmentation of the stream. *)
Theorem reframe :
  forall (ms : list bytes) (cs : list bytes) (limit : nat),
    Forall (fun m => lenN m <= 65535) ms -> (length ms < limit)%nat ->
    concat cs = concat (map frame ms) ->
    serve_tcp limit cs = Ok (ms, "eof"%string).
Proof. exact serve_tcp_reframe. Qed.

(* One step of any stream reader: a complete frame at the head of the stream is
   returned whole and the reader is left exactly at the next frame. *)
Theorem frame_step :
  forall (cs : list bytes) (m rest_s : bytes),
    lenN m <= 65535 -> concat cs = frame m ++ rest_s ->
    exists rest, read_tcp cs = FrMsg m rest /\ concat rest = rest_s.
Proof. exact read_tcp_frame. Qed.

(* The client side: the same, except that a frame shorter than a DNS header is
   consumed and reported as a short read. *)
Theorem client_frame_step :
  forall (cs : list bytes) (m rest_s : bytes),
    lenN m <= 65535 -> concat cs = frame m ++ rest_s ->
    exists rest, concat rest = rest_s /\
      read_msg_header cs =
      if Nat.ltb (length m) headerSize then FrErr "short-read" rest else FrMsg m rest.
Proof. exact read_msg_header_frame. Qed.

Theorem client_reframe :
  forall (ms : list bytes) (fuel : nat) (cs : list bytes),
    Forall (fun m => lenN m <= 65535) ms -> (length ms < fuel)%nat ->
    concat cs = concat (map frame ms) ->
    read_all_client fuel cs =
    Ok (map (fun m => if Nat.ltb (length m) headerSize then Err "short-read"%string else Ok m) ms,
        "eof"%string).
Proof. exact read_all_client_frames. Qed.

(* The per-connection query limit cuts the same sequence. *)
Theorem reframe_up_to_limit :
  forall (ms more : list bytes) (cs : list bytes) (tail : bytes),
    Forall (fun m => lenN m <= 65535) ms ->
    concat cs = concat (map frame ms) ++ tail ->
    serve_tcp (length ms) cs = Ok (ms, "limit"%string).
Proof. exact serve_tcp_limit. Qed.

(* Early EOF at ANY offset j inside (or in front of) a frame: the complete
   frames before it are delivered, then an error, never a partial message.
   The error is io.EOF when nothing of the pending read had arrived (j = 0, or
   j = 2: just after the length), io.ErrUnexpectedEOF otherwise. *)
Theorem short_stream :
  forall (ms : list bytes) (m : bytes) (j : nat) (cs : list bytes) (limit : nat),
    Forall (fun m => lenN m <= 65535) ms -> lenN m <= 65535 ->
    (j < length (frame m))%nat -> (length ms < limit)%nat ->
    concat cs = concat (map frame ms) ++ firstn j (frame m) ->
    serve_tcp limit cs =
    Ok (ms, if (j =? 0)%nat || (j =? 2)%nat then "eof"%string else "unexpected-eof"%string).
Proof. exact serve_tcp_short_stream. Qed.

(* Larger messages are refused rather than mangled: nothing is written. *)
Theorem oversize_refused :
  forall m : bytes, 65535 < lenN m -> write_frame m = Err "too-large".
Proof. exact write_frame_oversize. Qed.

(* The writer emits either nothing (refusal) or exactly one whole frame. *)
Theorem writer_all_or_nothing :
  forall m : bytes,
    (write_frame m = Err "too-large" /\ 65535 < lenN m) \/
    (write_frame m = Ok (frame m) /\ lenN m <= 65535).
Proof. exact write_frame_cases. Qed.

(* What one side writes the other side reads back, for every segmentation, for
   every size up to 65535. *)
Theorem write_read_roundtrip :
  forall (m w : bytes) (cs : list bytes),
    write_frame m = Ok w -> concat cs = w ->
    exists rest, read_tcp cs = FrMsg m rest /\ concat rest = [].
Proof. exact write_then_read. Qed.

(* Conn.Read with a caller-supplied buffer: whole frame or io.ErrShortBuffer. *)
Theorem conn_read_whole_or_short_buffer :
  forall (bufsize : nat) (cs : list bytes) (m rest_s : bytes),
    lenN m <= 65535 -> concat cs = frame m ++ rest_s ->
    exists rest,
      conn_read bufsize cs =
      (if Nat.ltb bufsize (length m) then FrErr "short-buffer" rest else FrMsg m rest) /\
      (Nat.ltb bufsize (length m) = false -> concat rest = rest_s).
Proof. exact conn_read_frame. Qed.

(* A client exchange over a stream fails with an ID error when the reply's ID
   differs (and returns the reply when it matches). *)
Theorem tcp_id_mismatch :
  forall (decodes : bytes -> bool) (qid : N) (cs : list bytes) (m rest_s : bytes),
    lenN m <= 65535 -> (headerSize <= length m)%nat -> decodes m = true ->
    concat cs = frame m ++ rest_s ->
    exchange_stream decodes qid cs = if msg_id m =? qid then Ok m else Err "id".
Proof. exact exchange_stream_id. Qed.

(* Over datagrams well-formed replies with other IDs are skipped until the
   matching one ... *)
Theorem udp_skips_foreign :
  forall (decodes : bytes -> bool) (bufsize : nat) (qid : N) (fs : list bytes) (r : bytes)
         (later : list bytes),
    Forall (fun d => (headerSize <= length (firstn bufsize d))%nat /\
                     decodes (firstn bufsize d) = true /\ msg_id (firstn bufsize d) <> qid) fs ->
    (headerSize <= length (firstn bufsize r))%nat -> decodes (firstn bufsize r) = true ->
    msg_id (firstn bufsize r) = qid ->
    exchange_dgram decodes bufsize qid (fs ++ r :: later) = Ok (firstn bufsize r).
Proof. exact exchange_dgram_skips. Qed.

(* ... or the deadline arrives. *)
Theorem udp_deadline_when_none_matches :
  forall (decodes : bytes -> bool) (bufsize : nat) (qid : N) (fs : list bytes),
    Forall (fun d => (headerSize <= length (firstn bufsize d))%nat /\
                     decodes (firstn bufsize d) = true /\ msg_id (firstn bufsize d) <> qid) fs ->
    exchange_dgram decodes bufsize qid fs = Err "timeout".
Proof. exact exchange_dgram_timeout. Qed.

(* The deadline clause with a clock.  Arrivals carry the time at which they
   become readable (arrival order); the read deadline is fixed when the request
   is written (exchange_dgram_timed, Model/Frame.v).  However many well-formed
   replies with other IDs arrive before the deadline and however often - stale,
   duplicated, at any rate - and WHATEVER arrives at or after it (the matching
   reply included), the exchange ends with the deadline error: foreign replies
   do not extend the deadline. *)
Theorem udp_deadline_holds_under_sustained_foreign_replies :
  forall (decodes : bytes -> bool) (bufsize : nat) (qid deadline : N) (arr : list (N * bytes)),
    Forall (fun a => fst a < deadline ->
                     (headerSize <= length (firstn bufsize (snd a)))%nat /\
                     decodes (firstn bufsize (snd a)) = true /\
                     msg_id (firstn bufsize (snd a)) <> qid) arr ->
    exchange_dgram_timed decodes bufsize qid deadline arr = Err "timeout".
Proof. exact exchange_dgram_timed_timeout. Qed.

(* The matching reply that arrives before the deadline is returned, whatever
   foreign replies came before it and whatever comes after it. *)
Theorem udp_reply_before_deadline_returned :
  forall (decodes : bytes -> bool) (bufsize : nat) (qid deadline : N) (fs : list (N * bytes))
         (t : N) (r : bytes) (later : list (N * bytes)),
    Forall (fun a => fst a < deadline ->
                     (headerSize <= length (firstn bufsize (snd a)))%nat /\
                     decodes (firstn bufsize (snd a)) = true /\
                     msg_id (firstn bufsize (snd a)) <> qid) fs ->
    t < deadline ->
    (headerSize <= length (firstn bufsize r))%nat -> decodes (firstn bufsize r) = true ->
    msg_id (firstn bufsize r) = qid ->
    exchange_dgram_timed decodes bufsize qid deadline (fs ++ (t, r) :: later) = Ok (firstn bufsize r).
Proof. exact exchange_dgram_timed_reply. Qed.

(* Nothing that arrives at or after the deadline influences the outcome. *)
Theorem udp_arrivals_after_deadline_ignored :
  forall (decodes : bytes -> bool) (bufsize : nat) (qid deadline : N) (arr late : list (N * bytes)),
    Forall (fun a => deadline <= fst a) late ->
    exchange_dgram_timed decodes bufsize qid deadline (arr ++ late) =
    exchange_dgram_timed decodes bufsize qid deadline arr.
Proof. exact exchange_dgram_timed_ignores_late. Qed.

(* The deadline is the earlier of the client's timeout (Timeout, else
   ReadTimeout, else 2 s) and the context's deadline. *)
Theorem deadline_is_earlier_of_timeout_and_context :
  forall (timeout read_timeout c : N),
    exchange_deadline timeout read_timeout (Some c) <= client_read_timeout timeout read_timeout /\
    exchange_deadline timeout read_timeout (Some c) <= c /\
    (exchange_deadline timeout read_timeout (Some c) = client_read_timeout timeout read_timeout \/
     exchange_deadline timeout read_timeout (Some c) = c) /\
    exchange_deadline timeout read_timeout None = client_read_timeout timeout read_timeout.
Proof. exact exchange_deadline_earliest. Qed.

(* Several exchanges on ONE Conn (exchange_session: the receive size is a field
   of the Conn, what an exchange leaves unread stays queued for the next one).
   Whatever receive size the exchanges before left on the Conn and whatever
   well-formed replies with other IDs are still queued or arrive first: when the
   query advertises s >= 512 octets - by its OPT record, or without one by
   Client.UDPSize - a matching reply of at most s octets is returned whole, and
   the session continues with receive size s and the datagrams behind the reply. *)
Theorem reused_conn_reply_whole :
  forall (decodes : bytes -> bool) (client_size conn_size : N) (qid : N) (opt : option N) (s : N)
         (queue arrivals fs : list bytes) (r : bytes) (later : list bytes)
         (xs : list (N * option N * list bytes)),
    512 <= s /\ (opt = Some s \/ (opt = None /\ s = client_size)) ->
    queue ++ arrivals = fs ++ r :: later ->
    Forall (fun d => (headerSize <= length (firstn (N.to_nat s) d))%nat /\
                     decodes (firstn (N.to_nat s) d) = true /\
                     msg_id (firstn (N.to_nat s) d) <> qid) fs ->
    lenN r <= s -> (headerSize <= length r)%nat -> decodes r = true -> msg_id r = qid ->
    exchange_session decodes client_size conn_size queue ((qid, opt, arrivals) :: xs) =
    Ok r :: exchange_session decodes client_size s later xs.
Proof. exact session_reply_whole. Qed.

(* Whatever arrives in whatever order, an exchange never returns a reply with
   another ID, and what it returns is one of the datagrams received. *)
Theorem exchange_never_returns_foreign :
  forall (decodes : bytes -> bool) (bufsize : nat) (qid : N) (ds : list bytes) (p : bytes),
    exchange_dgram decodes bufsize qid ds = Ok p ->
    msg_id p = qid /\ exists d, In d ds /\ p = firstn bufsize d.
Proof. exact exchange_dgram_sound. Qed.

Theorem exchange_stream_never_returns_foreign :
  forall (decodes : bytes -> bool) (qid : N) (cs : list bytes) (p : bytes),
    exchange_stream decodes qid cs = Ok p -> msg_id p = qid.
Proof. exact exchange_stream_sound. Qed.

(* Recycled receive buffers: for EVERY interleaving of receive / decode-and-
   recycle / drop / handle steps of any number of requests, a handler that ran
   saw exactly the octets its client sent, a decoded request holds its own
   octets, and a request still waiting in a buffer has that buffer to itself
   (the buffer holds its octets and is not in the pool). *)
Theorem handler_sees_own_request :
  forall (s0 s : pstate) (r : req),
    initial s0 -> reachable s0 s -> In r (reqs s) ->
    match r_stage r with
    | Done m => m = r_sent r
    | Decoded m => m = r_sent r
    | Reading b => bufs s b = r_sent r /\ ~ In b (free s)
    | Dropped => True
    end.
Proof. exact handler_sees_own. Qed.
