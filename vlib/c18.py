from .core import Check


class C18(Check):
    prop = "C18"
    props_rel = "Props/C18"
    corr_module = "Corr.C18"
    corr_rel = "Corr/C18"
    model_desc = ("Model/Sig0.v: SIG.Sign (buffer sized from the uncompressed length + 1 + Len(rr), PackBuffer reallocation "
                  "test, PackRR, digest input, RDLENGTH/ARCOUNT patch) and SIG.Verify (question and record skipping by raw "
                  "offsets, window, signer, digest input with the 16-bit ARCOUNT-1) on octet strings with Go's slice/index "
                  "panics as explicit Panic results; "
                  "Model/Wire.v: UnpackDomainName and the strict framing predicate; hash-then-sign / hash-then-verify are "
                  "Section variables over the digest input octets")
    rule = ("direct oracles on the implementation: sign random messages (all record kinds, with and without compression, up to "
            "65 KiB, 254..513 additional records) with fresh Ed25519, ECDSA P-256/P-384, RSA-SHA1/256/512 keys; layout against an "
            "independent framing walker; signature checked with crypto/* directly over SIG RDATA | Pack(m); real Verify of the "
            "result, of every single-bit flip (unpack, take the trailing SIG, verify), of every truncation >= 12 octets, with "
            "other keys, other signer names, windows around the clock; hand-made and random malformed buffers >= 12 octets "
            "under Protect. Model cases: sign (key-field errors, unknown algorithm, compression on/off) and verify (valid, "
            "bit flips steering the counts and offsets, truncations, malformed buffers, mismatched caller SIG). Non-trivial: "
            "input longer than a header; distinct by hash of (function, arguments, output).")
    partial = ["signing and signature checking are Section variables: that a signature by the private key verifies under the "
               "public key (sig_sound) and that a signature fits one digest input only (sig_binding) are named hypotheses",
               "the uncompressed length and m.Pack() are inputs of the sign model; |Pack| <= uncompressed length + 1 is property C08",
               "the clock cannot be injected into SIG.Verify: window cases are judged only when the clock did not tick during "
               "the call",
               "messages above 3000 octets are checked by the direct oracles only (no 64 KiB literals in model cases)"]
    trusted = ["label-list view of names; labels.go equal = equality of lower-cased labels on the strings UnpackDomainName produces"]
    shard_size = 170

    def nontrivial(self, c):
        a = c["args"]
        return len(a[2] if c["fn"] == "sign" else a[7]) > 24


CHECK = C18()
