(* Proofs/LexerProofs.v — lemmas about Model/Lexer.v: the hand-grown buffers are
   never written out of range, the token stream is linear in the input, an
   error token ends the stream, token texts are no longer than the input. *)
From Dns Require Import Base.ListX Model.Lexer.
From Coq Require Import Lia ZifyN ZifyNat ZifyBool.
Open Scope N_scope.

(* ---------- buffers ---------- *)
(* between calls of the loop body: indices within the lengths *)
Definition inv (lc : loc) : Prop := c_stri lc <= c_scap lc /\ c_comi lc <= c_ccap lc.
(* after the growth step at the top of the loop body: strictly inside *)
Definition invg (lc : loc) : Prop := c_stri lc < c_scap lc /\ c_comi lc < c_ccap lc.

Definition good (r : sres) : Prop :=
  match r with SPanic => False | SCont _ lc => inv lc | _ => True end.

Lemma grow_invg lc : inv lc -> invg (grow lc).
Proof.
  intros [H1 H2]. unfold invg, grow, maxTok. cbn [c_stri c_scap c_comi c_ccap].
  destruct (c_scap lc <=? c_stri lc) eqn:E1; destruct (c_ccap lc <=? c_comi lc) eqn:E2; lia.
Qed.

Lemma invg_inv lc : invg lc -> inv lc.
Proof. unfold inv, invg. lia. Qed.

Lemma put_str_good s lc x e : invg lc -> good (put_str s lc x e).
Proof.
  intros [H1 H2]. unfold put_str.
  destruct (c_stri lc <? c_scap lc) eqn:E; [|lia].
  cbn. unfold inv. cbn. lia.
Qed.

Lemma put_com_loc_some lc x : invg lc -> exists lc', put_com_loc lc x = Some lc' /\
  c_stri lc' = c_stri lc /\ c_scap lc' = c_scap lc /\ c_comi lc' = c_comi lc + 1 /\ c_ccap lc' = c_ccap lc.
Proof.
  intros [H1 H2]. unfold put_com_loc.
  destruct (c_comi lc <? c_ccap lc) eqn:E; [|lia].
  eexists. split; [reflexivity|]. cbn. auto.
Qed.

Lemma put_com_good s lc x : invg lc -> good (put_com s lc x).
Proof.
  intros H. unfold put_com. destruct (put_com_loc_some lc x H) as [lc' [-> [A [B0 [C D]]]]].
  cbn. destruct H as [H1 H2]. unfold inv. lia.
Qed.

Lemma set_esc_invg lc e : invg lc -> invg (set_esc lc e).
Proof. unfold invg, set_esc. cbn. auto. Qed.

Lemma emit_good ts s : good (emit ts s).
Proof. exact I. Qed.
Lemma stop_good pre s m : good (stop pre s m).
Proof. exact I. Qed.

Lemma step_blank_good s lc : invg lc -> good (step_blank s lc).
Proof.
  intros H. unfold step_blank. cbv zeta.
  match goal with |- good (match ?p with _ => _ end) => destruct p as [[retL s1]|[s1 e]] end;
    [|apply stop_good].
  destruct (negb (z_space (set_owner s1 false))); destruct retL; try exact I.
  cbn. now apply invg_inv.
Qed.

Lemma step_good s lc x : invg lc -> good (step s lc x).
Proof.
  intros H. unfold step. cbv zeta.
  destruct ((x =? 32) || (x =? 9)).
  { destruct (c_esc lc || z_quote s); [now apply put_str_good|].
    destruct (z_commt s); [now apply put_com_good|now apply step_blank_good]. }
  destruct (x =? 59).
  { destruct (c_esc lc || z_quote s); [now apply put_str_good|].
    destruct (1 <? c_comi lc) eqn:E1.
    - destruct (put_com_loc_some lc 32 H) as [lc1 [-> [A [B0 [C D]]]]].
      destruct (c_ccap lc1 <=? c_comi lc1) eqn:E2; [apply stop_good|].
      assert (H1 : invg lc1) by (destruct H; unfold invg; lia).
      destruct (put_com_loc_some lc1 59 H1) as [lc2 [-> [A2 [B2 [C2 D2]]]]].
      destruct (0 <? c_stri lc2); [exact I|]. cbn. destruct H1. unfold inv. lia.
    - destruct (put_com_loc_some lc 59 H) as [lc2 [-> [A2 [B2 [C2 D2]]]]].
      destruct (0 <? c_stri lc2); [exact I|]. cbn. destruct H. unfold inv. lia. }
  destruct (x =? 13).
  { destruct (z_quote s); [now apply put_str_good|]. cbn. apply invg_inv. now apply set_esc_invg. }
  destruct (x =? 10).
  { destruct (z_quote s); [now apply put_str_good|].
    destruct (z_commt s).
    - destruct (z_brace _ =? 0); [exact I|]. cbn. apply invg_inv. now apply set_esc_invg.
    - destruct (z_brace s =? 0).
      + destruct (negb (c_stri (set_esc lc false) =? 0)); exact I.
      + cbn. apply invg_inv. now apply set_esc_invg. }
  destruct (x =? 92).
  { destruct (z_commt s); [now apply put_com_good|].
    destruct (c_esc lc); now apply put_str_good. }
  destruct (x =? 34).
  { destruct (z_commt s); [now apply put_com_good|].
    destruct (c_esc lc); [now apply put_str_good|].
    destruct (negb (c_stri lc =? 0)); exact I. }
  destruct ((x =? 40) || (x =? 41)).
  { destruct (z_commt s); [now apply put_com_good|].
    destruct (c_esc lc || z_quote s); [now apply put_str_good|].
    destruct (x =? 41).
    - destruct (z_brace s =? 0); [apply stop_good|]. cbn. now apply invg_inv.
    - cbn. now apply invg_inv. }
  destruct (z_commt s).
  { apply put_com_good. now apply set_esc_invg. }
  pose proof (put_str_good s lc x false H) as G.
  destruct (put_str s lc x false); exact G.
Qed.

Lemma fresh_inv s : inv (snd (fresh s)).
Proof.
  unfold fresh, inv, maxTok. cbn. lia.
Qed.

Lemma lex_go_no_panic inp : forall s lc rerr, inv lc -> snd (lex_go s lc inp rerr) = false.
Proof.
  induction inp as [|x r IH]; intros s lc rerr H; cbn [lex_go].
  - reflexivity.
  - pose proof (step_good (read_byte s x) (grow lc) x (grow_invg lc H)) as G.
    destruct (step (read_byte s x) (grow lc) x) as [s1 lc1|ts s1|ts|]; cbn in G.
    + now apply IH.
    + pose proof (fresh_inv s1) as F. destruct (fresh s1) as [s2 lc2]. cbn in F.
      specialize (IH s2 lc2 rerr F). destruct (lex_go s2 lc2 r rerr). exact IH.
    + reflexivity.
    + contradiction.
Qed.

(* no index of the token or comment buffer is ever out of range *)
Lemma lex_full_no_panic inp rerr : snd (lex_full inp rerr) = false.
Proof.
  unfold lex_full. pose proof (fresh_inv init_lst) as F.
  destruct (fresh init_lst) as [s lc]. now apply lex_go_no_panic.
Qed.

(* ---------- what one step delivers ---------- *)
Local Arguments Nat.max : simpl never.
Local Arguments frev : simpl never.
Lemma frev_rev {A} (l : list A) : frev l = rev l.
Proof. unfold frev. now rewrite rev_append_rev, app_nil_r. Qed.
Lemma frev_length {A} (l : list A) : length (frev l) = length l.
Proof. rewrite frev_rev. apply rev_length. Qed.

(* a delivered, error-free token: its text is the gathered string or one octet *)
Definition tok_ok (n : nat) (line : N) (t : tok) : Prop :=
  t_err t = false /\ (length (t_text t) <= Nat.max 1 n)%nat /\ t_line t = line.
Definition tok_bad (line : N) (t : tok) : Prop := t_err t = true /\ t_line t = line.

Definition step_spec (s : lst) (lc : loc) (r : sres) : Prop :=
  match r with
  | SCont s' lc' =>
    (length (c_str lc') <= S (length (c_str lc)))%nat /\ l_line s' = l_line s /\ z_line s' = z_line s
  | SEmit ts s' =>
    (length ts <= 2)%nat /\ Forall (tok_ok (length (c_str lc)) (l_line s)) ts /\
    l_line s' = l_line s /\ z_line s' = z_line s
  | SStop ts => (length ts <= 1)%nat /\ Forall (tok_bad (l_line s)) ts
  | SPanic => True
  end.

Lemma classify_keeps s text :
  l_line (fst (classify s text)) = l_line s /\ z_line (fst (classify s text)) = z_line s /\
  l_text (fst (classify s text)) = l_text s.
Proof.
  unfold classify.
  destruct (lookup type_table (upper text)); [|destruct (has_prefix (B "TYPE") (upper text));
    [destruct (type_to_int text)|]];
  (destruct (lookup class_table (upper text)); [|destruct (has_prefix (B "CLASS") (upper text));
    [destruct (class_to_int text)|]]); cbn; auto.
Qed.

Ltac fin :=
  cbn; repeat split; repeat constructor; cbn; rewrite ?frev_length; try lia; auto.

Lemma put_str_spec s lc x e : step_spec s lc (put_str s lc x e).
Proof. unfold put_str. destruct (c_stri lc <? c_scap lc); fin. Qed.
Lemma put_com_spec s lc x : step_spec s lc (put_com s lc x).
Proof. unfold put_com, put_com_loc. destruct (c_comi lc <? c_ccap lc); fin. Qed.

Lemma step_blank_spec s lc : step_spec s lc (step_blank s lc).
Proof.
  unfold step_blank. cbv zeta.
  destruct (c_stri lc =? 0).
  { destruct (negb (z_space (set_owner s false))); fin. }
  destruct (z_owner s).
  { destruct (negb _); unfold str_of; fin. }
  destruct (z_rrtype (set_l s ZString (str_of lc))).
  { destruct (negb _); unfold str_of; fin. }
  pose proof (classify_keeps (set_l s ZString (str_of lc)) (str_of lc)) as [K1 [K2 K3]].
  destruct (classify (set_l s ZString (str_of lc)) (str_of lc)) as [s2 [e|]]; cbn in K1, K2, K3.
  - unfold stop. cbn. repeat split; repeat constructor; cbn; auto.
  - destruct (negb _); unfold str_of in *; cbn; repeat split; repeat constructor; cbn;
      rewrite ?K3, ?frev_length; try lia; auto.
Qed.

Lemma step_spec_ok s lc x : step_spec s lc (step s lc x).
Proof.
  unfold step. cbv zeta.
  destruct ((x =? 32) || (x =? 9)).
  { destruct (c_esc lc || z_quote s); [apply put_str_spec|].
    destruct (z_commt s); [apply put_com_spec|apply step_blank_spec]. }
  destruct (x =? 59).
  { destruct (c_esc lc || z_quote s); [apply put_str_spec|].
    unfold put_com_loc.
    destruct (1 <? c_comi lc).
    - destruct (c_comi lc <? c_ccap lc); [|exact I]. cbn [c_comi c_ccap].
      destruct (c_ccap lc <=? c_comi lc + 1); [unfold stop; fin|].
      cbn [c_comi c_ccap c_str c_stri c_scap c_com c_esc].
      destruct (c_comi lc + 1 <? c_ccap lc); [|exact I]. cbn [c_stri].
      destruct (0 <? c_stri lc); unfold str_of; fin.
    - destruct (c_comi lc <? c_ccap lc); [|exact I]. cbn [c_stri].
      destruct (0 <? c_stri lc); unfold str_of; fin. }
  destruct (x =? 13).
  { destruct (z_quote s); [apply put_str_spec|fin]. }
  destruct (x =? 10).
  { destruct (z_quote s); [apply put_str_spec|].
    destruct (z_commt s).
    - destruct (z_brace _ =? 0); fin.
    - destruct (z_brace s =? 0); [|fin].
      cbn [set_esc c_stri c_str].
      destruct (negb (c_stri lc =? 0)); [|fin].
      destruct (z_rrtype (set_l s ZString (str_of (set_esc lc false)))); [unfold str_of; fin|].
      destruct (lookup type_table _); unfold str_of; fin. }
  destruct (x =? 92).
  { destruct (z_commt s); [apply put_com_spec|].
    destruct (c_esc lc); apply put_str_spec. }
  destruct (x =? 34).
  { destruct (z_commt s); [apply put_com_spec|].
    destruct (c_esc lc); [apply put_str_spec|].
    destruct (negb (c_stri lc =? 0)); unfold str_of; fin. }
  destruct ((x =? 40) || (x =? 41)).
  { destruct (z_commt s); [apply put_com_spec|].
    destruct (c_esc lc || z_quote s); [apply put_str_spec|].
    destruct (x =? 41); [destruct (z_brace s =? 0); [unfold stop|]|]; fin. }
  destruct (z_commt s).
  { pose proof (put_com_spec s (set_esc lc false) x) as G.
    destruct (put_com s (set_esc lc false) x); exact G. }
  pose proof (put_str_spec s lc x false) as G.
  destruct (put_str s lc x false); exact G.
Qed.

(* ---------- the stream as a whole ---------- *)
Definition noerr (t : tok) : Prop := t_err t = false.
(* every token but the last is error free *)
Definition stream_ok (l : list tok) : Prop := Forall noerr (removelast l).

Lemma stream_ok_nil : stream_ok [].
Proof. constructor. Qed.
Lemma stream_ok_one t : stream_ok [t].
Proof. constructor. Qed.
Lemma stream_ok_cons t l : noerr t -> stream_ok l -> stream_ok (t :: l).
Proof.
  intros Ht Hl. unfold stream_ok in *. destruct l as [|u l]; [constructor|].
  cbn [removelast]. constructor; assumption.
Qed.
Lemma stream_ok_app ts l : Forall noerr ts -> stream_ok l -> stream_ok (ts ++ l).
Proof.
  induction 1 as [|t ts Ht _ IH]; intro Hl; cbn; [assumption|].
  apply stream_ok_cons; auto.
Qed.
Lemma stream_ok_spec l : stream_ok l ->
  forall pre t post, l = pre ++ t :: post -> t_err t = true -> post = [].
Proof.
  intros H pre t post -> Ht. destruct post as [|u post]; [reflexivity|exfalso].
  unfold stream_ok in H.
  rewrite removelast_app in H by discriminate.
  apply Forall_app in H. destruct H as [_ H]. cbn [removelast] in H.
  inversion H as [|? ? Hn _]. unfold noerr in Hn. congruence.
Qed.

(* the tokens delivered once the input is exhausted *)
Definition eof_tok_ok (n : nat) (line : N) (t : tok) : Prop :=
  (t_err t = false -> (length (t_text t) <= Nat.max 1 n)%nat) /\ t_line t = line.

Lemma fresh_keeps s : l_line (fst (fresh s)) = l_line s /\ z_line (fst (fresh s)) = z_line s /\
  z_brace (fst (fresh s)) = z_brace s /\ c_str (snd (fresh s)) = [] /\ c_stri (snd (fresh s)) = 0.
Proof. unfold fresh. cbn. auto. Qed.

Lemma lex_eof_spec f : forall s lc,
  (length (lex_eof f s lc) <= 2 * f)%nat /\
  Forall (eof_tok_ok (length (c_str lc)) (l_line s)) (lex_eof f s lc) /\
  stream_ok (lex_eof f s lc).
Proof.
  induction f as [|f IH]; intros s lc; cbn [lex_eof].
  - repeat split; [cbn; lia|constructor|constructor].
  - cbv zeta.
    assert (A : forall s', l_line s' = l_line s ->
      let l := (let '(s2, lc2) := fresh s' in lex_eof f s2 lc2) in
      (length l <= 2 * f)%nat /\ Forall (eof_tok_ok (length (c_str lc)) (l_line s)) l /\ stream_ok l).
    { intros s' Hs'. pose proof (fresh_keeps s') as [K1 [_ [_ [K4 _]]]].
      destruct (fresh s') as [s2 lc2]. cbn in K1, K4. cbn zeta.
      destruct (IH s2 lc2) as [L1 [L2 L3]]. repeat split; auto.
      rewrite K4, K1, Hs' in L2. cbn [length] in L2.
      eapply Forall_impl; [|exact L2]. intros t [T1 T2]. split; [|exact T2].
      intro E. specialize (T1 E). lia. }
    destruct (0 <? c_stri lc).
    + destruct (c_comi lc =? 0).
      * destruct (A (set_l s ZString (str_of lc)) eq_refl) as [L1 [L2 L3]].
        repeat split.
        -- cbn [length]. lia.
        -- constructor; [|exact L2]. split; cbn; [intros _; unfold str_of; rewrite frev_length; lia|reflexivity].
        -- apply stream_ok_cons; [reflexivity|exact L3].
      * destruct (A (set_comment (set_l (set_l s ZString (str_of lc)) ZNewline [10]) (com_of lc)) eq_refl)
          as [L1 [L2 L3]].
        repeat split.
        -- cbn [length]. lia.
        -- constructor; [split; cbn; [intros _; unfold str_of; rewrite frev_length; lia|reflexivity]|].
           constructor; [split; cbn; [intros _; lia|reflexivity]|exact L2].
        -- apply stream_ok_cons; [reflexivity|]. apply stream_ok_cons; [reflexivity|exact L3].
    + destruct (0 <? c_comi lc).
      * destruct (A (set_comment (set_l s ZNewline [10]) (com_of lc)) eq_refl) as [L1 [L2 L3]].
        repeat split.
        -- cbn [length]. lia.
        -- constructor; [split; cbn; [intros _; lia|reflexivity]|exact L2].
        -- apply stream_ok_cons; [reflexivity|exact L3].
      * destruct (negb (z_brace s =? 0)).
        -- repeat split; [cbn; lia| |apply stream_ok_one].
           constructor; [|constructor]. split; cbn; [discriminate|reflexivity].
        -- repeat split; [cbn; lia|constructor|constructor].
Qed.

Lemma lex_eof_empty f s lc :
  c_stri lc = 0 -> c_comi lc = 0 -> z_brace s = 0 -> lex_eof (S f) s lc = [].
Proof. intros A B0 C. cbn [lex_eof]. cbv zeta. rewrite A, B0, C. reflexivity. Qed.

Lemma read_byte_line s x : 1 <= z_line s ->
  1 <= l_line (read_byte s x) /\ 1 <= z_line (read_byte s x).
Proof.
  intro H. unfold read_byte. destruct (z_eol s); destruct (x =? 10); cbn; lia.
Qed.

Definition lex_props (s : lst) (lc : loc) (inp : bytes) (l : list tok) : Prop :=
  (length l <= 2 * length inp + 10)%nat /\
  stream_ok l /\
  Forall (fun t => t_err t = false ->
                   (length (t_text t) <= Nat.max 1 (length (c_str lc) + length inp))%nat) l /\
  (1 <= z_line s ->
   1 <= l_line s \/ (c_stri lc = 0 /\ c_comi lc = 0 /\ z_brace s = 0) ->
   Forall (fun t => 1 <= t_line t) l).

Lemma lex_go_props rerr inp : forall s lc, lex_props s lc inp (fst (lex_go s lc inp rerr)).
Proof.
  induction inp as [|x r IH]; intros s lc; cbn [lex_go].
  - destruct rerr; cbn [fst].
    { repeat split; [cbn; lia|constructor|constructor|constructor]. }
    destruct (lex_eof_spec 5 s lc) as [L1 [L2 L3]].
    repeat split; [cbn [length]; lia|exact L3| |].
    + eapply Forall_impl; [|exact L2]. intros t [T1 _] E. specialize (T1 E). lia.
    + intros Hz [Hl|[A [B0 C]]].
      * eapply Forall_impl; [|exact L2]. intros t [_ T2]. lia.
      * rewrite lex_eof_empty by assumption. constructor.
  - pose proof (step_spec_ok (read_byte s x) (grow lc) x) as G.
    destruct (step (read_byte s x) (grow lc) x) as [s1 lc1|ts s1|ts|]; cbn [step_spec] in G.
    + destruct G as [G1 [G2 G3]]. destruct (IH s1 lc1) as [P1 [P2 [P3 P4]]].
      repeat split; [cbn [length]; lia|exact P2| |].
      * eapply Forall_impl; [|exact P3]. intros t T E. specialize (T E).
        unfold grow in G1. cbn [c_str] in G1. cbn [length]. lia.
      * intros Hz _. destruct (read_byte_line s x Hz) as [R1 R2]. apply P4; [lia|left; lia].
    + destruct G as [G1 [G2 [G3 G4]]].
      pose proof (fresh_keeps s1) as [K1 [K2 [K3 [K4 K5]]]].
      destruct (fresh s1) as [s2 lc2]. cbn [fst snd] in K1, K2, K3, K4, K5.
      destruct (IH s2 lc2) as [P1 [P2 [P3 P4]]].
      destruct (lex_go s2 lc2 r rerr) as [l p]. cbn [fst] in *.
      repeat split.
      * rewrite app_length. cbn [length]. lia.
      * apply stream_ok_app; [|exact P2]. eapply Forall_impl; [|exact G2]. intros t [T _]. exact T.
      * apply Forall_app. split.
        -- eapply Forall_impl; [|exact G2]. intros t [_ [T _]] _.
           unfold grow in T. cbn [c_str] in T. cbn [length]. lia.
        -- eapply Forall_impl; [|exact P3]. intros t T E. specialize (T E).
           rewrite K4 in T. cbn [length] in *. lia.
      * intros Hz _. destruct (read_byte_line s x Hz) as [R1 R2]. apply Forall_app. split.
        -- eapply Forall_impl; [|exact G2]. intros t [_ [_ T]]. lia.
        -- apply P4; [lia|left; lia].
    + destruct G as [G1 G2]. cbn [fst].
      repeat split.
      * cbn [length]. lia.
      * destruct ts as [|t [|u ts]]; [constructor|apply stream_ok_one|cbn in G1; lia].
      * eapply Forall_impl; [|exact G2]. intros t [T _] E. congruence.
      * intros Hz _. destruct (read_byte_line s x Hz) as [R1 R2].
        eapply Forall_impl; [|exact G2]. intros t [_ T]. lia.
    + cbn [fst]. repeat split; [cbn; lia|constructor|constructor|constructor].
Qed.

Lemma lex_full_props inp rerr : lex_props init_lst (snd (fresh init_lst)) inp (fst (lex_full inp rerr)).
Proof.
  unfold lex_full. pose proof (lex_go_props rerr inp (fst (fresh init_lst)) (snd (fresh init_lst))) as H.
  cbn in *. exact H.
Qed.

(* the stream has at most two tokens per input octet (plus the few synthesized
   at the end of input) *)
Lemma lex_count inp : (length (lex inp) <= 2 * length inp + 10)%nat.
Proof. unfold lex. destruct (lex_full_props inp false) as [H _]. exact H. Qed.

(* an error token ends the stream *)
Lemma lex_err_last inp pre t post :
  lex inp = pre ++ t :: post -> t_err t = true -> post = [].
Proof.
  unfold lex. destruct (lex_full_props inp false) as [_ [H _]]. now apply stream_ok_spec.
Qed.

(* a token that is not an error message is no longer than the input *)
Lemma lex_token_bounded inp t :
  In t (lex inp) -> t_err t = false -> (length (t_text t) <= Nat.max 1 (length inp))%nat.
Proof.
  unfold lex. destruct (lex_full_props inp false) as [_ [_ [H _]]].
  intros Hin E. rewrite Forall_forall in H. specialize (H t Hin E). cbn in H. exact H.
Qed.

(* every token carries a line number from 1 *)
Lemma lex_full_line inp rerr t : In t (fst (lex_full inp rerr)) -> 1 <= t_line t.
Proof.
  destruct (lex_full_props inp rerr) as [_ [_ [_ H]]].
  intros Hin. cbn in H. rewrite Forall_forall in H.
  apply H; [lia|right; auto|exact Hin].
Qed.
