(* Proofs/FrameProofs.v — lemmas about Model/Frame.v (property C12). *)
From Dns Require Import Base.ListX Model.Frame.
From Coq Require Import Lia ZifyN ZifyNat ZifyBool.
Ltac Zify.zify_post_hook ::= Z.div_mod_to_equations.
Open Scope N_scope.

(* ------------------------------------------------------------------ *)
(* io.ReadFull does not see the segmentation                            *)
(* ------------------------------------------------------------------ *)

Lemma read_full_enough : forall (cs : list bytes) (n : nat) (got : bytes),
  (n <= length (concat cs))%nat ->
  exists rest, read_full cs n got = RfOk (got ++ firstn n (concat cs)) rest /\
               concat rest = skipn n (concat cs).
Proof.
  induction cs as [|c r IH]; intros n got Hn.
  - cbn in Hn. assert (n = O) by lia. subst n. cbn. exists []. rewrite app_nil_r. auto.
  - destruct n as [|k].
    + cbn [read_full]. exists (c :: r). cbn [firstn skipn]. rewrite app_nil_r. auto.
    + cbn [read_full]. cbn [concat] in *. rewrite app_length in Hn.
      destruct (Nat.leb_spec (length c) (S k)) as [Hle|Hgt].
      * destruct (IH (S k - length c)%nat (got ++ c) ltac:(lia)) as [rest [Hr Hc]].
        exists rest. split.
        { rewrite Hr. f_equal. rewrite firstn_app, <- app_assoc. f_equal.
          rewrite (firstn_all2 c) by exact Hle. reflexivity. }
        { rewrite Hc, skipn_app. rewrite (skipn_all2 c) by exact Hle. reflexivity. }
      * exists (skipn (S k) c :: r). split.
        { f_equal. rewrite firstn_app. replace (S k - length c)%nat with O by lia.
          cbn [firstn]. rewrite app_nil_r. reflexivity. }
        { cbn [concat]. rewrite skipn_app. replace (S k - length c)%nat with O by lia.
          reflexivity. }
Qed.

Lemma read_full_short : forall (cs : list bytes) (n : nat) (got : bytes),
  (length (concat cs) < n)%nat ->
  read_full cs n got = match got ++ concat cs with [] => RfEOF | _ => RfUnexpectedEOF end.
Proof.
  induction cs as [|c r IH]; intros n got Hn.
  - destruct n as [|k]; [cbn in Hn; lia|]. cbn. rewrite app_nil_r. reflexivity.
  - destruct n as [|k]; [lia|]. cbn [read_full]. cbn [concat] in *. rewrite app_length in Hn.
    destruct (Nat.leb_spec (length c) (S k)) as [Hle|Hgt]; [|lia].
    rewrite IH by lia. rewrite <- app_assoc. reflexivity.
Qed.

(* ------------------------------------------------------------------ *)
(* frames                                                               *)
(* ------------------------------------------------------------------ *)

Lemma be16_u16 (L : N) (rest : bytes) : L < 65536 -> be16 (u16 L ++ rest) = N.to_nat L.
Proof. intro HL. unfold be16. cbn. f_equal. lia. Qed.

Lemma frame_length m : length (frame m) = (2 + length m)%nat.
Proof. unfold frame. rewrite app_length. reflexivity. Qed.

Lemma firstn2_frame m rest : firstn 2 (frame m ++ rest) = u16 (lenN m).
Proof. reflexivity. Qed.

Lemma skipn2_frame m rest : skipn 2 (frame m ++ rest) = m ++ rest.
Proof. reflexivity. Qed.

(* one complete frame at the head of the stream, however it is segmented *)
Lemma read_tcp_frame (cs : list bytes) (m rest_s : bytes) :
  lenN m <= 65535 -> concat cs = frame m ++ rest_s ->
  exists rest, read_tcp cs = FrMsg m rest /\ concat rest = rest_s.
Proof.
  intros Hm Hs. unfold read_tcp.
  destruct (read_full_enough cs 2 []) as [cs' [Hr Hc]].
  { rewrite Hs, app_length, frame_length. lia. }
  rewrite Hr. cbn [app]. rewrite Hs, firstn2_frame. rewrite Hs, skipn2_frame in Hc.
  rewrite <- (app_nil_r (u16 (lenN m))), be16_u16 by lia.
  unfold lenN. rewrite Nat2N.id.
  destruct (read_full_enough cs' (length m) []) as [cs'' [Hr' Hc']].
  { rewrite Hc, app_length. lia. }
  rewrite Hr'. cbn [app]. rewrite Hc, firstn_app_exact. rewrite Hc, skipn_app_exact in Hc'.
  exists cs''. auto.
Qed.

Lemma read_msg_header_frame (cs : list bytes) (m rest_s : bytes) :
  lenN m <= 65535 -> concat cs = frame m ++ rest_s ->
  exists rest, concat rest = rest_s /\
    read_msg_header cs = if Nat.ltb (length m) headerSize then FrErr "short-read" rest else FrMsg m rest.
Proof.
  intros Hm Hs. destruct (read_tcp_frame cs m rest_s Hm Hs) as [rest [Hr Hc]].
  exists rest. split; [exact Hc|]. unfold read_msg_header. rewrite Hr. reflexivity.
Qed.

(* the stream ends inside a frame (or before the next one): an error, no
   message.  io.ReadFull reports io.EOF when it could read nothing at all (cut
   at offset 0 of the frame, or right after the two length octets) and
   io.ErrUnexpectedEOF otherwise. *)
Definition cut_err (j : nat) : string :=
  if (j =? 0)%nat || (j =? 2)%nat then "eof"%string else "unexpected-eof"%string.

Lemma match_nil_len {A} (l : list A) (a b : rf_result) :
  match l with [] => a | _ => b end = if (length l =? 0)%nat then a else b.
Proof. destruct l; reflexivity. Qed.

Lemma read_tcp_partial (cs : list bytes) (m : bytes) (j : nat) :
  lenN m <= 65535 -> (j < length (frame m))%nat -> concat cs = firstn j (frame m) ->
  read_tcp cs = FrEnd (cut_err j).
Proof.
  intros Hm Hj Hs. unfold read_tcp, cut_err. pose proof (frame_length m) as Hfl.
  destruct (Nat.lt_ge_cases j 2) as [Hj2|Hj2].
  - rewrite read_full_short by (rewrite Hs, firstn_length; lia).
    cbn [app]. rewrite match_nil_len, Hs, firstn_length.
    replace (Nat.min j (length (frame m))) with j by lia.
    destruct j as [|[|j]]; [reflexivity|reflexivity|lia].
  - destruct (read_full_enough cs 2 []) as [cs' [Hr Hc]].
    { rewrite Hs, firstn_length. lia. }
    rewrite Hr. cbn [app].
    assert (Hf : firstn 2 (concat cs) = u16 (lenN m)).
    { rewrite Hs, firstn_firstn. replace (Nat.min 2 j) with 2%nat by lia. reflexivity. }
    rewrite Hf, <- (app_nil_r (u16 (lenN m))), be16_u16 by lia.
    unfold lenN. rewrite Nat2N.id.
    assert (Hl' : length (concat cs') = (j - 2)%nat).
    { rewrite Hc, Hs, skipn_length, firstn_length. lia. }
    rewrite read_full_short by lia.
    cbn [app]. rewrite match_nil_len, Hl'.
    destruct j as [|[|[|j]]]; try lia; reflexivity.
Qed.

(* ------------------------------------------------------------------ *)
(* the serve loop: re-framing for every segmentation                    *)
(* ------------------------------------------------------------------ *)

Lemma serve_tcp_conn_frames : forall (ms : list bytes) (fuel limit : nat) (cs : list bytes) (tail : bytes)
    (tl : list bytes * string),
  Forall (fun m => lenN m <= 65535) ms ->
  (length ms < fuel)%nat -> (length ms <= limit)%nat ->
  concat cs = concat (map frame ms) ++ tail ->
  (forall cs' fuel' limit', concat cs' = tail -> (0 < fuel')%nat ->
      limit' = (limit - length ms)%nat ->
      serve_tcp_conn fuel' limit' cs' = Ok tl) ->
  serve_tcp_conn fuel limit cs = Ok (ms ++ fst tl, snd tl).
Proof.
  induction ms as [|m ms IH]; intros fuel limit cs tail tl Hall Hfuel Hlim Hs Htail.
  - cbn in Hs. rewrite (Htail cs fuel limit Hs ltac:(lia) ltac:(cbn; lia)).
    destruct tl; reflexivity.
  - inversion Hall as [|? ? Hm Hall']; subst.
    destruct fuel as [|f]; [cbn in Hfuel; lia|]. destruct limit as [|l]; [cbn in Hlim; lia|].
    cbn [serve_tcp_conn]. cbn [map concat] in Hs. rewrite <- app_assoc in Hs.
    destruct (read_tcp_frame cs m _ Hm Hs) as [rest [Hr Hc]]. rewrite Hr.
    rewrite (IH f l rest tail tl Hall' ltac:(cbn in Hfuel; lia) ltac:(cbn in Hlim; lia) Hc).
    + reflexivity.
    + intros cs' fuel' limit' Hc' Hf' Hl'. apply Htail; [exact Hc'|exact Hf'|]. cbn [length]. lia.
Qed.

Lemma frames_length ms : (2 * length ms <= length (concat (map frame ms)))%nat.
Proof.
  induction ms as [|m ms IH]; [cbn; lia|].
  cbn [map concat length]. rewrite app_length, frame_length. lia.
Qed.

(* Every list of messages, each at most 65535 octets, comes out of the reader
   exactly as it went in, for EVERY segmentation of the stream. *)
Lemma serve_tcp_reframe (ms : list bytes) (cs : list bytes) (limit : nat) :
  Forall (fun m => lenN m <= 65535) ms -> (length ms < limit)%nat ->
  concat cs = concat (map frame ms) ->
  serve_tcp limit cs = Ok (ms, "eof"%string).
Proof.
  intros Hall Hlim Hs. unfold serve_tcp, stream_len.
  pose proof (frames_length ms) as Hfl. rewrite <- Hs in Hfl.
  rewrite (serve_tcp_conn_frames ms _ limit cs [] ([], "eof"%string) Hall); [| lia | lia | |].
  - cbn. rewrite app_nil_r. reflexivity.
  - rewrite app_nil_r. exact Hs.
  - intros cs' fuel' limit' Hc' Hf' Hl'.
    destruct fuel' as [|f]; [lia|]. destruct limit' as [|l]; [lia|].
    cbn [serve_tcp_conn]. unfold read_tcp. rewrite read_full_short by (rewrite Hc'; cbn; lia).
    rewrite Hc'. reflexivity.
Qed.

(* The connection's query limit cuts the same sequence. *)
Lemma serve_tcp_limit (ms more : list bytes) (cs : list bytes) (tail : bytes) :
  Forall (fun m => lenN m <= 65535) ms ->
  concat cs = concat (map frame ms) ++ tail ->
  serve_tcp (length ms) cs = Ok (ms, "limit"%string).
Proof.
  intros Hall Hs. unfold serve_tcp, stream_len.
  pose proof (frames_length ms) as Hfl.
  assert (Hlen : (2 * length ms <= length (concat cs))%nat).
  { rewrite Hs, app_length. lia. }
  rewrite (serve_tcp_conn_frames ms _ (length ms) cs tail ([], "limit"%string) Hall); [| lia | lia | exact Hs |].
  - cbn. rewrite app_nil_r. reflexivity.
  - intros cs' fuel' limit' Hc' Hf' Hl'. destruct fuel' as [|f]; [lia|].
    replace limit' with O by lia. reflexivity.
Qed.

(* The stream ends early, at any offset: the complete frames before the cut
   are delivered, then an error; never a partial message. *)
Lemma serve_tcp_short_stream (ms : list bytes) (m : bytes) (j : nat) (cs : list bytes) (limit : nat) :
  Forall (fun m => lenN m <= 65535) ms -> lenN m <= 65535 ->
  (j < length (frame m))%nat -> (length ms < limit)%nat ->
  concat cs = concat (map frame ms) ++ firstn j (frame m) ->
  serve_tcp limit cs = Ok (ms, cut_err j).
Proof.
  intros Hall Hm Hj Hlim Hs. unfold serve_tcp, stream_len.
  pose proof (frames_length ms) as Hfl.
  assert (Hlen : (2 * length ms <= length (concat cs))%nat).
  { rewrite Hs, app_length. lia. }
  rewrite (serve_tcp_conn_frames ms _ limit cs (firstn j (frame m)) ([], cut_err j) Hall); [| lia | lia | exact Hs |].
  - cbn. rewrite app_nil_r. reflexivity.
  - intros cs' fuel' limit' Hc' Hf' Hl'.
    destruct fuel' as [|f]; [lia|]. destruct limit' as [|l]; [lia|].
    cbn [serve_tcp_conn]. rewrite (read_tcp_partial cs' m j Hm Hj Hc'). reflexivity.
Qed.

(* a client that keeps reading gets every frame in order; frames shorter than a
   header are consumed and reported as short reads without losing step *)
Lemma read_all_client_frames : forall (ms : list bytes) (fuel : nat) (cs : list bytes),
  Forall (fun m => lenN m <= 65535) ms -> (length ms < fuel)%nat ->
  concat cs = concat (map frame ms) ->
  read_all_client fuel cs =
  Ok (map (fun m => if Nat.ltb (length m) headerSize then Err "short-read"%string else Ok m) ms,
      "eof"%string).
Proof.
  induction ms as [|m ms IH]; intros fuel cs Hall Hfuel Hs.
  - destruct fuel as [|f]; [cbn in Hfuel; lia|]. cbn [read_all_client map].
    unfold read_msg_header, read_tcp. rewrite read_full_short by (rewrite Hs; cbn; lia).
    rewrite Hs. reflexivity.
  - inversion Hall as [|? ? Hm Hall']; subst.
    destruct fuel as [|f]; [cbn in Hfuel; lia|]. cbn [read_all_client map].
    cbn [map concat] in Hs.
    destruct (read_msg_header_frame cs m _ Hm Hs) as [rest [Hc Hr]]. rewrite Hr.
    destruct (Nat.ltb (length m) headerSize);
      rewrite (IH f rest Hall' ltac:(cbn in Hfuel; lia) Hc); reflexivity.
Qed.

(* Conn.Read with a caller buffer *)
Lemma conn_read_frame (bufsize : nat) (cs : list bytes) (m rest_s : bytes) :
  lenN m <= 65535 -> concat cs = frame m ++ rest_s ->
  exists rest,
    conn_read bufsize cs =
    (if Nat.ltb bufsize (length m) then FrErr "short-buffer" rest else FrMsg m rest) /\
    (Nat.ltb bufsize (length m) = false -> concat rest = rest_s).
Proof.
  intros Hm Hs. unfold conn_read.
  destruct (read_full_enough cs 2 []) as [cs' [Hr Hc]].
  { rewrite Hs, app_length, frame_length. lia. }
  rewrite Hr. cbn [app]. rewrite Hs, firstn2_frame. rewrite Hs, skipn2_frame in Hc.
  rewrite <- (app_nil_r (u16 (lenN m))), be16_u16 by lia.
  unfold lenN. rewrite Nat2N.id.
  destruct (Nat.ltb bufsize (length m)) eqn:Eb.
  - exists cs'. split; [reflexivity|discriminate].
  - destruct (read_full_enough cs' (length m) []) as [cs'' [Hr' Hc']].
    { rewrite Hc, app_length. lia. }
    rewrite Hr'. cbn [app]. rewrite Hc, firstn_app_exact. rewrite Hc, skipn_app_exact in Hc'.
    exists cs''. auto.
Qed.

(* ------------------------------------------------------------------ *)
(* writing                                                              *)
(* ------------------------------------------------------------------ *)

Lemma write_frame_oversize m : 65535 < lenN m -> write_frame m = Err "too-large".
Proof.
  intro H. unfold write_frame, MaxMsgSize.
  destruct (N.ltb_spec 65535 (lenN m)); [reflexivity|lia].
Qed.

Lemma write_frame_ok m : lenN m <= 65535 -> write_frame m = Ok (frame m).
Proof.
  intro H. unfold write_frame, MaxMsgSize.
  destruct (N.ltb_spec 65535 (lenN m)); [lia|reflexivity].
Qed.

(* the writer never emits anything but a whole frame *)
Lemma write_frame_cases m :
  (write_frame m = Err "too-large" /\ 65535 < lenN m) \/
  (write_frame m = Ok (frame m) /\ lenN m <= 65535).
Proof.
  destruct (N.lt_ge_cases 65535 (lenN m)) as [H|H].
  - left. split; [apply write_frame_oversize; exact H|exact H].
  - right. split; [apply write_frame_ok; exact H|exact H].
Qed.

(* what one side writes the other side reads, for every segmentation *)
Lemma write_then_read (m w : bytes) (cs : list bytes) :
  write_frame m = Ok w -> concat cs = w ->
  exists rest, read_tcp cs = FrMsg m rest /\ concat rest = [].
Proof.
  intros Hw Hs. destruct (write_frame_cases m) as [[He _]|[Ho Hl]]; [congruence|].
  rewrite Ho in Hw. injection Hw as <-.
  apply (read_tcp_frame cs m [] Hl). rewrite app_nil_r. exact Hs.
Qed.

(* ------------------------------------------------------------------ *)
(* exchange                                                             *)
(* ------------------------------------------------------------------ *)
Section ExchangeFacts.
  Variable decodes : bytes -> bool.

  (* over a stream: the reply's ID must be the request's, else ErrId *)
  Lemma exchange_stream_id (qid : N) (cs : list bytes) (m rest_s : bytes) :
    lenN m <= 65535 -> (headerSize <= length m)%nat -> decodes m = true ->
    concat cs = frame m ++ rest_s ->
    exchange_stream decodes qid cs = if msg_id m =? qid then Ok m else Err "id".
  Proof.
    intros Hm Hh Hd Hs. unfold exchange_stream, read_msg_stream.
    destruct (read_msg_header_frame cs m rest_s Hm Hs) as [rest [_ Hr]]. rewrite Hr.
    destruct (Nat.ltb_spec (length m) headerSize); [lia|]. rewrite Hd. reflexivity.
  Qed.

  Lemma exchange_stream_mismatch (qid : N) (cs : list bytes) (m rest_s : bytes) :
    lenN m <= 65535 -> (headerSize <= length m)%nat -> decodes m = true ->
    concat cs = frame m ++ rest_s -> msg_id m <> qid ->
    exchange_stream decodes qid cs = Err "id".
  Proof.
    intros Hm Hh Hd Hs Hne. rewrite (exchange_stream_id qid cs m rest_s Hm Hh Hd Hs).
    apply N.eqb_neq in Hne. rewrite Hne. reflexivity.
  Qed.

  (* a well-formed datagram with another ID *)
  Definition foreign (bufsize : nat) (qid : N) (d : bytes) : Prop :=
    (headerSize <= length (firstn bufsize d))%nat /\ decodes (firstn bufsize d) = true /\
    msg_id (firstn bufsize d) <> qid.

  Lemma read_msg_dgram_ok bufsize d :
    (headerSize <= length (firstn bufsize d))%nat -> decodes (firstn bufsize d) = true ->
    read_msg_dgram decodes bufsize d = Ok (firstn bufsize d).
  Proof.
    intros Hh Hd. unfold read_msg_dgram.
    destruct (Nat.ltb_spec (length (firstn bufsize d)) headerSize); [lia|]. rewrite Hd. reflexivity.
  Qed.

  (* over datagrams: replies with other IDs are skipped until the matching one *)
  Lemma exchange_dgram_skips (bufsize : nat) (qid : N) (fs : list bytes) (r : bytes) (later : list bytes) :
    Forall (foreign bufsize qid) fs ->
    (headerSize <= length (firstn bufsize r))%nat -> decodes (firstn bufsize r) = true ->
    msg_id (firstn bufsize r) = qid ->
    exchange_dgram decodes bufsize qid (fs ++ r :: later) = Ok (firstn bufsize r).
  Proof.
    intros Hf Hh Hd Hid. induction Hf as [|d fs [Hdh [Hdd Hdi]] _ IH].
    - cbn [app exchange_dgram]. rewrite (read_msg_dgram_ok bufsize r Hh Hd).
      apply N.eqb_eq in Hid. rewrite Hid. reflexivity.
    - cbn [app exchange_dgram]. rewrite (read_msg_dgram_ok bufsize d Hdh Hdd).
      apply N.eqb_neq in Hdi. rewrite Hdi. exact IH.
  Qed.

  (* ... or until the deadline *)
  Lemma exchange_dgram_timeout (bufsize : nat) (qid : N) (fs : list bytes) :
    Forall (foreign bufsize qid) fs ->
    exchange_dgram decodes bufsize qid fs = Err "timeout".
  Proof.
    intros Hf. induction Hf as [|d fs [Hdh [Hdd Hdi]] _ IH]; [reflexivity|].
    cbn [exchange_dgram]. rewrite (read_msg_dgram_ok bufsize d Hdh Hdd).
    apply N.eqb_neq in Hdi. rewrite Hdi. exact IH.
  Qed.

  (* whatever arrives, the exchange never returns a reply with another ID *)
  Lemma exchange_dgram_sound (bufsize : nat) (qid : N) (ds : list bytes) (p : bytes) :
    exchange_dgram decodes bufsize qid ds = Ok p ->
    msg_id p = qid /\ exists d, In d ds /\ p = firstn bufsize d.
  Proof.
    induction ds as [|d ds IH]; [discriminate|]. cbn [exchange_dgram].
    unfold read_msg_dgram.
    destruct (Nat.ltb (length (firstn bufsize d)) headerSize); [discriminate|].
    destruct (decodes (firstn bufsize d)); [|discriminate].
    destruct (N.eqb_spec (msg_id (firstn bufsize d)) qid) as [He|Hne].
    - intro H. injection H as <-. split; [exact He|]. exists d. split; [left; reflexivity|reflexivity].
    - intro H. destruct (IH H) as [Hi [d' [Hin Hp]]]. split; [exact Hi|]. exists d'. split; [right; exact Hin|exact Hp].
  Qed.

  (* ---- several exchanges on one Conn ---- *)
  Lemma exchange_dgram_rest_fst (bufsize : nat) (qid : N) (ds : list bytes) :
    fst (exchange_dgram_rest decodes bufsize qid ds) = exchange_dgram decodes bufsize qid ds.
  Proof.
    induction ds as [|d ds IH]; [reflexivity|]. cbn [exchange_dgram_rest exchange_dgram].
    destruct (read_msg_dgram decodes bufsize d) as [p|c| |]; try reflexivity.
    destruct (msg_id p =? qid); [reflexivity|exact IH].
  Qed.

  Lemma exchange_dgram_rest_skips (bufsize : nat) (qid : N) (fs : list bytes) (r : bytes) (later : list bytes) :
    Forall (foreign bufsize qid) fs ->
    (headerSize <= length (firstn bufsize r))%nat -> decodes (firstn bufsize r) = true ->
    msg_id (firstn bufsize r) = qid ->
    exchange_dgram_rest decodes bufsize qid (fs ++ r :: later) = (Ok (firstn bufsize r), later).
  Proof.
    intros Hf Hh Hd Hid. induction Hf as [|d fs [Hdh [Hdd Hdi]] _ IH].
    - cbn [app exchange_dgram_rest]. rewrite (read_msg_dgram_ok bufsize r Hh Hd).
      apply N.eqb_eq in Hid. rewrite Hid. reflexivity.
    - cbn [app exchange_dgram_rest]. rewrite (read_msg_dgram_ok bufsize d Hdh Hdd).
      apply N.eqb_neq in Hdi. rewrite Hdi. exact IH.
  Qed.

  (* the query advertises s octets: by its OPT record, or - without one - by Client.UDPSize *)
  Definition advertises (client_size : N) (opt : option N) (s : N) : Prop :=
    512 <= s /\ (opt = Some s \/ (opt = None /\ s = client_size)).

  Lemma conn_udpsize_advertised (client_size conn_size : N) (opt : option N) (s : N) :
    advertises client_size opt s -> conn_udpsize client_size conn_size opt = s.
  Proof.
    intros [Hs [Ho|[Ho Hc]]]; subst opt; unfold conn_udpsize.
    - destruct (N.leb_spec 512 s) as [_|Hlt]; [reflexivity|lia].
    - subst client_size. destruct (N.leb_spec 512 s) as [_|Hlt]; [reflexivity|lia].
  Qed.

  (* Whatever size the Conn was left with and whatever is still queued in front:
     the matching reply of at most the advertised size is returned whole, and the
     session goes on with the advertised size and what was queued behind it. *)
  Lemma session_reply_whole (client_size conn_size : N) (qid : N) (opt : option N) (s : N)
        (queue arrivals fs : list bytes) (r : bytes) (later : list bytes)
        (xs : list (N * option N * list bytes)) :
    advertises client_size opt s ->
    queue ++ arrivals = fs ++ r :: later ->
    Forall (foreign (N.to_nat s) qid) fs ->
    lenN r <= s -> (headerSize <= length r)%nat -> decodes r = true -> msg_id r = qid ->
    exchange_session decodes client_size conn_size queue ((qid, opt, arrivals) :: xs) =
    Ok r :: exchange_session decodes client_size s later xs.
  Proof.
    intros Ha Hq Hf Hl Hh Hd Hid. cbn [exchange_session].
    rewrite (conn_udpsize_advertised client_size conn_size opt s Ha).
    destruct Ha as [Hs _].
    assert (Hb : dgram_bufsize s = N.to_nat s) by (unfold dgram_bufsize; f_equal; lia).
    rewrite Hb, Hq.
    assert (Hr : firstn (N.to_nat s) r = r) by (apply firstn_all2; unfold lenN in Hl; lia).
    rewrite (exchange_dgram_rest_skips (N.to_nat s) qid fs r later Hf);
      rewrite ?Hr; try assumption. reflexivity.
  Qed.

  (* ---- with a clock: the deadline is fixed when the request is written ---- *)
  Lemma arrived_before_app (deadline : N) (a b : list (N * bytes)) :
    arrived_before deadline (a ++ b) = arrived_before deadline a ++ arrived_before deadline b.
  Proof. unfold arrived_before. rewrite filter_app, map_app. reflexivity. Qed.

  Lemma arrived_before_late (deadline : N) (late : list (N * bytes)) :
    Forall (fun a => deadline <= fst a) late -> arrived_before deadline late = [].
  Proof.
    intros Hl. unfold arrived_before. induction Hl as [|a l Ha _ IH]; [reflexivity|].
    cbn [filter]. destruct (N.ltb_spec (fst a) deadline) as [Hlt|Hge]; [lia|exact IH].
  Qed.

  Lemma arrived_before_foreign (bufsize : nat) (qid deadline : N) (arr : list (N * bytes)) :
    Forall (fun a => fst a < deadline -> foreign bufsize qid (snd a)) arr ->
    Forall (foreign bufsize qid) (arrived_before deadline arr).
  Proof.
    intros Hf. unfold arrived_before. induction Hf as [|a l Ha _ IH]; [constructor|].
    cbn [filter]. destruct (N.ltb_spec (fst a) deadline) as [Hlt|Hge].
    - cbn [map]. constructor; [exact (Ha Hlt)|exact IH].
    - exact IH.
  Qed.

  (* however many foreign replies arrive before the deadline and however often,
     and whatever arrives at or after it (the matching reply included), the
     exchange ends with the deadline error *)
  Lemma exchange_dgram_timed_timeout (bufsize : nat) (qid deadline : N) (arr : list (N * bytes)) :
    Forall (fun a => fst a < deadline -> foreign bufsize qid (snd a)) arr ->
    exchange_dgram_timed decodes bufsize qid deadline arr = Err "timeout".
  Proof.
    intros Hf. unfold exchange_dgram_timed. apply exchange_dgram_timeout.
    apply arrived_before_foreign. exact Hf.
  Qed.

  (* the matching reply that arrives before the deadline is returned *)
  Lemma exchange_dgram_timed_reply (bufsize : nat) (qid deadline : N) (fs : list (N * bytes))
        (t : N) (r : bytes) (later : list (N * bytes)) :
    Forall (fun a => fst a < deadline -> foreign bufsize qid (snd a)) fs ->
    t < deadline ->
    (headerSize <= length (firstn bufsize r))%nat -> decodes (firstn bufsize r) = true ->
    msg_id (firstn bufsize r) = qid ->
    exchange_dgram_timed decodes bufsize qid deadline (fs ++ (t, r) :: later) = Ok (firstn bufsize r).
  Proof.
    intros Hf Ht Hh Hd Hid. unfold exchange_dgram_timed.
    rewrite arrived_before_app.
    assert (E : arrived_before deadline ((t, r) :: later) = r :: arrived_before deadline later).
    { unfold arrived_before. cbn [filter fst]. apply N.ltb_lt in Ht. rewrite Ht. reflexivity. }
    rewrite E. apply exchange_dgram_skips; [apply arrived_before_foreign; exact Hf|exact Hh|exact Hd|exact Hid].
  Qed.

  (* nothing that arrives at or after the deadline has any influence *)
  Lemma exchange_dgram_timed_ignores_late (bufsize : nat) (qid deadline : N)
        (arr late : list (N * bytes)) :
    Forall (fun a => deadline <= fst a) late ->
    exchange_dgram_timed decodes bufsize qid deadline (arr ++ late) =
    exchange_dgram_timed decodes bufsize qid deadline arr.
  Proof.
    intros Hl. unfold exchange_dgram_timed.
    rewrite arrived_before_app, (arrived_before_late deadline late Hl), app_nil_r. reflexivity.
  Qed.

  Lemma exchange_stream_sound (qid : N) (cs : list bytes) (p : bytes) :
    exchange_stream decodes qid cs = Ok p -> msg_id p = qid.
  Proof.
    unfold exchange_stream. destruct (read_msg_stream decodes cs); try discriminate.
    destruct (N.eqb_spec (msg_id m) qid); [|discriminate]. intro H. injection H as <-. assumption.
  Qed.
End ExchangeFacts.

(* ------------------------------------------------------------------ *)
(* non-vacuity examples                                                 *)
(* ------------------------------------------------------------------ *)
Definition ex_m1 : bytes := [18; 52; 129; 128; 0; 0; 0; 0; 0; 0; 0; 0].
Definition ex_m2 : bytes := [171; 205; 129; 128; 0; 0; 0; 0; 0; 0; 0; 0; 7].

(* two frames cut into octet-sized, empty and straddling chunks *)
Example ex_reframe :
  serve_tcp 128 ([0] :: [] :: [12; 18] :: [52; 129; 128; 0; 0; 0; 0; 0; 0; 0] :: [0; 0; 13; 171]
                 :: [[205; 129; 128; 0; 0; 0; 0; 0; 0; 0; 0; 7]])
  = Ok ([ex_m1; ex_m2], "eof"%string).
Proof. reflexivity. Qed.

Example ex_reframe_premise :
  concat ([0] :: [] :: [12; 18] :: [52; 129; 128; 0; 0; 0; 0; 0; 0; 0] :: [0; 0; 13; 171]
          :: [[205; 129; 128; 0; 0; 0; 0; 0; 0; 0; 0; 7]]) = concat (map frame [ex_m1; ex_m2]).
Proof. reflexivity. Qed.

Example ex_short_stream :
  serve_tcp 128 [[0; 12; 18; 52; 129; 128; 0; 0; 0; 0; 0; 0; 0; 0; 0; 13; 171; 205]]
  = Ok ([ex_m1], "unexpected-eof"%string).
Proof. reflexivity. Qed.

Example ex_exchange_id :
  exchange_stream (fun _ => true) 4660 [frame ex_m1] = Ok ex_m1 /\
  exchange_stream (fun _ => true) 4661 [frame ex_m1] = Err "id".
Proof. split; reflexivity. Qed.

Example ex_exchange_dgram :
  exchange_dgram (fun _ => true) 512 4660 [ex_m2; ex_m2; ex_m1; ex_m2] = Ok ex_m1 /\
  exchange_dgram (fun _ => true) 512 4660 [ex_m2; ex_m2] = Err "timeout".
Proof. split; reflexivity. Qed.

Example ex_foreign : foreign (fun _ => true) 512 4660 ex_m2.
Proof. unfold foreign, headerSize. cbn. repeat split; [repeat constructor|discriminate]. Qed.

(* a session on one Conn: the Conn was left with 4096 octets and one stale reply
   queued; the first exchange advertises 1232 octets, the second has no OPT
   record and finds the reply that stayed queued *)
Example ex_session :
  exchange_session (fun _ => true) 0 4096 [ex_m2]
                   [(4660, Some 1232, [ex_m2; ex_m1; ex_m2]); (43981, None, [])]
  = [Ok ex_m1; Ok ex_m2].
Proof. vm_compute. reflexivity. Qed.

Example ex_session_premises :
  advertises 0 (Some 1232) 1232 /\ advertises 4096 None 4096 /\
  Forall (foreign (fun _ => true) (N.to_nat 1232) 4660) [ex_m2; ex_m2] /\ lenN ex_m1 <= 1232.
Proof.
  unfold advertises, foreign, headerSize. repeat split; try (vm_compute; discriminate); try lia.
  - left; reflexivity.
  - right; split; reflexivity.
  - repeat constructor; try (vm_compute; discriminate); vm_compute; lia.
Qed.

Example ex_oversize : write_frame (repeat 0 (N.to_nat 65536)) = Err "too-large".
Proof. vm_compute. reflexivity. Qed.

Example ex_maxsize_premise : lenN (repeat 7 (N.to_nat 65535)) <= 65535.
Proof. vm_compute. discriminate. Qed.

(* the deadline is the earlier of the client's timeout and the context's deadline *)
Lemma exchange_deadline_earliest (timeout read_timeout c : N) :
  exchange_deadline timeout read_timeout (Some c) <= client_read_timeout timeout read_timeout /\
  exchange_deadline timeout read_timeout (Some c) <= c /\
  (exchange_deadline timeout read_timeout (Some c) = client_read_timeout timeout read_timeout \/
   exchange_deadline timeout read_timeout (Some c) = c) /\
  exchange_deadline timeout read_timeout None = client_read_timeout timeout read_timeout.
Proof. unfold exchange_deadline. repeat split; lia. Qed.

Lemma client_read_timeout_cases (timeout read_timeout : N) :
  (timeout <> 0 -> client_read_timeout timeout read_timeout = timeout) /\
  (timeout = 0 -> read_timeout <> 0 -> client_read_timeout timeout read_timeout = read_timeout) /\
  (timeout = 0 -> read_timeout = 0 -> client_read_timeout timeout read_timeout = 2000000).
Proof.
  unfold client_read_timeout, dns_timeout_us. repeat split.
  - intro H. apply N.eqb_neq in H. rewrite H. reflexivity.
  - intros -> H. apply N.eqb_neq in H. cbn. rewrite H. reflexivity.
  - intros -> ->. reflexivity.
Qed.

(* a foreign reply every 5 ms for ever, deadline 300 ms (context) against a
   client timeout of 2 s, the matching reply at 900 ms: deadline error; the
   same with the matching reply at 7 ms: returned *)
Example ex_timed :
  let arr := [(0, ex_m2); (5000, ex_m2); (10000, ex_m2); (295000, ex_m2); (300000, ex_m2); (900000, ex_m1); (905000, ex_m2)] in
  exchange_deadline 0 0 (Some 300000) = 300000 /\
  exchange_dgram_timed (fun _ => true) 512 4660 (exchange_deadline 0 0 (Some 300000)) arr = Err "timeout" /\
  exchange_dgram_timed (fun _ => true) 512 4660 (exchange_deadline 0 0 (Some 300000))
                       ((0, ex_m2) :: (5000, ex_m2) :: (7000, ex_m1) :: arr) = Ok ex_m1.
Proof. repeat split; reflexivity. Qed.

Example ex_timed_premise :
  Forall (fun a => fst a < 300000 -> foreign (fun _ => true) 512 4660 (snd a))
         [(0, ex_m2); (295000, ex_m2); (300000, ex_m1); (900000, ex_m1)].
Proof.
  constructor; [intros _; exact ex_foreign|].
  constructor; [intros _; exact ex_foreign|].
  constructor; [cbn [fst]; intro H; exfalso; revert H; apply N.lt_irrefl|].
  constructor; [cbn [fst]; intro H; exfalso; revert H; apply N.le_ngt; discriminate|].
  constructor.
Qed.
