package main

// C12, pipelined requests of ONE stream connection answered concurrently.
//
// The kept-writer scenarios release their late writers per connection; here N
// requests arrive back to back on one connection (RFC 7766 pipelining), every
// handler call starts a goroutine and returns, and when the server has handed
// over all N requests the goroutines are released together and write their
// replies through the connection's writer at the same time. The replies are
// large (4-58 kB) and every octet of them is derived from the request
// (prng seeded by ID and sequence number).
//
// The connection is a scripted one whose Write, as a kernel socket does, takes
// the octets of one call as a unit (calls are serialised by a lock) but takes
// them slowly: it copies the first part of the caller's buffer, waits until
// every other writer of the batch has arrived at Write too (bounded; no verdict
// depends on the wait), then copies the rest. So whatever the schedule, the
// other writers have prepared their frames while one frame is half sent.
//
// Oracle (property text: "every message is delimited by its two-octet length",
// "each client receives exactly the reply its handler wrote - no mixing across
// requests"): the octets on the connection are, in some order, exactly one
// intact frame per request.

import (
	"bytes"
	"fmt"
	"sort"
	"sync"
	"sync/atomic"
	"time"

	"github.com/miekg/dns"
	. "verif/harness/common"
	"verif/harness/netfake"
)

type slowWriteConn struct {
	*netfake.Conn
	wmu     sync.Mutex
	entered atomic.Int32
	expect  int32
	split   func(n int) int
	waited  atomic.Int32 // waits that ran into their limit
}

func (c *slowWriteConn) Write(b []byte) (int, error) {
	c.entered.Add(1)
	c.wmu.Lock()
	defer c.wmu.Unlock()
	cutAt := c.split(len(b))
	d := make([]byte, len(b))
	copy(d, b[:cutAt])
	if !waitFor(func() bool { return c.entered.Load() >= c.expect }, 3*time.Second) {
		c.waited.Add(1)
	}
	copy(d[cutAt:], b[cutAt:])
	return c.Conn.Write(d)
}

// plReply: the reply to request number seq (large, every octet derived from id and seq).
func plReply(req *dns.Msg, seq, size int) *dns.Msg {
	rep := new(dns.Msg)
	rep.SetReply(req)
	body := prng(size, uint64(req.Id)<<20|uint64(seq)+1)
	for off := 0; off < len(body); {
		t := &dns.TXT{Hdr: dns.RR_Header{Name: req.Question[0].Name, Rrtype: dns.TypeTXT, Class: 1, Ttl: uint32(seq)}}
		for j := 0; j < 8 && off < len(body); j++ {
			n := 255
			if len(body)-off < n {
				n = len(body) - off
			}
			t.Txt = append(t.Txt, Hx(body[off : off+n])[:n])
			off += n
		}
		rep.Answer = append(rep.Answer, t)
	}
	return rep
}

type plIn struct {
	Requests int      `json:"pipelined_requests"`
	Sizes    []int    `json:"reply_sizes"`
	What     []string `json:"what"`
}

func runPipelinedOne(r *Rng, n int) {
	var reqs []*dns.Msg
	var stream []byte
	var bounds []int
	ids := map[uint16]bool{}
	for i := 0; i < n; i++ {
		m := mkRequest(0, i, r)
		for ids[m.Id] {
			m.Id++
		}
		ids[m.Id] = true
		reqs = append(reqs, m)
		bounds = append(bounds, len(stream))
		stream = append(stream, frame(mustPack(m))...)
	}
	sizes := make([]int, n)
	want := make([][]byte, n)
	raw := make([]bool, n)
	for i := range reqs {
		sizes[i] = []int{4000, 12000, 30000, 56000}[r.Intn(4)] + r.Intn(2000)
		want[i] = mustPack(plReply(reqs[i], i, sizes[i]))
		raw[i] = r.Bool()
	}
	fc := netfake.NewConn(cut(genSizes(r, len(stream), bounds), stream))
	fc.HoldOpen = true
	fc.Remote = netfake.Addr{N: 0}
	splitMode := r.Intn(3)
	sc := &slowWriteConn{Conn: fc, expect: int32(n), split: func(l int) int {
		switch splitMode {
		case 0:
			return 2 // the length prefix first
		case 1:
			return l / 2
		}
		return 1 + r0Split(l)
	}}
	l := netfake.NewListener()

	var bad []string
	var mu sync.Mutex
	add := func(s string) {
		mu.Lock()
		if len(bad) < 8 {
			bad = append(bad, s)
		}
		mu.Unlock()
	}
	release := make(chan struct{})
	var seen atomic.Int32
	var wg sync.WaitGroup
	wg.Add(n)
	handler := func(w dns.ResponseWriter, req *dns.Msg) {
		var rc, rs int
		if len(req.Question) != 1 || !requestConsistent(req) {
			add("the handler saw a request that no client sent")
			return
		}
		if _, err := fmt.Sscanf(req.Question[0].Name, "c%d-s%d.", &rc, &rs); err != nil || rs < 0 || rs >= n || reqs[rs].Id != req.Id {
			add("the handler saw request " + req.Question[0].Name + " which was not sent in this form")
			return
		}
		go func() {
			defer wg.Done()
			<-release
			rep := plReply(req, rs, sizes[rs])
			var err error
			if raw[rs] {
				_, err = w.Write(mustPack(rep))
			} else {
				err = w.WriteMsg(rep)
			}
			if err != nil {
				add(fmt.Sprintf("writing the reply to request %d: %v", rs, err))
			}
		}()
		seen.Add(1)
	}
	srv := &dns.Server{Listener: l, Handler: dns.HandlerFunc(handler), MaxTCPQueries: -1,
		ReadTimeout: kwLong, IdleTimeout: func() time.Duration { return kwLong }}
	done := make(chan error, 1)
	go func() { done <- srv.ActivateAndServe() }()
	l.Add(sc)

	infra := !waitFor(func() bool { return int(seen.Load()) == n }, infraWait)
	close(release)
	if !infra {
		fin := make(chan struct{})
		go func() { wg.Wait(); close(fin) }()
		if !netfake.WaitChan(fin, infraWait) {
			infra = true
		}
	}
	fc.Finish()
	if !netfake.WaitClosed(fc, infraWait) {
		infra = true
	}
	sd := make(chan error, 1)
	go func() { sd <- srv.Shutdown() }()
	select {
	case <-sd:
		<-done
	case <-time.After(infraWait):
		infra = true
	}
	if infra {
		stat["infra_timeout"]++
	}
	stat["pipelined_write_waits_expired"] += int(sc.waited.Load())

	// verdict: one intact frame per request, in any order
	ms, end := refParse(fc.Written(), -1)
	if end != "eof" {
		add("the octets written to the connection are not whole frames (" + end + ")")
	}
	idx := map[string]int{}
	for i, w := range want {
		idx[string(w)] = i
	}
	got := make([]int, n)
	for _, m := range ms {
		i, ok := idx[string(m)]
		if !ok {
			what := fmt.Sprintf("a frame of %d octets that no handler wrote", len(m))
			for j, w := range want {
				if len(w) == len(m) && len(m) >= 2 && bytes.Equal(w[:2], m[:2]) {
					k := 0
					for k < len(m) && m[k] == w[k] {
						k++
					}
					what += fmt.Sprintf(" (the reply to request %d up to octet %d, then other octets)", j, k)
					break
				}
			}
			add("the connection carries " + what)
			continue
		}
		got[i]++
	}
	if !infra {
		for i, g := range got {
			if g != 1 {
				add(fmt.Sprintf("the reply to request %d (%d octets) appears %d times on the connection", i, len(want[i]), g))
			}
		}
	}
	stat["pipelined_concurrent_checked"] += len(ms)
	if len(bad) > 0 {
		sort.Strings(bad)
		Viol("C12/Crosstalk/tcp-pipelined-concurrent", "pipelined requests of one connection answered concurrently from goroutines: the connection does not carry exactly one intact frame per request",
			plIn{Requests: n, Sizes: sizes, What: bad})
	}
}

// r0Split: a cut inside the frame that does not depend on the shared generator
// (Write runs on the writers' goroutines).
func r0Split(l int) int {
	if l < 4 {
		return 0
	}
	return (l * 3 / 4) % (l - 1)
}

func runPipelined(r *Rng, tier string) {
	k := 4
	if tier == "thorough" {
		k = 24
	}
	for i := 0; i < k; i++ {
		runPipelinedOne(r, []int{2, 5, 12, 24}[i%4])
	}
}
