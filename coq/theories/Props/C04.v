(* Props/C04.v — property C04 (name compression).  Only statements.
   Table clauses (which RDATA names may be compressed) are complete checks of the
   tables regenerated from zmsg.go on every run.  The clauses about the packer's
   compression map are theorems about the packer model (Proofs/Compress*.v):
   [laysn out p ls h e] says that reading out at offset p and following pointers
   yields exactly the labels ls (raw octets, case preserved) with h pointer hops,
   the contiguous encoding ending at e; [lays] forgets h and e. *)
From Dns Require Import Model.Msg Spec.RfcSets Proofs.LayoutProofs Gen.Layouts.
From Dns Require Import Spec.NameSpec Proofs.CompressProofs Proofs.CompressFieldsProofs Proofs.CompressMsgProofs.
From Dns Require Import Proofs.RoundtripFieldProofs Proofs.RoundtripRRProofs Proofs.CompressRoundtripProofs Proofs.CompressUnpackProofs.
From Dns Require Proofs.LenMsgProofs.
Open Scope list_scope.
Open Scope N_scope.

(* names inside RDATA are packed with compression only for the RFC 1035 types
   (RFC 3597 section 4) ... *)
Theorem rdata_names_compressed_only_for_rfc1035_types :
  forallb (fun L => negb (existsb (fun pf : pfield => compresses (snd pf)) (tl_pack L))
                    || existsb (String.eqb (tl_name L)) rfc1035_compressible) layouts = true.
Proof. exact only_rfc1035_types_compress_rdata. Qed.
Print Assumptions rdata_names_compressed_only_for_rfc1035_types.

(* ... and every one of those types does compress all its RDATA names *)
Theorem rfc1035_types_compress_their_names :
  forallb (fun n => match find_layout layouts n with
                    | Some L => forallb (fun pf : pfield => match snd pf with K_name c => c | _ => true end) (tl_pack L)
                    | None => false end) rfc1035_compressible = true.
Proof. exact rfc1035_types_do_compress. Qed.
Print Assumptions rfc1035_types_compress_their_names.

(* compressed names are accepted on input for every type: every name field of
   every generated unpack() is read by the one name decoder that follows
   pointers (the pack and unpack sides walk the same fields) *)
Theorem unpack_sides_read_the_same_fields :
  forallb (fun L => sides_agree (tl_pack L) (tl_unpack L)) layouts = true.
Proof. exact pack_unpack_sides_agree. Qed.
Print Assumptions unpack_sides_read_the_same_fields.

(* ================= the compression map, name level ================= *)

(* what the invariant says of one map entry: the key is the text of a non-root
   name, the offset is below 16384 and inside the output, holds a label-length
   octet (never a pointer), and the labels of the key are laid there *)
Theorem compression_map_entries_are_laid_suffixes out cm k p :
  cm_inv out cm -> In (k, p) cm ->
  exists ls, parse_name k = Some ls /\ ls <> [] /\ p < max_compression_offset /\ p < lenN out /\
             1 <= nthN out p 0 < 64 /\ lays out p ls.
Proof. exact (cm_inv_entry out cm k p). Qed.
Print Assumptions compression_map_entries_are_laid_suffixes.

(* packDomainName only appends, and keeps the invariant (the empty text is not
   a name: nothing is written for it) *)
Theorem pack_name_extends s cap cp st st' :
  st_inv st -> pack_name s cap cp st = Ok st' ->
  (exists b, pn_out st' = pn_out st ++ b) /\ st_inv st'.
Proof. exact (pack_name_extends s cap cp st st'). Qed.
Print Assumptions pack_name_extends.

(* the name is laid where it was packed with exactly the labels its text
   denotes, whatever pointers were emitted, and the library's decoder reads
   them back, consuming exactly the emitted octets *)
Theorem pack_name_lays s cap cp st st' :
  s <> [] -> st_inv st -> pack_name s cap cp st = Ok st' ->
  exists ls, parse_name s = Some ls /\ lays (pn_out st') (lenN (pn_out st)) ls /\
    unpack_name (pn_out st') (lenN (pn_out st)) = Ok (show_name ls, lenN (pn_out st')).
Proof. exact (pack_name_lays s cap cp st st'). Qed.
Print Assumptions pack_name_lays.

(* either no pointer is emitted, or the emitted octets are a prefix of the
   labels followed by 0xC000+q where q is an earlier offset below 16384 that
   holds a label octet and at which the remaining (non-empty) suffix is laid *)
Theorem pack_name_pointer_valid s cap cp st st' :
  s <> [] -> st_inv st -> pack_name s cap cp st = Ok st' ->
  exists ls b, parse_name s = Some ls /\ pn_out st' = pn_out st ++ b /\
    (b = wire_name ls \/
     exists ls1 lsT q, ls = ls1 ++ lsT /\ lsT <> [] /\ b = wire_labels ls1 ++ u16 (q + 49152) /\
       q < lenN (pn_out st) /\ q < max_compression_offset /\
       1 <= nthN (pn_out st) q 0 < 64 /\ lays (pn_out st) q lsT).
Proof. exact (pack_name_pointer_valid s cap cp st st'). Qed.
Print Assumptions pack_name_pointer_valid.

(* the emitted octets are never longer than the plain wire form, which is what
   packing without a map gives; without the compress flag or without a map the
   plain form is emitted *)
Theorem pack_name_never_longer s cap cp st st' cap' :
  s <> [] -> st_inv st -> pack_name s cap cp st = Ok st' -> 320 <= cap' ->
  exists ls b, parse_name s = Some ls /\ pn_out st' = pn_out st ++ b /\
    pack_name_plain s cap' = Ok (wire_name ls) /\ lenN b <= lenN (wire_name ls) /\
    ((cp = false \/ pn_cm st = None) -> b = wire_name ls).
Proof. exact (pack_name_never_longer s cap cp st st' cap'). Qed.
Print Assumptions pack_name_never_longer.

(* UnpackDomainName on a laid name: up to 127 hops are followed *)
Theorem laid_name_decodes out p ls h e :
  laysn out p ls h e -> wire_len ls <= 255 -> (h <= 127)%nat ->
  unpack_name out p = Ok (show_name ls, e).
Proof. exact (lays_unpack out p ls h e). Qed.
Print Assumptions laid_name_decodes.

(* every hop lands on a label, so a name has at most as many hops as labels *)
Theorem laid_name_hops_at_most_labels out p ls h e :
  laysn out p ls h e -> (h <= length ls)%nat.
Proof. exact (fun H => proj1 (laysn_hops out p ls h e H)). Qed.
Print Assumptions laid_name_hops_at_most_labels.

(* a name of at most 255 wire octets has at most 127 labels, hence at most 127
   hops: the decoder's limit is never exceeded by a laid name.  (A theorem that
   128 hops are rejected would be vacuous at this level; the un_go-level lemma
   un_go_laysn_err in Proofs/CompressProofs.v covers larger budgets.) *)
Theorem laid_name_has_at_most_127_labels_and_hops out p ls h e :
  laysn out p ls h e -> wire_len ls <= 255 -> (length ls <= 127)%nat /\ (h <= 127)%nat.
Proof. exact (laysn_hops_127 out p ls h e). Qed.
Print Assumptions laid_name_has_at_most_127_labels_and_hops.

(* so every laid name within the 255-octet limit is decodable *)
Theorem laid_name_within_limit_decodes out p ls h e :
  laysn out p ls h e -> wire_len ls <= 255 -> unpack_name out p = Ok (show_name ls, e).
Proof. exact (lays_unpack_labels out p ls h e). Qed.
Print Assumptions laid_name_within_limit_decodes.

(* the edge of the limit at name level: a., a.a., ..., (a.)^127 packed in turn and
   (a.)^127 once more; the last is a bare pointer and decodes through 127 hops *)
Example chain_of_127_labels_decodes :
  match pack_all chain_names {| pn_out := []; pn_cm := Some [] |} with
  | Ok st =>
    let p := lenN (pn_out st) - 2 in
    parse_name (chain_name 127) = Some chain_labels /\
    valid_wire chain_labels = true /\ length chain_labels = 127%nat /\
    laysb 400 (pn_out st) p chain_labels = true /\
    laysb 400 (pn_out st) (p - 4) chain_labels = true /\
    unpack_name (pn_out st) (p - 4) = Ok (chain_name 127, p) /\
    unpack_name (pn_out st) p = Ok (chain_name 127, p + 2)
  | _ => False
  end.
Proof. exact chain_decodes. Qed.

(* every pointer met while reading a laid name (reach: the positions visited,
   with the labels still to come) targets an earlier offset below 16384 that
   holds a label octet, where a non-empty suffix of the name is laid *)
Theorem laid_pointers_valid out p ls p' ls' :
  lays out p ls -> reach out p ls p' ls' -> 192 <= nthN out p' 0 ->
  (nthN out p' 0 - 192) * 256 + nthN out (p' + 1) 0 < p' /\
  (nthN out p' 0 - 192) * 256 + nthN out (p' + 1) 0 < max_compression_offset /\
  1 <= nthN out ((nthN out p' 0 - 192) * 256 + nthN out (p' + 1) 0) 0 < 64 /\
  ls' <> [] /\ lays out ((nthN out p' 0 - 192) * 256 + nthN out (p' + 1) 0) ls' /\
  exists pre, ls = pre ++ ls'.
Proof. exact (laid_pointers_valid out p ls p' ls'). Qed.
Print Assumptions laid_pointers_valid.

(* non-vacuity: a run where the second name is compressed against the first *)
Example name_level_hypotheses_satisfiable :
  st_inv ex_st0 /\ ex_n2 <> [] /\
  exists a b, pack_name ex_n1 100 true ex_st0 = Ok a /\ pack_name ex_n2 100 true a = Ok b /\ st_inv b.
Proof. exact compress_example_inv. Qed.

(* ================= the compression map, RDATA level ================= *)
(* [fields_sites v l cap st]: offset and text of every non-empty name packed by
   the field sequence l from state st; [fields_names v l]: the name texts of the
   fields (K_name, K_names, and K_gateway when the gateway is a host name) *)
Theorem pack_fields_lays v l cap st st' :
  st_inv st -> pack_fields v l cap st = Ok st' ->
  st_inv st' /\ (exists b, pn_out st' = pn_out st ++ b) /\
  Forall (fun ps => exists ls, parse_name (snd ps) = Some ls /\ wire_len ls <= 255 /\
                               lays (pn_out st') (fst ps) ls) (fields_sites v l cap st) /\
  map snd (fields_sites v l cap st) = filter nonempty (fields_names v l).
Proof. exact (pack_fields_lays v l cap st st'). Qed.
Print Assumptions pack_fields_lays.

(* a name field without the compress flag (by the table theorems above: every
   RDATA name of a type outside the RFC 1035 set) is written in the plain wire
   form even when a map is present *)
Theorem unflagged_rdata_name_is_plain v f cap st st' :
  st_inv st -> pack_field v f (K_name false) cap st = Ok st' -> as_s (vget v f) <> [] ->
  exists ls, parse_name (as_s (vget v f)) = Some ls /\ pn_out st' = pn_out st ++ wire_name ls.
Proof. exact (unflagged_rdata_name_is_plain v f cap st st'). Qed.
Print Assumptions unflagged_rdata_name_is_plain.

(* ================= the compression map, message level ================= *)
(* [msg_sites m buflen]: offset and text of every non-empty name packed by
   pack_msg_buf m buflen, in packing order (question names, owner names, names
   in RDATA); [msg_names m]: the name texts of the message, read off the
   message and the field layouts; [uncompressed m]: m with Compress off.

   [LenMsgProofs.msg_okb m] (property C08): every record has a known layout
   whose len() terms cover its pack fields and well-formed option pairs.  For
   such messages Len() bounds the packed length, the buffer has Len+1 octets at
   least, and so the off == len(msg) early exit of packHeader (after which
   packRR would patch RDLENGTH into the previous record) is never taken. *)

(* no name is forgotten and each is laid with its own labels *)
Theorem message_names_are_laid m buflen w u :
  LenMsgProofs.msg_okb m = true -> pack_msg_buf m buflen = Ok (w, u) ->
  map snd (msg_sites m buflen) = filter nonempty (msg_names m) /\
  Forall (fun ps => exists ls, parse_name (snd ps) = Some ls /\ wire_len ls <= 255 /\ lays w (fst ps) ls)
         (msg_sites m buflen).
Proof. exact (msg_names_laid_ok m buflen w u). Qed.
Print Assumptions message_names_are_laid.

(* with and without compression the same names are packed in the same order, and
   each is laid in both outputs with exactly the labels its text denotes (octet
   for octet, case preserved) *)
Theorem compression_is_transparent_for_names m buflen wc uc wu uu :
  LenMsgProofs.msg_okb m = true ->
  pack_msg_buf m buflen = Ok (wc, uc) -> pack_msg_buf (uncompressed m) buflen = Ok (wu, uu) ->
  map snd (msg_sites m buflen) = filter nonempty (msg_names m) /\
  Forall2 (fun sc su : N * bytes => snd sc = snd su /\
             exists ls, parse_name (snd sc) = Some ls /\ wire_len ls <= 255 /\
                        lays wc (fst sc) ls /\ lays wu (fst su) ls)
          (msg_sites m buflen) (msg_sites (uncompressed m) buflen).
Proof. exact (compression_is_transparent_ok m buflen wc uc wu uu). Qed.
Print Assumptions compression_is_transparent_for_names.

(* the library's decoder reads every packed name back *)
Theorem message_names_decode m buflen w u p s :
  LenMsgProofs.msg_okb m = true -> pack_msg_buf m buflen = Ok (w, u) ->
  In (p, s) (msg_sites m buflen) ->
  exists ls, parse_name s = Some ls /\ lays w p ls /\
    exists e, unpack_name w p = Ok (show_name ls, e).
Proof. exact (msg_names_decode_ok m buflen w u p s). Qed.
Print Assumptions message_names_decode.

(* the compressed form is never longer (no side condition) *)
Theorem compressed_never_longer m buflen wc uc wu uu :
  pack_msg_buf m buflen = Ok (wc, uc) -> pack_msg_buf (uncompressed m) buflen = Ok (wu, uu) ->
  lenN wc <= lenN wu.
Proof. exact (compressed_never_longer m buflen wc uc wu uu). Qed.
Print Assumptions compressed_never_longer.

(* every pointer met while reading a name of the packed message targets an
   earlier offset below 16384 that holds a label octet, at which a non-empty
   suffix of that name is laid *)
Theorem pointers_target_earlier_suffixes m buflen w u ps ls p' ls' :
  LenMsgProofs.msg_okb m = true -> pack_msg_buf m buflen = Ok (w, u) ->
  In ps (msg_sites m buflen) -> parse_name (snd ps) = Some ls ->
  reach w (fst ps) ls p' ls' -> 192 <= nthN w p' 0 ->
  (nthN w p' 0 - 192) * 256 + nthN w (p' + 1) 0 < p' /\
  (nthN w p' 0 - 192) * 256 + nthN w (p' + 1) 0 < max_compression_offset /\
  1 <= nthN w ((nthN w p' 0 - 192) * 256 + nthN w (p' + 1) 0) 0 < 64 /\
  ls' <> [] /\ lays w ((nthN w p' 0 - 192) * 256 + nthN w (p' + 1) 0) ls' /\
  exists pre, ls = pre ++ ls'.
Proof. exact (msg_pointers_ok m buflen w u ps ls p' ls'). Qed.
Print Assumptions pointers_target_earlier_suffixes.

(* the map the packer ends with satisfies the invariant *)
Theorem final_compression_map_invariant m buflen w u :
  LenMsgProofs.msg_okb m = true -> pack_msg_buf m buflen = Ok (w, u) ->
  exists st, pack_msg_st m buflen = Ok st /\ w = pn_out st /\ st_inv st.
Proof. exact (msg_final_map_inv_ok m buflen w u). Qed.
Print Assumptions final_compression_map_invariant.

(* ================= transparency at the level of Unpack ================= *)
(* a record packed WITH a compression map (any state satisfying the invariant,
   buffer not full), then UnpackRR at its offset of any message that continues
   the octets written: the record comes back in the rr_same sense of C01.
   [rr_ok], [fields_canon]: the canonical-value conditions of C01.  The second
   run (same record, no map) only names the octets of the fields that are not
   names; [crr_wire bn r rd]: owner octets, TYPE, CLASS, TTL, RDLENGTH, RDATA. *)
Theorem compressed_record_roundtrip r L ls capc cpc stc stc' capu outu stu' post :
  find_layout layouts (rr_kind r) = Some L -> layout_ok [] (tl_pack L) = true ->
  rr_ok r ls -> fields_canon (rr_data r) (tl_pack L) ->
  st_inv stc -> lenN (pn_out stc) < capc -> lenN outu < capu ->
  pack_rr r capc cpc stc = Ok stc' -> pack_rr r capu false (st0 outu) = Ok stu' ->
  exists bn rd r',
    1 <= lenN bn /\
    pn_out stc' = pn_out stc ++ crr_wire bn r rd /\
    unpack_rr (pn_out stc' ++ post) (lenN (pn_out stc)) = Ok (r', lenN (pn_out stc')) /\
    rr_rdlength r' = lenN rd /\ rr_same L r' r /\
    exists bu, stu' = st0 (outu ++ bu).
Proof. exact (crr_roundtrip r L ls capc cpc stc stc' capu outu stu' post). Qed.
Print Assumptions compressed_record_roundtrip.

(* the clause itself: packing with compression yields octets that decode to
   the same message as packing without.
   [msg_canon m]: every question name is the text of a valid wire name with
   16-bit type and class, every record (the additional section as Pack writes
   it) meets the C01 conditions rr_ok / fields_canon, and the four section
   counts fit 16 bits.  [hword m i]: the i-th 16-bit word of the header Pack
   writes; [ext_of rc0 ex]: the RCODE Unpack reports (low bits joined with the
   OPT TTL bits); [rr_agrees r' r]: rr_same for the layout of r (owner, TYPE,
   CLASS, TTL, struct type equal; every RDATA field equal, or absent where the
   packed value was the zero value and the RDATA ended early);
   [rr_hdr_eq]: equal owner, TYPE, CLASS, TTL, struct type.
   Unpack accepts both packings without error and returns the same header
   words, the same questions, the same RCODE, and section by section records
   that agree with the packed message, hence with each other.  Hdr.Rdlength of
   the decoded records is the wire length of the RDATA and is the one thing
   that legitimately differs between the two. *)
Theorem compression_is_transparent m buflen wc uc wu uu :
  LenMsgProofs.msg_okb m = true -> msg_canon m ->
  pack_msg_buf m buflen = Ok (wc, uc) -> pack_msg_buf (uncompressed m) buflen = Ok (wu, uu) ->
  exists anc nsc exc anu nsu exu,
    unpack_msg wc = Ok (msg_of_bits (hword m 0) (hword m 1) (m_question m) anc nsc exc
                          (ext_of (hword m 1 mod 16) (msg_extra m)), false) /\
    unpack_msg wu = Ok (msg_of_bits (hword m 0) (hword m 1) (m_question m) anu nsu exu
                          (ext_of (hword m 1 mod 16) (msg_extra m)), false) /\
    Forall2 rr_agrees anc (m_answer m) /\ Forall2 rr_agrees anu (m_answer m) /\
    Forall2 rr_agrees nsc (m_ns m) /\ Forall2 rr_agrees nsu (m_ns m) /\
    Forall2 rr_agrees exc (msg_extra m) /\ Forall2 rr_agrees exu (msg_extra m) /\
    Forall2 rr_hdr_eq anc anu /\ Forall2 rr_hdr_eq nsc nsu /\ Forall2 rr_hdr_eq exc exu.
Proof. exact (compression_is_transparent_unpack m buflen wc uc wu uu). Qed.
Print Assumptions compression_is_transparent.

(* non-vacuity: the example message is canonical, and computed: both packings
   unpack without error to the same questions and to records that differ in
   Rdlength only *)
Example transparency_hypotheses_satisfiable :
  (msg_canon ex_msg /\ LenMsgProofs.msg_okb ex_msg = true) /\
  match pack_msg_buf ex_msg 0, pack_msg_buf (uncompressed ex_msg) 0 return Prop with
  | Ok (wc, _), Ok (wu, _) =>
    match unpack_msg wc, unpack_msg wu return Prop with
    | Ok (mc, fc), Ok (mu, fu) =>
      fc = false /\ fu = false /\ m_question mc = m_question ex_msg /\ m_question mu = m_question ex_msg /\
      map rr_no_len (m_answer mc) = map rr_no_len (m_answer mu) /\
      map rr_no_len (m_extra mc) = map rr_no_len (m_extra mu) /\
      map rr_rdlength (m_answer mc) = [6; 9] /\ map rr_rdlength (m_answer mu) = [17; 20] /\
      map rr_name (m_answer mc) = map rr_name (m_answer ex_msg) /\
      map rr_data (m_answer mc) = map rr_data (m_answer ex_msg)
    | _, _ => False
    end
  | _, _ => False
  end.
Proof. split; [exact ex_msg_canon|exact ex_msg_unpacks]. Qed.

(* the edge of the hop limit (this message was rejected by Unpack before
   maxCompressionPointers was repaired to 127): 128 A records owned by a., a.a.,
   ..., (a.)^127, (a.)^127 pack with compression, the last owner is a bare pointer
   read through 127 hops, and Unpack returns the same owners without error *)
Example chain_message_roundtrips :
  match pack_msg_buf chain_msg 0 return Prop with
  | Ok (w, _) =>
    LenMsgProofs.msg_okb chain_msg = true /\
    forallb (fun s => match parse_name s with Some ls => valid_wire ls | None => false end)
            (msg_names chain_msg) = true /\
    match rev (msg_sites chain_msg 0) return Prop with
    | (p, s) :: _ => s = chain_name 127 /\ laysb 400 w p chain_labels = true /\
                     unpack_name w p = Ok (chain_name 127, p + 2)
    | [] => False
    end /\
    match unpack_msg w return Prop with
    | Ok (m', failed) => failed = false /\ map rr_name (m_answer m') = chain_names
    | _ => False
    end
  | _ => False
  end.
Proof. exact chain_msg_roundtrip. Qed.

(* non-vacuity: a message whose compressed and uncompressed packings satisfy
   the hypotheses above, with four of its six names compressed *)
Example message_level_hypotheses_satisfiable :
  match pack_msg_buf ex_msg 0, pack_msg_buf (uncompressed ex_msg) 0 with
  | Ok (wc, _), Ok (wu, _) =>
    LenMsgProofs.msg_okb ex_msg = true /\
    lenN wc = 92 /\ lenN wu = 143 /\ lenN wu < msg_cap ex_msg 0 /\
    map fst (msg_sites ex_msg 0) = [12; 29; 41; 47; 69; 76] /\
    map fst (msg_sites (uncompressed ex_msg) 0) = [12; 29; 52; 69; 94; 112] /\
    map snd (msg_sites ex_msg 0) = msg_names ex_msg /\
    forallb (fun ps => match parse_name (snd ps) with Some ls => laysb 9 wc (fst ps) ls | None => false end)
            (msg_sites ex_msg 0) = true /\
    forallb (fun ps => match parse_name (snd ps) with Some ls => laysb 9 wu (fst ps) ls | None => false end)
            (msg_sites (uncompressed ex_msg) 0) = true /\
    takeN 10 (dropN 47 wc) = 7 :: bytes_of_string "example" ++ [192; 20] /\
    takeN 7 (dropN 69 wc) = 4 :: bytes_of_string "mail" ++ [192; 12]
  | _, _ => False
  end.
Proof. exact msg_example. Qed.
