from .core import Check


class C06(Check):
    prop = "C06"
    props_rel = "Props/C06"
    corr_module = "Corr.C06"
    corr_rel = "Corr/C06"
    model_desc = ("Model/ZoneSpec.v (specification, written from RFC 1035 5.1 / RFC 2308 4 independently of the parser "
                  "model): abstract zones (records with owner, TTL, class omitted or given, TTL and class in either "
                  "order; $ORIGIN; $TTL), denote = fold over (origin, previous owner, $TTL value, last stated TTL, "
                  "configured default), name completion, TTL unit arithmetic, token skeletons sk_zone, $GENERATE "
                  "templates (literal / $ / ${...}) with their substitution. Parser and lexer models are those of "
                  "C07: Model/Lexer.v (zlexer.Next), Model/Zone.v (ZoneParser.Next state machine, toAbsoluteName, "
                  "stringToTTL, generateReader.ReadByte, modToPrintf, Sprintf of int64, $INCLUDE with the file "
                  "systems as section variables, RDATA families single name / A / AAAA / TXT-like / RFC3597).")
    rule = ("semantic stream: 260 random abstract zones (thorough x20) x 6 random equivalent renderings each "
            "(blank/tab runs, upper/lower/mixed-case directives and mnemonics, TYPEnnn/CLASSnnn spellings, "
            "TTL spellings with unit suffixes, TTL/class order, relative vs completed names, @ vs origin, quoted vs "
            "bare strings, parentheses around the RDATA with line breaks and comments inside, trailing comments, "
            "blank and comment-only lines, LF/CRLF, missing final line end); direct oracles: every rendering parses to "
            "the records of an independent Go denotation (C06/denote/*), the lexer's tokens of the plain rendering "
            "are the zone's skeleton (C06/lex-render/skeleton); exhaustive stream: 2 owner forms x 5 TTL/class "
            "shapes x 8 combinations of TTL sources (default, $TTL, stated earlier) x 3 renderings; 120 $GENERATE "
            "templates (ranges with steps, $ and ${offset,width,base} in bases d/o/x/X, escaped \\$) against an "
            "independent expansion; the $GENERATE limit sweep: start in {0, 1, 65535, 2^32+7, such that stop = 2^63-1} x "
            "step in {1,2,3,100,25000,65535,65536} x number of steps in {0,1,2,65534,65535,65536,65537} x stop "
            "on / just before the next value: within the documented limit of 65535 steps every record is checked "
            "(one per step, value start+i*step, then the following line's record), one step more must be refused "
            "(C06/generate/limits); model cases 'range' (range parser), 'genvalues' (ZoneSpec gen_values: count, "
            "first, last) and 'parse' (whole parser, ranges of up to 3 records and refused ones); "
            "keyword sweep: every type mnemonic of StringToType, every class mnemonic, TYPEnnn/CLASSnnn and the four "
            "directives in every case pattern (all 2^n up to 7 letters, else upper/lower/one letter flipped/"
            "alternating/random) in the type column (with RDATA of a generated record, and at the end of the line), "
            "the class column, NSEC/NSEC3/CSYNC type lists, RRSIG type covered, $GENERATE templates and directive "
            "lines: the same record whatever the case (C06/keyword-case/*), lower-case spellings also as lex and "
            "parse model cases; "
            "several independent parsers at the same time: rounds of 56 texts (abstract zone, $TTL, $GENERATE with ${offset,width,base} templates, $INCLUDE through a per-parser include FS of a file with records and a $GENERATE, records after it), each parsed alone and then all at once (8 goroutines with 20000..30000-step expansions, 4 goroutines re-parsing short texts meanwhile, one start barrier, GOMAXPROCS >= 4): outcome = outcome alone = denoted records (C06/concurrent/*), first concurrent outcome of the short texts as parse model cases; $GENERATE lines without TTL under $TTL / stated TTL / configured default, also in included files (C06/generate/omitted-ttl-not-inherited); "
            "120 $INCLUDE scenarios (before / file with optional origin argument / after, "
            "FS and no FS) against before ++ denote(file) ++ after; TTL texts and name completion against the "
            "library helpers. Model cases: the Coq denote on every abstract zone (case 'denote') must print the Go "
            "denotation, the Coq lexer on the plain rendering must realize the Coq skeleton (case 'skel'), and the "
            "parser model must reproduce the implementation's outcome on 2 renderings per zone and on every "
            "shape/generate/include text (case 'parse'). A case is non-trivial when its main argument is longer "
            "than two octets.")
    partial = [
        "text -> tokens is proved for the rendering grammar of Proofs/LexRenderProofs.v (lex_render_plain, lex_render_layout: "
        "one entry per line; any run of blanks / tabs / parentheses / CR between fields with at least one blank or tab, newlines "
        "inside parentheses, a trailing comment) and composed with zp_refines (zone_text_denotes, zone_text_layout_denotes: the "
        "parser applied to the lexer's output on the zone's TEXT yields the denoted records); blank and comment-only lines, "
        "trailing blanks, comments inside parentheses and a second ';' in a comment are outside these theorems (witness "
        "extra_token_layouts_refuted) and are covered by the equivalence oracle on the implementation; the side conditions "
        "render_ok are facts about the lexer, each with a *_refuted witness where dropping it fails (class ANY, type None, "
        "TTL texts that spell a mnemonic, words made only of escaped special octets)",
        "zp_refines covers records, $ORIGIN and $TTL; $GENERATE and $INCLUDE are separate theorems "
        "(generate_expand on the generated text, include_keeps_origin / include_splice on one step of Next) and "
        "are composed with the rest by correspondence only",
        "RDATA is restricted to the families single name / address / quoted strings / RFC3597 generic; an address "
        "is denoted by the model's own ParseIP (no independent specification of address syntax here); \\# on "
        "registered types is outside the theorem",
        "zones without a denotation (no owner to repeat, no TTL to take) are outside zp_refines; the "
        "implementation yields an empty owner resp. TTL 0 or 'missing TTL' for them",
        "generate_expand requires literal text free of $ and backslash and a bare $ not followed by $ or {; "
        "escapes (\\$, \\\\, $$) are covered by correspondence (case 'gen' of C07 and the generate stream)",
        "two lexer deviations are excluded from the rendering grammar and reported as findings: a comment inside "
        "parentheses re-enables type/class recognition for the following RDATA words "
        "(C06/comment-in-parentheses/rdata-word-retyped), and a directive argument that spells a mnemonic is read "
        "as a type or class (C06/directive-argument-mnemonic)",
    ]
    trusted = [
        "the Go denotation in harness/c06 and the Coq denote are written separately and compared on every "
        "generated zone",
        "tables, ToUpper model and inotify observation as for C07",
    ]
    shard_size = 250

    def nontrivial(self, c):
        a = c.get("args") or [""]
        k = {"parse": 5, "denote": 2, "skel": 1}.get(c.get("fn"), 0)
        return len(a) > k and len(a[k]) > 4


CHECK = C06()
