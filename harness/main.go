// Command harness runs the miekg/dns implementation (built from /repo's working
// tree with -tags verif) on generated inputs and prints, one JSON object per
// line, the projected observables that the Coq model is compared against
// ("case" lines) and the verdicts of the direct oracles ("viol" lines).
package main

import (
	"bufio"
	"encoding/hex"
	"encoding/json"
	"fmt"
	"os"
	"strconv"
)

// ---- deterministic PRNG: splitmix64, one stream per run ----
type rng struct{ s uint64 }

func (r *rng) next() uint64 {
	r.s += 0x9e3779b97f4a7c15
	z := r.s
	z = (z ^ (z >> 30)) * 0xbf58476d1ce4e5b9
	z = (z ^ (z >> 27)) * 0x94d049bb133111eb
	return z ^ (z >> 31)
}
func (r *rng) intn(n int) int {
	if n <= 0 {
		return 0
	}
	return int(r.next() % uint64(n))
}
func (r *rng) bool() bool           { return r.next()&1 == 1 }
func (r *rng) pick(xs []string) string { return xs[r.intn(len(xs))] }
func (r *rng) bytes(n int) []byte {
	b := make([]byte, n)
	for i := range b {
		b[i] = byte(r.next())
	}
	return b
}

var out = bufio.NewWriterSize(os.Stdout, 1<<20)

type line struct {
	K    string   `json:"k"`              // "case" | "viol" | "stat"
	Fn   string   `json:"fn,omitempty"`   // model function to run
	Args []string `json:"args,omitempty"` // its arguments (hex / decimal strings)
	Out  string   `json:"out,omitempty"`  // what the implementation returned
	Key  string   `json:"key,omitempty"`  // viol: finding key (matched against known_findings.json)
	Desc string   `json:"desc,omitempty"` // viol: what failed
	In   any      `json:"in,omitempty"`   // viol: replayable input
	Stat map[string]int `json:"stat,omitempty"`
}

func emit(fn string, args []string, o string) {
	b, _ := json.Marshal(line{K: "case", Fn: fn, Args: args, Out: o})
	out.Write(b)
	out.WriteByte('\n')
}
func viol(key, desc string, in any) {
	b, _ := json.Marshal(line{K: "viol", Key: key, Desc: desc, In: in})
	out.Write(b)
	out.WriteByte('\n')
}
func stat(m map[string]int) {
	b, _ := json.Marshal(line{K: "stat", Stat: m})
	out.Write(b)
	out.WriteByte('\n')
}

func hx(b []byte) string   { return hex.EncodeToString(b) }
func hs(s string) string   { return hex.EncodeToString([]byte(s)) }
func itoa(i int) string    { return strconv.Itoa(i) }
func btoa(b bool) string   { return strconv.FormatBool(b) }
func unhx(s string) []byte { b, _ := hex.DecodeString(s); return b }

// protect runs f and returns "panic" if it panicked.
func protect(f func() string) (s string) {
	defer func() {
		if r := recover(); r != nil {
			s = "panic"
		}
	}()
	return f()
}

type runner func(r *rng, tier string, n int)

var props = map[string]runner{}

func main() {
	if len(os.Args) < 2 {
		fmt.Fprintln(os.Stderr, "usage: harness <Cxx> [seed] [tier] [n]")
		os.Exit(2)
	}
	p := os.Args[1]
	seed := uint64(1)
	tier := "quick"
	n := 0
	if len(os.Args) > 2 {
		v, _ := strconv.ParseUint(os.Args[2], 10, 64)
		seed = v
	}
	if len(os.Args) > 3 {
		tier = os.Args[3]
	}
	if len(os.Args) > 4 {
		n, _ = strconv.Atoi(os.Args[4])
	}
	f, ok := props[p]
	if !ok {
		fmt.Fprintln(os.Stderr, "unknown property", p)
		os.Exit(2)
	}
	f(&rng{s: seed}, tier, n)
	out.Flush()
}
