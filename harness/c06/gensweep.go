package main

// C06, $GENERATE ranges and steps at and around the limits of the range guard.
//
// "$GENERATE expands to one record per step of its range", for "all ranges /
// steps within limits"; the documented limit (ZoneParser doc) is a maximum of
// 65535 steps. The number of steps of start-stop/step is (stop-start)/step
// (integer division): the values are start, start+step, ... <= stop. So a range
// is within limits exactly when start, stop >= 0, stop >= start and
// (stop-start)/step <= 65535 - whatever the distance stop-start and the size of
// start are - and must then yield (stop-start)/step + 1 records, record i
// carrying the value start + i*step; one step more is refused.
//
// The sweep crosses start x step x number of steps x (stop exactly on the last
// value | stop just before the next one). Every record of every range is
// checked (owner and RDATA carry the iterator), with a cheap right-hand side;
// ranges of at most a few steps are also model cases of the whole parser
// ("parse"), every range token is a model case of the range parser ("range").

import (
	"fmt"
	"math"
	"strconv"
	"strings"

	"github.com/miekg/dns"
	. "verif/harness/common"
	z "verif/harness/zonecommon"
)

// expected outcome of the range token, from the property text and the
// documented limit, independent of the library
func genRangeExpect(start, stop, step int64) (count int64, ok bool) {
	if start < 0 || stop < 0 || stop < start || step <= 0 {
		return 0, false
	}
	steps := (stop - start) / step
	if steps > 65535 {
		return 0, false
	}
	return steps + 1, true
}

// runGenerateRange parses "$GENERATE <rg> n$ 5 PTR p$" under example.org. with
// the library and checks every record against the expected values.
func runGenerateRange(start, stop, step int64, explicitStep bool) {
	rg := fmt.Sprintf("%d-%d", start, stop)
	if explicitStep {
		rg += fmt.Sprintf("/%d", step)
	}
	text := "$GENERATE " + rg + " n$ 5 PTR p$\nafter 7 PTR q\n"
	in := map[string]any{"text_hex": Hs(text), "range": rg}
	wantN, wantOK := genRangeExpect(start, stop, step)
	stat["generate_limit_checked"]++
	var n int64
	var bad string
	var after bool
	var perr error
	res := Protect(func() string {
		zp := dns.NewZoneParser(strings.NewReader(text), "example.org.", "")
		for {
			rr, ok := zp.Next()
			if !ok {
				break
			}
			p, isPtr := rr.(*dns.PTR)
			if !isPtr {
				bad = "a record that is not a PTR"
				break
			}
			if n == wantN && wantOK {
				if p.Hdr.Name == "after.example.org." && p.Ptr == "q.example.org." && p.Hdr.Ttl == 7 {
					after = true
					n++
					continue
				}
			}
			if n > wantN {
				bad = fmt.Sprintf("more than %d records", wantN+1)
				break
			}
			v := strconv.FormatInt(start+n*step, 10)
			if p.Hdr.Name != "n"+v+".example.org." || p.Ptr != "p"+v+".example.org." || p.Hdr.Ttl != 5 || p.Hdr.Class != dns.ClassINET {
				if bad == "" {
					bad = fmt.Sprintf("record %d is %q, want n%s.example.org. 5 IN PTR p%s.example.org.", n, rr.String(), v, v)
				}
			}
			n++
		}
		perr = zp.Err()
		return ""
	})
	if res == "panic" {
		Viol("C06/generate/limits", "parser panicked on $GENERATE "+rg, in)
		return
	}
	cls := "ok"
	switch {
	case wantOK:
		stat["generate_limit_within"]++
		if wantN >= 65535 {
			stat["generate_limit_within_big"]++
		}
		if step > 1 && stop-start > 65535 {
			stat["generate_limit_within_distance_over_65535"]++
		}
		switch {
		case perr != nil:
			Viol("C06/generate/limits", fmt.Sprintf("$GENERATE %s is within limits (%d steps, %d records) but was refused: %v", rg, wantN-1, wantN, perr), in)
			return
		case bad != "":
			Viol("C06/generate/limits", fmt.Sprintf("$GENERATE %s (%d steps): %s", rg, wantN-1, bad), in)
			return
		case n != wantN+1 || !after:
			Viol("C06/generate/limits", fmt.Sprintf("$GENERATE %s denotes %d records (one per step) followed by the next line's record, got %d records in all", rg, wantN, n), in)
			return
		}
	default:
		stat["generate_limit_beyond"]++
		cls = "err:bad-range-in-generate-range"
		if step <= 0 {
			cls = "err:bad-step-in-generate-range"
		}
		if perr == nil || n != 0 {
			Viol("C06/generate/limits", fmt.Sprintf("$GENERATE %s is beyond the limit of 65535 steps (or not a range) but %d records were delivered, error %v", rg, n, perr), in)
			return
		}
		_, msg, _, _, _, _, isParse := dns.VerifParseError(perr)
		if !isParse || "err:"+z.Slug(msg) != cls {
			// refused, but for another stated reason: not a property matter; no model case
			stat["generate_limit_other_error"]++
			return
		}
	}
	// model case of the range parser (the implementation's outcome class, with
	// the numbers it was seen to use)
	if cls == "ok" {
		z.EmitD("range", []string{Hs(rg)}, fmt.Sprintf("ok:%d,%d,%d", start, stop, step))
		// the specification's list of values (ZoneSpec gen_values): as many, from
		// the same first to the same last value as the records delivered
		if wantN < 65535 || start == 0 || (stop == math.MaxInt64 && (stop-start)%step == 0) {
			z.EmitD("genvalues", []string{strconv.FormatInt(start, 10), strconv.FormatInt(stop, 10), strconv.FormatInt(step, 10)},
				fmt.Sprintf("%d,%d,%d", n-1, start, start+(n-2)*step))
		}
	} else {
		z.EmitD("range", []string{Hs(rg)}, cls)
	}
	// and of the whole parser when that is cheap for the model
	if !wantOK || wantN <= 3 {
		c := cfgFor("example.org.", nil, text)
		o := z.Run(c, 1)
		z.EmitD("parse", c.Args(), o.Show())
		stat["generate_limit_parse_cases"]++
	}
}

func generateLimitSweep(tier string) {
	steps := []int64{1, 2, 3, 100, 25000, 65535, 65536}
	counts := []int64{0, 1, 2, 65534, 65535, 65536, 65537} // number of steps (stop-start)/step
	// start: 0, 1, 65535, beyond 32 bits, and such that stop is the largest int64
	const (
		startSmall = iota
		startOne
		start16
		start32
		startTop
	)
	for sk := startSmall; sk <= startTop; sk++ {
		for _, step := range steps {
			for _, k := range counts {
				for _, slack := range []int64{0, step - 1} {
					if slack == 0 && step == 1 && sk == startSmall {
						// also without the explicit /1
						runGenerateRange(0, k, 1, false)
					}
					if slack != 0 && step == 1 {
						continue
					}
					var start int64
					switch sk {
					case startOne:
						start = 1
					case start16:
						start = 65535
					case start32:
						start = 1<<32 + 7
					case startTop:
						start = math.MaxInt64 - k*step - slack
					}
					stop := start + k*step + slack
					big := k >= 65534 && k <= 65535
					if big && tier != "thorough" {
						// 65535 resp. 65536 records each: in the quick tier every step and
						// every start is covered, not every combination of the two with the slack
						if !(sk == startSmall || (int(step)+sk)%2 == 0 && slack == 0) {
							continue
						}
					}
					runGenerateRange(start, stop, step, true)
				}
			}
		}
	}
	// not ranges at all
	runGenerateRange(5, 4, 1, true)
	runGenerateRange(70000, 3, 2, true)
	runGenerateRange(0, 10, 0, true)
}
