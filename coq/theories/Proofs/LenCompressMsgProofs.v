(* Proofs/LenCompressMsgProofs.v — Stage 3, lifted: the joint invariant between
   Msg.Len's suffix set and Pack's compression map through the generated field
   sequences, records, sections and the whole message:
   Msg.Len() >= len(Pack()) for compressed messages. *)
From Dns Require Import Gen.Layouts Gen.Lens Gen.Registry Gen.Structs Gen.Consts.
From Dns Require Import Base.ListX Model.Msg Proofs.EscapeProofs Proofs.NameWireProofs Proofs.LenNameProofs
  Proofs.LenFieldProofs Proofs.LenRRProofs Proofs.LenMsgProofs Proofs.LenCompressProofs.
From Coq Require Import Lia ZifyN ZifyNat ZifyBool.
Open Scope list_scope.
Open Scope N_scope.

(* ================================================================== *)
(* 1. codecs that leave the compression map alone                       *)
(* ================================================================== *)
Definition keeps (r : res pn_state) (st : pn_state) : Prop :=
  forall st', r = Ok st' -> pn_cm st' = pn_cm st /\ poff st <= poff st'.

Lemma keeps_bind r (k : pn_state -> res pn_state) st :
  keeps r st -> (forall st1, r = Ok st1 -> keeps (k st1) st1) -> keeps (do x <- r; k x) st.
Proof.
  intros H1 H2 st' E. destruct r as [s1| | |]; try discriminate. cbn [bind] in E.
  destruct (H1 s1 eq_refl) as [A B]. destruct (H2 s1 eq_refl st' E) as [C D]. split; [congruence|lia].
Qed.
Lemma keeps_ok st b : keeps (Ok (pemit st b)) st.
Proof. intros st' E. injection E as <-. rewrite poff_pemit. split; [reflexivity|lia]. Qed.
Lemma keeps_same st : keeps (Ok st) st.
Proof. intros st' E. injection E as <-. split; [reflexivity|lia]. Qed.
Lemma keeps_err c st : keeps (Err c) st.
Proof. intros st' E. discriminate. Qed.
Lemma keeps_relabel (r : res pn_state) c st :
  keeps r st -> keeps (match r with Ok a => Ok a | Err _ => Err c | Panic => Panic | OutOfFuel => OutOfFuel end) st.
Proof. intros H st' E. destruct r; try discriminate. injection E as <-. now apply H. Qed.

Lemma keeps_fixed b cap st : keeps (pack_fixed b cap st) st.
Proof. unfold pack_fixed. destruct (_ <? _); [apply keeps_err|apply keeps_ok]. Qed.
Lemma keeps_txt_string s cap st : keeps (pack_txt_string s cap st) st.
Proof.
  unfold pack_txt_string. destruct (_ || _); [apply keeps_err|].
  destruct (ptx_go _ _ _ _); try (intros ? E; discriminate). cbn [bind].
  destruct (255 <? _); [apply keeps_err|apply keeps_ok].
Qed.
Lemma keeps_txts l : forall cap st, keeps (pack_txts l cap st) st.
Proof.
  induction l as [|s r IH]; intros cap st; [apply keeps_same|]. cbn [pack_txts].
  apply keeps_bind; [apply keeps_txt_string|]. intros; apply IH.
Qed.
Lemma keeps_txt l cap st : keeps (pack_txt l cap st) st.
Proof. destruct l; [cbn [pack_txt]; destruct (_ <=? _); [apply keeps_err|apply keeps_same]|apply keeps_txts]. Qed.
Lemma keeps_octet s cap st : keeps (pack_octet s cap st) st.
Proof.
  unfold pack_octet. destruct (_ || _); [apply keeps_err|].
  destruct (ptx_go _ _ _ _); try (intros ? E; discriminate). cbn [bind]. apply keeps_ok.
Qed.
Lemma keeps_a a cap st : keeps (pack_a a cap st) st.
Proof.
  destruct (N.eq_dec (lenN a) 4) as [E4|N4]; [rewrite pack_a_4 by exact E4; apply keeps_fixed|].
  destruct (N.eq_dec (lenN a) 16) as [E16|N16]; [rewrite pack_a_16 by exact E16; apply keeps_fixed|].
  destruct (N.eq_dec (lenN a) 0) as [E0|N0]; [rewrite pack_a_0 by exact E0; apply keeps_same|].
  rewrite pack_a_other by assumption. apply keeps_err.
Qed.
Lemma keeps_aaaa a cap st : keeps (pack_aaaa a cap st) st.
Proof.
  destruct (N.eq_dec (lenN a) 16) as [E16|N16]; [rewrite pack_aaaa_16 by exact E16; apply keeps_fixed|].
  destruct (N.eq_dec (lenN a) 0) as [E0|N0]; [rewrite pack_aaaa_0 by exact E0; apply keeps_same|].
  rewrite pack_aaaa_other by assumption. apply keeps_err.
Qed.

Lemma keeps_trans r st0 st : keeps r st -> pn_cm st = pn_cm st0 -> poff st0 <= poff st -> keeps r st0.
Proof. intros H Hc Hp st' E. destruct (H st' E). split; [congruence|lia]. Qed.

Lemma keeps_nsec_go l : forall lw cur cap st, keeps (nsec_go l lw cur cap st) st.
Proof.
  induction l as [|t r IH]; intros lw cur cap st; [apply keeps_ok|].
  cbn [nsec_go]. destruct ((lw <? t / 256) && negb (lenN cur =? 0)).
  - destruct (_ || _); [apply keeps_err|]. destruct (cap <? _); [apply keeps_err|].
    eapply keeps_trans; [apply IH|reflexivity|]. rewrite poff_pemit. lia.
  - destruct (_ || _); [apply keeps_err|]. destruct (cap <? _); [apply keeps_err|]. apply IH.
Qed.
Lemma keeps_nsec l cap st : keeps (pack_nsec l cap st) st.
Proof. destruct l; [apply keeps_same|]. unfold pack_nsec. destruct (cap <? _); [apply keeps_err|apply keeps_nsec_go]. Qed.

Lemma keeps_opts l : forall cap st, keeps (pack_opts l cap st) st.
Proof.
  induction l as [|[[code b] n] r IH]; intros cap st; [apply keeps_same|]. cbn [pack_opts].
  destruct (cap <? _); [apply keeps_err|]. destruct (cap <? _); [apply keeps_err|].
  eapply keeps_trans; [apply IH|reflexivity|]. rewrite poff_pemit. lia.
Qed.
Lemma keeps_pairs_go l : forall prev cap st, keeps (pack_pairs_go l prev cap st) st.
Proof.
  induction l as [|[[code b] n] r IH]; intros prev cap st; [apply keeps_same|]. cbn [pack_pairs_go].
  destruct (code =? prev); [apply keeps_err|].
  destruct (cap <? _); [apply keeps_err|]. destruct (cap <? _); [apply keeps_err|]. destruct (cap <? _); [apply keeps_err|].
  eapply keeps_trans; [apply IH|reflexivity|]. rewrite poff_pemit. lia.
Qed.
Lemma keeps_svcb l cap st : keeps (pack_svcb l cap st) st.
Proof. apply keeps_pairs_go. Qed.

Lemma keeps_apl_prefix p cap st : keeps (pack_apl_prefix p cap st) st.
Proof.
  destruct p as [[neg prefix] ip]. unfold pack_apl_prefix.
  destruct (match lenN ip with 4 => Some 1 | 16 => Some 2 | _ => None end) as [f|]; [|apply keeps_err].
  apply keeps_bind; [apply keeps_fixed|]. intros s1 _.
  apply keeps_bind; [apply keeps_fixed|]. intros s2 _.
  apply keeps_bind; [apply keeps_fixed|]. intros s3 _. apply keeps_fixed.
Qed.
Lemma keeps_apl l : forall cap st, keeps (pack_apl l cap st) st.
Proof.
  induction l as [|p r IH]; intros cap st; [apply keeps_same|]. cbn [pack_apl].
  apply keeps_bind; [apply keeps_apl_prefix|]. intros; apply IH.
Qed.

(* ================================================================== *)
(* 2. len() terms with a suffix set                                     *)
(* ================================================================== *)
Definition walks (t : lterm) : bool := match t with L_name _ _ | L_names _ _ => true | _ => false end.

Lemma len_term_nowalk v t off l c : walks t = false -> len_term v t off l c = (l + term_est v t, c).
Proof.
  destruct t; cbn [walks len_term term_est]; intro Hw; try discriminate; try reflexivity.
  - f_equal. lia.
  - now rewrite txts_fold.
  - now rewrite apl_fold.
  - now rewrite pairs_fold.
  - unfold ifne_est. destruct (_ =? 0); f_equal; lia.
  - unfold gateway_est. cbv zeta. destruct (_ =? v4); [reflexivity|]. destruct (_ =? v6); [reflexivity|].
    destruct (_ =? host); f_equal; lia.
Qed.

(* the pack statements of the kinds whose len() term does not walk a name leave
   the map alone, except the gateway host which only adds to it *)
Lemma names_joint l cp : forall cap st cm ls off l0 l' c' st',
  pn_cm st = Some cm -> Jc cm ls (poff st) -> poff st <= off + l0 ->
  pack_names l cap cp st = Ok st' ->
  fold_left (fun (a : N * option lset) x =>
               let '(n, c') := domain_name_len x (off + fst a) (snd a) cp in (fst a + n, c'))
            l (l0, Some ls) = (l', c') ->
  exists cm' ls', pn_cm st' = Some cm' /\ c' = Some ls' /\ poff st' + l0 <= poff st + l' /\ l0 <= l' /\ Jc cm' ls' (poff st').
Proof.
  induction l as [|s r IH]; intros cap st cm ls off l0 l' c' st' Hcm HJ HP Hp Hl.
  - injection Hp as <-. cbn [fold_left] in Hl. injection Hl as <- <-. exists cm, ls.
    split; [exact Hcm|]. split; [reflexivity|]. split; [lia|]. split; [lia|exact HJ].
  - cbn [pack_names] in Hp. destruct (pack_name s cap cp st) as [s1| | |] eqn:E1; try discriminate. cbn [bind] in Hp.
    cbn [fold_left fst snd] in Hl.
    destruct (domain_name_len s (off + l0) (Some ls) cp) as [n c1] eqn:En.
    destruct (name_joint s cap cp cp st cm ls (off + l0) n c1 s1 Hcm HJ HP (fun x => x) E1 En)
      as [cm1 [ls1 [C1 [-> [Hs J1]]]]].
    destruct (IH cap s1 cm1 ls1 off (l0 + n) l' c' st' C1 J1) as [cm' [ls' [A [B [C [D E]]]]]]; auto.
    { unfold poff in *. lia. }
    exists cm', ls'. split; [exact A|]. split; [exact B|]. unfold poff in *. split; [lia|]. split; [lia|exact E].
Qed.

Lemma kind_term_joint v f k t cap st cm ls off l l' c' st' :
  kind_term f k t = true -> rdata_pairs_ok v = true ->
  pn_cm st = Some cm -> Jc cm ls (poff st) -> poff st <= off + l ->
  pack_field v f k cap st = Ok st' ->
  len_term v t off l (Some ls) = (l', c') ->
  exists cm' ls', pn_cm st' = Some cm' /\ c' = Some ls' /\
    poff st' + l <= poff st + l' /\ l <= l' /\ Jc cm' ls' (poff st').
Proof.
  intros Hk Hv Hcm HJ HP Hp Hl.
  (* the common case: the map is kept, the term adds its uncompressed estimate *)
  assert (Kp : walks t = false -> keeps (pack_field v f k cap st) st ->
          exists cm' ls', pn_cm st' = Some cm' /\ c' = Some ls' /\
            poff st' + l <= poff st + l' /\ l <= l' /\ Jc cm' ls' (poff st')).
  { intros Hw Hkeep. rewrite len_term_nowalk in Hl by exact Hw. injection Hl as <- <-.
    destruct (Hkeep st' Hp) as [Hc Hge].
    destruct (kind_term_room v f k t st (poff st + term_est v t) Hk Hv) as [R1 _]; [lia|]. apply R1 in Hp.
    exists cm, ls. split; [congruence|]. split; [reflexivity|]. split; [lia|]. split; [lia|].
    eapply Jc_mono; eauto. }
  destruct k, t; cbn [kind_term] in Hk; try discriminate;
    try (apply Kp; [reflexivity|]; cbn [pack_field];
         first [apply keeps_fixed|apply keeps_a|apply keeps_aaaa|apply keeps_nsec|apply keeps_opts
               |apply keeps_svcb|apply keeps_apl
               |apply keeps_relabel; first [apply keeps_txt_string|apply keeps_txt|apply keeps_octet]]).
  - (* name *)
    apply andb_prop in Hk. destruct Hk as [Hf Hc]. apply String.eqb_eq in Hf. subst f0.
    apply Bool.eqb_prop in Hc. subst compress0.
    cbn [pack_field] in Hp. cbn [len_term] in Hl.
    destruct (domain_name_len (as_s (vget v f)) (off + l) (Some ls) compress) as [n c1] eqn:En.
    injection Hl as <- <-.
    destruct (name_joint _ cap compress compress st cm ls (off + l) n c1 st' Hcm HJ HP (fun x => x) Hp En)
      as [cm1 [ls1 [C1 [-> [Hs J1]]]]].
    exists cm1, ls1. split; [exact C1|]. split; [reflexivity|]. unfold poff in *. split; [lia|]. split; [lia|exact J1].
  - (* names *)
    apply andb_prop in Hk. destruct Hk as [Hf Hc]. apply String.eqb_eq in Hf. subst f0.
    apply Bool.eqb_prop in Hc. subst compress0.
    cbn [pack_field] in Hp. cbn [len_term] in Hl.
    destruct (names_joint _ compress cap st cm ls off l l' c' st' Hcm HJ HP Hp Hl) as [cm' [ls' [A [B [C [D E]]]]]].
    exists cm', ls'. split; [exact A|]. split; [exact B|]. split; [lia|]. split; [exact D|exact E].
  - (* gateway: the host name is packed (and entered in the map) but not walked by len() *)
    repeat (apply andb_prop in Hk; let H := fresh "Hk" in destruct Hk as [Hk H]).
    apply String.eqb_eq in Hk, Hk4. apply N.eqb_eq in Hk3, Hk2, Hk1, Hk0. subst.
    rewrite len_term_nowalk in Hl by reflexivity. injection Hl as <- <-.
    pose proof Hp as Hsz.
    destruct (kind_term_room v f (K_gateway tyf0 addrf hostf0 mask0 compress)
                (L_gateway tyf0 mask0 hostf0 gw_v4 gw_v6 gw_host) st
                (poff st + term_est v (L_gateway tyf0 mask0 hostf0 gw_v4 gw_v6 gw_host))) as [R1 _];
      [cbn [kind_term]; rewrite !String.eqb_refl, !N.eqb_refl; reflexivity|exact Hv|lia|]. apply R1 in Hsz.
    cbn [pack_field] in Hp. destruct HJ as [Hb Hcl].
    assert (Kk : keeps (Ok st') st -> exists cm' ls', pn_cm st' = Some cm' /\ Some ls = Some ls' /\
       poff st' + l <= poff st + (l + term_est v (L_gateway tyf0 mask0 hostf0 gw_v4 gw_v6 gw_host)) /\
       l <= l + term_est v (L_gateway tyf0 mask0 hostf0 gw_v4 gw_v6 gw_host) /\ Jc cm' ls' (poff st')).
    { intro Hkeep. destruct (Hkeep st' eq_refl) as [Hc Hge]. exists cm, ls. split; [congruence|].
      split; [reflexivity|]. split; [lia|]. split; [lia|]. apply (Jc_mono cm ls (poff st)); [split; assumption|exact Hge]. }
    destruct (N.land (vget_n v tyf0) mask0 =? gw_v4).
    { apply Kk. rewrite <- Hp. apply keeps_a. }
    destruct (N.land (vget_n v tyf0) mask0 =? gw_v6).
    { apply Kk. rewrite <- Hp. apply keeps_aaaa. }
    destruct (N.land (vget_n v tyf0) mask0 =? gw_host).
    2:{ apply Kk. rewrite <- Hp. apply keeps_same. }
    destruct (pack_name_cm _ cap compress st cm st' Hcm Hcl Hp) as [cm' [C1 [C2 [C3 [C4 _]]]]].
    cbn [term_est] in Hsz. exists cm', ls. split; [exact C1|]. split; [reflexivity|]. split; [lia|]. split; [lia|].
    split; [intros q Hq; apply C2, Hb, Hq|exact C3].
Qed.

(* ================================================================== *)
(* 3. a field sequence                                                  *)
(* ================================================================== *)
(* alignment with nothing but constants left over at the end: a trailing len()
   term that walks a name no pack statement writes would put suffixes in the
   length walk's set that the packer never enters in its map *)
Fixpoint aligned2_go (credit : N) (pfs : list pfield) (ts : list lterm) : bool :=
  match pfs with
  | [] => let '(_, ts') := absorb credit ts in match ts' with [] => true | _ => false end
  | (f, k) :: r =>
    let '(credit', ts') := absorb credit ts in
    match kind_fixed k with
    | Some n => (n <=? credit') && aligned2_go (credit' - n) r ts'
    | None =>
      match ts' with
      | t :: ts'' => kind_term f k t && aligned2_go credit' r ts''
      | [] => false
      end
    end
  end.

Lemma aligned2_aligned : forall pfs credit ts, aligned2_go credit pfs ts = true -> aligned_go credit pfs ts = true.
Proof.
  induction pfs as [|[f k] r IH]; intros credit ts H; [reflexivity|].
  cbn [aligned2_go aligned_go] in *. destruct (absorb credit ts) as [c' ts'].
  destruct (kind_fixed k).
  - apply andb_prop in H. destruct H as [H1 H2]. rewrite H1. cbn [andb]. now apply IH.
  - destruct ts' as [|t ts'']; [discriminate|]. apply andb_prop in H. destruct H as [H1 H2]. rewrite H1. cbn [andb]. now apply IH.
Qed.

Lemma absorb_len v ts : forall credit c' ts' off l c,
  absorb credit ts = (c', ts') ->
  len_terms v ts off l c = len_terms v ts' off (l + (c' - credit)) c /\ credit <= c'.
Proof.
  induction ts as [|t r IH]; intros credit c' ts' off l c H.
  - injection H as <- <-. split; [f_equal; lia|lia].
  - destruct t; try (injection H as <- <-; split; [f_equal; lia|lia]).
    cbn [absorb] in H. destruct (IH _ _ _ off (l + n) c H) as [I1 I2].
    cbn [len_terms len_term]. rewrite I1. split; [f_equal; lia|lia].
Qed.

Lemma fields_joint v : forall pfs credit ts cap st cm ls off l l' c' st',
  aligned2_go credit pfs ts = true -> rdata_pairs_ok v = true ->
  pn_cm st = Some cm -> Jc cm ls (poff st) -> poff st + credit <= off + l ->
  pack_fields v pfs cap st = Ok st' ->
  len_terms v ts off l (Some ls) = (l', c') ->
  exists cm' ls', pn_cm st' = Some cm' /\ c' = Some ls' /\ poff st' <= off + l' /\ Jc cm' ls' (poff st').
Proof.
  induction pfs as [|[f k] r IH]; intros credit ts cap st cm ls off l l' c' st' Ha Hv Hcm HJ HP Hp Hl.
  - cbn [aligned2_go] in Ha. destruct (absorb credit ts) as [c1 ts1] eqn:Eab.
    destruct (absorb_len v ts credit c1 ts1 off l (Some ls) Eab) as [El Hc]. rewrite El in Hl.
    destruct ts1; [|discriminate]. cbn [len_terms] in Hl. injection Hl as <- <-.
    cbn [pack_fields] in Hp. injection Hp as <-. exists cm, ls.
    split; [exact Hcm|]. split; [reflexivity|]. split; [lia|exact HJ].
  - cbn [aligned2_go] in Ha. destruct (absorb credit ts) as [c1 ts1] eqn:Eab.
    destruct (absorb_len v ts credit c1 ts1 off l (Some ls) Eab) as [El Hc]. rewrite El in Hl.
    cbn [pack_fields] in Hp. destruct (pack_field v f k cap st) as [s1| | |] eqn:E1; try discriminate.
    cbn [bind] in Hp.
    destruct (kind_fixed k) as [n|] eqn:Ek.
    + apply andb_prop in Ha. destruct Ha as [Hn Ha].
      destruct (fixed_is_fixed v f k n Ek) as [b [Hb Hf]]. rewrite Hf in E1.
      pose proof (pack_fixed_exact _ _ _ _ E1) as Hs. pose proof (pack_fixed_cm _ _ _ _ E1) as Hm.
      apply (IH (c1 - n) ts1 cap s1 cm ls off (l + (c1 - credit)) l' c' st' Ha Hv); auto.
      * congruence.
      * eapply Jc_mono; [exact HJ|lia].
      * lia.
    + destruct ts1 as [|t ts2]; [discriminate|]. apply andb_prop in Ha. destruct Ha as [Hk Ha].
      cbn [len_terms] in Hl.
      destruct (len_term v t off (l + (c1 - credit)) (Some ls)) as [l2 c2] eqn:Et.
      destruct (kind_term_joint v f k t cap st cm ls off (l + (c1 - credit)) l2 c2 s1 Hk Hv Hcm HJ) as
          [cm1 [ls1 [C1 [-> [Hs [Hle J1]]]]]]; auto.
      { lia. }
      apply (IH c1 ts2 cap s1 cm1 ls1 off l2 l' c' st' Ha Hv C1 J1); auto. lia.
Qed.

(* ================================================================== *)
(* 4. a record, a question                                              *)
(* ================================================================== *)
Definition kind_ok2 (k : string) : bool :=
  match find_layout layouts k, len_terms_of k with
  | Some L, Some ts => aligned2_go 0 (tl_pack L) ts
  | _, _ => false
  end.
Definition rr_okb2 (r : rr) : bool := kind_ok2 (rr_kind r) && rdata_pairs_ok (rr_data r).

Lemma kind_ok2_ok k : kind_ok2 k = true -> kind_ok k = true.
Proof.
  unfold kind_ok2, kind_ok. destruct (find_layout layouts k); [|discriminate].
  destruct (len_terms_of k); [|discriminate]. apply aligned2_aligned.
Qed.
Lemma rr_okb2_ok r : rr_okb2 r = true -> rr_okb r = true.
Proof.
  unfold rr_okb2, rr_okb. intro H. apply andb_prop in H. destruct H as [H1 H2].
  now rewrite (kind_ok2_ok _ H1), H2.
Qed.

Lemma tables_aligned2 : forallb (fun L => kind_ok2 (base_kind (tl_name L))) layouts = true.
Proof. vm_compute. reflexivity. Qed.
Lemma registry_aligned2 :
  forallb (fun p : N * string => kind_ok2 (base_kind (snd p))) type_to_rr = true /\ kind_ok2 "RFC3597" = true.
Proof. vm_compute. split; reflexivity. Qed.
Lemma kind_of_type_ok2 t : kind_ok2 (kind_of_type t) = true.
Proof.
  destruct registry_aligned2 as [H1 H2]. unfold kind_of_type.
  destruct (assoc_n type_to_rr t) as [k|] eqn:E; [|exact H2].
  apply assoc_n_in in E. rewrite forallb_forall in H1. exact (H1 _ E).
Qed.

Lemma rr_joint r cap st cm ls L n c' st' :
  rr_okb2 r = true -> pn_cm st = Some cm -> Jc cm ls (poff st) -> poff st <= L -> poff st < cap ->
  pack_rr r cap true st = Ok st' ->
  len_rr r L (Some ls) = (n, c') ->
  exists cm' ls', pn_cm st' = Some cm' /\ c' = Some ls' /\ poff st' <= L + n /\ Jc cm' ls' (poff st').
Proof.
  unfold rr_okb2, kind_ok2. intros Hok Hcm HJ HP Hcap Hp Hl.
  apply andb_prop in Hok. destruct Hok as [Hk Hv].
  destruct (find_layout layouts (rr_kind r)) as [Ly|] eqn:EL; [|discriminate].
  unfold len_rr in Hl.
  destruct (domain_name_len (rr_name r) L (Some ls) true) as [hl c1] eqn:En.
  destruct (len_terms_of (rr_kind r)) as [ts|]; [|discriminate].
  rewrite (pack_rr_unfold r Ly cap true st EL) in Hp.
  unfold pack_header in Hp. replace (poff st =? cap) with false in Hp by lia.
  destruct (pack_name (rr_name r) cap true st) as [s1| | |] eqn:E1; try discriminate. cbn [bind] in Hp.
  destruct (pack_fixed (u16 (rr_type r)) cap s1) as [s2| | |] eqn:E2; try discriminate. cbn [bind] in Hp.
  destruct (pack_fixed (u16 (rr_class r)) cap s2) as [s3| | |] eqn:E3; try discriminate. cbn [bind] in Hp.
  destruct (pack_fixed (u32 (rr_ttl r)) cap s3) as [s4| | |] eqn:E4; try discriminate. cbn [bind] in Hp.
  destruct (pack_fixed (u16 0) cap s4) as [s5| | |] eqn:E5; try discriminate. cbn [bind] in Hp.
  destruct (pack_fields (rr_data r) (tl_pack Ly) cap s5) as [s6| | |] eqn:E6; try discriminate. cbn [bind] in Hp.
  destruct (name_joint _ cap true true st cm ls L hl c1 s1 Hcm HJ HP (fun x => x) E1 En) as [cm1 [ls1 [C1 [-> [Hs J1]]]]].
  fold (poff s1) in Hs, J1. fold (poff st) in Hs.
  pose proof (pack_fixed_cm _ _ _ _ E2). pose proof (pack_fixed_cm _ _ _ _ E3).
  pose proof (pack_fixed_cm _ _ _ _ E4). pose proof (pack_fixed_cm _ _ _ _ E5).
  apply pack_fixed_exact in E2, E3, E4, E5. rewrite lenN_u16 in E2, E3, E5.
  change (lenN (u32 (rr_ttl r))) with 4 in E4.
  assert (C5 : pn_cm s5 = Some cm1) by congruence.
  assert (J5 : Jc cm1 ls1 (poff s5)) by (eapply Jc_mono; [exact J1|lia]).
  destruct (fields_joint (rr_data r) (tl_pack Ly) 0 ts cap s5 cm1 ls1 L (hl + 10) n c' s6 Hk Hv C5 J5) as
      [cm' [ls' [A [B [C D]]]]]; auto.
  { lia. }
  apply rr_finish_off in Hp. destruct Hp as [O1 O2].
  exists cm', ls'. split; [congruence|]. split; [exact B|]. rewrite O1. split; [exact C|exact D].
Qed.

Lemma question_joint q cap st cm ls L n c' st' :
  pn_cm st = Some cm -> Jc cm ls (poff st) -> poff st <= L ->
  pack_question q cap true st = Ok st' ->
  len_question q L (Some ls) = (n, c') ->
  exists cm' ls', pn_cm st' = Some cm' /\ c' = Some ls' /\ poff st' <= L + n /\ Jc cm' ls' (poff st').
Proof.
  intros Hcm HJ HP Hp Hl. unfold len_question in Hl.
  destruct (domain_name_len (q_name q) L (Some ls) true) as [hl c1] eqn:En. injection Hl as <- <-.
  unfold pack_question in Hp.
  destruct (pack_name (q_name q) cap true st) as [s1| | |] eqn:E1; try discriminate. cbn [bind] in Hp.
  destruct (pack_fixed (u16 (q_type q)) cap s1) as [s2| | |] eqn:E2; try discriminate. cbn [bind] in Hp.
  destruct (name_joint _ cap true true st cm ls L hl c1 s1 Hcm HJ HP (fun x => x) E1 En) as [cm1 [ls1 [C1 [-> [Hs J1]]]]].
  fold (poff s1) in Hs, J1. fold (poff st) in Hs.
  pose proof (pack_fixed_cm _ _ _ _ E2). pose proof (pack_fixed_cm _ _ _ _ Hp).
  apply pack_fixed_exact in E2, Hp. rewrite lenN_u16 in E2, Hp.
  exists cm1, ls1. split; [congruence|]. split; [reflexivity|]. split; [lia|]. eapply Jc_mono; [exact J1|lia].
Qed.

(* ================================================================== *)
(* 5. sections and the message                                          *)
(* ================================================================== *)
Definition step_q (a : N * option lset) (q : question) : N * option lset :=
  let '(n, c') := len_question q (fst a) (snd a) in (fst a + n, c').
Definition step_r (a : N * option lset) (r : rr) : N * option lset :=
  let '(n, c') := len_rr r (fst a) (snd a) in (fst a + n, c').

Lemma questions_joint l : forall cap st cm ls L L' c' st',
  pn_cm st = Some cm -> Jc cm ls (poff st) -> poff st <= L ->
  pack_questions l cap true st = Ok st' ->
  fold_left step_q l (L, Some ls) = (L', c') ->
  exists cm' ls', pn_cm st' = Some cm' /\ c' = Some ls' /\ poff st' <= L' /\ Jc cm' ls' (poff st').
Proof.
  induction l as [|q r IH]; intros cap st cm ls L L' c' st' Hcm HJ HP Hp Hl.
  - injection Hp as <-. cbn [fold_left] in Hl. injection Hl as <- <-. exists cm, ls. auto.
  - cbn [pack_questions] in Hp. destruct (pack_question q cap true st) as [s1| | |] eqn:E1; try discriminate.
    cbn [bind] in Hp. cbn [fold_left] in Hl. unfold step_q at 2 in Hl. cbn [fst snd] in Hl.
    destruct (len_question q L (Some ls)) as [n c1] eqn:En.
    destruct (question_joint q cap st cm ls L n c1 s1 Hcm HJ HP E1 En) as [cm1 [ls1 [C1 [-> [Hs J1]]]]].
    exact (IH cap s1 cm1 ls1 (L + n) L' c' st' C1 J1 Hs Hp Hl).
Qed.

Lemma rrs_joint l : forall cap st cm ls L L' c' st',
  forallb rr_okb2 l = true -> pn_cm st = Some cm -> Jc cm ls (poff st) -> poff st <= L ->
  poff st + rrs_est l < cap ->
  pack_rrs l cap true st = Ok st' ->
  fold_left step_r l (L, Some ls) = (L', c') ->
  exists cm' ls', pn_cm st' = Some cm' /\ c' = Some ls' /\ poff st' <= L' /\ Jc cm' ls' (poff st').
Proof.
  induction l as [|x r IH]; intros cap st cm ls L L' c' st' Hok Hcm HJ HP Hcap Hp Hl.
  - injection Hp as <-. cbn [fold_left] in Hl. injection Hl as <- <-. exists cm, ls. auto.
  - cbn [forallb] in Hok. apply andb_prop in Hok. destruct Hok as [Hx Hr]. cbn [rrs_est] in Hcap.
    cbn [pack_rrs] in Hp. destruct (pack_rr x cap true st) as [s1| | |] eqn:E1; try discriminate.
    cbn [bind] in Hp. cbn [fold_left] in Hl. unfold step_r at 2 in Hl. cbn [fst snd] in Hl.
    destruct (len_rr x L (Some ls)) as [n c1] eqn:En.
    assert (Hlt : poff st < cap) by lia.
    destruct (rr_joint x cap st cm ls L n c1 s1 Hx Hcm HJ HP Hlt E1 En) as [cm1 [ls1 [C1 [-> [Hs J1]]]]].
    destruct (room_rr x true st (poff st + rr_est x) (rr_okb2_ok _ Hx)) as [R1 _]; [lia|]. apply R1 in E1.
    apply (IH cap s1 cm1 ls1 (L + n) L' c' st' Hr C1 J1 Hs); [lia|exact Hp|exact Hl].
Qed.

Definition msg_okb2 (m : msg) : bool :=
  forallb rr_okb2 (m_answer m) && forallb rr_okb2 (m_ns m) && forallb rr_okb2 (m_extra m).

Lemma forallb_okb2_ok l : forallb rr_okb2 l = true -> forallb rr_okb l = true.
Proof.
  induction l as [|x r IH]; [reflexivity|]. cbn [forallb]. intro H. apply andb_prop in H. destruct H as [H1 H2].
  now rewrite (rr_okb2_ok _ H1), IH.
Qed.
Lemma msg_okb2_ok m : msg_okb2 m = true -> msg_okb m = true.
Proof.
  unfold msg_okb2, msg_okb. intro H. apply andb_prop in H. destruct H as [H He]. apply andb_prop in H. destruct H as [Ha Hn].
  now rewrite !forallb_okb2_ok.
Qed.

Lemma rr_okb2_ext r c : rr_okb2 (set_ext_rcode r c) = rr_okb2 r.
Proof. reflexivity. Qed.
Lemma okb2_update l f : (forall x, rr_okb2 (f x) = rr_okb2 x) -> forall i,
  forallb rr_okb2 (update_nth l i f) = forallb rr_okb2 l.
Proof.
  intro Hf. induction l as [|x r IH]; intro i; [destruct i; reflexivity|].
  destruct i; cbn [update_nth forallb]; [now rewrite Hf|now rewrite IH].
Qed.
Lemma msg_extra_okb2 m : forallb rr_okb2 (msg_extra m) = forallb rr_okb2 (m_extra m).
Proof. unfold msg_extra. destruct (last_opt_index _ _ _); [|reflexivity]. apply okb2_update. intro; apply rr_okb2_ext. Qed.

(* Len() does not look at the TTL, so the OPT patch does not change it *)
Lemma step_r_update l f : (forall x a, step_r a (f x) = step_r a x) -> forall i a,
  fold_left step_r (update_nth l i f) a = fold_left step_r l a.
Proof.
  intro Hf. induction l as [|x r IH]; intros i a; [destruct i; reflexivity|].
  destruct i; cbn [update_nth fold_left]; [now rewrite Hf|now rewrite IH].
Qed.
Lemma fold_extra m a : fold_left step_r (msg_extra m) a = fold_left step_r (m_extra m) a.
Proof. unfold msg_extra. destruct (last_opt_index _ _ _); [|reflexivity]. apply step_r_update. reflexivity. Qed.

Lemma msg_len_with_steps m c :
  msg_len_with m c =
  fst (fold_left step_r (m_extra m) (fold_left step_r (m_ns m) (fold_left step_r (m_answer m)
        (fold_left step_q (m_question m) (12, c))))).
Proof. reflexivity. Qed.

(* Msg.Len() >= len(Pack()) for messages packed with compression *)
Theorem msg_len_ge_pack_compressed m w :
  msg_okb2 m = true -> msg_compress m = true -> pack_msg m = Ok w -> lenN w <= msg_len m.
Proof.
  intros Hok Hc. pose proof (msg_okb2_ok m Hok) as Hok1.
  unfold msg_okb2 in Hok. apply andb_prop in Hok. destruct Hok as [Hok He]. apply andb_prop in Hok. destruct Hok as [Ha Hn].
  unfold msg_okb in Hok1. apply andb_prop in Hok1. destruct Hok1 as [Hok1 He1]. apply andb_prop in Hok1. destruct Hok1 as [Ha1 Hn1].
  unfold pack_msg, msg_len. fold (msg_compress m). rewrite Hc.
  rewrite pack_msg_buf_sections. destruct (4095 <? _); [discriminate|].
  assert (K : (do r <- (do st <- pack_sections (m_question m) (m_answer m) (m_ns m) (msg_extra m) (msg_compress m)
                                (msg_hdr m) (msg_cap m 0) (msg_st0 m);
                        Ok (pn_out st, negb (0 <? msg_len_with m None + 1))); Ok (fst r)) = Ok w ->
              lenN w <= msg_len_with m (Some [])).
  { destruct (pack_sections _ _ _ _ _ _ _ _) as [st| | |] eqn:E; try discriminate. cbn [bind fst].
    intro X. injection X as <-. revert E. unfold pack_sections. rewrite Hc.
    pose proof (msg_cap_gt m 0) as Hcap. rewrite msg_len_with_none in Hcap. unfold msg_est in Hcap.
    rewrite <- (msg_extra_est m) in Hcap. rewrite <- msg_extra_okb2 in He. rewrite <- msg_extra_okb in He1.
    destruct (pack_fixed (msg_hdr m) (msg_cap m 0) (msg_st0 m)) as [s1| | |] eqn:E1; try discriminate. cbn [bind].
    destruct (pack_questions _ _ _ s1) as [s2| | |] eqn:E2; try discriminate. cbn [bind].
    destruct (pack_rrs (m_answer m) _ _ s2) as [s3| | |] eqn:E3; try discriminate. cbn [bind].
    destruct (pack_rrs (m_ns m) _ _ s3) as [s4| | |] eqn:E4; try discriminate. cbn [bind].
    intro E5.
    assert (C0 : pn_cm (msg_st0 m) = Some []) by (unfold msg_st0; rewrite Hc; reflexivity).
    pose proof (pack_fixed_cm _ _ _ _ E1) as C1. rewrite C0 in C1.
    apply pack_fixed_exact in E1. rewrite lenN_msg_hdr in E1. change (poff (msg_st0 m)) with 0 in E1.
    assert (J1 : Jc [] [] (poff s1)).
    { split; [intros k []|]. intros X Z HX. exfalso. apply HX. reflexivity. }
    rewrite msg_len_with_steps, <- fold_extra.
    (* uncompressed bounds keep every record start inside the buffer *)
    destruct (room_questions (m_question m) true s1 (poff s1 + qs_est (m_question m))) as [Rq _]; [lia|].
    pose proof (Rq _ _ E2) as B2.
    destruct (room_rrs (m_answer m) true s2 (poff s2 + rrs_est (m_answer m)) Ha1) as [Ra _]; [lia|].
    pose proof (Ra _ _ E3) as B3.
    destruct (room_rrs (m_ns m) true s3 (poff s3 + rrs_est (m_ns m)) Hn1) as [Rn _]; [lia|].
    pose proof (Rn _ _ E4) as B4.
    destruct (fold_left step_q (m_question m) (12, Some [])) as [L2 c2] eqn:F2.
    destruct (questions_joint _ _ s1 [] [] 12 L2 c2 s2 C1 J1 ltac:(lia) E2 F2) as [cm2 [ls2 [C2 [-> [P2 J2]]]]].
    destruct (fold_left step_r (m_answer m) (L2, Some ls2)) as [L3 c3] eqn:F3.
    assert (H3 : poff s2 + rrs_est (m_answer m) < msg_cap m 0) by lia.
    destruct (rrs_joint _ _ s2 cm2 ls2 L2 L3 c3 s3 Ha C2 J2 P2 H3 E3 F3) as [cm3 [ls3 [C3 [-> [P3 J3]]]]].
    destruct (fold_left step_r (m_ns m) (L3, Some ls3)) as [L4 c4] eqn:F4.
    assert (H4 : poff s3 + rrs_est (m_ns m) < msg_cap m 0) by lia.
    destruct (rrs_joint _ _ s3 cm3 ls3 L3 L4 c4 s4 Hn C3 J3 P3 H4 E4 F4) as [cm4 [ls4 [C4 [-> [P4 J4]]]]].
    destruct (fold_left step_r (msg_extra m) (L4, Some ls4)) as [L5 c5] eqn:F5.
    assert (H5 : poff s4 + rrs_est (msg_extra m) < msg_cap m 0) by lia.
    destruct (rrs_joint _ _ s4 cm4 ls4 L4 L5 c5 st He C4 J4 P4 H5 E5 F5) as [cm5 [ls5 [C5 [-> [P5 J5]]]]].
    assert (EQ : fold_left step_r (msg_extra m) (fold_left step_r (m_ns m) (fold_left step_r (m_answer m)
                   (fold_left step_q (m_question m) (12, Some [])))) = (L5, Some ls5)).
    { rewrite F2, F3, F4. exact F5. }
    exact (eq_ind (L5, Some ls5) (fun x : N * option lset => lenN (pn_out st) <= fst x) P5 _ (eq_sym EQ)). }
  destruct (last_opt_index _ _ _); [|destruct (15 <? _); [discriminate|]]; exact K.
Qed.

(* the first clause of C08 in full: under the message's own compression setting *)
Theorem msg_len_ge_pack m w :
  msg_okb2 m = true -> pack_msg m = Ok w -> lenN w <= msg_len m.
Proof.
  intros Hok H. destruct (msg_compress m) eqn:Hc.
  - now apply msg_len_ge_pack_compressed.
  - apply msg_len_ge_pack_uncompressed; auto. now apply msg_okb2_ok.
Qed.
