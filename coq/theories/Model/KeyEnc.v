(* Model/KeyEnc.v — dnssec.go KeyTag / ToDS / ValidityPeriod / publicKeyRSA /
   publicKeyECDSA / publicKeyED25519, dnssec_keygen.go exponentToBuf /
   curveToBuf, msg.go intToBytes, dnssec_privkey.go + dnssec_keyscan.go text
   layout of BIND private-key files.  Definitions only. *)
From Dns Require Export Base.Bytes Model.Name.
Open Scope N_scope.

(* ---------- DNSKEY RDATA (packKeyWire) ---------- *)
Definition dnskey_rdata (flags proto alg : N) (pub : bytes) : bytes :=
  u16 flags ++ u8 proto ++ u8 alg ++ pub.

(* DefaultMsgSize: KeyTag and ToDS pack the RDATA into a buffer of this size *)
Definition default_msg_size : N := 4096.

(* ---------- key tag ---------- *)
(* the loop of DNSKEY.KeyTag: octets at even index are the high half of a 16-bit group *)
Fixpoint keytag_loop (i : N) (l : bytes) (acc : N) : N :=
  match l with
  | [] => acc
  | v :: r => keytag_loop (i + 1) r (if N.odd i then acc + v else acc + v * 256)
  end.
Definition keytag_fold (ac : N) : N := (ac + (ac / 65536) mod 65536) mod 65536.
Definition keytag (rdata : bytes) : N := keytag_fold (keytag_loop 0 rdata 0).

(* the same with every addition done in a W-bit unsigned accumulator *)
Fixpoint keytag_loop_w (W : N) (i : N) (l : bytes) (acc : N) : N :=
  match l with
  | [] => acc
  | v :: r => keytag_loop_w W (i + 1) r
                ((if N.odd i then acc + v else acc + v * 256) mod 2 ^ W)
  end.
Definition keytag_w (W : N) (rdata : bytes) : N :=
  let ac := keytag_loop_w W 0 rdata 0 in
  ((ac + (ac / 65536) mod 65536) mod 2 ^ W) mod 65536.

(* RFC 4034 Appendix B: the RDATA is a series of 2-octet groups (a trailing odd
   octet is the high half of a group), the groups are added, the carry above 16
   bits is added once and the result truncated to 16 bits. *)
Fixpoint sum16 (l : bytes) : N :=
  match l with
  | a :: b :: r => 256 * a + b + sum16 r
  | [a] => 256 * a
  | [] => 0
  end.
Definition keytag_rfc (rdata : bytes) : N :=
  let ac := sum16 rdata in (ac + (ac / 65536) mod 65536) mod 65536.

(* DNSKEY.KeyTag(): 0 when the RDATA does not fit the 4096-octet buffer *)
Definition key_tag (flags proto alg : N) (pub : bytes) : N :=
  if 4 + lenN pub <=? default_msg_size then keytag (dnskey_rdata flags proto alg pub) else 0.

(* ---------- DS ---------- *)
Section DS.
  Variable H : N -> bytes -> bytes.   (* digest type -> hash: 1 SHA-1, 2 SHA-256, 4 SHA-384, 5 SHA-512 *)

  Definition ds_supported (dt : N) : bool := (dt =? 1) || (dt =? 2) || (dt =? 4) || (dt =? 5).
  (* RFC 4034 5.1.4: digest = H(canonical owner name | DNSKEY RDATA) *)
  Definition ds_input (owner : list label) (rdata : bytes) : bytes :=
    wire_name (map lower_bytes owner) ++ rdata.

  Record ds := { ds_keytag : N; ds_alg : N; ds_dt : N; ds_digest : bytes }.

  (* DNSKEY.ToDS(h): nil (None) when the RDATA does not fit, the owner cannot
     be packed into 255 octets, or the digest type is not supported *)
  Definition to_ds (owner : list label) (flags proto alg : N) (pub : bytes) (dt : N) : option ds :=
    if negb (4 + lenN pub <=? default_msg_size) then None
    else if negb (valid_wire owner) then None
    else if negb (ds_supported dt) then None
    else Some {| ds_keytag := key_tag flags proto alg pub; ds_alg := alg; ds_dt := dt;
                 ds_digest := H dt (ds_input owner (dnskey_rdata flags proto alg pub)) |}.
End DS.

(* ---------- RRSIG.ValidityPeriod ---------- *)
Open Scope Z_scope.
Definition year68 : Z := 2147483648.   (* 1 << 31 *)
(* Go's / on int64 truncates toward zero: Z.quot *)
Definition validity_period (incep expir : N) (utc : Z) : bool :=
  let i := Z.of_N incep in
  let e := Z.of_N expir in
  let modi := Z.quot (i - utc) year68 in
  let mode := Z.quot (e - utc) year68 in
  let ti := i + modi * year68 in
  let te := e + mode * year68 in
  (ti <=? utc) && (utc <=? te).

(* RFC 1982 serial number comparison on 32-bit values (s1 <= s2) *)
Definition serial_le (a b : Z) : Prop := (b - a) mod 4294967296 < 2147483648.
Definition serial_leb (a b : Z) : bool := (b - a) mod 4294967296 <? 2147483648.
(* distance on the 32-bit circle *)
Definition serial_dist (a b : Z) : Z :=
  Z.min ((b - a) mod 4294967296) ((a - b) mod 4294967296).

(* types.go StringToTime, after time.Parse: unix seconds -> 32-bit field *)
Definition string_to_time_u32 (unix : Z) : Z :=
  let m := Z.quot unix year68 - 1 in
  let m := if m <? 0 then 0 else m in
  (unix - m * year68) mod 4294967296.
Open Scope N_scope.

(* ---------- integers as octet strings ---------- *)
(* big.Int.Bytes(): minimal big-endian, empty for 0 *)
Fixpoint be_bytes_aux (fuel : nat) (n : N) (acc : bytes) : bytes :=
  match fuel with
  | O => acc
  | S f => if n =? 0 then acc else be_bytes_aux f (n / 256) (n mod 256 :: acc)
  end.
Definition be_bytes (n : N) : bytes := be_bytes_aux (S (N.to_nat (N.log2 n))) n [].

(* msg.go intToBytes: left-pad with zeros to length; longer values are kept *)
Definition int_to_bytes (n : N) (len : nat) : bytes :=
  let b := be_bytes n in repeat 0 (len - length b) ++ b.

(* dnssec_keygen.go exponentToBuf applied to the octets of the exponent
   (RFC 3110 section 2: 1-octet length, or 0 followed by a 2-octet length) *)
Definition exponent_to_buf (e : bytes) : bytes :=
  if lenN e <? 256 then u8 (lenN e) ++ e else [0] ++ u16 (lenN e) ++ e.
Definition rsa_pub_enc (e n : N) : bytes := exponent_to_buf (be_bytes e) ++ be_bytes n.

(* dnssec.go publicKeyRSA on the decoded key octets: Some (E, N) or nil *)
Definition rsa_pub_dec (k : bytes) : option (N * N) :=
  if lenN k <? 66 then None
  else
    let b0 := nthN k 0 0 in
    let '(explen, keyoff) :=
      if b0 =? 0 then (nthN k 1 0 * 256 + nthN k 2 0, 3) else (b0, 1) in
    if (4 <? explen) || (explen =? 0) || (nthN k keyoff 0 =? 0) then None
    else
      let modoff := keyoff + explen in
      let modlen := lenN k - modoff in
      if (modlen <? 64) || (512 <? modlen) || (nthN k modoff 0 =? 0) then None
      else
        let expo := be (takeN explen (dropN keyoff k)) 0 in
        if 2147483647 <? expo then None
        else Some (expo, be (dropN modoff k) 0).

(* dnssec_keygen.go curveToBuf / dnssec.go publicKeyECDSA (intlen 32 or 48) *)
Definition curve_to_buf (x y : N) (intlen : nat) : bytes :=
  int_to_bytes x intlen ++ int_to_bytes y intlen.
Definition ecdsa_pub_dec (alg : N) (k : bytes) : option (N * N) :=
  if (alg =? 13) && negb (lenN k =? 64) then None
  else if (alg =? 14) && negb (lenN k =? 96) then None
  else let h := lenN k / 2 in Some (be (takeN h k) 0, be (dropN h k) 0).
Definition ed25519_pub_dec (k : bytes) : option bytes :=
  if lenN k =? 32 then Some k else None.

(* ---------- BIND private-key text: the klexer of dnssec_keyscan.go ---------- *)
(* Tokens: a key is the text up to the first ':' while in key state (the octet
   after the ':' is skipped); a value is the text up to the newline; ';' starts
   a comment that lasts to the newline; empty lines in key state are skipped.
   parseKey stores value under the lower-cased key.  The model returns the
   association list in file order (parseKey's map keeps the LAST value of a
   repeated key; [kv_lookup] below does the same). *)
Inductive ktok := KKey (s : bytes) | KValue (s : bytes).

(* state: key? (true while reading a key), commt, pending skip after ':', buffer (reversed) *)
Fixpoint klex (inp : bytes) (key commt skip : bool) (buf : bytes) : list ktok :=
  match inp with
  | [] => match buf with [] => [] | _ => [KValue (rev buf)] end
  | x :: r =>
    if skip then klex r key commt false buf      (* "Next token is a space, eat it" *)
    else if x =? 58 then                          (* ':' *)
      if commt || negb key then
        (* not special here: falls out of the switch without writing the octet *)
        klex r key commt false buf
      else KKey (rev buf) :: klex r false commt true []
    else if x =? 59 then klex r key true false buf             (* ';' *)
    else if x =? 10 then                                        (* newline *)
      if key && (match buf with [] => true | _ => false end)
      then klex r key false false buf                           (* empty line *)
      else KValue (rev buf) :: klex r true false false []
    else if commt then klex r key commt false buf
    else klex r key commt false (x :: buf)
  end.

(* parseKey: alternate key / value; a value without a key is an error (None) *)
Fixpoint parse_kv (ts : list ktok) (k : bytes) : option (list (bytes * bytes)) :=
  match ts with
  | [] => Some []
  | KKey s :: r => parse_kv r s
  | KValue v :: r =>
    match k with
    | [] => None
    | _ => match parse_kv r [] with
           | Some m => Some ((lower_bytes k, v) :: m)
           | None => None
           end
    end
  end.
Definition parse_key (text : bytes) : option (list (bytes * bytes)) :=
  parse_kv (klex text true false false []) [].

Fixpoint kv_lookup (m : list (bytes * bytes)) (k : bytes) : option bytes :=
  match m with
  | [] => None
  | (k', v) :: r =>
    match kv_lookup r k with
    | Some v' => Some v'
    | None => if bytes_eqb k k' then Some v else None
    end
  end.

(* PrivateKeyString: "Key: value\n" lines *)
Definition print_kv (m : list (bytes * bytes)) : bytes :=
  flat_map (fun kv => fst kv ++ [58; 32] ++ snd kv ++ [10]) m.

(* characters allowed in the keys and values PrivateKeyString prints *)
Definition kv_char_ok (b : N) : bool := negb ((b =? 58) || (b =? 59) || (b =? 10)).
Definition key_ok (k : bytes) : bool :=
  forallb kv_char_ok k && negb (match k with [] => true | _ => false end).
(* a ':' inside a value is dropped by the lexer, so values must not contain one either
   (base64 text never does) *)
Definition val_ok (v : bytes) : bool := forallb kv_char_ok v.
