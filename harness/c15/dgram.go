package main

// C15, round 7: transfers over a caller-supplied DATAGRAM connection.
//
// Transfer.In uses the connection the caller put into Transfer.Conn.  When that
// is a packet connection (what dns.Dial("udp", ...) returns: IXFR over UDP, RFC
// 1995 section 2 - "a client should first make an IXFR query using UDP") every
// envelope is one datagram without length prefix, and the datagram is as long as
// the sender made it: up to 65535 octets of DNS message, whatever Conn.UDPSize
// is ("minimum receive buffer for UDP messages").  Until this round the scripted
// connection of the harness was a stream connection only: nothing was ever read
// through the packet branch of Conn.Read / Conn.Write, and the size of the buffer
// an envelope is read into could not matter.
//
// The scripted connection gets a datagram mode (scriptConn.dgram, main.go): one
// Read takes one datagram, what does not fit into the buffer of that Read is
// lost - as with a real UDP socket.  dgramConn adds the net.PacketConn methods,
// which is how the library tells the two kinds of transport apart.
//
// Oracle, from the property text ("for every zone and every way the sender
// splits it into envelopes, an incoming AXFR or IXFR delivers exactly the
// transmitted records in order and ends ... exactly at the closing SOA"; faults
// "wrong ID, error RCODE, non-SOA first", the stream ending early, TSIG faults):
// the same expectations as on a stream connection, for datagrams of every size
// up to 65535 octets, UDPSize unset and set to values below, at and above the
// size of the datagram.

import (
	"fmt"
	"net"

	"github.com/miekg/dns"
	. "verif/harness/common"
)

// dgramConn: the scripted connection as a connected datagram socket
type dgramConn struct{ *scriptConn }

func (d dgramConn) ReadFrom(p []byte) (int, net.Addr, error) {
	n, err := d.scriptConn.Read(p)
	return n, d.RemoteAddr(), err
}
func (d dgramConn) WriteTo(p []byte, _ net.Addr) (int, error) { return d.scriptConn.Write(p) }
func (d dgramConn) LocalAddr() net.Addr                       { return &net.UDPAddr{IP: net.IPv4(127, 0, 0, 1), Port: 1} }
func (d dgramConn) RemoteAddr() net.Addr                      { return &net.UDPAddr{IP: net.IPv4(127, 0, 0, 1), Port: 2} }

var _ net.PacketConn = dgramConn{}
var _ net.Conn = dgramConn{}

const (
	kDgram     = "C15/exact/datagram-conn"
	kDgramLen  = "C15/exact/datagram-length"
	kDgramQ    = "C15/datagram-conn/query"
	kDgramErr  = "C15/error-not-reported/datagram-conn"
	kDgramTsig = "C15/tsig-not-enforced/datagram-conn"
)

// checkDatagramQuery: on a datagram connection the query is one datagram that
// holds the query message and nothing else (no length prefix)
func checkDatagramQuery(c xcase, o obs, in map[string]any) {
	if o.inErr != "" {
		return
	}
	if o.discarded > 0 {
		in["octets_of_answer_datagrams_that_did_not_fit_into_the_read_buffer"] = o.discarded
	}
	if o.writes != 1 || len(o.query) < 2 {
		Viol(kDgramQ, fmt.Sprintf("Transfer.In made %d writes on the datagram connection: the query is exactly one datagram", o.writes), in)
		return
	}
	m := new(dns.Msg)
	if err := m.Unpack(o.query[2:]); err != nil || m.Id != c.Qid || len(m.Question) != 1 || m.Question[0] != question(c.Kind) || m.Response {
		Viol(kDgramQ, "the datagram written by Transfer.In is not the query message (a datagram carries the message without length prefix)", in)
	}
	st["datagram_queries_checked"]++
}

func sizeClass(L int) string {
	for _, b := range []int{511, 512, 1232, 4096, 16384, 65507} {
		if L <= b {
			return "up_to_" + Itoa(b)
		}
	}
	return "above_65507"
}

func udpSizeFor(i, L int) uint16 {
	us := []int{0, 512, 1232, 4096, 65535, L - 1, L, L + 1, 1, 511, 513, 0}
	u := us[i%len(us)]
	if u < 0 {
		u = 0
	}
	if u > 65535 {
		u = 65535
	}
	return uint16(u)
}

func dgramFamilies(r0 *Rng, thorough bool) {
	// its own stream of random numbers: the cases of the other families stay what
	// they were for every seed
	r := &Rng{S: r0.S ^ 0xd9a3c15}
	idx := 0
	dg := func(c xcase, L int) xcase {
		idx++
		c.Dgram, c.Chunk = true, 0
		c.UDPSize = udpSizeFor(idx, L)
		return c
	}
	why := func(s string) string {
		return s + " (Transfer.Conn is a datagram connection, every envelope one datagram: IXFR over UDP, RFC 1995 section 2)"
	}
	type fstream struct {
		kind   string
		stream []rrd
	}

	// ---- U1. every composition of small streams, TSIG off / on
	for _, tsig := range []bool{false, true} {
		var ss []fstream
		for body := 0; body <= 3; body++ {
			ss = append(ss, fstream{"axfr", axfrStream(5, body)}, fstream{"ixfr", axfrStream(5, body)})
		}
		for dels := 0; dels <= 1; dels++ {
			for adds := 0; adds <= 1; adds++ {
				ss = append(ss, fstream{"ixfr", ixfrStream(5, []diffd{{3, 5, dels, adds}})})
			}
		}
		ss = append(ss, fstream{"ixfr", ixfrStream(5, []diffd{{3, 4, 0, 0}, {4, 5, 0, 0}})})
		if thorough {
			ss = append(ss, fstream{"axfr", axfrStream(5, 5)}, fstream{"ixfr", ixfrStream(5, []diffd{{3, 4, 1, 0}, {4, 5, 0, 1}})})
		}
		for _, fs := range ss {
			for _, envs := range compositions(fs.stream) {
				c := dg(base(fs.kind, tsig, "dgram-exact", r), 300)
				c.Reads = goodReads(c, envs, tsig)
				if idx%2 == 0 {
					for i := range c.Reads {
						if c.Reads[i].Sig != nil {
							c.Reads[i].Sig.Ref = true
						}
					}
				}
				// a datagram after the closing SOA that must not be read
				c.Reads = append(c.Reads, readSpec{Id: c.Qid, RRs: []rrd{A(99)}})
				runOne(c, &expect{deliver: len(envs), then: "done", key: kDgram, why: why("the transfer must deliver exactly the transmitted envelopes and stop at the closing SOA")}, true)
			}
		}
		for _, ser := range []uint32{1, 3} {
			c := dg(base("ixfr", tsig, "dgram-uptodate", r), 200)
			c.Reads = goodReads(c, [][]rrd{{S(ser)}}, tsig)
			c.Reads = append(c.Reads, readSpec{Id: c.Qid, RRs: []rrd{A(99)}})
			runOne(c, &expect{deliver: 1, then: "done", key: kDgram, why: why("single-SOA up-to-date IXFR answer must end the transfer without error")}, true)
		}
		// RFC 1995: "the answer does not fit, use TCP" is a single SOA of the newer
		// version; Transfer.In on this connection then gets nothing more
		c := dg(base("ixfr", tsig, "dgram-single-newer", r), 200)
		c.Reads = goodReads(c, [][]rrd{{S(5)}}, tsig)
		runOne(c, &expect{deliver: 1, then: "error", key: kDgramErr, why: why("nothing follows the first SOA of a newer version")}, true)
	}

	// ---- U2. faults at every envelope of every composition
	fstreams := []fstream{{"axfr", axfrStream(5, 2)}, {"ixfr", axfrStream(5, 2)}, {"ixfr", ixfrStream(5, []diffd{{3, 5, 1, 0}})}}
	for _, fs := range fstreams {
		for _, envs := range compositions(fs.stream) {
			for k := 0; k < len(envs); k++ {
				for _, tsig := range []bool{false, true} {
					c := dg(base(fs.kind, tsig, "dgram-fault-id", r), 300)
					c.Reads = goodReads(c, envs, tsig)
					c.Reads[k].Id = c.Qid ^ uint16(1<<uint(idx%16))
					runOne(c, &expect{deliver: k, then: "error", key: kDgramErr, why: why("an envelope with a different ID must end the transfer with an error")}, idx%2 == 0)
					c = dg(base(fs.kind, tsig, "dgram-fault-rcode", r), 300)
					c.Reads = goodReads(c, envs, tsig)
					c.Reads[k].Rcode = 1 + idx%15
					if tsig && c.Reads[k].Rcode == dns.RcodeNotAuth {
						c.Reads[k].Rcode = dns.RcodeRefused
					}
					runOne(c, &expect{deliver: k, then: "error", key: kDgramErr, why: why("an envelope with a non-zero RCODE must end the transfer with an error")}, idx%2 == 0)
					c = dg(base(fs.kind, tsig, "dgram-fault-ends-early", r), 300)
					c.Reads = goodReads(c, envs, tsig)[:k]
					runOne(c, &expect{deliver: k, then: "error", key: kDgramErr, why: why("no further datagram arrives before the closing SOA: the transfer must end with an error")}, !tsig)
				}
			}
			for _, tsig := range []bool{false, true} {
				c := dg(base(fs.kind, tsig, "dgram-fault-nosoa", r), 300)
				c.Reads = goodReads(c, append([][]rrd{append([]rrd{A(50)}, envs[0]...)}, envs[1:]...), tsig)
				runOne(c, &expect{deliver: 0, then: "error", key: kDgramErr, why: why("a first record that is not an SOA must end the transfer with an error")}, true)
				c = dg(base(fs.kind, tsig, "dgram-fault-empty-first", r), 300)
				c.Reads = goodReads(c, append([][]rrd{{}}, envs...), tsig)
				runOne(c, &expect{deliver: 0, then: "error", key: kDgramErr, why: why("an empty first answer must end the transfer with an error")}, true)
			}
		}
	}
	// the first envelope is a lone record that is no SOA (a first envelope of one
	// record is the one inAxfr treats apart), followed by a stream that would be
	// complete: on both kinds of connection, every non-SOA form of record
	for _, fs := range fstreams {
		for _, envs := range compositions(fs.stream) {
			for vi, first := range []rrd{A(50), P(51)} {
				for _, dgram := range []bool{false, true} {
					for _, tsig := range []bool{false, true} {
						c := base(fs.kind, tsig, "fault-first-envelope-is-one-non-soa-record", r)
						if dgram {
							c = dg(c, 300)
						}
						c.Reads = goodReads(c, append([][]rrd{{first}}, envs...), tsig)
						runOne(c, &expect{deliver: 0, then: "error", key: kErr + "/lone-first-record-not-soa",
							why: "the first envelope holds one record and it is not an SOA: the transfer must end with an error, nothing may be delivered as data"}, vi == 0)
					}
				}
			}
		}
	}
	for _, fs := range []fstream{{"axfr", axfrStream(5, 2)}, {"ixfr", ixfrStream(5, []diffd{{3, 5, 1, 1}})}} {
		for ci, envs := range compositions(fs.stream) {
			if !thorough && len(envs) > 4 && ci%2 == 1 {
				continue
			}
			for k := 0; k < len(envs); k++ {
				mk := func(fam string, deliver int, f func(rs []readSpec) []readSpec) {
					c := dg(base(fs.kind, true, fam, r), 300)
					c.Reads = f(goodReads(c, envs, true))
					runOne(c, &expect{deliver: deliver, then: "error", key: kDgramTsig, why: why("TSIG configured: envelope " + Itoa(deliver) + " does not verify against the running MAC chain (" + fam + "), the transfer must end there with an error")}, true)
				}
				mk("dgram-tsig-tamper", k, func(rs []readSpec) []readSpec { rs[k].Sig.Tamper = true; return rs })
				mk("dgram-tsig-unsigned", k, func(rs []readSpec) []readSpec { rs[k].Sig = nil; return rs })
				mk("dgram-tsig-wrong-secret", k, func(rs []readSpec) []readSpec { rs[k].Sig.Key = 1; rs[k].Sig.Tag = 900; return rs })
				mk("dgram-tsig-mac-cut", k, func(rs []readSpec) []readSpec {
					rs[k].Muts = []mutSpec{{mMacTrunc, idx % 32}}
					return rs
				})
				if k+1 < len(envs) {
					mk("dgram-tsig-drop", k, func(rs []readSpec) []readSpec { return append(rs[:k:k], rs[k+1:]...) })
					mk("dgram-tsig-swap", k, func(rs []readSpec) []readSpec { rs[k], rs[k+1] = rs[k+1], rs[k]; return rs })
					mk("dgram-tsig-dup", k+1, func(rs []readSpec) []readSpec { return append(append(rs[:k+1:k+1], rs[k]), rs[k+1:]...) })
				}
			}
		}
	}

	// ---- U3. the answer datagram is exactly L octets long
	g := newRichGen(r)
	types := zoneTypes()
	var sizes []int
	for b := 512; b <= 32768; b *= 2 {
		sizes = append(sizes, b-1, b, b+1)
	}
	// around the usual EDNS buffer sizes and the largest UDP payloads, up to the largest DNS message
	sizes = append(sizes, 1231, 1232, 1233, 1452, 1472, 1473, 65506, 65507, 65508, 65533, 65534, 65535)
	sidx, skipNo := 0, 0
	sized := func(L int, kind string, tsig, many bool, pos string, emitIt bool) {
		sidx++
		c, envs, at, ok := sizedCase(r, g, types, sidx, L, kind, tsig, many, pos, "dgram-size-"+pos)
		if !ok {
			st["dgram_size_out_of_reach"]++
			return
		}
		c = dg(c, L)
		c.Reads = append(c.Reads, readSpec{Id: c.Qid, RRs: []rrd{A(99)}})
		runOne(c, &expect{deliver: len(envs), then: "done", key: kDgramLen,
			why: why(fmt.Sprintf("an answer datagram of exactly %d octets (position: %s; Conn.UDPSize = %d) is a DNS message the sender may send: the transfer must deliver exactly the transmitted envelopes and stop at the closing SOA", L, pos, c.UDPSize))},
			emitIt)
		st["dgram_size_datagrams_"+sizeClass(L)] += len(at)
		switch u := int(c.UDPSize); {
		case u == 0:
			st["dgram_size_udpsize_unset"]++
		case u < L:
			st["dgram_size_udpsize_below_datagram_length"]++
		case u == L:
			st["dgram_size_udpsize_is_datagram_length"]++
		default:
			st["dgram_size_udpsize_above_datagram_length"]++
		}
	}
	for _, L := range sizes {
		for _, kind := range []string{"ixfr", "ixfr", "axfr"} { // sidx alternates difference sequence / AXFR-style for ixfr
			for _, tsig := range []bool{false, true} {
				for _, many := range []bool{false, true} {
					for _, pos := range []string{"only", "first", "middle", "last", "all"} {
						if pos != "only" {
							skipNo++
							if !thorough && (skipNo+skipNo/4)%2 == 0 {
								continue
							}
						}
						sized(L, kind, tsig, many, pos, !many && (sidx%4 == 0))
					}
				}
			}
		}
	}
	// every size: one answer datagram of L octets for every L from the smallest the
	// padding reaches to beyond the usual MTU, then sizes all over the range
	lo, hi := 160, 1600
	for L := lo; L <= hi; L++ {
		kind := []string{"ixfr", "ixfr", "axfr"}[L%3]
		sized(L, kind, L%7 == 0, false, "only", L%16 == 0)
	}
	nr := 120
	if thorough {
		nr = 3000
	}
	for i := 0; i < nr; i++ {
		L := hi + 1 + r.Intn(65535-hi)
		kind := []string{"ixfr", "ixfr", "axfr"}[i%3]
		pos := []string{"only", "only", "first", "middle", "last", "all"}[r.Intn(6)]
		sized(L, kind, i%5 == 0, i%2 == 0, pos, false)
	}

	// ---- U4. zones of records of every type in datagrams
	nz := 40
	if thorough {
		nz = 600
	}
	for z := 0; z < nz; z++ {
		var body []rrd
		for i := 1 + r.Intn(20); i > 0; i-- {
			if r.Intn(4) == 0 {
				body = append(body, g.pad())
			} else {
				body = append(body, g.any(types))
			}
		}
		kind := "ixfr"
		stream := append(append([]rrd{S(5)}, body...), S(5))
		switch z % 3 {
		case 0:
			h := len(body) / 2
			stream = append(append(append(append([]rrd{S(5), S(3)}, body[:h]...), S(5)), body[h:]...), S(5))
		case 1:
			kind = "axfr"
		}
		envs := randomComposition(r, stream)
		if z%4 == 0 {
			envs = [][]rrd{stream}
		}
		c := dg(base(kind, z%3 == 0, "dgram-rich", r), 700)
		c.Compress = z%2 == 0
		c.Reads = cloneReads(goodReads(c, envs, c.Tsig))
		c.Reads = append(c.Reads, readSpec{Id: c.Qid, RRs: []rrd{A(99)}})
		runOne(c, &expect{deliver: len(envs), then: "done", key: kDgram, why: why("every record of every envelope handed out by Transfer.In must be the transmitted record")}, z%2 == 0)
	}
}
