// C02: decoding hostile wire input never panics, hangs or over-allocates.
package main

import (
	"bytes"
	"os"
	"os/exec"
	"runtime"
	"strings"
	"sync"
	"time"

	"github.com/miekg/dns"
	. "verif/harness/common"
)

func main() { Main(run) }

// c02Priv is the RDATA of a private-use type registered with dns.PrivateHandle.
type c02Priv struct{ b []byte }

func (d *c02Priv) String() string         { return Hx(d.b) }
func (d *c02Priv) Parse(s []string) error { return nil }
func (d *c02Priv) Pack(buf []byte) (int, error) {
	if len(buf) < len(d.b) {
		return 0, dns.ErrBuf
	}
	return copy(buf, d.b), nil
}
func (d *c02Priv) Unpack(buf []byte) (int, error) {
	d.b = append([]byte(nil), buf...)
	return len(buf), nil
}
func (d *c02Priv) Copy(dst dns.PrivateRdata) error {
	dst.(*c02Priv).b = append([]byte(nil), d.b...)
	return nil
}
func (d *c02Priv) Len() int { return len(d.b) }

var st = map[string]int{}
var classes = map[string]int{}

const allocPerOctet = 1200 // a 2-octet pointer can expand to a ~1 KiB presentation name
const allocBase = 1 << 17

func namesOf(m *dns.Msg) []string {
	var ns []string
	for _, q := range m.Question {
		ns = append(ns, q.Name)
	}
	for _, sec := range [][]dns.RR{m.Answer, m.Ns, m.Extra} {
		for _, rr := range sec {
			ns = append(ns, rr.Header().Name)
			ForEachNameField(rr, func(get func() string, set func(string)) { ns = append(ns, get()) })
		}
	}
	return ns
}

// decode one hostile input with every oracle of the property
func hostile(w []byte, emit bool, what string) {
	w = append(make([]byte, 0, len(w)), w...) // capacity = length: a read past the end cannot hide in spare capacity
	st["inputs_checked"]++
	in := map[string]string{"wire": Hx(w), "kind": what}
	var m dns.Msg
	var ms1, ms2 runtime.MemStats
	runtime.ReadMemStats(&ms1)
	t0 := time.Now()
	res := Protect(func() string {
		if err := m.Unpack(w); err != nil {
			return "err"
		}
		return "ok"
	})
	el := time.Since(t0)
	runtime.ReadMemStats(&ms2)
	classes[what+":"+res]++
	if res == "panic" {
		Viol("C02/unpack-panic/"+what, "Msg.Unpack panicked", in)
		return
	}
	if el > 2*time.Second {
		Viol("C02/unpack-slow/"+what, "Msg.Unpack took "+el.String(), in)
	}
	if alloc := ms2.TotalAlloc - ms1.TotalAlloc; alloc > uint64(allocPerOctet*len(w)+allocBase) {
		Viol("C02/unpack-alloc/"+what, "Msg.Unpack allocated "+Itoa(int(alloc))+" octets for "+Itoa(len(w))+" input octets", in)
	}
	// every record decoded comes from octets of the input: a record occupies at least 11 of them
	// (one final empty record at the very end of the input is what unpackHeader tolerates)
	if n := len(m.Question) + len(m.Answer) + len(m.Ns) + len(m.Extra); res == "ok" && n > len(w)/5+4 {
		Viol("C02/records-outside-input/"+what, Itoa(n)+" records decoded from "+Itoa(len(w))+" octets", in)
		return
	}
	if emit && len(w) <= 1200 {
		o := res
		if res == "ok" {
			t, _ := MsgText(&m)
			o = "ok:" + t
		}
		Emit("unpack_msg", []string{Hx(w)}, o)
		st["model_unpack_msg"]++
	}
	// the input is msg[:len]: the same octets at the front of a larger buffer (a pooled receive buffer whose
	// spare capacity holds the tail of an earlier, longer packet) must be decoded to exactly the same outcome
	{
		big := make([]byte, len(w), len(w)+96)
		copy(big, w)
		spare := big[len(w):cap(big)]
		for i := range spare {
			const tail = "\x06SECRET\x03abc\x00\x00\x01\x00\x01"
			spare[i] = tail[i%len(tail)]
		}
		var m2 dns.Msg
		res2 := Protect(func() string {
			if err := m2.Unpack(big); err != nil {
				return "err"
			}
			return "ok"
		})
		same := res2 == res
		if same && res == "ok" {
			t1, _ := MsgText(&m)
			t2, _ := MsgText(&m2)
			same = t1 == t2
		}
		if !same {
			Viol("C02/outcome-depends-on-spare-capacity/"+what, "the same input octets decode differently when the slice has spare capacity: exact "+res+", with spare capacity "+res2, in)
		}
	}
	if res != "ok" {
		return
	}
	// accepted: every name respects the 63/255 limits
	for _, n := range namesOf(&m) {
		if n == "" {
			continue
		}
		if _, ok := dns.IsDomainName(n); !ok {
			in["name"] = n
			Viol("C02/accepted-invalid-name/"+what, "an accepted message holds a name that IsDomainName rejects", in)
		}
		buf := make([]byte, 300)
		if off, err := dns.PackDomainName(n, buf, 0, nil, false); err != nil || off > 255 {
			in["name"] = n
			Viol("C02/accepted-long-name/"+what, "an accepted message holds a name beyond the 255-octet limit", in)
		}
	}
	// whatever it accepts can be printed, measured, copied and re-packed without panicking
	for _, op := range []struct {
		name string
		f    func()
	}{
		{"String", func() { _ = m.String() }},
		{"Len", func() { _ = m.Len() }},
		{"Copy", func() { _ = m.Copy() }},
		{"Pack", func() { _, _ = m.Pack() }},
		{"PackCompressed", func() { c := m.Copy(); c.Compress = true; _, _ = c.Pack(); _ = c.Len() }},
		{"IsDuplicate", func() {
			for _, r := range m.Answer {
				dns.IsDuplicate(r, r)
			}
		}},
	} {
		if Protect(func() string { op.f(); return "ok" }) == "panic" {
			Viol("C02/accepted-then-panic/"+op.name+"/"+what, op.name+" panicked on an accepted message", in)
		}
	}
}

func hostileRR(w []byte, off int, emit bool) {
	w = append(make([]byte, 0, len(w)), w...)
	st["rr_inputs_checked"]++
	var rrT string
	res := Protect(func() string {
		rr, o, err := dns.UnpackRR(w, off)
		if err != nil {
			return "err"
		}
		t, _ := RRText(rr)
		rrT = t
		_ = rr.String()
		_ = dns.Len(rr)
		_ = dns.Copy(rr)
		return "ok:" + t + "@" + Itoa(o)
	})
	if res == "panic" {
		Viol("C02/unpackrr-panic", "UnpackRR (or String/Len/Copy of its result) panicked", map[string]string{"wire": Hx(w), "off": Itoa(off), "rr": rrT})
	}
	if emit && len(w) <= 600 && off >= 0 {
		Emit("unpack_rr", []string{Hx(w), Itoa(off)}, res)
	}
}

func hostileName(w []byte, off int, emit bool) {
	w = append(make([]byte, 0, len(w)), w...)
	st["name_inputs_checked"]++
	res := Protect(func() string {
		s, o, err := dns.UnpackDomainName(w, off)
		if err != nil {
			return "err:" + ErrClass(err)
		}
		if _, ok := dns.IsDomainName(s); !ok {
			return "invalid:" + s
		}
		return "ok:" + Hs(s) + "," + Itoa(o)
	})
	if res == "panic" || strings.HasPrefix(res, "invalid:") {
		Viol("C02/unpackname", "UnpackDomainName panicked or returned an invalid name: "+res, map[string]string{"wire": Hx(w), "off": Itoa(off)})
	}
	_ = emit
}

func corpus(r *Rng) [][]byte {
	var out [][]byte
	pool := &NamePool{R: r}
	types := AllTypes()
	for _, t := range types {
		for _, compress := range []bool{false, true} {
			m := new(dns.Msg)
			m.Id = uint16(r.Next())
			m.Response = true
			m.Compress = compress
			m.Question = []dns.Question{{Name: pool.Name(), Qtype: t, Qclass: 1}}
			if t != dns.TypeOPT {
				for k := 0; k < 2; k++ {
					rr, info := GenRR(r, pool, t, false)
					if info.WellFormed {
						rr.Header().Name = m.Question[0].Name
						m.Answer = append(m.Answer, rr)
					}
				}
			}
			if t == dns.TypeOPT || r.Intn(3) == 0 {
				o, _ := GenRR(r, pool, dns.TypeOPT, false)
				m.Extra = append(m.Extra, o)
			}
			if b, err := m.Pack(); err == nil {
				out = append(out, b)
			}
		}
	}
	return out
}

// concurrentChild is what the child process runs: many goroutines decode and print, measure, copy and re-pack
// messages of their own at the same time, with type / class / rcode / opcode / option codes nobody printed
// before (the printers fall back to TYPEnnn-style spellings; any shared lazily filled table shows here).
// A Go "fatal error: concurrent map writes" cannot be recovered, hence the separate process.
func concurrentChild() {
	if runtime.GOMAXPROCS(0) < 4 {
		runtime.GOMAXPROCS(4)
	}
	var wg sync.WaitGroup
	start := make(chan struct{})
	for g := 0; g < 8; g++ {
		wg.Add(1)
		go func(g int) {
			defer wg.Done()
			<-start
			for i := 0; i < 4000; i++ {
				code := uint16(300 + (i*8+g)%60000)
				w := []byte{byte(i), byte(g), byte(i % 16 << 3), byte(i % 16), 0, 1, 0, 1, 0, 0, 0, 1,
					1, 'a', 0, byte(code >> 8), byte(code), byte(code >> 8), byte(code), // question: TYPEcode CLASScode
					0xc0, 12, byte(code >> 8), byte(code), byte(code >> 8), byte(code), 0, 0, 0, 5, 0, 2, 1, 2, // answer of that type
					0, 0, 41, 4, 208, byte(i), 0, 0, 0, 0, 6, byte(code >> 8), byte(code), 0, 2, 7, 7} // OPT with option code
				var m dns.Msg
				if m.Unpack(w) != nil {
					continue
				}
				_ = m.String()
				_ = m.Len()
				c := m.Copy()
				_, _ = c.Pack()
				_ = dns.Type(code).String() + dns.Class(code).String()
			}
		}(g)
	}
	close(start)
	wg.Wait()
}

func concurrentUse() {
	cmd := exec.Command(os.Args[0], os.Args[1:]...)
	cmd.Env = append(os.Environ(), "C02_CHILD=concurrent")
	var errb bytes.Buffer
	cmd.Stderr = &errb
	done := make(chan error, 1)
	if err := cmd.Start(); err != nil {
		st["concurrent_child_not_started"]++
		return
	}
	go func() { done <- cmd.Wait() }()
	select {
	case err := <-done:
		st["concurrent_child_runs"]++
		if err != nil {
			msg := errb.String()
			if len(msg) > 600 {
				msg = msg[:600]
			}
			Viol("C02/concurrent-use-crashes", "decoding and printing / measuring / copying / re-packing accepted messages in 8 goroutines at once ended the process: "+err.Error(), map[string]string{"stderr": msg})
		}
	case <-time.After(120 * time.Second):
		_ = cmd.Process.Kill()
		Viol("C02/concurrent-use-hangs", "decoding and printing accepted messages in 8 goroutines at once did not finish within 120 s", nil)
	}
}

func run(r *Rng, tier string, n int) {
	if os.Getenv("C02_CHILD") == "concurrent" {
		concurrentChild()
		os.Exit(0)
	}
	thorough := tier == "thorough"
	cor := corpus(r)
	st["corpus_messages"] = len(cor)
	emitBudget := 700
	emit := func() bool {
		if emitBudget > 0 && r.Intn(3) == 0 {
			emitBudget--
			return true
		}
		return false
	}
	for ci, w := range cor {
		hostile(w, ci%4 == 0 && emit(), "valid")
		// every truncation point
		step := 1
		if !thorough && len(w) > 120 {
			step = 3
		}
		for l := 0; l < len(w); l += step {
			hostile(w[:l], (l%7 == ci%7) && emit(), "truncated")
		}
		// lying counts
		for pos := 4; pos < 12; pos += 2 {
			c := append([]byte{}, w...)
			c[pos], c[pos+1] = 0xff, 0xff
			hostile(c, emit(), "lying-count")
		}
		// byte and bit mutations; every octet +-1 in thorough
		muts := 40
		if thorough {
			muts = 400
		}
		for k := 0; k < muts; k++ {
			c := append([]byte{}, w...)
			p := 12 + r.Intn(len(c)-12+1)
			if p >= len(c) {
				p = len(c) - 1
			}
			switch r.Intn(5) {
			case 0:
				c[p] ^= byte(1 << r.Intn(8))
			case 1:
				c[p]++
			case 2:
				c[p]--
			case 3:
				c[p] = 0xC0 // make it a pointer
				if p+1 < len(c) {
					c[p+1] = byte(p) // to itself or nearby
				}
			default:
				c[p] = byte(r.Next())
			}
			hostile(c, k < 6 && emit(), "mutated")
		}
		if ci%5 == 0 {
			for off := 0; off <= len(w); off += 1 + r.Intn(9) {
				hostileRR(w, off, off%3 == 0 && emit())
				hostileName(w, off, false)
			}
		}
	}
	// adversarial pointer graphs
	hdr := func(qd, an int) []byte {
		return []byte{0, 1, 0x80, 0, byte(qd >> 8), byte(qd), byte(an >> 8), byte(an), 0, 0, 0, 0}
	}
	graphs := [][]byte{
		append(hdr(1, 0), 0xC0, 12, 0, 1, 0, 1),                  // self pointer
		append(hdr(1, 0), 0xC0, 14, 0xC0, 12, 0, 1, 0, 1),        // mutual
		append(hdr(1, 0), 0xC0, 20, 0, 1, 0, 1, 0, 0, 1, 'a', 0), // forward
		append(hdr(1, 0), 0xC0, 0, 0, 1, 0, 1),                   // into the header
		append(hdr(1, 0), 0xFF, 0xFF, 0, 1, 0, 1),                // beyond the message
		append(hdr(65535, 65535), 1, 'a', 0, 0, 1, 0, 1),         // lying counts
		append(hdr(0, 65535), 0, 0, 1, 0, 1, 0, 0, 0, 0, 0, 0),   // many root A records without rdata
	}
	for _, hops := range []int{1, 100, 125, 126, 127, 128, 129, 200, 1000} {
		// record 1: owner root, unknown type, RDATA = name "x" followed by a chain of pointers, each
		// pointing BACKWARDS at the previous one; record 2: owner = pointer at the end of the chain
		rd := []byte{1, 'x', 0}
		base := 12 + 11 // header + (root owner, type, class, ttl, rdlength)
		for h := 0; h < hops-1; h++ {
			t := base
			if h > 0 {
				t = base + 3 + 2*(h-1)
			}
			rd = append(rd, 0xC0|byte(t>>8), byte(t))
		}
		last := base
		if hops > 1 {
			last = base + 3 + 2*(hops-2)
		}
		g := hdr(0, 2)
		g = append(g, 0, 0xff, 0x00, 0, 1, 0, 0, 0, 0, byte(len(rd)>>8), byte(len(rd)))
		g = append(g, rd...)
		g = append(g, 0xC0|byte(last>>8), byte(last), 0, 1, 0, 1, 0, 0, 0, 0, 0, 0)
		graphs = append(graphs, g)
		// the same chain read directly as a name
		hostileName(g, len(g)-12, false)
		res := Protect(func() string {
			_, _, err := dns.UnpackDomainName(g, len(g)-12)
			if err != nil {
				return "err"
			}
			return "ok"
		})
		if hops > 127 && res == "ok" {
			Viol("C02/pointer-hops-unbounded", "a chain of "+Itoa(hops)+" compression pointers was followed to the end", map[string]string{"wire": Hx(g)})
		}
	}
	// every EDNS0 option code and SVCB key with every value length around its bounds checks
	for code := 0; code <= 21; code++ {
		for _, c := range []int{code, 65001} {
			for l := 0; l <= 20; l++ {
				data := r.Bytes(l)
				if l > 0 && r.Bool() {
					data[0] = 0
				}
				rd := append([]byte{byte(c >> 8), byte(c), 0, byte(l)}, data...)
				g := hdr(0, 0)
				g[11] = 1 // one additional record
				g = append(g, 0, 0, 41, 0x10, 0, 0, 0, 0, 0, byte(len(rd)>>8), byte(len(rd)))
				g = append(g, rd...)
				hostile(g, l%3 == 0 || l == 5 || l == 7, "edns-option-length")
			}
			if code > 0 {
				break
			}
		}
	}
	// option / parameter lengths that LIE: the claimed length differs from the octets present by -3..+8,
	// the record being the last thing in the message and also followed by another record
	for _, d := range []int{-3, -2, -1, 1, 2, 3, 4, 5, 6, 7, 8} {
		for _, have := range []int{0, 1, 3, 4, 8} {
			claimed := have + d
			if claimed < 0 {
				continue
			}
			for _, tail := range []bool{false, true} {
				data := r.Bytes(have)
				// SVCB: priority 1, target root, key 65400 (local) / 1 (alpn) / 4 (ipv4hint)
				for _, key := range []int{65400, 1, 4, 6} {
					rd := []byte{0, 1, 0, byte(key >> 8), byte(key), byte(claimed >> 8), byte(claimed)}
					rd = append(rd, data...)
					g := hdr(0, 1)
					if tail {
						g[7] = 2
					}
					g = append(g, 1, 's', 0, 0, 64, 0, 1, 0, 0, 0, 0, byte(len(rd)>>8), byte(len(rd)))
					g = append(g, rd...)
					if tail {
						g = append(g, 0, 0, 1, 0, 1, 0, 0, 0, 0, 0, 4, 1, 2, 3, 4)
					}
					hostile(g, true, "svcb-param-lying-length")
					hostileRR(g, 12, false)
				}
				for _, code := range []int{65001, 8, 10, 12, 15} {
					rd := []byte{byte(code >> 8), byte(code), byte(claimed >> 8), byte(claimed)}
					rd = append(rd, data...)
					g := hdr(0, 0)
					g[11] = 1
					if tail {
						g[11] = 2
					}
					g = append(g, 0, 0, 41, 0x10, 0, 0, 0, 0, 0, byte(len(rd)>>8), byte(len(rd)))
					g = append(g, rd...)
					if tail {
						g = append(g, 0, 0, 1, 0, 1, 0, 0, 0, 0, 0, 4, 1, 2, 3, 4)
					}
					hostile(g, true, "edns-option-lying-length")
					hostileRR(g, 12, false)
				}
			}
		}
	}
	// SVCB parameters in SECOND and third position: every key (also the reserved 65535, unassigned and
	// private ones) after every other key, ascending, equal and descending, with empty and short values
	{
		keys := []int{0, 1, 2, 3, 4, 5, 6, 7, 8, 9, 100, 65279, 65280, 65534, 65535}
		val := func(k int) []byte {
			switch k {
			case 0:
				return []byte{0, 1}
			case 1:
				return []byte{2, 'h', '2'}
			case 2, 8:
				return nil
			case 3:
				return []byte{1, 187}
			case 4:
				return []byte{192, 0, 2, 1}
			case 6:
				return make([]byte, 16)
			}
			return []byte{1}
		}
		for _, k1 := range keys {
			for _, k2 := range keys {
				for _, empty2 := range []bool{false, true} {
					rd := []byte{0, 1, 0}
					v1, v2 := val(k1), val(k2)
					if empty2 {
						v2 = nil
					}
					rd = append(rd, byte(k1>>8), byte(k1), 0, byte(len(v1)))
					rd = append(rd, v1...)
					rd = append(rd, byte(k2>>8), byte(k2), 0, byte(len(v2)))
					rd = append(rd, v2...)
					g := hdr(0, 1)
					g = append(g, 1, 's', 0, 0, 65, 0, 1, 0, 0, 0, 0, byte(len(rd)>>8), byte(len(rd)))
					g = append(g, rd...)
					hostile(g, k2 >= 65279 || k1 == k2, "svcb-key-sequence")
				}
			}
		}
	}
	// EDNS0 Client Subnet: family x source prefix length x address octets present (fewer, exactly, more than
	// the prefix needs), the option being the last thing in the message and also followed by another record
	for fam, bits := range map[int]int{1: 32, 2: 128, 0: 0, 3: 8} {
		for plen := 0; plen <= bits+8; plen += 1 + plen/40 {
			for alen := 0; alen <= bits/8+1; alen++ {
				if alen > 5 && alen != (plen+7)/8 && alen != (plen+7)/8-1 && alen != (plen+7)/8+1 && alen != bits/8 {
					continue
				}
				rd := []byte{0, 8, 0, byte(4 + alen), byte(fam >> 8), byte(fam), byte(plen), 0}
				rd = append(rd, r.Bytes(alen)...)
				for _, tail := range []bool{false, true} {
					g := hdr(0, 0)
					g[11] = 1
					if tail {
						g[11] = 2
					}
					g = append(g, 0, 0, 41, 0x10, 0, 0, 0, 0, 0, byte(len(rd)>>8), byte(len(rd)))
					g = append(g, rd...)
					if tail {
						g = append(g, 0, 0, 1, 0, 1, 0, 0, 0, 0, 0, 4, 0xEE, 0xEE, 0xEE, 0xEE)
					}
					hostile(g, alen == (plen+7)/8 || alen+1 == (plen+7)/8, "edns-subnet-shape")
				}
			}
		}
	}
	for _, key := range []int{0, 1, 2, 3, 4, 5, 6, 7, 8, 9, 65280, 65535} {
		for l := 0; l <= 34; l++ {
			data := r.Bytes(l)
			rd := []byte{0, 1, 0} // priority 1, target root
			rd = append(rd, byte(key>>8), byte(key), 0, byte(l))
			rd = append(rd, data...)
			g := hdr(0, 1)
			g = append(g, 1, 's', 0, 0, 64, 0, 1, 0, 0, 0, 0, byte(len(rd)>>8), byte(len(rd)))
			g = append(g, rd...)
			hostile(g, l%4 == 0 || l == 15 || l == 17, "svcb-param-length")
		}
	}
	// a long name made of many maximal labels reached through pointers (expansion factor)
	for _, g := range graphs {
		hostile(g, true, "pointer-graph")
		for off := 12; off < len(g); off++ {
			hostileName(g, off, false)
		}
	}
	// many records that are each a 2-octet pointer to one maximal name: output size vs input size
	{
		name := []byte{}
		for i := 0; i < 3; i++ {
			name = append(name, 63)
			for j := 0; j < 63; j++ {
				name = append(name, 0xff)
			}
		}
		name = append(name, 61)
		for j := 0; j < 61; j++ {
			name = append(name, 0xff)
		}
		name = append(name, 0)
		nrec := 2000
		if thorough {
			nrec = 5000
		}
		g := hdr(1, nrec)
		g = append(g, name...)
		g = append(g, 0, 1, 0, 1)
		for i := 0; i < nrec; i++ {
			g = append(g, 0xC0, 12, 0, 2, 0, 1, 0, 0, 0, 0, 0, 2, 0xC0, 12)
		}
		hostile(g, false, "expansion")
		// the densest expansion the decoders allow (Coq: message_decoder_expansion_witness): one HIP record
		// whose rendezvous servers are n 2-octet pointers to that name
		for _, n := range []int{10, 1000, 8000} {
			rd := []byte{0, 0, 0, 0}
			for i := 0; i < n; i++ {
				rd = append(rd, 0xC0, 12)
			}
			h := hdr(0, 1)
			h = append(h, name...)
			h = append(h, 0, 55, 0, 1, 0, 0, 0, 0, byte(len(rd)>>8), byte(len(rd)))
			h = append(h, rd...)
			hostile(h, false, "expansion-hip")
		}
	}
	// the record decoder that is GIVEN its header (UnpackRRWithHeader): every type, RDLENGTH 0..12 and
	// the true length, in a buffer that continues beyond the RDATA: no panic, and on success exactly
	// Rdlength octets are consumed
	for _, t := range AllTypes() {
		body := r.Bytes(40)
		for _, rdl := range []int{0, 1, 2, 3, 4, 5, 6, 7, 8, 9, 10, 11, 12, 16, 17, 18, 19, 20, 32, 40} {
			for _, off := range []int{0, 3} {
				hd := dns.RR_Header{Name: ".", Rrtype: t, Class: 1, Rdlength: uint16(rdl)}
				buf := append(make([]byte, 0, 40), body...)
				st["rrwithheader_checked"]++
				res := Protect(func() string {
					rr, o, err := dns.UnpackRRWithHeader(hd, buf, off)
					if err != nil {
						return "err"
					}
					if rr != nil {
						_ = rr.String()
					}
					if o != off+rdl && rdl != 0 {
						return "bad-offset"
					}
					return "ok"
				})
				if res == "panic" || res == "bad-offset" {
					Viol("C02/unpackrrwithheader-panic", "UnpackRRWithHeader: "+res+" for type "+dns.TypeToString[t]+" Rdlength "+Itoa(rdl)+" off "+Itoa(off), map[string]string{"wire": Hx(buf)})
				}
			}
		}
	}
	// a Msg value that is REUSED for successive Unpack calls: what the second call returns depends on its own
	// input only (records all lie inside THIS input): same result as with a fresh Msg
	{
		var inputs [][]byte
		for i, w := range cor {
			if i%7 == 0 && len(inputs) < 24 {
				inputs = append(inputs, w)
			}
		}
		inputs = append(inputs, hdr(0, 0), hdr(1, 0), hdr(0, 1), append(hdr(1, 0), 0, 0, 1, 0, 1), append(hdr(1, 0), 0), []byte{}, hdr(0, 0)[:11])
		if len(cor) > 0 {
			inputs = append(inputs, cor[0][:12], cor[0][:13])
		}
		for i, first := range inputs {
			for j, second := range inputs {
				if (i+j)%3 != 0 && len(second) > 13 {
					continue
				}
				var reused, fresh dns.Msg
				_ = Protect(func() string { _ = reused.Unpack(append([]byte{}, first...)); return "" })
				r1 := Protect(func() string {
					if err := reused.Unpack(append([]byte{}, second...)); err != nil {
						return "err"
					}
					t, _ := MsgText(&reused)
					return "ok:" + t
				})
				r2 := Protect(func() string {
					if err := fresh.Unpack(append([]byte{}, second...)); err != nil {
						return "err"
					}
					t, _ := MsgText(&fresh)
					return "ok:" + t
				})
				st["reused_msg_checked"]++
				if r1 != r2 {
					Viol("C02/reused-msg-keeps-earlier-records", "Unpack into a Msg that held another message gives a different result than Unpack into a fresh Msg", map[string]string{"first": Hx(first), "wire": Hx(second), "reused": r1, "fresh": r2})
				}
			}
		}
	}
	// random octets behind a plausible header
	nr := 600
	if thorough {
		nr = 60000
	}
	if n > 0 {
		nr = n
	}
	for i := 0; i < nr; i++ {
		l := r.Intn(90)
		b := append(hdr(r.Intn(3), r.Intn(4)), r.Bytes(l)...)
		if r.Intn(4) == 0 {
			b = r.Bytes(r.Intn(40))
		}
		hostile(b, i < 150 && emit(), "random")
		hostileRR(b, 12, i < 60)
	}
	// (9) a message of the maximal size filled with as many records of ONE type as fit (the RDATA of a valid
	// record of that type, repeated behind a root owner): work and allocation stay within the fixed multiple of
	// the input length whatever the record's position in the message; and the same for 300 octets
	{
		pool := &NamePool{R: r}
		for _, t := range AllTypes() {
			var rec []byte
			for k := 0; k < 20 && rec == nil; k++ {
				rr, info := GenRR(r, pool, t, false)
				if rr == nil || !info.WellFormed {
					continue
				}
				rr.Header().Name = "."
				buf := make([]byte, 4096)
				if off, err := dns.PackRR(rr, buf, 0, nil, false); err == nil && off <= 120 {
					rec = buf[:off]
				}
			}
			if rec == nil {
				continue
			}
			for _, total := range []int{300, 65535} {
				n := (total - 12) / len(rec)
				if n > 65535 {
					n = 65535
				}
				w := []byte{0, 1, 0x80, 0, 0, 0, byte(n >> 8), byte(n), 0, 0, 0, 0}
				for i := 0; i < n; i++ {
					w = append(w, rec...)
				}
				hostile(w, false, "maximal-"+dns.TypeToString[t])
				st["maximal_one_type_messages"]++
			}
		}
	}
	// (9b) APL RDATA (RFC 3123): every address family 0..3, prefix lengths around the family's width, the N bit,
	// every AFDLENGTH 0..40 with exactly that many, fewer and more octets behind it
	for _, fam := range []int{0, 1, 2, 3} {
		for _, prefix := range []int{0, 1, 8, 31, 32, 33, 64, 127, 128, 129, 255} {
			for afd := 0; afd <= 40; afd++ {
				for _, neg := range []int{0, 0x80} {
					for _, have := range []int{afd, afd - 1, afd + 3} {
						if have < 0 {
							continue
						}
						rd := []byte{0, byte(fam), byte(prefix), byte(afd | neg)}
						for i := 0; i < have; i++ {
							rd = append(rd, byte(0x11+i))
						}
						w := []byte{0, 3, 0x80, 0, 0, 0, 0, 1, 0, 0, 0, 0, 0, 0, 42, 0, 1, 0, 0, 0, 0, byte(len(rd) >> 8), byte(len(rd))}
						w = append(w, rd...)
						hostile(w, false, "apl-sweep")
					}
				}
			}
		}
	}
	// (10) a private-use type registered with PrivateHandle: records of it with RDLENGTH 0, 1 and more, alone and
	// among others: accepted values can be printed, measured, copied and re-packed
	{
		const code = 65342
		dns.PrivateHandle("VHOSTILE", code, func() dns.PrivateRdata { return new(c02Priv) })
		for _, rd := range [][]byte{{}, {7}, {1, 2, 3, 4}, r.Bytes(40)} {
			for _, cnt := range []int{1, 3} {
				w := []byte{0, 2, 0x80, 0, 0, 0, 0, byte(cnt), 0, 0, 0, 0}
				for i := 0; i < cnt; i++ {
					w = append(w, 0, byte(code>>8), byte(code&0xff), 0, 1, 0, 0, 0, 0, byte(len(rd)>>8), byte(len(rd)))
					w = append(w, rd...)
				}
				hostile(w, false, "private-type")
				hostileRR(w, 12, false)
				for cut := 12; cut < len(w); cut++ {
					hostile(w[:cut], false, "private-type-truncated")
				}
				st["private_type_messages"]++
			}
		}
		dns.PrivateHandleRemove(code)
	}
	concurrentUse()
	for k, v := range classes {
		st["class:"+k] = v
	}
	Stat(st)
}
