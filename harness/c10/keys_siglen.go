package main

import (
	"encoding/base64"
	"fmt"
	"strings"

	"github.com/miekg/dns"
	. "verif/harness/common"
)

// Round-5 strengthening of C10.
//
// (a) sigLenCase: mutations of the LENGTH of the Signature field, for every algorithm: octets appended (one zero
//     octet, 0xff, a random octet, several, a second copy of the signature), prepended, the field cut at the end,
//     at the front, to one half, at a random place; for ECDSA also r and s padded / stripped separately and
//     together. A signature of RSA (RFC 8017 8.2.2 step 1: the length of the modulus), ECDSA (RFC 6605 4: exactly
//     2 x 32 / 2 x 48 octets) and Ed25519 (RFC 8080 4: 64 octets) has ONE length; the property says that any
//     change to the signature makes Verify fail.
// (b) keySeqCase: SEQUENCES of Verify calls with different DNSKEYs that an RRSIG cannot tell apart - same owner
//     (up to letter case), algorithm and key tag, different key material: two real keys (the second one's flags
//     are searched so that the RFC 4034 Appendix B checksum collides), and public keys altered so that the
//     checksum is kept (two words swapped, +1 / -1 on two words). Whatever was verified before, with whichever
//     key: Verify succeeds iff the signature was made by the key it is given ("a valid signature under THAT key").

// ---------------------------------------------------------------- (a) signature length
type sigMut struct {
	name string
	sig  []byte
	// ECDSA only: both halves padded with / stripped of the same number of zero octets, so that a split in
	// the middle gives the same two integers (kept apart: own violation key, no model case)
	sameInts bool
}

func catb(bs ...[]byte) []byte {
	var o []byte
	for _, b := range bs {
		o = append(o, b...)
	}
	return o
}

func nonZero(r *Rng, n int) []byte {
	b := r.Bytes(n)
	for i := range b {
		if b[i] == 0 {
			b[i] = 0x5a
		}
	}
	return b
}

func sigLenMutations(r *Rng, alg uint8, sb []byte) []sigMut {
	n := len(sb)
	if n < 4 {
		return nil
	}
	zeros := func(k int) []byte { return make([]byte, k) }
	ms := []sigMut{
		{"appended-00", catb(sb, zeros(1)), false},
		{"appended-ff", catb(sb, []byte{0xff}), false},
		{"appended-octet", catb(sb, r.Bytes(1)), false},
		{"appended-octets", catb(sb, r.Bytes(2+r.Intn(15))), false},
		{"appended-zeros", catb(sb, zeros(2+r.Intn(7))), false},
		{"appended-copy", catb(sb, sb), false},
		{"appended-half", catb(sb, sb[:n/2]), false},
		{"prepended-00", catb(zeros(1), sb), false},
		{"prepended-octet", catb(nonZero(r, 1), sb), false},
		{"prepended-octets", catb(r.Bytes(2+r.Intn(15)), sb), false},
		{"prepended-zeros", catb(zeros(2+2*r.Intn(4)), sb), false},
		{"cut-front-1", sb[1:], false},
		{"cut-end-2", sb[:n-2], false},
		{"cut-to-first-half", sb[:n/2], false},
		{"cut-to-second-half", sb[n/2:], false},
		{"cut-at-random", sb[:1+r.Intn(n-1)], false},
		{"cut-front-at-random", sb[1+r.Intn(n-1):], false},
		{"cut-to-one-octet", sb[:1], false},
	}
	if alg == 13 || alg == 14 {
		h := n / 2
		rr, ss := sb[:h], sb[h:]
		k := 2 + r.Intn(7)
		ms = append(ms,
			sigMut{"ecdsa-r-and-s-zero-padded-1", catb(zeros(1), rr, zeros(1), ss), true},
			sigMut{"ecdsa-r-and-s-zero-padded-n", catb(zeros(k), rr, zeros(k), ss), true},
			sigMut{"ecdsa-r-zero-padded", catb(zeros(1), rr, ss), false},
			sigMut{"ecdsa-s-zero-padded", catb(rr, zeros(1), ss), false},
			sigMut{"ecdsa-r-s-padded-unequally", catb(zeros(2), rr, zeros(1), ss), false},
			sigMut{"ecdsa-r-and-s-octet-padded", catb(nonZero(r, 1), rr, nonZero(r, 1), ss), false},
		)
		if rr[0] == 0 && ss[0] == 0 {
			ms = append(ms, sigMut{"ecdsa-r-and-s-zero-stripped", catb(rr[1:], ss[1:]), true})
		}
		if rr[0] == 0 {
			ms = append(ms, sigMut{"ecdsa-r-zero-stripped", catb(rr[1:], ss), false})
		}
		if ss[0] == 0 {
			ms = append(ms, sigMut{"ecdsa-s-zero-stripped", catb(rr, ss[1:]), false})
		}
	} else if sb[0] == 0 {
		ms = append(ms, sigMut{"leading-zero-stripped", sb[1:], false})
	}
	return ms
}

// g is the output of Sign for rs under kp (already verified). emitN: number of mutations that also become
// model cases (the model calls the primitive on the altered field; Go's crypto/* refuses every other length).
func sigLenCase(r *Rng, kp *keyPair, g *dns.RRSIG, sf *sigF, rs []*rec, emitN int) {
	sb, err := base64.StdEncoding.DecodeString(g.Signature)
	if err != nil {
		return
	}
	ms := sigLenMutations(r, g.Algorithm, sb)
	emitFrom := 0
	if len(ms) > 0 {
		emitFrom = r.Intn(len(ms))
	}
	for i, m := range ms {
		g2 := dns.Copy(g).(*dns.RRSIG)
		g2.Signature = base64.StdEncoding.EncodeToString(m.sig)
		emit := !m.sameInts && (i-emitFrom+len(ms))%len(ms) < emitN
		st["siglen_checked"]++
		got := verifyCase(kp, kp.k, kp.owner, g2, sf, rs, emit)
		if got != "ok:" && got != "panic" {
			continue
		}
		what := fmt.Sprintf("%s: Signature of %d octets instead of %d", m.name, len(m.sig), len(sb))
		if m.sameInts && got == "ok:" {
			Viol("C10/Verify/ecdsa-signature-not-fixed-width", "Verify(ok) for an ECDSA signature whose r and s are both padded with (stripped of) zero octets; RFC 6605 4 fixes the field at 2 x 32 / 2 x 48 octets, the altered RRSIG is accepted like the original",
				mkIn(kp, g2, sf, rs, what))
			continue
		}
		Viol("C10/Verify/accepts-altered-signature-length-"+m.name, "Verify("+got+") after changing the length of the signature ("+what+")", mkIn(kp, g2, sf, rs, what))
	}
}

// ---------------------------------------------------------------- (b) keys with one identity
// RFC 4034 Appendix B, from the RDATA fields
func refKeyTag(flags uint16, proto, alg uint8, pub []byte) uint16 {
	rd := append([]byte{byte(flags >> 8), byte(flags), proto, alg}, pub...)
	var ac uint32
	for i, b := range rd {
		if i&1 == 0 {
			ac += uint32(b) << 8
		} else {
			ac += uint32(b)
		}
	}
	ac += (ac >> 16) & 0xffff
	return uint16(ac & 0xffff)
}

// a second, real key pair of the same algorithm at the same owner whose flags (ZONE bit kept, as few other
// bits as possible) are chosen so that its key tag is tag
func twinKey(r *Rng, a *keyPair, tag uint16) *keyPair {
	for try := 0; try < 40; try++ {
		b := newKey(r, a.k.Algorithm, a.owner)
		best, bits := -1, 99
		for f := 0; f < 0x10000; f++ {
			if f&256 == 0 || refKeyTag(uint16(f), 3, b.k.Algorithm, b.pub) != tag {
				continue
			}
			n := 0
			for x := f; x != 0; x &= x - 1 {
				n++
			}
			if n < bits {
				best, bits = f, n
			}
		}
		if best < 0 {
			st["twin_key_retry"]++
			continue
		}
		b.k.Flags = uint16(best)
		if b.k.KeyTag() != tag {
			Viol("C10/key/key-tag", fmt.Sprintf("KeyTag() = %d, RFC 4034 Appendix B gives %d", b.k.KeyTag(), tag), map[string]string{"dnskey": b.k.String()})
			return nil
		}
		return b
	}
	return nil
}

// public keys derived from a's that keep the checksum: two different aligned 16-bit words swapped; +1 on one
// word and -1 on another. The public key starts at RDATA offset 4, so even offsets are word boundaries.
func sameTagAlterations(r *Rng, a *keyPair) []*keyPair {
	var out []*keyPair
	n := len(a.pub) &^ 1
	mk := func(pb []byte) {
		k := dns.Copy(a.k).(*dns.DNSKEY)
		k.PublicKey = base64.StdEncoding.EncodeToString(pb)
		if k.KeyTag() == a.k.KeyTag() && k.PublicKey != a.k.PublicKey {
			out = append(out, &keyPair{k: k, owner: a.owner, pub: pb})
		}
	}
	lo := n / 2 &^ 1 // the second half: the modulus of an RSA key, Y of an ECDSA key
	n -= 2           // not the last word: an RSA modulus stays odd (crypto/rsa refuses an even one with an error of its own)
	for t := 0; t < 50; t++ {
		i := lo + 2*r.Intn((n-lo)/2)
		j := lo + 2*r.Intn((n-lo)/2)
		if a.pub[i] == a.pub[j] && a.pub[i+1] == a.pub[j+1] {
			continue
		}
		pb := append([]byte{}, a.pub...)
		pb[i], pb[i+1], pb[j], pb[j+1] = a.pub[j], a.pub[j+1], a.pub[i], a.pub[i+1]
		mk(pb)
		break
	}
	for t := 0; t < 50; t++ {
		i := lo + 2*r.Intn((n-lo)/2)
		j := lo + 2*r.Intn((n-lo)/2)
		if i == j || a.pub[i+1] == 0xff || a.pub[j+1] == 0 {
			continue
		}
		pb := append([]byte{}, a.pub...)
		pb[i+1]++
		pb[j+1]--
		mk(pb)
		break
	}
	return out
}

type seqSig struct {
	g     *dns.RRSIG
	sf    *sigF
	rs    []*rec
	maker int
	name  string
}

// a and b: two key pairs with the same algorithm and key tag (different material). zone: a name no Verify call
// has seen so far. mode selects which call comes first.
func keySeqCase(r *Rng, a, b *keyPair, zone [][]byte, byTyp map[uint16]tdef, mode int) {
	A := a.at(zone, dns.ClassINET)
	B := b.at(zone, dns.ClassINET)
	if mode%2 == 1 {
		B = b.at(flipCase(r, zone), dns.ClassINET) // the same owner spelled differently
	}
	keys := []*keyPair{A, B}
	names := []string{"A", "B"}
	for i, c := range sameTagAlterations(r, A) {
		keys = append(keys, c)
		names = append(names, fmt.Sprintf("A-altered-%d", i+1))
	}
	tag := A.k.KeyTag()
	if B.k.KeyTag() != tag || B.k.PublicKey == A.k.PublicKey {
		st["keyseq_not_built"]++
		return
	}
	// two RRsets, each signed by A and by B with identical RRSIG fields
	var sigs []*seqSig
	for si, t := range []uint16{dns.TypeA, dns.TypeMX} {
		owner := cat(alnumName(r, 0, 2), flipCase(r, zone))
		if !validWire(owner) {
			owner = zone
		}
		nm := func() [][]byte { return cat(alnumName(r, 1, 2), zone) }
		var rs []*rec
		for i, nrec := 0, 1+r.Intn(3); i < nrec; i++ {
			rs = append(rs, genRec(r, byTyp[t], owner, dns.ClassINET, 600, nm))
		}
		signer := flipCase(r, zone)
		exp, inc := uint32(r.Next()), uint32(r.Next())
		for mi, kp := range keys[:2] {
			g := &dns.RRSIG{Hdr: dns.RR_Header{Ttl: 600}, Algorithm: kp.k.Algorithm, Expiration: exp, Inception: inc, KeyTag: tag, SignerName: showName(signer)}
			if err := g.Sign(kp.priv, rrsOf(rs)); err != nil {
				Viol("C10/Sign/error", "Sign failed: "+err.Error(), mkIn(kp, g, nil, rs, "key sequence"))
				return
			}
			sf := sigFOf(g, owner, signer)
			sb, _ := base64.StdEncoding.DecodeString(g.Signature)
			body, ok := refCanon(sf, rs, rfcLower)
			if !ok || !cryptoVerify(g.Algorithm, kp.pub, append(refSigPrefix(sf), body...), sb) {
				Viol("C10/Sign/signature-not-over-rfc-octets", "the signature does not verify (crypto/* called directly) over the RFC 4034 3.1.8.1 octets", mkIn(kp, g, sf, rs, "key sequence"))
				return
			}
			sigs = append(sigs, &seqSig{g, sf, rs, mi, fmt.Sprintf("sig%d-by-%s", si+1, names[mi])})
		}
	}
	// sigs: 0 = rrset 1 by A, 1 = rrset 1 by B, 2 = rrset 2 by A, 3 = rrset 2 by B
	type step struct{ k, s int }
	var steps []step
	switch mode % 4 {
	case 0: // the signing key first
		steps = []step{{0, 0}, {1, 0}, {1, 1}, {0, 1}, {0, 2}, {1, 3}}
	case 1: // the other pair first
		steps = []step{{1, 1}, {0, 1}, {0, 0}, {1, 0}, {1, 3}, {0, 2}}
	case 2: // the first call is one that must fail
		steps = []step{{1, 0}, {0, 0}, {1, 1}, {0, 3}, {0, 2}, {1, 2}}
	case 3: // an altered public key first
		last := len(keys) - 1
		steps = []step{{last, 0}, {0, 0}, {last, 2}, {1, 1}, {2 % len(keys), 1}, {0, 2}}
	}
	for i := 0; i < 8; i++ {
		steps = append(steps, step{r.Intn(len(keys)), r.Intn(len(sigs))})
	}
	var hist []string
	fired := map[string]bool{}
	for i, s := range steps {
		kp, sg := keys[s.k], sigs[s.s]
		want := s.k == sg.maker
		st["keyseq_checked"]++
		got := verifyCase(kp, kp.k, kp.owner, sg.g, sg.sf, sg.rs, i < 6)
		st["keyseq_"+got]++
		call := fmt.Sprintf("Verify(key %s, %s) = %s", names[s.k], sg.name, got)
		hist = append(hist, call)
		key, desc := "", ""
		switch {
		case want && got != "ok:":
			key = "C10/Verify/key-sequence-rejects-signing-key"
			desc = "Verify(" + got + ") with the key that made the signature, in a sequence of calls with several keys of the same owner, algorithm and key tag"
		case !want && (got == "ok:" || got == "panic"):
			key = "C10/Verify/key-sequence-accepts-other-key-with-same-tag"
			desc = "Verify(" + got + ") with a key that did not make the signature (same owner, algorithm and key tag, other key material), in a sequence of calls"
		}
		if key != "" && !fired[key] {
			fired[key] = true
			in := map[string]any{"algorithm": kp.k.Algorithm, "calls_in_order": strings.Join(hist, "\n"), "failing_call": call,
				"key_used": kp.k.String(), "rrsig": sg.g.String(), "rrset_fields": rrsetArg(sg.rs), "rrsig_fields": sg.sf.arg()}
			for j, k := range keys {
				in["key_"+names[j]] = k.k.String()
			}
			Viol(key, desc, in)
		}
	}
}

// keyTagCarryCase: real keys whose RFC 4034 Appendix B checksum meets the corners of its last step: the low
// 16 bits plus the carries overflow 16 bits again (that second carry is DISCARDED by the RFC), the sum is
// exactly 0xFFFF, the high part is exactly 1. The flags are searched so that the corner is hit (ZONE bit
// kept); the RRSIG carries the RFC tag computed here, not KeyTag(): it must verify.
func keyTagCarryCase(r *Rng, keys []*keyPair) {
	done := map[uint8]int{}
	for _, a := range keys {
		alg := a.k.Algorithm
		if done[alg] >= 2 {
			continue
		}
		for _, corner := range []string{"second-carry", "sum-ffff", "low-zero"} {
			found := -1
			for f := 0; f < 0x10000 && found < 0; f++ {
				if f&256 == 0 || f&128 != 0 { // a zone key that is not revoked
					continue
				}
				rd := append([]byte{byte(f >> 8), byte(f), 3, alg}, a.pub...)
				var ac uint32
				for i, b := range rd {
					if i&1 == 0 {
						ac += uint32(b) << 8
					} else {
						ac += uint32(b)
					}
				}
				lo, hi := ac&0xffff, ac>>16
				switch corner {
				case "second-carry":
					if lo+hi > 0xffff {
						found = f
					}
				case "sum-ffff":
					if lo+hi == 0xffff {
						found = f
					}
				case "low-zero":
					if lo == 0 && hi > 0 {
						found = f
					}
				}
			}
			if found < 0 {
				st["keytag_corner_not_reachable_"+corner]++
				continue
			}
			k := dns.Copy(a.k).(*dns.DNSKEY)
			k.Flags = uint16(found)
			want := refKeyTag(k.Flags, 3, alg, a.pub)
			in := map[string]string{"key": k.String(), "corner": corner, "rfc_tag": Itoa(int(want))}
			st["keytag_corner_checked"]++
			if got := k.KeyTag(); got != want {
				Viol("C10/KeyTag/corner-"+corner, "KeyTag() = "+Itoa(int(got))+", RFC 4034 Appendix B gives "+Itoa(int(want)), in)
			}
			rrset := []dns.RR{&dns.A{Hdr: dns.RR_Header{Name: k.Hdr.Name, Rrtype: dns.TypeA, Class: 1, Ttl: 60}, A: []byte{192, 0, 2, 1}}}
			sig := &dns.RRSIG{KeyTag: want, SignerName: k.Hdr.Name, Algorithm: alg, Inception: 1700000000, Expiration: 1800000000}
			if err := sig.Sign(a.priv, rrset); err != nil {
				st["keytag_corner_sign_failed"]++
				continue
			}
			sig.KeyTag = want
			if err := sig.Verify(k, rrset); err != nil {
				Viol("C10/Verify/rfc-key-tag-rejected/"+corner, "an RRSIG carrying the RFC 4034 Appendix B tag of its key does not verify: "+err.Error(), in)
			}
			sig.KeyTag = want + 1
			if err := sig.Verify(k, rrset); err == nil {
				Viol("C10/Verify/wrong-key-tag-accepted/"+corner, "an RRSIG whose key tag is one more than the key's RFC tag verifies", in)
			}
		}
		done[alg]++
	}
}

func runRound5(r *Rng, tier string, keys []*keyPair) {
	keyTagCarryCase(r, keys)
	byTyp := map[uint16]tdef{}
	for _, td := range tdefs {
		byTyp[td.typ] = td
	}
	rounds := 1
	if tier == "thorough" {
		rounds = 4
	}
	seen := map[uint8]int{}
	zi := 0
	for _, a := range keys {
		alg := a.k.Algorithm
		if len(a.pub) > 300 || seen[alg] >= rounds { // one pair per algorithm (the 4096-bit keys: nothing specific)
			continue
		}
		seen[alg]++
		b := twinKey(r, a, a.k.KeyTag())
		if b == nil {
			st["keyseq_not_built"]++
			continue
		}
		for mode := 0; mode < 4; mode++ {
			zi++
			zone := [][]byte{[]byte(fmt.Sprintf("Seq%d", zi)), []byte("keys"), []byte("Example")}
			keySeqCase(r, a, b, zone, byTyp, mode)
		}
	}
}

// ---------------------------------------------------------------- (c) signature TEXT (round 9b)
// The Signature field of a caller-built RRSIG is a TEXT (base64, RFC 4648 4 with padding). The mutations above
// change the decoded octets and re-encode them, so the text was always well formed. Here the TEXT is altered:
// characters outside the alphabet appended / prepended / inserted, extra padding, white space, the URL alphabet,
// a complete group after the padding, padding replaced by a digit, the last 1..3 characters cut. None of these
// texts is the base64 encoding of the signature octets (each is either no base64 at all or decodes to another,
// longer or shorter octet string); "any change to ... signature makes it fail".
// Left out on purpose: CR / LF (encoding/base64 skips them) and changes of the unused low bits of the last
// digit before padding (a lenient decoder yields the same octets) - the property does not say that two texts
// for the SAME octets must be told apart.
type sigTextMut struct{ name, text string }

func sigTextMutations(r *Rng, s string) []sigTextMut {
	var ms []sigTextMut
	add := func(name, text string) {
		if text != s {
			ms = append(ms, sigTextMut{name, text})
		}
	}
	for _, sfx := range []string{"!", "*", "=", "==", "====", " ", "\t", " x", ".", "-", "_", "\x00", "\x80", "AAAA", "QUJD", "QUJD!", "A", "AA", "AA==", "A==="} {
		add(fmt.Sprintf("appended-%q", sfx), s+sfx)
	}
	for _, pfx := range []string{"!", "=", " ", "====", "-"} {
		add(fmt.Sprintf("prepended-%q", pfx), pfx+s)
	}
	body := strings.TrimRight(s, "=")
	if len(body) > 8 {
		for _, ins := range []string{"!", " ", "=", "-", "_", "\x00"} {
			p := 1 + r.Intn(len(body)-1)
			add(fmt.Sprintf("inserted-%q-at-%d", ins, p), s[:p]+ins+s[p:])
			q := 4 * (1 + r.Intn(len(body)/4-1)) // between two complete groups
			add(fmt.Sprintf("inserted-%q-at-%d", ins, q), s[:q]+ins+s[q:])
			p2 := r.Intn(len(body))
			add(fmt.Sprintf("replaced-by-%q-at-%d", ins, p2), s[:p2]+ins+s[p2+1:])
		}
	}
	if len(body) < len(s) {
		add("padding-replaced-by-digits", body+strings.Repeat("A", len(s)-len(body)))
		add("padding-replaced-by-!", body+strings.Repeat("!", len(s)-len(body)))
		add("padding-then-signature-again", s+s)
	}
	for cut := 1; cut <= 3 && cut < len(body); cut++ {
		add(fmt.Sprintf("last-%d-digits-cut", cut), body[:len(body)-cut]+s[len(body):])
	}
	return ms
}

// g is the output of Sign for rs under kp (already verified).
func sigTextCase(r *Rng, kp *keyPair, g *dns.RRSIG, sf *sigF, rs []*rec) {
	if _, err := base64.StdEncoding.DecodeString(g.Signature); err != nil {
		return
	}
	for _, m := range sigTextMutations(r, g.Signature) {
		g2 := dns.Copy(g).(*dns.RRSIG)
		g2.Signature = m.text
		st["sigtext_checked"]++
		got := verifyCase(kp, kp.k, kp.owner, g2, sf, rs, false)
		if got != "ok:" && got != "panic" {
			continue
		}
		what := fmt.Sprintf("Signature text %s: %q instead of %q", m.name, m.text, g.Signature)
		Viol("C10/Verify/accepts-altered-signature-text", "Verify("+got+") after changing the text of the Signature field ("+m.name+")", mkIn(kp, g2, sf, rs, what))
	}
}
