(* Proofs/EscapeProofs.v — the left-to-right escape automaton and its relation
   to the backslash-run parity used by NextLabel/PrevLabel/IsFqdn; facts about
   the printed form of a label (show_label). *)
From Dns Require Import Base.ListX Model.Labels.
From Coq Require Import Lia ZifyN ZifyNat ZifyBool.
Open Scope N_scope.

(* state = true: the next octet is escaped (preceded by an unescaped backslash) *)
Definition esc_step (st : bool) (c : N) : bool := if st then false else c =? 92.
Fixpoint scan (st : bool) (s : bytes) : bool :=
  match s with [] => st | c :: r => scan (esc_step st c) r end.
(* does s, read from state st, contain an unescaped dot? *)
Fixpoint has_sep (st : bool) (s : bytes) : bool :=
  match s with
  | [] => false
  | c :: r => (negb st && (c =? 46)) || has_sep (esc_step st c) r
  end.

Lemma scan_app st a b : scan st (a ++ b) = scan (scan st a) b.
Proof. revert st; induction a as [|c a IH]; intros st; cbn; [reflexivity|apply IH]. Qed.

Lemma has_sep_app st a b : has_sep st (a ++ b) = has_sep st a || has_sep (scan st a) b.
Proof.
  revert st; induction a as [|c a IH]; intros st; cbn; [reflexivity|].
  rewrite IH. now rewrite orb_assoc.
Qed.

(* parity of the backslash run before a position = escape state there *)
Lemma bs_run_parity p : Nat.odd (bs_run (rev p)) = scan false p.
Proof.
  induction p as [|c p IH] using rev_ind; [reflexivity|].
  rewrite rev_app_distr, scan_app. cbn [rev app bs_run scan].
  rewrite <- IH. unfold esc_step.
  destruct (N.eqb_spec c 92) as [->|Hc].
  - rewrite Nat.odd_succ, <- Nat.negb_odd. now destruct (Nat.odd _).
  - now destruct (Nat.odd _).
Qed.

Lemma bs_run_even p : Nat.even (bs_run (rev p)) = negb (scan false p).
Proof. now rewrite <- bs_run_parity, Nat.negb_odd. Qed.

(* ---- finite sweep over the 256 octet values ---- *)
Definition all_octets : list N := map N.of_nat (seq 0 256).
Lemma in_all_octets b : b < 256 -> In b all_octets.
Proof.
  intro H. unfold all_octets. apply in_map_iff. exists (N.to_nat b). split; [lia|].
  apply in_seq. lia.
Qed.
Lemma octet_sweep (P : N -> bool) :
  forallb P all_octets = true -> forall b, b < 256 -> P b = true.
Proof. intros H b Hb. rewrite forallb_forall in H. apply H, in_all_octets, Hb. Qed.

(* the printed form of one octet, read from the unescaped state, contains no
   separator and leaves the automaton unescaped; it is never empty *)
Lemma show_octet_scan b : b < 256 ->
  scan false (show_octet b) = false /\ has_sep false (show_octet b) = false.
Proof.
  intro Hb.
  assert (H : (negb (scan false (show_octet b)) && negb (has_sep false (show_octet b))) = true).
  { revert b Hb. apply octet_sweep. vm_compute. reflexivity. }
  apply andb_prop in H. destruct H as [H1 H2].
  split; [now destruct (scan _ _)|now destruct (has_sep _ _)].
Qed.

Lemma show_label_scan l : wfb l ->
  scan false (show_label l) = false /\ has_sep false (show_label l) = false.
Proof.
  unfold show_label. induction 1 as [|b l Hb _ IH]; cbn; [auto|].
  destruct (show_octet_scan b Hb) as [H1 H2]. destruct IH as [I1 I2].
  rewrite scan_app, has_sep_app, H1, H2, I1, I2. auto.
Qed.

Lemma show_octet_nonempty b : show_octet b <> [].
Proof. unfold show_octet, ddd. destruct (label_special b); [discriminate|]. destruct (_ || _); discriminate. Qed.

Lemma show_label_nonempty l : l <> [] -> show_label l <> [].
Proof.
  destruct l as [|b l]; [congruence|]. intros _. unfold show_label. cbn.
  pose proof (show_octet_nonempty b). destruct (show_octet b); [congruence|discriminate].
Qed.

Lemma bytes_eqb_eq a b : bytes_eqb a b = true <-> a = b.
Proof.
  unfold bytes_eqb. revert b; induction a as [|x a IH]; destruct b as [|y b]; cbn; split; try discriminate; try reflexivity.
  - intro H. apply andb_prop in H. destruct H as [H1 H2]. apply N.eqb_eq in H1. apply IH in H2. now subst.
  - intro H. injection H as -> ->. rewrite N.eqb_refl. cbn. now apply IH.
Qed.

(* lower-casing commutes with printing *)
Lemma lower_show_octet b : b < 256 -> lower_bytes (show_octet b) = show_octet (lower b).
Proof.
  intro Hb.
  assert (H : bytes_eqb (lower_bytes (show_octet b)) (show_octet (lower b)) = true).
  { revert b Hb. apply octet_sweep. vm_compute. reflexivity. }
  now apply bytes_eqb_eq.
Qed.

Lemma lower_show_label l : wfb l -> lower_bytes (show_label l) = show_label (lower_bytes l).
Proof.
  unfold show_label, lower_bytes. induction 1 as [|b l Hb _ IH]; cbn; [reflexivity|].
  rewrite map_app, IH. f_equal. apply lower_show_octet, Hb.
Qed.
