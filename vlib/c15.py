from .core import Check


class C15(Check):
    prop = "C15"
    props_rel = "Props/C15"
    corr_module = "Corr.C15"
    corr_rel = "Corr/C15"
    extra_rels = ["Proofs/XfrProofs", "Spec/RfcXfr"]
    model_desc = ("Model/Xfr.v: Transfer.inAxfr / inIxfr / ReadMsg / isSOAFirst / isSOALast modelled loop by loop as "
                  "functions from the list of read results (envelope = id, rcode, answer records as (is-SOA, serial, "
                  "payload id), TSIG description; or a failed read) to the list of Envelope{RR, Error} items sent on "
                  "the channel; TSIG verification is a universally quantified function in the theorems and an "
                  "idealised MAC (tags) in the correspondence runner; Spec/RfcXfr.v: RFC 5936 / RFC 1995 record "
                  "streams and their splits into envelopes")
    rule = ("real Transfer.In over a scripted net.Conn (chunked reads, EOF or timeout at the end) and over a loopback "
            "TCP dns.Server using Transfer.Out; every composition of AXFR zones with 2..6 records and of IXFR streams "
            "(one or two difference sequences, AXFR-style, up to date) with 1..6 records, without and with TSIG "
            "(HMAC-SHA256 via dns.TsigGenerate); faults at every envelope of every composition of small streams: wrong "
            "ID, RCODE, EOF, cut frame, non-SOA first, empty first; TSIG faults at every position: tamper, unsigned, "
            "wrong secret, unknown key, bad time, wrong form, wrong previous MAC, drop, swap, duplicate; close at every "
            "octet; malformed senders; 500 random read sequences; wire-level edits of a signed envelope at every "
            "envelope of every composition (MAC cut to every length below the full one for the five HMAC algorithms, MAC "
            "bits / extension / replacement, Original ID, time, fudge, key name, algorithm, error, other data, class, TTL, "
            "TSIG removed / moved / repeated / followed or preceded by a record), chains signed by the harness's own RFC "
            "8945 signer; header ID differing from the query's in either octet at every envelope with no TSIG record, "
            "with a TSIG record whose Original ID is the query's / the header's / neither, MAC valid, empty or stale, "
            "receiver with and without key; every RCODE 1..15 at every envelope, sent or set on the path; zones made of records "
            "of every registered type (common.GenRR over all types but SOA/OPT/TSIG, SVCB/HTTPS with every SvcParam kind) "
            "in early envelopes followed by 1..4 later envelopes of natural / non-decreasing / equal length, every "
            "composition of small such zones and sampled compositions of larger ones, AXFR, AXFR-style IXFR and difference "
            "sequences, compression on and off; the receiver keeps every envelope and a received record counts as "
            "transmitted only if its uncompressed wire form is that of the transmitted record when compared after the "
            "channel was closed (and it must not have changed since it was received); envelopes of exactly 2^k-1, 2^k, "
            "2^k+1 octets (k = 9..15) and 65533, 65534, 65535 octets as the only / first / middle / last / every envelope, "
            "made of one large or of many records, with and without TSIG, read in chunks around those lengths; sequences of "
            "transfers in one process while the TSIG configuration changes (same key name with another secret, other key "
            "names, TSIG off and on, other algorithm; new Transfer values and one value): every pair and TSIG-on triple of "
            "(receiver secret, sender secret), the long-used key name rolled over, random histories, incoming on the "
            "scripted connection and outgoing through Transfer.Out in a dns.Server on an in-memory listener whose peer is "
            "the harness's own RFC 8945 signer/verifier or Transfer.In; the query written by every Transfer.In is verified "
            "with the configured secret; transfers on a connection that honours the read deadline in force at every "
            "envelope read (SetReadDeadline / SetDeadline calls recorded with the moment they are made) while the sender "
            "paces its envelopes (each arrives less than ReadTimeout after the one before it, the sum well above "
            "ReadTimeout) and / or the consumer of the channel pauses between items (also longer than ReadTimeout): every "
            "composition of an AXFR, an AXFR-style IXFR and a difference-sequence stream, TSIG off / on, uniform, "
            "per-envelope and random patterns, ReadTimeout 80 / 120 ms, left zero (2 s default) and above the default "
            "(3 s), verdict independent of scheduling; transfers over a caller-supplied DATAGRAM connection (a "
            "net.PacketConn in Transfer.Conn, every envelope one datagram without length prefix: IXFR over UDP, RFC 1995): "
            "every composition of small AXFR / IXFR streams, up to date, TSIG off / on, faults at every envelope (ID, "
            "RCODE, nothing more arrives, non-SOA / empty first, tamper, unsigned, wrong secret, MAC cut, drop, swap, "
            "duplicate), zones of records of every type, and answer datagrams of exactly L octets for every L from the "
            "smallest up to 1600, both sides of every power of two up to 32768, around 1232 / 1452 / 1472 / 65507 and "
            "65533..65535, sampled lengths in between, as the only / first / middle / last / every datagram, "
            "Conn.UDPSize unset and set below, at and above the datagram length; the query must be one datagram holding "
            "the message; TSIG key and algorithm names spelled in lower, upper and mixed case (key name in TsigSecret and "
            "SetTsig, algorithm name in SetTsig, both on the wire from the peer echoed or in yet another spelling), five "
            "algorithms: the query written by Transfer.In must verify under the harness's own RFC 8945 verifier (names in "
            "canonical form in the digest), chains signed by the harness's own signer must be delivered exactly and an "
            "altered envelope of such a chain must end the transfer, Transfer.Out in a dns.Server must accept a request "
            "signed that way and write envelopes that verify; sender compositions of an envelope beside the record split (shape.go): question section in every envelope / only in the first / only in the first in another case / from the second on in another case / alternating / first and last, AA cleared, RA, RD, an OPT record before the TSIG record, compression per envelope, crossed with every composition of small AXFR / IXFR / AXFR-style streams and the single-SOA answers, TSIG off / on (both signers), stream and datagram connection: delivered exactly (C15/exact/envelope-shape), and wrong ID / RCODE / early end / unsigned / otherwise keyed / altered envelope in such shapes still reported. A case is the "
            "(kind, tsig, query, read list) tuple; "
            "non-trivial when at least two reads; distinct by hash of (function, arguments, output).")
    partial = [
        "closing of channel and connection, and that nothing is read after the closing SOA, are observed on the "
        "implementation by the harness (every transfer), not proved: the model is the list of items, the Go defer "
        "that closes is outside it",
        "TSIG: the theorems hold for every verification function; that HMAC verification fails for an altered, "
        "reordered, unsigned or wrongly keyed envelope is real cryptography, exercised by the harness with real "
        "HMAC-SHA256 (the correspondence runner uses an idealised MAC)",
        "read errors: short frames, EOF, deadline and unpack failures are one class (failed read) in the model; "
        "that each of them makes Transfer.ReadMsg return an error is observed (cut at every octet), not proved",
    ]
    trusted = ["idealised MAC in Corr/C15.v (verify_tag): a MAC verifies iff key, previous MAC, form and octets are "
               "those it was computed over; the Props/C15.v theorems do not depend on it"]

    def nontrivial(self, c):
        return len(c["args"]) > 5


CHECK = C15()
